
(** val negb : bool -> bool **)

let negb = function
| true -> false
| false -> true

type nat =
| O
| S of nat

(** val option_map : ('a1 -> 'a2) -> 'a1 option -> 'a2 option **)

let option_map f = function
| Some a -> Some (f a)
| None -> None

(** val fst : ('a1 * 'a2) -> 'a1 **)

let fst = function
| (x, _) -> x

(** val snd : ('a1 * 'a2) -> 'a2 **)

let snd = function
| (_, y) -> y

(** val length : 'a1 list -> nat **)

let rec length = function
| [] -> O
| _ :: l' -> S (length l')

(** val app : 'a1 list -> 'a1 list -> 'a1 list **)

let rec app l m =
  match l with
  | [] -> m
  | a :: l1 -> a :: (app l1 m)

type comparison =
| Eq
| Lt
| Gt

module Coq__1 = struct
 (** val add : nat -> nat -> nat **)
 let rec add n0 m =
   match n0 with
   | O -> m
   | S p -> S (add p m)
end
include Coq__1

type positive =
| XI of positive
| XO of positive
| XH

type n =
| N0
| Npos of positive

module Nat =
 struct
  (** val eqb : nat -> nat -> bool **)

  let rec eqb n0 m =
    match n0 with
    | O -> (match m with
            | O -> true
            | S _ -> false)
    | S n' -> (match m with
               | O -> false
               | S m' -> eqb n' m')

  (** val leb : nat -> nat -> bool **)

  let rec leb n0 m =
    match n0 with
    | O -> true
    | S n' -> (match m with
               | O -> false
               | S m' -> leb n' m')

  (** val ltb : nat -> nat -> bool **)

  let ltb n0 m =
    leb (S n0) m
 end

module Pos =
 struct
  type mask =
  | IsNul
  | IsPos of positive
  | IsNeg
 end

module Coq_Pos =
 struct
  (** val succ : positive -> positive **)

  let rec succ = function
  | XI p -> XO (succ p)
  | XO p -> XI p
  | XH -> XO XH

  (** val add : positive -> positive -> positive **)

  let rec add x y =
    match x with
    | XI p ->
      (match y with
       | XI q -> XO (add_carry p q)
       | XO q -> XI (add p q)
       | XH -> XO (succ p))
    | XO p ->
      (match y with
       | XI q -> XI (add p q)
       | XO q -> XO (add p q)
       | XH -> XI p)
    | XH -> (match y with
             | XI q -> XO (succ q)
             | XO q -> XI q
             | XH -> XO XH)

  (** val add_carry : positive -> positive -> positive **)

  and add_carry x y =
    match x with
    | XI p ->
      (match y with
       | XI q -> XI (add_carry p q)
       | XO q -> XO (add_carry p q)
       | XH -> XI (succ p))
    | XO p ->
      (match y with
       | XI q -> XO (add_carry p q)
       | XO q -> XI (add p q)
       | XH -> XO (succ p))
    | XH ->
      (match y with
       | XI q -> XI (succ q)
       | XO q -> XO (succ q)
       | XH -> XI XH)

  (** val pred_double : positive -> positive **)

  let rec pred_double = function
  | XI p -> XI (XO p)
  | XO p -> XI (pred_double p)
  | XH -> XH

  type mask = Pos.mask =
  | IsNul
  | IsPos of positive
  | IsNeg

  (** val succ_double_mask : mask -> mask **)

  let succ_double_mask = function
  | IsNul -> IsPos XH
  | IsPos p -> IsPos (XI p)
  | IsNeg -> IsNeg

  (** val double_mask : mask -> mask **)

  let double_mask = function
  | IsPos p -> IsPos (XO p)
  | x0 -> x0

  (** val double_pred_mask : positive -> mask **)

  let double_pred_mask = function
  | XI p -> IsPos (XO (XO p))
  | XO p -> IsPos (XO (pred_double p))
  | XH -> IsNul

  (** val sub_mask : positive -> positive -> mask **)

  let rec sub_mask x y =
    match x with
    | XI p ->
      (match y with
       | XI q -> double_mask (sub_mask p q)
       | XO q -> succ_double_mask (sub_mask p q)
       | XH -> IsPos (XO p))
    | XO p ->
      (match y with
       | XI q -> succ_double_mask (sub_mask_carry p q)
       | XO q -> double_mask (sub_mask p q)
       | XH -> IsPos (pred_double p))
    | XH -> (match y with
             | XH -> IsNul
             | _ -> IsNeg)

  (** val sub_mask_carry : positive -> positive -> mask **)

  and sub_mask_carry x y =
    match x with
    | XI p ->
      (match y with
       | XI q -> succ_double_mask (sub_mask_carry p q)
       | XO q -> double_mask (sub_mask p q)
       | XH -> IsPos (pred_double p))
    | XO p ->
      (match y with
       | XI q -> double_mask (sub_mask_carry p q)
       | XO q -> succ_double_mask (sub_mask_carry p q)
       | XH -> double_pred_mask p)
    | XH -> IsNeg

  (** val mul : positive -> positive -> positive **)

  let rec mul x y =
    match x with
    | XI p -> add y (XO (mul p y))
    | XO p -> XO (mul p y)
    | XH -> y

  (** val size : positive -> positive **)

  let rec size = function
  | XI p0 -> succ (size p0)
  | XO p0 -> succ (size p0)
  | XH -> XH

  (** val compare_cont : comparison -> positive -> positive -> comparison **)

  let rec compare_cont r x y =
    match x with
    | XI p ->
      (match y with
       | XI q -> compare_cont r p q
       | XO q -> compare_cont Gt p q
       | XH -> Gt)
    | XO p ->
      (match y with
       | XI q -> compare_cont Lt p q
       | XO q -> compare_cont r p q
       | XH -> Gt)
    | XH -> (match y with
             | XH -> r
             | _ -> Lt)

  (** val compare : positive -> positive -> comparison **)

  let compare =
    compare_cont Eq

  (** val eqb : positive -> positive -> bool **)

  let rec eqb p q =
    match p with
    | XI p0 -> (match q with
                | XI q0 -> eqb p0 q0
                | _ -> false)
    | XO p0 -> (match q with
                | XO q0 -> eqb p0 q0
                | _ -> false)
    | XH -> (match q with
             | XH -> true
             | _ -> false)

  (** val iter_op : ('a1 -> 'a1 -> 'a1) -> positive -> 'a1 -> 'a1 **)

  let rec iter_op op p a =
    match p with
    | XI p0 -> op a (iter_op op p0 (op a a))
    | XO p0 -> iter_op op p0 (op a a)
    | XH -> a

  (** val to_nat : positive -> nat **)

  let to_nat x =
    iter_op Coq__1.add x (S O)

  (** val of_succ_nat : nat -> positive **)

  let rec of_succ_nat = function
  | O -> XH
  | S x -> succ (of_succ_nat x)
 end

module N =
 struct
  (** val succ_double : n -> n **)

  let succ_double = function
  | N0 -> Npos XH
  | Npos p -> Npos (XI p)

  (** val double : n -> n **)

  let double = function
  | N0 -> N0
  | Npos p -> Npos (XO p)

  (** val add : n -> n -> n **)

  let add n0 m =
    match n0 with
    | N0 -> m
    | Npos p -> (match m with
                 | N0 -> n0
                 | Npos q -> Npos (Coq_Pos.add p q))

  (** val sub : n -> n -> n **)

  let sub n0 m =
    match n0 with
    | N0 -> N0
    | Npos n' ->
      (match m with
       | N0 -> n0
       | Npos m' ->
         (match Coq_Pos.sub_mask n' m' with
          | Coq_Pos.IsPos p -> Npos p
          | _ -> N0))

  (** val mul : n -> n -> n **)

  let mul n0 m =
    match n0 with
    | N0 -> N0
    | Npos p -> (match m with
                 | N0 -> N0
                 | Npos q -> Npos (Coq_Pos.mul p q))

  (** val compare : n -> n -> comparison **)

  let compare n0 m =
    match n0 with
    | N0 -> (match m with
             | N0 -> Eq
             | Npos _ -> Lt)
    | Npos n' -> (match m with
                  | N0 -> Gt
                  | Npos m' -> Coq_Pos.compare n' m')

  (** val eqb : n -> n -> bool **)

  let eqb n0 m =
    match n0 with
    | N0 -> (match m with
             | N0 -> true
             | Npos _ -> false)
    | Npos p -> (match m with
                 | N0 -> false
                 | Npos q -> Coq_Pos.eqb p q)

  (** val leb : n -> n -> bool **)

  let leb x y =
    match compare x y with
    | Gt -> false
    | _ -> true

  (** val size : n -> n **)

  let size = function
  | N0 -> N0
  | Npos p -> Npos (Coq_Pos.size p)

  (** val pos_div_eucl : positive -> n -> n * n **)

  let rec pos_div_eucl a b =
    match a with
    | XI a' ->
      let (q, r) = pos_div_eucl a' b in
      let r' = succ_double r in
      if leb b r' then ((succ_double q), (sub r' b)) else ((double q), r')
    | XO a' ->
      let (q, r) = pos_div_eucl a' b in
      let r' = double r in
      if leb b r' then ((succ_double q), (sub r' b)) else ((double q), r')
    | XH ->
      (match b with
       | N0 -> (N0, (Npos XH))
       | Npos p -> (match p with
                    | XH -> ((Npos XH), N0)
                    | _ -> (N0, (Npos XH))))

  (** val div_eucl : n -> n -> n * n **)

  let div_eucl a b =
    match a with
    | N0 -> (N0, N0)
    | Npos na -> (match b with
                  | N0 -> (N0, a)
                  | Npos _ -> pos_div_eucl na b)

  (** val div : n -> n -> n **)

  let div a b =
    fst (div_eucl a b)

  (** val modulo : n -> n -> n **)

  let modulo a b =
    snd (div_eucl a b)

  (** val to_nat : n -> nat **)

  let to_nat = function
  | N0 -> O
  | Npos p -> Coq_Pos.to_nat p

  (** val of_nat : nat -> n **)

  let of_nat = function
  | O -> N0
  | S n' -> Npos (Coq_Pos.of_succ_nat n')
 end

(** val zero : char **)

let zero = '\000'

(** val one : char **)

let one = '\001'

(** val shift : bool -> char -> char **)

let shift = fun b c -> Char.chr (((Char.code c) lsl 1) land 255 + if b then 1 else 0)

(** val ascii_of_pos : positive -> char **)

let ascii_of_pos =
  let rec loop n0 p =
    match n0 with
    | O -> zero
    | S n' ->
      (match p with
       | XI p' -> shift true (loop n' p')
       | XO p' -> shift false (loop n' p')
       | XH -> one)
  in loop (S (S (S (S (S (S (S (S O))))))))

(** val ascii_of_N : n -> char **)

let ascii_of_N = function
| N0 -> zero
| Npos p -> ascii_of_pos p

(** val ascii_of_nat : nat -> char **)

let ascii_of_nat a =
  ascii_of_N (N.of_nat a)

(** val n_of_digits : bool list -> n **)

let rec n_of_digits = function
| [] -> N0
| b :: l' ->
  N.add (if b then Npos XH else N0) (N.mul (Npos (XO XH)) (n_of_digits l'))

(** val n_of_ascii : char -> n **)

let n_of_ascii a =
  (* If this appears, you're using Ascii internals. Please don't *)
 (fun f c ->
  let n = Char.code c in
  let h i = (n land (1 lsl i)) <> 0 in
  f (h 0) (h 1) (h 2) (h 3) (h 4) (h 5) (h 6) (h 7))
    (fun a0 a1 a2 a3 a4 a5 a6 a7 ->
    n_of_digits
      (a0 :: (a1 :: (a2 :: (a3 :: (a4 :: (a5 :: (a6 :: (a7 :: [])))))))))
    a

(** val nat_of_ascii : char -> nat **)

let nat_of_ascii a =
  N.to_nat (n_of_ascii a)

(** val map : ('a1 -> 'a2) -> 'a1 list -> 'a2 list **)

let rec map f = function
| [] -> []
| a :: t -> (f a) :: (map f t)

(** val flat_map : ('a1 -> 'a2 list) -> 'a1 list -> 'a2 list **)

let rec flat_map f = function
| [] -> []
| x :: t -> app (f x) (flat_map f t)

(** val fold_left : ('a1 -> 'a2 -> 'a1) -> 'a2 list -> 'a1 -> 'a1 **)

let rec fold_left f l a0 =
  match l with
  | [] -> a0
  | b :: t -> fold_left f t (f a0 b)

(** val existsb : ('a1 -> bool) -> 'a1 list -> bool **)

let rec existsb f = function
| [] -> false
| a :: l0 -> (||) (f a) (existsb f l0)

(** val forallb : ('a1 -> bool) -> 'a1 list -> bool **)

let rec forallb f = function
| [] -> true
| a :: l0 -> (&&) (f a) (forallb f l0)

(** val eqb0 : char list -> char list -> bool **)

let rec eqb0 s1 s2 =
  match s1 with
  | [] -> (match s2 with
           | [] -> true
           | _::_ -> false)
  | c1::s1' ->
    (match s2 with
     | [] -> false
     | c2::s2' -> if (=) c1 c2 then eqb0 s1' s2' else false)

(** val append : char list -> char list -> char list **)

let rec append s1 s2 =
  match s1 with
  | [] -> s2
  | c::s1' -> c::(append s1' s2)

type err =
| ErrValue
| ErrRuntime
| ErrAssert
| ErrNotImpl
| ErrKey
| ErrType
| ErrAttr
| ErrIndex
| ErrTranslation
| ErrOutOfFuel
| ErrOther of char list

type 'a result =
| OK of 'a
| Error of err

(** val bind : 'a1 result -> ('a1 -> 'a2 result) -> 'a2 result **)

let bind r f =
  match r with
  | OK a -> f a
  | Error e -> Error e

(** val err_name : err -> char list **)

let err_name = function
| ErrValue ->
  'V'::('a'::('l'::('u'::('e'::('E'::('r'::('r'::('o'::('r'::[])))))))))
| ErrRuntime ->
  'R'::('u'::('n'::('t'::('i'::('m'::('e'::('E'::('r'::('r'::('o'::('r'::[])))))))))))
| ErrAssert ->
  'A'::('s'::('s'::('e'::('r'::('t'::('i'::('o'::('n'::('E'::('r'::('r'::('o'::('r'::[])))))))))))))
| ErrNotImpl ->
  'N'::('o'::('t'::('I'::('m'::('p'::('l'::('e'::('m'::('e'::('n'::('t'::('e'::('d'::('E'::('r'::('r'::('o'::('r'::[]))))))))))))))))))
| ErrKey -> 'K'::('e'::('y'::('E'::('r'::('r'::('o'::('r'::[])))))))
| ErrType -> 'T'::('y'::('p'::('e'::('E'::('r'::('r'::('o'::('r'::[]))))))))
| ErrAttr ->
  'A'::('t'::('t'::('r'::('i'::('b'::('u'::('t'::('e'::('E'::('r'::('r'::('o'::('r'::[])))))))))))))
| ErrIndex ->
  'I'::('n'::('d'::('e'::('x'::('E'::('r'::('r'::('o'::('r'::[])))))))))
| ErrTranslation ->
  'x'::('A'::('O'::('D'::('T'::('r'::('a'::('n'::('s'::('l'::('a'::('t'::('i'::('o'::('n'::('E'::('r'::('r'::('o'::('r'::[])))))))))))))))))))
| ErrOutOfFuel ->
  'O'::('u'::('t'::('O'::('f'::('F'::('u'::('e'::('l'::[]))))))))
| ErrOther t -> t

(** val mem_str : char list -> char list list -> bool **)

let rec mem_str x = function
| [] -> false
| y :: r -> if eqb0 x y then true else mem_str x r

(** val list_str_eqb : char list list -> char list list -> bool **)

let rec list_str_eqb a b =
  match a with
  | [] -> (match b with
           | [] -> true
           | _ :: _ -> false)
  | x :: a' ->
    (match b with
     | [] -> false
     | y :: b' -> (&&) (eqb0 x y) (list_str_eqb a' b'))

(** val digit_char : nat -> char **)

let digit_char n0 =
  ascii_of_nat
    (add (S (S (S (S (S (S (S (S (S (S (S (S (S (S (S (S (S (S (S (S (S (S (S
      (S (S (S (S (S (S (S (S (S (S (S (S (S (S (S (S (S (S (S (S (S (S (S (S
      (S O)))))))))))))))))))))))))))))))))))))))))))))))) n0)

(** val dec_N_fuel : nat -> n -> char list -> char list **)

let rec dec_N_fuel fuel n0 acc =
  match fuel with
  | O -> acc
  | S f ->
    let d = N.to_nat (N.modulo n0 (Npos (XO (XI (XO XH))))) in
    let acc' = (digit_char d)::acc in
    if N.eqb (N.div n0 (Npos (XO (XI (XO XH))))) N0
    then acc'
    else dec_N_fuel f (N.div n0 (Npos (XO (XI (XO XH))))) acc'

(** val dec_N : n -> char list **)

let dec_N n0 =
  dec_N_fuel (S (N.to_nat (N.size n0))) n0 []

(** val dec_nat : nat -> char list **)

let dec_nat n0 =
  dec_N (N.of_nat n0)

type sexp =
| SAtom of char list
| SList of sexp list

(** val s_strs : char list list -> sexp **)

let s_strs l =
  SList (map (fun x -> SAtom x) l)

(** val s_nat : nat -> sexp **)

let s_nat n0 =
  SAtom (dec_nat n0)

(** val s_bool : bool -> sexp **)

let s_bool b =
  SAtom
    (if b
     then 't'::('r'::('u'::('e'::[])))
     else 'f'::('a'::('l'::('s'::('e'::[])))))

(** val s_tag : char list -> sexp list -> sexp **)

let s_tag t l =
  SList ((SAtom t) :: l)

(** val s_err : err -> sexp **)

let s_err e =
  s_tag ('e'::('r'::('r'::('o'::('r'::[]))))) ((SAtom (err_name e)) :: [])

(** val s_result : ('a1 -> sexp) -> 'a1 result -> sexp **)

let s_result enc = function
| OK a -> s_tag ('o'::('k'::[])) ((enc a) :: [])
| Error e -> s_err e

(** val d_str : sexp -> char list option **)

let d_str = function
| SAtom a -> Some a
| SList _ -> None

(** val d_list : (sexp -> 'a1 option) -> sexp list -> 'a1 list option **)

let rec d_list d = function
| [] -> Some []
| x :: r ->
  (match d x with
   | Some a ->
     (match d_list d r with
      | Some r' -> Some (a :: r')
      | None -> None)
   | None -> None)

(** val d_strs : sexp -> char list list option **)

let d_strs = function
| SAtom _ -> None
| SList l -> d_list d_str l

(** val d_bool : sexp -> bool option **)

let d_bool = function
| SAtom s0 ->
  (match s0 with
   | [] -> None
   | a::s1 ->
     (* If this appears, you're using Ascii internals. Please don't *)
 (fun f c ->
  let n = Char.code c in
  let h i = (n land (1 lsl i)) <> 0 in
  f (h 0) (h 1) (h 2) (h 3) (h 4) (h 5) (h 6) (h 7))
       (fun b b0 b1 b2 b3 b4 b5 b6 ->
       if b
       then None
       else if b0
            then if b1
                 then if b2
                      then None
                      else if b3
                           then None
                           else if b4
                                then if b5
                                     then if b6
                                          then None
                                          else (match s1 with
                                                | [] -> None
                                                | a0::s2 ->
                                                  (* If this appears, you're using Ascii internals. Please don't *)
 (fun f c ->
  let n = Char.code c in
  let h i = (n land (1 lsl i)) <> 0 in
  f (h 0) (h 1) (h 2) (h 3) (h 4) (h 5) (h 6) (h 7))
                                                    (fun b7 b8 b9 b10 b11 b12 b13 b14 ->
                                                    if b7
                                                    then if b8
                                                         then None
                                                         else if b9
                                                              then None
                                                              else if b10
                                                                   then None
                                                                   else 
                                                                    if b11
                                                                    then None
                                                                    else 
                                                                    if b12
                                                                    then 
                                                                    if b13
                                                                    then 
                                                                    if b14
                                                                    then None
                                                                    else 
                                                                    (match s2 with
                                                                    | [] ->
                                                                    None
                                                                    | a1::s3 ->
                                                                    (* If this appears, you're using Ascii internals. Please don't *)
 (fun f c ->
  let n = Char.code c in
  let h i = (n land (1 lsl i)) <> 0 in
  f (h 0) (h 1) (h 2) (h 3) (h 4) (h 5) (h 6) (h 7))
                                                                    (fun b15 b16 b17 b18 b19 b20 b21 b22 ->
                                                                    if b15
                                                                    then None
                                                                    else 
                                                                    if b16
                                                                    then None
                                                                    else 
                                                                    if b17
                                                                    then 
                                                                    if b18
                                                                    then 
                                                                    if b19
                                                                    then None
                                                                    else 
                                                                    if b20
                                                                    then 
                                                                    if b21
                                                                    then 
                                                                    if b22
                                                                    then None
                                                                    else 
                                                                    (match s3 with
                                                                    | [] ->
                                                                    None
                                                                    | a2::s4 ->
                                                                    (* If this appears, you're using Ascii internals. Please don't *)
 (fun f c ->
  let n = Char.code c in
  let h i = (n land (1 lsl i)) <> 0 in
  f (h 0) (h 1) (h 2) (h 3) (h 4) (h 5) (h 6) (h 7))
                                                                    (fun b23 b24 b25 b26 b27 b28 b29 b30 ->
                                                                    if b23
                                                                    then 
                                                                    if b24
                                                                    then 
                                                                    if b25
                                                                    then None
                                                                    else 
                                                                    if b26
                                                                    then None
                                                                    else 
                                                                    if b27
                                                                    then 
                                                                    if b28
                                                                    then 
                                                                    if b29
                                                                    then 
                                                                    if b30
                                                                    then None
                                                                    else 
                                                                    (match s4 with
                                                                    | [] ->
                                                                    None
                                                                    | a3::s5 ->
                                                                    (* If this appears, you're using Ascii internals. Please don't *)
 (fun f c ->
  let n = Char.code c in
  let h i = (n land (1 lsl i)) <> 0 in
  f (h 0) (h 1) (h 2) (h 3) (h 4) (h 5) (h 6) (h 7))
                                                                    (fun b31 b32 b33 b34 b35 b36 b37 b38 ->
                                                                    if b31
                                                                    then 
                                                                    if b32
                                                                    then None
                                                                    else 
                                                                    if b33
                                                                    then 
                                                                    if b34
                                                                    then None
                                                                    else 
                                                                    if b35
                                                                    then None
                                                                    else 
                                                                    if b36
                                                                    then 
                                                                    if b37
                                                                    then 
                                                                    if b38
                                                                    then None
                                                                    else 
                                                                    (match s5 with
                                                                    | [] ->
                                                                    Some false
                                                                    | _::_ ->
                                                                    None)
                                                                    else None
                                                                    else None
                                                                    else None
                                                                    else None)
                                                                    a3)
                                                                    else None
                                                                    else None
                                                                    else None
                                                                    else None
                                                                    else None)
                                                                    a2)
                                                                    else None
                                                                    else None
                                                                    else None
                                                                    else None)
                                                                    a1)
                                                                    else None
                                                                    else None
                                                    else None)
                                                    a0)
                                     else None
                                else None
                 else None
            else if b1
                 then if b2
                      then None
                      else if b3
                           then if b4
                                then if b5
                                     then if b6
                                          then None
                                          else (match s1 with
                                                | [] -> None
                                                | a0::s2 ->
                                                  (* If this appears, you're using Ascii internals. Please don't *)
 (fun f c ->
  let n = Char.code c in
  let h i = (n land (1 lsl i)) <> 0 in
  f (h 0) (h 1) (h 2) (h 3) (h 4) (h 5) (h 6) (h 7))
                                                    (fun b7 b8 b9 b10 b11 b12 b13 b14 ->
                                                    if b7
                                                    then None
                                                    else if b8
                                                         then if b9
                                                              then None
                                                              else if b10
                                                                   then None
                                                                   else 
                                                                    if b11
                                                                    then 
                                                                    if b12
                                                                    then 
                                                                    if b13
                                                                    then 
                                                                    if b14
                                                                    then None
                                                                    else 
                                                                    (match s2 with
                                                                    | [] ->
                                                                    None
                                                                    | a1::s3 ->
                                                                    (* If this appears, you're using Ascii internals. Please don't *)
 (fun f c ->
  let n = Char.code c in
  let h i = (n land (1 lsl i)) <> 0 in
  f (h 0) (h 1) (h 2) (h 3) (h 4) (h 5) (h 6) (h 7))
                                                                    (fun b15 b16 b17 b18 b19 b20 b21 b22 ->
                                                                    if b15
                                                                    then 
                                                                    if b16
                                                                    then None
                                                                    else 
                                                                    if b17
                                                                    then 
                                                                    if b18
                                                                    then None
                                                                    else 
                                                                    if b19
                                                                    then 
                                                                    if b20
                                                                    then 
                                                                    if b21
                                                                    then 
                                                                    if b22
                                                                    then None
                                                                    else 
                                                                    (match s3 with
                                                                    | [] ->
                                                                    None
                                                                    | a2::s4 ->
                                                                    (* If this appears, you're using Ascii internals. Please don't *)
 (fun f c ->
  let n = Char.code c in
  let h i = (n land (1 lsl i)) <> 0 in
  f (h 0) (h 1) (h 2) (h 3) (h 4) (h 5) (h 6) (h 7))
                                                                    (fun b23 b24 b25 b26 b27 b28 b29 b30 ->
                                                                    if b23
                                                                    then 
                                                                    if b24
                                                                    then None
                                                                    else 
                                                                    if b25
                                                                    then 
                                                                    if b26
                                                                    then None
                                                                    else 
                                                                    if b27
                                                                    then None
                                                                    else 
                                                                    if b28
                                                                    then 
                                                                    if b29
                                                                    then 
                                                                    if b30
                                                                    then None
                                                                    else 
                                                                    (match s4 with
                                                                    | [] ->
                                                                    Some true
                                                                    | _::_ ->
                                                                    None)
                                                                    else None
                                                                    else None
                                                                    else None
                                                                    else None)
                                                                    a2)
                                                                    else None
                                                                    else None
                                                                    else None
                                                                    else None
                                                                    else None)
                                                                    a1)
                                                                    else None
                                                                    else None
                                                                    else None
                                                         else None)
                                                    a0)
                                     else None
                                else None
                           else None
                 else None)
       a)
| SList _ -> None

(** val bad_input : sexp **)

let bad_input =
  s_tag ('b'::('a'::('d'::('-'::('i'::('n'::('p'::('u'::('t'::[]))))))))) []

type jblock = { jb_name : char list; jb_script : char list list;
                jb_deps : char list list }

type entry = char list * (char list list * char list list)

type table = entry list

(** val tget :
    char list -> table -> (char list list * char list list) option **)

let rec tget n0 = function
| [] -> None
| e :: r -> let (k, v) = e in if eqb0 n0 k then Some v else tget n0 r

(** val textend : char list -> char list list -> table -> table **)

let rec textend n0 ds = function
| [] -> []
| e :: r ->
  let (k, p) = e in
  let (s, d) = p in
  if eqb0 n0 k
  then (k, (s, (app d ds))) :: r
  else (k, (s, d)) :: (textend n0 ds r)

(** val step1 : table -> jblock -> table result **)

let step1 t b =
  match tget b.jb_name t with
  | Some p ->
    let (s0, _) = p in
    if list_str_eqb b.jb_script s0
    then OK (textend b.jb_name b.jb_deps t)
    else Error ErrValue
  | None -> OK (app t ((b.jb_name, (b.jb_script, b.jb_deps)) :: []))

(** val phase1 : jblock list -> table -> table result **)

let rec phase1 bs t =
  match bs with
  | [] -> OK t
  | b :: r -> (match step1 t b with
               | OK t' -> phase1 r t'
               | Error e -> Error e)

(** val has_key : char list -> table -> bool **)

let has_key n0 t =
  match tget n0 t with
  | Some _ -> true
  | None -> false

(** val deps_present : table -> bool **)

let deps_present t =
  forallb (fun e -> forallb (fun d -> has_key d t) (snd (snd e))) t

(** val one_pass :
    table -> char list list -> char list list -> bool -> (char list
    list * char list list) * bool **)

let rec one_pass rest seen out emitted =
  match rest with
  | [] -> ((seen, out), emitted)
  | e :: r ->
    let (n0, p) = e in
    let (scr, ds) = p in
    if (&&) (negb (mem_str n0 seen)) (forallb (fun d -> mem_str d seen) ds)
    then one_pass r (app seen (n0 :: [])) (app out scr) true
    else one_pass r seen out emitted

(** val emit_loop :
    nat -> table -> char list list -> char list list -> char list list result **)

let rec emit_loop fuel t seen out =
  if Nat.ltb (length seen) (length t)
  then (match fuel with
        | O -> Error ErrOutOfFuel
        | S f ->
          let (p, b) = one_pass t seen out false in
          let (seen', out') = p in
          if b then emit_loop f t seen' out' else Error ErrValue)
  else OK out

(** val gen : jblock list -> char list list result **)

let gen bs =
  match phase1 bs [] with
  | OK t ->
    if deps_present t
    then emit_loop (S (length t)) t [] []
    else Error ErrValue
  | Error e -> Error e

(** val d_jblock : sexp -> jblock option **)

let d_jblock = function
| SAtom _ -> None
| SList l ->
  (match l with
   | [] -> None
   | s0 :: l0 ->
     (match s0 with
      | SAtom n0 ->
        (match l0 with
         | [] -> None
         | sc :: l1 ->
           (match l1 with
            | [] -> None
            | dp :: l2 ->
              (match l2 with
               | [] ->
                 (match d_strs sc with
                  | Some sc' ->
                    (match d_strs dp with
                     | Some dp' ->
                       Some { jb_name = n0; jb_script = sc'; jb_deps = dp' }
                     | None -> None)
                  | None -> None)
               | _ :: _ -> None)))
      | SList _ -> None))

(** val run_gen : sexp -> sexp **)

let run_gen = function
| SAtom _ -> bad_input
| SList l ->
  (match d_list d_jblock l with
   | Some bs -> s_result s_strs (gen bs)
   | None -> bad_input)

type mrow = { m_py : char list; m_cpp : char list; m_inc : char list list;
              m_ret : char list }

type menv = { e_rows : mrow list; e_module : char list list;
              e_builtins : (char list * char list) list }

(** val lookup_row : char list -> mrow list -> mrow option **)

let rec lookup_row k = function
| [] -> None
| r :: rest ->
  (match lookup_row k rest with
   | Some r' -> Some r'
   | None -> if eqb0 k r.m_py then Some r else None)

(** val assoc :
    char list -> (char list * char list) list -> char list option **)

let rec assoc k = function
| [] -> None
| p :: r -> let (a, b) = p in if eqb0 k a then Some b else assoc k r

type resolution =
| RName of char list
| RCrash

(** val resolve : menv -> char list -> resolution **)

let resolve e n0 =
  if mem_str n0 e.e_module
  then RCrash
  else (match assoc n0 e.e_builtins with
        | Some m ->
          (match m with
           | [] -> RName (append m (append ('.'::[]) n0))
           | a::s ->
             (* If this appears, you're using Ascii internals. Please don't *)
 (fun f c ->
  let n = Char.code c in
  let h i = (n land (1 lsl i)) <> 0 in
  f (h 0) (h 1) (h 2) (h 3) (h 4) (h 5) (h 6) (h 7))
               (fun b b0 b1 b2 b3 b4 b5 b6 ->
               if b
               then if b0
                    then RName (append m (append ('.'::[]) n0))
                    else if b1
                         then if b2
                              then if b3
                                   then RName (append m (append ('.'::[]) n0))
                                   else if b4
                                        then if b5
                                             then RName
                                                    (append m
                                                      (append ('.'::[]) n0))
                                             else if b6
                                                  then RName
                                                         (append m
                                                           (append ('.'::[])
                                                             n0))
                                                  else (match s with
                                                        | [] -> RCrash
                                                        | _::_ ->
                                                          RName
                                                            (append m
                                                              (append
                                                                ('.'::[]) n0)))
                                        else RName
                                               (append m
                                                 (append ('.'::[]) n0))
                              else RName (append m (append ('.'::[]) n0))
                         else RName (append m (append ('.'::[]) n0))
               else RName (append m (append ('.'::[]) n0)))
               a)
        | None -> RName n0)

(** val find_row : menv -> char list -> mrow option **)

let find_row e n0 =
  match resolve e n0 with
  | RName q -> lookup_row q e.e_rows
  | RCrash -> None

(** val acceptable : char list -> char list -> bool **)

let acceptable n0 cpp =
  (||)
    ((||) (eqb0 cpp (append ('s'::('t'::('d'::(':'::(':'::[]))))) n0))
      ((&&) (eqb0 n0 ('l'::('n'::[])))
        (eqb0 cpp ('s'::('t'::('d'::(':'::(':'::('l'::('o'::('g'::[])))))))))))
    ((&&) (eqb0 n0 ('a'::('b'::('s'::[]))))
      ((||)
        (eqb0 cpp
          ('s'::('t'::('d'::(':'::(':'::('f'::('a'::('b'::('s'::[]))))))))))
        (eqb0 cpp ('s'::('t'::('d'::(':'::(':'::('a'::('b'::('s'::[])))))))))))

(** val cmath_sig : (char list * (nat * bool)) list **)

let cmath_sig =
  (('s'::('i'::('n'::[]))), ((S O), false)) :: ((('c'::('o'::('s'::[]))), ((S
    O), false)) :: ((('t'::('a'::('n'::[]))), ((S O),
    false)) :: ((('a'::('c'::('o'::('s'::[])))), ((S O),
    false)) :: ((('a'::('s'::('i'::('n'::[])))), ((S O),
    false)) :: ((('a'::('t'::('a'::('n'::[])))), ((S O),
    false)) :: ((('a'::('t'::('a'::('n'::('2'::[]))))), ((S (S O)),
    false)) :: ((('s'::('i'::('n'::('h'::[])))), ((S O),
    false)) :: ((('c'::('o'::('s'::('h'::[])))), ((S O),
    false)) :: ((('t'::('a'::('n'::('h'::[])))), ((S O),
    false)) :: ((('a'::('s'::('i'::('n'::('h'::[]))))), ((S O),
    false)) :: ((('a'::('c'::('o'::('s'::('h'::[]))))), ((S O),
    false)) :: ((('a'::('t'::('a'::('n'::('h'::[]))))), ((S O),
    false)) :: ((('e'::('x'::('p'::[]))), ((S O),
    false)) :: ((('l'::('d'::('e'::('x'::('p'::[]))))), ((S (S O)),
    false)) :: ((('l'::('o'::('g'::[]))), ((S O),
    false)) :: ((('l'::('n'::[])), ((S O),
    false)) :: ((('l'::('o'::('g'::('1'::('0'::[]))))), ((S O),
    false)) :: ((('e'::('x'::('p'::('2'::[])))), ((S O),
    false)) :: ((('e'::('x'::('p'::('m'::('1'::[]))))), ((S O),
    false)) :: ((('i'::('l'::('o'::('g'::('b'::[]))))), ((S O),
    false)) :: ((('l'::('o'::('g'::('1'::('p'::[]))))), ((S O),
    false)) :: ((('l'::('o'::('g'::('2'::[])))), ((S O),
    false)) :: ((('s'::('c'::('a'::('l'::('b'::('n'::[])))))), ((S (S O)),
    false)) :: ((('s'::('c'::('a'::('l'::('b'::('l'::('n'::[]))))))), ((S (S
    O)), false)) :: ((('p'::('o'::('w'::[]))), ((S (S O)),
    false)) :: ((('s'::('q'::('r'::('t'::[])))), ((S O),
    false)) :: ((('c'::('b'::('r'::('t'::[])))), ((S O),
    false)) :: ((('h'::('y'::('p'::('o'::('t'::[]))))), ((S (S O)),
    false)) :: ((('e'::('r'::('f'::[]))), ((S O),
    false)) :: ((('e'::('r'::('f'::('c'::[])))), ((S O),
    false)) :: ((('t'::('g'::('a'::('m'::('m'::('a'::[])))))), ((S O),
    false)) :: ((('l'::('g'::('a'::('m'::('m'::('a'::[])))))), ((S O),
    false)) :: ((('c'::('e'::('i'::('l'::[])))), ((S O),
    false)) :: ((('f'::('l'::('o'::('o'::('r'::[]))))), ((S O),
    false)) :: ((('f'::('m'::('o'::('d'::[])))), ((S (S O)),
    false)) :: ((('t'::('r'::('u'::('n'::('c'::[]))))), ((S O),
    false)) :: ((('r'::('o'::('u'::('n'::('d'::[]))))), ((S O),
    false)) :: ((('r'::('i'::('n'::('t'::[])))), ((S O),
    false)) :: ((('n'::('e'::('a'::('r'::('b'::('y'::('i'::('n'::('t'::[]))))))))),
    ((S O),
    false)) :: ((('r'::('e'::('m'::('a'::('i'::('n'::('d'::('e'::('r'::[]))))))))),
    ((S (S O)), false)) :: ((('r'::('e'::('m'::('q'::('u'::('o'::[])))))),
    ((S (S (S O))),
    true)) :: ((('c'::('o'::('p'::('y'::('s'::('i'::('g'::('n'::[])))))))),
    ((S (S O)), false)) :: ((('n'::('a'::('n'::[]))), ((S O),
    false)) :: ((('n'::('e'::('x'::('t'::('a'::('f'::('t'::('e'::('r'::[]))))))))),
    ((S (S O)),
    false)) :: ((('n'::('e'::('x'::('t'::('t'::('o'::('w'::('a'::('r'::('d'::[])))))))))),
    ((S (S O)), false)) :: ((('f'::('d'::('i'::('m'::[])))), ((S (S O)),
    false)) :: ((('f'::('m'::('a'::('x'::[])))), ((S (S O)),
    false)) :: ((('f'::('m'::('i'::('n'::[])))), ((S (S O)),
    false)) :: ((('f'::('a'::('b'::('s'::[])))), ((S O),
    false)) :: ((('a'::('b'::('s'::[]))), ((S O),
    false)) :: ((('f'::('m'::('a'::[]))), ((S (S (S O))),
    false)) :: [])))))))))))))))))))))))))))))))))))))))))))))))))))

(** val sig_of :
    char list -> (char list * (nat * bool)) list -> (nat * bool) option **)

let rec sig_of n0 = function
| [] -> None
| p :: r -> let (a, b) = p in if eqb0 n0 a then Some b else sig_of n0 r

(** val callable_from_query : char list -> bool **)

let callable_from_query n0 =
  match sig_of n0 cmath_sig with
  | Some p -> let (_, b) = p in if b then false else true
  | None -> false

(** val doc_ok : menv -> char list -> bool **)

let doc_ok e n0 =
  match find_row e n0 with
  | Some r ->
    (&&)
      ((&&)
        ((&&) (acceptable n0 r.m_cpp)
          (mem_str ('c'::('m'::('a'::('t'::('h'::[]))))) r.m_inc))
        (eqb0 r.m_ret ('d'::('o'::('u'::('b'::('l'::('e'::[]))))))))
      (callable_from_query n0)
  | None -> false

(** val s_row : mrow -> sexp **)

let s_row r =
  SList ((SAtom r.m_py) :: ((SAtom r.m_cpp) :: ((s_strs r.m_inc) :: ((SAtom
    r.m_ret) :: []))))

(** val audit : menv -> char list list -> sexp **)

let audit e doc =
  SList
    (map (fun n0 -> SList ((SAtom
      n0) :: ((match resolve e n0 with
               | RName q -> SAtom q
               | RCrash ->
                 SAtom ('<'::('c'::('r'::('a'::('s'::('h'::('>'::[])))))))) :: ((
      match find_row e n0 with
      | Some r -> s_row r
      | None -> SList []) :: ((s_bool (doc_ok e n0)) :: ((match sig_of n0
                                                                  cmath_sig with
                                                          | Some p0 ->
                                                            let (k, p) = p0 in
                                                            SList
                                                            ((s_nat k) :: (
                                                            (s_bool p) :: []))
                                                          | None -> SList []) :: []))))))
      doc)

(** val math_rows : mrow list **)

let math_rows =
  { m_py = ('s'::('i'::('n'::[]))); m_cpp =
    ('s'::('t'::('d'::(':'::(':'::('s'::('i'::('n'::[])))))))); m_inc =
    (('c'::('m'::('a'::('t'::('h'::[]))))) :: []); m_ret =
    ('d'::('o'::('u'::('b'::('l'::('e'::[])))))) } :: ({ m_py =
    ('c'::('o'::('s'::[]))); m_cpp =
    ('s'::('t'::('d'::(':'::(':'::('c'::('o'::('s'::[])))))))); m_inc =
    (('c'::('m'::('a'::('t'::('h'::[]))))) :: []); m_ret =
    ('d'::('o'::('u'::('b'::('l'::('e'::[])))))) } :: ({ m_py =
    ('t'::('a'::('n'::[]))); m_cpp =
    ('s'::('t'::('d'::(':'::(':'::('t'::('a'::('n'::[])))))))); m_inc =
    (('c'::('m'::('a'::('t'::('h'::[]))))) :: []); m_ret =
    ('d'::('o'::('u'::('b'::('l'::('e'::[])))))) } :: ({ m_py =
    ('a'::('c'::('o'::('s'::[])))); m_cpp =
    ('s'::('t'::('d'::(':'::(':'::('a'::('c'::('o'::('s'::[])))))))));
    m_inc = (('c'::('m'::('a'::('t'::('h'::[]))))) :: []); m_ret =
    ('d'::('o'::('u'::('b'::('l'::('e'::[])))))) } :: ({ m_py =
    ('a'::('s'::('i'::('n'::[])))); m_cpp =
    ('s'::('t'::('d'::(':'::(':'::('a'::('s'::('i'::('n'::[])))))))));
    m_inc = (('c'::('m'::('a'::('t'::('h'::[]))))) :: []); m_ret =
    ('d'::('o'::('u'::('b'::('l'::('e'::[])))))) } :: ({ m_py =
    ('a'::('t'::('a'::('n'::[])))); m_cpp =
    ('s'::('t'::('d'::(':'::(':'::('a'::('t'::('a'::('n'::[])))))))));
    m_inc = (('c'::('m'::('a'::('t'::('h'::[]))))) :: []); m_ret =
    ('d'::('o'::('u'::('b'::('l'::('e'::[])))))) } :: ({ m_py =
    ('a'::('t'::('a'::('n'::('2'::[]))))); m_cpp =
    ('s'::('t'::('d'::(':'::(':'::('a'::('t'::('a'::('n'::('2'::[]))))))))));
    m_inc = (('c'::('m'::('a'::('t'::('h'::[]))))) :: []); m_ret =
    ('d'::('o'::('u'::('b'::('l'::('e'::[])))))) } :: ({ m_py =
    ('s'::('i'::('n'::('h'::[])))); m_cpp =
    ('s'::('t'::('d'::(':'::(':'::('s'::('i'::('n'::('h'::[])))))))));
    m_inc = (('c'::('m'::('a'::('t'::('h'::[]))))) :: []); m_ret =
    ('d'::('o'::('u'::('b'::('l'::('e'::[])))))) } :: ({ m_py =
    ('c'::('o'::('s'::('h'::[])))); m_cpp =
    ('s'::('t'::('d'::(':'::(':'::('c'::('o'::('s'::('h'::[])))))))));
    m_inc = (('c'::('m'::('a'::('t'::('h'::[]))))) :: []); m_ret =
    ('d'::('o'::('u'::('b'::('l'::('e'::[])))))) } :: ({ m_py =
    ('t'::('a'::('n'::('h'::[])))); m_cpp =
    ('s'::('t'::('d'::(':'::(':'::('t'::('a'::('n'::('h'::[])))))))));
    m_inc = (('c'::('m'::('a'::('t'::('h'::[]))))) :: []); m_ret =
    ('d'::('o'::('u'::('b'::('l'::('e'::[])))))) } :: ({ m_py =
    ('a'::('s'::('i'::('n'::('h'::[]))))); m_cpp =
    ('s'::('t'::('d'::(':'::(':'::('a'::('s'::('i'::('n'::('h'::[]))))))))));
    m_inc = (('c'::('m'::('a'::('t'::('h'::[]))))) :: []); m_ret =
    ('d'::('o'::('u'::('b'::('l'::('e'::[])))))) } :: ({ m_py =
    ('a'::('c'::('o'::('s'::('h'::[]))))); m_cpp =
    ('s'::('t'::('d'::(':'::(':'::('a'::('c'::('o'::('s'::('h'::[]))))))))));
    m_inc = (('c'::('m'::('a'::('t'::('h'::[]))))) :: []); m_ret =
    ('d'::('o'::('u'::('b'::('l'::('e'::[])))))) } :: ({ m_py =
    ('a'::('t'::('a'::('n'::('h'::[]))))); m_cpp =
    ('s'::('t'::('d'::(':'::(':'::('a'::('t'::('a'::('n'::('h'::[]))))))))));
    m_inc = (('c'::('m'::('a'::('t'::('h'::[]))))) :: []); m_ret =
    ('d'::('o'::('u'::('b'::('l'::('e'::[])))))) } :: ({ m_py =
    ('e'::('x'::('p'::[]))); m_cpp =
    ('s'::('t'::('d'::(':'::(':'::('e'::('x'::('p'::[])))))))); m_inc =
    (('c'::('m'::('a'::('t'::('h'::[]))))) :: []); m_ret =
    ('d'::('o'::('u'::('b'::('l'::('e'::[])))))) } :: ({ m_py =
    ('l'::('d'::('e'::('x'::('p'::[]))))); m_cpp =
    ('s'::('t'::('d'::(':'::(':'::('l'::('d'::('e'::('x'::('p'::[]))))))))));
    m_inc = (('c'::('m'::('a'::('t'::('h'::[]))))) :: []); m_ret =
    ('d'::('o'::('u'::('b'::('l'::('e'::[])))))) } :: ({ m_py =
    ('l'::('o'::('g'::[]))); m_cpp =
    ('s'::('t'::('d'::(':'::(':'::('l'::('o'::('g'::[])))))))); m_inc =
    (('c'::('m'::('a'::('t'::('h'::[]))))) :: []); m_ret =
    ('d'::('o'::('u'::('b'::('l'::('e'::[])))))) } :: ({ m_py =
    ('l'::('n'::[])); m_cpp =
    ('s'::('t'::('d'::(':'::(':'::('l'::('o'::('g'::[])))))))); m_inc =
    (('c'::('m'::('a'::('t'::('h'::[]))))) :: []); m_ret =
    ('d'::('o'::('u'::('b'::('l'::('e'::[])))))) } :: ({ m_py =
    ('l'::('o'::('g'::('1'::('0'::[]))))); m_cpp =
    ('s'::('t'::('d'::(':'::(':'::('l'::('o'::('g'::('1'::('0'::[]))))))))));
    m_inc = (('c'::('m'::('a'::('t'::('h'::[]))))) :: []); m_ret =
    ('d'::('o'::('u'::('b'::('l'::('e'::[])))))) } :: ({ m_py =
    ('e'::('x'::('p'::('2'::[])))); m_cpp =
    ('s'::('t'::('d'::(':'::(':'::('e'::('x'::('p'::('2'::[])))))))));
    m_inc = (('c'::('m'::('a'::('t'::('h'::[]))))) :: []); m_ret =
    ('d'::('o'::('u'::('b'::('l'::('e'::[])))))) } :: ({ m_py =
    ('e'::('x'::('p'::('m'::('1'::[]))))); m_cpp =
    ('s'::('t'::('d'::(':'::(':'::('e'::('x'::('p'::('m'::('1'::[]))))))))));
    m_inc = (('c'::('m'::('a'::('t'::('h'::[]))))) :: []); m_ret =
    ('d'::('o'::('u'::('b'::('l'::('e'::[])))))) } :: ({ m_py =
    ('i'::('l'::('o'::('g'::('b'::[]))))); m_cpp =
    ('s'::('t'::('d'::(':'::(':'::('i'::('l'::('o'::('g'::('b'::[]))))))))));
    m_inc = (('c'::('m'::('a'::('t'::('h'::[]))))) :: []); m_ret =
    ('d'::('o'::('u'::('b'::('l'::('e'::[])))))) } :: ({ m_py =
    ('l'::('o'::('g'::('1'::('p'::[]))))); m_cpp =
    ('s'::('t'::('d'::(':'::(':'::('l'::('o'::('g'::('1'::('p'::[]))))))))));
    m_inc = (('c'::('m'::('a'::('t'::('h'::[]))))) :: []); m_ret =
    ('d'::('o'::('u'::('b'::('l'::('e'::[])))))) } :: ({ m_py =
    ('l'::('o'::('g'::('2'::[])))); m_cpp =
    ('s'::('t'::('d'::(':'::(':'::('l'::('o'::('g'::('2'::[])))))))));
    m_inc = (('c'::('m'::('a'::('t'::('h'::[]))))) :: []); m_ret =
    ('d'::('o'::('u'::('b'::('l'::('e'::[])))))) } :: ({ m_py =
    ('s'::('c'::('a'::('l'::('b'::('n'::[])))))); m_cpp =
    ('s'::('t'::('d'::(':'::(':'::('s'::('c'::('a'::('l'::('b'::('n'::[])))))))))));
    m_inc = (('c'::('m'::('a'::('t'::('h'::[]))))) :: []); m_ret =
    ('d'::('o'::('u'::('b'::('l'::('e'::[])))))) } :: ({ m_py =
    ('s'::('c'::('a'::('l'::('b'::('l'::('n'::[]))))))); m_cpp =
    ('s'::('t'::('d'::(':'::(':'::('s'::('c'::('a'::('l'::('b'::('l'::('n'::[]))))))))))));
    m_inc = (('c'::('m'::('a'::('t'::('h'::[]))))) :: []); m_ret =
    ('d'::('o'::('u'::('b'::('l'::('e'::[])))))) } :: ({ m_py =
    ('p'::('o'::('w'::[]))); m_cpp =
    ('s'::('t'::('d'::(':'::(':'::('p'::('o'::('w'::[])))))))); m_inc =
    (('c'::('m'::('a'::('t'::('h'::[]))))) :: []); m_ret =
    ('d'::('o'::('u'::('b'::('l'::('e'::[])))))) } :: ({ m_py =
    ('s'::('q'::('r'::('t'::[])))); m_cpp =
    ('s'::('t'::('d'::(':'::(':'::('s'::('q'::('r'::('t'::[])))))))));
    m_inc = (('c'::('m'::('a'::('t'::('h'::[]))))) :: []); m_ret =
    ('d'::('o'::('u'::('b'::('l'::('e'::[])))))) } :: ({ m_py =
    ('c'::('b'::('r'::('t'::[])))); m_cpp =
    ('s'::('t'::('d'::(':'::(':'::('c'::('b'::('r'::('t'::[])))))))));
    m_inc = (('c'::('m'::('a'::('t'::('h'::[]))))) :: []); m_ret =
    ('d'::('o'::('u'::('b'::('l'::('e'::[])))))) } :: ({ m_py =
    ('h'::('y'::('p'::('o'::('t'::[]))))); m_cpp =
    ('s'::('t'::('d'::(':'::(':'::('h'::('y'::('p'::('o'::('t'::[]))))))))));
    m_inc = (('c'::('m'::('a'::('t'::('h'::[]))))) :: []); m_ret =
    ('d'::('o'::('u'::('b'::('l'::('e'::[])))))) } :: ({ m_py =
    ('e'::('r'::('f'::[]))); m_cpp =
    ('s'::('t'::('d'::(':'::(':'::('e'::('r'::('f'::[])))))))); m_inc =
    (('c'::('m'::('a'::('t'::('h'::[]))))) :: []); m_ret =
    ('d'::('o'::('u'::('b'::('l'::('e'::[])))))) } :: ({ m_py =
    ('e'::('r'::('f'::('c'::[])))); m_cpp =
    ('s'::('t'::('d'::(':'::(':'::('e'::('r'::('f'::('c'::[])))))))));
    m_inc = (('c'::('m'::('a'::('t'::('h'::[]))))) :: []); m_ret =
    ('d'::('o'::('u'::('b'::('l'::('e'::[])))))) } :: ({ m_py =
    ('t'::('g'::('a'::('m'::('m'::('a'::[])))))); m_cpp =
    ('s'::('t'::('d'::(':'::(':'::('t'::('g'::('a'::('m'::('m'::('a'::[])))))))))));
    m_inc = (('c'::('m'::('a'::('t'::('h'::[]))))) :: []); m_ret =
    ('d'::('o'::('u'::('b'::('l'::('e'::[])))))) } :: ({ m_py =
    ('l'::('g'::('a'::('m'::('m'::('a'::[])))))); m_cpp =
    ('s'::('t'::('d'::(':'::(':'::('l'::('g'::('a'::('m'::('m'::('a'::[])))))))))));
    m_inc = (('c'::('m'::('a'::('t'::('h'::[]))))) :: []); m_ret =
    ('d'::('o'::('u'::('b'::('l'::('e'::[])))))) } :: ({ m_py =
    ('c'::('e'::('i'::('l'::[])))); m_cpp =
    ('s'::('t'::('d'::(':'::(':'::('c'::('e'::('i'::('l'::[])))))))));
    m_inc = (('c'::('m'::('a'::('t'::('h'::[]))))) :: []); m_ret =
    ('d'::('o'::('u'::('b'::('l'::('e'::[])))))) } :: ({ m_py =
    ('f'::('l'::('o'::('o'::('r'::[]))))); m_cpp =
    ('s'::('t'::('d'::(':'::(':'::('f'::('l'::('o'::('o'::('r'::[]))))))))));
    m_inc = (('c'::('m'::('a'::('t'::('h'::[]))))) :: []); m_ret =
    ('d'::('o'::('u'::('b'::('l'::('e'::[])))))) } :: ({ m_py =
    ('f'::('m'::('o'::('d'::[])))); m_cpp =
    ('s'::('t'::('d'::(':'::(':'::('f'::('m'::('o'::('d'::[])))))))));
    m_inc = (('c'::('m'::('a'::('t'::('h'::[]))))) :: []); m_ret =
    ('d'::('o'::('u'::('b'::('l'::('e'::[])))))) } :: ({ m_py =
    ('t'::('r'::('u'::('n'::('c'::[]))))); m_cpp =
    ('s'::('t'::('d'::(':'::(':'::('t'::('r'::('u'::('n'::('c'::[]))))))))));
    m_inc = (('c'::('m'::('a'::('t'::('h'::[]))))) :: []); m_ret =
    ('d'::('o'::('u'::('b'::('l'::('e'::[])))))) } :: ({ m_py =
    ('r'::('o'::('u'::('n'::('d'::[]))))); m_cpp =
    ('s'::('t'::('d'::(':'::(':'::('r'::('o'::('u'::('n'::('d'::[]))))))))));
    m_inc = (('c'::('m'::('a'::('t'::('h'::[]))))) :: []); m_ret =
    ('d'::('o'::('u'::('b'::('l'::('e'::[])))))) } :: ({ m_py =
    ('r'::('i'::('n'::('t'::[])))); m_cpp =
    ('s'::('t'::('d'::(':'::(':'::('r'::('i'::('n'::('t'::[])))))))));
    m_inc = (('c'::('m'::('a'::('t'::('h'::[]))))) :: []); m_ret =
    ('d'::('o'::('u'::('b'::('l'::('e'::[])))))) } :: ({ m_py =
    ('n'::('e'::('a'::('r'::('b'::('y'::('i'::('n'::('t'::[])))))))));
    m_cpp =
    ('s'::('t'::('d'::(':'::(':'::('n'::('e'::('a'::('r'::('b'::('y'::('i'::('n'::('t'::[]))))))))))))));
    m_inc = (('c'::('m'::('a'::('t'::('h'::[]))))) :: []); m_ret =
    ('d'::('o'::('u'::('b'::('l'::('e'::[])))))) } :: ({ m_py =
    ('r'::('e'::('m'::('a'::('i'::('n'::('d'::('e'::('r'::[])))))))));
    m_cpp =
    ('s'::('t'::('d'::(':'::(':'::('r'::('e'::('m'::('a'::('i'::('n'::('d'::('e'::('r'::[]))))))))))))));
    m_inc = (('c'::('m'::('a'::('t'::('h'::[]))))) :: []); m_ret =
    ('d'::('o'::('u'::('b'::('l'::('e'::[])))))) } :: ({ m_py =
    ('r'::('e'::('m'::('q'::('u'::('o'::[])))))); m_cpp =
    ('s'::('t'::('d'::(':'::(':'::('r'::('e'::('m'::('q'::('u'::('o'::[])))))))))));
    m_inc = (('c'::('m'::('a'::('t'::('h'::[]))))) :: []); m_ret =
    ('d'::('o'::('u'::('b'::('l'::('e'::[])))))) } :: ({ m_py =
    ('c'::('o'::('p'::('y'::('s'::('i'::('g'::('n'::[])))))))); m_cpp =
    ('s'::('t'::('d'::(':'::(':'::('c'::('o'::('p'::('y'::('s'::('i'::('g'::('n'::[])))))))))))));
    m_inc = (('c'::('m'::('a'::('t'::('h'::[]))))) :: []); m_ret =
    ('d'::('o'::('u'::('b'::('l'::('e'::[])))))) } :: ({ m_py =
    ('n'::('a'::('n'::[]))); m_cpp =
    ('s'::('t'::('d'::(':'::(':'::('n'::('a'::('n'::[])))))))); m_inc =
    (('c'::('m'::('a'::('t'::('h'::[]))))) :: []); m_ret =
    ('d'::('o'::('u'::('b'::('l'::('e'::[])))))) } :: ({ m_py =
    ('n'::('e'::('x'::('t'::('a'::('f'::('t'::('e'::('r'::[])))))))));
    m_cpp =
    ('s'::('t'::('d'::(':'::(':'::('n'::('e'::('x'::('t'::('a'::('f'::('t'::('e'::('r'::[]))))))))))))));
    m_inc = (('c'::('m'::('a'::('t'::('h'::[]))))) :: []); m_ret =
    ('d'::('o'::('u'::('b'::('l'::('e'::[])))))) } :: ({ m_py =
    ('n'::('e'::('x'::('t'::('t'::('o'::('w'::('a'::('r'::('d'::[]))))))))));
    m_cpp =
    ('s'::('t'::('d'::(':'::(':'::('n'::('e'::('x'::('t'::('t'::('o'::('w'::('a'::('r'::('d'::[])))))))))))))));
    m_inc = (('c'::('m'::('a'::('t'::('h'::[]))))) :: []); m_ret =
    ('d'::('o'::('u'::('b'::('l'::('e'::[])))))) } :: ({ m_py =
    ('f'::('d'::('i'::('m'::[])))); m_cpp =
    ('s'::('t'::('d'::(':'::(':'::('f'::('d'::('i'::('m'::[])))))))));
    m_inc = (('c'::('m'::('a'::('t'::('h'::[]))))) :: []); m_ret =
    ('d'::('o'::('u'::('b'::('l'::('e'::[])))))) } :: ({ m_py =
    ('f'::('m'::('a'::('x'::[])))); m_cpp =
    ('s'::('t'::('d'::(':'::(':'::('f'::('m'::('a'::('x'::[])))))))));
    m_inc = (('c'::('m'::('a'::('t'::('h'::[]))))) :: []); m_ret =
    ('d'::('o'::('u'::('b'::('l'::('e'::[])))))) } :: ({ m_py =
    ('f'::('m'::('i'::('n'::[])))); m_cpp =
    ('s'::('t'::('d'::(':'::(':'::('f'::('m'::('i'::('n'::[])))))))));
    m_inc = (('c'::('m'::('a'::('t'::('h'::[]))))) :: []); m_ret =
    ('d'::('o'::('u'::('b'::('l'::('e'::[])))))) } :: ({ m_py =
    ('f'::('a'::('b'::('s'::[])))); m_cpp =
    ('s'::('t'::('d'::(':'::(':'::('f'::('a'::('b'::('s'::[])))))))));
    m_inc = (('c'::('m'::('a'::('t'::('h'::[]))))) :: []); m_ret =
    ('d'::('o'::('u'::('b'::('l'::('e'::[])))))) } :: ({ m_py =
    ('a'::('b'::('s'::[]))); m_cpp =
    ('s'::('t'::('d'::(':'::(':'::('f'::('a'::('b'::('s'::[])))))))));
    m_inc = (('c'::('m'::('a'::('t'::('h'::[]))))) :: []); m_ret =
    ('d'::('o'::('u'::('b'::('l'::('e'::[])))))) } :: ({ m_py =
    ('f'::('m'::('a'::[]))); m_cpp =
    ('s'::('t'::('d'::(':'::(':'::('f'::('m'::('a'::[])))))))); m_inc =
    (('c'::('m'::('a'::('t'::('h'::[]))))) :: []); m_ret =
    ('d'::('o'::('u'::('b'::('l'::('e'::[])))))) } :: ({ m_py =
    ('b'::('u'::('i'::('l'::('t'::('i'::('n'::('s'::('.'::('a'::('b'::('s'::[]))))))))))));
    m_cpp = ('s'::('t'::('d'::(':'::(':'::('a'::('b'::('s'::[]))))))));
    m_inc = (('c'::('m'::('a'::('t'::('h'::[]))))) :: []); m_ret =
    ('d'::('o'::('u'::('b'::('l'::('e'::[])))))) } :: ({ m_py =
    ('b'::('u'::('i'::('l'::('t'::('i'::('n'::('s'::('.'::('p'::('o'::('w'::[]))))))))))));
    m_cpp = ('s'::('t'::('d'::(':'::(':'::('p'::('o'::('w'::[]))))))));
    m_inc = (('c'::('m'::('a'::('t'::('h'::[]))))) :: []); m_ret =
    ('d'::('o'::('u'::('b'::('l'::('e'::[])))))) } :: ({ m_py =
    ('b'::('u'::('i'::('l'::('t'::('i'::('n'::('s'::('.'::('r'::('o'::('u'::('n'::('d'::[]))))))))))))));
    m_cpp =
    ('s'::('t'::('d'::(':'::(':'::('r'::('o'::('u'::('n'::('d'::[]))))))))));
    m_inc = (('c'::('m'::('a'::('t'::('h'::[]))))) :: []); m_ret =
    ('d'::('o'::('u'::('b'::('l'::('e'::[])))))) } :: []))))))))))))))))))))))))))))))))))))))))))))))))))))))

(** val module_names : char list list **)

let module_names =
  ('a'::('s'::('t'::[]))) :: (('n'::('a'::('m'::('e'::('d'::('t'::('u'::('p'::('l'::('e'::[])))))))))) :: (('F'::('u'::('n'::('c'::('t'::('i'::('o'::('n'::('A'::('S'::('T'::[]))))))))))) :: (('f'::('i'::('n'::('d'::('_'::('k'::('n'::('o'::('w'::('n'::('_'::('f'::('u'::('n'::('c'::('t'::('i'::('o'::('n'::('s'::[])))))))))))))))))))) :: (('a'::('d'::('d'::('_'::('f'::('u'::('n'::('c'::('t'::('i'::('o'::('n'::('_'::('m'::('a'::('p'::('p'::('i'::('n'::('g'::[])))))))))))))))))))) :: (('f'::('u'::('n'::('c'::('t'::('i'::('o'::('n'::('s'::('_'::('t'::('o'::('_'::('r'::('e'::('p'::('l'::('a'::('c'::('e'::[])))))))))))))))))))) :: (('c'::('p'::('p'::('_'::('f'::('u'::('n'::('c'::('t'::('i'::('o'::('n'::[])))))))))))) :: []))))))

(** val builtin_names : (char list * char list) list **)

let builtin_names =
  (('A'::('r'::('i'::('t'::('h'::('m'::('e'::('t'::('i'::('c'::('E'::('r'::('r'::('o'::('r'::[]))))))))))))))),
    ('b'::('u'::('i'::('l'::('t'::('i'::('n'::('s'::[]))))))))) :: ((('A'::('s'::('s'::('e'::('r'::('t'::('i'::('o'::('n'::('E'::('r'::('r'::('o'::('r'::[])))))))))))))),
    ('b'::('u'::('i'::('l'::('t'::('i'::('n'::('s'::[]))))))))) :: ((('A'::('t'::('t'::('r'::('i'::('b'::('u'::('t'::('e'::('E'::('r'::('r'::('o'::('r'::[])))))))))))))),
    ('b'::('u'::('i'::('l'::('t'::('i'::('n'::('s'::[]))))))))) :: ((('B'::('a'::('s'::('e'::('E'::('x'::('c'::('e'::('p'::('t'::('i'::('o'::('n'::[]))))))))))))),
    ('b'::('u'::('i'::('l'::('t'::('i'::('n'::('s'::[]))))))))) :: ((('B'::('a'::('s'::('e'::('E'::('x'::('c'::('e'::('p'::('t'::('i'::('o'::('n'::('G'::('r'::('o'::('u'::('p'::[])))))))))))))))))),
    ('b'::('u'::('i'::('l'::('t'::('i'::('n'::('s'::[]))))))))) :: ((('B'::('l'::('o'::('c'::('k'::('i'::('n'::('g'::('I'::('O'::('E'::('r'::('r'::('o'::('r'::[]))))))))))))))),
    ('b'::('u'::('i'::('l'::('t'::('i'::('n'::('s'::[]))))))))) :: ((('B'::('r'::('o'::('k'::('e'::('n'::('P'::('i'::('p'::('e'::('E'::('r'::('r'::('o'::('r'::[]))))))))))))))),
    ('b'::('u'::('i'::('l'::('t'::('i'::('n'::('s'::[]))))))))) :: ((('B'::('u'::('f'::('f'::('e'::('r'::('E'::('r'::('r'::('o'::('r'::[]))))))))))),
    ('b'::('u'::('i'::('l'::('t'::('i'::('n'::('s'::[]))))))))) :: ((('B'::('y'::('t'::('e'::('s'::('W'::('a'::('r'::('n'::('i'::('n'::('g'::[])))))))))))),
    ('b'::('u'::('i'::('l'::('t'::('i'::('n'::('s'::[]))))))))) :: ((('C'::('h'::('i'::('l'::('d'::('P'::('r'::('o'::('c'::('e'::('s'::('s'::('E'::('r'::('r'::('o'::('r'::[]))))))))))))))))),
    ('b'::('u'::('i'::('l'::('t'::('i'::('n'::('s'::[]))))))))) :: ((('C'::('o'::('n'::('n'::('e'::('c'::('t'::('i'::('o'::('n'::('A'::('b'::('o'::('r'::('t'::('e'::('d'::('E'::('r'::('r'::('o'::('r'::[])))))))))))))))))))))),
    ('b'::('u'::('i'::('l'::('t'::('i'::('n'::('s'::[]))))))))) :: ((('C'::('o'::('n'::('n'::('e'::('c'::('t'::('i'::('o'::('n'::('E'::('r'::('r'::('o'::('r'::[]))))))))))))))),
    ('b'::('u'::('i'::('l'::('t'::('i'::('n'::('s'::[]))))))))) :: ((('C'::('o'::('n'::('n'::('e'::('c'::('t'::('i'::('o'::('n'::('R'::('e'::('f'::('u'::('s'::('e'::('d'::('E'::('r'::('r'::('o'::('r'::[])))))))))))))))))))))),
    ('b'::('u'::('i'::('l'::('t'::('i'::('n'::('s'::[]))))))))) :: ((('C'::('o'::('n'::('n'::('e'::('c'::('t'::('i'::('o'::('n'::('R'::('e'::('s'::('e'::('t'::('E'::('r'::('r'::('o'::('r'::[])))))))))))))))))))),
    ('b'::('u'::('i'::('l'::('t'::('i'::('n'::('s'::[]))))))))) :: ((('D'::('e'::('p'::('r'::('e'::('c'::('a'::('t'::('i'::('o'::('n'::('W'::('a'::('r'::('n'::('i'::('n'::('g'::[])))))))))))))))))),
    ('b'::('u'::('i'::('l'::('t'::('i'::('n'::('s'::[]))))))))) :: ((('E'::('O'::('F'::('E'::('r'::('r'::('o'::('r'::[])))))))),
    ('b'::('u'::('i'::('l'::('t'::('i'::('n'::('s'::[]))))))))) :: ((('E'::('l'::('l'::('i'::('p'::('s'::('i'::('s'::[])))))))),
    ('-'::[])) :: ((('E'::('n'::('c'::('o'::('d'::('i'::('n'::('g'::('W'::('a'::('r'::('n'::('i'::('n'::('g'::[]))))))))))))))),
    ('b'::('u'::('i'::('l'::('t'::('i'::('n'::('s'::[]))))))))) :: ((('E'::('n'::('v'::('i'::('r'::('o'::('n'::('m'::('e'::('n'::('t'::('E'::('r'::('r'::('o'::('r'::[])))))))))))))))),
    ('b'::('u'::('i'::('l'::('t'::('i'::('n'::('s'::[]))))))))) :: ((('E'::('x'::('c'::('e'::('p'::('t'::('i'::('o'::('n'::[]))))))))),
    ('b'::('u'::('i'::('l'::('t'::('i'::('n'::('s'::[]))))))))) :: ((('E'::('x'::('c'::('e'::('p'::('t'::('i'::('o'::('n'::('G'::('r'::('o'::('u'::('p'::[])))))))))))))),
    ('b'::('u'::('i'::('l'::('t'::('i'::('n'::('s'::[]))))))))) :: ((('F'::('a'::('l'::('s'::('e'::[]))))),
    ('-'::[])) :: ((('F'::('i'::('l'::('e'::('E'::('x'::('i'::('s'::('t'::('s'::('E'::('r'::('r'::('o'::('r'::[]))))))))))))))),
    ('b'::('u'::('i'::('l'::('t'::('i'::('n'::('s'::[]))))))))) :: ((('F'::('i'::('l'::('e'::('N'::('o'::('t'::('F'::('o'::('u'::('n'::('d'::('E'::('r'::('r'::('o'::('r'::[]))))))))))))))))),
    ('b'::('u'::('i'::('l'::('t'::('i'::('n'::('s'::[]))))))))) :: ((('F'::('l'::('o'::('a'::('t'::('i'::('n'::('g'::('P'::('o'::('i'::('n'::('t'::('E'::('r'::('r'::('o'::('r'::[])))))))))))))))))),
    ('b'::('u'::('i'::('l'::('t'::('i'::('n'::('s'::[]))))))))) :: ((('F'::('u'::('t'::('u'::('r'::('e'::('W'::('a'::('r'::('n'::('i'::('n'::('g'::[]))))))))))))),
    ('b'::('u'::('i'::('l'::('t'::('i'::('n'::('s'::[]))))))))) :: ((('G'::('e'::('n'::('e'::('r'::('a'::('t'::('o'::('r'::('E'::('x'::('i'::('t'::[]))))))))))))),
    ('b'::('u'::('i'::('l'::('t'::('i'::('n'::('s'::[]))))))))) :: ((('I'::('O'::('E'::('r'::('r'::('o'::('r'::[]))))))),
    ('b'::('u'::('i'::('l'::('t'::('i'::('n'::('s'::[]))))))))) :: ((('I'::('m'::('p'::('o'::('r'::('t'::('E'::('r'::('r'::('o'::('r'::[]))))))))))),
    ('b'::('u'::('i'::('l'::('t'::('i'::('n'::('s'::[]))))))))) :: ((('I'::('m'::('p'::('o'::('r'::('t'::('W'::('a'::('r'::('n'::('i'::('n'::('g'::[]))))))))))))),
    ('b'::('u'::('i'::('l'::('t'::('i'::('n'::('s'::[]))))))))) :: ((('I'::('n'::('d'::('e'::('n'::('t'::('a'::('t'::('i'::('o'::('n'::('E'::('r'::('r'::('o'::('r'::[])))))))))))))))),
    ('b'::('u'::('i'::('l'::('t'::('i'::('n'::('s'::[]))))))))) :: ((('I'::('n'::('d'::('e'::('x'::('E'::('r'::('r'::('o'::('r'::[])))))))))),
    ('b'::('u'::('i'::('l'::('t'::('i'::('n'::('s'::[]))))))))) :: ((('I'::('n'::('t'::('e'::('r'::('r'::('u'::('p'::('t'::('e'::('d'::('E'::('r'::('r'::('o'::('r'::[])))))))))))))))),
    ('b'::('u'::('i'::('l'::('t'::('i'::('n'::('s'::[]))))))))) :: ((('I'::('s'::('A'::('D'::('i'::('r'::('e'::('c'::('t'::('o'::('r'::('y'::('E'::('r'::('r'::('o'::('r'::[]))))))))))))))))),
    ('b'::('u'::('i'::('l'::('t'::('i'::('n'::('s'::[]))))))))) :: ((('K'::('e'::('y'::('E'::('r'::('r'::('o'::('r'::[])))))))),
    ('b'::('u'::('i'::('l'::('t'::('i'::('n'::('s'::[]))))))))) :: ((('K'::('e'::('y'::('b'::('o'::('a'::('r'::('d'::('I'::('n'::('t'::('e'::('r'::('r'::('u'::('p'::('t'::[]))))))))))))))))),
    ('b'::('u'::('i'::('l'::('t'::('i'::('n'::('s'::[]))))))))) :: ((('L'::('o'::('o'::('k'::('u'::('p'::('E'::('r'::('r'::('o'::('r'::[]))))))))))),
    ('b'::('u'::('i'::('l'::('t'::('i'::('n'::('s'::[]))))))))) :: ((('M'::('e'::('m'::('o'::('r'::('y'::('E'::('r'::('r'::('o'::('r'::[]))))))))))),
    ('b'::('u'::('i'::('l'::('t'::('i'::('n'::('s'::[]))))))))) :: ((('M'::('o'::('d'::('u'::('l'::('e'::('N'::('o'::('t'::('F'::('o'::('u'::('n'::('d'::('E'::('r'::('r'::('o'::('r'::[]))))))))))))))))))),
    ('b'::('u'::('i'::('l'::('t'::('i'::('n'::('s'::[]))))))))) :: ((('N'::('a'::('m'::('e'::('E'::('r'::('r'::('o'::('r'::[]))))))))),
    ('b'::('u'::('i'::('l'::('t'::('i'::('n'::('s'::[]))))))))) :: ((('N'::('o'::('n'::('e'::[])))),
    ('-'::[])) :: ((('N'::('o'::('t'::('A'::('D'::('i'::('r'::('e'::('c'::('t'::('o'::('r'::('y'::('E'::('r'::('r'::('o'::('r'::[])))))))))))))))))),
    ('b'::('u'::('i'::('l'::('t'::('i'::('n'::('s'::[]))))))))) :: ((('N'::('o'::('t'::('I'::('m'::('p'::('l'::('e'::('m'::('e'::('n'::('t'::('e'::('d'::[])))))))))))))),
    ('-'::[])) :: ((('N'::('o'::('t'::('I'::('m'::('p'::('l'::('e'::('m'::('e'::('n'::('t'::('e'::('d'::('E'::('r'::('r'::('o'::('r'::[]))))))))))))))))))),
    ('b'::('u'::('i'::('l'::('t'::('i'::('n'::('s'::[]))))))))) :: ((('O'::('S'::('E'::('r'::('r'::('o'::('r'::[]))))))),
    ('b'::('u'::('i'::('l'::('t'::('i'::('n'::('s'::[]))))))))) :: ((('O'::('v'::('e'::('r'::('f'::('l'::('o'::('w'::('E'::('r'::('r'::('o'::('r'::[]))))))))))))),
    ('b'::('u'::('i'::('l'::('t'::('i'::('n'::('s'::[]))))))))) :: ((('P'::('e'::('n'::('d'::('i'::('n'::('g'::('D'::('e'::('p'::('r'::('e'::('c'::('a'::('t'::('i'::('o'::('n'::('W'::('a'::('r'::('n'::('i'::('n'::('g'::[]))))))))))))))))))))))))),
    ('b'::('u'::('i'::('l'::('t'::('i'::('n'::('s'::[]))))))))) :: ((('P'::('e'::('r'::('m'::('i'::('s'::('s'::('i'::('o'::('n'::('E'::('r'::('r'::('o'::('r'::[]))))))))))))))),
    ('b'::('u'::('i'::('l'::('t'::('i'::('n'::('s'::[]))))))))) :: ((('P'::('r'::('o'::('c'::('e'::('s'::('s'::('L'::('o'::('o'::('k'::('u'::('p'::('E'::('r'::('r'::('o'::('r'::[])))))))))))))))))),
    ('b'::('u'::('i'::('l'::('t'::('i'::('n'::('s'::[]))))))))) :: ((('R'::('e'::('c'::('u'::('r'::('s'::('i'::('o'::('n'::('E'::('r'::('r'::('o'::('r'::[])))))))))))))),
    ('b'::('u'::('i'::('l'::('t'::('i'::('n'::('s'::[]))))))))) :: ((('R'::('e'::('f'::('e'::('r'::('e'::('n'::('c'::('e'::('E'::('r'::('r'::('o'::('r'::[])))))))))))))),
    ('b'::('u'::('i'::('l'::('t'::('i'::('n'::('s'::[]))))))))) :: ((('R'::('e'::('s'::('o'::('u'::('r'::('c'::('e'::('W'::('a'::('r'::('n'::('i'::('n'::('g'::[]))))))))))))))),
    ('b'::('u'::('i'::('l'::('t'::('i'::('n'::('s'::[]))))))))) :: ((('R'::('u'::('n'::('t'::('i'::('m'::('e'::('E'::('r'::('r'::('o'::('r'::[])))))))))))),
    ('b'::('u'::('i'::('l'::('t'::('i'::('n'::('s'::[]))))))))) :: ((('R'::('u'::('n'::('t'::('i'::('m'::('e'::('W'::('a'::('r'::('n'::('i'::('n'::('g'::[])))))))))))))),
    ('b'::('u'::('i'::('l'::('t'::('i'::('n'::('s'::[]))))))))) :: ((('S'::('t'::('o'::('p'::('A'::('s'::('y'::('n'::('c'::('I'::('t'::('e'::('r'::('a'::('t'::('i'::('o'::('n'::[])))))))))))))))))),
    ('b'::('u'::('i'::('l'::('t'::('i'::('n'::('s'::[]))))))))) :: ((('S'::('t'::('o'::('p'::('I'::('t'::('e'::('r'::('a'::('t'::('i'::('o'::('n'::[]))))))))))))),
    ('b'::('u'::('i'::('l'::('t'::('i'::('n'::('s'::[]))))))))) :: ((('S'::('y'::('n'::('t'::('a'::('x'::('E'::('r'::('r'::('o'::('r'::[]))))))))))),
    ('b'::('u'::('i'::('l'::('t'::('i'::('n'::('s'::[]))))))))) :: ((('S'::('y'::('n'::('t'::('a'::('x'::('W'::('a'::('r'::('n'::('i'::('n'::('g'::[]))))))))))))),
    ('b'::('u'::('i'::('l'::('t'::('i'::('n'::('s'::[]))))))))) :: ((('S'::('y'::('s'::('t'::('e'::('m'::('E'::('r'::('r'::('o'::('r'::[]))))))))))),
    ('b'::('u'::('i'::('l'::('t'::('i'::('n'::('s'::[]))))))))) :: ((('S'::('y'::('s'::('t'::('e'::('m'::('E'::('x'::('i'::('t'::[])))))))))),
    ('b'::('u'::('i'::('l'::('t'::('i'::('n'::('s'::[]))))))))) :: ((('T'::('a'::('b'::('E'::('r'::('r'::('o'::('r'::[])))))))),
    ('b'::('u'::('i'::('l'::('t'::('i'::('n'::('s'::[]))))))))) :: ((('T'::('i'::('m'::('e'::('o'::('u'::('t'::('E'::('r'::('r'::('o'::('r'::[])))))))))))),
    ('b'::('u'::('i'::('l'::('t'::('i'::('n'::('s'::[]))))))))) :: ((('T'::('r'::('u'::('e'::[])))),
    ('-'::[])) :: ((('T'::('y'::('p'::('e'::('E'::('r'::('r'::('o'::('r'::[]))))))))),
    ('b'::('u'::('i'::('l'::('t'::('i'::('n'::('s'::[]))))))))) :: ((('U'::('n'::('b'::('o'::('u'::('n'::('d'::('L'::('o'::('c'::('a'::('l'::('E'::('r'::('r'::('o'::('r'::[]))))))))))))))))),
    ('b'::('u'::('i'::('l'::('t'::('i'::('n'::('s'::[]))))))))) :: ((('U'::('n'::('i'::('c'::('o'::('d'::('e'::('D'::('e'::('c'::('o'::('d'::('e'::('E'::('r'::('r'::('o'::('r'::[])))))))))))))))))),
    ('b'::('u'::('i'::('l'::('t'::('i'::('n'::('s'::[]))))))))) :: ((('U'::('n'::('i'::('c'::('o'::('d'::('e'::('E'::('n'::('c'::('o'::('d'::('e'::('E'::('r'::('r'::('o'::('r'::[])))))))))))))))))),
    ('b'::('u'::('i'::('l'::('t'::('i'::('n'::('s'::[]))))))))) :: ((('U'::('n'::('i'::('c'::('o'::('d'::('e'::('E'::('r'::('r'::('o'::('r'::[])))))))))))),
    ('b'::('u'::('i'::('l'::('t'::('i'::('n'::('s'::[]))))))))) :: ((('U'::('n'::('i'::('c'::('o'::('d'::('e'::('T'::('r'::('a'::('n'::('s'::('l'::('a'::('t'::('e'::('E'::('r'::('r'::('o'::('r'::[]))))))))))))))))))))),
    ('b'::('u'::('i'::('l'::('t'::('i'::('n'::('s'::[]))))))))) :: ((('U'::('n'::('i'::('c'::('o'::('d'::('e'::('W'::('a'::('r'::('n'::('i'::('n'::('g'::[])))))))))))))),
    ('b'::('u'::('i'::('l'::('t'::('i'::('n'::('s'::[]))))))))) :: ((('U'::('s'::('e'::('r'::('W'::('a'::('r'::('n'::('i'::('n'::('g'::[]))))))))))),
    ('b'::('u'::('i'::('l'::('t'::('i'::('n'::('s'::[]))))))))) :: ((('V'::('a'::('l'::('u'::('e'::('E'::('r'::('r'::('o'::('r'::[])))))))))),
    ('b'::('u'::('i'::('l'::('t'::('i'::('n'::('s'::[]))))))))) :: ((('W'::('a'::('r'::('n'::('i'::('n'::('g'::[]))))))),
    ('b'::('u'::('i'::('l'::('t'::('i'::('n'::('s'::[]))))))))) :: ((('Z'::('e'::('r'::('o'::('D'::('i'::('v'::('i'::('s'::('i'::('o'::('n'::('E'::('r'::('r'::('o'::('r'::[]))))))))))))))))),
    ('b'::('u'::('i'::('l'::('t'::('i'::('n'::('s'::[]))))))))) :: ((('_'::('_'::('b'::('u'::('i'::('l'::('d'::('_'::('c'::('l'::('a'::('s'::('s'::('_'::('_'::[]))))))))))))))),
    ('b'::('u'::('i'::('l'::('t'::('i'::('n'::('s'::[]))))))))) :: ((('_'::('_'::('d'::('e'::('b'::('u'::('g'::('_'::('_'::[]))))))))),
    ('-'::[])) :: ((('_'::('_'::('d'::('o'::('c'::('_'::('_'::[]))))))),
    ('-'::[])) :: ((('_'::('_'::('i'::('m'::('p'::('o'::('r'::('t'::('_'::('_'::[])))))))))),
    ('b'::('u'::('i'::('l'::('t'::('i'::('n'::('s'::[]))))))))) :: ((('_'::('_'::('l'::('o'::('a'::('d'::('e'::('r'::('_'::('_'::[])))))))))),
    ('_'::('f'::('r'::('o'::('z'::('e'::('n'::('_'::('i'::('m'::('p'::('o'::('r'::('t'::('l'::('i'::('b'::[])))))))))))))))))) :: ((('_'::('_'::('n'::('a'::('m'::('e'::('_'::('_'::[])))))))),
    ('-'::[])) :: ((('_'::('_'::('p'::('a'::('c'::('k'::('a'::('g'::('e'::('_'::('_'::[]))))))))))),
    ('-'::[])) :: ((('_'::('_'::('s'::('p'::('e'::('c'::('_'::('_'::[])))))))),
    ('_'::('f'::('r'::('o'::('z'::('e'::('n'::('_'::('i'::('m'::('p'::('o'::('r'::('t'::('l'::('i'::('b'::[])))))))))))))))))) :: ((('a'::('b'::('s'::[]))),
    ('b'::('u'::('i'::('l'::('t'::('i'::('n'::('s'::[]))))))))) :: ((('a'::('i'::('t'::('e'::('r'::[]))))),
    ('b'::('u'::('i'::('l'::('t'::('i'::('n'::('s'::[]))))))))) :: ((('a'::('l'::('l'::[]))),
    ('b'::('u'::('i'::('l'::('t'::('i'::('n'::('s'::[]))))))))) :: ((('a'::('n'::('e'::('x'::('t'::[]))))),
    ('b'::('u'::('i'::('l'::('t'::('i'::('n'::('s'::[]))))))))) :: ((('a'::('n'::('y'::[]))),
    ('b'::('u'::('i'::('l'::('t'::('i'::('n'::('s'::[]))))))))) :: ((('a'::('s'::('c'::('i'::('i'::[]))))),
    ('b'::('u'::('i'::('l'::('t'::('i'::('n'::('s'::[]))))))))) :: ((('b'::('i'::('n'::[]))),
    ('b'::('u'::('i'::('l'::('t'::('i'::('n'::('s'::[]))))))))) :: ((('b'::('o'::('o'::('l'::[])))),
    ('b'::('u'::('i'::('l'::('t'::('i'::('n'::('s'::[]))))))))) :: ((('b'::('r'::('e'::('a'::('k'::('p'::('o'::('i'::('n'::('t'::[])))))))))),
    ('b'::('u'::('i'::('l'::('t'::('i'::('n'::('s'::[]))))))))) :: ((('b'::('y'::('t'::('e'::('a'::('r'::('r'::('a'::('y'::[]))))))))),
    ('b'::('u'::('i'::('l'::('t'::('i'::('n'::('s'::[]))))))))) :: ((('b'::('y'::('t'::('e'::('s'::[]))))),
    ('b'::('u'::('i'::('l'::('t'::('i'::('n'::('s'::[]))))))))) :: ((('c'::('a'::('l'::('l'::('a'::('b'::('l'::('e'::[])))))))),
    ('b'::('u'::('i'::('l'::('t'::('i'::('n'::('s'::[]))))))))) :: ((('c'::('h'::('r'::[]))),
    ('b'::('u'::('i'::('l'::('t'::('i'::('n'::('s'::[]))))))))) :: ((('c'::('l'::('a'::('s'::('s'::('m'::('e'::('t'::('h'::('o'::('d'::[]))))))))))),
    ('b'::('u'::('i'::('l'::('t'::('i'::('n'::('s'::[]))))))))) :: ((('c'::('o'::('m'::('p'::('i'::('l'::('e'::[]))))))),
    ('b'::('u'::('i'::('l'::('t'::('i'::('n'::('s'::[]))))))))) :: ((('c'::('o'::('m'::('p'::('l'::('e'::('x'::[]))))))),
    ('b'::('u'::('i'::('l'::('t'::('i'::('n'::('s'::[]))))))))) :: ((('c'::('o'::('p'::('y'::('r'::('i'::('g'::('h'::('t'::[]))))))))),
    ('_'::('s'::('i'::('t'::('e'::('b'::('u'::('i'::('l'::('t'::('i'::('n'::('s'::[])))))))))))))) :: ((('c'::('r'::('e'::('d'::('i'::('t'::('s'::[]))))))),
    ('_'::('s'::('i'::('t'::('e'::('b'::('u'::('i'::('l'::('t'::('i'::('n'::('s'::[])))))))))))))) :: ((('d'::('e'::('l'::('a'::('t'::('t'::('r'::[]))))))),
    ('b'::('u'::('i'::('l'::('t'::('i'::('n'::('s'::[]))))))))) :: ((('d'::('i'::('c'::('t'::[])))),
    ('b'::('u'::('i'::('l'::('t'::('i'::('n'::('s'::[]))))))))) :: ((('d'::('i'::('r'::[]))),
    ('b'::('u'::('i'::('l'::('t'::('i'::('n'::('s'::[]))))))))) :: ((('d'::('i'::('v'::('m'::('o'::('d'::[])))))),
    ('b'::('u'::('i'::('l'::('t'::('i'::('n'::('s'::[]))))))))) :: ((('e'::('n'::('u'::('m'::('e'::('r'::('a'::('t'::('e'::[]))))))))),
    ('b'::('u'::('i'::('l'::('t'::('i'::('n'::('s'::[]))))))))) :: ((('e'::('v'::('a'::('l'::[])))),
    ('b'::('u'::('i'::('l'::('t'::('i'::('n'::('s'::[]))))))))) :: ((('e'::('x'::('e'::('c'::[])))),
    ('b'::('u'::('i'::('l'::('t'::('i'::('n'::('s'::[]))))))))) :: ((('e'::('x'::('i'::('t'::[])))),
    ('_'::('s'::('i'::('t'::('e'::('b'::('u'::('i'::('l'::('t'::('i'::('n'::('s'::[])))))))))))))) :: ((('f'::('i'::('l'::('t'::('e'::('r'::[])))))),
    ('b'::('u'::('i'::('l'::('t'::('i'::('n'::('s'::[]))))))))) :: ((('f'::('l'::('o'::('a'::('t'::[]))))),
    ('b'::('u'::('i'::('l'::('t'::('i'::('n'::('s'::[]))))))))) :: ((('f'::('o'::('r'::('m'::('a'::('t'::[])))))),
    ('b'::('u'::('i'::('l'::('t'::('i'::('n'::('s'::[]))))))))) :: ((('f'::('r'::('o'::('z'::('e'::('n'::('s'::('e'::('t'::[]))))))))),
    ('b'::('u'::('i'::('l'::('t'::('i'::('n'::('s'::[]))))))))) :: ((('g'::('e'::('t'::('a'::('t'::('t'::('r'::[]))))))),
    ('b'::('u'::('i'::('l'::('t'::('i'::('n'::('s'::[]))))))))) :: ((('g'::('l'::('o'::('b'::('a'::('l'::('s'::[]))))))),
    ('b'::('u'::('i'::('l'::('t'::('i'::('n'::('s'::[]))))))))) :: ((('h'::('a'::('s'::('a'::('t'::('t'::('r'::[]))))))),
    ('b'::('u'::('i'::('l'::('t'::('i'::('n'::('s'::[]))))))))) :: ((('h'::('a'::('s'::('h'::[])))),
    ('b'::('u'::('i'::('l'::('t'::('i'::('n'::('s'::[]))))))))) :: ((('h'::('e'::('l'::('p'::[])))),
    ('_'::('s'::('i'::('t'::('e'::('b'::('u'::('i'::('l'::('t'::('i'::('n'::('s'::[])))))))))))))) :: ((('h'::('e'::('x'::[]))),
    ('b'::('u'::('i'::('l'::('t'::('i'::('n'::('s'::[]))))))))) :: ((('i'::('d'::[])),
    ('b'::('u'::('i'::('l'::('t'::('i'::('n'::('s'::[]))))))))) :: ((('i'::('n'::('p'::('u'::('t'::[]))))),
    ('b'::('u'::('i'::('l'::('t'::('i'::('n'::('s'::[]))))))))) :: ((('i'::('n'::('t'::[]))),
    ('b'::('u'::('i'::('l'::('t'::('i'::('n'::('s'::[]))))))))) :: ((('i'::('s'::('i'::('n'::('s'::('t'::('a'::('n'::('c'::('e'::[])))))))))),
    ('b'::('u'::('i'::('l'::('t'::('i'::('n'::('s'::[]))))))))) :: ((('i'::('s'::('s'::('u'::('b'::('c'::('l'::('a'::('s'::('s'::[])))))))))),
    ('b'::('u'::('i'::('l'::('t'::('i'::('n'::('s'::[]))))))))) :: ((('i'::('t'::('e'::('r'::[])))),
    ('b'::('u'::('i'::('l'::('t'::('i'::('n'::('s'::[]))))))))) :: ((('l'::('e'::('n'::[]))),
    ('b'::('u'::('i'::('l'::('t'::('i'::('n'::('s'::[]))))))))) :: ((('l'::('i'::('c'::('e'::('n'::('s'::('e'::[]))))))),
    ('_'::('s'::('i'::('t'::('e'::('b'::('u'::('i'::('l'::('t'::('i'::('n'::('s'::[])))))))))))))) :: ((('l'::('i'::('s'::('t'::[])))),
    ('b'::('u'::('i'::('l'::('t'::('i'::('n'::('s'::[]))))))))) :: ((('l'::('o'::('c'::('a'::('l'::('s'::[])))))),
    ('b'::('u'::('i'::('l'::('t'::('i'::('n'::('s'::[]))))))))) :: ((('m'::('a'::('p'::[]))),
    ('b'::('u'::('i'::('l'::('t'::('i'::('n'::('s'::[]))))))))) :: ((('m'::('a'::('x'::[]))),
    ('b'::('u'::('i'::('l'::('t'::('i'::('n'::('s'::[]))))))))) :: ((('m'::('e'::('m'::('o'::('r'::('y'::('v'::('i'::('e'::('w'::[])))))))))),
    ('b'::('u'::('i'::('l'::('t'::('i'::('n'::('s'::[]))))))))) :: ((('m'::('i'::('n'::[]))),
    ('b'::('u'::('i'::('l'::('t'::('i'::('n'::('s'::[]))))))))) :: ((('n'::('e'::('x'::('t'::[])))),
    ('b'::('u'::('i'::('l'::('t'::('i'::('n'::('s'::[]))))))))) :: ((('o'::('b'::('j'::('e'::('c'::('t'::[])))))),
    ('b'::('u'::('i'::('l'::('t'::('i'::('n'::('s'::[]))))))))) :: ((('o'::('c'::('t'::[]))),
    ('b'::('u'::('i'::('l'::('t'::('i'::('n'::('s'::[]))))))))) :: ((('o'::('p'::('e'::('n'::[])))),
    ('_'::('i'::('o'::[])))) :: ((('o'::('r'::('d'::[]))),
    ('b'::('u'::('i'::('l'::('t'::('i'::('n'::('s'::[]))))))))) :: ((('p'::('o'::('w'::[]))),
    ('b'::('u'::('i'::('l'::('t'::('i'::('n'::('s'::[]))))))))) :: ((('p'::('r'::('i'::('n'::('t'::[]))))),
    ('b'::('u'::('i'::('l'::('t'::('i'::('n'::('s'::[]))))))))) :: ((('p'::('r'::('o'::('p'::('e'::('r'::('t'::('y'::[])))))))),
    ('b'::('u'::('i'::('l'::('t'::('i'::('n'::('s'::[]))))))))) :: ((('q'::('u'::('i'::('t'::[])))),
    ('_'::('s'::('i'::('t'::('e'::('b'::('u'::('i'::('l'::('t'::('i'::('n'::('s'::[])))))))))))))) :: ((('r'::('a'::('n'::('g'::('e'::[]))))),
    ('b'::('u'::('i'::('l'::('t'::('i'::('n'::('s'::[]))))))))) :: ((('r'::('e'::('p'::('r'::[])))),
    ('b'::('u'::('i'::('l'::('t'::('i'::('n'::('s'::[]))))))))) :: ((('r'::('e'::('v'::('e'::('r'::('s'::('e'::('d'::[])))))))),
    ('b'::('u'::('i'::('l'::('t'::('i'::('n'::('s'::[]))))))))) :: ((('r'::('o'::('u'::('n'::('d'::[]))))),
    ('b'::('u'::('i'::('l'::('t'::('i'::('n'::('s'::[]))))))))) :: ((('s'::('e'::('t'::[]))),
    ('b'::('u'::('i'::('l'::('t'::('i'::('n'::('s'::[]))))))))) :: ((('s'::('e'::('t'::('a'::('t'::('t'::('r'::[]))))))),
    ('b'::('u'::('i'::('l'::('t'::('i'::('n'::('s'::[]))))))))) :: ((('s'::('l'::('i'::('c'::('e'::[]))))),
    ('b'::('u'::('i'::('l'::('t'::('i'::('n'::('s'::[]))))))))) :: ((('s'::('o'::('r'::('t'::('e'::('d'::[])))))),
    ('b'::('u'::('i'::('l'::('t'::('i'::('n'::('s'::[]))))))))) :: ((('s'::('t'::('a'::('t'::('i'::('c'::('m'::('e'::('t'::('h'::('o'::('d'::[])))))))))))),
    ('b'::('u'::('i'::('l'::('t'::('i'::('n'::('s'::[]))))))))) :: ((('s'::('t'::('r'::[]))),
    ('b'::('u'::('i'::('l'::('t'::('i'::('n'::('s'::[]))))))))) :: ((('s'::('u'::('m'::[]))),
    ('b'::('u'::('i'::('l'::('t'::('i'::('n'::('s'::[]))))))))) :: ((('s'::('u'::('p'::('e'::('r'::[]))))),
    ('b'::('u'::('i'::('l'::('t'::('i'::('n'::('s'::[]))))))))) :: ((('t'::('u'::('p'::('l'::('e'::[]))))),
    ('b'::('u'::('i'::('l'::('t'::('i'::('n'::('s'::[]))))))))) :: ((('t'::('y'::('p'::('e'::[])))),
    ('b'::('u'::('i'::('l'::('t'::('i'::('n'::('s'::[]))))))))) :: ((('v'::('a'::('r'::('s'::[])))),
    ('b'::('u'::('i'::('l'::('t'::('i'::('n'::('s'::[]))))))))) :: ((('z'::('i'::('p'::[]))),
    ('b'::('u'::('i'::('l'::('t'::('i'::('n'::('s'::[]))))))))) :: []))))))))))))))))))))))))))))))))))))))))))))))))))))))))))))))))))))))))))))))))))))))))))))))))))))))))))))))))))))))))))))))))))))))))))))))))))))))))))))

(** val documented : char list list **)

let documented =
  ('s'::('i'::('n'::[]))) :: (('c'::('o'::('s'::[]))) :: (('t'::('a'::('n'::[]))) :: (('a'::('c'::('o'::('s'::[])))) :: (('a'::('s'::('i'::('n'::[])))) :: (('a'::('t'::('a'::('n'::[])))) :: (('a'::('t'::('a'::('n'::('2'::[]))))) :: (('s'::('i'::('n'::('h'::[])))) :: (('c'::('o'::('s'::('h'::[])))) :: (('t'::('a'::('n'::('h'::[])))) :: (('a'::('s'::('i'::('n'::('h'::[]))))) :: (('a'::('c'::('o'::('s'::('h'::[]))))) :: (('a'::('t'::('a'::('n'::('h'::[]))))) :: (('e'::('x'::('p'::[]))) :: (('l'::('d'::('e'::('x'::('p'::[]))))) :: (('l'::('o'::('g'::[]))) :: (('l'::('n'::[])) :: (('l'::('o'::('g'::('1'::('0'::[]))))) :: (('e'::('x'::('p'::('2'::[])))) :: (('e'::('x'::('p'::('m'::('1'::[]))))) :: (('i'::('l'::('o'::('g'::('b'::[]))))) :: (('l'::('o'::('g'::('1'::('p'::[]))))) :: (('l'::('o'::('g'::('2'::[])))) :: (('s'::('c'::('a'::('l'::('b'::('n'::[])))))) :: (('s'::('c'::('a'::('l'::('b'::('l'::('n'::[]))))))) :: (('p'::('o'::('w'::[]))) :: (('s'::('q'::('r'::('t'::[])))) :: (('c'::('b'::('r'::('t'::[])))) :: (('h'::('y'::('p'::('o'::('t'::[]))))) :: (('e'::('r'::('f'::[]))) :: (('e'::('r'::('f'::('c'::[])))) :: (('t'::('g'::('a'::('m'::('m'::('a'::[])))))) :: (('l'::('g'::('a'::('m'::('m'::('a'::[])))))) :: (('c'::('e'::('i'::('l'::[])))) :: (('f'::('l'::('o'::('o'::('r'::[]))))) :: (('f'::('m'::('o'::('d'::[])))) :: (('t'::('r'::('u'::('n'::('c'::[]))))) :: (('r'::('o'::('u'::('n'::('d'::[]))))) :: (('r'::('i'::('n'::('t'::[])))) :: (('n'::('e'::('a'::('r'::('b'::('y'::('i'::('n'::('t'::[]))))))))) :: (('r'::('e'::('m'::('a'::('i'::('n'::('d'::('e'::('r'::[]))))))))) :: (('r'::('e'::('m'::('q'::('u'::('o'::[])))))) :: (('c'::('o'::('p'::('y'::('s'::('i'::('g'::('n'::[])))))))) :: (('n'::('a'::('n'::[]))) :: (('n'::('e'::('x'::('t'::('a'::('f'::('t'::('e'::('r'::[]))))))))) :: (('n'::('e'::('x'::('t'::('t'::('o'::('w'::('a'::('r'::('d'::[])))))))))) :: (('f'::('d'::('i'::('m'::[])))) :: (('f'::('m'::('a'::('x'::[])))) :: (('f'::('m'::('i'::('n'::[])))) :: (('f'::('a'::('b'::('s'::[])))) :: (('a'::('b'::('s'::[]))) :: (('f'::('m'::('a'::[]))) :: [])))))))))))))))))))))))))))))))))))))))))))))))))))

(** val math_env : menv **)

let math_env =
  { e_rows = math_rows; e_module = module_names; e_builtins = builtin_names }

(** val is_word : char -> bool **)

let is_word c =
  let n0 = nat_of_ascii c in
  (||)
    ((||)
      ((||)
        ((&&)
          (Nat.leb (S (S (S (S (S (S (S (S (S (S (S (S (S (S (S (S (S (S (S
            (S (S (S (S (S (S (S (S (S (S (S (S (S (S (S (S (S (S (S (S (S (S
            (S (S (S (S (S (S (S
            O)))))))))))))))))))))))))))))))))))))))))))))))) n0)
          (Nat.leb n0 (S (S (S (S (S (S (S (S (S (S (S (S (S (S (S (S (S (S
            (S (S (S (S (S (S (S (S (S (S (S (S (S (S (S (S (S (S (S (S (S (S
            (S (S (S (S (S (S (S (S (S (S (S (S (S (S (S (S (S
            O)))))))))))))))))))))))))))))))))))))))))))))))))))))))))))
        ((&&)
          (Nat.leb (S (S (S (S (S (S (S (S (S (S (S (S (S (S (S (S (S (S (S
            (S (S (S (S (S (S (S (S (S (S (S (S (S (S (S (S (S (S (S (S (S (S
            (S (S (S (S (S (S (S (S (S (S (S (S (S (S (S (S (S (S (S (S (S (S
            (S (S
            O)))))))))))))))))))))))))))))))))))))))))))))))))))))))))))))))))
            n0)
          (Nat.leb n0 (S (S (S (S (S (S (S (S (S (S (S (S (S (S (S (S (S (S
            (S (S (S (S (S (S (S (S (S (S (S (S (S (S (S (S (S (S (S (S (S (S
            (S (S (S (S (S (S (S (S (S (S (S (S (S (S (S (S (S (S (S (S (S (S
            (S (S (S (S (S (S (S (S (S (S (S (S (S (S (S (S (S (S (S (S (S (S
            (S (S (S (S (S (S
            O)))))))))))))))))))))))))))))))))))))))))))))))))))))))))))))))))))))))))))))))))))))))))))))
      ((&&)
        (Nat.leb (S (S (S (S (S (S (S (S (S (S (S (S (S (S (S (S (S (S (S (S
          (S (S (S (S (S (S (S (S (S (S (S (S (S (S (S (S (S (S (S (S (S (S
          (S (S (S (S (S (S (S (S (S (S (S (S (S (S (S (S (S (S (S (S (S (S
          (S (S (S (S (S (S (S (S (S (S (S (S (S (S (S (S (S (S (S (S (S (S
          (S (S (S (S (S (S (S (S (S (S (S
          O)))))))))))))))))))))))))))))))))))))))))))))))))))))))))))))))))))))))))))))))))))))))))))))))))
          n0)
        (Nat.leb n0 (S (S (S (S (S (S (S (S (S (S (S (S (S (S (S (S (S (S (S
          (S (S (S (S (S (S (S (S (S (S (S (S (S (S (S (S (S (S (S (S (S (S
          (S (S (S (S (S (S (S (S (S (S (S (S (S (S (S (S (S (S (S (S (S (S
          (S (S (S (S (S (S (S (S (S (S (S (S (S (S (S (S (S (S (S (S (S (S
          (S (S (S (S (S (S (S (S (S (S (S (S (S (S (S (S (S (S (S (S (S (S
          (S (S (S (S (S (S (S (S (S (S (S (S (S (S (S
          O)))))))))))))))))))))))))))))))))))))))))))))))))))))))))))))))))))))))))))))))))))))))))))))))))))))))))))))))))))))))))))))
    (Nat.eqb n0 (S (S (S (S (S (S (S (S (S (S (S (S (S (S (S (S (S (S (S (S
      (S (S (S (S (S (S (S (S (S (S (S (S (S (S (S (S (S (S (S (S (S (S (S (S
      (S (S (S (S (S (S (S (S (S (S (S (S (S (S (S (S (S (S (S (S (S (S (S (S
      (S (S (S (S (S (S (S (S (S (S (S (S (S (S (S (S (S (S (S (S (S (S (S (S
      (S (S (S
      O))))))))))))))))))))))))))))))))))))))))))))))))))))))))))))))))))))))))))))))))))))))))))))))))

(** val snoc : char list -> char -> char list **)

let snoc s c =
  append s (c::[])

(** val flush : char list -> char list -> char list -> char list **)

let flush w repl cur =
  if eqb0 cur w then repl else cur

(** val sub_run :
    char list -> char list -> char list -> char list -> char list **)

let rec sub_run w repl cur = function
| [] -> flush w repl cur
| c::r ->
  if is_word c
  then sub_run w repl (snoc cur c) r
  else append (flush w repl cur) (c::(sub_run w repl [] r))

(** val subst_word : char list -> char list -> char list -> char list **)

let subst_word w repl s =
  sub_run w repl [] s

type hole =
| HCont
| HType
| HTok

type piece =
| PLit of char list
| PHole of hole
| PArg

type pattern = piece list

type henv = { e_cont : char list; e_type : char list; e_tok : char list }

(** val hole_val : henv -> hole -> char list **)

let hole_val e = function
| HCont -> e.e_cont
| HType -> e.e_type
| HTok -> e.e_tok

(** val inst : henv -> char list -> pattern -> char list **)

let rec inst e arg0 = function
| [] -> []
| p0 :: r ->
  (match p0 with
   | PLit s -> append s (inst e arg0 r)
   | PHole h -> append (hole_val e h) (inst e arg0 r)
   | PArg -> append arg0 (inst e arg0 r))

(** val fstring : henv -> pattern -> char list **)

let fstring e p =
  inst e [] p

(** val merge_lits : pattern -> pattern **)

let rec merge_lits = function
| [] -> []
| x :: r ->
  (match x with
   | PLit a ->
     (match merge_lits r with
      | [] -> let r' = [] in if eqb0 a [] then r' else (PLit a) :: r'
      | p0 :: r' ->
        (match p0 with
         | PLit b -> (PLit (append a b)) :: r'
         | x0 ->
           let r'0 = x0 :: r' in if eqb0 a [] then r'0 else (PLit a) :: r'0))
   | _ -> x :: (merge_lits r))

type ckind =
| KSingle
| KColl

type cclass = { cc_name : char list; cc_kind : ckind; cc_str : pattern;
                cc_token : pattern option; cc_pd_type : nat; cc_pd_elem : 
                nat }

type cspec = { cs_backend : char list; cs_name : char list;
               cs_includes : char list list; cs_kind : ckind;
               cs_type : char list; cs_pd_type : nat; cs_elem : char list;
               cs_pd_elem : nat; cs_str : pattern; cs_token : pattern option;
               cs_libs : char list list }

(** val type_env : char list -> henv **)

let type_env ty =
  { e_cont = []; e_type = ty; e_tok = [] }

(** val cont_str : cspec -> char list **)

let cont_str s =
  fstring (type_env s.cs_type) s.cs_str

(** val token_type : cspec -> char list option **)

let token_type s =
  option_map (fstring (type_env s.cs_type)) s.cs_token

type token_alloc =
| TokNone
| TokPerClass
| TokPerCall

type coder = { cd_lines : pattern list; cd_alloc : token_alloc;
               cd_init : pattern option }

type mdkind = { mk_type : char list; mk_keys : char list list;
                mk_bname : char list; mk_coll : cclass;
                mk_single : cclass option; mk_libs : bool; mk_elem_ptr : 
                bool }

type backend = { b_key : char list; b_accepts : char list;
                 b_table : cspec list; b_coder : coder }

type cenv = { c_backends : backend list; c_kinds : mdkind list;
              c_default_types : (char list * (((char list * char list) * char list) * nat)
                                list) list }

type mval =
| MStr of char list
| MBool of bool
| MList of char list list

type mdict = (char list * mval) list

(** val md_get : char list -> mdict -> mval option **)

let rec md_get k = function
| [] -> None
| p :: r -> let (a, v) = p in if eqb0 k a then Some v else md_get k r

(** val md_has : char list -> mdict -> bool **)

let md_has k d =
  match md_get k d with
  | Some _ -> true
  | None -> false

(** val unmodelled : 'a1 result **)

let unmodelled =
  Error (ErrOther
    ('u'::('n'::('m'::('o'::('d'::('e'::('l'::('l'::('e'::('d'::[])))))))))))

(** val req_str : char list -> mdict -> char list result **)

let req_str k d =
  match md_get k d with
  | Some m -> (match m with
               | MStr s -> OK s
               | _ -> unmodelled)
  | None -> Error ErrKey

(** val req_bool : char list -> mdict -> bool result **)

let req_bool k d =
  match md_get k d with
  | Some m -> (match m with
               | MBool b -> OK b
               | _ -> unmodelled)
  | None -> Error ErrKey

(** val req_list : char list -> mdict -> char list list result **)

let req_list k d =
  match md_get k d with
  | Some m -> (match m with
               | MList l -> OK l
               | _ -> unmodelled)
  | None -> Error ErrKey

(** val find_kind : char list -> mdkind list -> mdkind option **)

let rec find_kind t = function
| [] -> None
| k :: r -> if eqb0 t k.mk_type then Some k else find_kind t r

(** val unexpected_key : mdkind -> mdict -> bool **)

let unexpected_key k d =
  existsb (fun kv -> negb (mem_str (fst kv) k.mk_keys)) d

(** val spec_of_class :
    char list -> char list -> char list list -> cclass -> char list ->
    char list -> nat -> char list list -> cspec **)

let spec_of_class backend0 name inc c ty elem pd_elem libs =
  { cs_backend = backend0; cs_name = name; cs_includes = inc; cs_kind =
    c.cc_kind; cs_type = ty; cs_pd_type = c.cc_pd_type; cs_elem = elem;
    cs_pd_elem = pd_elem; cs_str = c.cc_str; cs_token = c.cc_token; cs_libs =
    libs }

(** val process_decl : mdkind list -> mdict -> cspec result **)

let process_decl ks d =
  match md_get
          ('m'::('e'::('t'::('a'::('d'::('a'::('t'::('a'::('_'::('t'::('y'::('p'::('e'::[])))))))))))))
          d with
  | Some m ->
    (match m with
     | MStr t ->
       (match find_kind t ks with
        | Some k ->
          if unexpected_key k d
          then Error ErrValue
          else bind
                 (req_bool
                   ('c'::('o'::('n'::('t'::('a'::('i'::('n'::('s'::('_'::('c'::('o'::('l'::('l'::('e'::('c'::('t'::('i'::('o'::('n'::[])))))))))))))))))))
                   d) (fun cc ->
                 let has_et =
                   md_has
                     ('e'::('l'::('e'::('m'::('e'::('n'::('t'::('_'::('t'::('y'::('p'::('e'::[]))))))))))))
                     d
                 in
                 if (||) ((&&) cc (negb has_et)) ((&&) (negb cc) has_et)
                 then Error ErrValue
                 else bind
                        (req_str
                          ('c'::('o'::('n'::('t'::('a'::('i'::('n'::('e'::('r'::('_'::('t'::('y'::('p'::('e'::[]))))))))))))))
                          d) (fun ty ->
                        bind
                          (if cc
                           then bind
                                  (req_str
                                    ('e'::('l'::('e'::('m'::('e'::('n'::('t'::('_'::('t'::('y'::('p'::('e'::[]))))))))))))
                                    d) (fun e -> OK (k.mk_coll, e))
                           else (match k.mk_single with
                                 | Some c -> OK (c, [])
                                 | None -> Error ErrKey)) (fun x ->
                          let (cls, elem) = x in
                          bind
                            (if k.mk_libs
                             then (match md_get
                                           ('l'::('i'::('n'::('k'::('_'::('l'::('i'::('b'::('r'::('a'::('r'::('i'::('e'::('s'::[]))))))))))))))
                                           d with
                                   | Some m0 ->
                                     (match m0 with
                                      | MList l -> OK l
                                      | _ -> unmodelled)
                                   | None -> OK [])
                             else OK []) (fun libs ->
                            bind
                              (if k.mk_elem_ptr
                               then (match md_get
                                             ('e'::('l'::('e'::('m'::('e'::('n'::('t'::('_'::('p'::('o'::('i'::('n'::('t'::('e'::('r'::[])))))))))))))))
                                             d with
                                     | Some m0 ->
                                       (match m0 with
                                        | MBool b -> OK (if b then S O else O)
                                        | _ -> unmodelled)
                                     | None -> OK O)
                               else OK cls.cc_pd_elem) (fun pd_elem ->
                              bind (req_str ('n'::('a'::('m'::('e'::[])))) d)
                                (fun name ->
                                bind
                                  (req_list
                                    ('i'::('n'::('c'::('l'::('u'::('d'::('e'::('_'::('f'::('i'::('l'::('e'::('s'::[])))))))))))))
                                    d) (fun inc -> OK
                                  (spec_of_class k.mk_bname name inc cls ty
                                    elem pd_elem libs))))))))
        | None -> unmodelled)
     | _ -> unmodelled)
  | None -> Error ErrValue

(** val process_metadata : mdkind list -> mdict list -> cspec list result **)

let rec process_metadata ks = function
| [] -> OK []
| d :: r ->
  bind (process_decl ks d) (fun s ->
    bind (process_metadata ks r) (fun rest -> OK (s :: rest)))

(** val build_collection_callback : backend -> cspec -> cspec result **)

let build_collection_callback b s =
  if eqb0 s.cs_backend b.b_accepts then OK s else Error ErrValue

(** val check_backends : backend -> cspec list -> unit result **)

let rec check_backends b = function
| [] -> OK ()
| s :: r -> bind (build_collection_callback b s) (fun _ -> check_backends b r)

(** val find_last : char list -> cspec list -> cspec option **)

let rec find_last n0 = function
| [] -> None
| s :: r ->
  (match find_last n0 r with
   | Some s' -> Some s'
   | None -> if eqb0 n0 s.cs_name then Some s else None)

(** val lookup_collection :
    backend -> cspec list -> char list -> cspec option **)

let lookup_collection b declared n0 =
  match find_last n0 declared with
  | Some s -> Some s
  | None -> find_last n0 b.b_table

type uname = { un_base : char list; un_idx : nat }

(** val render_name : uname -> char list **)

let render_name u =
  append u.un_base (dec_nat u.un_idx)

(** val lower_char : char -> char **)

let lower_char c =
  let n0 = nat_of_ascii c in
  if (&&)
       (Nat.leb (S (S (S (S (S (S (S (S (S (S (S (S (S (S (S (S (S (S (S (S
         (S (S (S (S (S (S (S (S (S (S (S (S (S (S (S (S (S (S (S (S (S (S (S
         (S (S (S (S (S (S (S (S (S (S (S (S (S (S (S (S (S (S (S (S (S (S
         O)))))))))))))))))))))))))))))))))))))))))))))))))))))))))))))))))
         n0)
       (Nat.leb n0 (S (S (S (S (S (S (S (S (S (S (S (S (S (S (S (S (S (S (S
         (S (S (S (S (S (S (S (S (S (S (S (S (S (S (S (S (S (S (S (S (S (S (S
         (S (S (S (S (S (S (S (S (S (S (S (S (S (S (S (S (S (S (S (S (S (S (S
         (S (S (S (S (S (S (S (S (S (S (S (S (S (S (S (S (S (S (S (S (S (S (S
         (S (S
         O)))))))))))))))))))))))))))))))))))))))))))))))))))))))))))))))))))))))))))))))))))))))))))
  then ascii_of_nat
         (add n0 (S (S (S (S (S (S (S (S (S (S (S (S (S (S (S (S (S (S (S (S
           (S (S (S (S (S (S (S (S (S (S (S (S
           O)))))))))))))))))))))))))))))))))
  else c

(** val lower : char list -> char list **)

let rec lower = function
| [] -> []
| c::r -> (lower_char c)::(lower r)

type vdecl = { vd_type : char list; vd_name : uname }

type stmt =
| SArb of char list
| SSet of uname * char list
| SBlk of vdecl list * stmt list

type gstate = { g_vars : vdecl list; g_stmts : stmt list;
                g_class : vdecl list; g_book : stmt list;
                g_inc : char list list; g_libs : char list list; g_ctr : 
                nat }

(** val add_unique : char list -> char list list -> char list list **)

let add_unique x l =
  if mem_str x l then l else app l (x :: [])

(** val add_all : char list list -> char list list -> char list list **)

let add_all xs l =
  fold_left (fun acc x -> add_unique x acc) xs l

type arg =
| AStr of char list
| AOther

type use = { u_name : char list; u_args : arg list }

type rep_kind =
| RVar
| RColl

type cpv = { v_args : char list list; v_includes : char list list;
             v_libs : char list list; v_code : char list list;
             v_result : char list; v_rep : rep_kind; v_spec : cspec;
             v_fields : (vdecl * char list) list }

(** val param_name : char list **)

let param_name =
  'c'::('o'::('l'::('l'::('e'::('c'::('t'::('i'::('o'::('n'::('_'::('n'::('a'::('m'::('e'::[]))))))))))))))

(** val compose : pattern -> pattern -> pattern **)

let compose cls line =
  merge_lits
    (flat_map (fun x ->
      match x with
      | PHole h -> (match h with
                    | HCont -> cls
                    | _ -> x :: [])
      | _ -> x :: []) line)

(** val line_env : cspec -> char list -> henv **)

let line_env s tok =
  { e_cont = []; e_type = s.cs_type; e_tok = tok }

(** val running_code : coder -> cspec -> char list -> char list list **)

let running_code cd s tok =
  map (fun p -> fstring (line_env s tok) (compose s.cs_str p)) cd.cd_lines

(** val token_fields : coder -> cspec -> uname -> (vdecl * char list) list **)

let token_fields cd s tok =
  match cd.cd_init with
  | Some p ->
    (match token_type s with
     | Some tty ->
       ({ vd_type = tty; vd_name = tok },
         (fstring (line_env s (render_name tok)) (compose s.cs_str p))) :: []
     | None -> [])
  | None -> []

(** val class_token : uname **)

let class_token =
  { un_base = ('t'::('o'::('k'::('e'::('n'::[]))))); un_idx = O }

(** val get_collection :
    coder -> cspec -> arg list -> nat -> (cpv * nat) result **)

let get_collection cd s args ctr =
  match args with
  | [] -> Error ErrValue
  | a :: l ->
    (match a with
     | AStr _ ->
       (match l with
        | [] ->
          (match cd.cd_alloc with
           | TokPerCall ->
             let tok = { un_base = ('t'::('o'::('k'::('e'::('n'::[])))));
               un_idx = ctr }
             in
             let ctr' = S ctr in
             OK ({ v_args = (param_name :: []); v_includes = s.cs_includes;
             v_libs = s.cs_libs; v_code =
             (running_code cd s (render_name tok)); v_result =
             ('r'::('e'::('s'::('u'::('l'::('t'::[])))))); v_rep =
             (match s.cs_kind with
              | KSingle -> RVar
              | KColl -> RColl); v_spec = s; v_fields =
             (match cd.cd_alloc with
              | TokNone -> []
              | _ -> token_fields cd s tok) }, ctr')
           | _ ->
             OK ({ v_args = (param_name :: []); v_includes = s.cs_includes;
               v_libs = s.cs_libs; v_code =
               (running_code cd s (render_name class_token)); v_result =
               ('r'::('e'::('s'::('u'::('l'::('t'::[])))))); v_rep =
               (match s.cs_kind with
                | KSingle -> RVar
                | KColl -> RColl); v_spec = s; v_fields =
               (match cd.cd_alloc with
                | TokNone -> []
                | _ -> token_fields cd s class_token) }, ctr))
        | _ :: _ -> Error ErrValue)
     | AOther -> Error ErrValue)

(** val cpp_string_literal : char list -> char list **)

let cpp_string_literal s =
  append ('"'::[]) (append s ('"'::[]))

type rep = { r_kind : rep_kind; r_name : uname; r_type : char list;
             r_pd : nat; r_elem : char list; r_pd_elem : nat }

(** val process_ast_node : cpv -> char list -> gstate -> gstate * rep **)

let process_ast_node v bank g =
  let s = v.v_spec in
  let var = { un_base = (lower s.cs_name); un_idx = g.g_ctr } in
  let ty = cont_str s in
  let lit = cpp_string_literal bank in
  let sub0 = fun l -> fold_left (fun acc a -> subst_word a lit acc) v.v_args l
  in
  let inner =
    app (map (fun l -> SArb (sub0 l)) v.v_code) ((SSet (var,
      v.v_result)) :: [])
  in
  ({ g_vars = (app g.g_vars ({ vd_type = ty; vd_name = var } :: []));
  g_stmts = (app g.g_stmts ((SBlk ([], inner)) :: [])); g_class =
  (app g.g_class (map fst v.v_fields)); g_book =
  (app g.g_book
    (map (fun f -> SSet ((fst f).vd_name, (sub0 (snd f)))) v.v_fields));
  g_inc = (add_all v.v_includes g.g_inc); g_libs =
  (add_all v.v_libs g.g_libs); g_ctr = (S g.g_ctr) }, { r_kind = v.v_rep;
  r_name = var; r_type = s.cs_type; r_pd = s.cs_pd_type; r_elem = s.cs_elem;
  r_pd_elem = s.cs_pd_elem })

(** val deref_expr : rep -> char list **)

let deref_expr r =
  if Nat.ltb O r.r_pd
  then append ('*'::[]) (render_name r.r_name)
  else render_name r.r_name

(** val wrap_deref : nat -> char list -> char list **)

let rec wrap_deref n0 e =
  match n0 with
  | O -> e
  | S k -> wrap_deref k (append ('('::('*'::[])) (append e (')'::[])))

(** val member_access : char list -> nat -> nat -> char list **)

let member_access e pd extra =
  let depth = add extra pd in
  (match depth with
   | O -> append e ('.'::[])
   | S k -> append (wrap_deref k e) ('-'::('>'::[])))

(** val emit_decl : vdecl -> char list **)

let emit_decl d =
  append d.vd_type
    (append (' '::[]) (append (render_name d.vd_name) (';'::[])))

(** val emit_stmt : stmt -> char list list **)

let rec emit_stmt = function
| SArb l -> l :: []
| SSet (t, v) ->
  (append (render_name t)
    (append (' '::('='::(' '::[]))) (append v (';'::[])))) :: []
| SBlk (vars, body) ->
  ('{'::[]) :: (app (map emit_decl vars)
                 (app
                   (let rec go = function
                    | [] -> []
                    | x :: r -> app (emit_stmt x) (go r)
                    in go body) (('}'::[]) :: [])))

(** val emit_stmts : stmt list -> char list list **)

let emit_stmts l =
  flat_map emit_stmt l

(** val bank_of : use -> char list **)

let bank_of u =
  match u.u_args with
  | [] -> []
  | a :: l ->
    (match a with
     | AStr b -> (match l with
                  | [] -> b
                  | _ :: _ -> [])
     | AOther -> [])

(** val find_uses :
    backend -> cspec list -> use list -> nat -> ((cpv * char list)
    list * nat) result **)

let rec find_uses b declared us ctr =
  match us with
  | [] -> OK ([], ctr)
  | u :: r ->
    (match lookup_collection b declared u.u_name with
     | Some s ->
       bind (get_collection b.b_coder s u.u_args ctr) (fun x ->
         let (v, ctr1) = x in
         bind (find_uses b declared r ctr1) (fun x0 ->
           let (rest, ctr2) = x0 in OK (((v, (bank_of u)) :: rest), ctr2)))
     | None -> unmodelled)

(** val translate_uses :
    (cpv * char list) list -> gstate -> gstate * rep list **)

let rec translate_uses vs g =
  match vs with
  | [] -> (g, [])
  | p :: r ->
    let (v, b) = p in
    let (g1, rp) = process_ast_node v b g in
    let (g2, rps) = translate_uses r g1 in (g2, (rp :: rps))

(** val empty_gstate : nat -> gstate **)

let empty_gstate ctr =
  { g_vars = []; g_stmts = []; g_class = []; g_book = []; g_inc = [];
    g_libs = []; g_ctr = ctr }

(** val run_query :
    cenv -> backend -> mdict list -> use list -> (gstate * rep list) result **)

let run_query e b mds us =
  bind (process_metadata e.c_kinds mds) (fun declared ->
    bind (check_backends b declared) (fun _ ->
      bind (find_uses b declared us (S O)) (fun x ->
        let (vs, ctr) = x in OK (translate_uses vs (empty_gstate ctr)))))

(** val d_mval : sexp -> mval option **)

let d_mval = function
| SAtom _ -> None
| SList l ->
  (match l with
   | [] -> None
   | s0 :: l0 ->
     (match s0 with
      | SAtom s1 ->
        (match s1 with
         | [] -> None
         | a::s2 ->
           (* If this appears, you're using Ascii internals. Please don't *)
 (fun f c ->
  let n = Char.code c in
  let h i = (n land (1 lsl i)) <> 0 in
  f (h 0) (h 1) (h 2) (h 3) (h 4) (h 5) (h 6) (h 7))
             (fun b b0 b1 b2 b3 b4 b5 b6 ->
             if b
             then if b0
                  then if b1
                       then None
                       else if b2
                            then None
                            else if b3
                                 then if b4
                                      then if b5
                                           then if b6
                                                then None
                                                else (match s2 with
                                                      | [] ->
                                                        (match l0 with
                                                         | [] -> None
                                                         | s3 :: l1 ->
                                                           (match s3 with
                                                            | SAtom v ->
                                                              (match l1 with
                                                               | [] ->
                                                                 Some (MStr v)
                                                               | _ :: _ ->
                                                                 None)
                                                            | SList _ -> None))
                                                      | _::_ -> None)
                                           else None
                                      else None
                                 else None
                  else None
             else if b0
                  then if b1
                       then None
                       else if b2
                            then None
                            else if b3
                                 then None
                                 else if b4
                                      then if b5
                                           then if b6
                                                then None
                                                else (match s2 with
                                                      | [] ->
                                                        (match l0 with
                                                         | [] -> None
                                                         | v :: l1 ->
                                                           (match l1 with
                                                            | [] ->
                                                              option_map
                                                                (fun x ->
                                                                MBool x)
                                                                (d_bool v)
                                                            | _ :: _ -> None))
                                                      | _::_ -> None)
                                           else None
                                      else None
                  else if b1
                       then if b2
                            then if b3
                                 then None
                                 else if b4
                                      then if b5
                                           then if b6
                                                then None
                                                else (match s2 with
                                                      | [] ->
                                                        (match l0 with
                                                         | [] -> None
                                                         | v :: l1 ->
                                                           (match l1 with
                                                            | [] ->
                                                              option_map
                                                                (fun x ->
                                                                MList x)
                                                                (d_strs v)
                                                            | _ :: _ -> None))
                                                      | _::_ -> None)
                                           else None
                                      else None
                            else None
                       else None)
             a)
      | SList _ -> None))

(** val d_kv : sexp -> (char list * mval) option **)

let d_kv = function
| SAtom _ -> None
| SList l ->
  (match l with
   | [] -> None
   | s0 :: l0 ->
     (match s0 with
      | SAtom k ->
        (match l0 with
         | [] -> None
         | v :: l1 ->
           (match l1 with
            | [] -> option_map (fun x -> (k, x)) (d_mval v)
            | _ :: _ -> None))
      | SList _ -> None))

(** val d_mdict : sexp -> mdict option **)

let d_mdict = function
| SAtom _ -> None
| SList l -> d_list d_kv l

(** val d_arg : sexp -> arg option **)

let d_arg = function
| SAtom _ -> None
| SList l ->
  (match l with
   | [] -> None
   | s0 :: l0 ->
     (match s0 with
      | SAtom s1 ->
        (match s1 with
         | [] -> None
         | a::s2 ->
           (* If this appears, you're using Ascii internals. Please don't *)
 (fun f c ->
  let n = Char.code c in
  let h i = (n land (1 lsl i)) <> 0 in
  f (h 0) (h 1) (h 2) (h 3) (h 4) (h 5) (h 6) (h 7))
             (fun b b0 b1 b2 b3 b4 b5 b6 ->
             if b
             then if b0
                  then if b1
                       then if b2
                            then if b3
                                 then None
                                 else if b4
                                      then if b5
                                           then if b6
                                                then None
                                                else (match s2 with
                                                      | [] ->
                                                        (match l0 with
                                                         | [] -> Some AOther
                                                         | _ :: _ -> None)
                                                      | _::_ -> None)
                                           else None
                                      else None
                            else None
                       else if b2
                            then None
                            else if b3
                                 then if b4
                                      then if b5
                                           then if b6
                                                then None
                                                else (match s2 with
                                                      | [] ->
                                                        (match l0 with
                                                         | [] -> None
                                                         | s3 :: l1 ->
                                                           (match s3 with
                                                            | SAtom v ->
                                                              (match l1 with
                                                               | [] ->
                                                                 Some (AStr v)
                                                               | _ :: _ ->
                                                                 None)
                                                            | SList _ -> None))
                                                      | _::_ -> None)
                                           else None
                                      else None
                                 else None
                  else None
             else None)
             a)
      | SList _ -> None))

(** val d_use : sexp -> use option **)

let d_use = function
| SAtom _ -> None
| SList l ->
  (match l with
   | [] -> None
   | s0 :: l0 ->
     (match s0 with
      | SAtom n0 ->
        (match l0 with
         | [] -> None
         | s1 :: l1 ->
           (match s1 with
            | SAtom _ -> None
            | SList a ->
              (match l1 with
               | [] ->
                 option_map (fun x -> { u_name = n0; u_args = x })
                   (d_list d_arg a)
               | _ :: _ -> None)))
      | SList _ -> None))

(** val find_backend : char list -> backend list -> backend option **)

let rec find_backend k = function
| [] -> None
| b :: r -> if eqb0 k b.b_key then Some b else find_backend k r

(** val s_decl : vdecl -> sexp **)

let s_decl d =
  SList ((SAtom d.vd_type) :: ((SAtom (render_name d.vd_name)) :: []))

(** val s_rep : rep -> sexp **)

let s_rep r =
  match r.r_kind with
  | RVar ->
    SList ((SAtom ('s'::('i'::('n'::('g'::('l'::('e'::[]))))))) :: ((SAtom
      (render_name r.r_name)) :: ((SAtom
      (member_access (render_name r.r_name) r.r_pd O)) :: [])))
  | RColl ->
    SList ((SAtom ('c'::('o'::('l'::('l'::[]))))) :: ((SAtom
      (render_name r.r_name)) :: ((SAtom (deref_expr r)) :: ((SAtom
      r.r_elem) :: ((s_nat r.r_pd_elem) :: ((SAtom
      (member_access ('i'::[]) r.r_pd_elem O)) :: []))))))

(** val s_pkg : (gstate * rep list) -> sexp **)

let s_pkg = function
| (g, reps) ->
  SList ((SList (map s_decl g.g_vars)) :: ((SList
    (map (fun s -> s_strs (emit_stmt s)) g.g_stmts)) :: ((SList
    (map s_decl g.g_class)) :: ((s_strs (emit_stmts g.g_book)) :: ((s_strs
                                                                    g.g_inc) :: (
    (s_strs g.g_libs) :: ((SList (map s_rep reps)) :: [])))))))

(** val run_query_wire : cenv -> sexp -> sexp **)

let run_query_wire e = function
| SAtom _ -> bad_input
| SList l ->
  (match l with
   | [] -> bad_input
   | s :: l0 ->
     (match s with
      | SAtom bk ->
        (match l0 with
         | [] -> bad_input
         | s0 :: l1 ->
           (match s0 with
            | SAtom _ -> bad_input
            | SList mds ->
              (match l1 with
               | [] -> bad_input
               | s1 :: l2 ->
                 (match s1 with
                  | SAtom _ -> bad_input
                  | SList us ->
                    (match l2 with
                     | [] ->
                       (match find_backend bk e.c_backends with
                        | Some b ->
                          (match d_list d_mdict mds with
                           | Some mds' ->
                             (match d_list d_use us with
                              | Some us' ->
                                s_result s_pkg (run_query e b mds' us')
                              | None -> bad_input)
                           | None -> bad_input)
                        | None -> bad_input)
                     | _ :: _ -> bad_input)))))
      | SList _ -> bad_input))

(** val run_subst_wire : sexp -> sexp **)

let run_subst_wire = function
| SAtom _ -> bad_input
| SList l ->
  (match l with
   | [] -> bad_input
   | s0 :: l0 ->
     (match s0 with
      | SAtom w ->
        (match l0 with
         | [] -> bad_input
         | s1 :: l1 ->
           (match s1 with
            | SAtom repl ->
              (match l1 with
               | [] -> bad_input
               | s2 :: l2 ->
                 (match s2 with
                  | SAtom s ->
                    (match l2 with
                     | [] -> SAtom (subst_word w repl s)
                     | _ :: _ -> bad_input)
                  | SList _ -> bad_input))
            | SList _ -> bad_input))
      | SList _ -> bad_input))

(** val s_hole : hole -> char list **)

let s_hole = function
| HCont -> 'c'::('o'::('n'::('t'::[])))
| HType -> 't'::('y'::('p'::('e'::[])))
| HTok -> 't'::('o'::('k'::[]))

(** val s_pattern : pattern -> sexp **)

let s_pattern p =
  SList
    (map (fun x ->
      match x with
      | PLit s -> SList ((SAtom ('l'::('i'::('t'::[])))) :: ((SAtom s) :: []))
      | PHole h ->
        SList ((SAtom ('h'::('o'::('l'::('e'::[]))))) :: ((SAtom
          (s_hole h)) :: []))
      | PArg -> SList ((SAtom ('a'::('r'::('g'::[])))) :: [])) p)

(** val s_spec : cspec -> sexp **)

let s_spec s =
  SList ((SAtom s.cs_backend) :: ((SAtom
    s.cs_name) :: ((s_strs s.cs_includes) :: ((SAtom
    (match s.cs_kind with
     | KSingle -> 's'::('i'::('n'::('g'::('l'::('e'::[])))))
     | KColl -> 'c'::('o'::('l'::('l'::[]))))) :: ((SAtom
    s.cs_type) :: ((s_nat s.cs_pd_type) :: ((SAtom
    s.cs_elem) :: ((s_nat s.cs_pd_elem) :: ((SAtom (cont_str s)) :: ((SAtom
    (match token_type s with
     | Some t -> t
     | None -> [])) :: ((s_strs s.cs_libs) :: [])))))))))))

(** val run_tables_wire : cenv -> sexp **)

let run_tables_wire e =
  SList
    (map (fun b -> SList ((SAtom b.b_key) :: ((SAtom b.b_accepts) :: ((SList
      (map s_spec b.b_table)) :: ((SList
      (map s_pattern b.b_coder.cd_lines)) :: ((SAtom
      (match b.b_coder.cd_alloc with
       | TokNone -> 'n'::('o'::('n'::('e'::[])))
       | TokPerClass ->
         'p'::('e'::('r'::('-'::('c'::('l'::('a'::('s'::('s'::[]))))))))
       | TokPerCall ->
         'p'::('e'::('r'::('-'::('c'::('a'::('l'::('l'::[]))))))))) :: []))))))
      e.c_backends)

(** val atlas_table : cspec list **)

let atlas_table =
  { cs_backend = ('a'::('t'::('l'::('a'::('s'::[]))))); cs_name =
    ('J'::('e'::('t'::('s'::[])))); cs_includes =
    (('x'::('A'::('O'::('D'::('J'::('e'::('t'::('/'::('J'::('e'::('t'::('C'::('o'::('n'::('t'::('a'::('i'::('n'::('e'::('r'::('.'::('h'::[])))))))))))))))))))))) :: []);
    cs_kind = KColl; cs_type =
    ('x'::('A'::('O'::('D'::(':'::(':'::('J'::('e'::('t'::('C'::('o'::('n'::('t'::('a'::('i'::('n'::('e'::('r'::[]))))))))))))))))));
    cs_pd_type = (S O); cs_elem =
    ('x'::('A'::('O'::('D'::(':'::(':'::('J'::('e'::('t'::[])))))))));
    cs_pd_elem = (S O); cs_str = ((PLit
    ('c'::('o'::('n'::('s'::('t'::(' '::[]))))))) :: ((PHole HType) :: ((PLit
    ('*'::[])) :: []))); cs_token = None; cs_libs =
    (('x'::('A'::('O'::('D'::('J'::('e'::('t'::[]))))))) :: []) } :: ({ cs_backend =
    ('a'::('t'::('l'::('a'::('s'::[]))))); cs_name =
    ('T'::('r'::('a'::('c'::('k'::('s'::[])))))); cs_includes =
    (('x'::('A'::('O'::('D'::('T'::('r'::('a'::('c'::('k'::('i'::('n'::('g'::('/'::('T'::('r'::('a'::('c'::('k'::('P'::('a'::('r'::('t'::('i'::('c'::('l'::('e'::('C'::('o'::('n'::('t'::('a'::('i'::('n'::('e'::('r'::('.'::('h'::[]))))))))))))))))))))))))))))))))))))) :: []);
    cs_kind = KColl; cs_type =
    ('x'::('A'::('O'::('D'::(':'::(':'::('T'::('r'::('a'::('c'::('k'::('P'::('a'::('r'::('t'::('i'::('c'::('l'::('e'::('C'::('o'::('n'::('t'::('a'::('i'::('n'::('e'::('r'::[]))))))))))))))))))))))))))));
    cs_pd_type = (S O); cs_elem =
    ('x'::('A'::('O'::('D'::(':'::(':'::('T'::('r'::('a'::('c'::('k'::('P'::('a'::('r'::('t'::('i'::('c'::('l'::('e'::[])))))))))))))))))));
    cs_pd_elem = (S O); cs_str = ((PLit
    ('c'::('o'::('n'::('s'::('t'::(' '::[]))))))) :: ((PHole HType) :: ((PLit
    ('*'::[])) :: []))); cs_token = None; cs_libs =
    (('x'::('A'::('O'::('D'::('T'::('r'::('a'::('c'::('k'::('i'::('n'::('g'::[])))))))))))) :: []) } :: ({ cs_backend =
    ('a'::('t'::('l'::('a'::('s'::[]))))); cs_name =
    ('E'::('v'::('e'::('n'::('t'::('I'::('n'::('f'::('o'::[])))))))));
    cs_includes =
    (('x'::('A'::('O'::('D'::('E'::('v'::('e'::('n'::('t'::('I'::('n'::('f'::('o'::('/'::('E'::('v'::('e'::('n'::('t'::('I'::('n'::('f'::('o'::('.'::('h'::[]))))))))))))))))))))))))) :: []);
    cs_kind = KSingle; cs_type =
    ('x'::('A'::('O'::('D'::(':'::(':'::('E'::('v'::('e'::('n'::('t'::('I'::('n'::('f'::('o'::[])))))))))))))));
    cs_pd_type = (S O); cs_elem = []; cs_pd_elem = O; cs_str = ((PLit
    ('c'::('o'::('n'::('s'::('t'::(' '::[]))))))) :: ((PHole HType) :: ((PLit
    (' '::('*'::[]))) :: []))); cs_token = None; cs_libs =
    (('x'::('A'::('O'::('D'::('E'::('v'::('e'::('n'::('t'::('I'::('n'::('f'::('o'::[]))))))))))))) :: []) } :: ({ cs_backend =
    ('a'::('t'::('l'::('a'::('s'::[]))))); cs_name =
    ('T'::('r'::('u'::('t'::('h'::('P'::('a'::('r'::('t'::('i'::('c'::('l'::('e'::('s'::[]))))))))))))));
    cs_includes =
    (('x'::('A'::('O'::('D'::('T'::('r'::('u'::('t'::('h'::('/'::('T'::('r'::('u'::('t'::('h'::('P'::('a'::('r'::('t'::('i'::('c'::('l'::('e'::('C'::('o'::('n'::('t'::('a'::('i'::('n'::('e'::('r'::('.'::('h'::[])))))))))))))))))))))))))))))))))) :: (('x'::('A'::('O'::('D'::('T'::('r'::('u'::('t'::('h'::('/'::('T'::('r'::('u'::('t'::('h'::('P'::('a'::('r'::('t'::('i'::('c'::('l'::('e'::('.'::('h'::[]))))))))))))))))))))))))) :: (('x'::('A'::('O'::('D'::('T'::('r'::('u'::('t'::('h'::('/'::('T'::('r'::('u'::('t'::('h'::('V'::('e'::('r'::('t'::('e'::('x'::('.'::('h'::[]))))))))))))))))))))))) :: [])));
    cs_kind = KColl; cs_type =
    ('x'::('A'::('O'::('D'::(':'::(':'::('T'::('r'::('u'::('t'::('h'::('P'::('a'::('r'::('t'::('i'::('c'::('l'::('e'::('C'::('o'::('n'::('t'::('a'::('i'::('n'::('e'::('r'::[]))))))))))))))))))))))))))));
    cs_pd_type = (S O); cs_elem =
    ('x'::('A'::('O'::('D'::(':'::(':'::('T'::('r'::('u'::('t'::('h'::('P'::('a'::('r'::('t'::('i'::('c'::('l'::('e'::[])))))))))))))))))));
    cs_pd_elem = (S O); cs_str = ((PLit
    ('c'::('o'::('n'::('s'::('t'::(' '::[]))))))) :: ((PHole HType) :: ((PLit
    ('*'::[])) :: []))); cs_token = None; cs_libs =
    (('x'::('A'::('O'::('D'::('T'::('r'::('u'::('t'::('h'::[]))))))))) :: []) } :: ({ cs_backend =
    ('a'::('t'::('l'::('a'::('s'::[]))))); cs_name =
    ('E'::('l'::('e'::('c'::('t'::('r'::('o'::('n'::('s'::[])))))))));
    cs_includes =
    (('x'::('A'::('O'::('D'::('E'::('g'::('a'::('m'::('m'::('a'::('/'::('E'::('l'::('e'::('c'::('t'::('r'::('o'::('n'::('C'::('o'::('n'::('t'::('a'::('i'::('n'::('e'::('r'::('.'::('h'::[])))))))))))))))))))))))))))))) :: (('x'::('A'::('O'::('D'::('E'::('g'::('a'::('m'::('m'::('a'::('/'::('E'::('l'::('e'::('c'::('t'::('r'::('o'::('n'::('.'::('h'::[]))))))))))))))))))))) :: []));
    cs_kind = KColl; cs_type =
    ('x'::('A'::('O'::('D'::(':'::(':'::('E'::('l'::('e'::('c'::('t'::('r'::('o'::('n'::('C'::('o'::('n'::('t'::('a'::('i'::('n'::('e'::('r'::[])))))))))))))))))))))));
    cs_pd_type = (S O); cs_elem =
    ('x'::('A'::('O'::('D'::(':'::(':'::('E'::('l'::('e'::('c'::('t'::('r'::('o'::('n'::[]))))))))))))));
    cs_pd_elem = (S O); cs_str = ((PLit
    ('c'::('o'::('n'::('s'::('t'::(' '::[]))))))) :: ((PHole HType) :: ((PLit
    ('*'::[])) :: []))); cs_token = None; cs_libs =
    (('x'::('A'::('O'::('D'::('E'::('g'::('a'::('m'::('m'::('a'::[])))))))))) :: []) } :: ({ cs_backend =
    ('a'::('t'::('l'::('a'::('s'::[]))))); cs_name =
    ('M'::('u'::('o'::('n'::('s'::[]))))); cs_includes =
    (('x'::('A'::('O'::('D'::('M'::('u'::('o'::('n'::('/'::('M'::('u'::('o'::('n'::('C'::('o'::('n'::('t'::('a'::('i'::('n'::('e'::('r'::('.'::('h'::[])))))))))))))))))))))))) :: (('x'::('A'::('O'::('D'::('M'::('u'::('o'::('n'::('/'::('M'::('u'::('o'::('n'::('.'::('h'::[]))))))))))))))) :: []));
    cs_kind = KColl; cs_type =
    ('x'::('A'::('O'::('D'::(':'::(':'::('M'::('u'::('o'::('n'::('C'::('o'::('n'::('t'::('a'::('i'::('n'::('e'::('r'::[])))))))))))))))))));
    cs_pd_type = (S O); cs_elem =
    ('x'::('A'::('O'::('D'::(':'::(':'::('M'::('u'::('o'::('n'::[]))))))))));
    cs_pd_elem = (S O); cs_str = ((PLit
    ('c'::('o'::('n'::('s'::('t'::(' '::[]))))))) :: ((PHole HType) :: ((PLit
    ('*'::[])) :: []))); cs_token = None; cs_libs =
    (('x'::('A'::('O'::('D'::('M'::('u'::('o'::('n'::[])))))))) :: []) } :: ({ cs_backend =
    ('a'::('t'::('l'::('a'::('s'::[]))))); cs_name =
    ('M'::('i'::('s'::('s'::('i'::('n'::('g'::('E'::('T'::[])))))))));
    cs_includes =
    (('x'::('A'::('O'::('D'::('M'::('i'::('s'::('s'::('i'::('n'::('g'::('E'::('T'::('/'::('M'::('i'::('s'::('s'::('i'::('n'::('g'::('E'::('T'::('C'::('o'::('n'::('t'::('a'::('i'::('n'::('e'::('r'::('.'::('h'::[])))))))))))))))))))))))))))))))))) :: (('x'::('A'::('O'::('D'::('M'::('i'::('s'::('s'::('i'::('n'::('g'::('E'::('T'::('/'::('M'::('i'::('s'::('s'::('i'::('n'::('g'::('E'::('T'::('.'::('h'::[]))))))))))))))))))))))))) :: []));
    cs_kind = KColl; cs_type =
    ('x'::('A'::('O'::('D'::(':'::(':'::('M'::('i'::('s'::('s'::('i'::('n'::('g'::('E'::('T'::('C'::('o'::('n'::('t'::('a'::('i'::('n'::('e'::('r'::[]))))))))))))))))))))))));
    cs_pd_type = (S O); cs_elem =
    ('x'::('A'::('O'::('D'::(':'::(':'::('M'::('i'::('s'::('s'::('i'::('n'::('g'::('E'::('T'::[])))))))))))))));
    cs_pd_elem = (S O); cs_str = ((PLit
    ('c'::('o'::('n'::('s'::('t'::(' '::[]))))))) :: ((PHole HType) :: ((PLit
    ('*'::[])) :: []))); cs_token = None; cs_libs =
    (('x'::('A'::('O'::('D'::('M'::('i'::('s'::('s'::('i'::('n'::('g'::('E'::('T'::[]))))))))))))) :: []) } :: []))))))

(** val atlas_coder : coder **)

let atlas_coder =
  { cd_lines = (((PHole HCont) :: ((PLit
    (' '::('r'::('e'::('s'::('u'::('l'::('t'::(' '::('='::(' '::('0'::(';'::[]))))))))))))) :: [])) :: (((PLit
    ('A'::('N'::('A'::('_'::('C'::('H'::('E'::('C'::('K'::(' '::('('::('e'::('v'::('t'::('S'::('t'::('o'::('r'::('e'::('('::(')'::('-'::('>'::('r'::('e'::('t'::('r'::('i'::('e'::('v'::('e'::('('::('r'::('e'::('s'::('u'::('l'::('t'::(','::(' '::('c'::('o'::('l'::('l'::('e'::('c'::('t'::('i'::('o'::('n'::('_'::('n'::('a'::('m'::('e'::(')'::(')'::(';'::[]))))))))))))))))))))))))))))))))))))))))))))))))))))))))))) :: []) :: []));
    cd_alloc = TokNone; cd_init = None }

(** val atlas_backend : backend **)

let atlas_backend =
  { b_key = ('a'::('t'::('l'::('a'::('s'::[]))))); b_accepts =
    ('a'::('t'::('l'::('a'::('s'::[]))))); b_table = atlas_table; b_coder =
    atlas_coder }

(** val cms_aod_table : cspec list **)

let cms_aod_table =
  { cs_backend = ('c'::('m'::('s'::('_'::('a'::('o'::('d'::[])))))));
    cs_name = ('T'::('r'::('a'::('c'::('k'::('s'::[])))))); cs_includes =
    (('D'::('a'::('t'::('a'::('F'::('o'::('r'::('m'::('a'::('t'::('s'::('/'::('T'::('r'::('a'::('c'::('k'::('R'::('e'::('c'::('o'::('/'::('i'::('n'::('t'::('e'::('r'::('f'::('a'::('c'::('e'::('/'::('T'::('r'::('a'::('c'::('k'::('.'::('h'::[]))))))))))))))))))))))))))))))))))))))) :: (('D'::('a'::('t'::('a'::('F'::('o'::('r'::('m'::('a'::('t'::('s'::('/'::('T'::('r'::('a'::('c'::('k'::('R'::('e'::('c'::('o'::('/'::('i'::('n'::('t'::('e'::('r'::('f'::('a'::('c'::('e'::('/'::('T'::('r'::('a'::('c'::('k'::('F'::('w'::('d'::('.'::('h'::[])))))))))))))))))))))))))))))))))))))))))) :: (('D'::('a'::('t'::('a'::('F'::('o'::('r'::('m'::('a'::('t'::('s'::('/'::('T'::('r'::('a'::('c'::('k'::('R'::('e'::('c'::('o'::('/'::('i'::('n'::('t'::('e'::('r'::('f'::('a'::('c'::('e'::('/'::('H'::('i'::('t'::('P'::('a'::('t'::('t'::('e'::('r'::('n'::('.'::('h'::[])))))))))))))))))))))))))))))))))))))))))))) :: [])));
    cs_kind = KColl; cs_type =
    ('r'::('e'::('c'::('o'::(':'::(':'::('T'::('r'::('a'::('c'::('k'::('C'::('o'::('l'::('l'::('e'::('c'::('t'::('i'::('o'::('n'::[])))))))))))))))))))));
    cs_pd_type = (S O); cs_elem =
    ('r'::('e'::('c'::('o'::(':'::(':'::('T'::('r'::('a'::('c'::('k'::[])))))))))));
    cs_pd_elem = O; cs_str = ((PLit
    ('e'::('d'::('m'::(':'::(':'::('H'::('a'::('n'::('d'::('l'::('e'::('<'::[]))))))))))))) :: ((PHole
    HType) :: ((PLit ('>'::[])) :: []))); cs_token = None; cs_libs =
    [] } :: ({ cs_backend =
    ('c'::('m'::('s'::('_'::('a'::('o'::('d'::[]))))))); cs_name =
    ('T'::('r'::('a'::('c'::('k'::('M'::('u'::('o'::('n'::('s'::[]))))))))));
    cs_includes =
    (('D'::('a'::('t'::('a'::('F'::('o'::('r'::('m'::('a'::('t'::('s'::('/'::('M'::('u'::('o'::('n'::('R'::('e'::('c'::('o'::('/'::('i'::('n'::('t'::('e'::('r'::('f'::('a'::('c'::('e'::('/'::('M'::('u'::('o'::('n'::('.'::('h'::[]))))))))))))))))))))))))))))))))))))) :: (('D'::('a'::('t'::('a'::('F'::('o'::('r'::('m'::('a'::('t'::('s'::('/'::('M'::('u'::('o'::('n'::('R'::('e'::('c'::('o'::('/'::('i'::('n'::('t'::('e'::('r'::('f'::('a'::('c'::('e'::('/'::('M'::('u'::('o'::('n'::('F'::('w'::('d'::('.'::('h'::[])))))))))))))))))))))))))))))))))))))))) :: (('D'::('a'::('t'::('a'::('F'::('o'::('r'::('m'::('a'::('t'::('s'::('/'::('M'::('u'::('o'::('n'::('R'::('e'::('c'::('o'::('/'::('i'::('n'::('t'::('e'::('r'::('f'::('a'::('c'::('e'::('/'::('M'::('u'::('o'::('n'::('S'::('e'::('l'::('e'::('c'::('t'::('o'::('r'::('s'::('.'::('h'::[])))))))))))))))))))))))))))))))))))))))))))))) :: (('D'::('a'::('t'::('a'::('F'::('o'::('r'::('m'::('a'::('t'::('s'::('/'::('M'::('u'::('o'::('n'::('R'::('e'::('c'::('o'::('/'::('i'::('n'::('t'::('e'::('r'::('f'::('a'::('c'::('e'::('/'::('M'::('u'::('o'::('n'::('I'::('s'::('o'::('l'::('a'::('t'::('i'::('o'::('n'::('.'::('h'::[])))))))))))))))))))))))))))))))))))))))))))))) :: (('D'::('a'::('t'::('a'::('F'::('o'::('r'::('m'::('a'::('t'::('s'::('/'::('M'::('u'::('o'::('n'::('R'::('e'::('c'::('o'::('/'::('i'::('n'::('t'::('e'::('r'::('f'::('a'::('c'::('e'::('/'::('M'::('u'::('o'::('n'::('P'::('F'::('I'::('s'::('o'::('l'::('a'::('t'::('i'::('o'::('n'::('.'::('h'::[])))))))))))))))))))))))))))))))))))))))))))))))) :: (('D'::('a'::('t'::('a'::('F'::('o'::('r'::('m'::('a'::('t'::('s'::('/'::('T'::('r'::('a'::('c'::('k'::('R'::('e'::('c'::('o'::('/'::('i'::('n'::('t'::('e'::('r'::('f'::('a'::('c'::('e'::('/'::('T'::('r'::('a'::('c'::('k'::('.'::('h'::[]))))))))))))))))))))))))))))))))))))))) :: (('D'::('a'::('t'::('a'::('F'::('o'::('r'::('m'::('a'::('t'::('s'::('/'::('T'::('r'::('a'::('c'::('k'::('R'::('e'::('c'::('o'::('/'::('i'::('n'::('t'::('e'::('r'::('f'::('a'::('c'::('e'::('/'::('T'::('r'::('a'::('c'::('k'::('F'::('w'::('d'::('.'::('h'::[])))))))))))))))))))))))))))))))))))))))))) :: (('D'::('a'::('t'::('a'::('F'::('o'::('r'::('m'::('a'::('t'::('s'::('/'::('T'::('r'::('a'::('c'::('k'::('R'::('e'::('c'::('o'::('/'::('i'::('n'::('t'::('e'::('r'::('f'::('a'::('c'::('e'::('/'::('H'::('i'::('t'::('P'::('a'::('t'::('t'::('e'::('r'::('n'::('.'::('h'::[])))))))))))))))))))))))))))))))))))))))))))) :: []))))))));
    cs_kind = KColl; cs_type =
    ('r'::('e'::('c'::('o'::(':'::(':'::('T'::('r'::('a'::('c'::('k'::('C'::('o'::('l'::('l'::('e'::('c'::('t'::('i'::('o'::('n'::[])))))))))))))))))))));
    cs_pd_type = (S O); cs_elem =
    ('r'::('e'::('c'::('o'::(':'::(':'::('T'::('r'::('a'::('c'::('k'::[])))))))))));
    cs_pd_elem = O; cs_str = ((PLit
    ('e'::('d'::('m'::(':'::(':'::('H'::('a'::('n'::('d'::('l'::('e'::('<'::[]))))))))))))) :: ((PHole
    HType) :: ((PLit ('>'::[])) :: []))); cs_token = None; cs_libs =
    [] } :: ({ cs_backend =
    ('c'::('m'::('s'::('_'::('a'::('o'::('d'::[]))))))); cs_name =
    ('M'::('u'::('o'::('n'::('s'::[]))))); cs_includes =
    (('D'::('a'::('t'::('a'::('F'::('o'::('r'::('m'::('a'::('t'::('s'::('/'::('M'::('u'::('o'::('n'::('R'::('e'::('c'::('o'::('/'::('i'::('n'::('t'::('e'::('r'::('f'::('a'::('c'::('e'::('/'::('M'::('u'::('o'::('n'::('.'::('h'::[]))))))))))))))))))))))))))))))))))))) :: (('D'::('a'::('t'::('a'::('F'::('o'::('r'::('m'::('a'::('t'::('s'::('/'::('M'::('u'::('o'::('n'::('R'::('e'::('c'::('o'::('/'::('i'::('n'::('t'::('e'::('r'::('f'::('a'::('c'::('e'::('/'::('M'::('u'::('o'::('n'::('F'::('w'::('d'::('.'::('h'::[])))))))))))))))))))))))))))))))))))))))) :: (('D'::('a'::('t'::('a'::('F'::('o'::('r'::('m'::('a'::('t'::('s'::('/'::('M'::('u'::('o'::('n'::('R'::('e'::('c'::('o'::('/'::('i'::('n'::('t'::('e'::('r'::('f'::('a'::('c'::('e'::('/'::('M'::('u'::('o'::('n'::('S'::('e'::('l'::('e'::('c'::('t'::('o'::('r'::('s'::('.'::('h'::[])))))))))))))))))))))))))))))))))))))))))))))) :: (('D'::('a'::('t'::('a'::('F'::('o'::('r'::('m'::('a'::('t'::('s'::('/'::('M'::('u'::('o'::('n'::('R'::('e'::('c'::('o'::('/'::('i'::('n'::('t'::('e'::('r'::('f'::('a'::('c'::('e'::('/'::('M'::('u'::('o'::('n'::('I'::('s'::('o'::('l'::('a'::('t'::('i'::('o'::('n'::('.'::('h'::[])))))))))))))))))))))))))))))))))))))))))))))) :: (('D'::('a'::('t'::('a'::('F'::('o'::('r'::('m'::('a'::('t'::('s'::('/'::('M'::('u'::('o'::('n'::('R'::('e'::('c'::('o'::('/'::('i'::('n'::('t'::('e'::('r'::('f'::('a'::('c'::('e'::('/'::('M'::('u'::('o'::('n'::('P'::('F'::('I'::('s'::('o'::('l'::('a'::('t'::('i'::('o'::('n'::('.'::('h'::[])))))))))))))))))))))))))))))))))))))))))))))))) :: [])))));
    cs_kind = KColl; cs_type =
    ('r'::('e'::('c'::('o'::(':'::(':'::('M'::('u'::('o'::('n'::('C'::('o'::('l'::('l'::('e'::('c'::('t'::('i'::('o'::('n'::[]))))))))))))))))))));
    cs_pd_type = (S O); cs_elem =
    ('r'::('e'::('c'::('o'::(':'::(':'::('M'::('u'::('o'::('n'::[]))))))))));
    cs_pd_elem = O; cs_str = ((PLit
    ('e'::('d'::('m'::(':'::(':'::('H'::('a'::('n'::('d'::('l'::('e'::('<'::[]))))))))))))) :: ((PHole
    HType) :: ((PLit ('>'::[])) :: []))); cs_token = None; cs_libs =
    [] } :: ({ cs_backend =
    ('c'::('m'::('s'::('_'::('a'::('o'::('d'::[]))))))); cs_name =
    ('V'::('e'::('r'::('t'::('e'::('x'::[])))))); cs_includes =
    (('D'::('a'::('t'::('a'::('F'::('o'::('r'::('m'::('a'::('t'::('s'::('/'::('V'::('e'::('r'::('t'::('e'::('x'::('R'::('e'::('c'::('o'::('/'::('i'::('n'::('t'::('e'::('r'::('f'::('a'::('c'::('e'::('/'::('V'::('e'::('r'::('t'::('e'::('x'::('.'::('h'::[]))))))))))))))))))))))))))))))))))))))))) :: (('D'::('a'::('t'::('a'::('F'::('o'::('r'::('m'::('a'::('t'::('s'::('/'::('V'::('e'::('r'::('t'::('e'::('x'::('R'::('e'::('c'::('o'::('/'::('i'::('n'::('t'::('e'::('r'::('f'::('a'::('c'::('e'::('/'::('V'::('e'::('r'::('t'::('e'::('x'::('F'::('w'::('d'::('.'::('h'::[])))))))))))))))))))))))))))))))))))))))))))) :: []));
    cs_kind = KColl; cs_type =
    ('r'::('e'::('c'::('o'::(':'::(':'::('V'::('e'::('r'::('t'::('e'::('x'::('C'::('o'::('l'::('l'::('e'::('c'::('t'::('i'::('o'::('n'::[]))))))))))))))))))))));
    cs_pd_type = (S O); cs_elem =
    ('r'::('e'::('c'::('o'::(':'::(':'::('V'::('e'::('r'::('t'::('e'::('x'::[]))))))))))));
    cs_pd_elem = O; cs_str = ((PLit
    ('e'::('d'::('m'::(':'::(':'::('H'::('a'::('n'::('d'::('l'::('e'::('<'::[]))))))))))))) :: ((PHole
    HType) :: ((PLit ('>'::[])) :: []))); cs_token = None; cs_libs =
    [] } :: ({ cs_backend =
    ('c'::('m'::('s'::('_'::('a'::('o'::('d'::[]))))))); cs_name =
    ('G'::('s'::('f'::('E'::('l'::('e'::('c'::('t'::('r'::('o'::('n'::('s'::[]))))))))))));
    cs_includes =
    (('D'::('a'::('t'::('a'::('F'::('o'::('r'::('m'::('a'::('t'::('s'::('/'::('E'::('g'::('a'::('m'::('m'::('a'::('C'::('a'::('n'::('d'::('i'::('d'::('a'::('t'::('e'::('s'::('/'::('i'::('n'::('t'::('e'::('r'::('f'::('a'::('c'::('e'::('/'::('G'::('s'::('f'::('E'::('l'::('e'::('c'::('t'::('r'::('o'::('n'::('.'::('h'::[])))))))))))))))))))))))))))))))))))))))))))))))))))) :: (('D'::('a'::('t'::('a'::('F'::('o'::('r'::('m'::('a'::('t'::('s'::('/'::('G'::('s'::('f'::('T'::('r'::('a'::('c'::('k'::('R'::('e'::('c'::('o'::('/'::('i'::('n'::('t'::('e'::('r'::('f'::('a'::('c'::('e'::('/'::('G'::('s'::('f'::('T'::('r'::('a'::('c'::('k'::('.'::('h'::[]))))))))))))))))))))))))))))))))))))))))))))) :: (('D'::('a'::('t'::('a'::('F'::('o'::('r'::('m'::('a'::('t'::('s'::('/'::('G'::('s'::('f'::('T'::('r'::('a'::('c'::('k'::('R'::('e'::('c'::('o'::('/'::('i'::('n'::('t'::('e'::('r'::('f'::('a'::('c'::('e'::('/'::('G'::('s'::('f'::('T'::('r'::('a'::('c'::('k'::('F'::('w'::('d'::('.'::('h'::[])))))))))))))))))))))))))))))))))))))))))))))))) :: [])));
    cs_kind = KColl; cs_type =
    ('r'::('e'::('c'::('o'::(':'::(':'::('G'::('s'::('f'::('E'::('l'::('e'::('c'::('t'::('r'::('o'::('n'::('C'::('o'::('l'::('l'::('e'::('c'::('t'::('i'::('o'::('n'::[])))))))))))))))))))))))))));
    cs_pd_type = (S O); cs_elem =
    ('r'::('e'::('c'::('o'::(':'::(':'::('G'::('s'::('f'::('E'::('l'::('e'::('c'::('t'::('r'::('o'::('n'::[])))))))))))))))));
    cs_pd_elem = O; cs_str = ((PLit
    ('e'::('d'::('m'::(':'::(':'::('H'::('a'::('n'::('d'::('l'::('e'::('<'::[]))))))))))))) :: ((PHole
    HType) :: ((PLit ('>'::[])) :: []))); cs_token = None; cs_libs =
    [] } :: []))))

(** val cms_aod_coder : coder **)

let cms_aod_coder =
  { cd_lines = (((PHole HCont) :: ((PLit
    (' '::('r'::('e'::('s'::('u'::('l'::('t'::(';'::[]))))))))) :: [])) :: (((PLit
    ('i'::('E'::('v'::('e'::('n'::('t'::('.'::('g'::('e'::('t'::('B'::('y'::('L'::('a'::('b'::('e'::('l'::('('::('c'::('o'::('l'::('l'::('e'::('c'::('t'::('i'::('o'::('n'::('_'::('n'::('a'::('m'::('e'::(','::(' '::('r'::('e'::('s'::('u'::('l'::('t'::(')'::(';'::[])))))))))))))))))))))))))))))))))))))))))))) :: []) :: []));
    cd_alloc = TokNone; cd_init = None }

(** val cms_aod_backend : backend **)

let cms_aod_backend =
  { b_key = ('c'::('m'::('s'::('_'::('a'::('o'::('d'::[]))))))); b_accepts =
    ('c'::('m'::('s'::('_'::('a'::('o'::('d'::[]))))))); b_table =
    cms_aod_table; b_coder = cms_aod_coder }

(** val cms_miniaod_table : cspec list **)

let cms_miniaod_table =
  { cs_backend =
    ('c'::('m'::('s'::('_'::('m'::('i'::('n'::('i'::('a'::('o'::('d'::[])))))))))));
    cs_name = ('M'::('u'::('o'::('n'::('s'::[]))))); cs_includes =
    (('D'::('a'::('t'::('a'::('F'::('o'::('r'::('m'::('a'::('t'::('s'::('/'::('P'::('a'::('t'::('C'::('a'::('n'::('d'::('i'::('d'::('a'::('t'::('e'::('s'::('/'::('i'::('n'::('t'::('e'::('r'::('f'::('a'::('c'::('e'::('/'::('M'::('u'::('o'::('n'::('.'::('h'::[])))))))))))))))))))))))))))))))))))))))))) :: []);
    cs_kind = KColl; cs_type =
    ('p'::('a'::('t'::(':'::(':'::('M'::('u'::('o'::('n'::('C'::('o'::('l'::('l'::('e'::('c'::('t'::('i'::('o'::('n'::[])))))))))))))))))));
    cs_pd_type = (S O); cs_elem =
    ('p'::('a'::('t'::(':'::(':'::('M'::('u'::('o'::('n'::[])))))))));
    cs_pd_elem = O; cs_str = ((PLit
    ('H'::('a'::('n'::('d'::('l'::('e'::('<'::[])))))))) :: ((PHole
    HType) :: ((PLit ('>'::[])) :: []))); cs_token = (Some ((PLit
    ('e'::('d'::('m'::(':'::(':'::('E'::('D'::('G'::('e'::('t'::('T'::('o'::('k'::('e'::('n'::('T'::('<'::[])))))))))))))))))) :: ((PHole
    HType) :: ((PLit ('>'::[])) :: [])))); cs_libs = [] } :: ({ cs_backend =
    ('c'::('m'::('s'::('_'::('m'::('i'::('n'::('i'::('a'::('o'::('d'::[])))))))))));
    cs_name = ('V'::('e'::('r'::('t'::('e'::('x'::[])))))); cs_includes =
    (('D'::('a'::('t'::('a'::('F'::('o'::('r'::('m'::('a'::('t'::('s'::('/'::('V'::('e'::('r'::('t'::('e'::('x'::('R'::('e'::('c'::('o'::('/'::('i'::('n'::('t'::('e'::('r'::('f'::('a'::('c'::('e'::('/'::('V'::('e'::('r'::('t'::('e'::('x'::('.'::('h'::[]))))))))))))))))))))))))))))))))))))))))) :: (('D'::('a'::('t'::('a'::('F'::('o'::('r'::('m'::('a'::('t'::('s'::('/'::('V'::('e'::('r'::('t'::('e'::('x'::('R'::('e'::('c'::('o'::('/'::('i'::('n'::('t'::('e'::('r'::('f'::('a'::('c'::('e'::('/'::('V'::('e'::('r'::('t'::('e'::('x'::('F'::('w'::('d'::('.'::('h'::[])))))))))))))))))))))))))))))))))))))))))))) :: []));
    cs_kind = KColl; cs_type =
    ('r'::('e'::('c'::('o'::(':'::(':'::('V'::('e'::('r'::('t'::('e'::('x'::('C'::('o'::('l'::('l'::('e'::('c'::('t'::('i'::('o'::('n'::[]))))))))))))))))))))));
    cs_pd_type = (S O); cs_elem =
    ('r'::('e'::('c'::('o'::(':'::(':'::('V'::('e'::('r'::('t'::('e'::('x'::[]))))))))))));
    cs_pd_elem = O; cs_str = ((PLit
    ('H'::('a'::('n'::('d'::('l'::('e'::('<'::[])))))))) :: ((PHole
    HType) :: ((PLit ('>'::[])) :: []))); cs_token = (Some ((PLit
    ('e'::('d'::('m'::(':'::(':'::('E'::('D'::('G'::('e'::('t'::('T'::('o'::('k'::('e'::('n'::('T'::('<'::[])))))))))))))))))) :: ((PHole
    HType) :: ((PLit ('>'::[])) :: [])))); cs_libs = [] } :: ({ cs_backend =
    ('c'::('m'::('s'::('_'::('m'::('i'::('n'::('i'::('a'::('o'::('d'::[])))))))))));
    cs_name =
    ('E'::('l'::('e'::('c'::('t'::('r'::('o'::('n'::('s'::[])))))))));
    cs_includes =
    (('D'::('a'::('t'::('a'::('F'::('o'::('r'::('m'::('a'::('t'::('s'::('/'::('P'::('a'::('t'::('C'::('a'::('n'::('d'::('i'::('d'::('a'::('t'::('e'::('s'::('/'::('i'::('n'::('t'::('e'::('r'::('f'::('a'::('c'::('e'::('/'::('E'::('l'::('e'::('c'::('t'::('r'::('o'::('n'::('.'::('h'::[])))))))))))))))))))))))))))))))))))))))))))))) :: (('D'::('a'::('t'::('a'::('F'::('o'::('r'::('m'::('a'::('t'::('s'::('/'::('E'::('g'::('a'::('m'::('m'::('a'::('C'::('a'::('n'::('d'::('i'::('d'::('a'::('t'::('e'::('s'::('/'::('i'::('n'::('t'::('e'::('r'::('f'::('a'::('c'::('e'::('/'::('G'::('s'::('f'::('E'::('l'::('e'::('c'::('t'::('r'::('o'::('n'::('.'::('h'::[])))))))))))))))))))))))))))))))))))))))))))))))))))) :: []));
    cs_kind = KColl; cs_type =
    ('p'::('a'::('t'::(':'::(':'::('E'::('l'::('e'::('c'::('t'::('r'::('o'::('n'::('C'::('o'::('l'::('l'::('e'::('c'::('t'::('i'::('o'::('n'::[])))))))))))))))))))))));
    cs_pd_type = (S O); cs_elem =
    ('p'::('a'::('t'::(':'::(':'::('E'::('l'::('e'::('c'::('t'::('r'::('o'::('n'::[])))))))))))));
    cs_pd_elem = O; cs_str = ((PLit
    ('H'::('a'::('n'::('d'::('l'::('e'::('<'::[])))))))) :: ((PHole
    HType) :: ((PLit ('>'::[])) :: []))); cs_token = (Some ((PLit
    ('e'::('d'::('m'::(':'::(':'::('E'::('D'::('G'::('e'::('t'::('T'::('o'::('k'::('e'::('n'::('T'::('<'::[])))))))))))))))))) :: ((PHole
    HType) :: ((PLit ('>'::[])) :: [])))); cs_libs = [] } :: []))

(** val cms_miniaod_coder : coder **)

let cms_miniaod_coder =
  { cd_lines = (((PHole HCont) :: ((PLit
    (' '::('r'::('e'::('s'::('u'::('l'::('t'::(';'::[]))))))))) :: [])) :: (((PLit
    ('i'::('E'::('v'::('e'::('n'::('t'::('.'::('g'::('e'::('t'::('B'::('y'::('T'::('o'::('k'::('e'::('n'::('('::[]))))))))))))))))))) :: ((PHole
    HTok) :: ((PLit
    (','::(' '::('r'::('e'::('s'::('u'::('l'::('t'::(')'::(';'::[]))))))))))) :: []))) :: []));
    cd_alloc = TokPerCall; cd_init = (Some ((PLit
    ('c'::('o'::('n'::('s'::('u'::('m'::('e'::('s'::('<'::[])))))))))) :: ((PHole
    HType) :: ((PLit
    ('>'::('('::('e'::('d'::('m'::(':'::(':'::('I'::('n'::('p'::('u'::('t'::('T'::('a'::('g'::('('::('c'::('o'::('l'::('l'::('e'::('c'::('t'::('i'::('o'::('n'::('_'::('n'::('a'::('m'::('e'::(')'::(')'::[])))))))))))))))))))))))))))))))))) :: [])))) }

(** val cms_miniaod_backend : backend **)

let cms_miniaod_backend =
  { b_key =
    ('c'::('m'::('s'::('_'::('m'::('i'::('n'::('i'::('a'::('o'::('d'::[])))))))))));
    b_accepts =
    ('c'::('m'::('s'::('_'::('m'::('i'::('n'::('i'::('a'::('o'::('d'::[])))))))))));
    b_table = cms_miniaod_table; b_coder = cms_miniaod_coder }

(** val md_kinds : mdkind list **)

let md_kinds =
  { mk_type =
    ('a'::('d'::('d'::('_'::('a'::('t'::('l'::('a'::('s'::('_'::('e'::('v'::('e'::('n'::('t'::('_'::('c'::('o'::('l'::('l'::('e'::('c'::('t'::('i'::('o'::('n'::('_'::('i'::('n'::('f'::('o'::[])))))))))))))))))))))))))))))));
    mk_keys =
    (('m'::('e'::('t'::('a'::('d'::('a'::('t'::('a'::('_'::('t'::('y'::('p'::('e'::[]))))))))))))) :: (('n'::('a'::('m'::('e'::[])))) :: (('i'::('n'::('c'::('l'::('u'::('d'::('e'::('_'::('f'::('i'::('l'::('e'::('s'::[]))))))))))))) :: (('c'::('o'::('n'::('t'::('a'::('i'::('n'::('e'::('r'::('_'::('t'::('y'::('p'::('e'::[])))))))))))))) :: (('e'::('l'::('e'::('m'::('e'::('n'::('t'::('_'::('t'::('y'::('p'::('e'::[])))))))))))) :: (('c'::('o'::('n'::('t'::('a'::('i'::('n'::('s'::('_'::('c'::('o'::('l'::('l'::('e'::('c'::('t'::('i'::('o'::('n'::[]))))))))))))))))))) :: (('l'::('i'::('n'::('k'::('_'::('l'::('i'::('b'::('r'::('a'::('r'::('i'::('e'::('s'::[])))))))))))))) :: [])))))));
    mk_bname = ('a'::('t'::('l'::('a'::('s'::[]))))); mk_coll = { cc_name =
    ('a'::('t'::('l'::('a'::('s'::('_'::('x'::('a'::('o'::('d'::('_'::('e'::('v'::('e'::('n'::('t'::('_'::('c'::('o'::('l'::('l'::('e'::('c'::('t'::('i'::('o'::('n'::('_'::('c'::('o'::('l'::('l'::('e'::('c'::('t'::('i'::('o'::('n'::[]))))))))))))))))))))))))))))))))))))));
    cc_kind = KColl; cc_str = ((PLit
    ('c'::('o'::('n'::('s'::('t'::(' '::[]))))))) :: ((PHole HType) :: ((PLit
    ('*'::[])) :: []))); cc_token = None; cc_pd_type = (S O); cc_pd_elem = (S
    O) }; mk_single = (Some { cc_name =
    ('a'::('t'::('l'::('a'::('s'::('_'::('x'::('a'::('o'::('d'::('_'::('e'::('v'::('e'::('n'::('t'::('_'::('c'::('o'::('l'::('l'::('e'::('c'::('t'::('i'::('o'::('n'::('_'::('c'::('o'::('n'::('t'::('a'::('i'::('n'::('e'::('r'::[])))))))))))))))))))))))))))))))))))));
    cc_kind = KSingle; cc_str = ((PLit
    ('c'::('o'::('n'::('s'::('t'::(' '::[]))))))) :: ((PHole HType) :: ((PLit
    (' '::('*'::[]))) :: []))); cc_token = None; cc_pd_type = (S O);
    cc_pd_elem = O }); mk_libs = true; mk_elem_ptr = false } :: ({ mk_type =
    ('a'::('d'::('d'::('_'::('c'::('m'::('s'::('_'::('a'::('o'::('d'::('_'::('e'::('v'::('e'::('n'::('t'::('_'::('c'::('o'::('l'::('l'::('e'::('c'::('t'::('i'::('o'::('n'::('_'::('i'::('n'::('f'::('o'::[])))))))))))))))))))))))))))))))));
    mk_keys =
    (('m'::('e'::('t'::('a'::('d'::('a'::('t'::('a'::('_'::('t'::('y'::('p'::('e'::[]))))))))))))) :: (('n'::('a'::('m'::('e'::[])))) :: (('i'::('n'::('c'::('l'::('u'::('d'::('e'::('_'::('f'::('i'::('l'::('e'::('s'::[]))))))))))))) :: (('c'::('o'::('n'::('t'::('a'::('i'::('n'::('e'::('r'::('_'::('t'::('y'::('p'::('e'::[])))))))))))))) :: (('e'::('l'::('e'::('m'::('e'::('n'::('t'::('_'::('t'::('y'::('p'::('e'::[])))))))))))) :: (('c'::('o'::('n'::('t'::('a'::('i'::('n'::('s'::('_'::('c'::('o'::('l'::('l'::('e'::('c'::('t'::('i'::('o'::('n'::[]))))))))))))))))))) :: (('e'::('l'::('e'::('m'::('e'::('n'::('t'::('_'::('p'::('o'::('i'::('n'::('t'::('e'::('r'::[]))))))))))))))) :: [])))))));
    mk_bname = ('c'::('m'::('s'::('_'::('a'::('o'::('d'::[]))))))); mk_coll =
    { cc_name =
    ('c'::('m'::('s'::('_'::('a'::('o'::('d'::('_'::('e'::('v'::('e'::('n'::('t'::('_'::('c'::('o'::('l'::('l'::('e'::('c'::('t'::('i'::('o'::('n'::('_'::('c'::('o'::('l'::('l'::('e'::('c'::('t'::('i'::('o'::('n'::[])))))))))))))))))))))))))))))))))));
    cc_kind = KColl; cc_str = ((PLit
    ('e'::('d'::('m'::(':'::(':'::('H'::('a'::('n'::('d'::('l'::('e'::('<'::[]))))))))))))) :: ((PHole
    HType) :: ((PLit ('>'::[])) :: []))); cc_token = None; cc_pd_type = (S
    O); cc_pd_elem = O }; mk_single = None; mk_libs = false; mk_elem_ptr =
    true } :: ({ mk_type =
    ('a'::('d'::('d'::('_'::('c'::('m'::('s'::('_'::('m'::('i'::('n'::('i'::('a'::('o'::('d'::('_'::('e'::('v'::('e'::('n'::('t'::('_'::('c'::('o'::('l'::('l'::('e'::('c'::('t'::('i'::('o'::('n'::('_'::('i'::('n'::('f'::('o'::[])))))))))))))))))))))))))))))))))))));
    mk_keys =
    (('m'::('e'::('t'::('a'::('d'::('a'::('t'::('a'::('_'::('t'::('y'::('p'::('e'::[]))))))))))))) :: (('n'::('a'::('m'::('e'::[])))) :: (('i'::('n'::('c'::('l'::('u'::('d'::('e'::('_'::('f'::('i'::('l'::('e'::('s'::[]))))))))))))) :: (('c'::('o'::('n'::('t'::('a'::('i'::('n'::('e'::('r'::('_'::('t'::('y'::('p'::('e'::[])))))))))))))) :: (('e'::('l'::('e'::('m'::('e'::('n'::('t'::('_'::('t'::('y'::('p'::('e'::[])))))))))))) :: (('c'::('o'::('n'::('t'::('a'::('i'::('n'::('s'::('_'::('c'::('o'::('l'::('l'::('e'::('c'::('t'::('i'::('o'::('n'::[]))))))))))))))))))) :: (('e'::('l'::('e'::('m'::('e'::('n'::('t'::('_'::('p'::('o'::('i'::('n'::('t'::('e'::('r'::[]))))))))))))))) :: [])))))));
    mk_bname =
    ('c'::('m'::('s'::('_'::('m'::('i'::('n'::('i'::('a'::('o'::('d'::[])))))))))));
    mk_coll = { cc_name =
    ('c'::('m'::('s'::('_'::('m'::('i'::('n'::('i'::('a'::('o'::('d'::('_'::('e'::('v'::('e'::('n'::('t'::('_'::('c'::('o'::('l'::('l'::('e'::('c'::('t'::('i'::('o'::('n'::('_'::('c'::('o'::('l'::('l'::('e'::('c'::('t'::('i'::('o'::('n'::[])))))))))))))))))))))))))))))))))))))));
    cc_kind = KColl; cc_str = ((PLit
    ('H'::('a'::('n'::('d'::('l'::('e'::('<'::[])))))))) :: ((PHole
    HType) :: ((PLit ('>'::[])) :: []))); cc_token = (Some ((PLit
    ('e'::('d'::('m'::(':'::(':'::('E'::('D'::('G'::('e'::('t'::('T'::('o'::('k'::('e'::('n'::('T'::('<'::[])))))))))))))))))) :: ((PHole
    HType) :: ((PLit ('>'::[])) :: [])))); cc_pd_type = (S O); cc_pd_elem =
    O }; mk_single = None; mk_libs = false; mk_elem_ptr = true } :: []))

(** val default_types :
    (char list * (((char list * char list) * char list) * nat) list) list **)

let default_types =
  (('a'::('t'::('l'::('a'::('s'::[]))))),
    ((((('x'::('A'::('O'::('D'::(':'::(':'::('T'::('r'::('u'::('t'::('h'::('P'::('a'::('r'::('t'::('i'::('c'::('l'::('e'::[]))))))))))))))))))),
    ('p'::('r'::('o'::('d'::('V'::('t'::('x'::[])))))))),
    ('x'::('A'::('O'::('D'::('T'::('r'::('u'::('t'::('h'::(':'::(':'::('T'::('r'::('u'::('t'::('h'::('V'::('e'::('r'::('t'::('e'::('x'::[]))))))))))))))))))))))),
    (S
    O)) :: ((((('x'::('A'::('O'::('D'::(':'::(':'::('T'::('r'::('u'::('t'::('h'::('P'::('a'::('r'::('t'::('i'::('c'::('l'::('e'::[]))))))))))))))))))),
    ('d'::('e'::('c'::('a'::('y'::('V'::('t'::('x'::[]))))))))),
    ('x'::('A'::('O'::('D'::('T'::('r'::('u'::('t'::('h'::(':'::(':'::('T'::('r'::('u'::('t'::('h'::('V'::('e'::('r'::('t'::('e'::('x'::[]))))))))))))))))))))))),
    (S
    O)) :: ((((('x'::('A'::('O'::('D'::(':'::(':'::('T'::('r'::('u'::('t'::('h'::('P'::('a'::('r'::('t'::('i'::('c'::('l'::('e'::[]))))))))))))))))))),
    ('p'::('a'::('r'::('e'::('n'::('t'::[]))))))),
    ('x'::('A'::('O'::('D'::(':'::(':'::('T'::('r'::('u'::('t'::('h'::('P'::('a'::('r'::('t'::('i'::('c'::('l'::('e'::[])))))))))))))))))))),
    (S
    O)) :: ((((('x'::('A'::('O'::('D'::(':'::(':'::('T'::('r'::('u'::('t'::('h'::('P'::('a'::('r'::('t'::('i'::('c'::('l'::('e'::[]))))))))))))))))))),
    ('c'::('h'::('i'::('l'::('d'::[])))))),
    ('x'::('A'::('O'::('D'::(':'::(':'::('T'::('r'::('u'::('t'::('h'::('P'::('a'::('r'::('t'::('i'::('c'::('l'::('e'::[])))))))))))))))))))),
    (S
    O)) :: []))))) :: ((('c'::('m'::('s'::('_'::('a'::('o'::('d'::[]))))))),
    ((((('r'::('e'::('c'::('o'::(':'::(':'::('T'::('r'::('a'::('c'::('k'::[]))))))))))),
    ('h'::('i'::('t'::('P'::('a'::('t'::('t'::('e'::('r'::('n'::[]))))))))))),
    ('r'::('e'::('c'::('o'::(':'::(':'::('H'::('i'::('t'::('P'::('a'::('t'::('t'::('e'::('r'::('n'::[]))))))))))))))))),
    O) :: ((((('r'::('e'::('c'::('o'::(':'::(':'::('M'::('u'::('o'::('n'::[])))))))))),
    ('g'::('l'::('o'::('b'::('a'::('l'::('T'::('r'::('a'::('c'::('k'::[])))))))))))),
    ('r'::('e'::('c'::('o'::(':'::(':'::('T'::('r'::('a'::('c'::('k'::[])))))))))))),
    (S
    O)) :: ((((('r'::('e'::('c'::('o'::(':'::(':'::('M'::('u'::('o'::('n'::[])))))))))),
    ('h'::('i'::('t'::('P'::('a'::('t'::('t'::('e'::('r'::('n'::[]))))))))))),
    ('r'::('e'::('c'::('o'::(':'::(':'::('H'::('i'::('t'::('P'::('a'::('t'::('t'::('e'::('r'::('n'::[]))))))))))))))))),
    O) :: ((((('r'::('e'::('c'::('o'::(':'::(':'::('M'::('u'::('o'::('n'::[])))))))))),
    ('i'::('s'::('P'::('F'::('I'::('s'::('o'::('l'::('a'::('t'::('i'::('o'::('n'::('V'::('a'::('l'::('i'::('d'::[]))))))))))))))))))),
    ('b'::('o'::('o'::('l'::[]))))),
    O) :: ((((('r'::('e'::('c'::('o'::(':'::(':'::('M'::('u'::('o'::('n'::[])))))))))),
    ('i'::('s'::('P'::('F'::('M'::('u'::('o'::('n'::[]))))))))),
    ('b'::('o'::('o'::('l'::[]))))),
    O) :: ((((('r'::('e'::('c'::('o'::(':'::(':'::('M'::('u'::('o'::('n'::[])))))))))),
    ('p'::('f'::('I'::('s'::('o'::('l'::('a'::('t'::('i'::('o'::('n'::('R'::('0'::('4'::[]))))))))))))))),
    ('r'::('e'::('c'::('o'::(':'::(':'::('M'::('u'::('o'::('n'::('P'::('F'::('I'::('s'::('o'::('l'::('a'::('t'::('i'::('o'::('n'::[])))))))))))))))))))))),
    O) :: ((((('r'::('e'::('c'::('o'::(':'::(':'::('G'::('s'::('f'::('E'::('l'::('e'::('c'::('t'::('r'::('o'::('n'::[]))))))))))))))))),
    ('g'::('s'::('f'::('T'::('r'::('a'::('c'::('k'::[]))))))))),
    ('r'::('e'::('c'::('o'::(':'::(':'::('G'::('s'::('f'::('T'::('r'::('a'::('c'::('k'::[]))))))))))))))),
    (S
    O)) :: ((((('r'::('e'::('c'::('o'::(':'::(':'::('G'::('s'::('f'::('E'::('l'::('e'::('c'::('t'::('r'::('o'::('n'::[]))))))))))))))))),
    ('i'::('s'::('E'::('B'::[]))))), ('b'::('o'::('o'::('l'::[]))))),
    O) :: ((((('r'::('e'::('c'::('o'::(':'::(':'::('G'::('s'::('f'::('E'::('l'::('e'::('c'::('t'::('r'::('o'::('n'::[]))))))))))))))))),
    ('i'::('s'::('E'::('E'::[]))))), ('b'::('o'::('o'::('l'::[]))))),
    O) :: ((((('r'::('e'::('c'::('o'::(':'::(':'::('G'::('s'::('f'::('E'::('l'::('e'::('c'::('t'::('r'::('o'::('n'::[]))))))))))))))))),
    ('p'::('a'::('s'::('s'::('i'::('n'::('g'::('P'::('f'::('l'::('o'::('w'::('P'::('r'::('e'::('s'::('e'::('l'::('e'::('c'::('t'::('i'::('o'::('n'::[]))))))))))))))))))))))))),
    ('b'::('o'::('o'::('l'::[]))))),
    O) :: ((((('r'::('e'::('c'::('o'::(':'::(':'::('G'::('s'::('f'::('E'::('l'::('e'::('c'::('t'::('r'::('o'::('n'::[]))))))))))))))))),
    ('s'::('u'::('p'::('e'::('r'::('C'::('l'::('u'::('s'::('t'::('e'::('r'::[]))))))))))))),
    ('r'::('e'::('c'::('o'::(':'::(':'::('S'::('u'::('p'::('e'::('r'::('C'::('l'::('u'::('s'::('t'::('e'::('r'::('R'::('e'::('f'::[])))))))))))))))))))))),
    (S
    O)) :: ((((('r'::('e'::('c'::('o'::(':'::(':'::('G'::('s'::('f'::('E'::('l'::('e'::('c'::('t'::('r'::('o'::('n'::[]))))))))))))))))),
    ('p'::('f'::('I'::('s'::('o'::('l'::('a'::('t'::('i'::('o'::('n'::('V'::('a'::('r'::('i'::('a'::('b'::('l'::('e'::('s'::[]))))))))))))))))))))),
    ('r'::('e'::('c'::('o'::(':'::(':'::('G'::('s'::('f'::('E'::('l'::('e'::('c'::('t'::('r'::('o'::('n'::(':'::(':'::('P'::('f'::('l'::('o'::('w'::('I'::('s'::('o'::('l'::('a'::('t'::('i'::('o'::('n'::('V'::('a'::('r'::('i'::('a'::('b'::('l'::('e'::('s'::[]))))))))))))))))))))))))))))))))))))))))))),
    O) :: ((((('r'::('e'::('c'::('o'::(':'::(':'::('G'::('s'::('f'::('T'::('r'::('a'::('c'::('k'::[])))))))))))))),
    ('t'::('r'::('a'::('c'::('k'::('e'::('r'::('E'::('x'::('p'::('e'::('c'::('t'::('e'::('d'::('H'::('i'::('t'::('s'::('I'::('n'::('n'::('e'::('r'::[]))))))))))))))))))))))))),
    ('r'::('e'::('c'::('o'::(':'::(':'::('H'::('i'::('t'::('P'::('a'::('t'::('t'::('e'::('r'::('n'::[]))))))))))))))))),
    O) :: [])))))))))))))) :: ((('c'::('m'::('s'::('_'::('m'::('i'::('n'::('i'::('a'::('o'::('d'::[]))))))))))),
    ((((('r'::('e'::('c'::('o'::(':'::(':'::('T'::('r'::('a'::('c'::('k'::('R'::('e'::('f'::[])))))))))))))),
    ('h'::('i'::('t'::('P'::('a'::('t'::('t'::('e'::('r'::('n'::[]))))))))))),
    ('r'::('e'::('c'::('o'::(':'::(':'::('H'::('i'::('t'::('P'::('a'::('t'::('t'::('e'::('r'::('n'::[]))))))))))))))))),
    O) :: ((((('p'::('a'::('t'::(':'::(':'::('M'::('u'::('o'::('n'::[]))))))))),
    ('g'::('l'::('o'::('b'::('a'::('l'::('T'::('r'::('a'::('c'::('k'::[])))))))))))),
    ('r'::('e'::('c'::('o'::(':'::(':'::('T'::('r'::('a'::('c'::('k'::('R'::('e'::('f'::[]))))))))))))))),
    (S
    O)) :: ((((('p'::('a'::('t'::(':'::(':'::('M'::('u'::('o'::('n'::[]))))))))),
    ('i'::('s'::('P'::('F'::('I'::('s'::('o'::('l'::('a'::('t'::('i'::('o'::('n'::('V'::('a'::('l'::('i'::('d'::[]))))))))))))))))))),
    ('b'::('o'::('o'::('l'::[]))))),
    O) :: ((((('p'::('a'::('t'::(':'::(':'::('M'::('u'::('o'::('n'::[]))))))))),
    ('i'::('s'::('P'::('F'::('M'::('u'::('o'::('n'::[]))))))))),
    ('b'::('o'::('o'::('l'::[]))))),
    O) :: ((((('p'::('a'::('t'::(':'::(':'::('M'::('u'::('o'::('n'::[]))))))))),
    ('p'::('f'::('I'::('s'::('o'::('l'::('a'::('t'::('i'::('o'::('n'::('R'::('0'::('4'::[]))))))))))))))),
    ('r'::('e'::('c'::('o'::(':'::(':'::('M'::('u'::('o'::('n'::('P'::('F'::('I'::('s'::('o'::('l'::('a'::('t'::('i'::('o'::('n'::[])))))))))))))))))))))),
    O) :: ((((('p'::('a'::('t'::(':'::(':'::('E'::('l'::('e'::('c'::('t'::('r'::('o'::('n'::[]))))))))))))),
    ('g'::('s'::('f'::('T'::('r'::('a'::('c'::('k'::[]))))))))),
    ('r'::('e'::('c'::('o'::(':'::(':'::('G'::('s'::('f'::('T'::('r'::('a'::('c'::('k'::('R'::('e'::('f'::[])))))))))))))))))),
    (S
    O)) :: ((((('p'::('a'::('t'::(':'::(':'::('E'::('l'::('e'::('c'::('t'::('r'::('o'::('n'::[]))))))))))))),
    ('i'::('s'::('E'::('B'::[]))))), ('b'::('o'::('o'::('l'::[]))))),
    O) :: ((((('p'::('a'::('t'::(':'::(':'::('E'::('l'::('e'::('c'::('t'::('r'::('o'::('n'::[]))))))))))))),
    ('i'::('s'::('E'::('E'::[]))))), ('b'::('o'::('o'::('l'::[]))))),
    O) :: ((((('p'::('a'::('t'::(':'::(':'::('E'::('l'::('e'::('c'::('t'::('r'::('o'::('n'::[]))))))))))))),
    ('p'::('a'::('s'::('s'::('i'::('n'::('g'::('P'::('f'::('l'::('o'::('w'::('P'::('r'::('e'::('s'::('e'::('l'::('e'::('c'::('t'::('i'::('o'::('n'::[]))))))))))))))))))))))))),
    ('b'::('o'::('o'::('l'::[]))))),
    O) :: ((((('p'::('a'::('t'::(':'::(':'::('E'::('l'::('e'::('c'::('t'::('r'::('o'::('n'::[]))))))))))))),
    ('s'::('u'::('p'::('e'::('r'::('C'::('l'::('u'::('s'::('t'::('e'::('r'::[]))))))))))))),
    ('r'::('e'::('c'::('o'::(':'::(':'::('S'::('u'::('p'::('e'::('r'::('C'::('l'::('u'::('s'::('t'::('e'::('r'::('R'::('e'::('f'::[])))))))))))))))))))))),
    (S
    O)) :: ((((('p'::('a'::('t'::(':'::(':'::('E'::('l'::('e'::('c'::('t'::('r'::('o'::('n'::[]))))))))))))),
    ('p'::('f'::('I'::('s'::('o'::('l'::('a'::('t'::('i'::('o'::('n'::('V'::('a'::('r'::('i'::('a'::('b'::('l'::('e'::('s'::[]))))))))))))))))))))),
    ('r'::('e'::('c'::('o'::(':'::(':'::('G'::('s'::('f'::('E'::('l'::('e'::('c'::('t'::('r'::('o'::('n'::(':'::(':'::('P'::('f'::('l'::('o'::('w'::('I'::('s'::('o'::('l'::('a'::('t'::('i'::('o'::('n'::('V'::('a'::('r'::('i'::('a'::('b'::('l'::('e'::('s'::[]))))))))))))))))))))))))))))))))))))))))))),
    O) :: ((((('r'::('e'::('c'::('o'::(':'::(':'::('G'::('s'::('f'::('T'::('r'::('a'::('c'::('k'::[])))))))))))))),
    ('t'::('r'::('a'::('c'::('k'::('e'::('r'::('E'::('x'::('p'::('e'::('c'::('t'::('e'::('d'::('H'::('i'::('t'::('s'::('I'::('n'::('n'::('e'::('r'::[]))))))))))))))))))))))))),
    ('r'::('e'::('c'::('o'::(':'::(':'::('H'::('i'::('t'::('P'::('a'::('t'::('t'::('e'::('r'::('n'::[]))))))))))))))))),
    O) :: []))))))))))))) :: []))

(** val coll_env : cenv **)

let coll_env =
  { c_backends =
    (atlas_backend :: (cms_aod_backend :: (cms_miniaod_backend :: [])));
    c_kinds = md_kinds; c_default_types = default_types }

(** val dispatch : char list -> sexp -> sexp **)

let dispatch cmd arg0 =
  if eqb0 cmd ('c'::('1'::('5'::('.'::('g'::('e'::('n'::[])))))))
  then run_gen arg0
  else if eqb0 cmd
            ('c'::('1'::('2'::('.'::('a'::('u'::('d'::('i'::('t'::[])))))))))
       then audit math_env documented
       else if eqb0 cmd
                 ('c'::('0'::('6'::('.'::('q'::('u'::('e'::('r'::('y'::[])))))))))
            then run_query_wire coll_env arg0
            else if eqb0 cmd
                      ('c'::('0'::('6'::('.'::('s'::('u'::('b'::('s'::('t'::[])))))))))
                 then run_subst_wire arg0
                 else if eqb0 cmd
                           ('c'::('0'::('6'::('.'::('t'::('a'::('b'::('l'::('e'::('s'::[]))))))))))
                      then run_tables_wire coll_env
                      else s_tag
                             ('u'::('n'::('k'::('n'::('o'::('w'::('n'::('-'::('c'::('o'::('m'::('m'::('a'::('n'::('d'::[])))))))))))))))
                             ((SAtom cmd) :: [])
