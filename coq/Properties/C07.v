(* C07 - Translating a query is independent of every query handled before it.
   Only statements, `exact`, and Print Assumptions live here.
   Model: Model/ExecState.v (wrapper of one query around an arbitrary translator T). *)
From FV Require Import Base.Prelude Model.ScriptBlocks Model.ExecState Proofs.ExecStateProofs.

(* Every query handled by the wrapper - whatever the stage at which it raised, on a new or on a
   reused executor of any backend, whatever it declared - leaves: no enum/namespace, every executor
   without job-script blocks, inject blocks, registered extended metadata or additions to its method table, and a method-type
   registry that holds nothing but default tables of backends used in this process.
   For every translator (extract/passes/finder/T are universally quantified) and every history. *)
Theorem C07_every_handle_ends_clean :
  forall (query body pkg : Type) (raw : backend -> list (mkey * string))
         (extract : query -> result (list decl * body)) (passes : body -> result body)
         (finder : backend -> list string -> list spec -> body -> result body)
         (T : backend -> nat -> view -> body -> result pkg * nat) (h : list (op query)),
    let s := run query body pkg raw extract passes finder T fixed h sigma0 in
    g_ns s = [] /\ Forall clean_exec (g_execs s) /\
    exists bs, g_mt s = trail_mt raw bs /\
               forall b, In b bs -> exists o, In o h /\ op_backend query o = b.
Proof. exact ends_clean. Qed.
Print Assumptions C07_every_handle_ends_clean.

(* The property, for a process that serves one backend (any number of executors, new or reused):
   package-or-error and found extended metadata of the probe are, up to the numbering of generated
   names, those of the same probe as first query of a fresh process.  The only assumption on the
   translator is that the name counter only renames (T_renames).
   Partial: histories mixing backends are excluded (see C07_independent_refuted). *)
Theorem C07_independent_partial :
  forall (query body pkg : Type) (raw : backend -> list (mkey * string))
         (extract : query -> result (list decl * body)) (passes : body -> result body)
         (finder : backend -> list string -> list spec -> body -> result body)
         (T : backend -> nat -> view -> body -> result pkg * nat) (norm : pkg -> pkg),
    (forall b n m vw bd, rmap norm (fst (T b n vw bd)) = rmap norm (fst (T b m vw bd))) ->
    forall (b : backend) (h : list (op query)) (w : who) (dk : option (string * string)) (q : query),
      Forall (fun o => op_backend query o = b) h ->
      obs_norm pkg norm (output query body pkg raw extract passes finder T fixed
                           (run query body pkg raw extract passes finder T fixed h sigma0) (Handle w b dk q))
      = obs_norm pkg norm (output query body pkg raw extract passes finder T fixed sigma0 (Handle New b dk q)).
Proof. exact independent_one_backend. Qed.
Print Assumptions C07_independent_partial.

(* re-running a backend's default declarations on a registry that already holds them is a no-op
   (why a second executor of the same backend does not disturb the registry) *)
Theorem C07_defaults_idempotent : forall (d : list (mkey * string)) (t : mtab),
  mt_merge (mt_merge t d) d = mt_merge t d.
Proof. exact mt_merge_idem. Qed.
Print Assumptions C07_defaults_idempotent.

(* The full statement is false of the fixed wrapper: after a query on another backend a reused
   executor has lost its own default types, a new one sees the other backend's as well
   (known finding c07:cross-backend-defaults). *)
Theorem C07_independent_refuted :
  exists h w b dk q, ~ independent_at fixed h w b dk q.
Proof. exists h_cross, (Reuse 0), CmsAod, None, (q_ok []). exact fixed_cross_backend. Qed.
Print Assumptions C07_independent_refuted.

Theorem C07_independent_refuted_new_executor :
  exists h b dk q, ~ independent_at fixed h New b dk q.
Proof. exists h_cross, CmsAod, None, (q_ok []). exact fixed_cross_backend_new. Qed.
Print Assumptions C07_independent_refuted_new_executor.

(* The wrapper as it was before the `fix:` commit violates the property even with one backend,
   in four ways; and each of the four parts of the fix is needed on its own. *)
Theorem C07_unfixed_refuted_failed_translation :
  ~ independent_at unfixed h_failed New Atlas None (q_ok []) /\
  ~ independent_at no_reset_on_failure h_failed New Atlas None (q_ok []).
Proof. exact (conj unfixed_failed needed_reset_on_failure). Qed.
Print Assumptions C07_unfixed_refuted_failed_translation.

Theorem C07_unfixed_refuted_enum_registry :
  ~ independent_at unfixed h_enum New Atlas None (q_ok []) /\
  ~ independent_at no_reset_ns h_enum New Atlas None (q_ok []).
Proof. exact (conj unfixed_enum needed_reset_ns). Qed.
Print Assumptions C07_unfixed_refuted_enum_registry.

Theorem C07_unfixed_refuted_shared_extended_md :
  ~ independent_at unfixed h_docker New Atlas None q_docker /\
  ~ independent_at no_own_ext h_docker New Atlas None q_docker.
Proof. exact (conj unfixed_docker needed_own_ext). Qed.
Print Assumptions C07_unfixed_refuted_shared_extended_md.

Theorem C07_unfixed_refuted_found_extended_md :
  ~ independent_at unfixed h_found (Reuse 0) Atlas (Some ("docker", "image:1")) (q_ok []) /\
  ~ independent_at no_clear_found h_found (Reuse 0) Atlas (Some ("docker", "image:1")) (q_ok []).
Proof. exact (conj unfixed_found needed_clear_found). Qed.
Print Assumptions C07_unfixed_refuted_found_extended_md.

(* The executor's method table is part of the state: were a query's declared collections / functions
   written into the table itself instead of a copy, a reused executor would keep them. *)
Theorem C07_method_table_copy_needed :
  ~ independent_at no_copy_methods h_coll (Reuse 0) Atlas None (q_ok []) /\
  independent_at fixed h_coll (Reuse 0) Atlas None (q_ok []).
Proof. exact (conj needed_copy_methods fixed_ok_coll). Qed.
Print Assumptions C07_method_table_copy_needed.

(* non-vacuity: the assumption on T is satisfiable (the concrete instance used on the wire), and
   the four histories above are harmless for the fixed wrapper *)
Example C07_nonvacuous_T :
  forall b n m vw bd, rmap c_norm (fst (c_T b n vw bd)) = rmap c_norm (fst (c_T b m vw bd)).
Proof. exact c_T_renames. Qed.

Example C07_nonvacuous_fixed :
  independent_at fixed h_failed New Atlas None (q_ok []) /\
  independent_at fixed h_enum New Atlas None (q_ok []) /\
  independent_at fixed h_docker New Atlas None q_docker /\
  independent_at fixed h_found (Reuse 0) Atlas (Some ("docker", "image:1")) (q_ok []).
Proof. exact (conj fixed_ok_failed (conj fixed_ok_enum (conj fixed_ok_docker fixed_ok_found))). Qed.
