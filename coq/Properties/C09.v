(* C09 - unsupported or malformed queries are refused, never half-translated.
   Subject: Model/KindModel.v (kind-level model of the translator's visitor and of the executor's top-level
   shape checks).  Only statements, each closed by an earlier lemma. *)
From FV Require Import Base.Prelude Model.KindModel Proofs.KindModelProofs.

(* an unsupported construct is refused wherever it sits in a position the translator asks a
   representation for, at any depth, under any registry, any lambda frames and any fuel *)
Theorem C09_refuses_at_any_position :
  forall G u, always_err G u -> forall c, ctx_ok c = true -> always_err G (plug c u).
Proof. exact refuses_in_context. Qed.
Print Assumptions C09_refuses_at_any_position.

Theorem C09_no_package :
  forall G top, always_err G top -> forall fuel, err (translate G fuel top).
Proof. exact translate_refuses_top. Qed.
Print Assumptions C09_no_package.

(* the documented unsupported constructs *)
Theorem C09_unknown_binary_operator :
  forall G op a b, known_binop op = false -> String.eqb op "Pow" = false -> always_err G (EBinOp op a b).
Proof. exact unknown_binop_refused. Qed.
Print Assumptions C09_unknown_binary_operator.

Theorem C09_unknown_unary_operator : forall G op a, known_unop op = false -> always_err G (EUnOp op a).
Proof. exact unknown_unop_refused. Qed.
Print Assumptions C09_unknown_unary_operator.

Theorem C09_comparison_chain : forall G ops l cs, List.length ops <> 1 -> always_err G (ECompare ops l cs).
Proof. exact compare_chain_refused. Qed.
Print Assumptions C09_comparison_chain.

Theorem C09_slice : forall G v cls ch, always_err G (ESubscript v (EOther cls ch)).
Proof. exact slice_refused. Qed.
Print Assumptions C09_slice.

Theorem C09_node_without_visitor : forall G cls ch, always_err G (EOther cls ch).
Proof. exact other_node_refused. Qed.
Print Assumptions C09_node_without_visitor.

Theorem C09_aggregate_unimplemented_forms :
  forall G, (forall a b nkw, always_err G (ECall (EName "Aggregate") [a; b] nkw)) /\
            (forall ps bd i l nkw, always_err G (ECall (EName "Aggregate") [ELambda ps bd; i; l] nkw)).
Proof. intro G. split; [apply aggregate_two_args_refused|apply aggregate_lambda_seed_refused]. Qed.
Print Assumptions C09_aggregate_unimplemented_forms.

Theorem C09_unknown_function :
  forall G g args nkw, known_call g = false -> always_err G (ECall (EName g) args nkw).
Proof. exact unknown_function_refused. Qed.
Print Assumptions C09_unknown_function.

Theorem C09_value_as_sequence :
  forall G f fs src ps body nkw g ty pd,
    In g ["Select"; "SelectMany"; "Where"] -> visit G f fs src = OK (KVal ty pd) ->
    err (visit G (S f) fs (ECall (EName g) [src; ELambda ps body] nkw)).
Proof. exact value_as_sequence_refused. Qed.
Print Assumptions C09_value_as_sequence.

Theorem C09_arithmetic_on_sequence :
  forall G f fs op a b v, known_binop op = true ->
    (visit G f fs a = OK (KSeq v) \/ visit G f fs b = OK (KSeq v)) -> err (visit G (S f) fs (EBinOp op a b)).
Proof. intros G f fs op a b v Hk [H|H]; [eapply sequence_arith_refused_l|eapply sequence_arith_refused_r]; eauto. Qed.
Print Assumptions C09_arithmetic_on_sequence.

(* arithmetic on anything that is not a number - every operator, either operand position *)
Theorem C09_arithmetic_on_nonnumber :
  forall G f fs op a b k t, known_binop op = true -> (visit G f fs a = OK k \/ visit G f fs b = OK k) ->
    type_name k = OK t -> is_num_type t = false -> err (visit G (S f) fs (EBinOp op a b)).
Proof. exact arith_nonnumber_refused. Qed.
Print Assumptions C09_arithmetic_on_nonnumber.

Theorem C09_power_of_nonnumber :
  forall G f fs a b k, (visit G f fs a = OK k \/ visit G f fs b = OK k) -> err (pow_operand k) ->
    err (visit G (S f) fs (EBinOp "Pow" a b)).
Proof. exact pow_nonnumber_refused. Qed.
Print Assumptions C09_power_of_nonnumber.
Example C09_power_nonnumbers :
  err (pow_operand (KVal (Some "xAOD::Jet") 1)) /\ err (pow_operand (KSeq (KVal (Some "double") 0))) /\
  err (pow_operand (KColl "xAOD::JetContainer" 1 "xAOD::Jet" 1)) /\ pow_operand (KVal (Some "bool") 0) = OK tt.
Proof. vm_compute. repeat split. Qed.

Theorem C09_sign_of_nonnumber :
  forall G f fs op a k, String.eqb op "Not" = false -> visit G f fs a = OK k -> err (pow_operand k) ->
    err (visit G (S f) fs (EUnOp op a)).
Proof. exact unary_nonnumber_refused. Qed.
Print Assumptions C09_sign_of_nonnumber.

Theorem C09_column_count_mismatch :
  forall v n, List.length (match v with KTuple ks => ks | _ => [v] end) <> n -> err (result_ttree (KSeq v) n).
Proof. exact column_count_mismatch_refused. Qed.
Print Assumptions C09_column_count_mismatch.

(* keyword arguments do not influence translation at all: a malformed call carrying them is not refused
   (known finding c09:kwargs-dropped) *)
Theorem C09_kwargs_ignored_refuted :
  forall G fuel fs f args n m, visit G fuel fs (ECall f args n) = visit G fuel fs (ECall f args m).
Proof. exact kwargs_ignored. Qed.
Print Assumptions C09_kwargs_ignored_refuted.

(* non-vacuity: a concrete accepted query, and the same query with an unsupported operator grafted three
   levels down, under the same registry *)
Definition G0 : registry := {| r_methods := []; r_ns := []; r_enums := [] |}.
Definition jets : expr := ECall (ECppCode true "xAOD::JetContainer" 1 "xAOD::Jet" 1 1 None) [EConst "str"] 0.
Definition good : expr :=
  ECall (EName "Select") [EKind event_kind;
    ELambda ["e"] (ECall (EName "Select") [jets; ELambda ["j"] (EBinOp "Add" (ECall (EAttr (EName "j") "pt") [] 0) (EConst "int"))] 0)] 0.
Definition bad : expr :=
  ECall (EName "Select") [EKind event_kind;
    ELambda ["e"] (ECall (EName "Select") [jets; ELambda ["j"] (EBinOp "Add" (EBinOp "FloorDiv" (ECall (EAttr (EName "j") "pt") [] 0) (EConst "int")) (EConst "int"))] 0)] 0.
Example C09_nonvacuous_accepts : translate G0 100 good = OK KTree.
Proof. vm_compute. reflexivity. Qed.
Example C09_nonvacuous_refuses : translate G0 100 bad = Error ErrRuntime.
Proof. vm_compute. reflexivity. Qed.

(* ---------- the argument-count pre-pass of the executor (fix 109dd7d) ---------- *)
(* func_adl's simplifier rebuilds Select / SelectMany / Where calls from their first two arguments, so an extra argument would
   vanish from the generated code.  The executor checks the argument count first (KindModel.seq_arity_ok mirrors
   executor._check_sequence_call_arguments; the two are compared on every generated query).  For EVERY expression context -
   any depth, any operator, lambda bodies, call arguments, tuple / list / dict items - a sequence call with a wrong number of
   arguments or with keyword arguments makes the pre-pass refuse the whole query. *)
Theorem C09_extra_argument_refused_at_any_position :
  forall (u : expr) (c : ctx), bad_seq_call u -> prepass (plug c u) = Error ErrValue.
Proof. exact prepass_refuses_bad_call_anywhere. Qed.
Print Assumptions C09_extra_argument_refused_at_any_position.
Definition two_lambdas : expr :=
  ECall (EName "Select") [jets; ELambda ["j"] (ECall (EAttr (EName "j") "pt") [] 0); ELambda ["j"] (ECall (EAttr (EName "j") "eta") [] 0)] 0.
Example C09_prepass_nonvacuous :
  prepass good = OK tt /\ bad_seq_call two_lambdas /\
  prepass (ECall (EName "Select") [EKind event_kind; ELambda ["e"] (ETuple [EConst "int"; EBinOp "Add" (ECall (EName "Count") [two_lambdas] 0) (EConst "int")])] 0) = Error ErrValue.
Proof.
  split; [vm_compute; reflexivity|]. split; [|vm_compute; reflexivity].
  unfold bad_seq_call, two_lambdas. eexists "Select", _, 0. split; [reflexivity|]. split; [reflexivity|]. left. cbn. discriminate.
Qed.
