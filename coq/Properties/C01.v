(* C01 - the generated job computes exactly the rows the query denotes.
   Proved part: the counting fragment F0 (Model/FragTranslate.v): for EVERY query of the fragment (any
   number of collections, arithmetic and comparison nesting of any depth, any predicate arithmetic), every
   first name index, every event and every state of the class members, the program the fragment translator
   emits - whose text is compared with the implementation's on every run - writes exactly the one row the
   query denotes under the streaming LINQ reference semantics, or fails exactly when the query is undefined.
   Beyond the fragment the property is decided per generated query by the differential run of Exec against
   the reference semantics (tools/fv/props/c01.py); that part is a search, not a theorem.
   Only statements here, each closed by an earlier lemma. *)
From FV Require Import Base.Prelude Cpp.IR Cpp.Exec Model.FragTranslate Proofs.FragProofs.
From Coq Require QArith.

Theorem C01_fragment_rows :
  forall (bk : FragTranslate.backend) (e : ex) (n0 : nat) (ev : event) (ms : frame) (old : value),
  bases_ok e = true ->
  frame_get (col_name (n0 + size e)) ms = Some (ex_type e, old) ->
  match dex ev e with
  | ROk v => exists ms', run_event (prog bk e n0) ms ev = ROk ([[conv (ex_type e) v]], ms') /\
                         frame_get (col_name (n0 + size e)) ms' = Some (ex_type e, conv (ex_type e) v)
  | RFault f => run_event (prog bk e n0) ms ev = RFault f
  | RStuck _ => True
  end.
Proof. exact frag_correct. Qed.
Print Assumptions C01_fragment_rows.

(* `dex` evaluates in the two phases of the emitted code (all retrievals and loops, then the value expression with its
   bounds-checked at()); it has exactly the values of the ordinary left-to-right evaluation `de` - the two can differ only
   in WHICH fault an expression with several undefined parts raises.  The same for whole rows. *)
Theorem C01_two_phase_reference_is_natural :
  forall (ev : event) (e : ex) (v : value), dex ev e = ROk v <-> de ev e = ROk v.
Proof. exact dex_natural. Qed.
Print Assumptions C01_two_phase_reference_is_natural.

Theorem C01_two_phase_row_is_natural :
  forall (ev : event) (r : row) (vs : list value), drow ev r = ROk vs <-> dnatrow ev r = ROk vs.
Proof. exact drow_natural. Qed.
Print Assumptions C01_two_phase_row_is_natural.

(* the reference semantics is the LINQ one: with total predicates, Count = length of the filtered collection *)
Theorem C01_count_is_filter_length :
  forall (ev : event) (ps : guard) (f : value -> bool) (l : list value) (a : Z),
  passes_total ev ps l f ->
  agg_loop ev "int" ACount ps l (VInt a) = ROk (VInt (a + Z.of_nat (List.length (filter f l))))%Z.
Proof. intros. apply count_is_filter_length. assumption. Qed.
Print Assumptions C01_count_is_filter_length.

(* the statements of the translated expression fail exactly when a Count of the query is undefined, and
   leave everything but their own variables untouched *)
Theorem C01_fragment_statements :
  forall (brs : list branch) (ev : event) (idiom : string) (e : ex) (n : nat) (st : state),
  bases_ok e = true -> declared e n st ->
  match dstm ev e with
  | ROk _ => exists st', exec_stmts brs ev (tss idiom e n) st = ROk st' /\
                         members st' = members st /\ rows st' = rows st /\
                         (forall y, ~ In y (vars e n) -> fget y st' = fget y st) /\
                         bound e n st' /\ (nstuck (de ev e) -> eval ev st' (tc e n) = de ev e)
  | RFault f => exec_stmts brs ev (tss idiom e n) st = RFault f
  | RStuck _ => True
  end.
Proof. exact te_exec. Qed.
Print Assumptions C01_fragment_statements.

(* generated names never collide when the collection names do not end in a digit *)
Theorem C01_names_distinct :
  forall (a b : ex) (n : nat) (x : string),
  bases_ok a = true -> bases_ok b = true -> In x (vars a n) -> In x (vars b (n + size a)) -> False.
Proof. exact vars_disjoint. Qed.
Print Assumptions C01_names_distinct.

(* non-vacuity: jets with pt > 30, counted, plus twice the number of tracks, on an event with three jets
   (pt 10, 31, 45) and two tracks: the row is (2 + 2*2) = 6 *)
Definition jets : collref := {| c_base := "jets"; c_ctype := "const xAOD::JetContainer*"; c_bank := "aj"; c_arrow := true |}.
Definition trks : collref := {| c_base := "tracks"; c_ctype := "const xAOD::TrackParticleContainer*"; c_bank := "t"; c_arrow := true |}.
Definition q0 : ex :=
  EBin OAdd (ECount {| k_coll := jets; k_guard := GOne {| p_neg := false; p_op := ">"; p_l := PMeth "pt"; p_r := PInt 30 |}; k_agg := ACount |})
            (EBin OMul (EInt 2) (ECount {| k_coll := trks; k_guard := GNone; k_agg := ACount |})).
Definition ev0 : event :=
  {| ev_colls := [(("const xAOD::JetContainer*", "aj"), VVec [VObj 0; VObj 1; VObj 2]);
                  (("const xAOD::TrackParticleContainer*", "t"), VVec [VObj 3; VObj 4])];
     ev_meths := [((0, "pt"), VInt 10); ((1, "pt"), VInt 31); ((2, "pt"), VInt 45)] |}.
Definition atlas : FragTranslate.backend :=
  {| b_idiom := "atlas"; b_tree := "atlas_xaod_tree"; b_fill := "tree(""atlas_xaod_tree"")->Fill();" |}.
Example C01_nonvacuous_denotes : de ev0 q0 = ROk (VInt 6).
Proof. vm_compute. reflexivity. Qed.
Example C01_nonvacuous_runs :
  run_event (prog atlas q0 1) [("_col17", ("int", VUninit))] ev0 = ROk ([[VInt 6]], [("_col17", ("int", VInt 6))]).
Proof. vm_compute. reflexivity. Qed.
Example C01_nonvacuous_premises : bases_ok q0 = true /\ col_name (1 + size q0) = "_col17".
Proof. vm_compute. split; reflexivity. Qed.
(* an undefined query: the bank is not in the event - the job fails with the same fault *)
Example C01_nonvacuous_fault :
  de {| ev_colls := []; ev_meths := [] |} q0 = RFault FRetrieve /\
  run_event (prog atlas q0 1) [("_col17", ("int", VUninit))] {| ev_colls := []; ev_meths := [] |} = RFault FRetrieve.
Proof. vm_compute. split; reflexivity. Qed.

(* ---------- rows: several columns, vector columns, Sum ---------- *)
(* For every row of the fragment (any number of columns; each an event-level expression over Count()/Sum() of
   filtered collections, or a vector column coll[.Where(p)].Select(body)), every first index, every event and
   every member state in which the column members are declared and the vector members are empty: the job
   writes exactly ONE row holding, column by column, the value the query denotes (a vector column holds the
   body's values on the passing elements, in order) - or fails exactly when the query is undefined - and leaves
   every vector member empty again (so the next event starts from the same kind of state). *)
Theorem C01_fragment_row :
  forall (bk : backend) (r : row) (n0 : nat) (ev : event) (ms : frame),
  let nf := n0 + row_size r in
  row_bases_ok r = true -> NoDup (rmems r nf 0) -> members_init r nf 0 ms ->
  match drow ev r with
  | ROk vs => exists ms', run_event (prog_row bk r n0) ms ev = ROk ([vs], ms') /\ members_final r nf 0 ms' vs
  | RFault f => run_event (prog_row bk r n0) ms ev = RFault f
  | RStuck _ => True
  end.
Proof. exact frag_row_correct. Qed.
Print Assumptions C01_fragment_row.

Definition r0 : row :=
  [("pts", ColVec jets (GOne {| p_neg := false; p_op := ">"; p_l := PMeth "pt"; p_r := PInt 30 |}) (BPa (PBin "*" (PMeth "pt") (PInt 2))));
   ("n", ColScalar q0);
   ("s", ColScalar (ECount {| k_coll := trks; k_guard := GNone; k_agg := ASum (BPa (PMeth "pt")) |}))].
Definition ev1 : event :=
  {| ev_colls := ev_colls ev0;
     ev_meths := ev_meths ev0 ++ [((3, "pt"), VDbl (QArith_base.inject_Z 5)); ((4, "pt"), VDbl (QArith_base.inject_Z 7))] |}.
Definition ms0 : frame :=
  [("_pts12", ("std::vector<double>", VVec [])); ("_n13", ("int", VUninit)); ("_s14", ("double", VUninit))].
Example C01_row_nonvacuous_denotes :
  drow ev1 r0 = ROk [VVec [VDbl (QArith_base.inject_Z 62); VDbl (QArith_base.inject_Z 90)]; VInt 6; VDbl (QArith_base.inject_Z 12)].
Proof. vm_compute. reflexivity. Qed.
Example C01_row_nonvacuous_runs :
  run_event (prog_row atlas r0 1) ms0 ev1 =
  ROk ([[VVec [VDbl (QArith_base.inject_Z 62); VDbl (QArith_base.inject_Z 90)]; VInt 6; VDbl (QArith_base.inject_Z 12)]],
       [("_pts12", ("std::vector<double>", VVec [])); ("_n13", ("int", VInt 6)); ("_s14", ("double", VDbl (QArith_base.inject_Z 12)))]).
Proof. vm_compute. reflexivity. Qed.
Example C01_row_nonvacuous_premises :
  row_bases_ok r0 = true /\ rmems r0 (1 + row_size r0) 0 = ["_pts12"; "_n13"; "_s14"].
Proof. vm_compute. split; reflexivity. Qed.

(* ---------- whole queries (fragment F1): event filter, Select / SelectMany, whole jobs ---------- *)
(* For every query of F1 - ds[.Where(lambda e: cond)].Select(lambda e: ROW) or
   ds[.Where(lambda e: cond)].SelectMany(lambda e: e.C("bank")[.Where(p)].Select(lambda x: PROW)) - every first
   index, every event and every member state in which the column members are declared (vector members empty):
   the job writes exactly the rows the query denotes - none when the filter rejects the event, one for a Select,
   one per passing element in collection order for a SelectMany - or fails exactly when the query is undefined,
   and leaves the members in a state of the same kind. *)
From FV Require Import Model.FragQuery Proofs.FragQueryProofs.

Theorem C01_query_event :
  forall (bk : backend) (q : query) (n0 : nat) (ev : event) (ms : frame),
  query_ok q = true -> NoDup (bmems (q_body q) (body_start q n0)) -> binit (q_body q) (body_start q n0) ms ->
  match dquery ev q with
  | ROk rws => exists ms', run_event (prog_q bk q n0) ms ev = ROk (rws, ms') /\ binit (q_body q) (body_start q n0) ms'
  | RFault f => run_event (prog_q bk q n0) ms ev = RFault f
  | RStuck _ => True
  end.
Proof. exact frag_query_event. Qed.
Print Assumptions C01_query_event.

(* whole jobs: ANY list of events through one analysis object (members persist between events): the rows of
   the job are the rows of the events, in order; the job aborts at exactly the first event on which the query
   is undefined, with that fault, keeping the rows of the events before it *)
Theorem C01_query_job :
  forall (bk : backend) (q : query) (n0 : nat) (evs : list event),
  query_ok q = true -> NoDup (bmems (q_body q) (body_start q n0)) ->
  (forall ev, In ev evs -> nstuck (dquery ev q)) ->
  run_job (prog_q bk q n0) evs = djob q evs.
Proof. exact frag_job_correct. Qed.
Print Assumptions C01_query_job.

(* the reference semantics of SelectMany is the LINQ one *)
Theorem C01_selectmany_is_map_filter :
  forall (ev : event) (cols : prow) (ps : guard) (f : value -> bool) (g : value -> list value) (l : list value),
  passes_total ev ps l f -> (forall v, In v l -> f v = true -> dprow ev v cols = ROk (g v)) ->
  many_loop ev cols ps l = ROk (map g (filter f l)).
Proof. exact many_is_map_filter. Qed.
Print Assumptions C01_selectmany_is_map_filter.

(* non-vacuity: events with more than one jet give one row (2*pt, 1) per jet with pt > 30 *)
Definition q1 : query :=
  {| q_filter := Some (EBin OGt (ECount {| k_coll := jets; k_guard := GNone; k_agg := ACount |}) (EInt 1));
     q_body := QMany jets (GOne {| p_neg := false; p_op := ">"; p_l := PMeth "pt"; p_r := PInt 30 |})
                     [("a", BPa (PBin "*" (PMeth "pt") (PInt 2))); ("b", BPa (PInt 1))] |}.
Definition ev2 : event :=
  {| ev_colls := [(("const xAOD::JetContainer*", "aj"), VVec [VObj 7])]; ev_meths := [((7, "pt"), VInt 99)] |}.
Example C01_query_nonvacuous_premises :
  query_ok q1 = true /\ bmems (q_body q1) (body_start q1 1) = ["_a6"; "_b7"].
Proof. vm_compute. split; reflexivity. Qed.
Example C01_query_nonvacuous_denotes :
  dquery ev0 q1 = ROk [[VDbl (QArith_base.inject_Z 62); VInt 1]; [VDbl (QArith_base.inject_Z 90); VInt 1]] /\ dquery ev2 q1 = ROk [].
Proof. vm_compute. split; reflexivity. Qed.
Example C01_query_nonvacuous_job :
  run_job (prog_q atlas q1 1) [ev0; ev2; ev0] =
  JDone [[[VDbl (QArith_base.inject_Z 62); VInt 1]; [VDbl (QArith_base.inject_Z 90); VInt 1]]; [];
         [[VDbl (QArith_base.inject_Z 62); VInt 1]; [VDbl (QArith_base.inject_Z 90); VInt 1]]].
Proof. vm_compute. reflexivity. Qed.
Example C01_query_nonvacuous_abort :
  run_job (prog_q atlas q1 1) [ev0; {| ev_colls := []; ev_meths := [] |}; ev0] =
  JAbort [[[VDbl (QArith_base.inject_Z 62); VInt 1]; [VDbl (QArith_base.inject_Z 90); VInt 1]]] 1 FRetrieve.
Proof. vm_compute. reflexivity. Qed.

(* ---------- First ---------- *)
(* A First column - coll[.Where(p)].Select(body).First() or ....First().m() - is part of the rows of F (theorems
   above).  Its reference semantics is the LINQ one: with total predicates the value is the body on the first
   element of the filtered collection, and the query is undefined (the job throws, by C01_fragment_row /
   C01_query_job) exactly when the filtered collection is empty. *)
Theorem C01_first_is_linq :
  forall (ev : event) (cr : collref) (ps : guard) (body : pa) (line : string) (f : value -> bool) (g : value -> value) (l : list value),
  assoc_ss (c_ctype cr, c_bank cr) (ev_colls ev) = Some (VVec l) ->
  passes_total ev ps l f -> (forall v, In v l -> f v = true -> dpa ev v body = ROk (g v)) ->
  dcol ev (ColFirst cr ps body line) =
  match filter f l with [] => RFault FThrow | v :: _ => ROk (conv (pa_type body) (g v)) end.
Proof. exact first_col_linq. Qed.
Print Assumptions C01_first_is_linq.

(* ... also when the body has conditional expressions (ColFirstB: their variables are declared and assigned for every passing
   element, before the `if (is_first)`; the value is captured on the first) *)
Theorem C01_first_with_conditionals_is_linq :
  forall (ev : event) (cr : collref) (ps : guard) (body : bexp) (line : string) (f : value -> bool) (g : value -> value) (l : list value),
  assoc_ss (c_ctype cr, c_bank cr) (ev_colls ev) = Some (VVec l) ->
  passes_total ev ps l f -> (forall v, In v l -> f v = true -> db ev v body = ROk (g v)) ->
  dcol ev (ColFirstB cr ps body line) =
  match filter f l with [] => RFault FThrow | v :: _ => ROk (conv (btype body) (g v)) end.
Proof. exact firstb_col_linq. Qed.
Print Assumptions C01_first_with_conditionals_is_linq.

Definition r2 : row :=
  [("lead", ColFirst jets (GOne {| p_neg := false; p_op := ">"; p_l := PMeth "pt"; p_r := PInt 30 |}) (PDiv (PMeth "pt") (PInt 2)) "throw std::runtime_error(""First() called on an empty sequence"");");
   ("n", ColScalar (ECount {| k_coll := jets; k_guard := GNone; k_agg := ACount |}))].
Definition ev3 : event :=
  {| ev_colls := [(("const xAOD::JetContainer*", "aj"), VVec [VObj 0; VObj 1; VObj 2])];
     ev_meths := [((0, "pt"), VDbl (QArith_base.inject_Z 10)); ((1, "pt"), VDbl (QArith_base.inject_Z 31)); ((2, "pt"), VDbl (QArith_base.inject_Z 45))] |}.
Definition ev4 : event :=
  {| ev_colls := [(("const xAOD::JetContainer*", "aj"), VVec [VObj 5])]; ev_meths := [((5, "pt"), VDbl (QArith_base.inject_Z 5))] |}.
Example C01_first_nonvacuous :
  row_bases_ok r2 = true /\
  drow ev3 r2 = ROk [VDbl (QArith_base.Qmake 31 2); VInt 3] /\
  run_job (prog_q atlas {| q_filter := None; q_body := QRow r2 |} 1) [ev3; ev4; ev3] =
  JAbort [[[VDbl (QArith_base.Qmake 31 2); VInt 3]]] 1 FThrow.
Proof. vm_compute. repeat split; reflexivity. Qed.

(* ---------- 2-D columns (a vector per element of another collection) ---------- *)
(* e.C1(b1)[.Where(p1)].Select(lambda o: e.C2(b2)[.Where(p2)].Select(lambda x: body)) is a column of the fragment
   (ColVec2: C01_fragment_row and C01_query_job cover it - the second collection is retrieved, looped over and collected
   in a local vector INSIDE the block of the outer loop, the local vector is pushed onto the column once per passing outer
   element).  Its reference semantics is the nested LINQ expression, and the second bank is looked at only when an outer
   element passes. *)
Theorem C01_2d_column_is_nested_linq :
  forall (ev : event) (c1 : collref) (g1 : guard) (c2 : collref) (g2 : guard) (body : bexp)
         (f1 f2 : value -> bool) (g : value -> value) (l1 l2 : list value),
  assoc_ss (c_ctype c1, c_bank c1) (ev_colls ev) = Some (VVec l1) ->
  assoc_ss (c_ctype c2, c_bank c2) (ev_colls ev) = Some (VVec l2) ->
  passes_total ev g1 l1 f1 -> passes_total ev g2 l2 f2 ->
  (forall v, In v l2 -> f2 v = true -> db ev v body = ROk (g v)) ->
  dcol ev (ColVec2 c1 g1 c2 g2 body) =
  ROk (VVec (map (fun _ => VVec (map (fun v => conv (btype body) (g v)) (filter f2 l2))) (filter f1 l1))).
Proof. exact vec2_col_linq. Qed.
Print Assumptions C01_2d_column_is_nested_linq.
Theorem C01_2d_column_inner_bank_is_lazy :
  forall (ev : event) (c1 : collref) (g1 : guard) (c2 : collref) (g2 : guard) (body : bexp) (l1 : list value),
  assoc_ss (c_ctype c1, c_bank c1) (ev_colls ev) = Some (VVec l1) ->
  passes_total ev g1 l1 (fun _ => false) ->
  dcol ev (ColVec2 c1 g1 c2 g2 body) = ROk (VVec []).
Proof. exact vec2_col_lazy_inner. Qed.
Print Assumptions C01_2d_column_inner_bank_is_lazy.

(* the flattened form: e.C1(b1)[.Where(p1)].SelectMany(lambda o: e.C2(b2)[.Where(p2)]).Select(lambda x: body) - ONE vector; the
   inner loop pushes onto the column itself (ColFlat, covered by C01_fragment_row and C01_query_job as well) *)
Theorem C01_flattened_column_is_selectmany :
  forall (ev : event) (c1 : collref) (g1 : guard) (c2 : collref) (g2 : guard) (body : bexp)
         (f1 f2 : value -> bool) (g : value -> value) (l1 l2 : list value),
  assoc_ss (c_ctype c1, c_bank c1) (ev_colls ev) = Some (VVec l1) ->
  assoc_ss (c_ctype c2, c_bank c2) (ev_colls ev) = Some (VVec l2) ->
  passes_total ev g1 l1 f1 -> passes_total ev g2 l2 f2 ->
  (forall v, In v l2 -> f2 v = true -> db ev v body = ROk (g v)) ->
  dcol ev (ColFlat c1 g1 c2 g2 body) =
  ROk (VVec (flat_map (fun _ => map (fun v => conv (btype body) (g v)) (filter f2 l2)) (filter f1 l1))).
Proof. exact flat_col_linq. Qed.
Print Assumptions C01_flattened_column_is_selectmany.

(* a LINQ law between the two nested column kinds, on the reference semantics both are proved against: whenever the 2-D column has
   a value, the SelectMany column over the same collections, filters and body is its concatenation *)
Theorem C01_selectmany_column_is_concat_of_2d_column :
  forall (ev : event) (c1 : collref) (g1 : guard) (c2 : collref) (g2 : guard) (body : bexp) (vs : list value),
  dcol ev (ColVec2 c1 g1 c2 g2 body) = ROk (VVec vs) ->
  dcol ev (ColFlat c1 g1 c2 g2 body) = ROk (VVec (List.concat (map unvec vs))).
Proof. exact flat_col_is_concat_of_vec2_col. Qed.
Print Assumptions C01_selectmany_column_is_concat_of_2d_column.

Definition r2d : row :=
  [("trk_pt", ColVec2 jets (GOne {| p_neg := false; p_op := ">"; p_l := PMeth "pt"; p_r := PInt 30 |}) trks GNone (BPa (PMeth "pt")));
   ("flat", ColFlat jets (GOne {| p_neg := false; p_op := ">"; p_l := PMeth "pt"; p_r := PInt 30 |}) trks GNone (BPa (PMeth "pt")));
   ("n", ColScalar (ECount {| k_coll := jets; k_guard := GNone; k_agg := ACount |}))].
Definition ev2d : event :=
  {| ev_colls := [(("const xAOD::JetContainer*", "aj"), VVec [VObj 0; VObj 1; VObj 2]);
                  (("const xAOD::TrackParticleContainer*", "t"), VVec [VObj 7; VObj 8])];
     ev_meths := [((0, "pt"), VDbl (QArith_base.inject_Z 10)); ((1, "pt"), VDbl (QArith_base.inject_Z 31)); ((2, "pt"), VDbl (QArith_base.inject_Z 45));
                  ((7, "pt"), VDbl (QArith_base.inject_Z 1)); ((8, "pt"), VDbl (QArith_base.inject_Z 2))] |}.
(* no track bank at all, one jet below the cut: the column is empty, the job does not fail *)
Definition ev2d_lazy : event :=
  {| ev_colls := [(("const xAOD::JetContainer*", "aj"), VVec [VObj 0])]; ev_meths := [((0, "pt"), VDbl (QArith_base.inject_Z 10))] |}.
Example C01_2d_nonvacuous :
  row_bases_ok r2d = true /\
  drow ev2d r2d = ROk [VVec [VVec [VDbl (QArith_base.inject_Z 1); VDbl (QArith_base.inject_Z 2)]; VVec [VDbl (QArith_base.inject_Z 1); VDbl (QArith_base.inject_Z 2)]];
                       VVec [VDbl (QArith_base.inject_Z 1); VDbl (QArith_base.inject_Z 2); VDbl (QArith_base.inject_Z 1); VDbl (QArith_base.inject_Z 2)]; VInt 3] /\
  run_job (prog_q atlas {| q_filter := None; q_body := QRow r2d |} 1) [ev2d; ev2d_lazy] =
  JDone [[[VVec [VVec [VDbl (QArith_base.inject_Z 1); VDbl (QArith_base.inject_Z 2)]; VVec [VDbl (QArith_base.inject_Z 1); VDbl (QArith_base.inject_Z 2)]];
            VVec [VDbl (QArith_base.inject_Z 1); VDbl (QArith_base.inject_Z 2); VDbl (QArith_base.inject_Z 1); VDbl (QArith_base.inject_Z 2)]; VInt 3]];
         [[VVec []; VVec []; VInt 1]]].
Proof. vm_compute. repeat split; reflexivity. Qed.

(* ---------- CMS miniAOD ---------- *)
(* The miniAOD job of a query is the CMS job read through tokens: one token per collection use, named before
   everything else, declared as a class member and initialised in the booking code (Model/FragQuery.v prog_q_mini;
   its whole text - per-event code, class declaration, token initialisations, branches - is compared with the
   implementation's on every run).  It writes exactly the same rows. *)
Theorem C01_query_job_miniaod :
  forall (bk : backend) (q : query) (n0 : nat) (evs : list event),
  let n1 := n0 + List.length (fetches_block (p_body (prog_q bk q n0))) in
  query_ok q = true -> NoDup (bmems (q_body q) (body_start q n1)) ->
  (forall ev, In ev evs -> nstuck (dquery ev q)) ->
  run_job (prog_q_mini bk q n0) evs = djob q evs.
Proof. exact frag_job_correct_mini. Qed.
Print Assumptions C01_query_job_miniaod.

(* ---------- conditional expressions in element bodies ---------- *)
(* `a if c else b` in the body of a vector column, of a Sum and of a SelectMany row is part of the fragment (the
   theorems above quantify over these bodies).  The emitted code evaluates the conditionals of a body first, then the
   expression reading them; the reference does the same, and it has a value exactly when the ordinary recursive
   evaluation has that value (they can differ only in which fault an undefined body raises). *)
Theorem C01_body_reference_is_natural :
  forall (ev : event) (v : value) (e : bexp) (x : value), db ev v e = ROk x <-> dnat ev v e = ROk x.
Proof. exact db_is_natural. Qed.
Print Assumptions C01_body_reference_is_natural.
