(* C12 - every documented math function is accepted and computes its namesake.
   The table, the README list and the name-resolution environment are regenerated from /repo
   (gen/MathTable.v) on every run; the theorem is re-checked against them. *)
From FV Require Import Base.Prelude Model.MathFuncs Proofs.MathFuncsProofs gen.MathTable.

(* names the README documents although no query can call them: <cmath> remquo needs an int* out
   parameter.  Recorded in known_findings.json; proved unusable below rather than assumed. *)
Definition known_unusable : list string := ["remquo"].
Definition documented_usable : list string :=
  filter (fun n => negb (mem_str n known_unusable)) documented.

(* Every documented name resolves (through Python name resolution as find_known_functions performs it)
   to a table row whose C++ function is its cmath namesake, which requests <cmath>, is typed double
   (so it composes with arithmetic, see C13) and can be called with query expressions. *)
Theorem C12_all_documented : Forall (doc_spec math_env) documented_usable.
Proof. apply all_doc_ok. vm_compute. reflexivity. Qed.
Print Assumptions C12_all_documented.

(* the documented list is the one the README carries and is not trivially small *)
Theorem C12_documented_nonempty : (50 <=? List.length documented_usable)%nat = true.
Proof. vm_compute. reflexivity. Qed.
Print Assumptions C12_documented_nonempty.

(* remquo is documented but cannot be used from a query: out-pointer parameter *)
Theorem C12_remquo_refuted : In "remquo" documented /\ callable_from_query "remquo" = false.
Proof. split; [vm_compute; tauto|reflexivity]. Qed.
Print Assumptions C12_remquo_refuted.

(* dict semantics of the table, for every table *)
Theorem C12_last_mapping_wins : forall k rows r,
  lookup_row k rows = Some r ->
  exists pre post, rows = pre ++ r :: post /\ m_py r = k /\ forall r', In r' post -> m_py r' <> k.
Proof. exact lookup_row_last. Qed.
Print Assumptions C12_last_mapping_wins.
