(* C08 - Translation is invariant under wire format, bound names and metadata position.
   What is proved here is the binding machinery of the repository itself (frame stack, lazy
   name resolution, name-keyed call rewriters); qastle round trips, metadata extraction and
   chain fusion are third-party code and are covered by differential runs only (tools/fv/props/c08.py).
   Only statements, `exact`, and Print Assumptions live here. *)
From FV Require Import Base.Prelude Model.Binding Proofs.BindingProofs.

(* Lexically alpha-equivalent queries (binders renamed arbitrarily, inner parameters may start or
   stop shadowing outer ones, repeated parameter names included; `aeq` relates a call `f(...)` only when
   f is free on both sides, because the translator dispatches on that name) resolve to the same nameless term,
   for every query in which no lambda is applied directly to an unevaluated argument - i.e. every
   lambda is applied by Select/SelectMany/Where/Aggregate to translator values.  The statement holds
   for every fuel, so fuel exhaustion is the same on both sides. *)
Theorem C08_alpha_partial : forall (fuel : nat) (q1 q2 : expr),
  aeq [] [] q1 q2 -> no_app q1 = true -> resolve_top fuel q1 = resolve_top fuel q2.
Proof. exact alpha_static_top. Qed.
Print Assumptions C08_alpha_partial.

(* the same under enclosing lambdas: the frame stack the visitor is in after entering them *)
Theorem C08_alpha_open : forall (fuel : nat) (c1 c2 : bctx) (e1 e2 : expr),
  same_shape c1 c2 -> aeq c1 c2 e1 e2 -> no_app e1 = true ->
  resolve fuel (vframes c1) (depth_of c1) e1 = resolve fuel (vframes c2) (depth_of c2) e2.
Proof. exact alpha_static. Qed.
Print Assumptions C08_alpha_open.

(* Full strength is false of the faithful model: visit_Call_Lambda binds parameters to unevaluated
   argument ASTs which visit_Name resolves in the stack current at lookup time (dynamic scoping), so
   renaming an inner parameter to the name of an outer one captures the argument's variables. *)
Theorem C08_alpha_refuted :
  exists q1 q2 c1 c2,
    aeq [] [] q1 q2 /\ resolve_top 20 q1 = Some c1 /\ resolve_top 20 q2 = Some c2 /\ c1 <> c2.
Proof. exact alpha_dynamic_refuted. Qed.
Print Assumptions C08_alpha_refuted.

(* What does hold for the whole model, direct applications and dynamic scoping included: a consistent
   injective renaming of identifiers that leaves alone the names the result still mentions. *)
Theorem C08_rename : forall (s : string -> string) (fuel : nat) (q : expr) (c : cexpr),
  injective s -> resolve_top fuel q = Some c -> (forall x, In x (cfree c) -> s x = x) ->
  resolve_top fuel (map_names s q) = Some c.
Proof. exact rename_invariant. Qed.
Print Assumptions C08_rename.

Theorem C08_rename_general : forall (s : string -> string), injective s ->
  forall (fuel : nat) (fr : frames) (d : nat) (e : expr),
  resolve fuel (map_frames s fr) d (map_names s e) = option_map (cmap s) (resolve fuel fr d e).
Proof. exact resolve_map. Qed.
Print Assumptions C08_rename_general.

(* cpp_ast_finder / find_known_functions look at function and attribute names only: they commute with
   every renaming of identifiers that keeps membership in the table of rewritten function names ... *)
Theorem C08_rewrite_name_keyed : forall (s : string -> string) (K MO MC : list string),
  (forall x, mem_str (s x) K = mem_str x K) -> (forall x, mem_str x K = true -> s x = x) ->
  forall e, rewrite K MO MC (map_names s e) = map_names s (rewrite K MO MC e).
Proof. exact rewrite_commutes. Qed.
Print Assumptions C08_rewrite_name_keyed.

(* ... they keep the application-free fragment, ... *)
Theorem C08_rewrite_no_app : forall (K MO MC : list string) (e : expr),
  no_app e = true -> no_app (rewrite K MO MC e) = true.
Proof. exact rewrite_no_app. Qed.
Print Assumptions C08_rewrite_no_app.

(* ... so rewriting followed by resolution is invariant under such renamings, ... *)
Theorem C08_pipeline_rename : forall (s : string -> string) (K MO MC : list string) (fuel : nat) (q : expr) (c : cexpr),
  injective s -> (forall x, mem_str (s x) K = mem_str x K) -> (forall x, mem_str x K = true -> s x = x) ->
  resolve_top fuel (rewrite K MO MC q) = Some c -> (forall x, In x (cfree c) -> s x = x) ->
  resolve_top fuel (rewrite K MO MC (map_names s q)) = Some c.
Proof. exact pipeline_rename_invariant. Qed.
Print Assumptions C08_pipeline_rename.

(* ... but they do not look at binding, and neither does visit_Call: a name in func position is dispatched
   on as a name.  Renaming the parameter f of `lambda f: f(1.0)` to sin (an injective renaming that touches no
   free name of the query) turns a call the translator refuses into std::sin(1.0). *)
Theorem C08_known_function_param_refuted :
  exists q c1 c2,
    no_app q = true /\
    resolve_top 20 (rewrite ["sin"] [] [] q) = Some c1 /\
    resolve_top 20 (rewrite ["sin"] [] [] (map_names (swap "f" "sin") q)) = Some c2 /\ c1 <> c2.
Proof. exact known_function_param_refuted. Qed.
Print Assumptions C08_known_function_param_refuted.

(* determinism: whatever is computed from the resolved term inherits the invariance *)
Theorem C08_translation_invariant : forall (A : Type) (T : option cexpr -> A) (fuel : nat) (q1 q2 : expr),
  aeq [] [] q1 q2 -> no_app q1 = true -> T (resolve_top fuel q1) = T (resolve_top fuel q2).
Proof. exact @translation_invariant. Qed.
Print Assumptions C08_translation_invariant.

(* transpositions are injective and injective renamings compose: every finite renaming to fresh names is covered *)
Theorem C08_swap_injective : forall a b, injective (swap a b).
Proof. exact swap_injective. Qed.
Print Assumptions C08_swap_injective.

(* non-vacuity *)
Definition q_nested (outer inner : string) : expr :=
  ECall (EName "Select") [EConst "<jets>";
    ELam [outer] (ECall (EName "Count") [ECall (EName "Where") [EConst "<tracks>";
      ELam [inner] (EOp "Gt" [ECall (EAttr (EName inner) "pt") []; EConst "1"])]])].

(* an inner parameter that starts shadowing the outer one *)
Example C08_nonvacuous_shadow : aeq [] [] (q_nested "j" "t") (q_nested "j" "j") /\ no_app (q_nested "j" "t") = true.
Proof.
  split; [|reflexivity]. unfold q_nested.
  apply AE_call_fn; [reflexivity|reflexivity|]. constructor; [constructor|]. constructor; [|constructor].
  apply AE_lam; [reflexivity|]. apply AE_call_fn; [reflexivity|reflexivity|]. constructor; [|constructor].
  apply AE_call_fn; [reflexivity|reflexivity|]. constructor; [constructor|]. constructor; [|constructor].
  apply AE_lam; [reflexivity|]. apply AE_op. constructor; [|repeat constructor].
  apply AE_call; [reflexivity| |constructor]. apply AE_attr. apply AE_bound with (p := (1, 0)); reflexivity.
Qed.

Example C08_nonvacuous_resolve :
  resolve_top 30 (q_nested "j" "j")
  = Some (CCall (CFree "Select") [CConst "<jets>"; CLam 1 (CCall (CFree "Count") [CCall (CFree "Where") [CConst "<tracks>";
      CLam 1 (COp "Gt" [CCall (CAttr (CVal 1) "pt") []; CConst "1"])]])]).
Proof. vm_compute. reflexivity. Qed.

Example C08_nonvacuous_rename :
  resolve_top 30 (map_names (swap "j" "jet") (q_nested "j" "t")) = resolve_top 30 (q_nested "j" "t").
Proof. vm_compute. reflexivity. Qed.
