From FV Require Import Base.Prelude Model.CppTypesModel Proofs.CppTypesProofs.
