(* C10 - Declared method, collection-return and enum types are honoured exactly.
   Only statements, `exact`, and Print Assumptions live here.  Model: Model/CppTypesModel.v. *)
From FV Require Import Base.Prelude Model.CppTypesModel Proofs.CppTypesProofs.

(* ---- type strings ------------------------------------------------------------------------- *)
(* What parse_type does for EVERY string: the maximal trailing run of stars and white space is removed
   and its stars are the pointer depth; leading white space is removed; a leading "const " (exactly that,
   once, nothing stripped after it) sets the flag and is removed. *)
Theorem C10_parse_type_spec : forall s : string,
  parse_type s =
  {| p_name := of_chars (strip_const (core_of (to_chars s)));
     p_depth := count_if is_star (trailing_run (to_chars s));
     p_const := has_const (core_of (to_chars s)) |}.
Proof. exact parse_type_spec_lemma. Qed.
Print Assumptions C10_parse_type_spec.

(* The same as a decomposition: lead ++ core ++ tail with lead white space, tail stars/white space and a
   core that neither starts with white space nor ends in white space or a star (or is empty) ... *)
Theorem C10_parse_type_decomposition : forall lead core tail : chars,
  forallb is_ws lead = true -> core_ok core = true -> forallb ws_or_star tail = true ->
  parse_chars (lead ++ core ++ tail) = (strip_const core, count_if is_star tail, has_const core).
Proof. exact parse_chars_decomp. Qed.
Print Assumptions C10_parse_type_decomposition.

(* ... and every string decomposes that way, so the two theorems determine parse_type completely. *)
Theorem C10_parse_type_total : forall s : chars,
  exists lead core tail,
    s = lead ++ core ++ tail /\ forallb is_ws lead = true /\ core_ok core = true /\ forallb ws_or_star tail = true.
Proof. exact parse_decomp_exists. Qed.
Print Assumptions C10_parse_type_total.

(* name + k stars parses back to (name, k): pointer depth of any size is carried exactly *)
Theorem C10_parse_type_roundtrip : forall (n : string) (k : nat),
  core_ok (to_chars n) = true -> has_const (to_chars n) = false ->
  parse_type (n +++ stars k) = {| p_name := n; p_depth := k; p_const := false |}.
Proof. exact parse_type_name_stars. Qed.
Print Assumptions C10_parse_type_roundtrip.

(* ---- member access ------------------------------------------------------------------------- *)
(* total indirection d = extra dereferences + pointer depth:  d <= 0 "."   d = 1 "->"   d = k+2: k+1 times ( *...) then "->" *)
Theorem C10_access_spec : forall e p x,
  let d := (x + Z.of_nat p)%Z in
  ((d <= 0)%Z -> member_access e p x = e +++ ".") /\
  (d = 1%Z -> member_access e p x = e +++ "->") /\
  (forall k : nat, d = Z.of_nat (S (S k)) ->
     member_access e p x = rep_str "(*" (S k) +++ e +++ rep_str ")" (S k) +++ "->").
Proof. exact member_access_cases. Qed.
Print Assumptions C10_access_spec.

(* the emitted text is the rendering of an access term of the pointer model *)
Theorem C10_access_is_synth : forall e p x,
  member_access e p x = render_acc e (synth (x + Z.of_nat p)).
Proof. exact member_access_render. Qed.
Print Assumptions C10_access_is_synth.

(* In the pointer model (object | pointer | class overloading * and ->) the synthesised access is well
   typed exactly when the receiver is d-fold indirect, and it dereferences d times. *)
Theorem C10_access_typed : forall t d,
  (acc_ok t (synth d) = true <-> indirection t = Z.to_nat d) /\ acc_derefs (synth d) = Z.to_nat d.
Proof. intros t d. split; [exact (access_typed_iff t d)|exact (synth_derefs d)]. Qed.
Print Assumptions C10_access_typed.

(* receiver `T` + p stars whose member sits behind k overloaded dereferences: the emitted access for a
   declared deref_count x is well typed iff x = k; in particular plain pointers (k = 0) need x = 0 *)
Theorem C10_access_typed_declared : forall (p k : nat) (x : Z),
  (0 <= x)%Z ->
  (acc_ok (ptr_layers p (smart_layers k)) (synth (x + Z.of_nat p)) = true <-> x = Z.of_nat k).
Proof. exact access_typed_declared. Qed.
Print Assumptions C10_access_typed_declared.

(* soundness of counting dereferences (what the text oracle of the check does): ANY well-typed access
   term performs exactly `indirection` dereferences *)
Theorem C10_well_typed_access_counts : forall t a, acc_ok t a = true -> acc_derefs a = indirection t.
Proof. exact acc_ok_counts. Qed.
Print Assumptions C10_well_typed_access_counts.

(* ---- registry ------------------------------------------------------------------------------ *)
(* After processing ANY metadata list, the lookup for (type, method) is the LAST declaration for that
   pair; with none, the method is assumed to return double by value with no extra dereference and exactly
   one warning naming it is logged - except on a receiver of base numeric type, which is an error. *)
Theorem C10_registry : forall l g (parent : terminal) m,
  process_md empty_registry l = OK g ->
  determine_type_mf (r_methods g) parent m =
    match last_decl l (t_type parent) m with
    | Some md => match info_of md with Some i => OK (i, []) | None => Error ErrKey end
    | None => if mem_str (t_type parent) base_types then Error ErrTranslation
              else OK (double0, [warn_text (t_type parent) m])
    end.
Proof. exact registry_lemma. Qed.
Print Assumptions C10_registry.

Theorem C10_registry_declared_is_wellformed : forall l g ty m md,
  process_md empty_registry l = OK g -> last_decl l ty m = Some md -> exists i, info_of md = Some i.
Proof. exact registry_declared_ok. Qed.
Print Assumptions C10_registry_declared_is_wellformed.

(* what a declaration means: value / object return ... *)
Theorem C10_declared_value : forall md rt,
  md_return_type md = Some rt ->
  info_of md = Some {| mi_type := TTerm {| t_type := p_name (parse_type rt); t_depth := p_depth (parse_type rt);
                                           t_const := false; t_tree := md_tree md |};
                       mi_deref := match md_deref md with Some z => z | None => 0%Z end |}.
Proof. exact info_of_value. Qed.
Print Assumptions C10_declared_value.

(* ... and collection return: element type exactly as declared (depth and const), array type as declared
   or std::vector<element> by value *)
Theorem C10_declared_collection : forall md el,
  md_return_type md = None -> md_elem md = Some el ->
  exists arr,
    info_of md = Some {| mi_type := TColl arr (term_of_parsed (parse_type el));
                         mi_deref := match md_deref md with Some z => z | None => 0%Z end |} /\
    arr = match md_coll md with
          | Some c => term_of_parsed (parse_type c)
          | None => mk_term ("std::vector<" +++ str_parsed (parse_type el) +++ ">") O
          end.
Proof. exact info_of_collection. Qed.
Print Assumptions C10_declared_collection.

(* ---- every use: calls and attributes ------------------------------------------------------- *)
(* a member call renders as <access for deref_count + receiver depth> m(args) and has the looked-up type;
   it is a collection representation exactly when that type is a collection *)
Theorem C10_call_use : forall g e t k m args r w,
  do_call g (RVal e t k) m args = OK (r, w) ->
  exists i w1 ss w2,
    determine_type_mf (r_methods g) (view t) m = OK (i, w1) /\
    do_args g args = OK (ss, w2) /\ w = w1 ++ w2 /\
    r = RVal (render_acc e (synth (mi_deref i + Z.of_nat (t_depth (view t)))) +++ m +++ "(" +++ join_str "," ss +++ ")")
             (mi_type i) (if is_coll (mi_type i) then KColl else KValue).
Proof. exact do_call_shape. Qed.
Print Assumptions C10_call_use.

Theorem C10_attribute_use : forall g e t k a r w,
  do_attr g (RVal e t k) a = OK (r, w) ->
  k <> KEnumVal /\
  exists i, determine_type_mf (r_methods g) (view t) a = OK (i, w) /\
    r = RVal (render_acc e (synth (mi_deref i + Z.of_nat (t_depth (view t)))) +++ a) (mi_type i) KValue.
Proof. exact do_attr_value_shape. Qed.
Print Assumptions C10_attribute_use.

(* over ALL chains of calls / attributes / indexings: what is tagged a collection has a collection type *)
Theorem C10_chain_invariant : forall g l r r' w, rep_wf r -> do_steps g r l = OK (r', w) -> rep_wf r'.
Proof. exact do_steps_wf. Qed.
Print Assumptions C10_chain_invariant.

(* over ALL whole queries of the modelled shape: every logged warning is the fallback warning of a lookup
   that found no declaration (on a non-numeric receiver) *)
Theorem C10_warnings_only_for_undeclared : forall g root p out,
  translate g root p = OK out -> Forall (is_fallback_warning g) (em_warn out).
Proof. exact translate_warnings. Qed.
Print Assumptions C10_warnings_only_for_undeclared.

(* ---- collections --------------------------------------------------------------------------- *)
(* only a collection is iterated; the iterator has the element type; the collection expression is
   dereferenced once iff the collection is handed over by pointer *)
Theorem C10_collection_iterated : forall r it h r',
  do_iter r it = OK (h, r') ->
  exists e a el, r = RVal e (TColl a el) KColl /\
    r' = RVal it (TTerm el) KValue /\
    h = "for (auto &&" +++ it +++ " : " +++ (match t_depth a with O => e | S _ => "*" +++ e end) +++ ")".
Proof. exact do_iter_shape. Qed.
Print Assumptions C10_collection_iterated.

(* only a collection is indexed; .at() is reached through the collection's full pointer depth; the result
   has the element type *)
Theorem C10_collection_indexed : forall r k r' w,
  do_index r k = OK (r', w) ->
  exists e a el, r = RVal e (TColl a el) KColl /\ w = [] /\
    r' = RVal (render_acc e (synth (Z.of_nat (t_depth a))) +++ "at(" +++ k +++ ")") (TTerm el) KValue.
Proof. exact do_index_shape. Qed.
Print Assumptions C10_collection_indexed.

(* ---- enums --------------------------------------------------------------------------------- *)
(* rendering for all strings: dots become "::" everywhere ... *)
Theorem C10_enum_render_general : forall e v,
  value_as_cpp e v = join_str "::" (map replace_dot (en_path e)) +++ "::" +++ replace_dot v.
Proof. exact value_as_cpp_general. Qed.
Print Assumptions C10_enum_render_general.

(* ... so a value v of an enum in namespace ns1.....nsk renders ns1::...::nsk::v *)
Theorem C10_enum_render : forall e v,
  en_path e <> [] -> forallb no_dot (en_path e) = true -> no_dot v = true ->
  value_as_cpp e v = join_str "::" (en_path e ++ [v]).
Proof. exact enum_render_lemma. Qed.
Print Assumptions C10_enum_render.

(* paths produced by define_enum (split on ".") always satisfy those side conditions *)
Theorem C10_enum_paths_wellformed : forall s, split_dot s <> [] /\ forallb no_dot (split_dot s) = true.
Proof. intros s. split; [exact (split_dot_nonempty s)|exact (split_dot_nodot s)]. Qed.
Print Assumptions C10_enum_paths_wellformed.

(* the first definition of (namespace, name) is the one that stays *)
Theorem C10_enum_first_definition_wins : forall r ns n vs,
  find_enum (define_enum r ns n vs) (split_dot ns) n =
    match find_enum r (split_dot ns) n with
    | Some d => Some d
    | None => Some {| en_path := split_dot ns; en_name := n; en_values := vs |}
    end.
Proof. exact define_enum_first_wins. Qed.
Print Assumptions C10_enum_first_definition_wins.

(* name resolution: id.ns2...nsk.E.v reaches the value of the registered enum and renders it, provided no
   namespace shadows the enum's own name (get_ns is consulted before get_enum) *)
Theorem C10_enum_resolution : forall g id rest n d v,
  find_enum (r_enums g) (id :: rest) n = Some d ->
  ns_exists (r_enums g) ((id :: rest) ++ [n]) = false ->
  mem_str v (en_values d) = true ->
  do_arg g (AName id (rest ++ [n; v])) = OK (value_as_cpp d v, []).
Proof. exact enum_resolve_lemma. Qed.
Print Assumptions C10_enum_resolution.

(* `.x` on an enum value is refused *)
Theorem C10_enum_value_has_no_members : forall g e t a, do_attr g (RVal e t KEnumVal) a = Error ErrValue.
Proof. exact enum_value_no_attr. Qed.
Print Assumptions C10_enum_value_has_no_members.

(* ---- declared variables / columns ---------------------------------------------------------- *)
(* the column of a value is declared with the tree type if one was declared, else the type itself, always
   with the declared pointer depth; the stored value is converted iff the names differ *)
Theorem C10_column_decl : forall e t,
  fst (column_value e t) =
    (if t_const (view t) then "const " else "") +++
    (match t_tree (view t) with Some tr => tr | None => t_type (view t) end) +++ stars (t_depth (view t)).
Proof. exact column_value_decl. Qed.
Print Assumptions C10_column_decl.

Theorem C10_column_store : forall e t,
  snd (column_value e t) =
    match t_tree (view t) with
    | Some tr => if String.eqb tr (t_type (view t)) then "COL = " +++ e +++ ";"
                 else "COL = static_cast<" +++ tr +++ ">(" +++ e +++ ");"
    | None => "COL = " +++ e +++ ";"
    end.
Proof. exact column_value_stmt. Qed.
Print Assumptions C10_column_store.

Theorem C10_vector_column_decl : forall e t,
  fst (column_vector e t) =
    "std::vector<" +++ (if t_const (view t) then "const " else "") +++
    (match t_tree (view t) with Some tr => tr | None => t_type (view t) end) +++ stars (t_depth (view t)) +++ ">".
Proof. exact column_vector_decl. Qed.
Print Assumptions C10_vector_column_decl.

(* from the dictionary to the column: a method declared with return_type rt (and maybe tree_type) *)
Theorem C10_declared_types_flow : forall md rt e,
  md_return_type md = Some rt ->
  exists i, info_of md = Some i /\
    fst (column_value e (mi_type i)) =
      (match md_tree md with Some tr => tr | None => p_name (parse_type rt) end) +++ stars (p_depth (parse_type rt)).
Proof. exact declared_column. Qed.
Print Assumptions C10_declared_types_flow.

(* ---- non-vacuity --------------------------------------------------------------------------- *)
Example C10_nonvacuous_parse : parse_type " const  int * *" = {| p_name := " int"; p_depth := 2; p_const := true |}.
Proof. vm_compute. reflexivity. Qed.

(* a method on a numeric receiver is refused; an undeclared one elsewhere falls back to double and warns *)
Example C10_nonvacuous_fallback :
  run_query [] "r" "float" 0 {| pg_levels := []; pg_last := [SCall "nope" []]; pg_vec := None |} = Error ErrTranslation /\
  run_query [] "r" "xAOD::Jet" 1 {| pg_levels := []; pg_last := [SCall "nope" [ALit "1"]]; pg_vec := None |}
  = OK {| em_loops := []; em_decl := "double"; em_stmt := "COL = r->nope(1);"; em_warn := [warn_text "xAOD::Jet" "nope"] |}.
Proof. vm_compute. split; reflexivity. Qed.

Example C10_nonvacuous_query2 :
  run_query
    [ MdMethod {| md_type_string := Some "xAOD::Jet"; md_method_name := Some "trk"; md_return_type := None;
                  md_elem := Some "Trk*"; md_coll := Some "TrkVec*"; md_tree := None; md_deref := None |};
      MdMethod {| md_type_string := Some "Trk"; md_method_name := Some "link"; md_return_type := Some "Link";
                  md_elem := None; md_coll := None; md_tree := None; md_deref := None |};
      MdMethod {| md_type_string := Some "Link"; md_method_name := Some "val"; md_return_type := Some "float";
                  md_elem := None; md_coll := None; md_tree := Some "double"; md_deref := Some 2%Z |};
      MdEnum "xAOD.Jet" "Color" ["Red"; "Blue"] ]
    "r" "xAOD::Jet" 1
    {| pg_levels := [[SCall "trk" []]];
       pg_last := [SCall "link" []; SCall "val" [AName "xAOD" ["Jet"; "Color"; "Red"]]];
       pg_vec := None |}
  = OK {| em_loops := ["for (auto &&it0 : *r->trk())"];
          em_decl := "double";
          em_stmt := "COL = static_cast<double>((*it0->link())->val(xAOD::Jet::Red));";
          em_warn := [] |}.
Proof. vm_compute. reflexivity. Qed.

Example C10_nonvacuous_typed :
  acc_ok (CPtr (CSmart (CPtr CObj))) (synth 3) = true /\ acc_ok (CPtr (CSmart (CPtr CObj))) (synth 2) = false.
Proof. vm_compute. split; reflexivity. Qed.

(* ---- known finding (see known_findings.json c10:pointer-column-cast) ------------------------ *)
(* "output columns carry the declared (or declared tree) type" fails to give type-correct code when the
   declared return is a pointer and a tree type is declared: the column is declared with the pointer depth,
   the stored value is cast to the bare tree type name. *)
Theorem C10_pointer_column_store_refuted :
  exists e t,
    (0 < t_depth (view t))%nat /\
    column_value e t = ("double**", "COL = static_cast<double>(" +++ e +++ ");").
Proof. exact pointer_column_store_witness. Qed.
Print Assumptions C10_pointer_column_store_refuted.
