(* C17 - Local docker execution runs the right image on the right files, or raises.
   Only statements, `exact`, and Print Assumptions live here.
   `run a e q k` is Dataset(files, image, tag, output_directory)...value() as a function of the
   constructor arguments a, the process environment e, the query q (metadata, translator outcome)
   and the scripted container k; it returns the docker.run calls, filelist.txt and the outcome. *)
From FV Require Import Base.Prelude Model.LocalDataset Proofs.LocalDatasetProofs.

(* No file, a missing file, or files from two directories: an error is raised (RuntimeError,
   FileNotFoundError from the constructor, RuntimeError) and docker.run is never called. *)
Theorem C17_precheck : forall (a : dataset_args) (e : env) (q : query) (k : container),
  (a_files a = [] -> x_outcome (run a e q k) = Error ErrRuntime) /\
  ((exists f, In f (a_files a) /\ f_exists f = false) ->
     x_outcome (run a e q k) = Error ErrFileNotFound) /\
  (all_exist (a_files a) -> q_translate q = None ->
   (exists f g, In f (a_files a) /\ In g (a_files a) /\ f_parent f <> f_parent g) ->
     x_outcome (run a e q k) = Error ErrRuntime) /\
  (a_files a = [] \/ (exists f, In f (a_files a) /\ f_exists f = false) \/
   (exists f g, In f (a_files a) /\ In g (a_files a) /\ f_parent f <> f_parent g) ->
     x_calls (run a e q k) = [] /\ exists er, x_outcome (run a e q k) = Error er).
Proof. exact precheck. Qed.
Print Assumptions C17_precheck.

(* A query the translator refuses starts no container either. *)
Theorem C17_translation_error : forall (a : dataset_args) (e : env) (q : query) (k : container) er,
  q_translate q = Some er ->
  x_calls (run a e q k) = [] /\ exists er', x_outcome (run a e q k) = Error er'.
Proof. exact translate_error_no_call. Qed.
Print Assumptions C17_translation_error.

(* Otherwise docker.run is called exactly once, whatever the container then does, with
   command [/scripts/<runner>], remove and stream set, the package at /scripts (ro) and /results (rw),
   the absolute data directory at /data/ (ro) followed by the backend's cache volumes, and
   filelist.txt lists /data/<name> for every file in order. *)
Theorem C17_call : forall (a : dataset_args) (e : env) (q : query) (k : container) d,
  valid a q d ->
  x_calls (run a e q k) =
    [ {| c_image := pick_image (default_image a) (q_mds q);
         c_command := ["/scripts/" +++ runner_name (a_backend a)];
         c_volumes := [ {| v_src := SrcPkg; v_dst := "/scripts"; v_mode := Some "ro" |};
                        {| v_src := SrcPkg; v_dst := "/results"; v_mode := Some "rw" |};
                        {| v_src := SrcDir (absolute (e_cwd e) d); v_dst := "/data/"; v_mode := Some "ro" |} ]
                      ++ map cache_volume (cache_volumes (a_backend a));
         c_remove := true; c_stream := true |} ] /\
  x_filelist (run a e q k) = concat_str (map (fun f => "/data/" +++ f_name f +++ nl) (a_files a)).
Proof. exact call_shape. Qed.
Print Assumptions C17_call.

(* ... and the image is the one the last docker metadata entry names, the dataset's image:tag when
   there is none (or when the last one carries no "image" key); one of the three cases always applies. *)
Theorem C17_image : forall dflt (mds : list md),
  (forall i, chosen_image dflt mds i -> pick_image dflt mds = i) /\ exists i, chosen_image dflt mds i.
Proof. exact image_spec. Qed.
Print Assumptions C17_image.

(* Container fails (at the call or after any number of output chunks) -> DockerException; result file
   or output directory missing -> FileNotFoundError; success -> exactly [out_dir/ANALYSIS.root]. *)
Theorem C17_outcome : forall (a : dataset_args) (e : env) (q : query) (k : container) d,
  valid a q d ->
  let r := x_outcome (run a e q k) in
  (bytes_only (k_chunks k) -> container_fails k -> r = Error ErrDocker) /\
  (bytes_only (k_chunks k) -> ~ container_fails k -> k_result k = false -> r = Error ErrFileNotFound) /\
  (bytes_only (k_chunks k) -> ~ container_fails k -> k_result k = true -> e_outdir_exists e = false ->
     r = Error ErrFileNotFound) /\
  (bytes_only (k_chunks k) -> ~ container_fails k -> k_result k = true -> e_outdir_exists e = true ->
     r = OK [path_join (outdir_of a e) "ANALYSIS.root"]).
Proof. exact outcome. Qed.
Print Assumptions C17_outcome.

(* Converse with no assumption on the inputs (any chunk types included): a path is returned only if
   the inputs were valid, exactly the expected container ran to completion without error, and it
   left the result file; the path is out_dir/ANALYSIS.root and nothing else. *)
Theorem C17_no_result_unless_success : forall (a : dataset_args) (e : env) (q : query) (k : container) ps,
  x_outcome (run a e q k) = OK ps ->
  ps = [path_join (outdir_of a e) "ANALYSIS.root"] /\
  (exists d, valid a q d /\ x_calls (run a e q k) = [expected_call a e q d]) /\
  k_at_call k = false /\ k_fail_after k = None /\ k_result k = true /\ e_outdir_exists e = true.
Proof. exact returned_only_on_success. Qed.
Print Assumptions C17_no_result_unless_success.

(* ---------- non-vacuity ---------- *)
Definition ex_files := [ {| f_parent := "data"; f_name := "a.root"; f_exists := true |};
                         {| f_parent := "data"; f_name := "b.root"; f_exists := true |} ].
Definition ex_args := {| a_files := ex_files; a_image := "atlas/analysisbase"; a_tag := "21.2.197";
                         a_outdir := None; a_backend := Atlas |}.
Definition ex_env := {| e_tmpdir := "/tmp"; e_cwd := "/home/u"; e_outdir_exists := true |}.
Definition ex_query := {| q_mds := [MdDocker (Some "second:2"); MdOther; MdDocker (Some "first:1"); MdOther];
                          q_translate := None |}.
Definition ex_good := {| k_at_call := false; k_chunks := [ChBytes true; ChBytes false]; k_fail_after := None; k_result := true |}.

Example C17_nonvacuous_success :
  run ex_args ex_env ex_query ex_good =
  {| x_calls := [ {| c_image := "first:1"; c_command := ["/scripts/runner.sh"];
                     c_volumes := [ {| v_src := SrcPkg; v_dst := "/scripts"; v_mode := Some "ro" |};
                                    {| v_src := SrcPkg; v_dst := "/results"; v_mode := Some "rw" |};
                                    {| v_src := SrcDir "/home/u/data"; v_dst := "/data/"; v_mode := Some "ro" |};
                                    {| v_src := SrcName "func_adl_atlas_xaod_calibration_cache";
                                       v_dst := "/xaod_calibration_cache"; v_mode := None |} ];
                     c_remove := true; c_stream := true |} ];
     x_filelist := "/data/a.root" +++ nl +++ "/data/b.root" +++ nl;
     x_outcome := OK ["/tmp/ANALYSIS.root"] |}.
Proof. vm_compute. reflexivity. Qed.

Example C17_nonvacuous_valid : valid ex_args ex_query "data".
Proof.
  repeat split; try discriminate.
  - intros f [H|[H|[]]]; subst f; reflexivity.
  - intros f [H|[H|[]]]; subst f; reflexivity.
Qed.

Example C17_nonvacuous_failure_after_one_chunk :
  let r := run ex_args ex_env ex_query
               {| k_at_call := false; k_chunks := [ChBytes true; ChBytes false]; k_fail_after := Some 1; k_result := true |} in
  List.length (x_calls r) = 1 /\ x_outcome r = Error ErrDocker.
Proof. vm_compute. split; reflexivity. Qed.

Example C17_nonvacuous_two_dirs :
  run {| a_files := ex_files ++ [ {| f_parent := "other"; f_name := "a.root"; f_exists := true |} ];
         a_image := "i"; a_tag := "t"; a_outdir := Some "/out"; a_backend := CmsAod |} ex_env ex_query ex_good =
  {| x_calls := []; x_filelist := "/data/a.root" +++ nl +++ "/data/b.root" +++ nl +++ "/data/a.root" +++ nl;
     x_outcome := Error ErrRuntime |}.
Proof. vm_compute. reflexivity. Qed.
