(* C15 - Job-script blocks are emitted once each in dependency order.
   Only statements, `exact`, and Print Assumptions live here. *)
From FV Require Import Base.Prelude Model.ScriptBlocks Proofs.ScriptBlocksProofs.

(* Every line of every distinct block exactly once, contiguous, in block order, dependencies first,
   nothing dropped: the output is the concatenation of the scripts along a duplicate-free listing of
   exactly the names that were sent, in which every block comes after all blocks it depends on. *)
Theorem C15_ok : forall bs out,
  gen bs = OK out ->
  exists order, topo bs order /\ out = flat_map (script_of bs) order.
Proof. exact gen_ok. Qed.
Print Assumptions C15_ok.

(* An error is always ValueError and has one of the three documented causes
   (in particular the fuel of the modelled while-loop is never exhausted). *)
Theorem C15_err_sound : forall bs e,
  gen bs = Error e -> e = ErrValue /\ (conflicting bs \/ missing_dep bs \/ cyclic bs).
Proof. exact gen_err. Qed.
Print Assumptions C15_err_sound.

(* ... and each of the three causes does raise. *)
Theorem C15_err_complete : forall bs,
  conflicting bs \/ missing_dep bs \/ cyclic bs -> gen bs = Error ErrValue.
Proof. exact gen_err_complete. Qed.
Print Assumptions C15_err_complete.

(* Repeated blocks with identical script behave as one block with the union of their dependencies. *)
Theorem C15_merge : forall bs, gen (merged bs) = gen bs.
Proof. exact gen_merged. Qed.
Print Assumptions C15_merge.

Theorem C15_merge_shape : forall bs t,
  phase1 bs [] = OK t ->
  NoDup (names (merged bs)) /\
  (forall n, In n (names (merged bs)) <-> In n (names bs)) /\
  (forall b, In b (merged bs) -> jb_script b = script_of bs (jb_name b) /\
                                 forall d, In d (jb_deps b) <-> depends bs (jb_name b) d).
Proof. exact merged_shape. Qed.
Print Assumptions C15_merge_shape.

(* non-vacuity: a diamond with a repeated block is accepted, a 2-cycle is refused *)
Example C15_nonvacuous_ok :
  gen [ {| jb_name := "d"; jb_script := ["d1"; "d2"]; jb_deps := ["b"; "c"] |};
        {| jb_name := "b"; jb_script := ["b1"]; jb_deps := ["a"] |};
        {| jb_name := "c"; jb_script := ["c1"]; jb_deps := [] |};
        {| jb_name := "a"; jb_script := ["a1"]; jb_deps := [] |};
        {| jb_name := "c"; jb_script := ["c1"]; jb_deps := ["a"] |} ]
  = OK ["a1"; "b1"; "c1"; "d1"; "d2"].
Proof. vm_compute. reflexivity. Qed.

Example C15_nonvacuous_cycle :
  gen [ {| jb_name := "x"; jb_script := ["x1"]; jb_deps := ["y"] |};
        {| jb_name := "y"; jb_script := ["y1"]; jb_deps := ["x"] |} ] = Error ErrValue.
Proof. vm_compute. reflexivity. Qed.
