(* C04 - Faults are equivalent: loud on empty First / bad index, never spurious; evaluation is as lazy as
   the query.  Theorems about the translator's lowering SCHEMAS (Model/Lowering.v) over the semantics of the
   emitted C++ subset (Cpp/Exec.v): each holds for ALL sub-fragments (operand blocks, arms, downstream code,
   guard expressions), all events, all states.  That the code the implementation emits for a given query IS an
   instance of these schemas is checked per generated query by the extracted recognisers (tools/fv/props/c04.py).
   Only statements, `exact`, Print Assumptions and Examples live here. *)
From FV Require Import Base.Prelude Cpp.IR Cpp.Exec Model.Lowering Proofs.LoweringProofs.

(* ---- and ---- *)
(* If the first operand's code ends with res = false, the whole lowering ends in exactly that state: no later
   operand block is executed - whatever it would do (fault, be stuck, write rows). *)
Theorem and_lazy : forall (brs : list branch) (ev : event) (res : string) (code1 : stmts) (v1 : cexp)
                          (ops : list block) (st st1 : state) (t : string),
  exec_stmts brs ev (bo_first res code1 v1) st = ROk st1 ->
  lookup res st1 = Some (t, VBool false) ->
  exec_stmts brs ev (bo_lower true res code1 v1 ops) st = ROk st1.
Proof. exact (fun brs ev => bo_lower_lazy brs ev true). Qed.
Print Assumptions and_lazy.

(* Otherwise the next operand's block runs (its result is the one carried on), then the rest of the chain. *)
Theorem and_eval : forall (brs : list branch) (ev : event) (res : string) (code1 : stmts) (v1 : cexp)
                          (b : block) (ops : list block) (st st1 : state) (t : string),
  exec_stmts brs ev (bo_first res code1 v1) st = ROk st1 ->
  lookup res st1 = Some (t, VBool true) ->
  exec_stmts brs ev (bo_lower true res code1 v1 (b :: ops)) st
  = rbind (exec_block brs ev b [] st1) (fun st2 => exec_stmts brs ev (bo_tail true res ops) st2).
Proof. exact (fun brs ev => bo_lower_eval brs ev true). Qed.
Print Assumptions and_eval.

Theorem or_lazy : forall (brs : list branch) (ev : event) (res : string) (code1 : stmts) (v1 : cexp)
                         (ops : list block) (st st1 : state) (t : string),
  exec_stmts brs ev (bo_first res code1 v1) st = ROk st1 ->
  lookup res st1 = Some (t, VBool true) ->
  exec_stmts brs ev (bo_lower false res code1 v1 ops) st = ROk st1.
Proof. exact (fun brs ev => bo_lower_lazy brs ev false). Qed.
Print Assumptions or_lazy.

Theorem or_eval : forall (brs : list branch) (ev : event) (res : string) (code1 : stmts) (v1 : cexp)
                         (b : block) (ops : list block) (st st1 : state) (t : string),
  exec_stmts brs ev (bo_first res code1 v1) st = ROk st1 ->
  lookup res st1 = Some (t, VBool false) ->
  exec_stmts brs ev (bo_lower false res code1 v1 (b :: ops)) st
  = rbind (exec_block brs ev b [] st1) (fun st2 => exec_stmts brs ev (bo_tail false res ops) st2).
Proof. exact (fun brs ev => bo_lower_eval brs ev false). Qed.
Print Assumptions or_eval.

(* n operands (induction over the operand list), at any point of the chain and followed by any statements:
   once the running result is the absorbing value, none of the remaining operand blocks runs ... *)
Theorem boolop_lazy_n : forall (brs : list branch) (ev : event) (is_and : bool) (res : string) (ops : list block)
                               (rest : stmts) (st : state) (t : string),
  lookup res st = Some (t, VBool (negb is_and)) ->
  exec_stmts brs ev (app_stmts (bo_tail is_and res ops) rest) st = exec_stmts brs ev rest st.
Proof. exact bo_tail_skip. Qed.
Print Assumptions boolop_lazy_n.

(* ... and otherwise exactly the next one does, and the chain continues from the state it leaves. *)
Theorem boolop_eval_n : forall (brs : list branch) (ev : event) (is_and : bool) (res : string) (b : block)
                               (ops : list block) (rest : stmts) (st : state) (t : string),
  lookup res st = Some (t, VBool is_and) ->
  exec_stmts brs ev (app_stmts (bo_tail is_and res (b :: ops)) rest) st
  = rbind (exec_block brs ev b [] st) (fun st' => exec_stmts brs ev (app_stmts (bo_tail is_and res ops) rest) st').
Proof. exact bo_tail_enter. Qed.
Print Assumptions boolop_eval_n.

(* An operand block of the shape { decls; code; res = v; } leaves in res the value of v (converted to the
   declared type of res), provided the block does not itself declare a variable named res. *)
Theorem boolop_operand_value : forall (brs : list branch) (ev : event) (res : string) (ds : list decl) (code : stmts)
                             (v : cexp) (st st2 : state) (t : string) (old x : value),
  rbind (run_decls ev ds (enter [] st)) (fun s1 => exec_stmts brs ev code s1) = ROk st2 ->
  lookup res st2 = Some (t, old) ->
  frame_get res (hd [] (frames st2)) = None ->
  eval ev st2 v = ROk x ->
  exists st3, exec_block brs ev (bo_operand res ds code v) [] st = ROk st3
              /\ lookup res st3 = Some (t, conv t x).
Proof. exact operand_value. Qed.
Print Assumptions boolop_operand_value.

(* ---- conditional expression ---- *)
(* After the test's code, exactly the taken arm's block runs; the other arm is arbitrary and not executed. *)
Theorem ifexp_lazy : forall (brs : list branch) (ev : event) (test_code : stmts) (test : cexp) (bT bE : block)
                            (st st1 : state) (v : value) (c : bool),
  exec_stmts brs ev test_code st = ROk st1 ->
  eval ev st1 test = ROk v -> truth v = ROk c ->
  exec_stmts brs ev (ie_lower test_code test bT bE) st = exec_block brs ev (if c then bT else bE) [] st1.
Proof. exact ie_lower_run. Qed.
Print Assumptions ifexp_lazy.

(* ... and an arm { decls; code; res = v; } leaves the value of v converted to res's type (double). *)
Theorem ifexp_result : forall (brs : list branch) (ev : event) (res : string) (ds : list decl) (code : stmts)
                         (v : cexp) (st st2 : state) (t : string) (old x : value),
  rbind (run_decls ev ds (enter [] st)) (fun s1 => exec_stmts brs ev code s1) = ROk st2 ->
  lookup res st2 = Some (t, old) ->
  frame_get res (hd [] (frames st2)) = None ->
  eval ev st2 v = ROk x ->
  exists st3, exec_block brs ev (ie_arm res ds code v) [] st = ROk st3
              /\ lookup res st3 = Some (t, conv t x).
Proof. exact arm_value. Qed.
Print Assumptions ifexp_result.

(* ---- Where ---- *)
(* A false predicate executes nothing of the guarded block: no fault, no effect. *)
Theorem where_skips : forall (brs : list branch) (ev : event) (pred_code : stmts) (pred : cexp) (downstream : block)
                             (st st1 : state) (v : value),
  exec_stmts brs ev pred_code st = ROk st1 ->
  eval ev st1 pred = ROk v -> truth v = ROk false ->
  exec_stmts brs ev (wh_lower pred_code pred downstream) st = ROk st1.
Proof. exact wh_lower_skip. Qed.
Print Assumptions where_skips.

Theorem where_passes : forall (brs : list branch) (ev : event) (pred : cexp) (downstream : block) (st : state) (v : value),
  eval ev st pred = ROk v -> truth v = ROk true ->
  exec_stmt brs ev (SIf pred downstream None) st = exec_block brs ev downstream [] st.
Proof. exact where_pass. Qed.
Print Assumptions where_passes.

(* ---- First ---- *)
(* The First schema (flag armed in the enclosing block, for-each over a vector value, capture under a chain of
   guard conditions, throw-if after the loop): the fragment faults with FThrow when no element passes the guards;
   otherwise its outcome is EXACTLY that of the loop body run once, on the first passing element, from the
   initial state - earlier (rejected) elements leave nothing behind and later elements change nothing.
   Side conditions, explicit: the guards evaluate without faulting (a faulting guard is a different outcome),
   and the code downstream of the capture does not re-arm the flag. *)
Theorem first_faults_iff_empty : forall (brs : list branch) (ev : event) (isf x line tb : string) (conds : list cexp)
                            (ds : list decl) (downstream : stmts) (coll : cexp) (l : list value) (st : state)
                            (p : value -> bool),
  String.eqb isf x = false ->
  lookup isf st = Some (tb, VBool true) ->
  eval ev st coll = ROk (VVec l) ->
  (forall v, In v l -> guards_pass ev (enter [(x, ("auto", v))] st) conds = ROk (p v)) ->
  (forall w s, first_passing p l = Some w ->
     exec_block brs ev (fi_body isf conds ds downstream) [(x, ("auto", w))] st = ROk s ->
     lookup isf s = Some (tb, VBool false)
     /\ forall v, In v l -> exists b, guards_pass ev (enter [(x, ("auto", v))] s) conds = ROk b) ->
  exec_stmts brs ev (fi_lower isf x coll (fi_body isf conds ds downstream) line) st =
  match first_passing p l with
  | None => RFault FThrow
  | Some w => exec_block brs ev (fi_body isf conds ds downstream) [(x, ("auto", w))] st
  end.
Proof. exact first_schema. Qed.
Print Assumptions first_faults_iff_empty.

(* The same for ANY loop body (arbitrary per-element guard CODE, nested loops, ...) that honours the contract:
   rejected elements restore the state, the capture disarms the flag, a disarmed flag makes the body a no-op. *)
Theorem first_any_body : forall (brs : list branch) (ev : event) (isf x line tb : string) (body : block)
                                (p : value -> bool) (Q : value -> Prop) (Done : state -> Prop),
  (forall v st, Q v -> p v = false -> lookup isf st = Some (tb, VBool true) ->
                exec_block brs ev body [(x, ("auto", v))] st = ROk st) ->
  (forall v st st', Q v -> p v = true -> lookup isf st = Some (tb, VBool true) ->
                    exec_block brs ev body [(x, ("auto", v))] st = ROk st' -> Done st') ->
  (forall st, Done st -> lookup isf st = Some (tb, VBool false)) ->
  (forall v st, Q v -> Done st -> exec_block brs ev body [(x, ("auto", v))] st = ROk st) ->
  forall (coll : cexp) (l : list value) (st : state),
  Forall Q l -> lookup isf st = Some (tb, VBool true) -> eval ev st coll = ROk (VVec l) ->
  exec_stmts brs ev (fi_lower isf x coll body line) st =
  match first_passing p l with
  | None => RFault FThrow
  | Some w => exec_block brs ev body [(x, ("auto", w))] st
  end.
Proof. exact first_generic. Qed.
Print Assumptions first_any_body.

(* ---- indexing ---- *)
Theorem at_faults_iff_out_of_range : forall (ev : event) (st : state) (v i : cexp) (arrow : bool) (l : list value) (n : Z),
  eval ev st v = ROk (VVec l) -> eval ev st i = ROk (VInt n) ->
  (eval ev st (sub_lower v arrow i) = RFault FOutOfRange <-> (n < 0 \/ Z.of_nat (List.length l) <= n)%Z)
  /\ ((0 <= n < Z.of_nat (List.length l))%Z ->
      exists x, nth_error l (Z.to_nat n) = Some x /\ eval ev st (sub_lower v arrow i) = ROk x).
Proof. exact at_faults_iff. Qed.
Print Assumptions at_faults_iff_out_of_range.

(* ---- null links ---- *)
(* A method call on a null link faults; under  if (nonnull) {...}  with the flag false it is not evaluated. *)
Theorem null_guard : forall (brs : list branch) (ev : event) (st : state) (o : cexp) (arrow : bool) (m : string)
                            (args : cexps) (vs : list value) (nonnull : string) (guarded : block) (t : string),
  (eval ev st o = ROk VNull -> eval_args ev st args = ROk vs ->
   eval ev st (CMeth o arrow m args) = RFault FNullDeref)
  /\ (lookup nonnull st = Some (t, VBool false) ->
      exec_stmt brs ev (ng_lower nonnull guarded) st = ROk st).
Proof.
  intros. split.
  - exact (null_call_faults ev st o arrow m args vs).
  - exact (null_guard_skip brs ev nonnull guarded st t).
Qed.
Print Assumptions null_guard.

(* ---- recognisers ---- *)
(* What the is_first recogniser accepts as capture / throw-if statements ARE the schema's statements. *)
Theorem rec_capture_sound : forall (isf : string) (s : stmt),
  is_capture isf s = true ->
  exists ds rest, s = fi_capture isf ds rest /\ decls_occ isf ds = 0 /\ stmts_occ isf rest = 0.
Proof. exact is_capture_sound. Qed.
Print Assumptions rec_capture_sound.

Theorem rec_throw_if_sound : forall (isf : string) (s : stmt),
  is_throw_if isf s = true -> exists line, s = fi_throw isf line.
Proof. exact is_throw_if_sound. Qed.
Print Assumptions rec_throw_if_sound.

(* ================================================================================================ *)
(* non-vacuity                                                                                       *)
(* ================================================================================================ *)
Definition ev0 : event := {| ev_colls := []; ev_meths := [((7%nat, "link"), VNull)] |}.
Definition st_with (f : frame) : state := {| frames := [f]; members := []; rows := [] |}.
Definition boom : block := Blk [] (one_stmt (SThrow "throw;")).

(* and: false result -> two throwing operand blocks are not executed; true result -> the first one is *)
Example ex_and_lazy :
  exec_stmts [] ev0 (bo_lower true "r" SNil (CBool false) [boom; boom]) (st_with [("r", ("bool", VUninit))])
  = ROk (st_with [("r", ("bool", VBool false))]).
Proof. vm_compute. reflexivity. Qed.
Example ex_and_eval :
  exec_stmts [] ev0 (bo_lower true "r" SNil (CBool true) [boom; boom]) (st_with [("r", ("bool", VUninit))])
  = RFault FThrow.
Proof. vm_compute. reflexivity. Qed.
Example ex_or_lazy :
  exec_stmts [] ev0 (bo_lower false "r" SNil (CBool true) [boom]) (st_with [("r", ("bool", VUninit))])
  = ROk (st_with [("r", ("bool", VBool true))]).
Proof. vm_compute. reflexivity. Qed.
Example ex_or_eval :
  exec_stmts [] ev0 (bo_lower false "r" SNil (CBool false) [bo_operand "r" [] SNil (CInt 3)])
             (st_with [("r", ("bool", VUninit))])
  = ROk (st_with [("r", ("bool", VBool true))]).
Proof. vm_compute. reflexivity. Qed.

(* conditional: the untaken arm throws, the taken one stores 2 as a double *)
Example ex_ifexp :
  exec_stmts [] ev0 (ie_lower SNil (CBool false) boom (ie_arm "r" [] SNil (CInt 2)))
             (st_with [("r", ("double", VUninit))])
  = ROk (st_with [("r", ("double", VDbl (Exec.qz 2)))]).
Proof. vm_compute. reflexivity. Qed.

Example ex_where_skips :
  exec_stmts [] ev0 (wh_lower SNil (CBin ">" (CInt 1) (CInt 2)) boom) (st_with []) = ROk (st_with []).
Proof. vm_compute. reflexivity. Qed.

(* First over [1;5;7] with the guard x > 2: captures 5, 7 does not overwrite; with x > 9: throws *)
Definition first_prog (bound : Z) : stmts :=
  fi_lower "f" "x" (CVar "v")
    (fi_body "f" [CBin ">" (CVar "x") (CInt bound)] [] (one_stmt (SSet "cap" None (CVar "x")))) "throw;".
Definition first_st : state :=
  st_with [("v", ("std::vector<int>", VVec [VInt 1; VInt 5; VInt 7])); ("cap", ("int", VInt 0)); ("f", ("bool", VBool true))].
Example ex_first_captures_first_passing :
  exec_stmts [] ev0 (first_prog 2) first_st
  = ROk (st_with [("v", ("std::vector<int>", VVec [VInt 1; VInt 5; VInt 7])); ("cap", ("int", VInt 5)); ("f", ("bool", VBool false))]).
Proof. vm_compute. reflexivity. Qed.
Example ex_first_empty_after_filter_throws :
  exec_stmts [] ev0 (first_prog 9) first_st = RFault FThrow.
Proof. vm_compute. reflexivity. Qed.

Example ex_at_in_range :
  eval ev0 first_st (sub_lower (CVar "v") false (CInt 2)) = ROk (VInt 7).
Proof. vm_compute. reflexivity. Qed.
Example ex_at_past_end :
  eval ev0 first_st (sub_lower (CVar "v") false (CInt 3)) = RFault FOutOfRange.
Proof. vm_compute. reflexivity. Qed.

Example ex_null_deref_faults :
  eval ev0 (st_with [("o", ("auto", VObj 7))]) (CMeth (CMeth (CVar "o") false "link" CNil) true "pt" CNil)
  = RFault FNullDeref.
Proof. vm_compute. reflexivity. Qed.
Example ex_null_guard_protects :
  exec_stmt [] ev0 (ng_lower "nn" (Blk [] (one_stmt (SSet "y" None (CMeth (CMeth (CVar "o") false "link" CNil) true "pt" CNil)))))
            (st_with [("o", ("auto", VObj 7)); ("nn", ("bool", VBool false)); ("y", ("double", VUninit))])
  = ROk (st_with [("o", ("auto", VObj 7)); ("nn", ("bool", VBool false)); ("y", ("double", VUninit))]).
Proof. vm_compute. reflexivity. Qed.

(* recognisers: the schema instance is accepted; the throw-if moved inside the loop, or a guard that does
   not enclose the later operand, is rejected *)
Definition prog_first_ok : block :=
  Blk [fi_decl "is_first1"] (fi_lower "is_first1" "x" (CVar "v") (fi_body "is_first1" [] [] SNil) "throw;").
Definition prog_first_bad : block :=
  Blk [fi_decl "is_first1"]
      (one_stmt (SFor "x" (CVar "v") (Blk [] (SCons (fi_capture "is_first1" [] SNil) (one_stmt (fi_throw "is_first1" "throw;")))))).
Example ex_rec_first_ok : map v_ok (rec_block prog_first_ok) = [true].
Proof. vm_compute. reflexivity. Qed.
Example ex_rec_first_bad : map v_ok (rec_block prog_first_bad) = [false].
Proof. vm_compute. reflexivity. Qed.
Definition prog_and_ok : block :=
  Blk [bo_decl "bool_op1"] (bo_lower true "bool_op1" SNil (CBool true) [bo_operand "bool_op1" [] SNil (CBool false)]).
Definition prog_and_bad : block :=   (* second operand evaluated outside its guard *)
  Blk [bo_decl "bool_op1"]
      (SCons (SSet "bool_op1" None (CBool true))
        (SCons (SIf (CVar "bool_op1") (Blk [] SNil) None) (one_stmt (SSet "bool_op1" None (CBool false))))).
Example ex_rec_and_ok : map v_ok (rec_block prog_and_ok) = [true].
Proof. vm_compute. reflexivity. Qed.
Example ex_rec_and_bad : map v_ok (rec_block prog_and_bad) = [false].
Proof. vm_compute. reflexivity. Qed.

(* ---------- for ALL queries of the fragment (Model/FragTranslate.v, text-identical to the implementation) ---------- *)
(* A First column: for every collection, every chain of Where predicates, every body, every event and member
   state - with predicates and body defined on the elements - the emitted job throws exactly when NO element
   passes the filters, and otherwise writes the body's value on the FIRST passing element: no default, no stale
   value, no dropped row.  (Rows with several columns, event filters and whole jobs: C01_fragment_row,
   C01_query_job, whose reference semantics gives FThrow for an empty First.) *)
From FV Require Import Model.FragTranslate Proofs.FragProofs.
Theorem C04_fragment_first_faults_iff_empty :
  forall (bk : FragTranslate.backend) (name : string) (cr : collref) (ps : guard) (body : pa) (line : string)
         (n0 : nat) (ev : event) (ms : frame) (f : value -> bool) (g : value -> value) (l : list value),
  let r := [(name, ColFirst cr ps body line)] in
  base_ok (c_base cr) = true -> members_init r (n0 + row_size r) 0 ms ->
  assoc_ss (c_ctype cr, c_bank cr) (ev_colls ev) = Some (VVec l) ->
  passes_total ev ps l f -> (forall v, In v l -> f v = true -> dpa ev v body = ROk (g v)) ->
  match filter f l with
  | [] => run_event (prog_row bk r n0) ms ev = RFault FThrow
  | v :: _ => exists ms', run_event (prog_row bk r n0) ms ev = ROk ([[conv (pa_type body) (g v)]], ms')
  end.
Proof. exact frag_first_faults_iff_empty. Qed.
Print Assumptions C04_fragment_first_faults_iff_empty.
(* the same for a body with conditional expressions (ColFirstB) *)
Theorem C04_fragment_first_with_conditionals_faults_iff_empty :
  forall (bk : FragTranslate.backend) (name : string) (cr : collref) (ps : guard) (body : bexp) (line : string)
         (n0 : nat) (ev : event) (ms : frame) (f : value -> bool) (g : value -> value) (l : list value),
  let r := [(name, ColFirstB cr ps body line)] in
  base_ok (c_base cr) = true -> members_init r (n0 + row_size r) 0 ms ->
  assoc_ss (c_ctype cr, c_bank cr) (ev_colls ev) = Some (VVec l) ->
  passes_total ev ps l f -> (forall v, In v l -> f v = true -> db ev v body = ROk (g v)) ->
  match filter f l with
  | [] => run_event (prog_row bk r n0) ms ev = RFault FThrow
  | v :: _ => exists ms', run_event (prog_row bk r n0) ms ev = ROk ([[conv (btype body) (g v)]], ms')
  end.
Proof. exact frag_firstb_faults_iff_empty. Qed.
Print Assumptions C04_fragment_first_with_conditionals_faults_iff_empty.

(* indexing: e.Coll(bank)[i].m() as a column - for EVERY collection, index, method, first name index, event and member state
   the job fails (std::out_of_range of the bounds-checked at()) exactly when the collection has no element number i, and
   otherwise the row holds m() of that element; never a default, never a neighbouring element.  (Index expressions inside
   arithmetic, next to other columns and in the event filter are covered by C01_query_job, whose reference gives
   FOutOfRange for them.) *)
Theorem C04_fragment_index_faults_iff_short :
  forall (bk : FragTranslate.backend) (name : string) (cr : collref) (i : nat) (m : string)
         (n0 : nat) (ev : event) (ms : frame) (l : list value),
  let r := [(name, ColScalar (EIdx cr i m))] in
  base_ok (c_base cr) = true -> members_init r (n0 + row_size r) 0 ms ->
  assoc_ss (c_ctype cr, c_bank cr) (ev_colls ev) = Some (VVec l) ->
  match nth_error l i with
  | None => run_event (prog_row bk r n0) ms ev = RFault FOutOfRange
  | Some v => forall x, call_method ev v m [] = ROk x ->
              exists ms', run_event (prog_row bk r n0) ms ev = ROk ([[conv "double" x]], ms')
  end.
Proof. exact frag_index_faults_iff_short. Qed.
Print Assumptions C04_fragment_index_faults_iff_short.

(* and / or at EVENT level (`e.C(b).Count() > 0 and e.C(b)[0].pt() > 5`, as a column or as the event filter): the second
   operand's declarations and code are emitted inside `if (v)` / `if (!v)` (FragTranslate.te, case EBool), the reference
   evaluates it only when the first operand does not decide, and C01_query_job proves for every query of the fragment that
   the job does exactly what the reference does.  So a guard protects what follows it - whatever that would do. *)
Theorem C04_fragment_event_guard_protects :
  forall (ev : event) (is_and : bool) (a b : ex) (x : value) (t : bool),
  de ev a = ROk x -> truth (conv "bool" x) = ROk t -> Bool.eqb t is_and = false ->
  dex ev (EBool is_and a b) = ROk (VBool t).
Proof. exact ebool_lazy. Qed.
Print Assumptions C04_fragment_event_guard_protects.

Theorem C04_fragment_event_second_operand :
  forall (ev : event) (is_and : bool) (a b : ex) (x y : value) (t u : bool),
  de ev a = ROk x -> truth (conv "bool" x) = ROk t -> Bool.eqb t is_and = true ->
  de ev b = ROk y -> truth (conv "bool" y) = ROk u ->
  dex ev (EBool is_and a b) = ROk (VBool u).
Proof. exact ebool_second. Qed.
Print Assumptions C04_fragment_event_second_operand.

(* the conditional at event level (`e.C(b)[0].pt() if e.C(b).Count() > 0 else -1.0`): only the taken arm is evaluated *)
Theorem C04_fragment_event_conditional_lazy :
  forall (ev : event) (c a b : ex) (x y : value) (t : bool),
  de ev c = ROk x -> truth x = ROk t -> de ev (if t then a else b) = ROk y ->
  dex ev (EIf c a b) = rdv (conv "double" y).
Proof. exact eif_lazy. Qed.
Print Assumptions C04_fragment_event_conditional_lazy.

(* non-vacuity, on the emitted program itself: with no jets `Count() > 0 and [0].pt() > 5` writes the row (false); the
   unguarded index fails with out_of_range *)
Definition jets_g : collref := {| c_base := "jets"; c_ctype := "const xAOD::JetContainer*"; c_bank := "aj"; c_arrow := true |}.
Definition guard_q : ex :=
  EBool true (EBin OGt (ECount {| k_coll := jets_g; k_guard := GNone; k_agg := ACount |}) (EInt 0))
             (EBin OGt (EIdx jets_g 0 "pt") (EInt 5)).
Definition ev_nojets : event := {| ev_colls := [(("const xAOD::JetContainer*", "aj"), VVec [])]; ev_meths := [] |}.
Definition ev_onejet : event := {| ev_colls := [(("const xAOD::JetContainer*", "aj"), VVec [VObj 0])]; ev_meths := [((0, "pt"), VInt 9)] |}.
Definition atlas_g : FragTranslate.backend :=
  {| b_idiom := "atlas"; b_tree := "atlas_xaod_tree"; b_fill := "tree(""atlas_xaod_tree"")->Fill();" |}.
Example C04_event_guard_example :
  (exists ms, run_event (prog_row atlas_g [("ok", ColScalar guard_q)] 0) [("_ok5", ("bool", VUninit))] ev_nojets = ROk ([[VBool false]], ms)) /\
  (exists ms, run_event (prog_row atlas_g [("ok", ColScalar guard_q)] 0) [("_ok5", ("bool", VUninit))] ev_onejet = ROk ([[VBool true]], ms)) /\
  run_event (prog_row atlas_g [("ok", ColScalar (EBin OGt (EIdx jets_g 0 "pt") (EInt 5)))] 0) [("_ok1", ("bool", VUninit))] ev_nojets = RFault FOutOfRange.
Proof. vm_compute. repeat split; eexists; reflexivity. Qed.

Definition cond_q : ex :=
  EIf (EBin OGt (ECount {| k_coll := jets_g; k_guard := GNone; k_agg := ACount |}) (EInt 0)) (EIdx jets_g 0 "pt") (ENeg (EInt 1)).
Example C04_event_conditional_example :
  (exists ms, run_event (prog_row atlas_g [("pt0", ColScalar cond_q)] 0) [("_pt05", ("double", VUninit))] ev_nojets
              = ROk ([[VDbl (QArith_base.inject_Z (-1))]], ms)) /\
  (exists ms, run_event (prog_row atlas_g [("pt0", ColScalar cond_q)] 0) [("_pt05", ("double", VUninit))] ev_onejet
              = ROk ([[VDbl (QArith_base.inject_Z 9)]], ms)).
Proof. vm_compute. repeat split; eexists; reflexivity. Qed.

(* and / or in a Where of the fragment (lowered through a bool variable declared in the loop block, each further
   operand assigned inside `if (v)` / `if (!v)`): the guard of the reference semantics, which C01_query_job proves
   the emitted job implements for every query, is as lazy as Python's - the operands after the deciding one are
   not evaluated, whatever they would do - and with total operands it is all(...) / any(...). *)
Theorem C04_fragment_and_lazy :
  forall (ev : event) (v : value) (p : pred) (ps : list pred),
  dpred ev v p = ROk false -> gpasses ev v (GBool true p ps) = ROk false.
Proof. exact and_guard_lazy. Qed.
Print Assumptions C04_fragment_and_lazy.
Theorem C04_fragment_or_lazy :
  forall (ev : event) (v : value) (p : pred) (ps : list pred),
  dpred ev v p = ROk true -> gpasses ev v (GBool false p ps) = ROk true.
Proof. exact or_guard_lazy. Qed.
Print Assumptions C04_fragment_or_lazy.
Theorem C04_fragment_bool_guard_is_all_any :
  forall (ev : event) (v : value) (is_and : bool) (f : pred -> bool) (p : pred) (ps : list pred),
  (forall q, In q (p :: ps) -> dpred ev v q = ROk (f q)) ->
  gpasses ev v (GBool is_and p ps) = ROk (if is_and then forallb f (p :: ps) else existsb f (p :: ps)).
Proof. exact bool_guard_total. Qed.
Print Assumptions C04_fragment_bool_guard_is_all_any.

(* non-vacuity: `pt != 0 and 1/pt < 2` protects the division on a jet with pt = 0; the other operand order faults.
   Both through the emitted job (Count of the jets passing the guard). *)
From FV Require Import Model.FragQuery.
Definition jets4 : collref := {| c_base := "jets"; c_ctype := "const xAOD::JetContainer*"; c_bank := "aj"; c_arrow := true |}.
Definition p_nonzero : pred := {| p_neg := false; p_op := "!="; p_l := PMeth "pt"; p_r := PInt 0 |}.
Definition p_inv : pred := {| p_neg := false; p_op := "<"; p_l := PDiv (PInt 1) (PMeth "pt"); p_r := PInt 2 |}.
Definition q_guarded (first second : pred) : query :=
  {| q_filter := None;
     q_body := QRow [("n", ColScalar (ECount {| k_coll := jets4; k_guard := GBool true first [second]; k_agg := ACount |}))] |}.
Definition ev_zero : event :=
  {| ev_colls := [(("const xAOD::JetContainer*", "aj"), VVec [VObj 0; VObj 1])];
     ev_meths := [((0, "pt"), VDbl (QArith_base.inject_Z 0)); ((1, "pt"), VDbl (QArith_base.inject_Z 4))] |}.
Definition atlas4 : FragTranslate.backend :=
  {| b_idiom := "atlas"; b_tree := "atlas_xaod_tree"; b_fill := "tree(""atlas_xaod_tree"")->Fill();" |}.
Example C04_guard_protects :
  run_job (prog_q atlas4 (q_guarded p_nonzero p_inv) 1) [ev_zero] = JDone [[[VInt 1]]] /\
  run_job (prog_q atlas4 (q_guarded p_inv p_nonzero) 1) [ev_zero] = JAbort [] 0 FDivZero.
Proof. vm_compute. split; reflexivity. Qed.

(* a conditional evaluates only the arm its test selects (reference semantics of the fragment; the emitted job
   implements it for every query by C01_query_job) *)
Theorem C04_fragment_conditional_lazy :
  forall (ev : event) (v : value) (c : pred) (a b : pa) (t : bool),
  dpred ev v c = ROk t ->
  dnat ev v (BIf c a b) = rbind (if t then dpa ev v a else dpa ev v b)
                                (fun x => match conv "double" x with VUninit => RStuck (KUninit "conditional") | y => ROk y end).
Proof. exact cond_lazy. Qed.
Print Assumptions C04_fragment_conditional_lazy.

(* non-vacuity: `1/pt if pt != 0 else 0` as a vector column on an event holding a jet with pt = 0: the job writes
   [0, 1/4]; with the arms swapped into an unguarded division it aborts *)
Definition q_cond (body : bexp) : query :=
  {| q_filter := None; q_body := QRow [("v", ColVec jets4 GNone body)] |}.
Example C04_conditional_protects :
  run_job (prog_q atlas4 (q_cond (BIf p_nonzero (PDiv (PInt 1) (PMeth "pt")) (PInt 0))) 1) [ev_zero] =
    JDone [[[VVec [VDbl (QArith_base.inject_Z 0); VDbl (QArith_base.Qmake 1 4)]]]] /\
  run_job (prog_q atlas4 (q_cond (BPa (PDiv (PInt 1) (PMeth "pt")))) 1) [ev_zero] = JAbort [] 0 FDivZero.
Proof. vm_compute. split; reflexivity. Qed.

(* ---------- a known finding, inside the proven fragment: First() does not stop the loop ---------- *)
(* The translator has no `break`: the loop of a First() runs to its end, and what stands before the `if (is_first)` - the filters,
   and the conditionals of the body - is evaluated on the elements AFTER the first one too.  LINQ's First asks nothing of those
   elements.  Witness (known finding c04:first-keeps-filtering): two jets, the body `pt if 1/eta > 0 else 0`; the first jet's
   value is 7, the second jet has eta = 0 - the query denotes 7, the emitted job (and the fragment's reference semantics, which
   follows the emitted code) fails with a division by zero. *)
Definition fkf_body : bexp := BIf {| p_neg := false; p_op := ">"; p_l := PDiv (PInt 1) (PMeth "eta"); p_r := PInt 0 |} (PMeth "pt") (PInt 0).
Definition fkf_col : column := ColFirstB jets_g GNone fkf_body "throw std::runtime_error(""First() called on an empty sequence"");".
Definition fkf_ev : event :=
  {| ev_colls := [(("const xAOD::JetContainer*", "aj"), VVec [VObj 0; VObj 1])];
     ev_meths := [((0, "pt"), VDbl (QArith_base.inject_Z 7)); ((0, "eta"), VInt 1); ((1, "pt"), VDbl (QArith_base.inject_Z 9)); ((1, "eta"), VInt 0)] |}.
Theorem C04_fragment_first_is_lazy_refuted :
  dnat fkf_ev (VObj 0) fkf_body = ROk (VDbl (QArith_base.inject_Z 7)) /\
  dcol fkf_ev fkf_col = RFault FDivZero /\
  run_event (prog_row atlas_g [("c", fkf_col)] 0) [(mem_name "c" (0 + col_size fkf_col), ("double", VUninit))] fkf_ev = RFault FDivZero.
Proof. vm_compute. repeat split; reflexivity. Qed.
Print Assumptions C04_fragment_first_is_lazy_refuted.
