(* C03 - the output tree schema and the returned descriptor match the query's final shape.

   Three groups of theorems:
   (S) the schema lowering (Model/TreeSchema.v, hand model of get_as_ROOT / call_ResultTTree / get_ttree_type /
       unique_name / class_declaration_code / book_*_ttree.emit), for every backend, every terminal form, every
       column list and every value of the name counter;
   (F) the verified checker fill_consistent (Cpp/FillConsistent.v) over the semantics of Cpp/Exec.v, for every
       IR program, every event, every member state and every event sequence; the checker is run on the program
       the implementation emits for every generated query (tools/fv/props/c03.py);
   (O) the output-file constants regenerated from the runner / job-option / cfg templates (gen/OutFile.v). *)
From FV Require Import Base.Prelude Cpp.IR Cpp.Exec Cpp.FillConsistent Model.TreeSchema
  Proofs.TreeSchemaProofs Proofs.FillConsistentProofs gen.OutFile.

(* ---------- (S) schema ---------- *)

(* Whenever the end of a query is accepted: the booked branch names are exactly the names the final expression
   gives (dict keys | given names | col1 | col0..) in order; the tree is <prefix>_tree or the given one; the class
   variable of column k is "_" ++ name_k ++ decimal(index + k); every column is typed by get_ttree_type of its
   representation and declared as a class member `type var;`; the booking lines are the two header lines followed
   by one Branch line per column; the Fill line names the tree; the descriptor is ("ANALYSIS.root", tree). *)
Theorem C03_schema : forall b index t r s,
  translate_terminal b index t r = OK s ->
  map c_name (sc_columns s) = expected_names t r
  /\ sc_tree s = expected_tree b t
  /\ map c_var (sc_columns s) = vars_from (expected_names t r) index
  /\ Forall2 (fun c rep => get_ttree_type rep = OK (c_type c) /\ c_is_vec c = rep_is_collection rep)
             (sc_columns s) (final_columns t r)
  /\ sc_class_decl s = map (fun c => c_type c +++ " " +++ c_var c +++ ";") (sc_columns s)
  /\ sc_book s = firstn 2 (sc_book s) ++ map branch_line (sc_columns s)
  /\ sc_fill s = fill_emit b (expected_tree b t)
  /\ sc_descr s = (descriptor_file, expected_tree b t).
Proof. exact schema_spec. Qed.
Print Assumptions C03_schema.

(* a column / label count mismatch is an error (only an explicit name list can produce one) *)
Theorem C03_mismatch : forall b index names tree r,
  List.length (row_columns_explicit r) <> List.length (extract_column_names names) ->
  translate_terminal b index (TExplicit names tree) r = Error ErrRuntime.
Proof. exact schema_mismatch. Qed.
Print Assumptions C03_mismatch.

Theorem C03_accepted_counts_agree : forall b index t r s,
  translate_terminal b index t r = OK s ->
  List.length (final_columns t r) = List.length (expected_names t r).
Proof. exact schema_count. Qed.
Print Assumptions C03_accepted_counts_agree.

(* positional defaults are pairwise distinct names, for every width *)
Theorem C03_default_names_distinct : forall n, NoDup (default_names n).
Proof. exact default_names_NoDup. Qed.
Print Assumptions C03_default_names_distinct.

(* class variables pairwise distinct: proved for names that do not end in a decimal digit ... *)
Theorem C03_vars_distinct_partial : forall b index t r s,
  translate_terminal b index t r = OK s ->
  (forall n, In n (expected_names t r) -> last_digit n = false) ->
  NoDup (map c_var (sc_columns s)).
Proof. exact schema_vars_distinct. Qed.
Print Assumptions C03_vars_distinct_partial.

(* ... and for one name repeated (duplicated given names still get their own storage) ... *)
Theorem C03_vars_distinct_same_name : forall n k index, NoDup (vars_from (repeat n k) index).
Proof. exact vars_from_NoDup_same. Qed.
Print Assumptions C03_vars_distinct_same_name.

(* ... but false in general: name ++ index is not injective when one name extends another by digits
   ("a1" at index 2 and "a" at index 12 are both _a12).  Known finding c03:class-var-collision. *)
Theorem C03_vars_distinct_refuted : exists b index t r s,
  translate_terminal b index t r = OK s /\ NoDup (expected_names t r) /\ ~ NoDup (map c_var (sc_columns s)).
Proof. exact schema_vars_collide. Qed.
Print Assumptions C03_vars_distinct_refuted.

(* types: a value keeps its element type (or its declared tree_type), a sequence is a vector of it, a sequence of
   sequences a vector of vectors; a sequence of structures is refused; a structure column is refused *)
Theorem C03_types : forall ty t tr,
  get_ttree_type (KVal ty None) = OK ty
  /\ get_ttree_type (KVal ty (Some t)) = OK t
  /\ get_ttree_type (KSeq (KVal ty None)) = OK ("std::vector<" +++ ty +++ ">")
  /\ get_ttree_type (KSeq (KVal ty (Some t))) = OK ("std::vector<" +++ t +++ ">")
  /\ get_ttree_type (KSeq (KSeq (KVal ty tr))) = OK ("std::vector<std::vector<" +++ ty +++ ">>")
  /\ (forall top, get_ttree_type (KSeq (KStruct top)) = Error ErrRuntime)
  /\ (forall top, exists e, get_ttree_type (KStruct top) = Error e).
Proof.
  intros ty t tr.
  exact (conj (ttree_type_value ty) (conj (ttree_type_value_declared ty t) (conj (ttree_type_seq ty)
        (conj (ttree_type_seq_declared ty t) (conj (ttree_type_seq_seq ty tr)
        (conj ttree_type_nested_structure ttree_type_structure)))))).
Qed.
Print Assumptions C03_types.

(* no partially booked tree: every column of an accepted end has a tree type *)
Theorem C03_all_columns_typed : forall b index t r s,
  translate_terminal b index t r = OK s ->
  forall c, In c (final_columns t r) -> exists ty, get_ttree_type c = OK ty.
Proof. exact schema_untypable. Qed.
Print Assumptions C03_all_columns_typed.

(* ---------- (F) storage: what the per-event code sets is what Fill writes ---------- *)

(* one event: from any member state that respects the declared member types, every row written has exactly one
   entry per branch, entry i having the shape of the declared type of branch i's member, and the member state
   afterwards respects the types again *)
Theorem C03_fill_event : forall atlas p, fill_consistent_for atlas p = true ->
  forall ms ev rws ms',
  members_shaped p ms -> run_event p ms ev = ROk (rws, ms') ->
  Forall (row_shaped p) rws /\ members_shaped p ms'.
Proof. exact run_event_sound. Qed.
Print Assumptions C03_fill_event.

(* a whole job, any event sequence, starting from the freshly constructed analysis object *)
Theorem C03_fill_job : forall atlas p, fill_consistent_for atlas p = true ->
  forall evs, Forall (Forall (row_shaped p)) (job_rows (run_job p evs)).
Proof. exact run_job_sound. Qed.
Print Assumptions C03_fill_job.

Theorem C03_row_length : forall p r, row_shaped p r -> List.length r = List.length (p_branches p).
Proof. exact row_shaped_length. Qed.
Print Assumptions C03_row_length.

(* the invariant behind it, for every accepted statement list / block / statement at any depth: no local shadows a
   column variable, column members keep their shape, rows are well formed *)
Theorem C03_fill_invariant : forall cols brs,
  (forall b, In b brs -> exists t, col_type (br_var b) cols = Some t) ->
  forall atlas tree ev,
  (forall s st st', ok_stmt atlas tree cols s = true -> Inv cols brs st -> exec_stmt brs ev s st = ROk st' -> Inv cols brs st')
  /\ (forall b pre st st', ok_block atlas tree cols b = true -> frame_free cols pre -> Inv cols brs st ->
        exec_block brs ev b pre st = ROk st' -> Inv cols brs st')
  /\ (forall l st st', ok_stmts atlas tree cols l = true -> Inv cols brs st -> exec_stmts brs ev l st = ROk st' -> Inv cols brs st').
Proof. exact preservation. Qed.
Print Assumptions C03_fill_invariant.

(* under the invariant the row a Fill appends is, entry by entry, the current value of each branch's variable as
   the C++ scoping rules resolve it (lookup), i.e. the value last stored in it *)
Theorem C03_fill_reads_columns : forall cols brs,
  (forall b, In b brs -> exists t, col_type (br_var b) cols = Some t) ->
  forall st, Inv cols brs st ->
  fill_row brs st = map (fun b => match lookup (br_var b) st with Some (_, v) => v | None => VUninit end) brs.
Proof. exact fill_row_scoped. Qed.
Print Assumptions C03_fill_reads_columns.

(* right after a Fill has appended its row every vector column is empty, before any other statement runs *)
Theorem C03_fill_then_cleared : forall cols brs,
  (forall b, In b brs -> exists t, col_type (br_var b) cols = Some t) ->
  forall atlas tree ev line r st st2,
  NoDup (map fst cols) ->
  ok_stmts atlas tree cols (SCons (SFill line) r) = true -> Inv cols brs st ->
  exec_stmts brs ev (SCons (SFill line) r) st = ROk st2 ->
  exists r' st1,
    strip_clears (vec_cols cols) r = Some r'
    /\ rows st1 = rows st ++ [fill_row brs st]
    /\ (forall x, In x (vec_cols cols) -> cleared x st1)
    /\ Inv cols brs st1
    /\ exec_stmts brs ev r' st1 = ROk st2.
Proof. exact fill_then_cleared. Qed.
Print Assumptions C03_fill_then_cleared.

(* shapes spelled out: an int member never holds a double or a bool, ..., a vector member always holds a vector *)
Theorem C03_shapes :
  (forall v, shape "int" v = true -> forall q b, v <> VDbl q /\ v <> VBool b)
  /\ (forall v, shape "double" v = true -> forall z b, v <> VInt z /\ v <> VBool b)
  /\ (forall v, shape "bool" v = true -> forall z q, v <> VInt z /\ v <> VDbl q)
  /\ (forall t v, is_vector_type t = true -> shape t v = true ->
        exists l, v = VVec l /\ forallb (scalar_shape (vector_elem_type t)) l = true).
Proof. exact (conj shape_int (conj shape_double (conj shape_bool shape_vector))). Qed.
Print Assumptions C03_shapes.

(* ---------- (O) the file the descriptor names is the file the job delivers ---------- *)
Theorem C03_file_is_written :
  descriptor_literal = descriptor_file
  /\ atlas_delivers atlas_outfile = Some descriptor_file
  /\ cms_delivers cms_aod_outfile = Some descriptor_file
  /\ cms_delivers cms_miniaod_outfile = Some descriptor_file.
Proof. vm_compute. repeat split; reflexivity. Qed.
Print Assumptions C03_file_is_written.

(* ---------- non-vacuity ---------- *)
Example C03_ex_dict :
  option_map (fun s => (sc_book s, sc_class_decl s, sc_descr s))
    (match translate_terminal BeAtlas 34 TImplicit
             (RDict [("a", KVal "int" None); ("b", KSeq (KVal "double" None))]) with OK s => Some s | Error _ => None end)
  = Some (["ANA_CHECK (book (TTree (""atlas_xaod_tree"", ""My analysis ntuple"")));";
           "auto myTree = tree (""atlas_xaod_tree"");";
           "myTree->Branch(""a"", &_a34);"; "myTree->Branch(""b"", &_b35);"],
          ["int _a34;"; "std::vector<double> _b35;"], ("ANALYSIS.root", "atlas_xaod_tree")).
Proof. vm_compute. reflexivity. Qed.

Example C03_ex_mismatch :
  translate_terminal BeCmsAod 0 (TExplicit (NStr "xy") "t") (RTuple [KVal "int" None; KVal "double" None])
  = Error ErrRuntime.
Proof. vm_compute. reflexivity. Qed.

Example C03_ex_checker_accepts :
  fill_consistent_for true
    {| p_members := [{| m_type := "int"; m_name := "_a1" |}; {| m_type := "std::vector<double>"; m_name := "_b2" |}];
       p_tree := "t"; p_branches := [{| br_name := "a"; br_var := "_a1" |}; {| br_name := "b"; br_var := "_b2" |}];
       p_book_extra := [];
       p_body := Blk [] (SCons (SSet "_a1" None (CInt 1)) (SCons (SPush "_b2" None (CInt 2))
                 (SCons (SFill "tree(""t"")->Fill();") (SCons (SClear "_b2") SNil)))) |} = true.
Proof. vm_compute. reflexivity. Qed.

Example C03_ex_checker_rejects_missing_clear :
  fill_consistent_for true
    {| p_members := [{| m_type := "std::vector<double>"; m_name := "_b2" |}];
       p_tree := "t"; p_branches := [{| br_name := "b"; br_var := "_b2" |}];
       p_book_extra := [];
       p_body := Blk [] (SCons (SPush "_b2" None (CInt 2)) (SCons (SFill "tree(""t"")->Fill();") SNil)) |} = false.
Proof. vm_compute. reflexivity. Qed.

(* ---------- for ALL queries of fragment F1 (Model/FragQuery.v, text-identical to the implementation) ---------- *)
(* The tree the emitted job books has exactly the columns of the query's final expression, in order (dict keys /
   given names / positional defaults are the names the harness passes, compared with the implementation's on every
   run), each of the column's type - scalar columns the type of the expression, vector columns std::vector of the
   element type - and each bound to its own class member; that those members are exactly what the per-event code
   sets and fills is C01_query_job. *)
From FV Require Import Model.FragTranslate Model.FragQuery Proofs.FragQueryProofs.
Theorem C03_fragment_schema :
  forall (bk : FragTranslate.backend) (q : query) (n0 : nat),
  let p := prog_q bk q n0 in
  map br_name (p_branches p) = bnames (q_body q) /\
  map m_type (p_members p) = btypes (q_body q) /\
  map br_var (p_branches p) = map m_name (p_members p) /\
  map m_name (p_members p) = bmems (q_body q) (body_start q n0) /\
  p_tree p = b_tree bk.
Proof. exact frag_schema. Qed.
Print Assumptions C03_fragment_schema.
