(* C05 - Rows for an event depend on that event only.
   Subject: the per-event code the translator emits, parsed into Cpp/IR.v (the harness re-prints it and
   compares with the emitted text), executed by Cpp/Exec.v (run_job threads the class members from one
   event to the next exactly as the C++ analysis object does).
   `event_local` (Cpp/EventLocal.v) is a static analysis of ONE program; the theorems below hold for every
   program it accepts, for ALL events, ALL member states left by earlier events and ALL event lists.
   Which programs the translator emits is sampled (tools/fv/props/c05.py runs the extracted checker on the
   program emitted for every generated query, all three backends).
   Only statements, `exact`, Print Assumptions and non-vacuity examples live here. *)
From FV Require Import Base.Prelude Cpp.IR Cpp.Exec Cpp.EventLocal Proofs.EventLocalProofs.
From Coq Require Import Permutation.

(* One event, two histories: whatever the members hold when the event starts (declared names and types,
   vector members empty, scalars ARBITRARY - i.e. anything an earlier event may have left), the event
   writes the same rows, or raises the same fault, or is stuck on the same undefined construct; and it
   leaves the vector members empty again, so the next event starts from such a state too. *)
Theorem event_local_sound : forall p, event_local p = true ->
  forall ev ms1 ms2, clean_members p ms1 -> clean_members p ms2 ->
  match run_event p ms1 ev, run_event p ms2 ev with
  | ROk (rs1, ms1'), ROk (rs2, ms2') => rs1 = rs2 /\ clean_members p ms1' /\ clean_members p ms2'
  | RFault f1, RFault f2 => f1 = f2
  | RStuck k1, RStuck k2 => k1 = k2
  | _, _ => False
  end.
Proof. exact event_local_sound_proof. Qed.
Print Assumptions event_local_sound.

(* A job over any event list is, outcome for outcome (rows, aborting event and fault, stuck event), the
   job in which every event gets a fresh analysis object. *)
Theorem C05_job_per_event : forall p, event_local p = true ->
  forall evs, run_job p evs = per_event_job p evs.
Proof. exact job_per_event_proof. Qed.
Print Assumptions C05_job_per_event.

(* The rows for event k are the rows of the one-event job on event k, whatever preceded it (including
   events that wrote no row because a Where rejected them). *)
Theorem C05_rows_per_event : forall p, event_local p = true ->
  forall evs rss, run_job p evs = JDone rss ->
  rss = map (event_rows p) evs /\ Forall (fun ev => run_job p [ev] = JDone [event_rows p ev]) evs.
Proof. exact rows_per_event_proof. Qed.
Print Assumptions C05_rows_per_event.

(* A job that aborts: the rows before the aborting event are the per-event rows, and the aborting event
   fails in the same way on its own. *)
Theorem C05_abort_prefix : forall p, event_local p = true ->
  forall evs rss k f, run_job p evs = JAbort rss k f ->
  exists pre ev post, evs = pre ++ ev :: post /\ k = List.length pre /\
                      rss = map (event_rows p) pre /\
                      Forall (fun ev => run_job p [ev] = JDone [event_rows p ev]) pre /\
                      run_job p [ev] = JAbort [] 0 f.
Proof. exact abort_prefix_proof. Qed.
Print Assumptions C05_abort_prefix.

(* Any order: the same multiset of per-event row lists (when no event faults). *)
Theorem C05_permutation : forall p, event_local p = true ->
  forall evs evs' rss, Permutation evs evs' -> run_job p evs = JDone rss ->
  exists rss', run_job p evs' = JDone rss' /\ Permutation rss rss'.
Proof. exact permutation_proof. Qed.
Print Assumptions C05_permutation.

(* Split across jobs: one job over evs1 ++ evs2 is the two jobs, concatenated. *)
Theorem C05_split : forall p, event_local p = true ->
  forall evs1 evs2 rss,
  run_job p (evs1 ++ evs2) = JDone rss <->
  exists rss1 rss2, run_job p evs1 = JDone rss1 /\ run_job p evs2 = JDone rss2 /\ rss = rss1 ++ rss2.
Proof. exact split_proof. Qed.
Print Assumptions C05_split.

(* ---------- non-vacuity ---------- *)
(* a realistic program (vector column + block-local accumulator, as emitted) is accepted and writes rows *)
Example C05_example_accepted : event_local ex_good = true.
Proof. exact ex_good_accepted. Qed.
Example C05_example_rows :
  run_job ex_good [ev_two; ev_none; ev_two] =
  JDone [ [[VVec [VDbl (qz 30); VDbl (qz 5)]; VDbl (qz 35)]];
          [[VVec []; VDbl (qz 0)]];
          [[VVec [VDbl (qz 30); VDbl (qz 5)]; VDbl (qz 35)]] ].
Proof. exact ex_good_rows. Qed.

(* the checker is not vacuous: it rejects a missing clear and a column assigned only inside a loop, and
   for both rejected programs a two-event job differs from the per-event rows *)
Example C05_missing_clear_rejected : event_local ex_missing_clear = false.
Proof. exact ex_missing_clear_rejected. Qed.
Theorem C05_missing_clear_refuted :
  exists evs rss, run_job ex_missing_clear evs = JDone rss /\ rss <> map (event_rows ex_missing_clear) evs.
Proof. exact ex_missing_clear_witness. Qed.
Print Assumptions C05_missing_clear_refuted.

Example C05_scalar_in_loop_rejected : event_local ex_scalar_in_loop = false.
Proof. exact ex_scalar_in_loop_rejected. Qed.
Theorem C05_scalar_in_loop_refuted :
  exists evs rss, run_job ex_scalar_in_loop evs = JDone rss /\ rss <> map (event_rows ex_scalar_in_loop) evs.
Proof. exact ex_scalar_in_loop_witness. Qed.
Print Assumptions C05_scalar_in_loop_refuted.

(* the First lowering (column assigned under a block-local flag, throw when the flag is still true) is
   accepted: the analysis is precise enough for the translator's conditional assignments *)
Example C05_first_accepted : event_local ex_first = true.
Proof. exact ex_first_accepted. Qed.
Example C05_first_rows :
  run_job ex_first [ev_two; ev_two] = JDone [ [[VDbl (qz 30)]]; [[VDbl (qz 30)]] ] /\
  run_job ex_first [ev_two; ev_none; ev_two] = JAbort [ [[VDbl (qz 30)]] ] 1 FThrow.
Proof. exact ex_first_rows. Qed.

(* known finding (DESIGN section 8 row 10): a terminal over a sequence produced inside an outer loop.  The
   emitted program is rejected, and it does carry a value over: after an event with jets, an event without
   jets repeats the previous event's value, while on its own it writes an unset column. *)
Example C05_sum_after_selectmany_rejected : event_local ex_sum_after_selectmany = false.
Proof. exact ex_sum_after_selectmany_rejected. Qed.
Theorem C05_sum_after_selectmany_refuted :
  run_job ex_sum_after_selectmany [ev_vals; ev_none] = JDone [ [[VDbl (qz 7)]]; [[VDbl (qz 7)]] ] /\
  run_job ex_sum_after_selectmany [ev_none] = JDone [ [[VUninit]] ].
Proof. exact ex_sum_after_selectmany_witness. Qed.
Print Assumptions C05_sum_after_selectmany_refuted.

(* ---------- for ALL queries of fragment F1 (not only per checked program) ---------- *)
(* Model/FragQuery.v: ds[.Where(cond)].Select(ROW) | ds[.Where(cond)].SelectMany(coll[.Where(p)].Select(PROW)).
   For every such query, every first index and every list of events on which the query is defined, the job the
   fragment translator emits (text-identical to the implementation's, checked on every run by C01) writes for
   each event exactly the rows that event denotes on its own - whatever preceded it -, in any order the same
   multiset of per-event row lists, and split across jobs the concatenation. *)
From FV Require Import Model.FragTranslate Model.FragQuery Proofs.FragQueryProofs.

Theorem C05_fragment_rows_per_event :
  forall (bk : FragTranslate.backend) (q : query) (n0 : nat) (evs : list event),
  query_ok q = true -> NoDup (bmems (q_body q) (body_start q n0)) ->
  (forall ev, In ev evs -> qdefined q ev) ->
  run_job (prog_q bk q n0) evs = JDone (map (qrows q) evs).
Proof. exact frag_job_rows. Qed.
Print Assumptions C05_fragment_rows_per_event.

Theorem C05_fragment_permutation :
  forall (bk : FragTranslate.backend) (q : query) (n0 : nat) (evs evs' : list event),
  query_ok q = true -> NoDup (bmems (q_body q) (body_start q n0)) ->
  (forall ev, In ev evs -> qdefined q ev) -> Permutation evs evs' ->
  exists rss rss', run_job (prog_q bk q n0) evs = JDone rss /\ run_job (prog_q bk q n0) evs' = JDone rss' /\
                   Permutation rss rss'.
Proof. exact frag_job_permutation. Qed.
Print Assumptions C05_fragment_permutation.

Theorem C05_fragment_split :
  forall (bk : FragTranslate.backend) (q : query) (n0 : nat) (evs1 evs2 : list event),
  query_ok q = true -> NoDup (bmems (q_body q) (body_start q n0)) ->
  (forall ev, In ev (evs1 ++ evs2) -> qdefined q ev) ->
  exists r1 r2, run_job (prog_q bk q n0) evs1 = JDone r1 /\ run_job (prog_q bk q n0) evs2 = JDone r2 /\
                run_job (prog_q bk q n0) (evs1 ++ evs2) = JDone (r1 ++ r2).
Proof. exact frag_job_split. Qed.
Print Assumptions C05_fragment_split.
