(* C11 - Injected C++ functions are applied hygienically at every call site.
   Only statements, `exact`, and Print Assumptions live here.
   Model: Model/WordSubst.v (cpp_ast.py after the one-pass fix; the unfixed loop is kept as seq_subst). *)
From FV Require Import Base.Prelude Model.WordSubst Proofs.WordSubstProofs.

(* The substitution of the code (Python re.sub with \b(?:n1|...|nk)\b and a function replacement, names
   de-duplicated first-wins) is the specification: split the line into maximal word / non-word runs,
   replace every run that is exactly a formal name by its argument text, leave every other run alone,
   concatenate.  All names at once; argument text is never searched again and never interpreted. *)
Theorem subst_is_simultaneous : forall rl line,
  Forall (fun kv => ident (fst kv) = true) rl -> impl_subst rl line = spec_subst rl line.
Proof. exact impl_subst_is_spec. Qed.
Print Assumptions subst_is_simultaneous.

(* What "maximal runs" means: the tokens concatenate to the line, each is a non-empty run of word
   characters or of non-word characters, and neighbours are of different kinds. *)
Theorem C11_tokens_are_maximal_runs : forall s,
  concat_str (tokenise s) = s /\
  Forall (fun t => t <> EmptyString /\ homog (head_word t) t = true) (tokenise s) /\
  alternating (tokenise s).
Proof. exact tokens_are_maximal_runs. Qed.
Print Assumptions C11_tokens_are_maximal_runs.

(* whole words only (xpt, pt_2 are tokens of their own), replaced text verbatim and not re-scanned *)
Theorem C11_tokenwise : forall rl line,
  Forall (fun kv => ident (fst kv) = true) rl ->
  exists outs, impl_subst rl line = concat_str outs /\
    Forall2 (fun t o => match assoc t rl with Some d => o = d | None => o = t end) (tokenise line) outs.
Proof. exact subst_tokenwise. Qed.
Print Assumptions C11_tokenwise.

(* text without a formal name is unaltered character for character *)
Theorem C11_other_text_unaltered : forall rl line,
  Forall (fun kv => ident (fst kv) = true) rl ->
  (forall t, In t (tokenise line) -> assoc t rl = None) -> impl_subst rl line = line.
Proof. exact subst_untouched. Qed.
Print Assumptions C11_other_text_unaltered.

(* A call site that passes build_CPPCodeValue: every parameter bound, method object bound to the
   receiver, each code line substituted per the specification inside its own block that ends in
   `result_var = result;`, the result variable of the declared (value or collection) type declared
   in the enclosing scope before the block, returned, the includes added. *)
Theorem C11_call_site : forall sp style recv reps n incs libs cv,
  build_value sp style (List.length reps) = OK cv ->
  Forall (fun p => ident p = true) (sp_args sp) ->
  (forall mo, sp_method_obj sp = Some mo -> ident mo = true) ->
  exists e, process_node cv recv reps n incs libs = OK e /\
    let rvar := unique_name (sp_name sp) n in
    let rtype := result_type_str (sp_rtype sp) (sp_is_coll sp) in
    List.length (sp_args sp) = List.length reps /\
    em_block e = map (fun l => arbitrary_statement (spec_subst (binding sp style recv reps) l)) (sp_code sp)
                 ++ [rvar +++ " = " +++ sp_result sp +++ ";"] /\
    em_decl e = (rtype, rvar) /\ em_result e = rvar /\ em_counter e = S n /\
    render_call e = ["{"; rtype +++ " " +++ rvar +++ ";"; "{"] ++ em_block e ++ ["}"; "}"] /\
    (forall i, In i (em_includes e) <-> In i (sp_includes sp) \/ In i incs) /\
    (exists more, em_includes e = incs ++ more) /\ em_libs e = libs.
Proof. exact call_site_correct. Qed.
Print Assumptions C11_call_site.

(* Wrong arity or wrong call style is rejected with ValueError, and nothing else is. *)
Theorem C11_rejects : forall sp style n e,
  build_value sp style n = Error e -> e = ErrValue /\ ~ (arity_ok sp n /\ style_ok sp style).
Proof. exact build_value_rejects. Qed.
Print Assumptions C11_rejects.

Theorem C11_accepts : forall sp style n,
  arity_ok sp n -> style_ok sp style -> exists cv, build_value sp style n = OK cv.
Proof. exact build_value_accepts. Qed.
Print Assumptions C11_accepts.

(* Freshness of the result variable: two calls of one function never share it (the counter only grows)... *)
Theorem C11_result_var_fresh_partial : forall base n1 n2, unique_name base n1 = unique_name base n2 -> n1 = n2.
Proof. exact unique_name_fresh. Qed.
Print Assumptions C11_result_var_fresh_partial.

(* ... but freshness across *different* functions is false of the code: name + counter without a
   separator (known finding c11:result-var-collision): F12 at counter 1 and F1 at counter 21. *)
Theorem C11_result_var_fresh_refuted : exists b1 b2 n1 n2,
  b1 <> b2 /\ n1 <> n2 /\ unique_name b1 n1 = unique_name b2 n2.
Proof. exact unique_name_collision. Qed.
Print Assumptions C11_result_var_fresh_refuted.

(* The unfixed loop (one re.sub per name, argument text as template) does not have the property:
   distinct identifier names, no backslash anywhere, yet the output differs from the specification. *)
Theorem C11_sequential_refuted : exists rl line,
  NoDup (map fst rl) /\ Forall (fun kv => ident (fst kv) = true) rl /\
  (forall d, In d (map snd rl) -> no_backslash d = true) /\
  exists out, seq_subst rl line = OK out /\ out <> spec_subst rl line.
Proof. exact sequential_refuted. Qed.
Print Assumptions C11_sequential_refuted.

(* ... and with a single name, a backslash in the argument text is interpreted or raises re.error. *)
Theorem C11_template_refuted :
  (exists p d line out, ident p = true /\ seq_subst [(p, d)] line = OK out /\ out <> spec_subst [(p, d)] line) /\
  (exists p d line, ident p = true /\ seq_subst [(p, d)] line = Error re_error).
Proof. exact template_refuted. Qed.
Print Assumptions C11_template_refuted.

(* what the unfixed loop does get right: one name, no backslash *)
Theorem C11_sequential_single_ok : forall p d line, ident p = true -> no_backslash d = true ->
  seq_subst [(p, d)] line = OK (spec_subst [(p, d)] line).
Proof. exact seq_subst_single. Qed.
Print Assumptions C11_sequential_single_ok.

(* non-vacuity *)
Example C11_swap :
  impl_subst [("pt", "i_obj->eta()"); ("eta", "i_obj->pt()")] "auto xpt = pt + pt_2; auto result = xpt*eta;"
  = "auto xpt = i_obj->eta() + pt_2; auto result = xpt*i_obj->pt();".
Proof. vm_compute. reflexivity. Qed.

Example C11_swap_sequential :
  seq_subst [("pt", "i_obj->eta()"); ("eta", "i_obj->pt()")] "auto result = pt*eta;"
  = OK "auto result = i_obj->i_obj->pt()()*i_obj->pt();".
Proof. vm_compute. reflexivity. Qed.

Example C11_backslash_verbatim :
  impl_subst [("path", """C:\data\g<0>""")] "open(path);" = "open(""C:\data\g<0>"");".
Proof. vm_compute. reflexivity. Qed.

Example C11_method_call :
  match build_value {| sp_name := "getAttributeFloat"; sp_includes := ["vector"]; sp_args := ["moment_name"];
                       sp_code := ["auto result = obj_j->getAttribute<float>(moment_name);"]; sp_result := "result";
                       sp_rtype := {| ct_name := "float"; ct_pdepth := 0; ct_const := false |};
                       sp_is_coll := false; sp_method_obj := Some "obj_j" |} (StyleMethod "j") 1 with
  | OK cv => option_map render_call (match process_node cv "i_obj2" ["""emf"""] 3 [] [] with OK e => Some e | Error _ => None end)
  | Error _ => None
  end = Some ["{"; "float getAttributeFloat3;"; "{"; "auto result = i_obj2->getAttribute<float>(""emf"");";
              "getAttributeFloat3 = result;"; "}"; "}"].
Proof. vm_compute. reflexivity. Qed.

Example C11_wrong_style :
  build_value {| sp_name := "f"; sp_includes := []; sp_args := ["x"]; sp_code := []; sp_result := "result";
                 sp_rtype := {| ct_name := "double"; ct_pdepth := 0; ct_const := false |};
                 sp_is_coll := false; sp_method_obj := None |} (StyleMethod "j") 1 = Error ErrValue.
Proof. vm_compute. reflexivity. Qed.
