(* C02 - every accepted query yields a complete, self-consistent, compilable package.
   What is proved here (over ALL IR programs, all events, all member states, all event sequences):
   the static checkers of Cpp/Static.v are sound for the execution semantics Cpp/Exec.v.
   What ties them to the current translator: the extracted checkers are run on the program parsed from
   what the implementation emits for every generated query (tools/fv/props/c02.py) - that part is sampled.
   Package completeness (files, mode bits, residual template directives) is a runtime fact: tested there. *)
From FV Require Import Base.Prelude Cpp.IR Cpp.Exec Cpp.Static Proofs.StaticProofs.

(* declared in a scope that encloses all uses, before the first read: no event can get stuck on an unbound name *)
Theorem well_scoped_sound : forall p, well_scoped p = true ->
  forall ev ms, binds_members p ms -> forall x, run_event p ms ev <> RStuck (KUnbound x).
Proof. exact well_scoped_sound_lemma. Qed.
Print Assumptions well_scoped_sound.

(* the member-state hypothesis propagates from event to event *)
Theorem well_scoped_members_preserved : forall p, well_scoped p = true ->
  forall ev ms rs ms', binds_members p ms -> run_event p ms ev = ROk (rs, ms') -> binds_members p ms'.
Proof. exact well_scoped_members_preserved_lemma. Qed.
Print Assumptions well_scoped_members_preserved.

(* hence for whole jobs of any length *)
Theorem well_scoped_job : forall p, well_scoped p = true ->
  forall evs m x, run_job p evs <> JStuck m (KUnbound x).
Proof. exact well_scoped_job_lemma. Qed.
Print Assumptions well_scoped_job.

(* declared exactly once: at every position of the program, the static scope holds each name once ... *)
Theorem unique_decls_no_shadow_static : forall p, unique_decls p = true ->
  forall G f, reaches [] (FB [] (p_body p)) G f ->
  forall x tc, In (x, tc) (List.concat G ++ member_env p) -> slookup x G (member_env p) = Some tc.
Proof. exact unique_decls_no_shadow_static_lemma. Qed.
Print Assumptions unique_decls_no_shadow_static.

(* ... and in every state whose frames carry the names of that scope (the invariant execution maintains),
   every binding present in any frame or among the members is the one lookup returns: nothing is shadowed *)
Theorem unique_decls_no_shadow : forall p, unique_decls p = true ->
  forall G f, reaches [] (FB [] (p_body p)) G f ->
  forall st, R rel_n G (member_env p) st ->
  forall x tv, In (x, tv) (List.concat (frames st) ++ members st) -> lookup x st = Some tv.
Proof. exact unique_decls_no_shadow_lemma. Qed.
Print Assumptions unique_decls_no_shadow.

(* the positions `reaches` enumerates are the ones the scope checker visits, with that scope *)
Theorem scope_checker_visits : forall D M G f G' f', reaches G f G' f' ->
  sc_focus D G M f = [] -> sc_focus D G' M f' = [].
Proof. exact reaches_scoped. Qed.
Print Assumptions scope_checker_visits.

(* type consistency: covers exactly three ill-typed operations of Exec -
   KType "push_back on non-vector x", KType "clear on non-vector x", KType "% with a floating operand ..." *)
Theorem types_ok_sound : forall mt p, types_ok mt p = true ->
  forall ev ms, members_typed p ms -> ev_ok mt ev ->
  forall k, run_event p ms ev = RStuck k -> covered k = false.
Proof. exact types_ok_sound_lemma. Qed.
Print Assumptions types_ok_sound.

Theorem types_ok_job : forall mt p, types_ok mt p = true ->
  forall evs, Forall (ev_ok mt) evs -> forall m k, run_job p evs = JStuck m k -> covered k = false.
Proof. exact types_ok_job_lemma. Qed.
Print Assumptions types_ok_job.

(* the checkers' emptiness tests are what the names say *)
Theorem unique_decls_NoDup : forall l, dups l = [] <-> NoDup l.
Proof. exact dups_nil_NoDup. Qed.
Print Assumptions unique_decls_NoDup.

(* ---------- non-vacuity and refutation witnesses (by computation) ---------- *)
Example C02_good_program_accepted_and_runs :
  well_scoped p_good = true /\ unique_decls p_good = true /\ types_ok [] p_good = true /\
  run_event p_good (initial_members (p_members p_good)) ev0
    = ROk ([[VInt 2; VVec [VInt 2]]] , [("_a", ("int", VInt 2)); ("_b", ("std::vector<int>", VVec []))]).
Proof. exact good_lemma. Qed.

(* a variable used outside the block that declares it: rejected, and really stuck *)
Example C02_scope_refuted :
  well_scoped p_out_of_block = false /\ unique_decls p_out_of_block = true /\
  run_event p_out_of_block (initial_members (p_members p_out_of_block)) ev0 = RStuck (KUnbound "aggResult3").
Proof. exact scope_refuted_lemma. Qed.

Example C02_read_before_declaration_refuted :
  well_scoped p_read_before_decl = false /\ run_event p_read_before_decl [] ev0 = RStuck (KUnbound "b2").
Proof. exact read_before_decl_refuted_lemma. Qed.

(* a member declared twice: rejected, and the second declaration is unreachable by lookup *)
Example C02_unique_refuted :
  unique_decls p_dup_member = false /\ dup_errs p_dup_member = ["token0"] /\
  let st := {| frames := []; members := initial_members (p_members p_dup_member); rows := [] |} in
  In ("token0", ("edm::EDGetTokenT<B>", VUninit)) (members st) /\
  lookup "token0" st = Some ("edm::EDGetTokenT<A>", VUninit).
Proof. exact unique_refuted_lemma. Qed.

Example C02_types_refuted :
  types_ok [] p_mod_double = false /\ well_scoped p_mod_double = true /\
  run_event p_mod_double (initial_members (p_members p_mod_double)) ev0
    = RStuck (KType "% with a floating operand is ill-formed C++") /\
  types_ok [] p_push_scalar = false /\
  run_event p_push_scalar (initial_members (p_members p_push_scalar)) ev0
    = RStuck (KType "push_back on non-vector _a").
Proof. exact types_refuted_lemma. Qed.

(* ---------- block scoping is a property of the semantics ---------- *)
(* For EVERY program of the IR, every event and every state: a statement, a block or a statement list that terminates
   normally leaves the stack of frames with exactly the names it had - declarations go into the frame a block opens for
   itself and that frame is gone when the block ends; assignments, push_back, clear, retrievals and Fill replace values in
   place.  So what well_scoped rejects (a use outside the declaring block) really is a use of a name that no longer
   exists, whatever ran in between. *)
From FV Require Import Proofs.FrameShape.
Theorem C02_execution_keeps_declared_names : forall (brs : list branch) (ev : event),
  (forall s st st', exec_stmt brs ev s st = ROk st' -> shape st' = shape st) /\
  (forall b pre st st', exec_block brs ev b pre st = ROk st' -> shape st' = shape st) /\
  (forall l st st', exec_stmts brs ev l st = ROk st' -> shape st' = shape st).
Proof. exact exec_shape. Qed.
Print Assumptions C02_execution_keeps_declared_names.

(* ---------- vector element types: a syntactic C++ rule, not a theorem about Exec ---------- *)
(* std::vector has no conversion between different element types, so a cast of a declared vector to another vector
   type, or a push_back of a declared vector into a vector whose element type is a different text, does not compile.
   These two rules are reported under types_ok by c02.check; what they accept is characterised here, and g++ is the
   oracle they are compared with in the thorough tier. *)
Theorem C02_vector_push_accepts_only_element_type : forall G M x y tx ty,
  vt_push G M x (CVar y) = [] -> var_vtype G M x = Some tx -> var_vtype G M y = Some ty ->
  vec_elem tx = Some ty.
Proof. exact vt_push_spec_lemma. Qed.
Print Assumptions C02_vector_push_accepts_only_element_type.

Theorem C02_vector_cast_accepts_only_same_type : forall G M ty y t,
  vt_cast G M ty (CVar y) = [] -> var_vtype G M y = Some t -> is_vector_type (nospace ty) = true -> nospace ty = t.
Proof. exact vt_cast_spec_lemma. Qed.
Print Assumptions C02_vector_cast_accepts_only_same_type.

Example C02_vector_types_examples :
  vtypes_ok p_vec2d_good = true /\ types_ok [] p_vec2d_good = true /\
  vtype_errs p_vec2d_cast = ["vector-cast:ntuple5"] /\ types_ok [] p_vec2d_cast = true /\
  vtype_errs p_vec2d_push = ["push-element-type:_col13"].
Proof. exact vtypes_examples_lemma. Qed.

(* ---------- for ALL queries of fragment F1 ---------- *)
(* The program the fragment translator emits for ANY query of F1 (Model/FragQuery.v; text-identical to the
   implementation's on every generated fragment query, checked by C01 on every run) never reads an unbound or
   uninitialised name and never applies an ill-typed operation: on every event on which the query has a value
   or is undefined, and from every member state of the analysis object's invariant, the event terminates with
   rows or with a fault - it is never stuck. *)
From FV Require Import Model.FragTranslate Model.FragQuery Proofs.FragProofs Proofs.FragQueryProofs.
Theorem C02_fragment_never_stuck :
  forall (bk : FragTranslate.backend) (q : query) (n0 : nat) (ev : event) (ms : frame),
  query_ok q = true -> NoDup (bmems (q_body q) (body_start q n0)) -> binit (q_body q) (body_start q n0) ms ->
  nstuck (dquery ev q) -> nstuck (run_event (prog_q bk q n0) ms ev).
Proof. exact frag_never_stuck. Qed.
Print Assumptions C02_fragment_never_stuck.

(* ---------- the rendered files: brackets outside comments and literals nest ---------- *)
(* Every rendered C++ file of every generated package is scanned by Balance.scan (comments, string and character literals are
   skipped) and its brackets are checked with a stack.  The stack check accepts exactly the words of the bracket grammar
   D ::= empty | open_k D close_k D, for every list of brackets - so a file the check accepts has properly nested ( ) [ ] { },
   whatever inject_code blocks, query code and names went into it. *)
From FV Require Import Model.Balance Proofs.BalanceProofs.
Theorem C02_stack_check_is_the_bracket_grammar : forall l : list br, balanced l = true <-> D l.
Proof. exact balanced_iff_D. Qed.
Print Assumptions C02_stack_check_is_the_bracket_grammar.
Theorem C02_accepted_text_is_well_nested : forall s : string, text_balanced s = Some true -> exists l, scan (Code false) s = Some l /\ D l.
Proof. exact text_balanced_sound. Qed.
Print Assumptions C02_accepted_text_is_well_nested.
Example C02_balance_examples :
  text_balanced "f(a[1]) { if (x) { g(""}""); } /* ) */ } // (" = Some true /\
  text_balanced "f(a) { if (x) { }" = Some false /\
  text_balanced "f(a]) " = Some false /\
  text_balanced "s = ""abc" = None.
Proof. vm_compute. repeat split; reflexivity. Qed.
