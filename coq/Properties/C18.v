(* C18 - Constants in a query denote the same value in the generated code.
   Only statements, `exact`, and Print Assumptions live here.
   render      = model of query_ast_visitor.visit_Constant (text, declared C++ type)
   lex         = the value of a C++ literal (Model/CppLex.v), None when the text is not one literal
   literal_at  = the literal standing directly after a fixed piece of a generated line, and what follows *)
From FV Require Import Base.Prelude Model.CppLex Model.Consts Proofs.ConstsProofs.

(* ---- strings: every byte string comes back character for character, in any context ---- *)
Theorem C18_str : forall s : string,
  render (CStr s) = OK (cpp_string_literal s, TString) /\ lex (cpp_string_literal s) = Some (LStr s).
Proof. exact render_str_ok. Qed.
Print Assumptions C18_str.

(* ... and whatever text follows the literal is left for the next token *)
Theorem C18_str_in_context : forall s rest : string,
  lex_prefix (cpp_string_literal s +++ rest) = Some (LStr s, rest).
Proof. exact lex_prefix_string_literal. Qed.
Print Assumptions C18_str_in_context.

(* ---- integers ---- *)
(* every integer with a C++ type is emitted as a literal of exactly that value, declared int ... *)
Theorem C18_int : forall z : Z, (Z.abs z <= 9223372036854775807)%Z ->
  render (CInt z) = OK (dec_Z z, TInt) /\ lex (dec_Z z) = Some (LInt z).
Proof. exact render_int_ok. Qed.
Print Assumptions C18_int.

(* ... in particular every 32-bit integer, for which the declared type int is right *)
Theorem C18_int32 : forall z : Z, int32_range z ->
  render (CInt z) = OK (dec_Z z, TInt) /\ lex (dec_Z z) = Some (LInt z).
Proof. exact render_int32_ok. Qed.
Print Assumptions C18_int32.

(* an integer that has no C++ type is refused *)
Theorem C18_int_unrepresentable : forall z : Z, (Z.abs z > 9223372036854775807)%Z ->
  render (CInt z) = Error ErrValue.
Proof. exact render_int_huge. Qed.
Print Assumptions C18_int_unrepresentable.

(* NOT true of the code: "outside the int range the constant is refused or typed wider".
   A 64-bit value is emitted with the right value but keeps the declared type int, so a variable
   or column declared from it narrows it (known finding c18:int-wider-than-int32). *)
Theorem C18_int_wide_refuted : exists z : Z, ~ int32_range z /\ render (CInt z) = OK (dec_Z z, TInt).
Proof. exact render_int_wide_refuted. Qed.
Print Assumptions C18_int_wide_refuted.

(* ---- booleans, and everything that is not int / float / bool / str ---- *)
Theorem C18_bool : forall b : bool, exists t, render (CBool b) = OK (t, TBool) /\ lex t = Some (LBool b).
Proof. exact render_bool. Qed.
Print Assumptions C18_bool.

Theorem C18_other : render COther = Error ErrValue.
Proof. exact render_other. Qed.
Print Assumptions C18_other.

(* ---- floats: the text Python's repr prints goes out unchanged; every finite repr is exactly one
   C++ floating literal (so both languages read the same decimal), carrying the sign of the repr;
   inf and nan are refused ---- *)
Theorem C18_float : forall t : string, py_float_finite t = true ->
  render (CFloat t) = OK (t, TDouble) /\
  cpp_float_lit (snd (strip_minus t)) = true /\
  exists m e, float_value (snd (strip_minus t)) = Some (m, e) /\ lex t = Some (LFloat (fst (strip_minus t)) m e).
Proof. exact render_float_ok. Qed.
Print Assumptions C18_float.

Theorem C18_float_nonfinite : forall t : string, nonfinite_repr t = true -> render (CFloat t) = Error ErrValue.
Proof. exact render_float_nonfinite. Qed.
Print Assumptions C18_float_nonfinite.

Theorem C18_float_total : forall t : string, py_float_repr t = true ->
  (py_float_finite t = true /\ nonfinite_repr t = false) \/ nonfinite_repr t = true.
Proof. exact py_float_repr_cases. Qed.
Print Assumptions C18_float_total.

(* ---- names: bank, attribute, tree and column names stand in one string literal at a fixed place of
   their line; its value is the name and the rest of the line is the fixed text ---- *)
Theorem C18_names_bank : forall (b : backend) (ty name : string),
  (b = CmsMiniaod -> In ty miniaod_types) ->
  exists line, bank_line b ty name = OK line /\
    literal_at (bank_prefix b ty) line = Some (LStr name, bank_suffix b).
Proof. exact bank_line_literal. Qed.
Print Assumptions C18_names_bank.

Theorem C18_names_attribute : forall (obj attr : string),
  exists line, attribute_line obj attr = OK line /\
    literal_at ("auto result = " +++ obj +++ "->getAttribute<float>(") line = Some (LStr attr, ");").
Proof. exact attribute_line_literal. Qed.
Print Assumptions C18_names_attribute.

(* a string constant passed to a user C++ function of several parameters (add_cpp_function metadata) reaches its
   place character for character even when it contains the names of the other parameters: all parameters are
   substituted in one pass and inserted text is never searched again.  (General statement about
   replace_whole_words for arbitrary lines: C11 subst_is_simultaneous.) *)
Theorem C18_names_user_arg : forall (ps : string * (string * string)) (obj s later : string), In ps user_params ->
  exists line, user_call_line (fst ps) (fst (snd ps)) (snd (snd ps)) obj (CStr s) later = OK line /\
    literal_at ("double result = g_labelled_value(*" +++ obj +++ ", ") line = Some (LStr s, ", " +++ later +++ ");").
Proof. exact user_call_literal. Qed.
Print Assumptions C18_names_user_arg.

(* ... which a parameter-by-parameter substitution would break: "pt bin" would arrive as "pt 3" *)
Theorem C18_sequential_subst_refuted :
  exists line, subst_sequential [("jet", "i_obj1"); ("label", cpp_string_literal "pt bin"); ("bin", "3")] (user_template "jet" "label" "bin") = line /\
    literal_at "double result = g_labelled_value(*i_obj1, " line = Some (LStr "pt 3", ", 3);").
Proof. exact sequential_subst_refuted. Qed.
Print Assumptions C18_sequential_subst_refuted.

Theorem C18_names_column : forall col var : string,
  literal_at "myTree->Branch(" (branch_line (col, var)) = Some (LStr col, ", &" +++ var +++ ");").
Proof. exact branch_line_literal. Qed.
Print Assumptions C18_names_column.

Theorem C18_names_tree_atlas : forall (tree : string) (leaves : list (string * string)),
  exists l1 l2, book_lines Atlas tree leaves = l1 :: l2 :: map branch_line leaves /\
    literal_at "ANA_CHECK (book (TTree (" l1 = Some (LStr tree, ", ""My analysis ntuple"")));") /\
    literal_at "auto myTree = tree (" l2 = Some (LStr tree, ");").
Proof. exact book_tree_atlas. Qed.
Print Assumptions C18_names_tree_atlas.

Theorem C18_names_tree_cms : forall (b : backend) (tree : string) (leaves : list (string * string)),
  b <> Atlas ->
  exists l2, book_lines b tree leaves = "edm::Service<TFileService> fs;" :: l2 :: map branch_line leaves /\
    literal_at "myTree = fs->make<TTree>(" l2 = Some (LStr tree, ", ""My analysis ntuple"");").
Proof. exact book_tree_cms. Qed.
Print Assumptions C18_names_tree_cms.

Theorem C18_names_fill_atlas : forall tree : string,
  literal_at "tree(" (fill_line Atlas tree) = Some (LStr tree, ")->Fill();").
Proof. exact fill_line_atlas. Qed.
Print Assumptions C18_names_fill_atlas.

(* ---- what the same function did before the fix commits (render_v0): kept as documentation ---- *)
Theorem C18_v0_str_refuted :
  exists s t, render_v0 (CStr s) = OK (t, TString) /\ lex t <> Some (LStr s).
Proof. exact render_v0_str_refuted. Qed.
Print Assumptions C18_v0_str_refuted.

Theorem C18_v0_float_refuted :
  exists t : string, py_float_repr t = true /\ render_v0 (CFloat t) = OK (t, TDouble) /\ lex t = None.
Proof. exact render_v0_float_refuted. Qed.
Print Assumptions C18_v0_float_refuted.

Theorem C18_v0_int_refuted :
  exists (z : Z) (t : string), render_v0 (CInt z) = OK (t, TInt) /\ lex t = None.
Proof. exact render_v0_int_huge_refuted. Qed.
Print Assumptions C18_v0_int_refuted.

(* ---- non-vacuity ---- *)
Example C18_nonvacuous_str :
  render (CStr "a""b\c") = OK ("""a\""b\\c""", TString) /\ lex """a\""b\\c""" = Some (LStr "a""b\c").
Proof. vm_compute. split; reflexivity. Qed.

Example C18_nonvacuous_float :
  py_float_finite "-1.5e-07" = true /\ lex "-1.5e-07" = Some (LFloat true 15 (-8)) /\
  py_float_finite "5e-324" = true /\ py_float_finite "1e+300" = true /\ py_float_repr "inf" = true /\
  py_float_finite "inf" = false /\ py_float_finite "1." = false /\ lex "1e+16" = Some (LFloat false 1 16).
Proof. vm_compute. repeat split; reflexivity. Qed.

Example C18_nonvacuous_int :
  lex (dec_Z (-2147483648)) = Some (LInt (-2147483648)) /\ lex "9223372036854775808" = None /\ lex "010" = None.
Proof. vm_compute. repeat split; reflexivity. Qed.

Example C18_nonvacuous_bank :
  bank_line Atlas "" "Anti""Kt" = OK "ANA_CHECK (evtStore()->retrieve(result, ""Anti\""Kt""));".
Proof. vm_compute. reflexivity. Qed.
