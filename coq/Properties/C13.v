(* C13 - arithmetic follows Python numerics on the declared value types.
   Model: Model/Arith.v (translator functions, C++ evaluation with the usual arithmetic conversions,
   Python's operators on the declared types); operator tables regenerated from /repo (gen/OpTables.v).
   Every theorem is stated for an arbitrary floating type F and arbitrary operations on it (Section
   variables; no law is assumed of them). *)
From Coq Require Import QArith.
From FV Require Import Base.Prelude gen.OpTables Model.Arith Proofs.ArithProofs.

Section C13.
  Variable F : Type.
  Variables fadd fsub fmul fdiv fpow fpow32 fpymod : F -> F -> F.
  Variable fneg : F -> F.
  Variables feqb fltb fleb : F -> F -> bool.
  Variable fzero : F -> bool.
  Variable of_Z : Z -> F.
  Variable narrow32 : F -> F.

  Notation val := (val F).
  Notation env := (env F).
  Notation cxx_eval := (cxx_eval F fadd fsub fmul fdiv fpow fpow32 fneg feqb fltb fleb fzero of_Z narrow32).
  Notation cxx_assign := (cxx_assign F fadd fsub fmul fdiv fpow fpow32 fneg feqb fltb fleb fzero of_Z narrow32).
  Notation cxx_ifexp := (cxx_ifexp F fadd fsub fmul fdiv fpow fpow32 fneg feqb fltb fleb fzero of_Z narrow32).
  Notation cxx_loop := (cxx_loop F fadd fsub fmul fdiv fpow fpow32 fneg feqb fltb fleb fzero of_Z narrow32).
  Notation py_binop := (py_binop F fadd fsub fmul fdiv fpow fpow32 fpymod fzero of_Z narrow32).
  Notation py_unary := (py_unary F fneg fzero).
  Notation py_compare := (py_compare F feqb fltb fleb of_Z narrow32).
  Notation py_ifexp := (py_ifexp F fzero).
  Notation denote := (denote F fadd fsub fmul fdiv fpow fpow32 fpymod fneg feqb fltb fleb fzero of_Z narrow32).
  Notation widen_to := (widen_to F of_Z narrow32).
  Notation side := (side F fadd fsub fmul fdiv fpow fpow32 fpymod fneg feqb fltb fleb fzero of_Z narrow32).

  (* Binary operators {+,-,*,/,%,**}: whenever the translator accepts the operands (it refuses
     booleans: C13_bool_operand_refuted), the operands have their declared types, ints are in the
     32-bit range, Python defines the result (divisor <> 0) and, for '%', both operands are
     non-negative integers ('%' on floating operands: C13_mod_floating_refuted), the variable of the
     declared result type holds exactly Python's value, and Python's value has the declared type.
     PARTIAL with respect to the property text in exactly these two operand classes. *)
  Theorem C13_binop_partial : forall (op : pybinop) (l r rp : rep) (E : env) (v1 v2 pv : val),
    listed op ->
    visit_BinOp op l r = OK rp ->
    cxx_eval E (r_expr l) = Some v1 -> type_of v1 = r_ty l ->
    cxx_eval E (r_expr r) = Some v2 -> type_of v2 = r_ty r ->
    in_range v1 = true -> in_range v2 = true ->
    mod_side F op v1 v2 ->
    py_binop op v1 v2 = Some pv ->
    in_range pv = true ->
    cxx_assign E (r_ty rp) (r_expr rp) = Some pv /\ type_of pv = r_ty rp.
  Proof. exact (binop_column F fadd fsub fmul fdiv fpow fpow32 fpymod fneg feqb fltb fleb fzero of_Z narrow32). Qed.

  (* ... and, except for std::pow(float, float), the emitted expression itself has the declared type
     and Python's value, so the statement composes (C13_expression). *)
  Theorem C13_binop_inline : forall (op : pybinop) (l r rp : rep) (E : env) (v1 v2 pv : val),
    listed op ->
    visit_BinOp op l r = OK rp ->
    cxx_eval E (r_expr l) = Some v1 -> type_of v1 = r_ty l ->
    cxx_eval E (r_expr r) = Some v2 -> type_of v2 = r_ty r ->
    in_range v1 = true -> in_range v2 = true ->
    mod_side F op v1 v2 ->
    both_float F op v1 v2 = false ->
    py_binop op v1 v2 = Some pv ->
    in_range pv = true ->
    cxx_eval E (r_expr rp) = Some pv /\ type_of pv = r_ty rp.
  Proof. exact (binop_strong F fadd fsub fmul fdiv fpow fpow32 fpymod fneg feqb fltb fleb fzero of_Z narrow32). Qed.

  (* '**' is a real power: std::pow on the operands, declared double, for every pair of operand
     types including booleans. *)
  Theorem C13_pow : forall (l r rp : rep) (E : env) (v1 v2 pv : val),
    visit_BinOp Pow l r = OK rp ->
    cxx_eval E (r_expr l) = Some v1 -> type_of v1 = r_ty l ->
    cxx_eval E (r_expr r) = Some v2 -> type_of v2 = r_ty r ->
    in_range v1 = true -> in_range v2 = true ->
    py_binop Pow v1 v2 = Some pv ->
    cxx_assign E (r_ty rp) (r_expr rp) = Some pv /\ r_ty rp = TDouble /\ type_of pv = TDouble.
  Proof. exact (pow_correct F fadd fsub fmul fdiv fpow fpow32 fpymod fneg feqb fltb fleb fzero of_Z narrow32). Qed.

  (* Unary + - not: '+' and '-' on int/float/double operands and 'not' on anything give Python's
     value; the column of the declared type holds it widened (not x on an int x is declared int and
     holds 0/1).  PARTIAL: unary +/- on a boolean is excluded (C13_unary_minus_bool_refuted). *)
  Theorem C13_unary_partial : forall (op : pyunop) (a rp : rep) (E : env) (v pv : val),
    visit_UnaryOp op a = OK rp ->
    cxx_eval E (r_expr a) = Some v -> type_of v = r_ty a -> in_range v = true ->
    (op = Not \/ is_bool F v = false) -> is_long F v = false ->
    py_unary op v = Some pv -> in_range pv = true ->
    cxx_eval E (r_expr rp) = Some pv
    /\ cxx_assign E (r_ty rp) (r_expr rp) = widen_to (r_ty rp) pv
    /\ ty_le (type_of pv) (r_ty rp) = true
    /\ (op <> Not -> type_of pv = r_ty rp).
  Proof. exact (unary_correct F fadd fsub fmul fdiv fpow fpow32 fneg feqb fltb fleb fzero of_Z narrow32). Qed.

  (* The six comparisons, all operand types: the emitted comparison is Python's, declared bool. *)
  Theorem C13_compare : forall (op : pycmp) (l r rp : rep) (E : env) (v1 v2 pv : val),
    visit_Compare op l r = OK rp ->
    cxx_eval E (r_expr l) = Some v1 ->
    cxx_eval E (r_expr r) = Some v2 ->
    py_compare op v1 v2 = Some pv ->
    cxx_eval E (r_expr rp) = Some pv /\ type_of pv = r_ty rp /\ r_ty rp = TBool.
  Proof. exact (compare_correct F fadd fsub fmul fdiv fpow fpow32 fneg feqb fltb fleb fzero of_Z narrow32). Qed.

  (* A conditional yields its arm's value (widened to the double the result variable is declared as). *)
  Theorem C13_conditional : forall (t b o : rep) (E : env) (c x y : val),
    cxx_eval E (r_expr t) = Some c ->
    cxx_eval E (r_expr b) = Some x -> type_of x = r_ty b -> is_long F x = false ->
    cxx_eval E (r_expr o) = Some y -> type_of y = r_ty o -> is_long F y = false ->
    cxx_ifexp E (visit_IfExp t b o) = widen_to TDouble (py_ifexp c x y)
    /\ exists w, widen_to TDouble (py_ifexp c x y) = Some (VDbl w).
  Proof. exact (ifexp_correct F fadd fsub fmul fdiv fpow fpow32 fneg feqb fltb fleb fzero of_Z narrow32). Qed.

  (* The accumulator of an Aggregate (Sum, Count, Min, Max are Aggregates) is declared with a type at
     least as wide as the seed and as the update expression, and it is one of the two. *)
  Theorem C13_acc_width : forall (acc : string) (seed : rep) (upd : rep -> result rep) (a : agg),
    call_Aggregate acc seed upd = OK a ->
    exists u, upd (mk_rep (ELeaf acc) (r_ty seed)) = OK u
              /\ ty_le (r_ty seed) (a_ty a) = true /\ ty_le (r_ty u) (a_ty a) = true
              /\ (a_ty a = r_ty seed \/ a_ty a = r_ty u).
  Proof. exact acc_width. Qed.

  (* The generated loop computes Python's fold whenever one update step does (R relates the C++
     accumulator, possibly a widened copy, to Python's). *)
  Theorem C13_aggregate_fold : forall (E : env) (acc elem : string) (t : ctype) (upd : cexpr)
                                      (f : val -> val -> option val) (R : val -> val -> Prop),
    (forall ccur pcur x pnxt, R ccur pcur -> f pcur x = Some pnxt ->
        exists cnxt, cxx_assign (upd_env F (upd_env F E elem x) acc ccur) t upd = Some cnxt /\ R cnxt pnxt) ->
    forall xs ccur pcur pres, R ccur pcur -> py_fold F f pcur xs = Some pres ->
      exists cres, cxx_loop E acc elem t upd ccur xs = Some cres /\ R cres pres.
  Proof. exact (loop_sim F fadd fsub fmul fdiv fpow fpow32 fneg feqb fltb fleb fzero of_Z narrow32). Qed.

  (* Integer-valued results remain integers: + - * % and unary +,- on ints are declared int. *)
  Theorem C13_int_stays_int : forall (op : pybinop) (l r rp : rep),
    op = Add \/ op = Sub \/ op = Mult \/ op = Mod ->
    r_ty l = TInt -> r_ty r = TInt ->
    visit_BinOp op l r = OK rp -> r_ty rp = TInt.
  Proof. exact int_stays_int. Qed.

  Theorem C13_int_stays_int_unary : forall (op : pyunop) (a rp : rep),
    r_ty a = TInt -> visit_UnaryOp op a = OK rp -> r_ty rp = TInt.
  Proof. exact int_stays_int_unary. Qed.

  (* Whole expressions, nested without bound: the emitted expression evaluates to the value Python
     computes, and Python's result type is the declared type (so int results are declared int),
     under the node-wise side conditions [side] (well-typed in-range leaves, in-range int results,
     '%' on non-negative ints, no std::pow(float,float), 'not' on booleans only, no unary +/- on
     booleans). *)
  Theorem C13_expression : forall (E : env) (a : aexpr) (rp : rep) (pv : val),
    translate a = OK rp -> denote E a = Some pv -> side E a ->
    cxx_eval E (r_expr rp) = Some pv /\ type_of pv = r_ty rp /\ in_range pv = true.
  Proof. exact (translate_correct F fadd fsub fmul fdiv fpow fpow32 fpymod fneg feqb fltb fleb fzero of_Z narrow32). Qed.

  (* '%' with a floating operand is ill-formed C++ whatever the floating type is *)
  Theorem C13_mod_floating_illformed : forall (l r rp : rep) (E : env) (v1 v2 : val),
    visit_BinOp Mod l r = OK rp ->
    cxx_eval E (r_expr l) = Some v1 -> type_of v1 = r_ty l ->
    cxx_eval E (r_expr r) = Some v2 -> type_of v2 = r_ty r ->
    is_intval F v1 && is_intval F v2 = false ->
    cxx_eval E (r_expr rp) = None.
  Proof. exact (mod_floating_illformed F fadd fsub fmul fdiv fpow fpow32 fneg feqb fltb fleb fzero of_Z narrow32). Qed.

  (* Wide integer literals (abs >= 2**31) are written as they are - a C++ long - and declared int.
     '/' with such a literal on either side is nevertheless the real division, because the cast to
     double is applied to the left operand whenever no operand is declared double. *)
  Theorem C13_div_wide_literal_right : forall (l rp : rep) (z : Z) (E : env) (v1 pv : val),
    wide z ->
    visit_BinOp Div l (visit_Constant_int z) = OK rp ->
    cxx_eval E (r_expr l) = Some v1 -> type_of v1 = r_ty l -> numeric F v1 = true ->
    py_binop Div v1 (VInt z) = Some pv ->
    cxx_eval E (r_expr rp) = Some pv /\ r_ty rp = TDouble /\ pv = VDbl (fdiv (at64 F of_Z v1) (of_Z z)).
  Proof. exact (div_wide_right F fadd fsub fmul fdiv fpow fpow32 fpymod fneg feqb fltb fleb fzero of_Z narrow32). Qed.

  Theorem C13_div_wide_literal_left : forall (r rp : rep) (z : Z) (E : env) (v2 pv : val),
    wide z ->
    visit_BinOp Div (visit_Constant_int z) r = OK rp ->
    cxx_eval E (r_expr r) = Some v2 -> type_of v2 = r_ty r -> numeric F v2 = true ->
    py_binop Div (VInt z) v2 = Some pv ->
    cxx_eval E (r_expr rp) = Some pv /\ r_ty rp = TDouble /\ pv = VDbl (fdiv (of_Z z) (at64 F of_Z v2)).
  Proof. exact (div_wide_left F fadd fsub fmul fdiv fpow fpow32 fpymod fneg feqb fltb fleb fzero of_Z narrow32). Qed.
End C13.

Print Assumptions C13_binop_partial.
Print Assumptions C13_binop_inline.
Print Assumptions C13_pow.
Print Assumptions C13_unary_partial.
Print Assumptions C13_compare.
Print Assumptions C13_conditional.
Print Assumptions C13_acc_width.
Print Assumptions C13_aggregate_fold.
Print Assumptions C13_int_stays_int.
Print Assumptions C13_int_stays_int_unary.
Print Assumptions C13_expression.
Print Assumptions C13_mod_floating_illformed.
Print Assumptions C13_div_wide_literal_right.
Print Assumptions C13_div_wide_literal_left.

(* ---- what is false of the code, with witnesses (exact rational arithmetic as the floating type) ---- *)

(* Before the fix `(l/r)` was emitted for int/int and declared double: 3/2 gives 1, not 3/2. *)
Theorem C13_int_div_uncast_refuted :
  exists (E : env Q) (e1 e2 : cexpr) (v1 v2 pv : val Q),
    QI.eval E e1 = Some v1 /\ type_of v1 = TInt /\ QI.eval E e2 = Some v2 /\ type_of v2 = TInt /\
    QI.pybin Div v1 v2 = Some pv /\
    QI.assign E TDouble (EBin "/" e1 e2) <> Some pv.
Proof. exact int_div_uncast_refuted. Qed.
Print Assumptions C13_int_div_uncast_refuted.

(* known finding c13:mod-floating-illformed *)
Theorem C13_mod_floating_refuted :
  exists (E : env Q) (l r rp : rep) (v1 v2 pv : val Q),
    visit_BinOp Mod l r = OK rp /\
    QI.eval E (r_expr l) = Some v1 /\ type_of v1 = r_ty l /\
    QI.eval E (r_expr r) = Some v2 /\ type_of v2 = r_ty r /\
    QI.pybin Mod v1 v2 = Some pv /\
    QI.eval E (r_expr rp) = None.
Proof. exact mod_floating_refuted. Qed.
Print Assumptions C13_mod_floating_refuted.

(* known finding c13:bool-operand-refused *)
Theorem C13_bool_operand_refuted :
  exists (l r : rep) (v1 v2 pv : val Q),
    type_of v1 = r_ty l /\ type_of v2 = r_ty r /\
    QI.pybin Add v1 v2 = Some pv /\ visit_BinOp Add l r = Error ErrAssert.
Proof. exact bool_operand_refuted. Qed.
Print Assumptions C13_bool_operand_refuted.

Theorem C13_bool_operand_always_refused : forall (op : pybinop) (l r : rep),
  op = Add \/ op = Sub \/ op = Mult \/ op = Div \/ op = Mod ->
  r_ty l = TBool \/ r_ty r = TBool ->
  visit_BinOp op l r = Error ErrAssert.
Proof. exact bool_operand_refused. Qed.
Print Assumptions C13_bool_operand_always_refused.

(* known finding c13:unary-minus-bool *)
Theorem C13_unary_minus_bool_refuted :
  exists (E : env Q) (a rp : rep) (v pv : val Q),
    visit_UnaryOp USub a = OK rp /\ QI.eval E (r_expr a) = Some v /\ type_of v = r_ty a /\
    QI.pyun USub v = Some pv /\ pv = VInt (-1) /\
    QI.assign E (r_ty rp) (r_expr rp) = Some (VBool true) /\
    QI.widen (r_ty rp) pv = None.
Proof. exact unary_minus_bool_refuted. Qed.
Print Assumptions C13_unary_minus_bool_refuted.

(* known finding c13:conditional-declared-double *)
Theorem C13_conditional_int_refuted :
  exists (t b o : rep), r_ty b = TInt /\ r_ty o = TInt /\ i_ty (visit_IfExp t b o) <> TInt.
Proof. exact conditional_int_refuted. Qed.
Print Assumptions C13_conditional_int_refuted.

(* known finding c13:wide-int-literal-declared-int *)
Theorem C13_wide_literal_refuted :
  exists (E : env Q) (l rp : rep) (v1 pv : val Q),
    visit_BinOp Add l (visit_Constant_int 4294967296) = OK rp /\
    QI.eval E (r_expr l) = Some v1 /\ type_of v1 = r_ty l /\
    QI.pybin Add v1 (VInt 4294967296) = Some pv /\ pv = VInt 4294967299 /\
    r_ty rp = TInt /\ QI.eval E (r_expr rp) = Some (VLong 4294967299) /\
    QI.assign E (r_ty rp) (r_expr rp) = Some (VInt 3).
Proof. exact wide_literal_refuted. Qed.
Print Assumptions C13_wide_literal_refuted.

Example C13_ex_count_div_wide :
  match translate (ABin Div (ALeaf "n" TInt) (AInt 4294967296)) with
  | OK r => Some (show (r_expr r), ctype_name (r_ty r), QI.eval QI.E0 (r_expr r)) | Error _ => None end
  = Some ("(static_cast<double>(n)/4294967296)", "double", Some (VDbl (3 # 4294967296))).
Proof. vm_compute. reflexivity. Qed.

Example C13_ex_int_constant_refused : translate (AInt 9223372036854775808) = Error ErrValue.
Proof. reflexivity. Qed.

(* ---- non-vacuity: the theorems' hypotheses are satisfiable and the model computes ---- *)
Example C13_ex_count_div_2 :
  option_map (fun r => show (r_expr r)) (match translate (ABin Div (ALeaf "n" TInt) (AInt 2)) with OK r => Some r | Error _ => None end)
  = Some "(static_cast<double>(n)/2)".
Proof. vm_compute. reflexivity. Qed.

Example C13_ex_count_div_2_value :
  match translate (ABin Div (ALeaf "n" TInt) (AInt 2)) with
  | OK r => QI.eval QI.E0 (r_expr r) | Error _ => None end = Some (VDbl (3 # 2))
  /\ QI.den QI.E0 (ABin Div (ALeaf "n" TInt) (AInt 2)) = Some (VDbl (3 # 2)).
Proof. split; vm_compute; reflexivity. Qed.

Example C13_ex_nested :
  let a := ABin Add (ABin Mult (ALeaf "f" TFloat) (AInt 2)) (ABin Pow (ALeaf "x" TDouble) (ALeaf "n" TInt)) in
  match translate a with OK r => Some (show (r_expr r), ctype_name (r_ty r)) | Error _ => None end
  = Some ("((f*2)+std::pow(x, n))", "double").
Proof. vm_compute. reflexivity. Qed.

Example C13_ex_mod : QI.den QI.E0 (ABin Mod (AInt 7) (ALeaf "n" TInt)) = Some (VInt 1)
  /\ match translate (ABin Mod (AInt 7) (ALeaf "n" TInt)) with OK r => QI.eval QI.E0 (r_expr r) | Error _ => None end = Some (VInt 1).
Proof. split; vm_compute; reflexivity. Qed.

Example C13_ex_floordiv_refused : translate (ABin FloorDiv (AInt 7) (AInt 2)) = Error ErrRuntime.
Proof. reflexivity. Qed.

Example C13_ex_tables :
  List.length known_binary_operators = 5%nat /\ List.length known_unary_operators = 3%nat
  /\ List.length compare_operations = 6%nat /\ List.length type_priority = 3%nat.
Proof. repeat split; reflexivity. Qed.
