From FV Require Import Base.Prelude Model.Collections Proofs.CollectionsProofs gen.Collections.
