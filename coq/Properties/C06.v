(* C06 - event collections are fetched by the requested bank, type and backend idiom.
   gen/Collections.v (tables, container-class formats, coder line templates, metadata branches,
   backend checks) is regenerated from /repo on every run; the theorems below are re-checked
   against it.  Statements quantify over every specification of a backend's table or produced by
   process_decl from a declaration, every bank string, every token name the model generates, every
   generated-code state (= every position in a query). *)
From FV Require Import Base.Prelude Model.Collections Proofs.CollectionsProofs gen.Collections.

Definition classes_of (B : backend) : list pattern := class_strs md_kinds B.

(* ---- regenerated tables are well formed (decided on the tables themselves) ---- *)
Theorem C06_tables_ok :
  forallb (fun B => forallb (spec_ok (b_accepts B)) (b_table B) && negb (Nat.eqb (List.length (b_table B)) 0))
          [atlas_backend; cms_aod_backend; cms_miniaod_backend] = true.
Proof. vm_compute. reflexivity. Qed.
Print Assumptions C06_tables_ok.

(* ---- backend idioms: the substituted running code, for every spec / bank / token ---- *)
Definition atlas_idiom : list pattern :=
  [ [PHole HCont; PLit " result = 0;"]; [PLit "ANA_CHECK (evtStore()->retrieve(result, "; PArg; PLit "));"] ].
Definition cms_aod_idiom : list pattern :=
  [ [PHole HCont; PLit " result;"]; [PLit "iEvent.getByLabel("; PArg; PLit ", result);"] ].
Definition cms_miniaod_idiom : list pattern :=
  [ [PHole HCont; PLit " result;"]; [PLit "iEvent.getByToken("; PHole HTok; PLit ", result);"] ].
Definition cms_miniaod_init : pattern := [PLit "consumes<"; PHole HType; PLit ">(edm::InputTag("; PArg; PLit "))"].

(* ATLAS: T* result = 0; ANA_CHECK (evtStore()->retrieve(result, "bank")); - status-checked *)
Theorem C06_idiom_atlas : forall (s : cspec) (tok bank : string),
  In (cs_str s) (classes_of atlas_backend) ->
  word_free param_name (cs_type s) = true -> word_free param_name tok = true ->
  map (sub_arg bank) (running_code (b_coder atlas_backend) s tok)
  = [ cont_str s +++ " result = 0;";
      "ANA_CHECK (evtStore()->retrieve(result, " +++ cpp_string_literal bank +++ "));" ].
Proof.
  intros s tok bank Hin Hty Htok.
  exact (idiom_lines (b_coder atlas_backend) (classes_of atlas_backend) atlas_idiom s tok bank
                     ltac:(vm_compute; reflexivity) Hin Hty Htok).
Qed.
Print Assumptions C06_idiom_atlas.

(* CMS AOD: edm::Handle<T> result; iEvent.getByLabel("bank", result); *)
Theorem C06_idiom_cms_aod : forall (s : cspec) (tok bank : string),
  In (cs_str s) (classes_of cms_aod_backend) ->
  word_free param_name (cs_type s) = true -> word_free param_name tok = true ->
  map (sub_arg bank) (running_code (b_coder cms_aod_backend) s tok)
  = [ cont_str s +++ " result;";
      "iEvent.getByLabel(" +++ cpp_string_literal bank +++ ", result);" ].
Proof.
  intros s tok bank Hin Hty Htok.
  exact (idiom_lines (b_coder cms_aod_backend) (classes_of cms_aod_backend) cms_aod_idiom s tok bank
                     ltac:(vm_compute; reflexivity) Hin Hty Htok).
Qed.
Print Assumptions C06_idiom_cms_aod.

(* CMS miniAOD: Handle<T> result; iEvent.getByToken(token, result); *)
Theorem C06_idiom_cms_miniaod : forall (s : cspec) (tok bank : string),
  In (cs_str s) (classes_of cms_miniaod_backend) ->
  word_free param_name (cs_type s) = true -> word_free param_name tok = true ->
  map (sub_arg bank) (running_code (b_coder cms_miniaod_backend) s tok)
  = [ cont_str s +++ " result;";
      "iEvent.getByToken(" +++ tok +++ ", result);" ].
Proof.
  intros s tok bank Hin Hty Htok.
  exact (idiom_lines (b_coder cms_miniaod_backend) (classes_of cms_miniaod_backend) cms_miniaod_idiom s tok bank
                     ltac:(vm_compute; reflexivity) Hin Hty Htok).
Qed.
Print Assumptions C06_idiom_cms_miniaod.

(* ... and the token is a member of the token type of that container, initialised in the booking
   code with edm::InputTag("bank") of that use *)
Theorem C06_token_init_cms_miniaod : forall (s : cspec) (n : nat) (bank tty : string),
  In (cs_str s) (classes_of cms_miniaod_backend) -> token_type s = Some tty ->
  word_free param_name (cs_type s) = true ->
  map (fun f => (fst f, sub_arg bank (snd f))) (token_fields (b_coder cms_miniaod_backend) s (mk_uname "token" n))
  = [ (mk_vdecl tty (mk_uname "token" n),
       "consumes<" +++ cs_type s +++ ">(edm::InputTag(" +++ cpp_string_literal bank +++ "))") ].
Proof.
  intros s n bank tty Hin Htt Hty.
  exact (idiom_token_init (b_coder cms_miniaod_backend) (classes_of cms_miniaod_backend) _ cms_miniaod_init
                          s (mk_uname "token" n) bank tty eq_refl Htt ltac:(vm_compute; reflexivity) Hin Hty (token_name_free n)).
Qed.
Print Assumptions C06_token_init_cms_miniaod.

(* the container type strings: const T* (ATLAS), edm::Handle<T> (AOD), Handle<T> and token type
   edm::EDGetTokenT<T> (miniAOD) *)
Theorem C06_container_types_atlas : forall (s : cspec), In (cs_str s) (classes_of atlas_backend) ->
  exists f, In f [[PLit "const "; PHole HType; PLit "*"]; [PLit "const "; PHole HType; PLit " *"]]
            /\ cont_str s = fstring (type_env (cs_type s)) f.
Proof. intros s. apply cont_str_forms. vm_compute. reflexivity. Qed.
Print Assumptions C06_container_types_atlas.
Theorem C06_container_types_cms_aod : forall (s : cspec), In (cs_str s) (classes_of cms_aod_backend) ->
  exists f, In f [[PLit "edm::Handle<"; PHole HType; PLit ">"]] /\ cont_str s = fstring (type_env (cs_type s)) f.
Proof. intros s. apply cont_str_forms. vm_compute. reflexivity. Qed.
Print Assumptions C06_container_types_cms_aod.
Theorem C06_container_types_cms_miniaod : forall (s : cspec), In (cs_str s) (classes_of cms_miniaod_backend) ->
  exists f, In f [[PLit "Handle<"; PHole HType; PLit ">"]] /\ cont_str s = fstring (type_env (cs_type s)) f.
Proof. intros s. apply cont_str_forms. vm_compute. reflexivity. Qed.
Print Assumptions C06_container_types_cms_miniaod.

(* table rows and processed declarations have one of the backend's classes *)
Theorem C06_table_classes : forall (B : backend) (s : cspec), In s (b_table B) -> In (cs_str s) (classes_of B).
Proof. exact (table_classes md_kinds). Qed.
Print Assumptions C06_table_classes.

Theorem C06_declared_classes : forall (B : backend) (d : mdict) (s : cspec),
  process_decl md_kinds d = OK s -> cs_backend s = b_accepts B -> In (cs_str s) (classes_of B).
Proof. exact (declared_classes md_kinds). Qed.
Print Assumptions C06_declared_classes.

(* ---- the retrieval block: result variable of the container type declared in the current block,
        inner block with the running code, assigned exactly once; headers and libraries requested ---- *)
Theorem C06_fetch_block : forall (v : cpv) (bank : string) (g : gstate),
  v_args v = [param_name] ->
  let '(g', r) := process_ast_node v bank g in
  let var := use_var v g in
  g_vars g' = g_vars g ++ [mk_vdecl (cont_str (v_spec v)) var]
  /\ g_stmts g' = g_stmts g ++ [SBlk [] (map (fun l => SArb (sub_arg bank l)) (v_code v) ++ [SSet var (v_result v)])]
  /\ g_class g' = g_class g ++ map fst (v_fields v)
  /\ g_book g' = g_book g ++ map (fun f => SSet (vd_name (fst f)) (sub_arg bank (snd f))) (v_fields v)
  /\ g_inc g' = add_all (v_includes v) (g_inc g)
  /\ g_libs g' = add_all (v_libs v) (g_libs g)
  /\ g_ctr g' = S (g_ctr g)
  /\ r_name r = var /\ r_kind r = v_rep v.
Proof. exact process_ast_node_shape. Qed.
Print Assumptions C06_fetch_block.

Theorem C06_assigned_once : forall (u : uname) (lines : list string) (res : string),
  count_set u (SBlk [] (map SArb lines ++ [SSet u res])) = 1%nat.
Proof. exact fetch_block_assigns_once. Qed.
Print Assumptions C06_assigned_once.

Theorem C06_result_vars_distinct : forall (vs : list (cpv * string)) (g g' : gstate) (reps : list rep),
  translate_uses vs g = (g', reps) -> NoDup (map r_name reps).
Proof. exact result_vars_distinct. Qed.
Print Assumptions C06_result_vars_distinct.

(* what get_collection hands to the translator: the spec's headers and libraries, one parameter *)
Theorem C06_get_collection : forall cd s args ctr v ctr',
  get_collection cd s args ctr = OK (v, ctr') ->
  v_args v = [param_name] /\ v_spec v = s /\ v_includes v = cs_includes s /\ v_libs v = cs_libs s
  /\ v_result v = "result"
  /\ v_rep v = match cs_kind s with KColl => RColl | KSingle => RVar end
  /\ exists b, args = [AStr b].
Proof. exact get_collection_rep. Qed.
Print Assumptions C06_get_collection.

(* includes / libraries: earlier requests keep their place, every use's requests are present,
   nothing is requested twice *)
Theorem C06_requests : forall (vs : list (cpv * string)) (g g' : gstate) (reps : list rep),
  translate_uses vs g = (g', reps) ->
  (exists t, g_inc g' = g_inc g ++ t) /\ (exists t, g_libs g' = g_libs g ++ t)
  /\ (forall v b x, In (v, b) vs -> In x (v_includes v) -> In x (g_inc g'))
  /\ (forall v b x, In (v, b) vs -> In x (v_libs v) -> In x (g_libs g'))
  /\ (NoDup (g_inc g) -> NoDup (g_inc g')) /\ (NoDup (g_libs g) -> NoDup (g_libs g')).
Proof. exact translate_uses_requests. Qed.
Print Assumptions C06_requests.

(* ---- miniAOD tokens: one member per use, pairwise distinct, each assigned once in the booking
        code.  Needs the token name to be allocated per call (regenerated fact). ---- *)
Theorem C06_tokens_cms_miniaod : forall (declared : list cspec) (us : list use) (ctr : nat)
                                        (vs : list (cpv * string)) (ctr' : nat) (g g' : gstate) (reps : list rep),
  check_backends cms_miniaod_backend declared = OK tt ->
  Forall (fun s => exists d, process_decl md_kinds d = OK s) declared ->
  find_uses cms_miniaod_backend declared us ctr = OK (vs, ctr') ->
  translate_uses vs g = (g', reps) ->
  let toks := map (mk_uname "token") (seq ctr (List.length us)) in
  NoDup toks
  /\ map vd_name (g_class g') = map vd_name (g_class g) ++ toks
  /\ map set_target (g_book g') = map set_target (g_book g) ++ map Some toks
  /\ List.length reps = List.length us.
Proof.
  exact (fun declared us ctr vs ctr' g g' reps =>
           tokens_per_use_checked cms_miniaod_backend md_kinds declared us ctr vs ctr' g g' reps
                                  ltac:(vm_compute; reflexivity) ltac:(vm_compute; reflexivity)).
Qed.
Print Assumptions C06_tokens_cms_miniaod.

(* ---- singletons are values, collections are iterated with the declared element kind ---- *)
Theorem C06_singleton_value : forall r iter, r_kind r = RVar -> as_sequence r iter = Error ErrValue.
Proof. exact singleton_never_iterated. Qed.
Print Assumptions C06_singleton_value.

Theorem C06_collection_iterated : forall r iter, r_kind r = RColl ->
  as_sequence r iter = OK ("for (auto &&" +++ iter +++ " : " +++ (if (0 <? r_pd r)%nat then "*" +++ render_name (r_name r) else render_name (r_name r)) +++ ")",
                           (r_elem r, r_pd_elem r)).
Proof. exact collection_iterated. Qed.
Print Assumptions C06_collection_iterated.

Theorem C06_member_access : forall e pd,
  member_access e pd 0 = if (0 <? pd)%nat then wrap_deref (pd - 1) e +++ "->" else e +++ ".".
Proof. exact member_access_kind. Qed.
Print Assumptions C06_member_access.

(* EventInfo is the single-object entry of the ATLAS table *)
Theorem C06_eventinfo_single :
  option_map cs_kind (find_last "EventInfo" (b_table atlas_backend)) = Some KSingle.
Proof. vm_compute. reflexivity. Qed.
Print Assumptions C06_eventinfo_single.

(* a declared element_pointer key decides the element pointer depth wherever it is an allowed key *)
Theorem C06_element_pointer_honoured :
  forallb (fun k => implb (mem_str "element_pointer" (mk_keys k)) (mk_elem_ptr k)) md_kinds = true.
Proof. vm_compute. reflexivity. Qed.
Print Assumptions C06_element_pointer_honoured.

(* ---- metadata: override, refusals ---- *)
Theorem C06_override : forall (B : backend) (pre post : list cspec) (s : cspec),
  (forall s', In s' post -> cs_name s' <> cs_name s) ->
  lookup_collection B (pre ++ s :: post) (cs_name s) = Some s.
Proof. exact override_last_wins. Qed.
Print Assumptions C06_override.

Theorem C06_builtin_kept : forall (B : backend) (declared : list cspec) (n : string),
  (forall s', In s' declared -> cs_name s' <> n) ->
  lookup_collection B declared n = find_last n (b_table B).
Proof. exact builtin_when_not_declared. Qed.
Print Assumptions C06_builtin_kept.

Theorem C06_declared_shape : forall ks d t k, md_get "metadata_type" d = Some (MStr t) -> find_kind t ks = Some k ->
  forall s, process_decl ks d = OK s ->
  unexpected_key k d = false
  /\ cs_backend s = mk_bname k
  /\ md_get "name" d = Some (MStr (cs_name s))
  /\ md_get "container_type" d = Some (MStr (cs_type s))
  /\ md_get "include_files" d = Some (MList (cs_includes s))
  /\ ((md_get "contains_collection" d = Some (MBool true) /\ cs_kind s = cc_kind (mk_coll k) /\ cs_str s = cc_str (mk_coll k) /\ cs_token s = cc_token (mk_coll k)
       /\ md_get "element_type" d = Some (MStr (cs_elem s)))
      \/ (md_get "contains_collection" d = Some (MBool false) /\ exists c, mk_single k = Some c /\ cs_kind s = cc_kind c /\ cs_str s = cc_str c /\ cs_token s = cc_token c))
  /\ (mk_libs k = false -> cs_libs s = [])
  /\ (mk_libs k = true -> md_get "link_libraries" d = None /\ cs_libs s = [] \/ md_get "link_libraries" d = Some (MList (cs_libs s))).
Proof. exact decl_ok_shape. Qed.
Print Assumptions C06_declared_shape.

Theorem C06_malformed_unexpected_key : forall ks d t k,
  md_get "metadata_type" d = Some (MStr t) -> find_kind t ks = Some k ->
  unexpected_key k d = true -> process_decl ks d = Error ErrValue.
Proof. exact decl_unexpected_key. Qed.
Print Assumptions C06_malformed_unexpected_key.

Theorem C06_malformed_element_type : forall ks d t k,
  md_get "metadata_type" d = Some (MStr t) -> find_kind t ks = Some k ->
  forall cc, md_get "contains_collection" d = Some (MBool cc) -> md_has "element_type" d = negb cc ->
  process_decl ks d = Error ErrValue.
Proof. exact decl_mismatch. Qed.
Print Assumptions C06_malformed_element_type.

(* a missing required key is refused (KeyError, or ValueError when another check fires first) *)
Theorem C06_malformed_missing_key : forall ks d t k,
  md_get "metadata_type" d = Some (MStr t) -> find_kind t ks = Some k ->
  forall key, In key ["contains_collection"; "container_type"; "name"; "include_files"] ->
  md_get key d = None -> is_error (process_decl ks d).
Proof. exact decl_missing_key. Qed.
Print Assumptions C06_malformed_missing_key.

Theorem C06_malformed_declaration_refuses_query : forall ks ds d e, In d ds -> process_decl ks d = Error e ->
  is_error (process_metadata ks ds).
Proof. exact process_metadata_refuses. Qed.
Print Assumptions C06_malformed_declaration_refuses_query.

Theorem C06_malformed_call : forall cd s args ctr,
  (forall b, args <> [AStr b]) -> get_collection cd s args ctr = Error ErrValue.
Proof. exact get_collection_malformed. Qed.
Print Assumptions C06_malformed_call.

Theorem C06_foreign_backend : forall B l s, In s l -> cs_backend s <> b_accepts B -> check_backends B l = Error ErrValue.
Proof. exact check_backends_refuses. Qed.
Print Assumptions C06_foreign_backend.

(* each executor accepts exactly the backend name its metadata branch gives to a declaration *)
Theorem C06_backend_names :
  forallb (fun B => existsb (fun k => String.eqb (mk_bname k) (b_accepts B)) md_kinds
                    && forallb (fun s => String.eqb (cs_backend s) (b_accepts B)) (b_table B))
          [atlas_backend; cms_aod_backend; cms_miniaod_backend] = true
  /\ NoDup (map b_accepts [atlas_backend; cms_aod_backend; cms_miniaod_backend]).
Proof.
  split; [vm_compute; reflexivity|].
  vm_compute. repeat constructor; simpl; intuition discriminate.
Qed.
Print Assumptions C06_backend_names.

(* ---- non-vacuity ---- *)
Example C06_ex_two_collections_miniaod :
  option_map (fun x => (map (fun d => render_name (vd_name d)) (g_class (fst x)), emit_stmts (g_book (fst x))))
    (match run_query coll_env cms_miniaod_backend []
             [mk_use "Muons" [AStr "slimmedMuons"]; mk_use "Electrons" [AStr "slimmedElectrons"]] with
     | OK x => Some x | Error _ => None end)
  = Some (["token1"; "token2"],
          ["token1 = consumes<pat::MuonCollection>(edm::InputTag(""slimmedMuons""));";
           "token2 = consumes<pat::ElectronCollection>(edm::InputTag(""slimmedElectrons""));"]).
Proof. vm_compute. reflexivity. Qed.

Example C06_ex_atlas_block :
  option_map (fun x => emit_stmts (g_stmts (fst x)))
    (match run_query coll_env atlas_backend [] [mk_use "Jets" [AStr "AntiKt4"]] with OK x => Some x | Error _ => None end)
  = Some ["{"; "const xAOD::JetContainer* result = 0;"; "ANA_CHECK (evtStore()->retrieve(result, ""AntiKt4""));"; "jets1 = result;"; "}"].
Proof. vm_compute. reflexivity. Qed.

Example C06_ex_foreign_backend :
  run_query coll_env atlas_backend
    [[("metadata_type", MStr "add_cms_aod_event_collection_info"); ("name", MStr "X"); ("include_files", MList []);
      ("container_type", MStr "T"); ("element_type", MStr "E"); ("contains_collection", MBool true)]] []
  = Error ErrValue.
Proof. vm_compute. reflexivity. Qed.
