(* C14 - injected code blocks land once, in order, in their documented places.
   The InjectCodeBlock field list, the _ib_fetch properties, the info[...] wiring, the file lists of the three
   executors and the templates are regenerated from /repo (gen/Templates.v) on every run; the theorems about
   them are re-checked by computation, the others hold for every configuration. *)
From FV Require Import Base.Prelude Model.Inject Proofs.InjectProofs gen.Templates.

(* Every field of the dataclass is wired (property -> info key -> one loop in one template file of the ATLAS
   package) and that loop sits at the place the dataclass documents for the field (Model/Inject.v: atlas_places,
   place_ok: include area of query.cxx / query.h, private section of the class, constructor initialiser list,
   constructor body, initialize() before its return, LINK_LIBRARIES of atlas_add_library). *)
Theorem C14_all_fields_have_slot :
  config_wf inject_cfg = true
  /\ Forall (fun f => field_placed inject_cfg backend_atlas atlas_places f = true) inject_fields
  /\ forallb (fun f => mem_str f inject_fields) (map fst atlas_places) = true.
Proof.
  split; [vm_compute; reflexivity|]. split.
  - apply Forall_forall. apply forallb_forall. vm_compute. reflexivity.
  - vm_compute. reflexivity.
Qed.
Print Assumptions C14_all_fields_have_slot.

(* Once, in order, unaltered, at that place: for every metadata list that process_metadata accepts and every
   field, the file holding the field's slot is
       (text before the slot) ++ (the query's own items) ++ REGION ++ (text after the slot)
   where REGION is the concatenation, over the kept blocks in order and over the lines of the field in order, of
   a ++ line ++ b with a, b the static text of the loop body; and neither the text before/after nor any other
   file of the package depends on the lines of this field (so a line occurs nowhere else). *)
Theorem C14_regions : forall md blocks,
  dedup inject_fields md = OK blocks ->
  forall f, In f inject_fields -> field_region_spec inject_cfg backend_atlas atlas_places f.
Proof. apply (regions_of_table inject_cfg backend_atlas atlas_places). vm_compute. reflexivity. Qed.
Print Assumptions C14_regions.

(* on both CMS backends body includes are honoured: same statement, Analyzer.cc, #include lines before the class *)
Theorem C14_cms_body_includes :
  field_region_spec inject_cfg backend_cms_aod cms_places "body_includes"
  /\ field_region_spec inject_cfg backend_cms_miniaod cms_places "body_includes".
Proof. split; apply region_of_field; vm_compute; reflexivity. Qed.
Print Assumptions C14_cms_body_includes.

(* which blocks are kept: the first block of every name, in order of first occurrence, provided all blocks of
   one name are identical (for every field list) *)
Theorem C14_dedup : forall fields md blocks,
  dedup fields md = OK blocks <->
  exists specs, specs_of fields md = OK specs /\ consistent specs /\ blocks = first_by_name specs.
Proof. exact dedup_ok_iff. Qed.
Print Assumptions C14_dedup.

(* same name and identical content count once; every non-empty dictionary is represented; nothing is invented *)
Theorem C14_dedup_once : forall fields md blocks,
  dedup fields md = OK blocks ->
  NoDup (names blocks)
  /\ (forall info, In info md -> info <> [] -> exists b, mk_block fields info = OK b /\ In b blocks)
  /\ (forall b, In b blocks -> exists info, In info md /\ info <> [] /\ mk_block fields info = OK b).
Proof. exact dedup_once. Qed.
Print Assumptions C14_dedup_once.

Theorem C14_dedup_distinct_names : forall fields md specs,
  specs_of fields md = OK specs -> NoDup (names specs) -> dedup fields md = OK specs.
Proof. exact dedup_distinct_names. Qed.
Print Assumptions C14_dedup_distinct_names.

(* same name, different content: ValueError *)
Theorem C14_dedup_conflict : forall fields md specs a b,
  specs_of fields md = OK specs -> In a specs -> In b specs -> b_name a = b_name b -> a <> b ->
  dedup fields md = Error ErrValue.
Proof. exact dedup_conflict. Qed.
Print Assumptions C14_dedup_conflict.

(* an unknown field (or no name): ValueError; and ValueError is the only error *)
Theorem C14_unknown_field : forall fields md info,
  In info md -> info <> [] ->
  ((exists k v, In (k, v) info /\ k <> "name" /\ ~ In k fields) \/ lookup "name" info = None) ->
  dedup fields md = Error ErrValue.
Proof. exact dedup_bad_item. Qed.
Print Assumptions C14_unknown_field.

Theorem C14_error_class : forall fields md e, dedup fields md = Error e -> e = ErrValue.
Proof. exact dedup_err_class. Qed.
Print Assumptions C14_error_class.

(* the inserted text is never interpreted: whatever the line contains, the variable node yields it as is *)
Theorem C14_render_no_rerender : forall g l x v, lookup x l = Some v -> render_node g l (TVar x) = v.
Proof. exact render_var_verbatim. Qed.
Print Assumptions C14_render_no_rerender.

(* ---------- non-vacuity ---------- *)
Definition ex_q : qenv := fun e => if String.eqb e "qv.include_files()" then ["xAODJet/JetContainer.h"] else [].
Definition ex_md : list raw :=
  [ [("name", PStr "b1"); ("private_members", PList ["int m; {% for %}"; "{{ l }} {# c #}"]);
     ("body_includes", PList ["a.h"])];
    [];
    [("name", PStr "b2"); ("private_members", PList ["float f;"]); ("link_libraries", PList ["L1"; "L2"])];
    [("name", PStr "b1"); ("body_includes", PList ["a.h"]);
     ("private_members", PList ["int m; {% for %}"; "{{ l }} {# c #}"])] ].

Definition file_of (r : result (list (string * string))) (f : string) : string :=
  match r with OK fs => match lookup f fs with Some t => t | None => "" end | Error _ => "" end.

Example C14_nonvacuous_render :
  let pkg := package inject_cfg backend_atlas ex_q ex_md in
  containsb (nl +++ "  int m; {% for %}" +++ nl +++ "  "
             +++ nl +++ "  {{ l }} {# c #}" +++ nl +++ "  "
             +++ nl +++ "  float f;" +++ nl +++ "  " +++ nl +++ "};") (file_of pkg "query.h") = true
  /\ containsb ("LINK_LIBRARIES AnaAlgorithmLib L1 L2 )") (file_of pkg "package_CMakeLists.txt") = true
  /\ containsb (nl +++ "#include ""xAODJet/JetContainer.h""" +++ nl +++ nl +++ "#include ""a.h""" +++ nl +++ nl +++ nl +++ "#include <TTree.h>")
               (file_of pkg "query.cxx") = true.
Proof. vm_compute. repeat split. Qed.

Example C14_nonvacuous_conflict :
  dedup inject_fields [ [("name", PStr "b"); ("ctor_lines", PList ["x;"])]; [("name", PStr "b"); ("ctor_lines", PList ["y;"])] ]
  = Error ErrValue.
Proof. vm_compute. reflexivity. Qed.

Example C14_nonvacuous_unknown :
  dedup inject_fields [ [("name", PStr "b"); ("link_libraries_f", PList ["x"])] ] = Error ErrValue.
Proof. vm_compute. reflexivity. Qed.
