(* C16 - placeholder while the proofs are being written *)
From FV Require Import Base.Prelude Model.Shell.
