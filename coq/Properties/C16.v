(* C16 - runner.sh honours its flags and never reports success after a failed step.

   C16_runner_<backend> is the fact about each regenerated script (gen/Runner_*.v): in every world of the backend's
   family, for every command line, every fault oracle nat -> bool, every nonce and every environment, the run meets
   `spec` (Proofs/ShellProofs.v), and the family of built worlds starts where a successful build ends.
   C16_flags, C16_phases, C16_fail, C16_ok, C16_nonzero_unchanged and C16_histories_partial are the statements of the
   property, for ANY backend with that fact (Proofs/C16Proofs.v holds their definitions); the per-backend instances are
   listed at the end.  -d words are arbitrary non-empty strings, -o words range over Shell.dest_words.
   (Print Assumptions walks the evaluated tables, so it is asked once per script and not once per instance.) *)
From FV Require Import Base.Prelude Model.Shell Proofs.ShellProofs Proofs.C16Proofs Proofs.C16Backends.
From FV Require gen.Runner_atlas_r21 gen.Runner_cms_r5 gen.Runner_cms_r7.

(* ---------- the statements, for any script that meets the specification ---------- *)
Theorem C16_flags : forall B S world, master B S world -> flags_stmt S world.
Proof. exact flags_of_master. Qed.
Print Assumptions C16_flags.
Theorem C16_phases : forall B S world, master B S world -> phases_stmt B S world.
Proof. exact phases_of_master. Qed.
Print Assumptions C16_phases.
Theorem C16_fail : forall B S world, master B S world -> fail_stmt B S world.
Proof. exact fail_of_master. Qed.
Print Assumptions C16_fail.
Theorem C16_ok : forall B S world, master B S world -> ok_stmt B S world.
Proof. exact ok_of_master. Qed.
Print Assumptions C16_ok.
Theorem C16_nonzero_unchanged : forall B S world, master B S world -> nonzero_stmt B S world.
Proof. exact nonzero_of_master. Qed.
Print Assumptions C16_nonzero_unchanged.
(* histories: every invocation started in ANY world of the built family - whatever files, with whatever content,
   earlier runs left in the run directory and at the destinations - meets the specification, so -r may be used any
   number of times, each time with its own -d and -o.  Not proved in Coq: that an invocation leaves a world of the
   family again (observed on the real bash runs and on the model by c16.py after every invocation). *)
Theorem C16_histories_partial : forall B S (fresh built : config -> fs -> Prop),
  master B S (fun cfg W => fresh cfg W \/ built cfg W) ->
  forall cfg W (i : invocation), built cfg W -> words_ok i.(i_args) ->
  spec B (classify i.(i_args)) W i.(i_oracle) i.(i_nonce) (invoke S cfg W i.(i_args) i.(i_oracle) i.(i_nonce)).
Proof. exact histories_of_master. Qed.
Print Assumptions C16_histories_partial.
(* the flag sets of the property text are the classes of their canonical spelling *)
Theorem C16_canonical_flags : forall c r d o, classify (flag_args c r d o) = Flags c r d o.
Proof. exact classify_flag_args. Qed.
Print Assumptions C16_canonical_flags.

(* ---------- the three scripts ---------- *)
Theorem C16_runner_atlas_r21 :
  master B_atlas_r21 Runner_atlas_r21.script world_atlas_r21 /\
  (forall cfg v1 v2 v3, built_atlas_r21 cfg (invoke Runner_atlas_r21.script cfg (fresh_world B_atlas_r21 cfg v1 v2 v3) ["-c"] none "").(r_st).(fsys)).
Proof. exact runner_atlas_r21. Qed.
Print Assumptions C16_runner_atlas_r21.
Theorem C16_runner_cms_r5 :
  master B_cms_r5 Runner_cms_r5.script world_cms_r5 /\
  (forall cfg v1 v2 v3, built_cms_r5 cfg (invoke Runner_cms_r5.script cfg (fresh_world B_cms_r5 cfg v1 v2 v3) ["-c"] none "").(r_st).(fsys)).
Proof. exact runner_cms_r5. Qed.
Print Assumptions C16_runner_cms_r5.
Theorem C16_runner_cms_r7 :
  master B_cms_r7 Runner_cms_r7.script world_cms_r7 /\
  (forall cfg v1 v2 v3, built_cms_r7 cfg (invoke Runner_cms_r7.script cfg (fresh_world B_cms_r7 cfg v1 v2 v3) ["-c"] none "").(r_st).(fsys)).
Proof. exact runner_cms_r7. Qed.
Print Assumptions C16_runner_cms_r7.

(* ---------- instances (no new proof: the general statements applied to the facts above) ---------- *)
Definition C16_flags_atlas_r21 := C16_flags B_atlas_r21 Runner_atlas_r21.script world_atlas_r21 (proj1 C16_runner_atlas_r21).
Definition C16_phases_atlas_r21 := C16_phases B_atlas_r21 Runner_atlas_r21.script world_atlas_r21 (proj1 C16_runner_atlas_r21).
Definition C16_fail_atlas_r21 := C16_fail B_atlas_r21 Runner_atlas_r21.script world_atlas_r21 (proj1 C16_runner_atlas_r21).
Definition C16_ok_atlas_r21 := C16_ok B_atlas_r21 Runner_atlas_r21.script world_atlas_r21 (proj1 C16_runner_atlas_r21).
Definition C16_nonzero_unchanged_atlas_r21 := C16_nonzero_unchanged B_atlas_r21 Runner_atlas_r21.script world_atlas_r21 (proj1 C16_runner_atlas_r21).
Definition C16_histories_partial_atlas_r21 := C16_histories_partial B_atlas_r21 Runner_atlas_r21.script fresh_atlas_r21 built_atlas_r21 (proj1 C16_runner_atlas_r21).
Definition C16_flags_cms_r5 := C16_flags B_cms_r5 Runner_cms_r5.script world_cms_r5 (proj1 C16_runner_cms_r5).
Definition C16_phases_cms_r5 := C16_phases B_cms_r5 Runner_cms_r5.script world_cms_r5 (proj1 C16_runner_cms_r5).
Definition C16_fail_cms_r5 := C16_fail B_cms_r5 Runner_cms_r5.script world_cms_r5 (proj1 C16_runner_cms_r5).
Definition C16_ok_cms_r5 := C16_ok B_cms_r5 Runner_cms_r5.script world_cms_r5 (proj1 C16_runner_cms_r5).
Definition C16_nonzero_unchanged_cms_r5 := C16_nonzero_unchanged B_cms_r5 Runner_cms_r5.script world_cms_r5 (proj1 C16_runner_cms_r5).
Definition C16_histories_partial_cms_r5 := C16_histories_partial B_cms_r5 Runner_cms_r5.script fresh_cms_r5 built_cms_r5 (proj1 C16_runner_cms_r5).
Definition C16_flags_cms_r7 := C16_flags B_cms_r7 Runner_cms_r7.script world_cms_r7 (proj1 C16_runner_cms_r7).
Definition C16_phases_cms_r7 := C16_phases B_cms_r7 Runner_cms_r7.script world_cms_r7 (proj1 C16_runner_cms_r7).
Definition C16_fail_cms_r7 := C16_fail B_cms_r7 Runner_cms_r7.script world_cms_r7 (proj1 C16_runner_cms_r7).
Definition C16_ok_cms_r7 := C16_ok B_cms_r7 Runner_cms_r7.script world_cms_r7 (proj1 C16_runner_cms_r7).
Definition C16_nonzero_unchanged_cms_r7 := C16_nonzero_unchanged B_cms_r7 Runner_cms_r7.script world_cms_r7 (proj1 C16_runner_cms_r7).
Definition C16_histories_partial_cms_r7 := C16_histories_partial B_cms_r7 Runner_cms_r7.script fresh_cms_r7 built_cms_r7 (proj1 C16_runner_cms_r7).

(* ---------- non-vacuity ---------- *)
Example C16_ex_classify :
  classify ["-r"; "-d"; "f.root"; "-o"; "/out2"] = Flags false true (Some "f.root") (Some "/out2") /\
  classify ["-cr"; "-df.root"] = Flags true true (Some "f.root") None /\
  classify ["-x"] = Unknown /\ classify ["-d"] = Unknown /\ classify ["-c"; "foo"] = Stray /\ classify ["--"; "-c"] = Stray.
Proof. vm_compute. repeat split; reflexivity. Qed.

Definition cfg0 : config := mkConfig true false true true false false.
(* a full run from a fresh ATLAS package delivers this invocation's output; the next -r run delivers elsewhere *)
Example C16_ex_atlas_run :
  let W0 := fresh_world B_atlas_r21 cfg0 None None None in
  let r1 := invoke Runner_atlas_r21.script cfg0 W0 [] none "n1" in
  let r2 := invoke Runner_atlas_r21.script cfg0 r1.(r_st).(fsys) ["-r"; "-d"; "/data/x.root"; "-o"; "/out2"] none "n2" in
  r1.(r_exit) = 0 /\ fs_get r1.(r_st).(fsys) ["results"; "ANALYSIS.root"] = Some (File (job_output "n1" default_filelist)) /\
  r2.(r_exit) = 0 /\ fs_get r2.(r_st).(fsys) ["out2"; "ANALYSIS.root"] = Some (File (job_output "n2" ("/data/x.root" +++ nl))) /\
  List.length r1.(r_st).(tlog) = 25 /\ List.length r2.(r_st).(tlog) = 5.
Proof. vm_compute. repeat split; reflexivity. Qed.
(* the analysis job fails: exit 1, nothing delivered *)
Example C16_ex_cms_fail :
  let W0 := fresh_world B_cms_r5 cfg0 None None None in
  let r := invoke Runner_cms_r5.script cfg0 W0 [] (single 8) "n1" in
  r.(r_exit) = 1 /\ fs_get r.(r_st).(fsys) ["results"; "ANALYSIS.root"] = None /\ log_has "cmsRun" r.(r_st).(tlog) = true.
Proof. vm_compute. repeat split; reflexivity. Qed.
