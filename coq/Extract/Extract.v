(* Extraction of the executable models.  Directives used: ExtrOcamlBasic (bool, option, list, prod,
   unit, sumbool -> OCaml's own) and ExtrOcamlString (ascii -> char, string -> char list).
   Z, N, positive and nat stay the extracted inductive types. *)
From Coq Require Extraction ExtrOcamlBasic ExtrOcamlString.
From FV Require Import Base.Prelude Driver.
Extraction Language OCaml.
Set Extraction KeepSingleton.
Extraction "fvmodel.ml" dispatch.
