(* C04: proofs about the lowering schemas of Model/Lowering.v over the big-step semantics Cpp/Exec.v.
   Every statement is for ALL sub-fragments (blocks / statement lists / expressions), all events, all states. *)
From FV Require Import Base.Prelude Cpp.IR Cpp.Exec Model.Lowering.
From Coq Require Import QArith.
Close Scope Q_scope.

(* ---------- unfolding equations of the semantics (all by computation) ---------- *)
Lemma exec_stmts_cons : forall (brs : list branch) (ev : event) (s : stmt) (r : stmts) (st : state),
  exec_stmts brs ev (SCons s r) st = rbind (exec_stmt brs ev s st) (fun st' => exec_stmts brs ev r st').
Proof. reflexivity. Qed.
Lemma exec_stmts_nil : forall (brs : list branch) (ev : event) (st : state), exec_stmts brs ev SNil st = ROk st.
Proof. reflexivity. Qed.
Lemma exec_if : forall (brs : list branch) (ev : event) (c : cexp) (b : block) (els : option block) (st : state),
  exec_stmt brs ev (SIf c b els) st =
  rbind (eval ev st c) (fun v => rbind (truth v) (fun t =>
    if t then exec_block brs ev b [] st
    else match els with Some b2 => exec_block brs ev b2 [] st | None => ROk st end)).
Proof. reflexivity. Qed.
Lemma exec_set : forall (brs : list branch) (ev : event) (x : string) (c : option string) (e : cexp) (st : state),
  exec_stmt brs ev (SSet x c e) st =
  rbind (eval ev st e) (fun v =>
    match lookup x st with
    | None => RStuck (KUnbound x)
    | Some (t, _) =>
        let v1 := match c with Some ct => conv ct v | None => v end in
        match assign x (conv t v1) st with Some st' => ROk st' | None => RStuck (KUnbound x) end
    end).
Proof. reflexivity. Qed.
(* the state in which a block's declarations run: a new innermost frame holding the loop variable, if any *)
Definition enter (pre : frame) (st : state) : state :=
  {| frames := pre :: frames st; members := members st; rows := rows st |}.
Lemma exec_block_eq : forall (brs : list branch) (ev : event) (ds : list decl) (body : stmts) (pre : frame) (st : state),
  exec_block brs ev (Blk ds body) pre st =
  rbind (run_decls ev ds (enter pre st)) (fun st1 =>
  rbind (exec_stmts brs ev body st1) (fun st2 => ROk (pop_frame st2))).
Proof. reflexivity. Qed.
Lemma eval_var : forall (ev : event) (st : state) (x : string),
  eval ev st (CVar x) = match lookup x st with
                        | None => RStuck (KUnbound x)
                        | Some (_, VUninit) => RStuck (KUninit x)
                        | Some (_, v) => ROk v
                        end.
Proof. reflexivity. Qed.
Lemma eval_not : forall (ev : event) (st : state) (a : cexp),
  eval ev st (CNot a) = rbind (eval ev st a) (fun x => unary "!" x).
Proof. reflexivity. Qed.
Lemma eval_meth : forall (ev : event) (st : state) (o : cexp) (ar : bool) (m : string) (args : cexps),
  eval ev st (CMeth o ar m args) =
  rbind (eval ev st o) (fun x => rbind (eval_args ev st args) (fun vs => call_method ev x m vs)).
Proof. reflexivity. Qed.
Lemma app_stmts_nil : forall (l : stmts), app_stmts l SNil = l.
Proof. induction l as [|s l IH]; simpl; [reflexivity|rewrite IH; reflexivity]. Qed.

(* ---------- sequencing ---------- *)
Lemma exec_stmts_app : forall (brs : list branch) (ev : event) (a b : stmts) (st : state),
  exec_stmts brs ev (app_stmts a b) st = rbind (exec_stmts brs ev a st) (fun st' => exec_stmts brs ev b st').
Proof.
  intros brs ev a. induction a as [|s r IH]; intros b st.
  - reflexivity.
  - cbn [app_stmts]. rewrite !exec_stmts_cons.
    destruct (exec_stmt brs ev s st) as [st'|f|k]; cbn [rbind]; [apply IH|reflexivity|reflexivity].
Qed.

Lemma exec_one : forall (brs : list branch) (ev : event) (s : stmt) (st : state),
  exec_stmts brs ev (one_stmt s) st = exec_stmt brs ev s st.
Proof.
  intros. unfold one_stmt. rewrite exec_stmts_cons. destruct (exec_stmt brs ev s st); reflexivity.
Qed.

(* ---------- environments ---------- *)
Lemma frame_set_get : forall (x : string) (v : value) (f : frame) (t : string) (old : value),
  frame_get x f = Some (t, old) ->
  exists f', frame_set x v f = Some f' /\ frame_get x f' = Some (t, v).
Proof.
  intros x v f. induction f as [|[y [t0 w]] r IH]; intros t old H; simpl in *.
  - discriminate.
  - destruct (String.eqb x y) eqn:E.
    + inversion H; subst. eexists. split; [reflexivity|]. simpl. rewrite E. reflexivity.
    + destruct (IH _ _ H) as [f' [Hs Hg]]. rewrite Hs. eexists. split; [reflexivity|].
      simpl. rewrite E. exact Hg.
Qed.

Lemma frame_set_none : forall (x : string) (v : value) (f : frame),
  frame_get x f = None -> frame_set x v f = None.
Proof.
  intros x v f. induction f as [|[y [t0 w]] r IH]; intros H; simpl in *.
  - reflexivity.
  - destruct (String.eqb x y) eqn:E; [discriminate|]. rewrite (IH H). reflexivity.
Qed.

Lemma frames_set_get : forall (x : string) (v : value) (fs : list frame) (t : string) (old : value),
  frames_get x fs = Some (t, old) ->
  exists fs', frames_set x v fs = Some fs' /\ frames_get x fs' = Some (t, v).
Proof.
  intros x v fs. induction fs as [|f r IH]; intros t old H; simpl in *.
  - discriminate.
  - destruct (frame_get x f) as [[t1 o1]|] eqn:G.
    + inversion H; subst. destruct (frame_set_get x v f _ _ G) as [f' [Hs Hg]].
      rewrite Hs. eexists. split; [reflexivity|]. simpl. rewrite Hg. reflexivity.
    + rewrite (frame_set_none x v f G). destruct (IH _ _ H) as [fs' [Hs Hg]]. rewrite Hs.
      eexists. split; [reflexivity|]. simpl. rewrite G. exact Hg.
Qed.

Lemma frames_set_none : forall (x : string) (v : value) (fs : list frame),
  frames_get x fs = None -> frames_set x v fs = None.
Proof.
  intros x v fs. induction fs as [|f r IH]; intros H; simpl in *.
  - reflexivity.
  - destruct (frame_get x f) as [tv|] eqn:G; [discriminate|].
    rewrite (frame_set_none x v f G). rewrite (IH H). reflexivity.
Qed.

(* assignment to a bound name succeeds, keeps the declared type and stores the value *)
Lemma assign_lookup : forall (x : string) (v : value) (st : state) (t : string) (old : value),
  lookup x st = Some (t, old) ->
  exists st', assign x v st = Some st' /\ lookup x st' = Some (t, v).
Proof.
  intros x v st t old H. unfold lookup in H. unfold assign.
  destruct (frames_get x (frames st)) as [[t1 o1]|] eqn:G.
  - inversion H; subst. destruct (frames_set_get x v _ _ _ G) as [fs' [Hs Hg]]. rewrite Hs.
    eexists. split; [reflexivity|]. unfold lookup. simpl. rewrite Hg. reflexivity.
  - rewrite (frames_set_none x v _ G). destruct (frame_set_get x v _ _ _ H) as [m' [Hs Hg]]. rewrite Hs.
    eexists. split; [reflexivity|]. unfold lookup. simpl. rewrite G. exact Hg.
Qed.

(* the same, seen from outside the innermost frame when that frame does not bind x (the assignment made
   inside an arm / operand block survives the block's exit) *)
Lemma assign_lookup_outer : forall (x : string) (v : value) (st : state) (t : string) (old : value),
  lookup x st = Some (t, old) ->
  frame_get x (hd [] (frames st)) = None ->
  exists st', assign x v st = Some st' /\ lookup x (pop_frame st') = Some (t, v).
Proof.
  intros x v st t old H Hhd. unfold lookup in H. unfold assign.
  destruct st as [fs ms rs]. simpl in *.
  destruct fs as [|f r]; simpl in *.
  - destruct (frame_set_get x v _ _ _ H) as [m' [Hs Hg]]. rewrite Hs.
    eexists. split; [reflexivity|]. unfold lookup, pop_frame. simpl. exact Hg.
  - rewrite Hhd in H. rewrite (frame_set_none x v f Hhd).
    destruct (frames_get x r) as [[t1 o1]|] eqn:G.
    + inversion H; subst. destruct (frames_set_get x v _ _ _ G) as [fs' [Hs Hg]]. rewrite Hs.
      eexists. split; [reflexivity|]. unfold lookup, pop_frame. simpl. rewrite Hg. reflexivity.
    + rewrite (frames_set_none x v _ G). destruct (frame_set_get x v _ _ _ H) as [m' [Hs Hg]]. rewrite Hs.
      eexists. split; [reflexivity|]. unfold lookup, pop_frame. simpl. rewrite G. exact Hg.
Qed.

(* res = v;  stores the value of v converted to the declared type of res *)
Lemma set_result : forall (brs : list branch) (ev : event) (res : string) (v : cexp) (st : state)
                          (t : string) (old x : value),
  lookup res st = Some (t, old) ->
  eval ev st v = ROk x ->
  exists st', exec_stmt brs ev (SSet res None v) st = ROk st' /\ lookup res st' = Some (t, conv t x).
Proof.
  intros brs ev res v st t old x Hl He. rewrite exec_set, He. cbn [rbind]. rewrite Hl.
  destruct (assign_lookup res (conv t x) st t old Hl) as [st' [Ha Hg]]. rewrite Ha.
  exists st'. split; [reflexivity|exact Hg].
Qed.

(* ================================================================================================ *)
(* and / or                                                                                          *)
(* ================================================================================================ *)
Lemma guard_and_value : forall (ev : event) (res : string) (st : state) (t : string) (b : bool),
  lookup res st = Some (t, VBool b) ->
  rbind (eval ev st (bo_check true res)) truth = ROk b.
Proof. intros ev res st t b H. cbn [bo_check]. rewrite eval_var, H. destruct b; reflexivity. Qed.

Lemma guard_or_value : forall (ev : event) (res : string) (st : state) (t : string) (b : bool),
  lookup res st = Some (t, VBool b) ->
  rbind (eval ev st (bo_check false res)) truth = ROk (negb b).
Proof. intros ev res st t b H. cbn [bo_check]. rewrite eval_not, eval_var, H. destruct b; reflexivity. Qed.

(* one guard, skipping: the operand block b is arbitrary - it may fault, be stuck, anything *)
Lemma and_skip_one : forall (brs : list branch) (ev : event) (res : string) (b : block) (st : state) (t : string),
  lookup res st = Some (t, VBool false) ->
  exec_stmt brs ev (SIf (bo_check true res) b None) st = ROk st.
Proof.
  intros brs ev res b st t H. rewrite exec_if. cbn [bo_check]. rewrite eval_var, H. reflexivity.
Qed.

Lemma or_skip_one : forall (brs : list branch) (ev : event) (res : string) (b : block) (st : state) (t : string),
  lookup res st = Some (t, VBool true) ->
  exec_stmt brs ev (SIf (bo_check false res) b None) st = ROk st.
Proof.
  intros brs ev res b st t H. rewrite exec_if. cbn [bo_check]. rewrite eval_not, eval_var, H. reflexivity.
Qed.

Lemma and_enter_one : forall (brs : list branch) (ev : event) (res : string) (b : block) (st : state) (t : string),
  lookup res st = Some (t, VBool true) ->
  exec_stmt brs ev (SIf (bo_check true res) b None) st = exec_block brs ev b [] st.
Proof.
  intros brs ev res b st t H. rewrite exec_if. cbn [bo_check]. rewrite eval_var, H. reflexivity.
Qed.

Lemma or_enter_one : forall (brs : list branch) (ev : event) (res : string) (b : block) (st : state) (t : string),
  lookup res st = Some (t, VBool false) ->
  exec_stmt brs ev (SIf (bo_check false res) b None) st = exec_block brs ev b [] st.
Proof.
  intros brs ev res b st t H. rewrite exec_if. cbn [bo_check]. rewrite eval_not, eval_var, H. reflexivity.
Qed.

(* n operands: once the result is the absorbing value, NONE of the remaining operand blocks runs *)
Lemma bo_tail_skip : forall (brs : list branch) (ev : event) (is_and : bool) (res : string) (ops : list block)
                            (rest : stmts) (st : state) (t : string),
  lookup res st = Some (t, VBool (negb is_and)) ->
  exec_stmts brs ev (app_stmts (bo_tail is_and res ops) rest) st = exec_stmts brs ev rest st.
Proof.
  intros brs ev is_and res ops rest st t H. induction ops as [|b r IH].
  - reflexivity.
  - cbn [bo_tail app_stmts]. rewrite exec_stmts_cons.
    destruct is_and.
    + rewrite (and_skip_one brs ev res b st t H). cbn [rbind]. exact IH.
    + rewrite (or_skip_one brs ev res b st t H). cbn [rbind]. exact IH.
Qed.

Lemma bo_tail_enter : forall (brs : list branch) (ev : event) (is_and : bool) (res : string) (b : block)
                             (ops : list block) (rest : stmts) (st : state) (t : string),
  lookup res st = Some (t, VBool is_and) ->
  exec_stmts brs ev (app_stmts (bo_tail is_and res (b :: ops)) rest) st
  = rbind (exec_block brs ev b [] st) (fun st' => exec_stmts brs ev (app_stmts (bo_tail is_and res ops) rest) st').
Proof.
  intros brs ev is_and res b ops rest st t H.
  cbn [bo_tail app_stmts]. rewrite exec_stmts_cons.
  destruct is_and.
  - rewrite (and_enter_one brs ev res b st t H). reflexivity.
  - rewrite (or_enter_one brs ev res b st t H). reflexivity.
Qed.

(* n operands, one step: which operand block executes next, as a function of the running result *)
Lemma bo_tail_run : forall (brs : list branch) (ev : event) (is_and : bool) (res : string) (ops : list block)
                           (st : state) (t : string) (x : bool),
  lookup res st = Some (t, VBool x) ->
  exec_stmts brs ev (bo_tail is_and res ops) st =
  match ops with
  | [] => ROk st
  | b :: r => if Bool.eqb x is_and
              then rbind (exec_block brs ev b [] st) (fun st' => exec_stmts brs ev (bo_tail is_and res r) st')
              else ROk st
  end.
Proof.
  intros brs ev is_and res ops st t x H. destruct ops as [|b r]; [reflexivity|].
  destruct (Bool.eqb x is_and) eqn:E.
  - apply Bool.eqb_prop in E. subst x.
    pose proof (bo_tail_enter brs ev is_and res b r SNil st t H) as P.
    pose proof app_stmts_nil as A.
    rewrite !A in P. rewrite P. f_equal.
  - assert (x = negb is_and) by (destruct x, is_and; simpl in E; try discriminate; reflexivity). subst x.
    pose proof (bo_tail_skip brs ev is_and res (b :: r) SNil st t H) as P.
    pose proof app_stmts_nil as A.
    rewrite A in P. exact P.
Qed.

(* whole schema, lazy case: the first operand's code ended with res = absorbing value *)
Lemma bo_lower_lazy : forall (brs : list branch) (ev : event) (is_and : bool) (res : string) (code1 : stmts)
                             (v1 : cexp) (ops : list block) (st st1 : state) (t : string),
  exec_stmts brs ev (bo_first res code1 v1) st = ROk st1 ->
  lookup res st1 = Some (t, VBool (negb is_and)) ->
  exec_stmts brs ev (bo_lower is_and res code1 v1 ops) st = ROk st1.
Proof.
  intros brs ev is_and res code1 v1 ops st st1 t H1 Hl. unfold bo_lower.
  rewrite exec_stmts_app. rewrite H1. cbn [rbind].
  pose proof (bo_tail_skip brs ev is_and res ops SNil st1 t Hl) as P.
  pose proof app_stmts_nil as A.
  rewrite A in P. exact P.
Qed.

(* whole schema, eager case: the next operand block runs, then the rest of the chain from its result *)
Lemma bo_lower_eval : forall (brs : list branch) (ev : event) (is_and : bool) (res : string) (code1 : stmts)
                             (v1 : cexp) (b : block) (ops : list block) (st st1 : state) (t : string),
  exec_stmts brs ev (bo_first res code1 v1) st = ROk st1 ->
  lookup res st1 = Some (t, VBool is_and) ->
  exec_stmts brs ev (bo_lower is_and res code1 v1 (b :: ops)) st
  = rbind (exec_block brs ev b [] st1) (fun st2 => exec_stmts brs ev (bo_tail is_and res ops) st2).
Proof.
  intros brs ev is_and res code1 v1 b ops st st1 t H1 Hl. unfold bo_lower.
  rewrite exec_stmts_app. rewrite H1. cbn [rbind].
  pose proof (bo_tail_enter brs ev is_and res b ops SNil st1 t Hl) as P.
  pose proof app_stmts_nil as A.
  rewrite !A in P. exact P.
Qed.

(* the value an operand block of the common shape leaves in res: its own value, converted to bool *)
Lemma operand_value : forall (brs : list branch) (ev : event) (res : string) (ds : list decl) (code : stmts)
                             (v : cexp) (st st2 : state) (t : string) (old x : value),
  rbind (run_decls ev ds (enter [] st)) (fun s1 => exec_stmts brs ev code s1) = ROk st2 ->
  lookup res st2 = Some (t, old) ->
  frame_get res (hd [] (frames st2)) = None ->
  eval ev st2 v = ROk x ->
  exists st3, exec_block brs ev (bo_operand res ds code v) [] st = ROk st3
              /\ lookup res st3 = Some (t, conv t x).
Proof.
  intros brs ev res ds code v st st2 t old x Hrun Hl Hhd He.
  unfold bo_operand. rewrite exec_block_eq.
  destruct (run_decls ev ds (enter [] st)) as [s1|f|k];
    cbn [rbind] in Hrun; try discriminate.
  cbn [rbind]. unfold snoc_stmts. rewrite exec_stmts_app. rewrite Hrun. cbn [rbind].
  change (SCons (SSet res None v) SNil) with (one_stmt (SSet res None v)). rewrite exec_one.
  rewrite exec_set. rewrite He. cbn [rbind]. rewrite Hl.
  destruct (assign_lookup_outer res (conv t x) st2 t old Hl Hhd) as [st' [Ha Hg]].
  cbv zeta. rewrite Ha. cbn [rbind]. exists (pop_frame st'). split; [reflexivity|exact Hg].
Qed.

(* ================================================================================================ *)
(* conditional expression                                                                            *)
(* ================================================================================================ *)
Lemma ie_taken_true : forall (brs : list branch) (ev : event) (test : cexp) (bT bE : block) (st : state) (v : value),
  eval ev st test = ROk v -> truth v = ROk true ->
  exec_stmt brs ev (SIf test bT (Some bE)) st = exec_block brs ev bT [] st.
Proof. intros brs ev test bT bE st v He Ht. rewrite exec_if, He. cbn [rbind]. rewrite Ht. reflexivity. Qed.

Lemma ie_taken_false : forall (brs : list branch) (ev : event) (test : cexp) (bT bE : block) (st : state) (v : value),
  eval ev st test = ROk v -> truth v = ROk false ->
  exec_stmt brs ev (SIf test bT (Some bE)) st = exec_block brs ev bE [] st.
Proof. intros brs ev test bT bE st v He Ht. rewrite exec_if, He. cbn [rbind]. rewrite Ht. reflexivity. Qed.

Lemma ie_lower_run : forall (brs : list branch) (ev : event) (test_code : stmts) (test : cexp) (bT bE : block)
                            (st st1 : state) (v : value) (c : bool),
  exec_stmts brs ev test_code st = ROk st1 ->
  eval ev st1 test = ROk v -> truth v = ROk c ->
  exec_stmts brs ev (ie_lower test_code test bT bE) st = exec_block brs ev (if c then bT else bE) [] st1.
Proof.
  intros brs ev test_code test bT bE st st1 v c H1 He Ht. unfold ie_lower, snoc_stmts.
  rewrite exec_stmts_app. rewrite H1. cbn [rbind].
  change (SCons (SIf test bT (Some bE)) SNil) with (one_stmt (SIf test bT (Some bE))). rewrite exec_one.
  destruct c.
  - apply (ie_taken_true brs ev test bT bE st1 v He Ht).
  - apply (ie_taken_false brs ev test bT bE st1 v He Ht).
Qed.

(* ================================================================================================ *)
(* Where                                                                                             *)
(* ================================================================================================ *)
Lemma where_skip : forall (brs : list branch) (ev : event) (pred : cexp) (downstream : block) (st : state) (v : value),
  eval ev st pred = ROk v -> truth v = ROk false ->
  exec_stmt brs ev (SIf pred downstream None) st = ROk st.
Proof. intros brs ev pred d st v He Ht. rewrite exec_if, He. cbn [rbind]. rewrite Ht. reflexivity. Qed.

Lemma where_pass : forall (brs : list branch) (ev : event) (pred : cexp) (downstream : block) (st : state) (v : value),
  eval ev st pred = ROk v -> truth v = ROk true ->
  exec_stmt brs ev (SIf pred downstream None) st = exec_block brs ev downstream [] st.
Proof. intros brs ev pred d st v He Ht. rewrite exec_if, He. cbn [rbind]. rewrite Ht. reflexivity. Qed.

Lemma wh_lower_skip : forall (brs : list branch) (ev : event) (pred_code : stmts) (pred : cexp) (downstream : block)
                             (st st1 : state) (v : value),
  exec_stmts brs ev pred_code st = ROk st1 ->
  eval ev st1 pred = ROk v -> truth v = ROk false ->
  exec_stmts brs ev (wh_lower pred_code pred downstream) st = ROk st1.
Proof.
  intros brs ev pc pred d st st1 v H1 He Ht. unfold wh_lower, snoc_stmts.
  rewrite exec_stmts_app. rewrite H1. cbn [rbind].
  change (SCons (SIf pred d None) SNil) with (one_stmt (SIf pred d None)). rewrite exec_one.
  apply (where_skip brs ev pred d st1 v He Ht).
Qed.

(* ================================================================================================ *)
(* indexing and null links                                                                           *)
(* ================================================================================================ *)
Lemma at_value : forall (ev : event) (st : state) (v i : cexp) (arrow : bool) (l : list value) (n : Z),
  eval ev st v = ROk (VVec l) -> eval ev st i = ROk (VInt n) ->
  eval ev st (sub_lower v arrow i) =
  if (n <? 0)%Z then RFault FOutOfRange
  else match nth_error l (Z.to_nat n) with Some x => ROk x | None => RFault FOutOfRange end.
Proof. intros ev st v i arrow l n Hv Hi. unfold sub_lower. rewrite eval_meth, Hv. cbn [rbind eval_args]. rewrite Hi. reflexivity. Qed.

Lemma at_faults_iff : forall (ev : event) (st : state) (v i : cexp) (arrow : bool) (l : list value) (n : Z),
  eval ev st v = ROk (VVec l) -> eval ev st i = ROk (VInt n) ->
  (eval ev st (sub_lower v arrow i) = RFault FOutOfRange <-> (n < 0 \/ Z.of_nat (List.length l) <= n)%Z)
  /\ ((0 <= n < Z.of_nat (List.length l))%Z ->
      exists x, nth_error l (Z.to_nat n) = Some x /\ eval ev st (sub_lower v arrow i) = ROk x).
Proof.
  intros ev st v i arrow l n Hv Hi. rewrite (at_value ev st v i arrow l n Hv Hi).
  split.
  - split.
    + intros H. destruct (n <? 0)%Z eqn:E.
      * left. apply Z.ltb_lt. exact E.
      * right. apply Z.ltb_ge in E.
        destruct (nth_error l (Z.to_nat n)) eqn:N; [discriminate|].
        apply nth_error_None in N. lia.
    + intros [H|H].
      * apply Z.ltb_lt in H. rewrite H. reflexivity.
      * destruct (n <? 0)%Z; [reflexivity|].
        assert (N : nth_error l (Z.to_nat n) = None) by (apply nth_error_None; lia).
        rewrite N. reflexivity.
  - intros [H0 H1].
    assert (E : (n <? 0)%Z = false) by (apply Z.ltb_ge; lia). rewrite E.
    destruct (nth_error l (Z.to_nat n)) eqn:N.
    + exists v0. split; reflexivity.
    + apply nth_error_None in N. lia.
Qed.

Lemma null_call_faults : forall (ev : event) (st : state) (o : cexp) (arrow : bool) (m : string) (args : cexps)
                                (vs : list value),
  eval ev st o = ROk VNull -> eval_args ev st args = ROk vs ->
  eval ev st (CMeth o arrow m args) = RFault FNullDeref.
Proof. intros ev st o arrow m args vs Ho Ha. rewrite eval_meth, Ho, Ha. reflexivity. Qed.

Lemma null_guard_skip : forall (brs : list branch) (ev : event) (nonnull : string) (guarded : block) (st : state) (t : string),
  lookup nonnull st = Some (t, VBool false) ->
  exec_stmt brs ev (ng_lower nonnull guarded) st = ROk st.
Proof. intros brs ev nn g st t H. unfold ng_lower. rewrite exec_if, eval_var, H. reflexivity. Qed.

(* ================================================================================================ *)
(* First                                                                                             *)
(* ================================================================================================ *)
Definition for_loop (brs : list branch) (ev : event) (x : string) (b : block) : list value -> state -> Exec.res state :=
  fix loop (l : list value) (st : state) {struct l} : Exec.res state :=
  match l with
  | [] => ROk st
  | v :: r => rbind (exec_block brs ev b [(x, ("auto", v))] st) (fun st' => loop r st')
  end.
Lemma for_loop_nil : forall brs ev x b (st : state), for_loop brs ev x b [] st = ROk st.
Proof. reflexivity. Qed.
Lemma for_loop_cons : forall brs ev x b (v : value) (r : list value) (st : state),
  for_loop brs ev x b (v :: r) st =
  rbind (exec_block brs ev b [(x, ("auto", v))] st) (fun st' => for_loop brs ev x b r st').
Proof. reflexivity. Qed.

Lemma exec_for : forall (brs : list branch) (ev : event) (x : string) (e : cexp) (b : block) (st : state),
  exec_stmt brs ev (SFor x e b) st =
  rbind (eval ev st e) (fun c =>
    match c with
    | VVec l => for_loop brs ev x b l st
    | _ => RStuck (KType "range of a for loop is not a vector")
    end).
Proof. reflexivity. Qed.

Lemma pop_enter : forall (pre : frame) (st : state), pop_frame (enter pre st) = st.
Proof. intros pre st. destruct st; reflexivity. Qed.

Lemma throw_if_armed : forall (brs : list branch) (ev : event) (isf line : string) (st : state) (t : string),
  lookup isf st = Some (t, VBool true) ->
  exec_stmt brs ev (fi_throw isf line) st = RFault FThrow.
Proof. intros brs ev isf line st t H. unfold fi_throw. rewrite exec_if, eval_var, H. reflexivity. Qed.

Lemma throw_if_done : forall (brs : list branch) (ev : event) (isf line : string) (st : state) (t : string),
  lookup isf st = Some (t, VBool false) ->
  exec_stmt brs ev (fi_throw isf line) st = ROk st.
Proof. intros brs ev isf line st t H. unfold fi_throw. rewrite exec_if, eval_var, H. reflexivity. Qed.

(* ---- generic: ANY loop body that honours the First contract ---- *)
Section FirstGeneric.
Variable brs : list branch.
Variable ev : event.
Variables isf x line tb : string.
Variable body : block.
Variable p : value -> bool.          (* the element passes the guards *)
Variable Q : value -> Prop.          (* the elements under consideration *)
Variable Done : state -> Prop.

Let step (v : value) (st : state) := exec_block brs ev body [(x, ("auto", v))] st.
Let Armed (st : state) := lookup isf st = Some (tb, VBool true).

(* a rejected element executes nothing that lasts *)
Hypothesis H_rej : forall v st, Q v -> p v = false -> Armed st -> step v st = ROk st.
(* the capture disarms the flag *)
Hypothesis H_cap : forall v st st', Q v -> p v = true -> Armed st -> step v st = ROk st' -> Done st'.
Hypothesis H_done_flag : forall st, Done st -> lookup isf st = Some (tb, VBool false).
(* once disarmed, later elements change nothing *)
Hypothesis H_done : forall v st, Q v -> Done st -> step v st = ROk st.

Lemma loop_done : forall (l : list value) (st : state),
  Forall Q l -> Done st -> for_loop brs ev x body l st = ROk st.
Proof.
  induction l as [|v r IH]; intros st HQ HD; [reflexivity|rewrite for_loop_cons].
  inversion HQ as [|? ? Hv Hr]; subst.
    fold (step v st). rewrite (H_done v st Hv HD). cbn [rbind]. apply IH; assumption.
Qed.

Lemma loop_armed : forall (l : list value) (st : state),
  Forall Q l -> Armed st ->
  for_loop brs ev x body l st =
  match first_passing p l with
  | None => ROk st
  | Some w => step w st
  end.
Proof.
  induction l as [|v r IH]; intros st HQ HA; [reflexivity|rewrite for_loop_cons].
  - inversion HQ as [|? ? Hv Hr]; subst. unfold first_passing. cbn [filter].
    destruct (p v) eqn:E.
    + fold (step v st). destruct (step v st) as [st'|f|k] eqn:S; cbn [rbind]; try reflexivity.
      apply loop_done; [assumption|]. apply (H_cap v st st' Hv E HA S).
    + fold (step v st). rewrite (H_rej v st Hv E HA). cbn [rbind].
      rewrite (IH st Hr HA). reflexivity.
Qed.

Lemma first_generic : forall (coll : cexp) (l : list value) (st : state),
  Forall Q l -> Armed st -> eval ev st coll = ROk (VVec l) ->
  exec_stmts brs ev (fi_lower isf x coll body line) st =
  match first_passing p l with
  | None => RFault FThrow
  | Some w => step w st
  end.
Proof.
  intros coll l st HQ HA He. unfold fi_lower. rewrite exec_stmts_cons, exec_for, He. cbn [rbind].
  rewrite (loop_armed l st HQ HA).
  destruct (first_passing p l) as [w|] eqn:F.
  - destruct (step w st) as [st'|f|k] eqn:S; cbn [rbind]; try reflexivity.
    rewrite exec_one.
    assert (HD : Done st').
    { unfold first_passing in F. destruct (filter p l) as [|w' r] eqn:Fl; [discriminate|].
      inversion F; subst w'.
      assert (Hin : In w (filter p l)) by (rewrite Fl; left; reflexivity).
      apply filter_In in Hin. destruct Hin as [Hin Hp].
      rewrite Forall_forall in HQ. apply (H_cap w st st' (HQ w Hin) Hp HA S). }
    apply (throw_if_done brs ev isf line st' tb (H_done_flag st' HD)).
  - cbn [rbind]. rewrite exec_one. apply (throw_if_armed brs ev isf line st tb HA).
Qed.
End FirstGeneric.

(* ---- the schema of call_First with a chain of per-element guard conditions ---- *)
(* guard k is evaluated inside k nested (declaration-free) blocks, exactly as the emitted ifs nest *)
Fixpoint guards_pass (ev : event) (s : state) (conds : list cexp) : Exec.res bool :=
  match conds with
  | [] => ROk true
  | c :: r => rbind (eval ev s c) (fun v => rbind (truth v) (fun t =>
                if t then guards_pass ev (enter [] s) r else ROk false))
  end.

Fixpoint nest_run (ev : event) (k : state -> Exec.res state) (conds : list cexp) (s : state) : Exec.res state :=
  match conds with
  | [] => k s
  | c :: r => rbind (eval ev s c) (fun v => rbind (truth v) (fun t =>
                if t then rbind (nest_run ev k r (enter [] s)) (fun s2 => ROk (pop_frame s2)) else ROk s))
  end.

Lemma guards_exec : forall (brs : list branch) (ev : event) (inner : stmt) (conds : list cexp) (s : state),
  exec_stmt brs ev (fi_guards conds inner) s = nest_run ev (exec_stmt brs ev inner) conds s.
Proof.
  intros brs ev inner conds. induction conds as [|c r IH]; intros s; cbn [fi_guards nest_run].
  - reflexivity.
  - rewrite exec_if. destruct (eval ev s c) as [v|f|k]; cbn [rbind]; try reflexivity.
    destruct (truth v) as [t|f|k]; cbn [rbind]; try reflexivity.
    destruct t; [|reflexivity].
    rewrite exec_block_eq. cbn [run_decls rbind]. rewrite exec_one. rewrite IH.
    destruct (nest_run ev (exec_stmt brs ev inner) r (enter [] s)); reflexivity.
Qed.

Lemma nest_reject : forall (ev : event) (k : state -> Exec.res state) (conds : list cexp) (s : state),
  guards_pass ev s conds = ROk false -> nest_run ev k conds s = ROk s.
Proof.
  intros ev k conds. induction conds as [|c r IH]; intros s H; cbn [guards_pass nest_run] in *.
  - discriminate.
  - destruct (eval ev s c) as [v|f|kk]; cbn [rbind] in *; try discriminate.
    destruct (truth v) as [t|f|kk]; cbn [rbind] in *; try discriminate.
    destruct t; [|reflexivity].
    rewrite (IH _ H). cbn [rbind]. rewrite pop_enter. reflexivity.
Qed.

Lemma lookup_enter_nil : forall (y : string) (s : state), lookup y (enter [] s) = lookup y s.
Proof. intros y s. reflexivity. Qed.

Lemma lookup_enter_other : forall (y x t : string) (v : value) (s : state),
  String.eqb y x = false -> lookup y (enter [(x, (t, v))] s) = lookup y s.
Proof. intros y x t v s H. unfold lookup, enter. cbn [frames members frames_get frame_get]. rewrite H. reflexivity. Qed.

(* if the flag is already false the capture does not run, whatever the guards say (provided they evaluate) *)
Lemma nest_disarmed : forall (brs : list branch) (ev : event) (isf : string) (ds : list decl) (downstream : stmts)
                             (tb : string) (conds : list cexp) (s : state) (b : bool),
  guards_pass ev s conds = ROk b ->
  lookup isf s = Some (tb, VBool false) ->
  nest_run ev (exec_stmt brs ev (fi_capture isf ds downstream)) conds s = ROk s.
Proof.
  intros brs ev isf ds downstream tb conds. induction conds as [|c r IH]; intros s b H Hl;
    cbn [guards_pass nest_run] in *.
  - unfold fi_capture. rewrite exec_if, eval_var, Hl. reflexivity.
  - destruct (eval ev s c) as [v|f|kk]; cbn [rbind] in *; try discriminate.
    destruct (truth v) as [t|f|kk]; cbn [rbind] in *; try discriminate.
    destruct t; [|reflexivity].
    rewrite (IH (enter [] s) b H); [|rewrite lookup_enter_nil; exact Hl].
    cbn [rbind]. rewrite pop_enter. reflexivity.
Qed.

Lemma fi_body_step : forall (brs : list branch) (ev : event) (isf : string) (conds : list cexp) (ds : list decl)
                            (downstream : stmts) (pre : frame) (st : state),
  exec_block brs ev (fi_body isf conds ds downstream) pre st =
  rbind (nest_run ev (exec_stmt brs ev (fi_capture isf ds downstream)) conds (enter pre st))
        (fun s2 => ROk (pop_frame s2)).
Proof.
  intros. unfold fi_body. rewrite exec_block_eq. cbn [run_decls rbind]. rewrite exec_one, guards_exec. reflexivity.
Qed.

Lemma first_schema : forall (brs : list branch) (ev : event) (isf x line tb : string) (conds : list cexp)
                            (ds : list decl) (downstream : stmts) (coll : cexp) (l : list value) (st : state)
                            (p : value -> bool),
  String.eqb isf x = false ->
  lookup isf st = Some (tb, VBool true) ->
  eval ev st coll = ROk (VVec l) ->
  (* the guards evaluate (do not fault) on every element, and p says which elements pass *)
  (forall v, In v l -> guards_pass ev (enter [(x, ("auto", v))] st) conds = ROk (p v)) ->
  (* whatever runs downstream of the capture does not re-arm the flag, and the guards still evaluate afterwards *)
  (forall w s, first_passing p l = Some w ->
     exec_block brs ev (fi_body isf conds ds downstream) [(x, ("auto", w))] st = ROk s ->
     lookup isf s = Some (tb, VBool false)
     /\ forall v, In v l -> exists b, guards_pass ev (enter [(x, ("auto", v))] s) conds = ROk b) ->
  exec_stmts brs ev (fi_lower isf x coll (fi_body isf conds ds downstream) line) st =
  match first_passing p l with
  | None => RFault FThrow
  | Some w => exec_block brs ev (fi_body isf conds ds downstream) [(x, ("auto", w))] st
  end.
Proof.
  intros brs ev isf x line tb conds ds downstream coll l st p Hx HA He Hg Hcap.
  set (body := fi_body isf conds ds downstream) in *.
  (* armed phase: the state is st itself until the first passing element *)
  set (Done := fun s : state =>
         exists w, first_passing p l = Some w /\ exec_block brs ev body [(x, ("auto", w))] st = ROk s).
  (* the generic theorem is used at the single armed state st: restate its hypotheses there *)
  assert (Hrej : forall v, In v l -> p v = false ->
                 exec_block brs ev body [(x, ("auto", v))] st = ROk st).
  { intros v Hin Hp. unfold body. rewrite fi_body_step.
    rewrite nest_reject; [cbn [rbind]; rewrite pop_enter; reflexivity|].
    rewrite (Hg v Hin). rewrite Hp. reflexivity. }
  assert (Hdone : forall v s, In v l -> Done s ->
                  exec_block brs ev body [(x, ("auto", v))] s = ROk s).
  { intros v s Hin [w [Fw Sw]]. destruct (Hcap w s Fw Sw) as [Hf Hev].
    destruct (Hev v Hin) as [b Hb].
    unfold body. rewrite fi_body_step.
    rewrite (nest_disarmed brs ev isf ds downstream tb conds _ b Hb).
    - cbn [rbind]. rewrite pop_enter. reflexivity.
    - rewrite lookup_enter_other; [exact Hf|exact Hx]. }
  (* direct induction (the generic lemma needs its hypotheses at every armed state; here only st is armed) *)
  assert (LD : forall l', (forall v, In v l' -> In v l) -> forall s, Done s ->
               for_loop brs ev x body l' s = ROk s).
  { induction l' as [|v r IH]; intros Hsub s HD; [reflexivity|rewrite for_loop_cons].
    rewrite (Hdone v s (Hsub v (or_introl eq_refl)) HD). cbn [rbind].
    apply IH; [intros v' Hv'; apply Hsub; right; exact Hv'|exact HD]. }
  assert (LA : forall l', (forall v, In v l' -> In v l) ->
               (forall w, first_passing p l' = Some w -> first_passing p l = Some w) ->
               for_loop brs ev x body l' st =
               match first_passing p l' with
               | None => ROk st
               | Some w => exec_block brs ev body [(x, ("auto", w))] st
               end).
  { induction l' as [|v r IH]; intros Hsub Hfp; [reflexivity|rewrite for_loop_cons].
    unfold first_passing in *. cbn [filter] in *.
    destruct (p v) eqn:E.
    - destruct (exec_block brs ev body [(x, ("auto", v))] st) as [s'|f|k] eqn:S; cbn [rbind]; try reflexivity.
      apply LD; [intros v' Hv'; apply Hsub; right; exact Hv'|].
      exists v. split; [apply Hfp; reflexivity|exact S].
    - rewrite (Hrej v (Hsub v (or_introl eq_refl)) E). cbn [rbind].
      apply IH; [intros v' Hv'; apply Hsub; right; exact Hv'|exact Hfp]. }
  unfold fi_lower. rewrite exec_stmts_cons, exec_for, He. cbn [rbind].
  rewrite (LA l (fun v H => H) (fun w H => H)).
  destruct (first_passing p l) as [w|] eqn:F.
  - destruct (exec_block brs ev body [(x, ("auto", w))] st) as [s'|f|k] eqn:S; cbn [rbind]; try reflexivity.
    rewrite exec_one.
    destruct (Hcap w s' eq_refl S) as [Hf _].
    apply (throw_if_done brs ev isf line s' tb Hf).
  - cbn [rbind]. rewrite exec_one. apply (throw_if_armed brs ev isf line st tb HA).
Qed.

(* the conditional's arm of the common shape leaves its own value, converted to the result's type (double) *)
Lemma arm_value : forall (brs : list branch) (ev : event) (res : string) (ds : list decl) (code : stmts)
                         (v : cexp) (st st2 : state) (t : string) (old x : value),
  rbind (run_decls ev ds (enter [] st)) (fun s1 => exec_stmts brs ev code s1) = ROk st2 ->
  lookup res st2 = Some (t, old) ->
  frame_get res (hd [] (frames st2)) = None ->
  eval ev st2 v = ROk x ->
  exists st3, exec_block brs ev (ie_arm res ds code v) [] st = ROk st3
              /\ lookup res st3 = Some (t, conv t x).
Proof. exact operand_value. Qed.

(* recogniser soundness for the two First statements *)
Lemma is_capture_sound : forall (isf : string) (s : stmt),
  is_capture isf s = true ->
  exists ds rest, s = fi_capture isf ds rest /\ decls_occ isf ds = 0 /\ stmts_occ isf rest = 0.
Proof.
  intros isf s H. unfold is_capture in H.
  destruct s as [| | | | | | | | | |c b els|]; try discriminate.
  destruct c; try discriminate. destruct b as [ds body]. destruct body as [|s0 rest]; try discriminate.
  destruct s0 as [z cast e| | | | | | | | | | |]; try discriminate.
  destruct cast; try discriminate. destruct e; try discriminate. destruct b; try discriminate.
  destruct els; try discriminate.
  apply andb_prop in H. destruct H as [H H4]. apply andb_prop in H. destruct H as [H H3].
  apply andb_prop in H. destruct H as [H1 H2].
  apply String.eqb_eq in H1. apply String.eqb_eq in H2. apply Nat.eqb_eq in H3. apply Nat.eqb_eq in H4.
  subst. exists ds, rest. split; [reflexivity|split; assumption].
Qed.

Lemma is_throw_if_sound : forall (isf : string) (s : stmt),
  is_throw_if isf s = true -> exists line, s = fi_throw isf line.
Proof.
  intros isf s H. unfold is_throw_if in H.
  destruct s as [| | | | | | | | | |c b els|]; try discriminate.
  destruct c; try discriminate. destruct b as [ds body]. destruct ds; try discriminate.
  destruct body as [|s0 rest]; try discriminate.
  destruct s0; try discriminate. destruct rest; try discriminate. destruct els; try discriminate.
  apply String.eqb_eq in H. subst. exists line. reflexivity.
Qed.
