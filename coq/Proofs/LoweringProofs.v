(* C04: proofs about the lowering schemas of Model/Lowering.v over the big-step semantics Cpp/Exec.v.
   Every statement is for ALL sub-fragments (blocks / statement lists / expressions), all events, all states. *)
From FV Require Import Base.Prelude Cpp.IR Cpp.Exec Model.Lowering.
From Coq Require Import QArith.
Close Scope Q_scope.

(* ---------- unfolding equations of the semantics (all by computation) ---------- *)
Lemma exec_stmts_cons : forall (brs : list branch) (ev : event) (s : stmt) (r : stmts) (st : state),
  exec_stmts brs ev (SCons s r) st = rbind (exec_stmt brs ev s st) (fun st' => exec_stmts brs ev r st').
Proof. reflexivity. Qed.
Lemma exec_stmts_nil : forall (brs : list branch) (ev : event) (st : state), exec_stmts brs ev SNil st = ROk st.
Proof. reflexivity. Qed.
Lemma exec_if : forall (brs : list branch) (ev : event) (c : cexp) (b : block) (els : option block) (st : state),
  exec_stmt brs ev (SIf c b els) st =
  rbind (eval ev st c) (fun v => rbind (truth v) (fun t =>
    if t then exec_block brs ev b [] st
    else match els with Some b2 => exec_block brs ev b2 [] st | None => ROk st end)).
Proof. reflexivity. Qed.
Lemma exec_set : forall (brs : list branch) (ev : event) (x : string) (c : option string) (e : cexp) (st : state),
  exec_stmt brs ev (SSet x c e) st =
  rbind (eval ev st e) (fun v =>
    match lookup x st with
    | None => RStuck (KUnbound x)
    | Some (t, _) =>
        let v1 := match c with Some ct => conv ct v | None => v end in
        match assign x (conv t v1) st with Some st' => ROk st' | None => RStuck (KUnbound x) end
    end).
Proof. reflexivity. Qed.
(* the state in which a block's declarations run: a new innermost frame holding the loop variable, if any *)
Definition enter (pre : frame) (st : state) : state :=
  {| frames := pre :: frames st; members := members st; rows := rows st |}.
Lemma exec_block_eq : forall (brs : list branch) (ev : event) (ds : list decl) (body : stmts) (pre : frame) (st : state),
  exec_block brs ev (Blk ds body) pre st =
  rbind (run_decls ev ds (enter pre st)) (fun st1 =>
  rbind (exec_stmts brs ev body st1) (fun st2 => ROk (pop_frame st2))).
Proof. reflexivity. Qed.
Lemma eval_var : forall (ev : event) (st : state) (x : string),
  eval ev st (CVar x) = match lookup x st with
                        | None => RStuck (KUnbound x)
                        | Some (_, VUninit) => RStuck (KUninit x)
                        | Some (_, v) => ROk v
                        end.
Proof. reflexivity. Qed.
Lemma eval_not : forall (ev : event) (st : state) (a : cexp),
  eval ev st (CNot a) = rbind (eval ev st a) (fun x => unary "!" x).
Proof. reflexivity. Qed.
Lemma eval_meth : forall (ev : event) (st : state) (o : cexp) (ar : bool) (m : string) (args : cexps),
  eval ev st (CMeth o ar m args) =
  rbind (eval ev st o) (fun x => rbind (eval_args ev st args) (fun vs => call_method ev x m vs)).
Proof. reflexivity. Qed.
Lemma app_stmts_nil : forall (l : stmts), app_stmts l SNil = l.
Proof. induction l as [|s l IH]; simpl; [reflexivity|rewrite IH; reflexivity]. Qed.

(* ---------- sequencing ---------- *)
Lemma exec_stmts_app : forall (brs : list branch) (ev : event) (a b : stmts) (st : state),
  exec_stmts brs ev (app_stmts a b) st = rbind (exec_stmts brs ev a st) (fun st' => exec_stmts brs ev b st').
Proof.
  intros brs ev a. induction a as [|s r IH]; intros b st.
  - reflexivity.
  - cbn [app_stmts]. rewrite !exec_stmts_cons.
    destruct (exec_stmt brs ev s st) as [st'|f|k]; cbn [rbind]; [apply IH|reflexivity|reflexivity].
Qed.

Lemma exec_one : forall (brs : list branch) (ev : event) (s : stmt) (st : state),
  exec_stmts brs ev (one_stmt s) st = exec_stmt brs ev s st.
Proof.
  intros. unfold one_stmt. rewrite exec_stmts_cons. destruct (exec_stmt brs ev s st); reflexivity.
Qed.

(* ---------- environments ---------- *)
Lemma frame_set_get : forall (x : string) (v : value) (f : frame) (t : string) (old : value),
  frame_get x f = Some (t, old) ->
  exists f', frame_set x v f = Some f' /\ frame_get x f' = Some (t, v).
Proof.
  intros x v f. induction f as [|[y [t0 w]] r IH]; intros t old H; simpl in *.
  - discriminate.
  - destruct (String.eqb x y) eqn:E.
    + inversion H; subst. eexists. split; [reflexivity|]. simpl. rewrite E. reflexivity.
    + destruct (IH _ _ H) as [f' [Hs Hg]]. rewrite Hs. eexists. split; [reflexivity|].
      simpl. rewrite E. exact Hg.
Qed.

Lemma frame_set_none : forall (x : string) (v : value) (f : frame),
  frame_get x f = None -> frame_set x v f = None.
Proof.
  intros x v f. induction f as [|[y [t0 w]] r IH]; intros H; simpl in *.
  - reflexivity.
  - destruct (String.eqb x y) eqn:E; [discriminate|]. rewrite (IH H). reflexivity.
Qed.

Lemma frames_set_get : forall (x : string) (v : value) (fs : list frame) (t : string) (old : value),
  frames_get x fs = Some (t, old) ->
  exists fs', frames_set x v fs = Some fs' /\ frames_get x fs' = Some (t, v).
Proof.
  intros x v fs. induction fs as [|f r IH]; intros t old H; simpl in *.
  - discriminate.
  - destruct (frame_get x f) as [[t1 o1]|] eqn:G.
    + inversion H; subst. destruct (frame_set_get x v f _ _ G) as [f' [Hs Hg]].
      rewrite Hs. eexists. split; [reflexivity|]. simpl. rewrite Hg. reflexivity.
    + rewrite (frame_set_none x v f G). destruct (IH _ _ H) as [fs' [Hs Hg]]. rewrite Hs.
      eexists. split; [reflexivity|]. simpl. rewrite G. exact Hg.
Qed.

Lemma frames_set_none : forall (x : string) (v : value) (fs : list frame),
  frames_get x fs = None -> frames_set x v fs = None.
Proof.
  intros x v fs. induction fs as [|f r IH]; intros H; simpl in *.
  - reflexivity.
  - destruct (frame_get x f) as [tv|] eqn:G; [discriminate|].
    rewrite (frame_set_none x v f G). rewrite (IH H). reflexivity.
Qed.

(* assignment to a bound name succeeds, keeps the declared type and stores the value *)
Lemma assign_lookup : forall (x : string) (v : value) (st : state) (t : string) (old : value),
  lookup x st = Some (t, old) ->
  exists st', assign x v st = Some st' /\ lookup x st' = Some (t, v).
Proof.
  intros x v st t old H. unfold lookup in H. unfold assign.
  destruct (frames_get x (frames st)) as [[t1 o1]|] eqn:G.
  - inversion H; subst. destruct (frames_set_get x v _ _ _ G) as [fs' [Hs Hg]]. rewrite Hs.
    eexists. split; [reflexivity|]. unfold lookup. simpl. rewrite Hg. reflexivity.
  - rewrite (frames_set_none x v _ G). destruct (frame_set_get x v _ _ _ H) as [m' [Hs Hg]]. rewrite Hs.
    eexists. split; [reflexivity|]. unfold lookup. simpl. rewrite G. exact Hg.
Qed.

(* the same, seen from outside the innermost frame when that frame does not bind x (the assignment made
   inside an arm / operand block survives the block's exit) *)
Lemma assign_lookup_outer : forall (x : string) (v : value) (st : state) (t : string) (old : value),
  lookup x st = Some (t, old) ->
  frame_get x (hd [] (frames st)) = None ->
  exists st', assign x v st = Some st' /\ lookup x (pop_frame st') = Some (t, v).
Proof.
  intros x v st t old H Hhd. unfold lookup in H. unfold assign.
  destruct st as [fs ms rs]. simpl in *.
  destruct fs as [|f r]; simpl in *.
  - destruct (frame_set_get x v _ _ _ H) as [m' [Hs Hg]]. rewrite Hs.
    eexists. split; [reflexivity|]. unfold lookup, pop_frame. simpl. exact Hg.
  - rewrite Hhd in H. rewrite (frame_set_none x v f Hhd).
    destruct (frames_get x r) as [[t1 o1]|] eqn:G.
    + inversion H; subst. destruct (frames_set_get x v _ _ _ G) as [fs' [Hs Hg]]. rewrite Hs.
      eexists. split; [reflexivity|]. unfold lookup, pop_frame. simpl. rewrite Hg. reflexivity.
    + rewrite (frames_set_none x v _ G). destruct (frame_set_get x v _ _ _ H) as [m' [Hs Hg]]. rewrite Hs.
      eexists. split; [reflexivity|]. unfold lookup, pop_frame. simpl. rewrite G. exact Hg.
Qed.

(* res = v;  stores the value of v converted to the declared type of res *)
Lemma set_result : forall (brs : list branch) (ev : event) (res : string) (v : cexp) (st : state)
                          (t : string) (old x : value),
  lookup res st = Some (t, old) ->
  eval ev st v = ROk x ->
  exists st', exec_stmt brs ev (SSet res None v) st = ROk st' /\ lookup res st' = Some (t, conv t x).
Proof.
  intros brs ev res v st t old x Hl He. rewrite exec_set, He. cbn [rbind]. rewrite Hl.
  destruct (assign_lookup res (conv t x) st t old Hl) as [st' [Ha Hg]]. rewrite Ha.
  exists st'. split; [reflexivity|exact Hg].
Qed.

(* ================================================================================================ *)
(* and / or                                                                                          *)
(* ================================================================================================ *)
Lemma guard_and_value : forall (ev : event) (res : string) (st : state) (t : string) (b : bool),
  lookup res st = Some (t, VBool b) ->
  rbind (eval ev st (bo_check true res)) truth = ROk b.
Proof. intros ev res st t b H. cbn [bo_check]. rewrite eval_var, H. destruct b; reflexivity. Qed.

Lemma guard_or_value : forall (ev : event) (res : string) (st : state) (t : string) (b : bool),
  lookup res st = Some (t, VBool b) ->
  rbind (eval ev st (bo_check false res)) truth = ROk (negb b).
Proof. intros ev res st t b H. cbn [bo_check]. rewrite eval_not, eval_var, H. destruct b; reflexivity. Qed.

(* one guard, skipping: the operand block b is arbitrary - it may fault, be stuck, anything *)
Lemma and_skip_one : forall (brs : list branch) (ev : event) (res : string) (b : block) (st : state) (t : string),
  lookup res st = Some (t, VBool false) ->
  exec_stmt brs ev (SIf (bo_check true res) b None) st = ROk st.
Proof.
  intros brs ev res b st t H. rewrite exec_if. cbn [bo_check]. rewrite eval_var, H. reflexivity.
Qed.

Lemma or_skip_one : forall (brs : list branch) (ev : event) (res : string) (b : block) (st : state) (t : string),
  lookup res st = Some (t, VBool true) ->
  exec_stmt brs ev (SIf (bo_check false res) b None) st = ROk st.
Proof.
  intros brs ev res b st t H. rewrite exec_if. cbn [bo_check]. rewrite eval_not, eval_var, H. reflexivity.
Qed.

Lemma and_enter_one : forall (brs : list branch) (ev : event) (res : string) (b : block) (st : state) (t : string),
  lookup res st = Some (t, VBool true) ->
  exec_stmt brs ev (SIf (bo_check true res) b None) st = exec_block brs ev b [] st.
Proof.
  intros brs ev res b st t H. rewrite exec_if. cbn [bo_check]. rewrite eval_var, H. reflexivity.
Qed.

Lemma or_enter_one : forall (brs : list branch) (ev : event) (res : string) (b : block) (st : state) (t : string),
  lookup res st = Some (t, VBool false) ->
  exec_stmt brs ev (SIf (bo_check false res) b None) st = exec_block brs ev b [] st.
Proof.
  intros brs ev res b st t H. rewrite exec_if. cbn [bo_check]. rewrite eval_not, eval_var, H. reflexivity.
Qed.

(* n operands: once the result is the absorbing value, NONE of the remaining operand blocks runs *)
Lemma bo_tail_skip : forall (brs : list branch) (ev : event) (is_and : bool) (res : string) (ops : list block)
                            (rest : stmts) (st : state) (t : string),
  lookup res st = Some (t, VBool (negb is_and)) ->
  exec_stmts brs ev (app_stmts (bo_tail is_and res ops) rest) st = exec_stmts brs ev rest st.
Proof.
  intros brs ev is_and res ops rest st t H. induction ops as [|b r IH].
  - reflexivity.
  - cbn [bo_tail app_stmts]. rewrite exec_stmts_cons.
    destruct is_and.
    + rewrite (and_skip_one brs ev res b st t H). cbn [rbind]. exact IH.
    + rewrite (or_skip_one brs ev res b st t H). cbn [rbind]. exact IH.
Qed.

Lemma bo_tail_enter : forall (brs : list branch) (ev : event) (is_and : bool) (res : string) (b : block)
                             (ops : list block) (rest : stmts) (st : state) (t : string),
  lookup res st = Some (t, VBool is_and) ->
  exec_stmts brs ev (app_stmts (bo_tail is_and res (b :: ops)) rest) st
  = rbind (exec_block brs ev b [] st) (fun st' => exec_stmts brs ev (app_stmts (bo_tail is_and res ops) rest) st').
Proof.
  intros brs ev is_and res b ops rest st t H.
  cbn [bo_tail app_stmts]. rewrite exec_stmts_cons.
  destruct is_and.
  - rewrite (and_enter_one brs ev res b st t H). reflexivity.
  - rewrite (or_enter_one brs ev res b st t H). reflexivity.
Qed.

(* n operands, one step: which operand block executes next, as a function of the running result *)
Lemma bo_tail_run : forall (brs : list branch) (ev : event) (is_and : bool) (res : string) (ops : list block)
                           (st : state) (t : string) (x : bool),
  lookup res st = Some (t, VBool x) ->
  exec_stmts brs ev (bo_tail is_and res ops) st =
  match ops with
  | [] => ROk st
  | b :: r => if Bool.eqb x is_and
              then rbind (exec_block brs ev b [] st) (fun st' => exec_stmts brs ev (bo_tail is_and res r) st')
              else ROk st
  end.
Proof.
  intros brs ev is_and res ops st t x H. destruct ops as [|b r]; [reflexivity|].
  destruct (Bool.eqb x is_and) eqn:E.
  - apply Bool.eqb_prop in E. subst x.
    pose proof (bo_tail_enter brs ev is_and res b r SNil st t H) as P.
    pose proof app_stmts_nil as A.
    rewrite !A in P. rewrite P. f_equal.
  - assert (x = negb is_and) by (destruct x, is_and; simpl in E; try discriminate; reflexivity). subst x.
    pose proof (bo_tail_skip brs ev is_and res (b :: r) SNil st t H) as P.
    pose proof app_stmts_nil as A.
    rewrite A in P. exact P.
Qed.

(* whole schema, lazy case: the first operand's code ended with res = absorbing value *)
Lemma bo_lower_lazy : forall (brs : list branch) (ev : event) (is_and : bool) (res : string) (code1 : stmts)
                             (v1 : cexp) (ops : list block) (st st1 : state) (t : string),
  exec_stmts brs ev (bo_first res code1 v1) st = ROk st1 ->
  lookup res st1 = Some (t, VBool (negb is_and)) ->
  exec_stmts brs ev (bo_lower is_and res code1 v1 ops) st = ROk st1.
Proof.
  intros brs ev is_and res code1 v1 ops st st1 t H1 Hl. unfold bo_lower.
  rewrite exec_stmts_app. rewrite H1. cbn [rbind].
  pose proof (bo_tail_skip brs ev is_and res ops SNil st1 t Hl) as P.
  pose proof app_stmts_nil as A.
  rewrite A in P. exact P.
Qed.

(* whole schema, eager case: the next operand block runs, then the rest of the chain from its result *)
Lemma bo_lower_eval : forall (brs : list branch) (ev : event) (is_and : bool) (res : string) (code1 : stmts)
                             (v1 : cexp) (b : block) (ops : list block) (st st1 : state) (t : string),
  exec_stmts brs ev (bo_first res code1 v1) st = ROk st1 ->
  lookup res st1 = Some (t, VBool is_and) ->
  exec_stmts brs ev (bo_lower is_and res code1 v1 (b :: ops)) st
  = rbind (exec_block brs ev b [] st1) (fun st2 => exec_stmts brs ev (bo_tail is_and res ops) st2).
Proof.
  intros brs ev is_and res code1 v1 b ops st st1 t H1 Hl. unfold bo_lower.
  rewrite exec_stmts_app. rewrite H1. cbn [rbind].
  pose proof (bo_tail_enter brs ev is_and res b ops SNil st1 t Hl) as P.
  pose proof app_stmts_nil as A.
  rewrite !A in P. exact P.
Qed.

(* the value an operand block of the common shape leaves in res: its own value, converted to bool *)
Lemma operand_value : forall (brs : list branch) (ev : event) (res : string) (ds : list decl) (code : stmts)
                             (v : cexp) (st st2 : state) (t : string) (old x : value),
  rbind (run_decls ev ds (enter [] st)) (fun s1 => exec_stmts brs ev code s1) = ROk st2 ->
  lookup res st2 = Some (t, old) ->
  frame_get res (hd [] (frames st2)) = None ->
  eval ev st2 v = ROk x ->
  exists st3, exec_block brs ev (bo_operand res ds code v) [] st = ROk st3
              /\ lookup res st3 = Some (t, conv t x).
Proof.
  intros brs ev res ds code v st st2 t old x Hrun Hl Hhd He.
  unfold bo_operand. rewrite exec_block_eq.
  destruct (run_decls ev ds (enter [] st)) as [s1|f|k];
    cbn [rbind] in Hrun; try discriminate.
  cbn [rbind]. unfold snoc_stmts. rewrite exec_stmts_app. rewrite Hrun. cbn [rbind].
  change (SCons (SSet res None v) SNil) with (one_stmt (SSet res None v)). rewrite exec_one.
  rewrite exec_set. rewrite He. cbn [rbind]. rewrite Hl.
  destruct (assign_lookup_outer res (conv t x) st2 t old Hl Hhd) as [st' [Ha Hg]].
  cbv zeta. rewrite Ha. cbn [rbind]. exists (pop_frame st'). split; [reflexivity|exact Hg].
Qed.

(* ================================================================================================ *)
(* conditional expression                                                                            *)
(* ================================================================================================ *)
Lemma ie_taken_true : forall (brs : list branch) (ev : event) (test : cexp) (bT bE : block) (st : state) (v : value),
  eval ev st test = ROk v -> truth v = ROk true ->
  exec_stmt brs ev (SIf test bT (Some bE)) st = exec_block brs ev bT [] st.
Proof. intros brs ev test bT bE st v He Ht. rewrite exec_if, He. cbn [rbind]. rewrite Ht. reflexivity. Qed.

Lemma ie_taken_false : forall (brs : list branch) (ev : event) (test : cexp) (bT bE : block) (st : state) (v : value),
  eval ev st test = ROk v -> truth v = ROk false ->
  exec_stmt brs ev (SIf test bT (Some bE)) st = exec_block brs ev bE [] st.
Proof. intros brs ev test bT bE st v He Ht. rewrite exec_if, He. cbn [rbind]. rewrite Ht. reflexivity. Qed.

Lemma ie_lower_run : forall (brs : list branch) (ev : event) (test_code : stmts) (test : cexp) (bT bE : block)
                            (st st1 : state) (v : value) (c : bool),
  exec_stmts brs ev test_code st = ROk st1 ->
  eval ev st1 test = ROk v -> truth v = ROk c ->
  exec_stmts brs ev (ie_lower test_code test bT bE) st = exec_block brs ev (if c then bT else bE) [] st1.
Proof.
  intros brs ev test_code test bT bE st st1 v c H1 He Ht. unfold ie_lower, snoc_stmts.
  rewrite exec_stmts_app. rewrite H1. cbn [rbind].
  change (SCons (SIf test bT (Some bE)) SNil) with (one_stmt (SIf test bT (Some bE))). rewrite exec_one.
  destruct c.
  - apply (ie_taken_true brs ev test bT bE st1 v He Ht).
  - apply (ie_taken_false brs ev test bT bE st1 v He Ht).
Qed.

(* ================================================================================================ *)
(* Where                                                                                             *)
(* ================================================================================================ *)
Lemma where_skip : forall (brs : list branch) (ev : event) (pred : cexp) (downstream : block) (st : state) (v : value),
  eval ev st pred = ROk v -> truth v = ROk false ->
  exec_stmt brs ev (SIf pred downstream None) st = ROk st.
Proof. intros brs ev pred d st v He Ht. rewrite exec_if, He. cbn [rbind]. rewrite Ht. reflexivity. Qed.

Lemma where_pass : forall (brs : list branch) (ev : event) (pred : cexp) (downstream : block) (st : state) (v : value),
  eval ev st pred = ROk v -> truth v = ROk true ->
  exec_stmt brs ev (SIf pred downstream None) st = exec_block brs ev downstream [] st.
Proof. intros brs ev pred d st v He Ht. rewrite exec_if, He. cbn [rbind]. rewrite Ht. reflexivity. Qed.

Lemma wh_lower_skip : forall (brs : list branch) (ev : event) (pred_code : stmts) (pred : cexp) (downstream : block)
                             (st st1 : state) (v : value),
  exec_stmts brs ev pred_code st = ROk st1 ->
  eval ev st1 pred = ROk v -> truth v = ROk false ->
  exec_stmts brs ev (wh_lower pred_code pred downstream) st = ROk st1.
Proof.
  intros brs ev pc pred d st st1 v H1 He Ht. unfold wh_lower, snoc_stmts.
  rewrite exec_stmts_app. rewrite H1. cbn [rbind].
  change (SCons (SIf pred d None) SNil) with (one_stmt (SIf pred d None)). rewrite exec_one.
  apply (where_skip brs ev pred d st1 v He Ht).
Qed.

(* ================================================================================================ *)
(* indexing and null links                                                                           *)
(* ================================================================================================ *)
Lemma at_value : forall (ev : event) (st : state) (v i : cexp) (arrow : bool) (l : list value) (n : Z),
  eval ev st v = ROk (VVec l) -> eval ev st i = ROk (VInt n) ->
  eval ev st (sub_lower v arrow i) =
  if (n <? 0)%Z then RFault FOutOfRange
  else match nth_error l (Z.to_nat n) with Some x => ROk x | None => RFault FOutOfRange end.
Proof. intros ev st v i arrow l n Hv Hi. unfold sub_lower. rewrite eval_meth, Hv. cbn [rbind eval_args]. rewrite Hi. reflexivity. Qed.

Lemma at_faults_iff : forall (ev : event) (st : state) (v i : cexp) (arrow : bool) (l : list value) (n : Z),
  eval ev st v = ROk (VVec l) -> eval ev st i = ROk (VInt n) ->
  (eval ev st (sub_lower v arrow i) = RFault FOutOfRange <-> (n < 0 \/ Z.of_nat (List.length l) <= n)%Z)
  /\ ((0 <= n < Z.of_nat (List.length l))%Z ->
      exists x, nth_error l (Z.to_nat n) = Some x /\ eval ev st (sub_lower v arrow i) = ROk x).
Proof.
  intros ev st v i arrow l n Hv Hi. rewrite (at_value ev st v i arrow l n Hv Hi).
  split.
  - split.
    + intros H. destruct (n <? 0)%Z eqn:E.
      * left. apply Z.ltb_lt. exact E.
      * right. apply Z.ltb_ge in E.
        destruct (nth_error l (Z.to_nat n)) eqn:N; [discriminate|].
        apply nth_error_None in N. lia.
    + intros [H|H].
      * apply Z.ltb_lt in H. rewrite H. reflexivity.
      * destruct (n <? 0)%Z; [reflexivity|].
        assert (N : nth_error l (Z.to_nat n) = None) by (apply nth_error_None; lia).
        rewrite N. reflexivity.
  - intros [H0 H1].
    assert (E : (n <? 0)%Z = false) by (apply Z.ltb_ge; lia). rewrite E.
    destruct (nth_error l (Z.to_nat n)) eqn:N.
    + exists v0. split; reflexivity.
    + apply nth_error_None in N. lia.
Qed.

Lemma null_call_faults : forall (ev : event) (st : state) (o : cexp) (arrow : bool) (m : string) (args : cexps)
                                (vs : list value),
  eval ev st o = ROk VNull -> eval_args ev st args = ROk vs ->
  eval ev st (CMeth o arrow m args) = RFault FNullDeref.
Proof. intros ev st o arrow m args vs Ho Ha. rewrite eval_meth, Ho, Ha. reflexivity. Qed.

Lemma null_guard_skip : forall (brs : list branch) (ev : event) (nonnull : string) (guarded : block) (st : state) (t : string),
  lookup nonnull st = Some (t, VBool false) ->
  exec_stmt brs ev (ng_lower nonnull guarded) st = ROk st.
Proof. intros brs ev nn g st t H. unfold ng_lower. rewrite exec_if, eval_var, H. reflexivity. Qed.
