(* Proofs about Model/Binding.v (C08). *)
From FV Require Import Base.Prelude Model.Binding.

(* ------------------------------------------------------------------------------------------ *)
(* induction principle for the nested type                                                      *)
(* ------------------------------------------------------------------------------------------ *)
Section ExprInd.
  Variable P : expr -> Prop.
  Hypothesis Hname : forall x, P (EName x).
  Hypothesis Hconst : forall c, P (EConst c).
  Hypothesis Hattr : forall e a, P e -> P (EAttr e a).
  Hypothesis Hcall : forall g args, P g -> Forall P args -> P (ECall g args).
  Hypothesis Hlam : forall ps b, P b -> P (ELam ps b).
  Hypothesis Hop : forall op args, Forall P args -> P (EOp op args).

  Fixpoint expr_ind' (e : expr) : P e :=
    let fix go (l : list expr) : Forall P l :=
      match l with
      | [] => Forall_nil P
      | a :: r => Forall_cons a (expr_ind' a) (go r)
      end in
    match e with
    | EName x => Hname x
    | EConst c => Hconst c
    | EAttr e1 a => Hattr e1 a (expr_ind' e1)
    | ECall g args => Hcall g args (expr_ind' g) (go args)
    | ELam ps b => Hlam ps b (expr_ind' b)
    | EOp op args => Hop op args (go args)
    end.
End ExprInd.

(* ------------------------------------------------------------------------------------------ *)
(* A. consistent injective renaming: holds for the whole model, dynamic scoping included        *)
(* ------------------------------------------------------------------------------------------ *)
Definition injective (s : string -> string) : Prop := forall x y, s x = s y -> x = y.

Lemma eqb_inj (s : string -> string) (Hs : injective s) (x y : string) :
  String.eqb (s x) (s y) = String.eqb x y.
Proof.
  destruct (String.eqb x y) eqn:E.
  - apply String.eqb_eq in E. subst. apply String.eqb_refl.
  - apply String.eqb_neq. intro Hc. apply Hs in Hc. subst. rewrite String.eqb_refl in E. discriminate.
Qed.

Lemma lookup_frame_map (s : string -> string) (Hs : injective s) (f : frame) (x : string) :
  lookup_frame (map_frame s f) (s x) = option_map (map_bval s) (lookup_frame f x).
Proof.
  induction f as [|[y v] r IH]; simpl; [reflexivity|].
  rewrite (eqb_inj s Hs). destruct (String.eqb x y); [reflexivity|apply IH].
Qed.

Lemma lookup_map (s : string -> string) (Hs : injective s) (fr : frames) (x : string) :
  lookup (map_frames s fr) (s x) = option_map (map_bval s) (lookup fr x).
Proof.
  induction fr as [|f r IH]; simpl; [reflexivity|].
  rewrite (lookup_frame_map s Hs). destruct (lookup_frame f x); simpl; [reflexivity|apply IH].
Qed.

Lemma define_all_map (s : string -> string) (ps : list string) :
  forall (vs : list bval) (f : frame),
  map_frame s (define_all ps vs f) = define_all (map s ps) (map (map_bval s) vs) (map_frame s f).
Proof.
  induction ps as [|p r IH]; intros vs f; simpl; [reflexivity|].
  destruct vs as [|v vs']; simpl; [reflexivity|]. rewrite IH. reflexivity.
Qed.

Lemma all_some_option_map {A B} (h : A -> B) (l : list (option A)) :
  all_some (map (option_map h) l) = option_map (map h) (all_some l).
Proof.
  induction l as [|[a|] r IH]; simpl; [reflexivity| |reflexivity].
  rewrite IH. destruct (all_some r); reflexivity.
Qed.

Lemma map_opt_eq {A B} (f : A -> option B) (l : list A) : map_opt f l = all_some (map f l).
Proof.
  induction l as [|a r IH]; simpl; [reflexivity|]. destruct (f a); [|reflexivity]. rewrite IH. reflexivity.
Qed.

Lemma resolve_args_map (s : string -> string) (fuel : nat) (fr : frames) (d : nat)
  (IH : forall fr d e, resolve fuel (map_frames s fr) d (map_names s e) = option_map (cmap s) (resolve fuel fr d e))
  (args : list expr) :
  map_opt (resolve fuel (map_frames s fr) d) (map (map_names s) args)
  = option_map (map (cmap s)) (map_opt (resolve fuel fr d) args).
Proof.
  rewrite !map_opt_eq. rewrite map_map. rewrite <- all_some_option_map. rewrite map_map. f_equal.
  apply map_ext. intro a. apply IH.
Qed.

Lemma resolve_map (s : string -> string) (Hs : injective s) :
  forall (fuel : nat) (fr : frames) (d : nat) (e : expr),
  resolve fuel (map_frames s fr) d (map_names s e) = option_map (cmap s) (resolve fuel fr d e).
Proof.
  induction fuel as [|fuel IH]; intros fr d e; [reflexivity|].
  destruct e as [x|c|e1 a|g args|ps b|op args].
  - simpl. rewrite (lookup_map s Hs). destruct (lookup fr x) as [[a|l]|]; simpl; [apply IH|reflexivity|reflexivity].
  - reflexivity.
  - simpl. rewrite IH. destruct (resolve fuel fr d e1); reflexivity.
  - pose proof (resolve_args_map s fuel fr d IH args) as Ha.
    destruct g as [x|c|e1 a|g' args'|ps b|op args'].
    + simpl. rewrite Ha. destruct (map_opt (resolve fuel fr d) args); reflexivity.
    + pose proof (IH fr d (EConst c)) as Hg. simpl in Hg. simpl. rewrite Hg, Ha.
      destruct (resolve fuel fr d (EConst c)); simpl; [|reflexivity].
      destruct (map_opt (resolve fuel fr d) args); reflexivity.
    + pose proof (IH fr d (EAttr e1 a)) as Hg. simpl in Hg. simpl. rewrite Hg, Ha.
      destruct (resolve fuel fr d (EAttr e1 a)); simpl; [|reflexivity].
      destruct (map_opt (resolve fuel fr d) args); reflexivity.
    + pose proof (IH fr d (ECall g' args')) as Hg. simpl in Hg. simpl. rewrite Hg, Ha.
      destruct (resolve fuel fr d (ECall g' args')); simpl; [|reflexivity].
      destruct (map_opt (resolve fuel fr d) args); reflexivity.
    + simpl. rewrite <- IH. f_equal. simpl. f_equal.
      rewrite define_all_map. simpl. rewrite !map_map. reflexivity.
    + pose proof (IH fr d (EOp op args')) as Hg. simpl in Hg. simpl. rewrite Hg, Ha.
      destruct (resolve fuel fr d (EOp op args')); simpl; [|reflexivity].
      destruct (map_opt (resolve fuel fr d) args); reflexivity.
  - simpl. rewrite map_length.
    replace (define_all (map s ps) (map BVal (seq d (List.length ps))) [] :: map_frames s fr)
      with (map_frames s (define_all ps (map BVal (seq d (List.length ps))) [] :: fr)).
    + rewrite IH. destruct (resolve fuel _ (d + List.length ps) b); reflexivity.
    + simpl. f_equal. rewrite define_all_map. simpl. rewrite map_map. reflexivity.
  - simpl. rewrite (resolve_args_map s fuel fr d IH args).
    destruct (map_opt (resolve fuel fr d) args); reflexivity.
Qed.

Lemma cmap_fix (s : string -> string) (c : cexpr) :
  (forall x, In x (cfree c) -> s x = x) -> cmap s c = c.
Proof.
  revert c.
  fix IH 1. intros c H. destruct c as [x|l|k|e a|g args|n b|op args]; simpl in *.
  - rewrite H; [reflexivity|left; reflexivity].
  - reflexivity.
  - reflexivity.
  - rewrite IH; [reflexivity|exact H].
  - rewrite IH; [|intros x Hx; apply H; apply in_or_app; left; exact Hx]. f_equal.
    assert (Hargs : forall x, In x (flat_map cfree args) -> s x = x)
      by (intros x Hx; apply H; apply in_or_app; right; exact Hx).
    clear H. induction args as [|a r IHr]; simpl; [reflexivity|].
    rewrite IH; [|intros x Hx; apply Hargs; simpl; apply in_or_app; left; exact Hx].
    rewrite IHr; [reflexivity|intros x Hx; apply Hargs; simpl; apply in_or_app; right; exact Hx].
  - rewrite IH; [reflexivity|exact H].
  - f_equal. induction args as [|a r IHr]; simpl; [reflexivity|].
    rewrite IH; [|intros x Hx; apply H; simpl; apply in_or_app; left; exact Hx].
    rewrite IHr; [reflexivity|intros x Hx; apply H; simpl; apply in_or_app; right; exact Hx].
Qed.

(* the statement used by the property: a consistent injective renaming that leaves alone the names
   the result still mentions (functions, namespaces) does not change the resolved term *)
Theorem rename_invariant (s : string -> string) (fuel : nat) (q : expr) (c : cexpr) :
  injective s ->
  resolve_top fuel q = Some c ->
  (forall x, In x (cfree c) -> s x = x) ->
  resolve_top fuel (map_names s q) = Some c.
Proof.
  intros Hs Hq Hfix. unfold resolve_top in *.
  pose proof (resolve_map s Hs fuel empty_stack 0 q) as H.
  change (map_frames s empty_stack) with empty_stack in H.
  rewrite H, Hq. simpl. rewrite cmap_fix; [reflexivity|exact Hfix].
Qed.

Lemma swap_injective (a b : string) : injective (swap a b).
Proof.
  intros x y. unfold swap.
  destruct (String.eqb x a) eqn:Exa; destruct (String.eqb y a) eqn:Eya;
  destruct (String.eqb x b) eqn:Exb; destruct (String.eqb y b) eqn:Eyb;
  repeat match goal with
  | H : String.eqb _ _ = true |- _ => apply String.eqb_eq in H
  | H : String.eqb _ _ = false |- _ => apply String.eqb_neq in H
  end; subst; intro H; subst; try reflexivity; try congruence.
Qed.

Lemma injective_compose (s t : string -> string) :
  injective s -> injective t -> injective (fun x => s (t x)).
Proof. intros Hs Ht x y H. apply Ht. apply Hs. exact H. Qed.

(* ------------------------------------------------------------------------------------------ *)
(* B. static alpha-equivalence (shadowing may appear or disappear) on application-free queries *)
(* ------------------------------------------------------------------------------------------ *)
Inductive aeq : bctx -> bctx -> expr -> expr -> Prop :=
| AE_bound c1 c2 x1 x2 p :
    binder_of c1 x1 = Some p -> binder_of c2 x2 = Some p -> aeq c1 c2 (EName x1) (EName x2)
| AE_free c1 c2 x :
    binder_of c1 x = None -> binder_of c2 x = None -> aeq c1 c2 (EName x) (EName x)
| AE_const c1 c2 k : aeq c1 c2 (EConst k) (EConst k)
| AE_attr c1 c2 e1 e2 a : aeq c1 c2 e1 e2 -> aeq c1 c2 (EAttr e1 a) (EAttr e2 a)
| AE_call_fn c1 c2 f a1 a2 :
    (* a name in func position is a function name: the translator dispatches on it without resolving it, so it
       must be free on both sides; queries that call one of their own parameters are related to nothing *)
    binder_of c1 f = None -> binder_of c2 f = None ->
    Forall2 (aeq c1 c2) a1 a2 -> aeq c1 c2 (ECall (EName f) a1) (ECall (EName f) a2)
| AE_call c1 c2 g1 g2 a1 a2 :
    (match g1 with EName _ => false | _ => true end) = true ->
    aeq c1 c2 g1 g2 -> Forall2 (aeq c1 c2) a1 a2 -> aeq c1 c2 (ECall g1 a1) (ECall g2 a2)
| AE_lam c1 c2 ps1 ps2 b1 b2 :
    List.length ps1 = List.length ps2 -> aeq (ps1 :: c1) (ps2 :: c2) b1 b2 ->
    aeq c1 c2 (ELam ps1 b1) (ELam ps2 b2)
| AE_op c1 c2 op a1 a2 : Forall2 (aeq c1 c2) a1 a2 -> aeq c1 c2 (EOp op a1) (EOp op a2).

Definition same_shape (c1 c2 : bctx) : Prop :=
  Forall2 (fun a b : list string => List.length a = List.length b) c1 c2.

Lemma same_shape_depth (c1 c2 : bctx) : same_shape c1 c2 -> depth_of c1 = depth_of c2.
Proof. intro H. induction H as [|a b r1 r2 Hab Hr IH]; simpl; [reflexivity|]. rewrite IH, Hab. reflexivity. Qed.

Lemma same_shape_length (c1 c2 : bctx) : same_shape c1 c2 -> List.length c1 = List.length c2.
Proof. intro H. induction H; simpl; [reflexivity|]. f_equal. assumption. Qed.

Lemma lookup_frame_define (x : string) (d : nat) (ps : list string) :
  forall (i0 : nat) (f : frame),
  lookup_frame (define_all ps (map BVal (seq (d + i0) (List.length ps))) f) x
  = match last_index ps x i0 with Some k => Some (BVal (d + k)) | None => lookup_frame f x end.
Proof.
  induction ps as [|p r IH]; intros i0 f; simpl; [reflexivity|].
  replace (S (d + i0)) with (d + S i0) by lia. rewrite IH.
  destruct (last_index r x (S i0)); [reflexivity|]. simpl.
  destruct (String.eqb x p); reflexivity.
Qed.

Lemma lookup_vframe (x : string) (d : nat) (ps : list string) :
  lookup_frame (define_all ps (map BVal (seq d (List.length ps))) []) x
  = option_map (fun k => BVal (d + k)) (last_index ps x 0).
Proof.
  pose proof (lookup_frame_define x d ps 0 []) as H. rewrite Nat.add_0_r in H. rewrite H.
  destruct (last_index ps x 0); reflexivity.
Qed.

Lemma binder_of_lt (c : bctx) (x : string) (h i : nat) :
  binder_of c x = Some (h, i) -> h < List.length c.
Proof.
  induction c as [|ps r IH]; simpl; [discriminate|].
  destruct (last_index ps x 0); intro H.
  - inversion H. lia.
  - apply IH in H. lia.
Qed.

Lemma lookup_free (c : bctx) (x : string) : binder_of c x = None -> lookup (vframes c) x = None.
Proof.
  induction c as [|ps r IH]; simpl; [reflexivity|].
  rewrite lookup_vframe. destruct (last_index ps x 0); simpl; [discriminate|exact IH].
Qed.

Lemma lookup_bound (c1 c2 : bctx) (x1 x2 : string) (p : nat * nat) :
  same_shape c1 c2 -> binder_of c1 x1 = Some p -> binder_of c2 x2 = Some p ->
  exists l, lookup (vframes c1) x1 = Some (BVal l) /\ lookup (vframes c2) x2 = Some (BVal l).
Proof.
  intro H. induction H as [|ps1 ps2 r1 r2 Hlen Hr IH]; simpl; [discriminate|].
  rewrite !lookup_vframe. destruct p as [h i].
  pose proof (same_shape_length _ _ Hr) as Hl. pose proof (same_shape_depth _ _ Hr) as Hd.
  destruct (last_index ps1 x1 0) as [i1|] eqn:E1; destruct (last_index ps2 x2 0) as [i2|] eqn:E2; simpl; intros H1 H2.
  - inversion H1. inversion H2. subst. exists (depth_of r1 + i). rewrite Hd. split; reflexivity.
  - inversion H1. subst. apply binder_of_lt in H2. lia.
  - inversion H2. subst. apply binder_of_lt in H1. lia.
  - apply IH; assumption.
Qed.

Lemma aeq_not_lam (c1 c2 : bctx) (g1 g2 : expr) :
  aeq c1 c2 g1 g2 -> (match g1 with ELam _ _ => false | _ => true end) = true ->
  (match g2 with ELam _ _ => false | _ => true end) = true.
Proof. intros H. inversion H; subst; simpl; auto. Qed.

Theorem alpha_static :
  forall (fuel : nat) (c1 c2 : bctx) (e1 e2 : expr),
  same_shape c1 c2 -> aeq c1 c2 e1 e2 -> no_app e1 = true ->
  resolve fuel (vframes c1) (depth_of c1) e1 = resolve fuel (vframes c2) (depth_of c2) e2.
Proof.
  induction fuel as [|fuel IH]; intros c1 c2 e1 e2 Hs Ha Hn; [reflexivity|].
  assert (Hargs : forall a1 a2, Forall2 (aeq c1 c2) a1 a2 -> forallb no_app a1 = true ->
            map (resolve fuel (vframes c1) (depth_of c1)) a1 = map (resolve fuel (vframes c2) (depth_of c2)) a2).
  { intros a1 a2 HF. induction HF as [|x y r1 r2 Hxy Hr IHr]; simpl; intro Hb; [reflexivity|].
    apply andb_prop in Hb. destruct Hb as [Hx Hb]. rewrite (IH c1 c2 x y Hs Hxy Hx). rewrite IHr by exact Hb. reflexivity. }
  inversion Ha; subst; clear Ha.
  - destruct (lookup_bound c1 c2 x1 x2 p Hs H H0) as [l [L1 L2]]. simpl. rewrite L1, L2. reflexivity.
  - simpl. rewrite (lookup_free c1 x H), (lookup_free c2 x H0). reflexivity.
  - reflexivity.
  - simpl in Hn. simpl. rewrite (IH c1 c2 e0 e3 Hs H Hn). reflexivity.
  - simpl in Hn. simpl. rewrite !map_opt_eq. rewrite (Hargs a1 a2 H1 Hn). reflexivity.
  - rename H into Hnn. rename H0 into Hgg. rename H1 into Haa.
    simpl in Hn. apply andb_prop in Hn. destruct Hn as [Hg Hb].
    rewrite (same_shape_depth _ _ Hs) in *.
    assert (Hgn : no_app g1 = true) by (destruct g1; try exact Hg; discriminate).
    pose proof (IH c1 c2 g1 g2 Hs Hgg Hgn) as Eg. pose proof (Hargs a1 a2 Haa Hb) as Eargs.
    rewrite (same_shape_depth _ _ Hs) in Eg.
    inversion Hgg; subst; simpl in Hg; simpl in Hnn; try discriminate Hg; try discriminate Hnn;
      simpl; rewrite !map_opt_eq, Eargs, Eg; reflexivity.
  - simpl in Hn. simpl. rewrite H. rewrite (same_shape_depth _ _ Hs).
    assert (Hs' : same_shape (ps1 :: c1) (ps2 :: c2)) by (constructor; assumption).
    pose proof (IH (ps1 :: c1) (ps2 :: c2) b1 b2 Hs' H0 Hn) as Eb. simpl in Eb.
    rewrite (same_shape_depth _ _ Hs) in Eb. rewrite H in Eb. rewrite Eb. reflexivity.
  - simpl in Hn. simpl. rewrite !map_opt_eq, (Hargs a1 a2 H Hn). reflexivity.
Qed.

Corollary alpha_static_top (fuel : nat) (q1 q2 : expr) :
  aeq [] [] q1 q2 -> no_app q1 = true -> resolve_top fuel q1 = resolve_top fuel q2.
Proof. intros Ha Hn. exact (alpha_static fuel [] [] q1 q2 (Forall2_nil _) Ha Hn). Qed.

(* ------------------------------------------------------------------------------------------ *)
(* C. ... and it is false once a lambda is applied to an unevaluated argument (dynamic scoping) *)
(* ------------------------------------------------------------------------------------------ *)
Definition capture_q (inner : string) : expr :=
  ELam ["y"] (ECall (ELam ["x"] (ECall (ELam [inner] (EName "x")) [EConst "1"]))
                    [ECall (EAttr (EName "y") "pt") []]).

Lemma capture_aeq : aeq [] [] (capture_q "z") (capture_q "y").
Proof.
  unfold capture_q.
  apply AE_lam; [reflexivity|]. apply AE_call; [reflexivity| |].
  - apply AE_lam; [reflexivity|]. apply AE_call; [reflexivity| |].
    + apply AE_lam; [reflexivity|]. apply AE_bound with (p := (1, 0)); reflexivity.
    + repeat constructor.
  - constructor; [|constructor]. apply AE_call; [reflexivity| |constructor].
    apply AE_attr. apply AE_bound with (p := (0, 0)); reflexivity.
Qed.

Theorem alpha_dynamic_refuted :
  exists q1 q2 c1 c2,
    aeq [] [] q1 q2 /\ resolve_top 20 q1 = Some c1 /\ resolve_top 20 q2 = Some c2 /\ c1 <> c2.
Proof.
  exists (capture_q "z"), (capture_q "y").
  exists (CLam 1 (CCall (CAttr (CVal 0) "pt") [])), (CLam 1 (CCall (CAttr (CConst "1") "pt") [])).
  split; [exact capture_aeq|]. split; [vm_compute; reflexivity|]. split; [vm_compute; reflexivity|].
  discriminate.
Qed.

(* ------------------------------------------------------------------------------------------ *)
(* D. the name-keyed rewriters                                                                  *)
(* ------------------------------------------------------------------------------------------ *)
Theorem rewrite_commutes (s : string -> string) (K MO MC : list string) :
  (forall x, mem_str (s x) K = mem_str x K) ->
  (forall x, mem_str x K = true -> s x = x) ->
  forall e, rewrite K MO MC (map_names s e) = map_names s (rewrite K MO MC e).
Proof.
  intros HK Hfix. apply expr_ind'.
  - reflexivity.
  - reflexivity.
  - intros e a IH. simpl. rewrite IH. reflexivity.
  - intros g args IHg IHa.
    assert (Ea : map (rewrite K MO MC) (map (map_names s) args) = map (map_names s) (map (rewrite K MO MC) args)).
    { rewrite !map_map. apply map_ext_Forall. exact IHa. }
    destruct g as [f|c|e1 m|g' args'|ps b|op args'].
    + simpl. rewrite HK. destruct (mem_str f K) eqn:Ef; simpl; rewrite Ea; [rewrite (Hfix f Ef)|]; reflexivity.
    + simpl. rewrite Ea. reflexivity.
    + destruct e1 as [x|c|e2 a2|g2 args2|ps2 b2|op2 args2];
        try (simpl; simpl in IHg; rewrite Ea; f_equal; exact IHg).
      simpl. destruct (mem_str m MO); [simpl; rewrite Ea; reflexivity|].
      destruct (mem_str m MC); simpl; rewrite Ea; reflexivity.
    + change (rewrite K MO MC (map_names s (ECall (ECall g' args') args)))
        with (ECall (rewrite K MO MC (map_names s (ECall g' args'))) (map (rewrite K MO MC) (map (map_names s) args))).
      rewrite IHg, Ea. reflexivity.
    + change (rewrite K MO MC (map_names s (ECall (ELam ps b) args)))
        with (ECall (rewrite K MO MC (map_names s (ELam ps b))) (map (rewrite K MO MC) (map (map_names s) args))).
      rewrite IHg, Ea. reflexivity.
    + change (rewrite K MO MC (map_names s (ECall (EOp op args') args)))
        with (ECall (rewrite K MO MC (map_names s (EOp op args'))) (map (rewrite K MO MC) (map (map_names s) args))).
      rewrite IHg, Ea. reflexivity.
  - intros ps b IH. simpl. rewrite IH. reflexivity.
  - intros op args IHa. simpl. f_equal. rewrite !map_map. apply map_ext_Forall. exact IHa.
Qed.

(* rewriting then resolving is invariant under a consistent injective renaming that keeps clear of the
   rewritten names and of the names still free in the result *)
Theorem pipeline_rename_invariant (s : string -> string) (K MO MC : list string) (fuel : nat) (q : expr) (c : cexpr) :
  injective s ->
  (forall x, mem_str (s x) K = mem_str x K) ->
  (forall x, mem_str x K = true -> s x = x) ->
  resolve_top fuel (rewrite K MO MC q) = Some c ->
  (forall x, In x (cfree c) -> s x = x) ->
  resolve_top fuel (rewrite K MO MC (map_names s q)) = Some c.
Proof.
  intros Hs HK Hfix Hq Hc. rewrite (rewrite_commutes s K MO MC HK Hfix).
  apply rename_invariant; assumption.
Qed.

(* a bound variable that carries the name of a known function IS rewritten when it is called:
   the rewriters do not look at binding *)
Definition call_param (p : string) : expr :=
  ECall (EName "Select") [EConst "<seq>"; ELam [p] (ECall (EName p) [EConst "1.0"])].

Theorem known_function_param_refuted :
  exists q c1 c2,
    no_app q = true /\
    resolve_top 20 (rewrite ["sin"] [] [] q) = Some c1 /\
    resolve_top 20 (rewrite ["sin"] [] [] (map_names (swap "f" "sin") q)) = Some c2 /\ c1 <> c2.
Proof.
  exists (call_param "f").
  exists (CCall (CFree "Select") [CConst "<seq>"; CLam 1 (CCall (CFree "f") [CConst "1.0"])]).
  exists (CCall (CFree "Select") [CConst "<seq>"; CLam 1 (CCall (CConst "<fn:sin>") [CConst "1.0"])]).
  split; [reflexivity|]. split; [vm_compute; reflexivity|]. split; [vm_compute; reflexivity|].
  discriminate.
Qed.

(* the rewriters never create or remove a directly applied lambda, so fragment B is closed under them *)
Lemma rewrite_call_head (K MO MC : list string) (g : expr) (a0 : list expr) :
  exists h a, rewrite K MO MC (ECall g a0) = ECall h a.
Proof.
  destruct g as [f|c|e1 m|g' args'|ps b|op args']; simpl; try (eexists; eexists; reflexivity).
  - destruct (mem_str f K); eexists; eexists; reflexivity.
  - destruct e1; try (eexists; eexists; reflexivity).
    destruct (mem_str m MO); [eexists; eexists; reflexivity|].
    destruct (mem_str m MC); eexists; eexists; reflexivity.
Qed.

Theorem rewrite_no_app (K MO MC : list string) : forall e, no_app e = true -> no_app (rewrite K MO MC e) = true.
Proof.
  apply (expr_ind' (fun e => no_app e = true -> no_app (rewrite K MO MC e) = true)).
  - reflexivity.
  - reflexivity.
  - intros e a IH H. simpl in *. auto.
  - intros g args IHg IHa H. simpl in H. apply andb_prop in H. destruct H as [Hg Hb].
    assert (Hb' : forallb no_app (map (rewrite K MO MC) args) = true).
    { clear Hg. induction IHa as [|a r Ha Hr IHr]; simpl in *; [reflexivity|].
      apply andb_prop in Hb. destruct Hb as [H1 H2]. rewrite Ha by exact H1. rewrite IHr by exact H2. reflexivity. }
    destruct g as [f|c|e1 m|g' args'|ps b|op args'].
    + simpl. destruct (mem_str f K); simpl; exact Hb'.
    + simpl. exact Hb'.
    + specialize (IHg Hg).
      destruct e1 as [x|c|e2 a2|g2 args2|ps2 b2|op2 args2].
      * simpl. destruct (mem_str m MO); [simpl; exact Hb'|]. destruct (mem_str m MC); simpl; exact Hb'.
      * change (no_app (rewrite K MO MC (EAttr (EConst c) m)) && forallb no_app (map (rewrite K MO MC) args) = true).
        rewrite IHg, Hb'. reflexivity.
      * change (no_app (rewrite K MO MC (EAttr (EAttr e2 a2) m)) && forallb no_app (map (rewrite K MO MC) args) = true).
        rewrite IHg, Hb'. reflexivity.
      * change (no_app (rewrite K MO MC (EAttr (ECall g2 args2) m)) && forallb no_app (map (rewrite K MO MC) args) = true).
        rewrite IHg, Hb'. reflexivity.
      * change (no_app (rewrite K MO MC (EAttr (ELam ps2 b2) m)) && forallb no_app (map (rewrite K MO MC) args) = true).
        rewrite IHg, Hb'. reflexivity.
      * change (no_app (rewrite K MO MC (EAttr (EOp op2 args2) m)) && forallb no_app (map (rewrite K MO MC) args) = true).
        rewrite IHg, Hb'. reflexivity.
    + specialize (IHg Hg).
      change (no_app (ECall (rewrite K MO MC (ECall g' args')) (map (rewrite K MO MC) args)) = true).
      destruct (rewrite_call_head K MO MC g' args') as [h [a Hh]]. rewrite Hh in *.
      change (no_app (ECall h a) && forallb no_app (map (rewrite K MO MC) args) = true).
      rewrite IHg, Hb'. reflexivity.
    + discriminate.
    + specialize (IHg Hg).
      change (no_app (rewrite K MO MC (EOp op args')) && forallb no_app (map (rewrite K MO MC) args) = true).
      rewrite IHg, Hb'. reflexivity.
  - intros ps b IH H. simpl in *. auto.
  - intros op args IHa H. simpl in *.
    induction IHa as [|a r Ha Hr IHr]; simpl in *; [reflexivity|].
    apply andb_prop in H. destruct H as [H1 H2]. rewrite Ha by exact H1. rewrite IHr by exact H2. reflexivity.
Qed.

(* determinism: anything computed from the resolved term inherits the invariances *)
Corollary translation_invariant {A : Type} (T : option cexpr -> A) (fuel : nat) (q1 q2 : expr) :
  aeq [] [] q1 q2 -> no_app q1 = true -> T (resolve_top fuel q1) = T (resolve_top fuel q2).
Proof. intros Ha Hn. rewrite (alpha_static_top fuel q1 q2 Ha Hn). reflexivity. Qed.
