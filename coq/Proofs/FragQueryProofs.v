(* C01, fragment F1 (Model/FragQuery.v): whole queries - an optional event filter, then one row per event
   (Select) or one row per passing element (SelectMany) - and whole jobs (any list of events through one
   analysis object).  For every query of F1, every first name index, every event list: the job the fragment
   translator emits writes exactly the rows the query denotes, event by event and in order, and aborts at
   exactly the first event on which the query is undefined. *)
From FV Require Import Base.Prelude Cpp.IR Cpp.Exec Model.Lowering Proofs.LoweringProofs Model.FragTranslate
                       Proofs.FragProofs Model.FragQuery.
From Coq Require Import QArith Lia Permutation.
Close Scope Q_scope.

(* ================================================================================================ *)
(* (a) the block of a row, run from any state                                                       *)
(* ================================================================================================ *)
Lemma row_block_eq (bk : backend) (r : row) (n : nat) :
  row_block bk r n =
  Blk (rds r n) (app_stmts (rss (b_idiom bk) r (n + row_size r) 0 (nt_first (n + row_size r) r) n)
                           (app_stmts (rsets r (n + row_size r) 0 n)
                                      (SCons (SFill (b_fill bk)) (trow_clears r (n + row_size r) 0)))).
Proof. unfold row_block. rewrite trow_split, trow_sets_split. reflexivity. Qed.

Lemma members_final_init (r : row) : forall nf k ms vs, members_final r nf k ms vs -> members_init r nf k ms.
Proof.
  induction r as [|[name c] t IH]; intros nf k ms vs D; destruct vs as [|v vs']; cbn [members_final members_init] in *; try exact I; try destruct D.
  split; [|eapply IH; eassumption].
  eexists. split; [eassumption|]. destruct c; [exact I|reflexivity|exact I|reflexivity|reflexivity|exact I].
Qed.

Lemma row_block_exec (bk : backend) (r : row) (n : nat) (ev : event) (st : state) :
  let nf := n + row_size r in
  row_bases_ok r = true -> NoDup (rmems r nf 0) -> members_init r nf 0 (members st) ->
  (forall x, In x (rvars r n) -> fget x st = None) ->
  (forall m, In m (rmems r nf 0) -> fget m st = None) ->
  match drow ev r with
  | ROk vs => exists st', exec_block (row_branches r nf) ev (row_block bk r n) [] st = ROk st' /\
                          rows st' = rows st ++ [vs] /\ members_final r nf 0 (members st') vs /\
                          (forall m, ~ In m (rmems r nf 0) -> mget m st' = mget m st)
  | RFault f => exec_block (row_branches r nf) ev (row_block bk r n) [] st = RFault f
  | RStuck _ => True
  end.
Proof.
  intros nf Hb Nd Mi Fv Fm. rewrite row_block_eq. fold nf.
  unfold row_branches.
  change (map (fun m : string * column * member => {| br_name := fst (fst m); br_var := m_name (snd m) |}) (combine r (row_members r nf 0)))
    with (map mk_branch (combine r (row_members r nf 0))).
  set (brs := map mk_branch (combine r (row_members r nf 0))).
  rewrite exec_block_eq.
  set (st0 := enter [] st).
  destruct (row_decls ev r n st0 Hb) as (st1 & E1 & D1 & M1 & R1 & U1).
  { intros x Hx. unfold st0. rewrite fget_enter; [apply Fv, Hx|reflexivity]. }
  rewrite E1. cbn [rbind]. rewrite exec_stmts_app.
  assert (NotVar : forall m, In m (rmems r nf 0) -> ~ In m (rvars r n)).
  { intros m Hm. destruct (rmems_shape r nf 0 m Hm) as (name & idx & ->). apply mem_not_rvar, Hb. }
  assert (Sep1 : forall m, In m (rmems r nf 0) -> fget m st1 = None).
  { intros m Hm. rewrite (U1 m (NotVar m Hm)). unfold st0. rewrite fget_enter; [apply Fm, Hm|reflexivity]. }
  assert (Mi1 : mems_init r nf 0 st1) by (eapply mems_init_of; [exact M1|exact Mi]).
  assert (Hntk : n + row_size r <= nt_first nf r) by (unfold nt_first, nf; lia).
  pose proof (row_exec brs ev (b_idiom bk) r nf 0 (nt_first nf r) n st1 Hntk Hb D1 Mi1 Sep1 Nd) as RE.
  unfold drow.
  destruct (drow1 ev r) as [ps|f|k]; cbn [rbind]; [| rewrite RE; reflexivity | exact I].
  destruct RE as (st2 & E2 & R2 & U2 & Mo2 & Dn2). rewrite E2. cbn [rbind]. rewrite exec_stmts_app.
  assert (Sep2 : forall m, In m (rmems r nf 0) -> fget m st2 = None).
  { intros m Hm. rewrite (U2 m (NotVar m Hm)). apply Sep1, Hm. }
  pose proof (sets_exec brs ev r nf 0 n st2 ps Dn2 Sep2 Nd) as SE.
  destruct (drow2 ev r ps) as [vs|f|k]; [| rewrite SE; reflexivity | exact I].
  destruct SE as (st3 & E3 & F3 & R3 & Mo3 & Fi3).
  rewrite E3. cbn [rbind]. rewrite exec_stmts_cons. cbn [exec_stmt rbind].
  replace (fill_row brs st3) with vs by (symmetry; apply (fill_row_filled r nf 0 st3 vs Fi3)).
  set (st4 := {| frames := frames st3; members := members st3; rows := rows st3 ++ [vs] |}).
  assert (Fi4 : row_filled r nf 0 st4 vs) by (eapply row_filled_ext; [|exact Fi3]; intros; reflexivity).
  assert (Sep4 : forall m, In m (rmems r nf 0) -> fget m st4 = None).
  { intros m Hm. unfold fget, st4. cbn [frames]. rewrite F3. apply Sep2, Hm. }
  destruct (clears_exec brs ev r nf 0 st4 vs Fi4 Sep4 Nd) as (st5 & E5 & F5 & R5 & Mo5 & A5).
  rewrite E5. cbn [rbind].
  exists (pop_frame st5). split; [reflexivity|]. cbn [pop_frame rows members]. split; [|split].
  - rewrite R5. unfold st4. cbn [rows]. rewrite R3, R2, R1. reflexivity.
  - apply members_after_final, A5.
  - intros m Hm. unfold mget in *. cbn [members].
    transitivity (frame_get m (members st4)); [apply (Mo5 m Hm)|]. unfold st4. cbn [members].
    transitivity (frame_get m (members st2)); [apply (Mo3 m Hm)|].
    transitivity (frame_get m (members st1)); [apply (Mo2 m Hm)|]. rewrite M1. reflexivity.
Qed.

(* ================================================================================================ *)
(* (b) SelectMany: one row per passing element                                                      *)
(* ================================================================================================ *)
Fixpoint pmems (cols : prow) (nf k : nat) : list string :=
  match cols with [] => [] | (name, _) :: t => mem_name name (nf + k) :: pmems t nf (S k) end.
(* every column member is declared with the column's type *)
Fixpoint pdecl (cols : prow) (nf k : nat) (ms : frame) : Prop :=
  match cols with
  | [] => True
  | (name, body) :: t => (exists old, frame_get (mem_name name (nf + k)) ms = Some (btype body, old)) /\ pdecl t nf (S k) ms
  end.
Fixpoint pfilled (cols : prow) (nf k : nat) (ms : frame) (xs : list value) : Prop :=
  match cols, xs with
  | [], [] => True
  | (name, body) :: t, x :: xs' => frame_get (mem_name name (nf + k)) ms = Some (btype body, x) /\ pfilled t nf (S k) ms xs'
  | _, _ => False
  end.

Lemma pdecl_ext (cols : prow) : forall nf k ms ms',
  (forall m, In m (pmems cols nf k) -> frame_get m ms' = frame_get m ms) -> pdecl cols nf k ms -> pdecl cols nf k ms'.
Proof.
  induction cols as [|[name body] t IH]; intros nf k ms ms' H D; cbn [pdecl pmems] in *; [exact I|].
  destruct D as [(old & M) Dt]. split.
  - exists old. rewrite H; [exact M|left; reflexivity].
  - eapply IH; [|exact Dt]. intros m Hm. apply H. right; exact Hm.
Qed.
Lemma pfilled_ext (cols : prow) : forall nf k ms ms' xs,
  (forall m, In m (pmems cols nf k) -> frame_get m ms' = frame_get m ms) -> pfilled cols nf k ms xs -> pfilled cols nf k ms' xs.
Proof.
  induction cols as [|[name body] t IH]; intros nf k ms ms' xs H D; destruct xs as [|x xs']; cbn [pfilled pmems] in *; try exact D.
  destruct D as [M Dt]. split.
  - rewrite H; [exact M|left; reflexivity].
  - eapply IH; [|exact Dt]. intros m Hm. apply H. right; exact Hm.
Qed.
Lemma pfilled_pdecl (cols : prow) : forall nf k ms xs, pfilled cols nf k ms xs -> pdecl cols nf k ms.
Proof.
  induction cols as [|[name body] t IH]; intros nf k ms xs D; destruct xs as [|x xs']; cbn [pfilled pdecl] in *; try exact I; try destruct D.
  split; [eauto|eapply IH; eassumption].
Qed.
Lemma fill_row_pfilled (cols : prow) : forall nf k st xs,
  pfilled cols nf k (members st) xs -> fill_row (prow_branches cols nf k) st = xs.
Proof.
  induction cols as [|[name body] t IH]; intros nf k st xs D; destruct xs as [|x xs']; cbn [pfilled prow_branches map fill_row] in *; try destruct D; [reflexivity|].
  cbn [br_var]. rewrite H. f_equal. apply (IH nf (S k) st xs' H0).
Qed.
Lemma pmems_shape (cols : prow) : forall nf k m, In m (pmems cols nf k) -> exists name idx, m = mem_name name idx.
Proof.
  induction cols as [|[name body] t IH]; intros nf k m Hm; cbn [pmems] in Hm; [destruct Hm|].
  destruct Hm as [<-|Hm]; [eauto|exact (IH _ _ _ Hm)].
Qed.
Lemma pmem_not_if (cols : prow) (nf k : nat) (m : string) : In m (pmems cols nf k) -> forall j, String.eqb m (if_name j) = false.
Proof.
  intros Hm j. destruct (pmems_shape cols nf k m Hm) as (name & idx & ->).
  destruct (String.eqb (mem_name name idx) (if_name j)) eqn:E; [|reflexivity]. apply String.eqb_eq in E. exfalso.
  exact (mem_not_shape name idx "if_else_result" (S (S j)) eq_refl E).
Qed.

(* the conditionals of all columns *)
Lemma prow_ds_free (cols : prow) : forall m, init_free (prow_ds cols m).
Proof. induction cols as [|[name body] t IH]; intro m; cbn [prow_ds]; [constructor|]. apply Forall_app. split; [apply bdecls_free|apply IH]. Qed.
Lemma prow_ds_none (cols : prow) : forall m x, (forall k, k < prow_nifs cols -> String.eqb x (if_name (m + k)) = false) ->
  frame_get x (dframe (prow_ds cols m)) = None.
Proof.
  induction cols as [|[name body] t IH]; intros m x H; cbn [prow_ds prow_nifs] in *; [reflexivity|].
  rewrite dframe_app, frame_get_app. rewrite (bdecls_none body m x); [|intros k Hk; apply H; lia].
  apply IH. intros k Hk. replace (m + nifs body + k) with (m + (nifs body + k)) by lia. apply H. lia.
Qed.
Lemma prow_ds_get (cols : prow) : forall m k, k < prow_nifs cols -> frame_get (if_name (m + k)) (dframe (prow_ds cols m)) = Some ("double", VUninit).
Proof.
  induction cols as [|[name body] t IH]; intros m k Hk; cbn [prow_ds prow_nifs] in *; [lia|].
  rewrite dframe_app, frame_get_app.
  destruct (Nat.lt_ge_cases k (nifs body)) as [Hlt|Hge].
  - rewrite (bdecls_get body m k Hlt). reflexivity.
  - rewrite (bdecls_none body m).
    + replace (m + k) with (m + nifs body + (k - nifs body)) by lia. apply IH. lia.
    + intros j Hj. destruct (String.eqb (if_name (m + k)) (if_name (m + j))) eqn:E; [|reflexivity].
      apply String.eqb_eq, if_name_inj in E. lia.
Qed.

Lemma prow_pre_exec (brs : list branch) (ev : event) (g : guard) (n : nat) (iv : string) (ar : bool) (v : value) (st : state) (cols : prow) :
  (forall j, String.eqb (if_name j) iv = false) ->
  forall m T, frame_get iv T = None ->
  (forall k, k < prow_nifs cols -> exists old, frame_get (if_name (m + k)) T = Some ("double", old)) ->
  match dprow_conds ev v cols with
  | ROk rs => exec_stmts brs ev (prow_pre iv ar cols m) (istate g n iv v T st) = ROk (istate g n iv v (tsets m rs T) st) /\
              List.length rs = prow_nifs cols /\ Forall (fun r => r <> VUninit) rs
  | RFault f => exec_stmts brs ev (prow_pre iv ar cols m) (istate g n iv v T st) = RFault f
  | RStuck _ => True
  end.
Proof.
  intro Hifiv. induction cols as [|[name body] t IH]; intros m T Hiv Hin; cbn [dprow_conds prow_pre prow_nifs] in *.
  - repeat split; auto.
  - rewrite exec_stmts_app.
    pose proof (bpre_exec brs ev g n iv ar v st body Hifiv m T Hiv ltac:(intros k Hk; apply Hin; lia)) as B.
    destruct (dconds ev v body) as [l1|f|k]; cbn [rbind]; [|rewrite B; reflexivity|exact I].
    destruct B as (E1 & L1 & N1). rewrite E1. cbn [rbind].
    assert (Hiv1 : frame_get iv (tsets m l1 T) = None).
    { rewrite tsets_other; [exact Hiv|]. intro j. rewrite String.eqb_sym. apply Hifiv. }
    assert (Hin1 : forall k, k < prow_nifs t -> exists old, frame_get (if_name (m + nifs body + k)) (tsets m l1 T) = Some ("double", old)).
    { intros k Hk. apply tsets_keeps. replace (m + nifs body + k) with (m + (nifs body + k)) by lia. apply Hin. lia. }
    specialize (IH (m + nifs body) (tsets m l1 T) Hiv1 Hin1).
    destruct (dprow_conds ev v t) as [l2|f|k]; cbn [rbind]; [|exact IH|exact I].
    destruct IH as (E2 & L2 & N2). split; [|split].
    + rewrite E2. rewrite tsets_app, L1. reflexivity.
    + rewrite app_length. lia.
    + apply Forall_app. split; assumption.
Qed.

(* the assignments of one row: every column member receives the body's value on the element *)
Lemma prow_sets_exec (brs : list branch) (ev : event) (g : guard) (n : nat) (iv : string) (ar : bool) (v : value) (T : frame) :
  (forall j, String.eqb (if_name j) iv = false) -> frame_get iv T = None ->
  (forall y, (forall j, String.eqb y (if_name j) = false) -> String.eqb y iv = false -> frame_get y T = None) ->
  forall (cols : prow) (nf k m : nat) (rs : list value) (st : state),
  List.length rs = prow_nifs cols ->
  (forall j, j < prow_nifs cols -> frame_get (if_name (m + j)) T = Some ("double", nth j rs VUninit) /\ nth j rs VUninit <> VUninit) ->
  (forall mm, In mm (pmems cols nf k) -> fget mm st = None) -> (forall mm, In mm (pmems cols nf k) -> String.eqb mm iv = false /\ String.eqb mm (bo_name n) = false) ->
  NoDup (pmems cols nf k) -> pdecl cols nf k (members st) ->
  match dprow_vals ev v cols rs with
  | ROk xs => exists st', exec_stmts brs ev (prow_sets iv ar cols nf k m) (istate g n iv v T st) = ROk (istate g n iv v T st') /\
                          frames st' = frames st /\ rows st' = rows st /\
                          (forall mm, ~ In mm (pmems cols nf k) -> mget mm st' = mget mm st) /\ pfilled cols nf k (members st') xs
  | RFault f => exec_stmts brs ev (prow_sets iv ar cols nf k m) (istate g n iv v T st) = RFault f
  | RStuck _ => True
  end.
Proof.
  intros Hifiv Hiv Hoth. induction cols as [|[name body] tl IH]; intros nf k m rs st Hlen Hin Sep Hne Nd D; cbn [dprow_vals prow_sets pmems pdecl pfilled prow_nifs] in *.
  - exists st. repeat split; auto.
  - set (mem := mem_name name (nf + k)) in *. inversion Nd as [|? ? Nin Nd']; subst.
    destruct D as [(old & M) Dt].
    set (S0 := istate g n iv v T st).
    destruct (Hne mem (or_introl eq_refl)) as [Hmi Hmb].
    assert (Hmf : forall j, String.eqb mem (if_name j) = false) by (apply (pmem_not_if ((name, body) :: tl) nf k mem); left; reflexivity).
    assert (Hf0 : fget mem S0 = None) by (unfold S0; rewrite istate_fget_other; [apply Sep; left; reflexivity|exact Hmi|exact Hmb|apply Hoth; assumption]).
    assert (Hm0 : mget mem S0 = Some (btype body, old)) by (unfold S0; rewrite mget_istate; exact M).
    unfold S0 in *. clear S0.
    destruct (dbx ev v body (firstn (nifs body) rs)) as [x|f|kk] eqn:Ex; cbn [rbind]; [| |exact I].
    + rewrite exec_stmts_cons, exec_set.
      rewrite (bx_eval ev g n iv ar v st body Hifiv m T (firstn (nifs body) rs) Hiv); [| | |rewrite Ex; exact I].
      2:{ rewrite firstn_length. lia. }
      2:{ intros j Hj. rewrite nth_firstn_below; [apply Hin; lia|exact Hj]. }
      rewrite Ex. cbn [rbind].
      destruct (assign_updm mem (conv (btype body) x) _ _ _ Hf0 Hm0) as (Ha & Hlk & _).
      rewrite Hlk, Ha. cbn [rbind]. rewrite updm_istate.
      destruct (assign_updm mem (conv (btype body) x) st _ _ (Sep mem (or_introl eq_refl)) M) as (_ & _ & G & O & Fr & Rw).
      set (st1 := updm mem (conv (btype body) x) st) in *.
      assert (Sep1 : forall mm, In mm (pmems tl nf (S k)) -> fget mm st1 = None).
      { intros mm Hm. unfold st1. rewrite fget_updm. apply Sep. right; exact Hm. }
      assert (Ne : forall mm, In mm (pmems tl nf (S k)) -> String.eqb mm mem = false).
      { intros mm Hm. destruct (String.eqb mm mem) eqn:E; [|reflexivity]. apply String.eqb_eq in E. subst mm. contradiction. }
      assert (Dt1 : pdecl tl nf (S k) (members st1)).
      { eapply pdecl_ext; [|exact Dt]. intros mm Hm. apply (O mm (Ne mm Hm)). }
      specialize (IH nf (S k) (m + nifs body) (skipn (nifs body) rs) st1).
      assert (Hlen1 : List.length (skipn (nifs body) rs) = prow_nifs tl) by (rewrite skipn_length; lia).
      assert (Hin1 : forall j, j < prow_nifs tl -> frame_get (if_name (m + nifs body + j)) T = Some ("double", nth j (skipn (nifs body) rs) VUninit) /\ nth j (skipn (nifs body) rs) VUninit <> VUninit).
      { intros j Hj. replace (m + nifs body + j) with (m + (nifs body + j)) by lia. rewrite nth_skipn_add. apply Hin. lia. }
      specialize (IH Hlen1 Hin1 Sep1 ltac:(intros mm Hm; apply Hne; right; exact Hm) Nd' Dt1).
      destruct (dprow_vals ev v tl (skipn (nifs body) rs)) as [xs|f|kk]; cbn [rbind]; [|exact IH|exact I].
      destruct IH as (st2 & E2 & F2 & R2 & Mo2 & Fi2).
      exists st2. split; [exact E2|]. split; [congruence|]. split; [congruence|]. split; [|split].
      * intros mm Hm. rewrite Mo2; [apply O|]; [|intro H; apply Hm; right; exact H].
        destruct (String.eqb mm mem) eqn:E; [|reflexivity]. apply String.eqb_eq in E. exfalso. apply Hm. left; auto.
      * pose proof (Mo2 mem Nin) as Q. unfold mget in Q. rewrite Q. exact G.
      * exact Fi2.
    + rewrite exec_stmts_cons, exec_set.
      rewrite (bx_eval ev g n iv ar v st body Hifiv m T (firstn (nifs body) rs) Hiv); [| | |rewrite Ex; exact I].
      2:{ rewrite firstn_length. lia. }
      2:{ intros j Hj. rewrite nth_firstn_below; [apply Hin; lia|exact Hj]. }
      rewrite Ex. reflexivity.
Qed.

(* the innermost statements: the conditionals, the assignments, then Fill *)
Definition row_emitted (cols : prow) (nf : nat) (s s' : state) (rws : list (list value)) : Prop :=
  frames s' = frames s /\ rows s' = rows s ++ rws /\
  (forall m, ~ In m (pmems cols nf 0) -> mget m s' = mget m s) /\ pdecl cols nf 0 (members s').

Lemma inner_exec (ev : event) (g : guard) (n : nat) (iv : string) (ar : bool) (fill : string) (v : value) (cols : prow) (nf m : nat) (st : state) :
  (forall j, String.eqb (if_name j) iv = false) ->
  (forall mm, In mm (pmems cols nf 0) -> fget mm st = None) ->
  (forall mm, In mm (pmems cols nf 0) -> String.eqb mm iv = false /\ String.eqb mm (bo_name n) = false) ->
  NoDup (pmems cols nf 0) -> pdecl cols nf 0 (members st) ->
  let run := exec_stmts (prow_branches cols nf 0) ev (many_inner fill iv ar cols nf m) (istate g n iv v (dframe (prow_ds cols m)) st) in
  match dprow ev v cols with
  | ROk xs => exists T' st', run = ROk (istate g n iv v T' st') /\ row_emitted cols nf st st' [xs]
  | RFault f => run = RFault f
  | RStuck _ => True
  end.
Proof.
  intros Hifiv Sep Hne Nd D. cbn zeta. unfold many_inner, dprow. rewrite exec_stmts_app.
  set (T0 := dframe (prow_ds cols m)).
  assert (Hiv0 : frame_get iv T0 = None).
  { apply prow_ds_none. intros k _. rewrite String.eqb_sym. apply Hifiv. }
  assert (Hin0 : forall k, k < prow_nifs cols -> exists old, frame_get (if_name (m + k)) T0 = Some ("double", old)).
  { intros k Hk. eexists. apply prow_ds_get, Hk. }
  pose proof (prow_pre_exec (prow_branches cols nf 0) ev g n iv ar v st cols Hifiv m T0 Hiv0 Hin0) as P.
  destruct (dprow_conds ev v cols) as [rs|f|k]; cbn [rbind]; [|rewrite P; reflexivity|exact I].
  destruct P as (E1 & L1 & N1). rewrite E1. cbn [rbind]. rewrite exec_stmts_app.
  set (T' := tsets m rs T0).
  assert (Hiv' : frame_get iv T' = None).
  { unfold T'. rewrite tsets_other; [exact Hiv0|]. intro j. rewrite String.eqb_sym. apply Hifiv. }
  assert (Hoth' : forall y, (forall j, String.eqb y (if_name j) = false) -> String.eqb y iv = false -> frame_get y T' = None).
  { intros y Hy _. unfold T'. rewrite tsets_other; [|exact Hy]. apply prow_ds_none. intros k _. apply Hy. }
  assert (Hin' : forall j, j < prow_nifs cols -> frame_get (if_name (m + j)) T' = Some ("double", nth j rs VUninit) /\ nth j rs VUninit <> VUninit).
  { intros j Hj. split.
    - unfold T'. apply tsets_get; [|lia]. intros i Hi. apply Hin0. lia.
    - rewrite Forall_forall in N1. apply N1, nth_In. lia. }
  pose proof (prow_sets_exec (prow_branches cols nf 0) ev g n iv ar v T' Hifiv Hiv' Hoth' cols nf 0 m rs st L1 Hin' Sep Hne Nd D) as Q.
  destruct (dprow_vals ev v cols rs) as [xs|f|k]; [|rewrite Q; reflexivity|exact I].
  destruct Q as (st1 & E2 & F2 & R2 & Mo2 & Fi2). rewrite E2. cbn [rbind]. rewrite exec_one. cbn [exec_stmt].
  exists T', {| frames := frames st1; members := members st1; rows := rows st1 ++ [xs] |}. split.
  - f_equal. assert (Ef : fill_row (prow_branches cols nf 0) (istate g n iv v T' st1) = xs).
    { rewrite <- (fill_row_pfilled cols nf 0 st1 xs Fi2). destruct g; reflexivity. }
    rewrite Ef. destruct g; reflexivity.
  - unfold row_emitted. cbn [frames rows members]. split; [exact F2|]. split; [congruence|]. split.
    + intros mm Hm. unfold mget in *. cbn [members]. apply (Mo2 mm Hm).
    + eapply pfilled_pdecl. exact Fi2.
Qed.

Lemma row_emitted_refl (cols : prow) (nf : nat) (s : state) : pdecl cols nf 0 (members s) -> row_emitted cols nf s s [].
Proof. intro D. unfold row_emitted. rewrite app_nil_r. repeat split; auto. Qed.
Lemma row_emitted_trans (cols : prow) (nf : nat) (s1 s2 s3 : state) (a b : list (list value)) :
  row_emitted cols nf s1 s2 a -> row_emitted cols nf s2 s3 b -> row_emitted cols nf s1 s3 (a ++ b).
Proof.
  intros (F1 & R1 & M1 & D1) (F2 & R2 & M2 & D2). unfold row_emitted. split; [congruence|]. split; [rewrite R2, R1, app_assoc; reflexivity|].
  split; [|exact D2]. intros m Hm. rewrite (M2 m Hm). apply (M1 m Hm).
Qed.

Lemma pmem_neq_bo (cols : prow) (nf n : nat) : forall m, In m (pmems cols nf 0) -> String.eqb m (bo_name n) = false.
Proof.
  intros m Hm. destruct (pmems_shape cols nf 0 m Hm) as (name & idx & ->).
  destruct (String.eqb (mem_name name idx) (bo_name n)) eqn:E; [|reflexivity]. apply String.eqb_eq in E. exfalso.
  exact (mem_not_shape name idx "bool_op" (S (S n)) eq_refl E).
Qed.

Lemma loop_many (ev : event) (iv : string) (ar : bool) (fill : string) (cols : prow) (nf m : nat) (ps : guard) (n : nat) (l : list value) :
  forall (st : state),
  (forall j, String.eqb (if_name j) iv = false) ->
  (forall mm, In mm (pmems cols nf 0) -> fget mm st = None) -> (forall mm, In mm (pmems cols nf 0) -> String.eqb mm iv = false) ->
  String.eqb iv (bo_name n) = false -> String.eqb (bo_name n) iv = false ->
  NoDup (pmems cols nf 0) -> pdecl cols nf 0 (members st) ->
  let body := loop_block iv ar ps n (prow_ds cols m) (many_inner fill iv ar cols nf m) in
  match many_loop ev cols ps l with
  | ROk rws => exists st', for_loop (prow_branches cols nf 0) ev iv body l st = ROk st' /\ row_emitted cols nf st st' rws
  | RFault f => for_loop (prow_branches cols nf 0) ev iv body l st = RFault f
  | RStuck _ => True
  end.
Proof.
  induction l as [|v r IH]; intros st Hifiv Sep Hne Hib Hbi Nd D; cbn zeta; cbn [many_loop].
  - exists st. split; [reflexivity|]. apply row_emitted_refl, D.
  - rewrite for_loop_cons.
    destruct (gpasses ev v ps) as [b|f|k] eqn:Eg; cbn [rbind]; [| |exact I].
    + rewrite (loop_block_exec (prow_branches cols nf 0) ev iv ar ps n _ _ v st (prow_ds_free cols m) Hib Hbi); [|rewrite Eg; exact I].
      rewrite Eg. destruct b.
      * pose proof (inner_exec ev ps n iv ar fill v cols nf m st Hifiv Sep (fun mm Hm => conj (Hne mm Hm) (pmem_neq_bo cols nf n mm Hm)) Nd D) as N. cbn zeta in N.
        destruct (dprow ev v cols) as [xs|f|k]; cbn [rbind]; [|rewrite N; reflexivity|exact I].
        destruct N as (T' & s1 & E1 & Em1). rewrite E1. cbn [rbind]. rewrite ipop_istate.
        destruct Em1 as (F1 & R1 & M1 & D1).
        assert (Sep1 : forall mm, In mm (pmems cols nf 0) -> fget mm s1 = None).
        { intros mm Hm. unfold fget. rewrite F1. apply Sep, Hm. }
        specialize (IH s1 Hifiv Sep1 Hne Hib Hbi Nd D1). cbn zeta in IH.
        destruct (many_loop ev cols ps r) as [rest|f|k]; cbn [rbind]; [|exact IH|exact I].
        destruct IH as (st' & E' & Em'). exists st'. split; [exact E'|].
        change (xs :: rest) with ([xs] ++ rest). eapply row_emitted_trans; [|exact Em']. unfold row_emitted. auto.
      * cbn [rbind]. apply (IH st Hifiv Sep Hne Hib Hbi Nd D).
    + rewrite (loop_block_exec (prow_branches cols nf 0) ev iv ar ps n _ _ v st (prow_ds_free cols m) Hib Hbi); [|rewrite Eg; exact I].
      rewrite Eg. reflexivity.
Qed.

Lemma pmem_neq_iv (cols : prow) (nf n : nat) : forall m, In m (pmems cols nf 0) -> String.eqb m (iv_name n) = false.
Proof. intros m Hm. destruct (pmems_shape cols nf 0 m Hm) as (name & idx & ->). apply mem_neq_iv. Qed.

(* the whole block of a SelectMany body *)
Lemma many_block_exec (bk : backend) (cr : collref) (ps : guard) (cols : prow) (n : nat) (ev : event) (st : state) :
  let nf := many_nf ps cols n in
  base_ok (c_base cr) = true -> NoDup (pmems cols nf 0) -> pdecl cols nf 0 (members st) ->
  fget (vcv_name cr n) st = None ->
  (forall m, In m (pmems cols nf 0) -> fget m st = None) ->
  match dbody ev (QMany cr ps cols) with
  | ROk rws => exists st', exec_block (prow_branches cols nf 0) ev (many_block bk cr ps cols n) [] st = ROk st' /\
                           rows st' = rows st ++ rws /\ pdecl cols nf 0 (members st') /\
                           (forall m, ~ In m (pmems cols nf 0) -> mget m st' = mget m st)
  | RFault f => exec_block (prow_branches cols nf 0) ev (many_block bk cr ps cols n) [] st = RFault f
  | RStuck _ => True
  end.
Proof.
  intros nf Hb Nd D Fcv Fm. unfold many_block, many_loop_stmt. rewrite exec_block_eq. cbn [run_decls d_init d_name d_type rbind dbody].
  set (cv := vcv_name cr n) in *.
  assert (Fcv0 : fget cv (enter [] st) = None) by (rewrite fget_enter; [exact Fcv|reflexivity]).
  destruct (declare_spec cv (c_ctype cr) (default_value (c_ctype cr)) (enter [] st) Fcv0) as (G & O & M & R).
  set (st1 := declare cv (c_ctype cr) (default_value (c_ctype cr)) (enter [] st)) in *.
  rewrite exec_stmts_cons. cbn [exec_stmt].
  destruct (assoc_ss (c_ctype cr, c_bank cr) (ev_colls ev)) as [cval|]; [|reflexivity].
  destruct (assign_upd cv cval st1 _ _ G) as (Has & _ & Hcv1 & Hoth & Mem1 & R1).
  rewrite Has. cbn [rbind]. rewrite exec_one. rewrite exec_for.
  change (eval ev (upd cv cval st1) (CDeref (CVar cv)))
    with (rbind (eval ev (upd cv cval st1) (CVar cv)) (fun x => match x with VNull => RFault FNullDeref | _ => ROk x end)).
  rewrite eval_var, (lookup_fget _ _ _ Hcv1).
  set (st2 := upd cv cval st1) in *.
  assert (Ne : forall m, In m (pmems cols nf 0) -> String.eqb m cv = false).
  { intros m Hm. destruct (pmems_shape cols nf 0 m Hm) as (name & idx & ->).
    destruct (String.eqb (mem_name name idx) cv) eqn:E; [|reflexivity]. apply String.eqb_eq in E. exfalso.
    unfold base_ok in Hb. apply andb_prop in Hb as [_ F]. exact (mem_not_shape name idx _ _ F E). }
  assert (Sep2 : forall m, In m (pmems cols nf 0) -> fget m st2 = None).
  { intros m Hm. rewrite (Hoth m (Ne m Hm)). rewrite (O m (Ne m Hm)).
    rewrite fget_enter; [apply Fm, Hm|reflexivity]. }
  assert (D2 : pdecl cols nf 0 (members st2)).
  { rewrite Mem1. rewrite M. exact D. }
  destruct cval; cbn [rbind]; try exact I; try reflexivity.
  assert (Hib : String.eqb (iv_name n) (bo_name n) = false) by (apply nm_neq; [reflexivity|reflexivity|lia]).
  assert (Hbi : String.eqb (bo_name n) (iv_name n) = false) by (apply nm_neq; [reflexivity|reflexivity|lia]).
  assert (Hifiv : forall j, String.eqb (if_name j) (iv_name n) = false) by (intro j; apply nm_neq_base; [reflexivity|reflexivity|discriminate]).
  pose proof (loop_many ev (iv_name n) (c_arrow cr) (b_fill bk) cols nf (n + gsize ps) ps n l st2 Hifiv Sep2 (pmem_neq_iv cols nf n) Hib Hbi Nd D2) as L.
  cbn zeta in L. fold nf.
  destruct (many_loop ev cols ps l) as [rws|f|k]; [|rewrite L; reflexivity|exact I].
  destruct L as (st3 & E3 & (F3 & R3 & M3 & D3)). rewrite E3. cbn [rbind].
  exists (pop_frame st3). split; [reflexivity|]. cbn [pop_frame rows members]. split; [|split].
  - rewrite R3. rewrite R1. rewrite R. reflexivity.
  - exact D3.
  - intros m Hm. unfold mget in *. cbn [pop_frame members]. rewrite (M3 m Hm). rewrite Mem1. rewrite M. reflexivity.
Qed.

(* ================================================================================================ *)
(* (c) a whole query on one event                                                                   *)
(* ================================================================================================ *)
Definition body_ok (b : qbody) : bool :=
  match b with QRow r => row_bases_ok r | QMany cr _ _ => base_ok (c_base cr) end.
Definition query_ok (q : query) : bool :=
  (match q_filter q with None => true | Some c => bases_ok c end) && body_ok (q_body q).
Definition bmems (b : qbody) (n : nat) : list string :=
  match b with QRow r => rmems r (n + row_size r) 0 | QMany _ g cols => pmems cols (many_nf g cols n) 0 end.
Definition bvars (b : qbody) (n : nat) : list string :=
  match b with QRow r => rvars r n | QMany cr _ _ => [vcv_name cr n] end.
(* the state of the class members between events: every column member declared with its type, vector
   members empty *)
Definition binit (b : qbody) (n : nat) (ms : frame) : Prop :=
  match b with QRow r => members_init r (n + row_size r) 0 ms | QMany _ g cols => pdecl cols (many_nf g cols n) 0 ms end.

Lemma body_exec (bk : backend) (b : qbody) (n : nat) (ev : event) (st : state) :
  body_ok b = true -> NoDup (bmems b n) -> binit b n (members st) ->
  (forall x, In x (bvars b n) -> fget x st = None) -> (forall m, In m (bmems b n) -> fget m st = None) ->
  match dbody ev b with
  | ROk rws => exists st', exec_block (body_branches b n) ev (body_block bk b n) [] st = ROk st' /\
                           rows st' = rows st ++ rws /\ binit b n (members st')
  | RFault f => exec_block (body_branches b n) ev (body_block bk b n) [] st = RFault f
  | RStuck _ => True
  end.
Proof.
  destruct b as [r|cr ps cols]; cbn [body_ok bmems binit bvars body_branches body_block]; intros Hb Nd Mi Fv Fm.
  - pose proof (row_block_exec bk r n ev st Hb Nd Mi Fv Fm) as R. cbn zeta in R. cbn [dbody].
    destruct (drow ev r) as [vs|f|k]; cbn [rbind]; [|exact R|exact I].
    destruct R as (st' & E & Rw & Fin & _). exists st'. split; [exact E|]. split; [exact Rw|].
    eapply members_final_init. exact Fin.
  - pose proof (many_block_exec bk cr ps cols n ev st Hb Nd Mi (Fv _ (or_introl eq_refl)) Fm) as R. cbn zeta in R.
    destruct (dbody ev (QMany cr ps cols)) as [rws|f|k]; [|exact R|exact I].
    destruct R as (st' & E & Rw & D & _). exists st'. auto.
Qed.

Lemma bvars_shape (b : qbody) (n : nat) (x : string) : body_ok b = true -> In x (bvars b n) ->
  exists bs i, x = nm bs i /\ last_digit bs = false /\ n <= i.
Proof.
  destruct b as [r|cr ps cols]; cbn [body_ok bvars]; intros Hb Hin.
  - destruct (rvars_shape r n x Hb Hin) as (bs & i & E & L & _ & R). exists bs, i. repeat split; auto; lia.
  - destruct Hin as [<-|[]]. unfold base_ok in Hb. apply andb_prop in Hb as [H1 _]. apply negb_true_iff in H1.
    exists (c_base cr), n. repeat split; auto.
Qed.
Lemma bmems_shape (b : qbody) (n : nat) (m : string) : In m (bmems b n) -> exists name idx, m = mem_name name idx.
Proof. destruct b as [r|cr ps cols]; cbn [bmems]; [apply rmems_shape|apply pmems_shape]. Qed.

Lemma bvar_not_cond (c : ex) (b : qbody) (n0 : nat) (x : string) :
  bases_ok c = true -> body_ok b = true -> In x (bvars b (n0 + size c)) -> ~ In x (vars c n0).
Proof.
  intros Hc Hb Hx Hv.
  destruct (bvars_shape b _ x Hb Hx) as (b1 & i & E1 & L1 & R1).
  destruct (vars_shape c n0 x Hc Hv) as (b2 & j & E2 & L2 & _ & R2).
  subst x. apply (nm_inj b1 b2 i j L1 L2) in E2. lia.
Qed.
Lemma bmem_not_cond (c : ex) (b : qbody) (n n0 : nat) (m : string) :
  bases_ok c = true -> In m (bmems b n) -> ~ In m (vars c n0).
Proof.
  intros Hc Hm Hv. destruct (bmems_shape b n m Hm) as (name & idx & ->).
  destruct (vars_shape c n0 _ Hc Hv) as (b2 & j & E2 & _ & F & _). exact (mem_not_shape name idx b2 j F E2).
Qed.

Theorem frag_query_event (bk : backend) (q : query) (n0 : nat) (ev : event) (ms : frame) :
  query_ok q = true -> NoDup (bmems (q_body q) (body_start q n0)) -> binit (q_body q) (body_start q n0) ms ->
  match dquery ev q with
  | ROk rws => exists ms', run_event (prog_q bk q n0) ms ev = ROk (rws, ms') /\ binit (q_body q) (body_start q n0) ms'
  | RFault f => run_event (prog_q bk q n0) ms ev = RFault f
  | RStuck _ => True
  end.
Proof.
  destruct q as [flt b]. unfold query_ok, dquery, prog_q, run_event. unfold body_start. cbn [q_filter q_body p_body p_branches].
  intros Hq Nd Mi. apply andb_prop in Hq as [Hc Hb].
  destruct flt as [c|].
  - rewrite ex_size_size in *. rewrite te_split.
    set (n1 := n0 + size c) in *.
    set (brs := body_branches b n1).
    rewrite exec_block_eq.
    set (st0 := enter [] {| frames := []; members := ms; rows := [] |}).
    destruct (decls_declared ev c n0 st0 Hc) as (st1 & E1 & D1 & M1 & R1 & U1); [intros x _; reflexivity|].
    rewrite E1. cbn [rbind]. rewrite exec_stmts_app.
    pose proof (te_exec brs ev (b_idiom bk) c n0 st1 Hc D1) as T.
    unfold dex.
    destruct (dstm ev c) as [[]|f|k]; cbn [rbind]; [|rewrite T; reflexivity|exact I].
    destruct T as (st2 & E2 & M2 & R2 & U2 & B2 & V2).
    rewrite E2. cbn [rbind]. rewrite exec_one, exec_if.
    destruct (de ev c) as [v|f|k] eqn:Ed; cbn [rbind]; [|rewrite (V2 I); reflexivity|exact I].
    + rewrite (V2 I). cbn [rbind].
      destruct (truth v) as [t|f|k]; cbn [rbind]; [|reflexivity|exact I].
      destruct t.
      * assert (Mi2 : binit b n1 (members st2)) by (rewrite M2, M1; exact Mi).
        assert (Fv2 : forall x, In x (bvars b n1) -> fget x st2 = None).
        { intros x Hx. pose proof (bvar_not_cond c b n0 x Hc Hb Hx) as N. rewrite (U2 x N), (U1 x N). reflexivity. }
        assert (Fm2 : forall m, In m (bmems b n1) -> fget m st2 = None).
        { intros m Hm. pose proof (bmem_not_cond c b n1 n0 m Hc Hm) as N. rewrite (U2 m N), (U1 m N). reflexivity. }
        pose proof (body_exec bk b n1 ev st2 Hb Nd Mi2 Fv2 Fm2) as BE. fold brs in BE.
        destruct (dbody ev b) as [rws|f|k]; [|rewrite BE; reflexivity|exact I].
        destruct BE as (st3 & E3 & R3 & Mi3). rewrite E3. cbn [rbind pop_frame rows members].
        exists (members st3). split; [|exact Mi3]. rewrite R3, R2, R1. reflexivity.
      * cbn [rbind pop_frame rows members]. exists ms. split; [|exact Mi]. rewrite R2, R1, M2, M1. reflexivity.
  - set (st := {| frames := []; members := ms; rows := [] |}).
    pose proof (body_exec bk b n0 ev st Hb Nd Mi (fun x _ => eq_refl) (fun m _ => eq_refl)) as BE.
    destruct (dbody ev b) as [rws|f|k]; [|rewrite BE; reflexivity|exact I].
    destruct BE as (st3 & E3 & R3 & Mi3). rewrite E3. exists (members st3). split; [|exact Mi3]. rewrite R3. reflexivity.
Qed.

(* ================================================================================================ *)
(* (d) whole jobs: any list of events through one analysis object                                   *)
(* ================================================================================================ *)
Lemma job_from_correct (bk : backend) (q : query) (n0 : nat) :
  query_ok q = true -> NoDup (bmems (q_body q) (body_start q n0)) ->
  forall (evs : list event) (ms : frame) (n : nat) (acc : list (list (list value))),
  binit (q_body q) (body_start q n0) ms ->
  (forall ev, In ev evs -> nstuck (dquery ev q)) ->
  run_job_from (prog_q bk q n0) ms evs n acc = djob_from q evs n acc.
Proof.
  intros Hq Nd. induction evs as [|ev r IH]; intros ms n acc Mi Hn; cbn [run_job_from djob_from]; [reflexivity|].
  pose proof (frag_query_event bk q n0 ev ms Hq Nd Mi) as E.
  pose proof (Hn ev (or_introl eq_refl)) as Hs.
  destruct (dquery ev q) as [rws|f|k]; [| |destruct Hs].
  - destruct E as (ms' & E & Mi'). rewrite E. apply IH; [exact Mi'|]. intros e He. apply Hn. right; exact He.
  - rewrite E. reflexivity.
Qed.

(* the analysis object as constructed: every member at its default value *)
Lemma initial_get (L : list member) (m : member) :
  NoDup (map m_name L) -> In m L ->
  frame_get (m_name m) (initial_members L) = Some (m_type m, default_value (m_type m)).
Proof.
  induction L as [|a t IH]; intros Nd Hin; [destruct Hin|]. cbn [initial_members map frame_get] in *.
  inversion Nd as [|? ? Nin Nd']; subst.
  destruct Hin as [->|Hin].
  - rewrite String.eqb_refl. reflexivity.
  - destruct (String.eqb (m_name m) (m_name a)) eqn:E.
    + apply String.eqb_eq in E. exfalso. apply Nin. rewrite <- E. apply in_map, Hin.
    + apply IH; assumption.
Qed.
Lemma row_members_names (r : row) : forall nf k, map m_name (row_members r nf k) = rmems r nf k.
Proof. induction r as [|[name c] t IH]; intros nf k; cbn [row_members rmems map m_name]; [reflexivity|]. rewrite IH. reflexivity. Qed.
Lemma prow_members_names (cols : prow) : forall nf k, map m_name (prow_members cols nf k) = pmems cols nf k.
Proof. induction cols as [|[name body] t IH]; intros nf k; cbn [prow_members pmems map m_name]; [reflexivity|]. rewrite IH. reflexivity. Qed.

Lemma col_default (c : column) : match c with ColVec _ _ _ | ColVec2 _ _ _ _ _ | ColFlat _ _ _ _ _ => default_value (col_type c) = VVec [] | _ => True end.
Proof.
  destruct c as [e|cr ps body|cr ps body line|c1 g1 c2 g2 body|c1 g1 c2 g2 body|cr ps body line]; try exact I; cbn [col_type]; unfold default_value.
  - rewrite vec_is_vector. reflexivity.
  - destruct (btype_cases body) as [E|E]; rewrite E; reflexivity.
  - rewrite vec_is_vector. reflexivity.
Qed.

Lemma members_init_initial (L : list member) (r : row) : forall nf k,
  NoDup (map m_name L) -> incl (row_members r nf k) L -> members_init r nf k (initial_members L).
Proof.
  induction r as [|[name c] t IH]; intros nf k Nd Hin; cbn [members_init row_members] in *; [exact I|].
  split.
  - exists (default_value (col_type c)). split.
    + apply (initial_get L {| m_type := col_type c; m_name := mem_name name (nf + k) |} Nd). apply Hin. left; reflexivity.
    + apply col_default.
  - apply IH; [exact Nd|]. intros m Hm. apply Hin. right; exact Hm.
Qed.
Lemma pdecl_initial (L : list member) (cols : prow) : forall nf k,
  NoDup (map m_name L) -> incl (prow_members cols nf k) L -> pdecl cols nf k (initial_members L).
Proof.
  induction cols as [|[name body] t IH]; intros nf k Nd Hin; cbn [pdecl prow_members] in *; [exact I|].
  split.
  - eexists. apply (initial_get L {| m_type := btype body; m_name := mem_name name (nf + k) |} Nd). apply Hin. left; reflexivity.
  - apply IH; [exact Nd|]. intros m Hm. apply Hin. right; exact Hm.
Qed.

Lemma binit_initial (b : qbody) (n : nat) : NoDup (bmems b n) -> binit b n (initial_members (body_members b n)).
Proof.
  destruct b as [r|cr ps cols]; cbn [bmems binit body_members]; intro Nd.
  - apply members_init_initial; [rewrite row_members_names; exact Nd|apply incl_refl].
  - apply pdecl_initial; [rewrite prow_members_names; exact Nd|apply incl_refl].
Qed.

Theorem frag_job_correct (bk : backend) (q : query) (n0 : nat) (evs : list event) :
  query_ok q = true -> NoDup (bmems (q_body q) (body_start q n0)) ->
  (forall ev, In ev evs -> nstuck (dquery ev q)) ->
  run_job (prog_q bk q n0) evs = djob q evs.
Proof.
  intros Hq Nd Hn. unfold run_job, djob. apply job_from_correct; try assumption.
  unfold prog_q. cbn [p_members]. apply binit_initial, Nd.
Qed.

(* SelectMany is the LINQ one: with total predicates and bodies, the rows are the bodies' values on the
   filtered collection, in collection order *)
Lemma many_is_map_filter (ev : event) (cols : prow) (ps : guard) (f : value -> bool) (g : value -> list value) (l : list value) :
  passes_total ev ps l f -> (forall v, In v l -> f v = true -> dprow ev v cols = ROk (g v)) ->
  many_loop ev cols ps l = ROk (map g (filter f l)).
Proof.
  induction l as [|v r IH]; intros Hp Hg; cbn [many_loop filter map]; [reflexivity|].
  rewrite (Hp v (or_introl eq_refl)). cbn [rbind].
  assert (Hp' : passes_total ev ps r f) by (intros w Hw; apply Hp; right; exact Hw).
  assert (Hg' : forall w, In w r -> f w = true -> dprow ev w cols = ROk (g w)) by (intros w Hw; apply Hg; right; exact Hw).
  destruct (f v) eqn:Ef.
  - rewrite (Hg v (or_introl eq_refl) Ef). cbn [rbind]. rewrite (IH Hp' Hg'). reflexivity.
  - apply (IH Hp' Hg').
Qed.

(* ================================================================================================ *)
(* (e) consequences for C05 and C02: rows are per event; the program never gets stuck               *)
(* ================================================================================================ *)
Definition qrows (q : query) (ev : event) : list (list value) :=
  match dquery ev q with ROk rws => rws | _ => [] end.
Definition qdefined (q : query) (ev : event) : Prop := exists rws, dquery ev q = ROk rws.

Lemma djob_from_defined (q : query) : forall evs n acc,
  (forall ev, In ev evs -> qdefined q ev) -> djob_from q evs n acc = JDone (acc ++ map (qrows q) evs).
Proof.
  induction evs as [|ev r IH]; intros n acc H; cbn [djob_from map].
  - rewrite app_nil_r. reflexivity.
  - destruct (H ev (or_introl eq_refl)) as (rws & E). unfold qrows at 1. rewrite E.
    rewrite IH; [|intros e He; apply H; right; exact He]. rewrite <- app_assoc. reflexivity.
Qed.

(* the rows of a job are the rows of its events, each as if it were alone: nothing carries over *)
Theorem frag_job_rows (bk : backend) (q : query) (n0 : nat) (evs : list event) :
  query_ok q = true -> NoDup (bmems (q_body q) (body_start q n0)) ->
  (forall ev, In ev evs -> qdefined q ev) ->
  run_job (prog_q bk q n0) evs = JDone (map (qrows q) evs).
Proof.
  intros Hq Nd Hd. rewrite (frag_job_correct bk q n0 evs Hq Nd).
  - unfold djob. rewrite (djob_from_defined q evs 0 [] Hd). reflexivity.
  - intros ev He. destruct (Hd ev He) as (rws & E). rewrite E. exact I.
Qed.

Theorem frag_job_permutation (bk : backend) (q : query) (n0 : nat) (evs evs' : list event) :
  query_ok q = true -> NoDup (bmems (q_body q) (body_start q n0)) ->
  (forall ev, In ev evs -> qdefined q ev) -> Permutation evs evs' ->
  exists rss rss', run_job (prog_q bk q n0) evs = JDone rss /\ run_job (prog_q bk q n0) evs' = JDone rss' /\
                   Permutation rss rss'.
Proof.
  intros Hq Nd Hd P. exists (map (qrows q) evs), (map (qrows q) evs'). split; [|split].
  - apply frag_job_rows; assumption.
  - apply frag_job_rows; try assumption. intros ev He. apply Hd. eapply Permutation_in; [apply Permutation_sym, P|exact He].
  - apply Permutation_map, P.
Qed.

Theorem frag_job_split (bk : backend) (q : query) (n0 : nat) (evs1 evs2 : list event) :
  query_ok q = true -> NoDup (bmems (q_body q) (body_start q n0)) ->
  (forall ev, In ev (evs1 ++ evs2) -> qdefined q ev) ->
  exists r1 r2, run_job (prog_q bk q n0) evs1 = JDone r1 /\ run_job (prog_q bk q n0) evs2 = JDone r2 /\
                run_job (prog_q bk q n0) (evs1 ++ evs2) = JDone (r1 ++ r2).
Proof.
  intros Hq Nd Hd. exists (map (qrows q) evs1), (map (qrows q) evs2). split; [|split].
  - apply frag_job_rows; try assumption. intros ev He. apply Hd, in_or_app. left; exact He.
  - apply frag_job_rows; try assumption. intros ev He. apply Hd, in_or_app. right; exact He.
  - rewrite <- map_app. apply frag_job_rows; assumption.
Qed.

(* the emitted program never reads an unbound or uninitialised name and never applies an ill-typed operation:
   wherever the query has a value or is undefined, the job terminates with rows or a fault *)
Theorem frag_never_stuck (bk : backend) (q : query) (n0 : nat) (ev : event) (ms : frame) :
  query_ok q = true -> NoDup (bmems (q_body q) (body_start q n0)) -> binit (q_body q) (body_start q n0) ms ->
  nstuck (dquery ev q) -> nstuck (run_event (prog_q bk q n0) ms ev).
Proof.
  intros Hq Nd Mi Hn. pose proof (frag_query_event bk q n0 ev ms Hq Nd Mi) as E.
  destruct (dquery ev q) as [rws|f|k]; [| |destruct Hn].
  - destruct E as (ms' & E & _). rewrite E. exact I.
  - rewrite E. exact I.
Qed.

(* ================================================================================================ *)
(* (f) CMS miniAOD: token-based retrieval                                                           *)
(* ================================================================================================ *)
(* the pass changes only the text of the retrieval blocks: execution is the same *)
Lemma tk_exec (brs : list branch) (ev : event) :
  (forall s t st, exec_stmt brs ev (fst (tk_stmt s t)) st = exec_stmt brs ev s st) /\
  (forall b t pre st, exec_block brs ev (fst (tk_block b t)) pre st = exec_block brs ev b pre st) /\
  (forall l t st, exec_stmts brs ev (fst (tk_stmts l t)) st = exec_stmts brs ev l st).
Proof.
  apply FV.Proofs.StaticProofs.sbs_mutind2; intros; cbn [tk_stmt tk_block tk_stmts]; try reflexivity.
  - (* SFor *) destruct (tk_block b t) as [b' t'] eqn:E. cbn [fst]. rewrite !exec_for.
    destruct (eval ev st e) as [c|f|k]; cbn [rbind]; try reflexivity. destruct c; try reflexivity.
    assert (Hb : forall pre st0, exec_block brs ev b' pre st0 = exec_block brs ev b pre st0).
    { intros pre st0. specialize (H t pre st0). rewrite E in H. exact H. }
    revert st. induction l as [|v r IH]; intro st; [reflexivity|]. rewrite !for_loop_cons, Hb.
    destruct (exec_block brs ev b [(x, ("auto", v))] st); cbn [rbind]; try reflexivity. apply IH.
  - (* SIf *) destruct els as [b2|].
    + destruct (tk_block b t) as [b' t1] eqn:E1. destruct (tk_block b2 t1) as [b2' t2] eqn:E2. cbn [fst]. rewrite !exec_if.
      destruct (eval ev st c) as [v|f|k]; cbn [rbind]; try reflexivity.
      destruct (truth v) as [tv|f|k]; cbn [rbind]; try reflexivity.
      destruct tv; [specialize (H t [] st); rewrite E1 in H; exact H|].
      cbn [FV.Proofs.StaticProofs.opt_P0] in H0. specialize (H0 t1 [] st). rewrite E2 in H0. exact H0.
    + destruct (tk_block b t) as [b' t1] eqn:E1. cbn [fst]. rewrite !exec_if.
      destruct (eval ev st c) as [v|f|k]; cbn [rbind]; try reflexivity.
      destruct (truth v) as [tv|f|k]; cbn [rbind]; try reflexivity.
      destruct tv; [|reflexivity]. specialize (H t [] st). rewrite E1 in H. exact H.
  - (* SBlk *) destruct (tk_block b t) as [b' t'] eqn:E. cbn [fst exec_stmt]. specialize (H t [] st). rewrite E in H. exact H.
  - (* Blk *) destruct (tk_stmts body t) as [body' t'] eqn:E. cbn [fst]. rewrite !exec_block_eq.
    destruct (run_decls ev ds (enter pre st)) as [st1|f|k]; cbn [rbind]; try reflexivity.
    specialize (H t st1). rewrite E in H. cbn [fst] in H. rewrite H. reflexivity.
  - (* SCons *) destruct (tk_stmt s t) as [s' t1] eqn:E1. destruct (tk_stmts r t1) as [r' t2] eqn:E2. cbn [fst].
    rewrite !exec_stmts_cons. specialize (H t st). rewrite E1 in H. cbn [fst] in H. rewrite H.
    destruct (exec_stmt brs ev s st) as [st'|f|k]; cbn [rbind]; try reflexivity.
    specialize (H0 t1 st'). rewrite E2 in H0. cbn [fst] in H0. exact H0.
Qed.

Lemma run_event_mini (bk : backend) (q : query) (n0 : nat) (ms : frame) (ev : event) :
  let nt := List.length (fetches_block (p_body (prog_q bk q n0))) in
  run_event (prog_q_mini bk q n0) ms ev = run_event (prog_q bk q (n0 + nt)) ms ev.
Proof.
  cbn zeta. unfold run_event, prog_q_mini. cbn [p_body p_branches].
  rewrite (proj1 (proj2 (tk_exec _ ev))). reflexivity.
Qed.

Lemma run_job_from_ext (p p' : program) :
  (forall ms ev, run_event p' ms ev = run_event p ms ev) ->
  forall evs ms n acc, run_job_from p' ms evs n acc = run_job_from p ms evs n acc.
Proof.
  intro H. induction evs as [|ev r IH]; intros ms n acc; cbn [run_job_from]; [reflexivity|].
  rewrite H. destruct (run_event p ms ev) as [[rs ms']|f|k]; try reflexivity. apply IH.
Qed.

Lemma binit_initial_incl (b : qbody) (n : nat) (L : list member) :
  NoDup (map m_name L) -> incl (body_members b n) L -> binit b n (initial_members L).
Proof.
  destruct b as [r|cr ps cols]; cbn [binit body_members]; intros Nd Hin.
  - apply members_init_initial; assumption.
  - apply pdecl_initial; assumption.
Qed.

Lemma token_member_names (fs : list (string * string)) : forall t m,
  In m (map m_name (token_members fs t)) -> exists i, m = tok_name i /\ t <= i.
Proof.
  induction fs as [|[ct bank] r IH]; intros t m Hm; cbn [token_members map m_name] in Hm; [destruct Hm|].
  destruct Hm as [<-|Hm]; [exists t; split; [reflexivity|lia]|].
  destruct (IH (S t) m Hm) as (i & E & L). exists i. split; [exact E|lia].
Qed.
Lemma token_members_nodup (fs : list (string * string)) : forall t, NoDup (map m_name (token_members fs t)).
Proof.
  induction fs as [|[ct bank] r IH]; intro t; cbn [token_members map m_name]; constructor; [|apply IH].
  intro Hin. destruct (token_member_names r (S t) _ Hin) as (i & E & L).
  unfold tok_name in E. apply (nm_inj "token" "token" t i eq_refl eq_refl) in E. lia.
Qed.
Lemma body_member_names (b : qbody) (n : nat) : map m_name (body_members b n) = bmems b n.
Proof. destruct b as [r|cr ps cols]; cbn [body_members bmems]; [apply row_members_names|apply prow_members_names]. Qed.

Lemma nodup_app {A} (l1 l2 : list A) :
  NoDup l1 -> NoDup l2 -> (forall x, In x l1 -> In x l2 -> False) -> NoDup (l1 ++ l2).
Proof.
  induction l1 as [|a r IH]; intros N1 N2 D; cbn [app]; [exact N2|].
  inversion N1 as [|? ? Nin N1']; subst. constructor.
  - intro Hin. apply in_app_or in Hin as [Hin|Hin]; [exact (Nin Hin)|exact (D a (or_introl eq_refl) Hin)].
  - apply IH; [exact N1'|exact N2|]. intros x H1 H2. exact (D x (or_intror H1) H2).
Qed.

(* whole jobs on CMS miniAOD *)
Theorem frag_job_correct_mini (bk : backend) (q : query) (n0 : nat) (evs : list event) :
  let n1 := n0 + List.length (fetches_block (p_body (prog_q bk q n0))) in
  query_ok q = true -> NoDup (bmems (q_body q) (body_start q n1)) ->
  (forall ev, In ev evs -> nstuck (dquery ev q)) ->
  run_job (prog_q_mini bk q n0) evs = djob q evs.
Proof.
  intros n1 Hq Nd Hn. unfold run_job, djob.
  rewrite (run_job_from_ext (prog_q bk q n1) (prog_q_mini bk q n0) (run_event_mini bk q n0)).
  apply job_from_correct; try assumption.
  unfold prog_q_mini. cbn [p_members]. fold n1. unfold prog_q at 2. cbn [p_members].
  apply binit_initial_incl; [|apply incl_appr, incl_refl].
  rewrite map_app, body_member_names. apply nodup_app; [apply token_members_nodup|exact Nd|].
  intros m H1 H2. destruct (token_member_names _ _ _ H1) as (i & E & _).
  destruct (bmems_shape _ _ _ H2) as (name & idx & E2). rewrite E in E2.
  exact (mem_not_shape name idx "token" i eq_refl (eq_sym E2)).
Qed.

(* ================================================================================================ *)
(* (g) the booked schema of a fragment query (C03)                                                  *)
(* ================================================================================================ *)
Definition bnames (b : qbody) : list string := match b with QRow r => map fst r | QMany _ _ cols => map fst cols end.
Definition btypes (b : qbody) : list string :=
  match b with QRow r => map (fun c => col_type (snd c)) r | QMany _ _ cols => map (fun c => btype (snd c)) cols end.

Lemma row_members_types (r : row) : forall nf k, map m_type (row_members r nf k) = map (fun c => col_type (snd c)) r.
Proof. induction r as [|[name c] t IH]; intros nf k; cbn [row_members map m_type snd]; [reflexivity|]. rewrite IH. reflexivity. Qed.
Lemma prow_members_types (cols : prow) : forall nf k, map m_type (prow_members cols nf k) = map (fun c => btype (snd c)) cols.
Proof. induction cols as [|[name body] t IH]; intros nf k; cbn [prow_members map m_type snd]; [reflexivity|]. rewrite IH. reflexivity. Qed.
Lemma row_branches_spec (r : row) : forall nf k,
  map br_name (map mk_branch (combine r (row_members r nf k))) = map fst r /\
  map br_var (map mk_branch (combine r (row_members r nf k))) = map m_name (row_members r nf k).
Proof.
  induction r as [|[name c] t IH]; intros nf k; cbn [row_members combine map mk_branch br_name br_var fst snd m_name]; [split; reflexivity|].
  destruct (IH nf (S k)) as [A B]. rewrite A, B. split; reflexivity.
Qed.
Lemma prow_branches_spec (cols : prow) : forall nf k,
  map br_name (prow_branches cols nf k) = map fst cols /\ map br_var (prow_branches cols nf k) = map m_name (prow_members cols nf k).
Proof.
  induction cols as [|[name body] t IH]; intros nf k; cbn [prow_branches prow_members map br_name br_var fst m_name]; [split; reflexivity|].
  destruct (IH nf (S k)) as [A B]. rewrite A, B. split; reflexivity.
Qed.

(* the tree of a fragment query has exactly the query's columns, in order, each of the column's type and each bound
   to its own class member; the member names are those the job-level theorems require to be distinct *)
Theorem frag_schema (bk : backend) (q : query) (n0 : nat) :
  let p := prog_q bk q n0 in
  map br_name (p_branches p) = bnames (q_body q) /\
  map m_type (p_members p) = btypes (q_body q) /\
  map br_var (p_branches p) = map m_name (p_members p) /\
  map m_name (p_members p) = bmems (q_body q) (body_start q n0) /\
  p_tree p = b_tree bk.
Proof.
  cbn zeta. unfold prog_q. cbn [p_branches p_members p_tree].
  destruct (q_body q) as [r|cr ps cols]; cbn [body_branches body_members bnames btypes bmems].
  - unfold row_branches.
    change (map (fun m : string * column * member => {| br_name := fst (fst m); br_var := m_name (snd m) |}) (combine r (row_members r (body_start q n0 + row_size r) 0)))
      with (map mk_branch (combine r (row_members r (body_start q n0 + row_size r) 0))).
    destruct (row_branches_spec r (body_start q n0 + row_size r) 0) as [A B].
    repeat split; [exact A|apply row_members_types|exact B|apply row_members_names].
  - destruct (prow_branches_spec cols (many_nf ps cols (body_start q n0)) 0) as [A B].
    repeat split; [exact A|apply prow_members_types|exact B|apply prow_members_names].
Qed.
