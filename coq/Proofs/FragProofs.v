(* C01, fragment F0: the program the compositional translator of Model/FragTranslate.v emits computes, on
   every event and from every state of the class members, exactly the row the query denotes under the
   reference (streaming LINQ) semantics - or fails exactly when the query is undefined.
   Proved over the big-step semantics Cpp/Exec.v; unbounded in the size and nesting of the expression, the
   number of collections and the size of the event. *)
From FV Require Import Base.Prelude Cpp.IR Cpp.Exec Model.Lowering Proofs.LoweringProofs Model.FragTranslate.
From FV Require Import Model.TreeSchema Proofs.TreeSchemaProofs.
From Coq Require Import QArith Lia.
Close Scope Q_scope.

(* ---------- frames ---------- *)
Definition fget (x : string) (st : state) : option (string * value) := frames_get x (frames st).

Lemma frame_set_spec (x : string) (v : value) (f : frame) (t : string) (old : value) :
  frame_get x f = Some (t, old) ->
  exists f', frame_set x v f = Some f' /\ frame_get x f' = Some (t, v) /\
             (forall y, String.eqb y x = false -> frame_get y f' = frame_get y f).
Proof.
  induction f as [|[y [ty w]] r IH]; cbn [frame_get frame_set]; intro H; [discriminate|].
  destruct (String.eqb x y) eqn:E.
  - inversion H; subst. eexists; split; [reflexivity|]. cbn [frame_get]. rewrite E. split; [reflexivity|].
    intros z Hz. apply String.eqb_eq in E; subst y. rewrite Hz. reflexivity.
  - destruct (IH H) as (f' & Hs & Hg & Ho). rewrite Hs. eexists; split; [reflexivity|]. cbn [frame_get]. rewrite E.
    split; [exact Hg|]. intros z Hz. destruct (String.eqb z y); [reflexivity|apply Ho, Hz].
Qed.

Lemma frame_set_None (x : string) (v : value) (f : frame) : frame_get x f = None -> frame_set x v f = None.
Proof.
  induction f as [|[y [ty w]] r IH]; cbn [frame_get frame_set]; intro H; [reflexivity|].
  destruct (String.eqb x y); [discriminate|]. rewrite (IH H). reflexivity.
Qed.

Lemma frames_set_spec (x : string) (v : value) (fs : list frame) (t : string) (old : value) :
  frames_get x fs = Some (t, old) ->
  exists fs', frames_set x v fs = Some fs' /\ frames_get x fs' = Some (t, v) /\
              (forall y, String.eqb y x = false -> frames_get y fs' = frames_get y fs).
Proof.
  induction fs as [|f r IH]; cbn [frames_get frames_set]; intro H; [discriminate|].
  destruct (frame_get x f) as [[t0 o0]|] eqn:E.
  - inversion H; subst. destruct (frame_set_spec x v f t old E) as (f' & Hs & Hg & Ho). rewrite Hs.
    eexists; split; [reflexivity|]. cbn [frames_get]. rewrite Hg. split; [reflexivity|].
    intros y Hy. rewrite (Ho y Hy). reflexivity.
  - rewrite (frame_set_None x v f E). destruct (IH H) as (r' & Hs & Hg & Ho). rewrite Hs.
    eexists; split; [reflexivity|]. cbn [frames_get]. rewrite E. split; [exact Hg|].
    intros y Hy. destruct (frame_get y f); [reflexivity|apply Ho, Hy].
Qed.

(* assignment to a name bound in the frames: the new state *)
Definition upd (x : string) (v : value) (st : state) : state :=
  match frames_set x v (frames st) with
  | Some fs => {| frames := fs; members := members st; rows := rows st |}
  | None => st
  end.

Lemma assign_upd (x : string) (v : value) (st : state) (t : string) (old : value) :
  fget x st = Some (t, old) ->
  assign x v st = Some (upd x v st) /\ lookup x st = Some (t, old) /\
  fget x (upd x v st) = Some (t, v) /\
  (forall y, String.eqb y x = false -> fget y (upd x v st) = fget y st) /\
  members (upd x v st) = members st /\ rows (upd x v st) = rows st.
Proof.
  unfold fget, assign, upd, lookup. intro H.
  destruct (frames_set_spec x v (frames st) t old H) as (fs' & Hs & Hg & Ho).
  rewrite Hs, H. cbn. repeat split; auto.
Qed.

Lemma lookup_fget (x : string) (st : state) (tv : string * value) : fget x st = Some tv -> lookup x st = Some tv.
Proof. unfold fget, lookup. intro H. rewrite H. reflexivity. Qed.

Lemma fget_enter (x : string) (pre : frame) (st : state) :
  frame_get x pre = None -> fget x (enter pre st) = fget x st.
Proof. unfold fget, enter. cbn. intro H. rewrite H. reflexivity. Qed.

Lemma fget_enter_hit (x : string) (pre : frame) (st : state) (tv : string * value) :
  frame_get x pre = Some tv -> fget x (enter pre st) = Some tv.
Proof. unfold fget, enter. cbn. intro H. rewrite H. reflexivity. Qed.

(* an assignment made inside a freshly entered frame that does not bind x is the assignment outside *)
Lemma upd_enter (x : string) (v : value) (pre : frame) (st : state) (t : string) (old : value) :
  frame_get x pre = None -> fget x st = Some (t, old) -> upd x v (enter pre st) = enter pre (upd x v st).
Proof.
  unfold fget, upd, enter. cbn [frames frames_set]. intros Hp H.
  rewrite (frame_set_None x v pre Hp).
  destruct (frames_set_spec x v (frames st) t old H) as (fs' & Hs & _). rewrite Hs. reflexivity.
Qed.

Lemma upd_upd (x : string) (v w : value) (st : state) (t : string) (old : value) :
  fget x st = Some (t, old) -> upd x w (upd x v st) = upd x w st.
Proof.
  unfold fget, upd. intro H.
  destruct (frames_set_spec x v (frames st) t old H) as (fs1 & Hs1 & Hg1 & _). rewrite Hs1. cbn [frames members rows].
  destruct (frames_set_spec x w (frames st) t old H) as (fs2 & Hs2 & _). rewrite Hs2.
  destruct (frames_set_spec x w fs1 t v Hg1) as (fs3 & Hs3 & _). rewrite Hs3.
  f_equal.
  (* fs3 = fs2: setting twice = setting once *)
  clear - Hs1 Hs2 Hs3. revert fs1 fs2 fs3 Hs1 Hs2 Hs3.
  induction (frames st) as [|f r IH]; cbn [frames_set]; intros fs1 fs2 fs3 H1 H2 H3; [discriminate|].
  destruct (frame_set x v f) as [f1|] eqn:E1.
  - inversion H1; subst fs1. cbn [frames_set] in H3.
    assert (exists f2, frame_set x w f = Some f2 /\ frame_set x w f1 = Some f2) as (f2 & A & B).
    { clear - E1. revert f1 E1. induction f as [|[y [ty u]] q IHf]; cbn [frame_set]; intros f1 E1; [discriminate|].
      destruct (String.eqb x y) eqn:E.
      - inversion E1; subst. cbn [frame_set]. rewrite E. eexists; split; reflexivity.
      - destruct (frame_set x v q) as [q1|] eqn:Eq; [|discriminate]. inversion E1; subst. cbn [frame_set]. rewrite E.
        destruct (IHf q1 eq_refl) as (f2 & A & B). rewrite A, B. eexists; split; reflexivity. }
    rewrite A in H2. rewrite B in H3. congruence.
  - destruct (frames_set x v r) as [r1|] eqn:Er; [|discriminate]. inversion H1; subst fs1.
    cbn [frames_set] in H3.
    assert (Hn : frame_set x w f = None).
    { clear - E1. induction f as [|[y [ty u]] q IHf]; cbn [frame_set] in *; [reflexivity|].
      destruct (String.eqb x y); [discriminate|]. destruct (frame_set x v q); [discriminate|]. rewrite IHf; reflexivity. }
    rewrite Hn in H2, H3.
    destruct (frames_set x w r) as [r2|] eqn:Er2; [|discriminate].
    destruct (frames_set x w r1) as [r3|] eqn:Er3; [|discriminate].
    inversion H2; inversion H3; subst. f_equal. eapply IH; eauto.
Qed.

(* ---------- results ---------- *)
Definition nstuck {A} (r : res A) : Prop := match r with RStuck _ => False | _ => True end.

Lemma nstuck_bind_l {A B} (r : res A) (f : A -> res B) : nstuck (rbind r f) -> nstuck r.
Proof. destruct r; cbn; auto. Qed.
Lemma nstuck_bind_r {A B} (r : res A) (f : A -> res B) (a : A) : nstuck (rbind r f) -> r = ROk a -> nstuck (f a).
Proof. intros H E. subst. exact H. Qed.

(* ---------- predicates: the emitted condition evaluates like the reference ---------- *)
Lemma eval_tpa (ev : event) (s : state) (iv : string) (ar : bool) (t : string) (v : value) (a : pa) :
  lookup iv s = Some (t, v) -> nstuck (dpa ev v a) -> eval ev s (tpa iv ar a) = dpa ev v a.
Proof.
  intro Hl. induction a as [z|tx n d|m|op x IHx y IHy]; cbn [tpa dpa]; intro Hn.
  - reflexivity.
  - reflexivity.
  - rewrite eval_meth, eval_var, Hl. destruct v; try reflexivity. cbn in Hn. destruct Hn.
  - change (eval ev s (CBin op (tpa iv ar x) (tpa iv ar y)))
      with (rbind (eval ev s (tpa iv ar x)) (fun p => rbind (eval ev s (tpa iv ar y)) (fun q => arith op p q))).
    rewrite (IHx (nstuck_bind_l _ _ Hn)).
    destruct (dpa ev v x) as [p|f|k] eqn:Ex; cbn [rbind] in *; [|reflexivity|destruct Hn].
    rewrite (IHy (nstuck_bind_l _ _ Hn)). reflexivity.
Qed.

(* the value of the comparison, before it is read as a truth value *)
Definition dpredv (ev : event) (v : value) (p : pred) : res value :=
  rdo x <- dpa ev v (p_l p); rdo y <- dpa ev v (p_r p); arith (p_op p) x y.

Lemma dpred_dpredv ev v p : dpred ev v p = rbind (dpredv ev v p) truth.
Proof.
  unfold dpred, dpredv. destruct (dpa ev v (p_l p)); cbn [rbind]; try reflexivity.
  destruct (dpa ev v (p_r p)); cbn [rbind]; try reflexivity.
Qed.

Lemma eval_tpred (ev : event) (s : state) (iv : string) (ar : bool) (t : string) (v : value) (p : pred) :
  lookup iv s = Some (t, v) -> nstuck (dpredv ev v p) -> eval ev s (tpred iv ar p) = dpredv ev v p.
Proof.
  intros Hl Hn. unfold tpred, dpredv in *.
  change (eval ev s (CBin (p_op p) (tpa iv ar (p_l p)) (tpa iv ar (p_r p))))
    with (rbind (eval ev s (tpa iv ar (p_l p))) (fun x => rbind (eval ev s (tpa iv ar (p_r p))) (fun y => arith (p_op p) x y))).
  rewrite (eval_tpa ev s iv ar t v _ Hl (nstuck_bind_l _ _ Hn)).
  destruct (dpa ev v (p_l p)) as [x|f|k]; cbn [rbind] in *; [|reflexivity|destruct Hn].
  rewrite (eval_tpa ev s iv ar t v _ Hl (nstuck_bind_l _ _ Hn)). reflexivity.
Qed.

(* ---------- one Count: guards, loop, retrieval ---------- *)
Lemma upd_same (x : string) (v : value) (st : state) (t : string) :
  fget x st = Some (t, v) -> upd x v st = st.
Proof.
  unfold fget, upd. intro H.
  assert (A : frames_set x v (frames st) = Some (frames st)).
  { revert H. induction (frames st) as [|f r IH]; cbn [frames_get frames_set]; intro H; [discriminate|].
    destruct (frame_get x f) as [[t0 o0]|] eqn:E.
    - inversion H; subst.
      assert (B : frame_set x v f = Some f).
      { clear - E. induction f as [|[y [ty u]] q IHf]; cbn [frame_get frame_set] in *; [discriminate|].
        destruct (String.eqb x y) eqn:Exy; [inversion E; subst; reflexivity|]. rewrite (IHf E). reflexivity. }
      rewrite B. reflexivity.
    - rewrite (frame_set_None x v f E). rewrite (IH H). reflexivity. }
  rewrite A. destruct st; reflexivity.
Qed.

(* results of arith are numbers, booleans or symbolic values - never an uninitialised cell *)
Definition arithable (v : value) : Prop := is_sym v = true \/ exists nq, num_of v = Some nq.

Lemma arith_arithable (op : string) (x y v : value) : arith op x y = ROk v -> arithable v.
Proof.
  unfold arith. destruct (is_sym x || is_sym y) eqn:S.
  - intro H. inversion H; subst. left. reflexivity.
  - destruct (num_of x) as [[px|px]|]; destruct (num_of y) as [[qy|qy]|]; try discriminate;
      repeat match goal with
             | |- (if ?c then _ else _) = ROk v -> _ => destruct c
             end; intro H; try discriminate; inversion H; subst; right; cbn; eauto.
Qed.

Lemma conv_arithable (t : string) (v : value) : arithable v -> arithable (conv t v).
Proof.
  intros [S|[nq N]]; unfold conv;
    destruct (String.eqb t "int"); try destruct (String.eqb t "double" || String.eqb t "float"); try destruct (String.eqb t "bool");
    destruct v; try discriminate; try (left; reflexivity); right; cbn; eauto.
Qed.

Lemma arithable_not_uninit (v : value) : arithable v -> v <> VUninit.
Proof. intros [S|[nq N]] E; subst; discriminate. Qed.

Lemma agg_step_ok (ev : event) (ty : string) (g : aggk) (acc v a' : value) :
  agg_step ev ty g acc v = ROk a' -> arithable a'.
Proof.
  unfold agg_step. destruct (match g with ACount => ROk (VInt 1) | ASum body => dpa ev v body end); cbn [rbind]; try discriminate.
  destruct (arith "+" acc a) eqn:E; cbn [rbind]; try discriminate. intro H. inversion H; subst.
  apply conv_arithable. eapply arith_arithable. exact E.
Qed.

Lemma exec_agg_update (brs : list branch) (ev : event) (iv : string) (ar : bool) (agg ty t : string) (g : aggk)
      (s : state) (acc v : value) :
  fget agg s = Some (ty, acc) -> acc <> VUninit -> lookup iv s = Some (t, v) ->
  nstuck (agg_step ev ty g acc v) ->
  exec_stmt brs ev (agg_update agg (agg_summand iv ar g)) s =
  match agg_step ev ty g acc v with
  | ROk a' => ROk (upd agg a' s)
  | RFault f => RFault f
  | RStuck k => RStuck k
  end.
Proof.
  intros H Hu Hl Hn. unfold agg_update. rewrite exec_set.
  change (eval ev s (CBin "+" (CVar agg) (agg_summand iv ar g)))
    with (rbind (eval ev s (CVar agg)) (fun x => rbind (eval ev s (agg_summand iv ar g)) (fun y => arith "+" x y))).
  rewrite eval_var. rewrite (lookup_fget _ _ _ H).
  assert (Ea : (match acc with VUninit => RStuck (KUninit agg) | _ => ROk acc end) = ROk acc) by (destruct acc; try reflexivity; contradiction).
  rewrite Ea. cbn [rbind]. unfold agg_step in *.
  assert (Es : eval ev s (agg_summand iv ar g) = match g with ACount => ROk (VInt 1) | ASum body => dpa ev v body end).
  { destruct g as [|body]; cbn [agg_summand]; [reflexivity|].
    apply (eval_tpa ev s iv ar t v body Hl). exact (nstuck_bind_l _ _ Hn). }
  rewrite Es. destruct (match g with ACount => ROk (VInt 1) | ASum body => dpa ev v body end) as [x|f|k]; cbn [rbind] in *; try reflexivity.
  destruct (arith "+" acc x) as [sm|f|k]; cbn [rbind] in *; try reflexivity.
  destruct (assign_upd agg (conv ty sm) s ty acc H) as (Ha & _). rewrite Ha. reflexivity.
Qed.

Lemma nest_agg (brs : list branch) (ev : event) (iv : string) (ar : bool) (agg ty t : string) (g : aggk) (v : value) (ps : list pred) :
  forall (s : state) (acc : value),
  lookup iv s = Some (t, v) ->
  fget agg s = Some (ty, acc) -> acc <> VUninit ->
  nstuck (rbind (passes ev v ps) (fun b => if b then agg_step ev ty g acc v else ROk acc)) ->
  nest_run ev (exec_stmt brs ev (agg_update agg (agg_summand iv ar g))) (map (tpred iv ar) ps) s =
  match passes ev v ps with
  | ROk true => match agg_step ev ty g acc v with ROk a' => ROk (upd agg a' s) | RFault f => RFault f | RStuck k => RStuck k end
  | ROk false => ROk s
  | RFault f => RFault f
  | RStuck k => RStuck k
  end.
Proof.
  induction ps as [|p r IH]; intros s acc Hl Hg Hu Hn; cbn [map nest_run passes] in *.
  - cbn [rbind] in Hn. apply (exec_agg_update brs ev iv ar agg ty t g s acc v Hg Hu Hl Hn).
  - rewrite dpred_dpredv in *.
    pose proof (nstuck_bind_l _ _ (nstuck_bind_l _ _ (nstuck_bind_l _ _ Hn))) as Hv.
    rewrite (eval_tpred ev s iv ar t v p Hl Hv).
    destruct (dpredv ev v p) as [w|f|k]; cbn [rbind] in *; [|reflexivity|destruct Hv].
    destruct (truth w) as [b|f|k]; cbn [rbind] in *; [|reflexivity|destruct Hn].
    destruct b; [|reflexivity].
    rewrite (IH (enter [] s) acc); [| exact Hl | rewrite fget_enter; [exact Hg|reflexivity] | exact Hu | exact Hn].
    destruct (passes ev v r) as [[|]|f|k]; cbn [rbind] in *; try reflexivity.
    + destruct (agg_step ev ty g acc v) as [a'|f|k]; cbn [rbind]; try reflexivity.
      rewrite (upd_enter agg _ [] s ty acc); [|reflexivity|exact Hg]. rewrite pop_enter. reflexivity.
    + rewrite pop_enter. reflexivity.
Qed.

Lemma loop_agg (brs : list branch) (ev : event) (iv : string) (ar : bool) (agg ty : string) (g : aggk) (ps : list pred) (l : list value) :
  forall (st : state) (acc : value),
  fget agg st = Some (ty, acc) -> acc <> VUninit -> String.eqb agg iv = false ->
  nstuck (agg_loop ev ty g ps l acc) ->
  for_loop brs ev iv (Blk [] (one_stmt (fi_guards (map (tpred iv ar) ps) (agg_update agg (agg_summand iv ar g))))) l st =
  match agg_loop ev ty g ps l acc with
  | ROk z => ROk (upd agg z st)
  | RFault f => RFault f
  | RStuck k => RStuck k
  end.
Proof.
  induction l as [|v r IH]; intros st acc Hg Hu Hne Hn.
  - cbn [agg_loop]. rewrite for_loop_nil. rewrite (upd_same agg acc st ty Hg). reflexivity.
  - cbn [agg_loop] in *. rewrite for_loop_cons, exec_block_eq. cbn [run_decls rbind].
    rewrite exec_one, guards_exec.
    assert (Hl : lookup iv (enter [(iv, ("auto", v))] st) = Some ("auto", v)).
    { unfold lookup, enter. cbn. rewrite String.eqb_refl. reflexivity. }
    assert (Hg' : fget agg (enter [(iv, ("auto", v))] st) = Some (ty, acc)).
    { rewrite fget_enter; [exact Hg|]. cbn. rewrite Hne. reflexivity. }
    assert (Hn' : nstuck (rbind (passes ev v ps) (fun b => if b then agg_step ev ty g acc v else ROk acc))).
    { destruct (passes ev v ps) as [[|]|f|k]; cbn [rbind] in *; [exact (nstuck_bind_l _ _ Hn)|exact I|exact I|exact Hn]. }
    rewrite (nest_agg brs ev iv ar agg ty "auto" g v ps _ acc Hl Hg' Hu Hn').
    destruct (passes ev v ps) as [b|f|k]; cbn [rbind] in *; [|reflexivity|destruct Hn].
    destruct b; cbn [rbind].
    + destruct (agg_step ev ty g acc v) as [a'|f|k] eqn:Es; cbn [rbind] in *; [|reflexivity|destruct Hn].
      rewrite (upd_enter agg _ _ st ty acc); [|cbn; rewrite Hne; reflexivity|exact Hg].
      rewrite pop_enter.
      destruct (assign_upd agg a' st ty acc Hg) as (_ & _ & Hg1 & _).
      rewrite (IH _ a' Hg1 (arithable_not_uninit _ (agg_step_ok _ _ _ _ _ _ Es)) Hne Hn).
      destruct (agg_loop ev ty g ps r a') as [z|f|k]; try reflexivity.
      rewrite (upd_upd agg _ _ st ty acc Hg). reflexivity.
    + rewrite pop_enter. apply (IH st acc Hg Hu Hne Hn).
Qed.

(* the two statements of one aggregate, run in a state in which its two variables are declared *)
Lemma count_exec (brs : list branch) (ev : event) (idiom : string) (k : cnt) (n : nat) (st : state) (tcv : string) (v0 : value) :
  fget (cv_name k n) st = Some (tcv, v0) ->
  fget (agg_name n) st = Some (agg_type k, conv (agg_type k) (VInt 0)) ->
  String.eqb (agg_name n) (cv_name k n) = false ->
  String.eqb (agg_name n) (iv_name n) = false ->
  match assoc_ss (c_ctype (k_coll k), c_bank (k_coll k)) (ev_colls ev) with
  | None => exec_stmts brs ev (tcount_stmts idiom k n) st = RFault FRetrieve
  | Some (VVec l) =>
      match agg_loop ev (agg_type k) (k_agg k) (k_preds k) l (conv (agg_type k) (VInt 0)) with
      | ROk z => exec_stmts brs ev (tcount_stmts idiom k n) st =
                 ROk (upd (agg_name n) z (upd (cv_name k n) (VVec l) st))
      | RFault f => exec_stmts brs ev (tcount_stmts idiom k n) st = RFault f
      | RStuck _ => True
      end
  | Some VNull => exec_stmts brs ev (tcount_stmts idiom k n) st = RFault FNullDeref
  | Some _ => True
  end.
Proof.
  intros Hcv Hagg Hne1 Hne2. unfold tcount_stmts. rewrite exec_stmts_cons.
  cbn [exec_stmt].
  destruct (assoc_ss (c_ctype (k_coll k), c_bank (k_coll k)) (ev_colls ev)) as [c|] eqn:Ea; [|reflexivity].
  destruct (assign_upd (cv_name k n) c st tcv v0 Hcv) as (Has & _ & Hcv1 & Hoth & _).
  rewrite Has. cbn [rbind]. rewrite exec_one. unfold tcount_loop. rewrite exec_for.
  change (eval ev (upd (cv_name k n) c st) (CDeref (CVar (cv_name k n))))
    with (rbind (eval ev (upd (cv_name k n) c st) (CVar (cv_name k n)))
                (fun x => match x with VNull => RFault FNullDeref | _ => ROk x end)).
  rewrite eval_var, (lookup_fget _ _ _ Hcv1).
  assert (Hagg1 : fget (agg_name n) (upd (cv_name k n) c st) = Some (agg_type k, conv (agg_type k) (VInt 0))).
  { rewrite (Hoth _ Hne1). exact Hagg. }
  assert (Hu : conv (agg_type k) (VInt 0) <> VUninit).
  { apply arithable_not_uninit, conv_arithable. right. cbn. eauto. }
  destruct c; cbn [rbind]; try exact I; try reflexivity.
  destruct (agg_loop ev (agg_type k) (k_agg k) (k_preds k) l (conv (agg_type k) (VInt 0))) as [z|f|kk] eqn:Ec; [| |exact I].
  - rewrite (loop_agg brs ev _ _ _ _ _ _ l _ _ Hagg1 Hu Hne2); rewrite Ec; [reflexivity|exact I].
  - rewrite (loop_agg brs ev _ _ _ _ _ _ l _ _ Hagg1 Hu Hne2); rewrite Ec; [reflexivity|exact I].
Qed.

(* ---------- names ---------- *)
Definition first_not_underscore (b : string) : bool :=
  match b with String c _ => negb (Ascii.eqb c "_"%char) | EmptyString => false end.
Definition base_ok (b : string) : bool := negb (last_digit b) && first_not_underscore b.

Lemma nm_inj (b1 b2 : string) (i j : nat) :
  last_digit b1 = false -> last_digit b2 = false -> nm b1 i = nm b2 j -> i = j.
Proof. intros H1 H2 H. unfold nm in H. destruct (name_index_split b1 b2 i j H1 H2 H) as [_ E]. exact E. Qed.

Lemma nm_neq (b1 b2 : string) (i j : nat) :
  last_digit b1 = false -> last_digit b2 = false -> i <> j -> String.eqb (nm b1 i) (nm b2 j) = false.
Proof.
  intros H1 H2 Hne. destruct (String.eqb (nm b1 i) (nm b2 j)) eqn:E; [|reflexivity].
  apply String.eqb_eq in E. exfalso. apply Hne. exact (nm_inj b1 b2 i j H1 H2 E).
Qed.

Lemma nm_first (b : string) (i : nat) : first_not_underscore b = true -> first_not_underscore (nm b i) = true.
Proof. destruct b; cbn; [discriminate|auto]. Qed.

(* ---------- the translator, component-wise ---------- *)
Fixpoint size (e : ex) : nat :=
  match e with EInt _ => 0 | ECount _ => 3 | EBin _ a b => size a + size b end.
Fixpoint tds (e : ex) (n : nat) : list decl :=
  match e with EInt _ => [] | ECount k => tcount_decls k n | EBin _ a b => tds a n ++ tds b (n + size a) end.
Fixpoint tss (idiom : string) (e : ex) (n : nat) : stmts :=
  match e with
  | EInt _ => SNil | ECount k => tcount_stmts idiom k n
  | EBin _ a b => app_stmts (tss idiom a n) (tss idiom b (n + size a))
  end.
Fixpoint tc (e : ex) (n : nat) : cexp :=
  match e with
  | EInt z => CInt z | ECount _ => CVar (agg_name n)
  | EBin o a b => CBin (op_str o) (tc a n) (tc b (n + size a))
  end.
Lemma te_split (idiom : string) (e : ex) : forall n, te idiom e n = (tds e n, tss idiom e n, tc e n, n + size e).
Proof.
  induction e as [z|k|o a IHa b IHb]; intro n; cbn [te tds tss tc size].
  - rewrite Nat.add_0_r. reflexivity.
  - replace (n + 3) with (S (S (S n))) by lia. reflexivity.
  - rewrite IHa, IHb. rewrite Nat.add_assoc. reflexivity.
Qed.

Fixpoint vars (e : ex) (n : nat) : list string :=
  match e with
  | EInt _ => [] | ECount k => [cv_name k n; agg_name n]
  | EBin _ a b => vars a n ++ vars b (n + size a)
  end.
Fixpoint bases_ok (e : ex) : bool :=
  match e with EInt _ => true | ECount k => base_ok (c_base (k_coll k)) | EBin _ a b => bases_ok a && bases_ok b end.

Lemma vars_shape (e : ex) : forall n x, bases_ok e = true -> In x (vars e n) ->
  exists b i, x = nm b i /\ last_digit b = false /\ first_not_underscore b = true /\ n <= i < n + size e.
Proof.
  induction e as [z|k|o a IHa b IHb]; intros n x Hb Hin; cbn [vars size bases_ok] in *.
  - destruct Hin.
  - unfold base_ok in Hb. apply andb_prop in Hb as [H1 H2]. apply negb_true_iff in H1.
    destruct Hin as [<-|[<-|[]]].
    + exists (c_base (k_coll k)), n. repeat split; auto; lia.
    + exists "aggResult", (S (S n)). repeat split; auto; lia.
  - apply andb_prop in Hb as [Ha Hb']. apply in_app_or in Hin as [Hin|Hin].
    + destruct (IHa n x Ha Hin) as (bb & i & E & L & F & R). exists bb, i. repeat split; auto; lia.
    + destruct (IHb _ x Hb' Hin) as (bb & i & E & L & F & R). exists bb, i. repeat split; auto; lia.
Qed.

Lemma vars_disjoint (a b : ex) (n : nat) (x : string) :
  bases_ok a = true -> bases_ok b = true -> In x (vars a n) -> In x (vars b (n + size a)) -> False.
Proof.
  intros Ha Hb H1 H2.
  destruct (vars_shape a n x Ha H1) as (b1 & i & E1 & L1 & _ & R1).
  destruct (vars_shape b _ x Hb H2) as (b2 & j & E2 & L2 & _ & R2).
  subst x. apply (nm_inj b1 b2 i j L1 L2) in E2. lia.
Qed.

(* ---------- reference semantics in two phases ---------- *)
Fixpoint dstm (ev : event) (e : ex) : res unit :=
  match e with
  | EInt _ => ROk tt
  | ECount k => rdo _ <- dcount ev k; ROk tt
  | EBin _ a b => rdo _ <- dstm ev a; dstm ev b
  end.

Lemma arith_total (o : bop) (x y : value) : arithable x -> arithable y -> exists v, arith (op_str o) x y = ROk v /\ arithable v.
Proof.
  intros Hx Hy. unfold arith.
  destruct (is_sym x || is_sym y) eqn:S.
  - eexists. split; [reflexivity|]. left. reflexivity.
  - apply orb_false_iff in S as [Sx Sy].
    destruct Hx as [Hx|[p Hp]]; [congruence|]. destruct Hy as [Hy|[q Hq]]; [congruence|].
    rewrite Hp, Hq.
    destruct p as [px|px], q as [qy|qy]; destruct o; cbn; eexists; split; try reflexivity; right; cbn; eauto.
Qed.

Lemma agg_loop_arithable (ev : event) (ty : string) (g : aggk) (ps : list pred) (l : list value) : forall acc z,
  arithable acc -> agg_loop ev ty g ps l acc = ROk z -> arithable z.
Proof.
  induction l as [|v r IH]; intros acc z Ha H; cbn [agg_loop] in H.
  - inversion H; subst. exact Ha.
  - destruct (passes ev v ps) as [[|]|f|k]; cbn [rbind] in H; try discriminate.
    + destruct (agg_step ev ty g acc v) as [a'|f|k] eqn:Es; cbn [rbind] in H; try discriminate.
      eapply IH; [|exact H]. eapply agg_step_ok. exact Es.
    + eapply IH; eauto.
Qed.

Lemma dcount_arithable (ev : event) (k : cnt) (z : value) : dcount ev k = ROk z -> arithable z.
Proof.
  unfold dcount. destruct (assoc_ss _ _) as [c|]; try discriminate. destruct c; try discriminate.
  apply agg_loop_arithable. apply conv_arithable. right. cbn. eauto.
Qed.

Lemma de_phases (ev : event) (e : ex) :
  match de ev e with
  | ROk v => dstm ev e = ROk tt /\ arithable v
  | RFault f => dstm ev e = RFault f
  | RStuck _ => True
  end.
Proof.
  induction e as [z|k|o a IHa b IHb]; cbn [de dstm].
  - split; [reflexivity|]. right. cbn. eauto.
  - destruct (dcount ev k) eqn:E; cbn [rbind]; auto. split; [reflexivity|]. eapply dcount_arithable. exact E.
  - destruct (de ev a) as [x|f|kk]; cbn [rbind]; [|rewrite IHa; reflexivity|exact I].
    destruct IHa as [Ea Nx]. rewrite Ea. cbn [rbind].
    destruct (de ev b) as [y|f|kk]; cbn [rbind]; [|exact IHb|exact I].
    destruct IHb as [Eb Ny]. destruct (arith_total o x y Nx Ny) as (v & Ev & Nv). rewrite Ev. split; assumption.
Qed.

(* ---------- the statements of an expression ---------- *)
Fixpoint declared (e : ex) (n : nat) (st : state) : Prop :=
  match e with
  | EInt _ => True
  | ECount k => (exists t v, fget (cv_name k n) st = Some (t, v)) /\
                fget (agg_name n) st = Some (agg_type k, conv (agg_type k) (VInt 0))
  | EBin _ a b => declared a n st /\ declared b (n + size a) st
  end.

Lemma declared_ext (e : ex) : forall n st st',
  (forall x, In x (vars e n) -> fget x st' = fget x st) -> declared e n st -> declared e n st'.
Proof.
  induction e as [z|k|o a IHa b IHb]; intros n st st' H D; cbn [declared vars] in *.
  - exact I.
  - destruct D as [(t & v & D1) D2]. split.
    + exists t, v. rewrite H; [exact D1|left; reflexivity].
    + rewrite H; [exact D2|right; left; reflexivity].
  - destruct D as [Da Db]. split.
    + eapply IHa; [|exact Da]. intros x Hx. apply H, in_or_app. left; exact Hx.
    + eapply IHb; [|exact Db]. intros x Hx. apply H, in_or_app. right; exact Hx.
Qed.

(* the value expression only reads the accumulators of the expression *)
Definition bound (e : ex) (n : nat) (st : state) : Prop :=
  forall x, In x (vars e n) -> exists tv, fget x st = Some tv.

Lemma tc_ext (ev : event) (e : ex) : forall n s1 s2,
  bound e n s1 -> (forall x, In x (vars e n) -> fget x s2 = fget x s1) -> eval ev s2 (tc e n) = eval ev s1 (tc e n).
Proof.
  induction e as [z|k|o a IHa b IHb]; intros n s1 s2 D H; cbn [tc vars] in *.
  - reflexivity.
  - destruct (D (agg_name n)) as [tv E1]; [right; left; reflexivity|].
    assert (E2 : fget (agg_name n) s2 = Some tv) by (rewrite H; [exact E1|right; left; reflexivity]).
    rewrite !eval_var, (lookup_fget _ _ _ E1), (lookup_fget _ _ _ E2). reflexivity.
  - change (eval ev s2 (CBin (op_str o) (tc a n) (tc b (n + size a))))
      with (rbind (eval ev s2 (tc a n)) (fun x => rbind (eval ev s2 (tc b (n + size a))) (fun y => arith (op_str o) x y))).
    change (eval ev s1 (CBin (op_str o) (tc a n) (tc b (n + size a))))
      with (rbind (eval ev s1 (tc a n)) (fun x => rbind (eval ev s1 (tc b (n + size a))) (fun y => arith (op_str o) x y))).
    rewrite (IHa n s1 s2), (IHb (n + size a) s1 s2); [reflexivity| | | |];
      try (intros x Hx; apply H, in_or_app; auto); intros x Hx; apply D; cbn [vars]; apply in_or_app; auto.
Qed.

Lemma te_exec (brs : list branch) (ev : event) (idiom : string) (e : ex) : forall (n : nat) (st : state),
  bases_ok e = true -> declared e n st ->
  match dstm ev e with
  | ROk _ => exists st', exec_stmts brs ev (tss idiom e n) st = ROk st' /\
                         members st' = members st /\ rows st' = rows st /\
                         (forall y, ~ In y (vars e n) -> fget y st' = fget y st) /\
                         bound e n st' /\
                         eval ev st' (tc e n) = de ev e
  | RFault f => exec_stmts brs ev (tss idiom e n) st = RFault f
  | RStuck _ => True
  end.
Proof.
  induction e as [z|k|o a IHa b IHb]; intros n st Hb D; cbn [dstm tss tc vars de declared bases_ok] in *.
  - exists st. repeat split; auto. intros x [].
  - destruct D as [(tcv & v0 & Dcv) Dagg].
    unfold base_ok in Hb. apply andb_prop in Hb as [Hl _]. apply negb_true_iff in Hl.
    assert (N1 : String.eqb (agg_name n) (cv_name k n) = false) by (apply nm_neq; [reflexivity|exact Hl|lia]).
    assert (N2 : String.eqb (agg_name n) (iv_name n) = false) by (apply nm_neq; [reflexivity|reflexivity|lia]).
    pose proof (count_exec brs ev idiom k n st tcv v0 Dcv Dagg N1 N2) as C.
    unfold dcount in *.
    destruct (assoc_ss (c_ctype (k_coll k), c_bank (k_coll k)) (ev_colls ev)) as [c|]; cbn [rbind]; [|exact C].
    destruct c; cbn [rbind]; try exact I; try exact C.
    destruct (agg_loop ev (agg_type k) (k_agg k) (k_preds k) l (conv (agg_type k) (VInt 0))) as [z|f|kk] eqn:El; cbn [rbind]; [|exact C|exact I].
    destruct (assign_upd (cv_name k n) (VVec l) st tcv v0 Dcv) as (_ & _ & G1 & O1 & M1 & R1).
    assert (Dagg1 : fget (agg_name n) (upd (cv_name k n) (VVec l) st) = Some (agg_type k, conv (agg_type k) (VInt 0))) by (rewrite (O1 _ N1); exact Dagg).
    destruct (assign_upd (agg_name n) z _ (agg_type k) _ Dagg1) as (_ & _ & G2 & O2 & M2 & R2).
    assert (Zu : z <> VUninit).
    { apply arithable_not_uninit. eapply agg_loop_arithable; [|exact El]. apply conv_arithable. right. cbn. eauto. }
    eexists. split; [exact C|]. split; [congruence|]. split; [congruence|]. split; [|split].
    + intros y Hy.
      assert (Y1 : String.eqb y (agg_name n) = false).
      { destruct (String.eqb y (agg_name n)) eqn:E; [|reflexivity]. apply String.eqb_eq in E. exfalso. apply Hy. right; left; auto. }
      assert (Y2 : String.eqb y (cv_name k n) = false).
      { destruct (String.eqb y (cv_name k n)) eqn:E; [|reflexivity]. apply String.eqb_eq in E. exfalso. apply Hy. left; auto. }
      rewrite (O2 _ Y1), (O1 _ Y2). reflexivity.
    + intros x [<-|[<-|[]]].
      * assert (N3 : String.eqb (cv_name k n) (agg_name n) = false) by (rewrite String.eqb_sym; exact N1).
        rewrite (O2 _ N3), G1. eauto.
      * rewrite G2. eauto.
    + rewrite eval_var, (lookup_fget _ _ _ G2). destruct z; try reflexivity. contradiction.
  - apply andb_prop in Hb as [Hba Hbb]. destruct D as [Da Db].
    specialize (IHa n st Hba Da). rewrite exec_stmts_app.
    destruct (dstm ev a) as [[]|f|kk]; cbn [rbind]; [|rewrite IHa; reflexivity|exact I].
    destruct IHa as (st1 & E1 & M1 & R1 & U1 & B1 & V1). rewrite E1. cbn [rbind].
    assert (Db1 : declared b (n + size a) st1).
    { eapply declared_ext; [|exact Db]. intros x Hx. apply U1. intro Hxa. exact (vars_disjoint a b n x Hba Hbb Hxa Hx). }
    specialize (IHb (n + size a) st1 Hbb Db1).
    destruct (dstm ev b) as [[]|f|kk]; [|exact IHb|exact I].
    destruct IHb as (st2 & E2 & M2 & R2 & U2 & B2 & V2).
    exists st2. split; [exact E2|]. split; [congruence|]. split; [congruence|]. split; [|split].
    + intros y Hy. rewrite U2, U1; [reflexivity| |]; intro H; apply Hy, in_or_app; auto.
    + intros x Hx. apply in_app_or in Hx as [Hx|Hx].
      * rewrite U2; [apply B1, Hx|]. intro Hxb. exact (vars_disjoint a b n x Hba Hbb Hx Hxb).
      * apply B2, Hx.
    + change (eval ev st2 (CBin (op_str o) (tc a n) (tc b (n + size a))))
        with (rbind (eval ev st2 (tc a n)) (fun x => rbind (eval ev st2 (tc b (n + size a))) (fun y => arith (op_str o) x y))).
      rewrite (tc_ext ev a n st1 st2 B1), V1, V2; [reflexivity|].
      intros x Hx. apply U2. intro Hxb. exact (vars_disjoint a b n x Hba Hbb Hx Hxb).
Qed.

(* ---------- block entry: the declarations ---------- *)
Lemma run_decls_app (ev : event) (d1 d2 : list decl) (st : state) :
  run_decls ev (d1 ++ d2) st = rbind (run_decls ev d1 st) (fun st1 => run_decls ev d2 st1).
Proof.
  revert st. induction d1 as [|d r IH]; intro st; cbn [app run_decls]; [reflexivity|].
  destruct (d_init d) as [e|].
  - destruct (eval ev st e); cbn [rbind]; [apply IH|reflexivity|reflexivity].
  - apply IH.
Qed.

Lemma frame_get_app_new (x : string) (f : frame) (tv : string * value) :
  frame_get x f = None -> frame_get x (f ++ [(x, tv)]) = Some tv.
Proof.
  induction f as [|[y w] r IH]; cbn [app frame_get]; intro H.
  - rewrite String.eqb_refl. reflexivity.
  - destruct (String.eqb x y); [discriminate|]. apply IH, H.
Qed.
Lemma frame_get_app_other (x y : string) (f : frame) (tv : string * value) :
  String.eqb y x = false -> frame_get y (f ++ [(x, tv)]) = frame_get y f.
Proof.
  intro H. induction f as [|[z w] r IH]; cbn [app frame_get].
  - rewrite H. reflexivity.
  - destruct (String.eqb y z); [reflexivity|exact IH].
Qed.

Lemma declare_spec (x t : string) (v : value) (st : state) :
  fget x st = None ->
  fget x (declare x t v st) = Some (t, v) /\
  (forall y, String.eqb y x = false -> fget y (declare x t v st) = fget y st) /\
  members (declare x t v st) = members st /\ rows (declare x t v st) = rows st.
Proof.
  unfold fget, declare. intro H. destruct (frames st) as [|f r] eqn:E; cbn [frames members rows frames_get].
  - cbn [frame_get]. rewrite String.eqb_refl. repeat split; auto. intros y Hy. rewrite Hy. reflexivity.
  - cbn [frames_get] in H. destruct (frame_get x f) eqn:Ef; [discriminate|].
    rewrite (frame_get_app_new x f (t, v) Ef). repeat split; auto.
    intros y Hy. rewrite (frame_get_app_other x y f (t, v) Hy). reflexivity.
Qed.

Lemma decls_declared (ev : event) (e : ex) : forall (n : nat) (st : state),
  bases_ok e = true ->
  (forall x, In x (vars e n) -> fget x st = None) ->
  exists st', run_decls ev (tds e n) st = ROk st' /\ declared e n st' /\
              members st' = members st /\ rows st' = rows st /\
              (forall y, ~ In y (vars e n) -> fget y st' = fget y st).
Proof.
  induction e as [z|k|o a IHa b IHb]; intros n st Hb Hf; cbn [tds vars declared bases_ok] in *.
  - exists st. cbn. repeat split; auto.
  - unfold base_ok in Hb. apply andb_prop in Hb as [Hl _]. apply negb_true_iff in Hl.
    assert (N1 : String.eqb (agg_name n) (cv_name k n) = false) by (apply nm_neq; [reflexivity|exact Hl|lia]).
    unfold tcount_decls. cbn [run_decls d_init d_name d_type eval rbind].
    set (v0 := default_value (c_ctype (k_coll k))).
    destruct (declare_spec (cv_name k n) (c_ctype (k_coll k)) v0 st) as (G1 & O1 & M1 & R1); [apply Hf; left; reflexivity|].
    set (st1 := declare (cv_name k n) (c_ctype (k_coll k)) v0 st) in *.
    assert (F2 : fget (agg_name n) st1 = None) by (rewrite (O1 _ N1); apply Hf; right; left; reflexivity).
    assert (Ei : init_value (agg_type k) (VInt 0) = conv (agg_type k) (VInt 0)).
    { unfold init_value. destruct (is_vector_type (agg_type k)) eqn:Ev; [|reflexivity].
      exfalso. unfold agg_type in Ev. destruct (k_agg k) as [|body]; [discriminate|].
      clear - Ev. induction body; cbn [pa_type] in Ev; try discriminate.
      destruct (String.eqb (pa_type body1) "int" && String.eqb (pa_type body2) "int"); discriminate. }
    rewrite Ei.
    destruct (declare_spec (agg_name n) (agg_type k) (conv (agg_type k) (VInt 0)) st1 F2) as (G2 & O2 & M2 & R2).
    eexists. split; [reflexivity|]. split; [split|].
    + exists (c_ctype (k_coll k)), v0.
      assert (N3 : String.eqb (cv_name k n) (agg_name n) = false) by (rewrite String.eqb_sym; exact N1).
      rewrite (O2 _ N3). exact G1.
    + exact G2.
    + split; [congruence|]. split; [congruence|]. intros y Hy.
      assert (Y1 : String.eqb y (agg_name n) = false).
      { destruct (String.eqb y (agg_name n)) eqn:E; [|reflexivity]. apply String.eqb_eq in E. exfalso. apply Hy. right; left; auto. }
      assert (Y2 : String.eqb y (cv_name k n) = false).
      { destruct (String.eqb y (cv_name k n)) eqn:E; [|reflexivity]. apply String.eqb_eq in E. exfalso. apply Hy. left; auto. }
      rewrite (O2 _ Y1), (O1 _ Y2). reflexivity.
  - apply andb_prop in Hb as [Hba Hbb]. rewrite run_decls_app.
    destruct (IHa n st Hba) as (st1 & E1 & D1 & M1 & R1 & U1); [intros x Hx; apply Hf, in_or_app; auto|].
    rewrite E1. cbn [rbind].
    destruct (IHb (n + size a) st1 Hbb) as (st2 & E2 & D2 & M2 & R2 & U2).
    { intros x Hx. rewrite U1; [apply Hf, in_or_app; auto|]. intro Hxa. exact (vars_disjoint a b n x Hba Hbb Hxa Hx). }
    exists st2. split; [exact E2|]. split; [split|].
    + eapply declared_ext; [|exact D1]. intros x Hx. apply U2. intro Hxb. exact (vars_disjoint a b n x Hba Hbb Hx Hxb).
    + exact D2.
    + split; [congruence|]. split; [congruence|]. intros y Hy. rewrite U2, U1; [reflexivity| |]; intro H; apply Hy, in_or_app; auto.
Qed.

(* ---------- the whole program ---------- *)
Lemma frames_set_None (x : string) (v : value) (fs : list frame) : frames_get x fs = None -> frames_set x v fs = None.
Proof.
  induction fs as [|f r IH]; cbn [frames_get frames_set]; intro H; [reflexivity|].
  destruct (frame_get x f) eqn:E; [discriminate|]. rewrite (frame_set_None x v f E), (IH H). reflexivity.
Qed.

Lemma col_not_var (e : ex) (n m : nat) : bases_ok e = true -> ~ In (col_name m) (vars e n).
Proof.
  intros Hb Hin. destruct (vars_shape e n _ Hb Hin) as (b & i & E & _ & F & _).
  pose proof (nm_first b i F) as H. rewrite <- E in H. discriminate H.
Qed.

Theorem frag_correct (bk : FragTranslate.backend) (e : ex) (n0 : nat) (ev : event) (ms : frame) (old : value) :
  bases_ok e = true ->
  frame_get (col_name (n0 + size e)) ms = Some (ex_type e, old) ->
  match de ev e with
  | ROk v => exists ms', run_event (prog bk e n0) ms ev = ROk ([[conv (ex_type e) v]], ms') /\
                         frame_get (col_name (n0 + size e)) ms' = Some (ex_type e, conv (ex_type e) v)
  | RFault f => run_event (prog bk e n0) ms ev = RFault f
  | RStuck _ => True
  end.
Proof.
  intros Hb Hcol. pose proof (de_phases ev e) as Hph.
  unfold prog. rewrite te_split. unfold run_event. cbn [p_body p_branches].
  set (col := col_name (n0 + size e)) in *.
  set (brs := [{| br_name := "col1"; br_var := col |}]).
  rewrite exec_block_eq.
  set (st0 := enter [] {| frames := []; members := ms; rows := [] |}).
  destruct (decls_declared ev e n0 st0 Hb) as (st1 & E1 & D1 & M1 & R1 & U1); [intros x _; reflexivity|].
  rewrite E1. cbn [rbind]. rewrite exec_stmts_app.
  pose proof (te_exec brs ev (b_idiom bk) e n0 st1 Hb D1) as T.
  destruct (de ev e) as [v|f|k] eqn:Ed; [| |exact I].
  - destruct Hph as [Hs _]. rewrite Hs in T. destruct T as (st2 & E2 & M2 & R2 & U2 & B2 & V2).
    rewrite E2. cbn [rbind]. rewrite exec_stmts_cons, exec_set, V2. cbn [rbind].
    assert (Fc : fget col st2 = None).
    { rewrite U2, U1; [reflexivity| |]; apply col_not_var, Hb. }
    assert (Lc : lookup col st2 = Some (ex_type e, old)).
    { unfold lookup. unfold fget in Fc. rewrite Fc, M2, M1. exact Hcol. }
    rewrite Lc.
    destruct (frame_set_spec col (conv (ex_type e) v) ms (ex_type e) old Hcol) as (ms' & Hs' & Hg' & _).
    assert (As : assign col (conv (ex_type e) v) st2 = Some {| frames := frames st2; members := ms'; rows := rows st2 |}).
    { unfold assign. unfold fget in Fc. rewrite (frames_set_None _ _ _ Fc), M2, M1. cbn [members st0 enter]. rewrite Hs'. reflexivity. }
    rewrite As. cbn [rbind]. rewrite exec_one. cbn [exec_stmt rbind pop_frame frames members rows fill_row map br_var].
    exists ms'. split; [|exact Hg']. rewrite R2, R1. unfold fill_row, brs. cbn [map br_var members rows st0 enter app].
    rewrite Hg'. reflexivity.
  - rewrite Hph in T. rewrite T. reflexivity.
Qed.

(* when every predicate evaluation succeeds, the streaming Count is the length of the filtered list *)
Lemma count_is_filter_length (ev : event) (ps : list pred) (f : value -> bool) (l : list value) : forall a,
  passes_total ev ps l f ->
  agg_loop ev "int" ACount ps l (VInt a) = ROk (VInt (a + Z.of_nat (List.length (filter f l))))%Z.
Proof.
  induction l as [|v r IH]; intros a H; cbn [agg_loop filter List.length].
  - do 2 f_equal. lia.
  - rewrite (H v (or_introl eq_refl)). cbn [rbind].
    assert (Hr : passes_total ev ps r f) by (intros w Hw; apply H; right; exact Hw).
    destruct (f v); cbn [List.length].
    + change (agg_step ev "int" ACount (VInt a) v) with (ROk (VInt (a + 1))). cbn [rbind].
      rewrite (IH _ Hr). do 2 f_equal. lia.
    + rewrite (IH _ Hr). reflexivity.
Qed.
