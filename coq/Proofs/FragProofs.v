(* C01, fragment F0: the program the compositional translator of Model/FragTranslate.v emits computes, on
   every event and from every state of the class members, exactly the row the query denotes under the
   reference (streaming LINQ) semantics - or fails exactly when the query is undefined.
   Proved over the big-step semantics Cpp/Exec.v; unbounded in the size and nesting of the expression, the
   number of collections and the size of the event. *)
From FV Require Import Base.Prelude Cpp.IR Cpp.Exec Model.Lowering Proofs.LoweringProofs Model.FragTranslate Proofs.FrameShape.
From FV Require Model.TreeSchema Proofs.TreeSchemaProofs.
Notation last_digit := TreeSchemaProofs.last_digit.
Notation name_index_split := TreeSchemaProofs.name_index_split.
From Coq Require Import QArith Lia.
Close Scope Q_scope.

(* ---------- frames ---------- *)
Definition fget (x : string) (st : state) : option (string * value) := frames_get x (frames st).

Lemma frame_set_spec (x : string) (v : value) (f : frame) (t : string) (old : value) :
  frame_get x f = Some (t, old) ->
  exists f', frame_set x v f = Some f' /\ frame_get x f' = Some (t, v) /\
             (forall y, String.eqb y x = false -> frame_get y f' = frame_get y f).
Proof.
  induction f as [|[y [ty w]] r IH]; cbn [frame_get frame_set]; intro H; [discriminate|].
  destruct (String.eqb x y) eqn:E.
  - inversion H; subst. eexists; split; [reflexivity|]. cbn [frame_get]. rewrite E. split; [reflexivity|].
    intros z Hz. apply String.eqb_eq in E; subst y. rewrite Hz. reflexivity.
  - destruct (IH H) as (f' & Hs & Hg & Ho). rewrite Hs. eexists; split; [reflexivity|]. cbn [frame_get]. rewrite E.
    split; [exact Hg|]. intros z Hz. destruct (String.eqb z y); [reflexivity|apply Ho, Hz].
Qed.

Lemma frame_set_None (x : string) (v : value) (f : frame) : frame_get x f = None -> frame_set x v f = None.
Proof.
  induction f as [|[y [ty w]] r IH]; cbn [frame_get frame_set]; intro H; [reflexivity|].
  destruct (String.eqb x y); [discriminate|]. rewrite (IH H). reflexivity.
Qed.

Lemma frames_set_spec (x : string) (v : value) (fs : list frame) (t : string) (old : value) :
  frames_get x fs = Some (t, old) ->
  exists fs', frames_set x v fs = Some fs' /\ frames_get x fs' = Some (t, v) /\
              (forall y, String.eqb y x = false -> frames_get y fs' = frames_get y fs).
Proof.
  induction fs as [|f r IH]; cbn [frames_get frames_set]; intro H; [discriminate|].
  destruct (frame_get x f) as [[t0 o0]|] eqn:E.
  - inversion H; subst. destruct (frame_set_spec x v f t old E) as (f' & Hs & Hg & Ho). rewrite Hs.
    eexists; split; [reflexivity|]. cbn [frames_get]. rewrite Hg. split; [reflexivity|].
    intros y Hy. rewrite (Ho y Hy). reflexivity.
  - rewrite (frame_set_None x v f E). destruct (IH H) as (r' & Hs & Hg & Ho). rewrite Hs.
    eexists; split; [reflexivity|]. cbn [frames_get]. rewrite E. split; [exact Hg|].
    intros y Hy. destruct (frame_get y f); [reflexivity|apply Ho, Hy].
Qed.

(* assignment to a name bound in the frames: the new state *)
Definition upd (x : string) (v : value) (st : state) : state :=
  match frames_set x v (frames st) with
  | Some fs => {| frames := fs; members := members st; rows := rows st |}
  | None => st
  end.

Lemma assign_upd (x : string) (v : value) (st : state) (t : string) (old : value) :
  fget x st = Some (t, old) ->
  assign x v st = Some (upd x v st) /\ lookup x st = Some (t, old) /\
  fget x (upd x v st) = Some (t, v) /\
  (forall y, String.eqb y x = false -> fget y (upd x v st) = fget y st) /\
  members (upd x v st) = members st /\ rows (upd x v st) = rows st.
Proof.
  unfold fget, assign, upd, lookup. intro H.
  destruct (frames_set_spec x v (frames st) t old H) as (fs' & Hs & Hg & Ho).
  rewrite Hs, H. cbn. repeat split; auto.
Qed.

Lemma lookup_fget (x : string) (st : state) (tv : string * value) : fget x st = Some tv -> lookup x st = Some tv.
Proof. unfold fget, lookup. intro H. rewrite H. reflexivity. Qed.

Lemma fget_enter (x : string) (pre : frame) (st : state) :
  frame_get x pre = None -> fget x (enter pre st) = fget x st.
Proof. unfold fget, enter. cbn. intro H. rewrite H. reflexivity. Qed.

Lemma fget_enter_hit (x : string) (pre : frame) (st : state) (tv : string * value) :
  frame_get x pre = Some tv -> fget x (enter pre st) = Some tv.
Proof. unfold fget, enter. cbn. intro H. rewrite H. reflexivity. Qed.

(* an assignment made inside a freshly entered frame that does not bind x is the assignment outside *)
Lemma upd_enter (x : string) (v : value) (pre : frame) (st : state) (t : string) (old : value) :
  frame_get x pre = None -> fget x st = Some (t, old) -> upd x v (enter pre st) = enter pre (upd x v st).
Proof.
  unfold fget, upd, enter. cbn [frames frames_set]. intros Hp H.
  rewrite (frame_set_None x v pre Hp).
  destruct (frames_set_spec x v (frames st) t old H) as (fs' & Hs & _). rewrite Hs. reflexivity.
Qed.

Lemma upd_upd (x : string) (v w : value) (st : state) (t : string) (old : value) :
  fget x st = Some (t, old) -> upd x w (upd x v st) = upd x w st.
Proof.
  unfold fget, upd. intro H.
  destruct (frames_set_spec x v (frames st) t old H) as (fs1 & Hs1 & Hg1 & _). rewrite Hs1. cbn [frames members rows].
  destruct (frames_set_spec x w (frames st) t old H) as (fs2 & Hs2 & _). rewrite Hs2.
  destruct (frames_set_spec x w fs1 t v Hg1) as (fs3 & Hs3 & _). rewrite Hs3.
  f_equal.
  (* fs3 = fs2: setting twice = setting once *)
  clear - Hs1 Hs2 Hs3. revert fs1 fs2 fs3 Hs1 Hs2 Hs3.
  induction (frames st) as [|f r IH]; cbn [frames_set]; intros fs1 fs2 fs3 H1 H2 H3; [discriminate|].
  destruct (frame_set x v f) as [f1|] eqn:E1.
  - inversion H1; subst fs1. cbn [frames_set] in H3.
    assert (exists f2, frame_set x w f = Some f2 /\ frame_set x w f1 = Some f2) as (f2 & A & B).
    { clear - E1. revert f1 E1. induction f as [|[y [ty u]] q IHf]; cbn [frame_set]; intros f1 E1; [discriminate|].
      destruct (String.eqb x y) eqn:E.
      - inversion E1; subst. cbn [frame_set]. rewrite E. eexists; split; reflexivity.
      - destruct (frame_set x v q) as [q1|] eqn:Eq; [|discriminate]. inversion E1; subst. cbn [frame_set]. rewrite E.
        destruct (IHf q1 eq_refl) as (f2 & A & B). rewrite A, B. eexists; split; reflexivity. }
    rewrite A in H2. rewrite B in H3. congruence.
  - destruct (frames_set x v r) as [r1|] eqn:Er; [|discriminate]. inversion H1; subst fs1.
    cbn [frames_set] in H3.
    assert (Hn : frame_set x w f = None).
    { clear - E1. induction f as [|[y [ty u]] q IHf]; cbn [frame_set] in *; [reflexivity|].
      destruct (String.eqb x y); [discriminate|]. destruct (frame_set x v q); [discriminate|]. rewrite IHf; reflexivity. }
    rewrite Hn in H2, H3.
    destruct (frames_set x w r) as [r2|] eqn:Er2; [|discriminate].
    destruct (frames_set x w r1) as [r3|] eqn:Er3; [|discriminate].
    inversion H2; inversion H3; subst. f_equal. eapply IH; eauto.
Qed.

(* ---------- results ---------- *)
Definition nstuck {A} (r : res A) : Prop := match r with RStuck _ => False | _ => True end.

Lemma nstuck_bind_l {A B} (r : res A) (f : A -> res B) : nstuck (rbind r f) -> nstuck r.
Proof. destruct r; cbn; auto. Qed.
Lemma nstuck_bind_r {A B} (r : res A) (f : A -> res B) (a : A) : nstuck (rbind r f) -> r = ROk a -> nstuck (f a).
Proof. intros H E. subst. exact H. Qed.

(* ---------- predicates: the emitted condition evaluates like the reference ---------- *)
Lemma eval_tpa (ev : event) (s : state) (iv : string) (ar : bool) (t : string) (v : value) (a : pa) :
  lookup iv s = Some (t, v) -> nstuck (dpa ev v a) -> eval ev s (tpa iv ar a) = dpa ev v a.
Proof.
  intro Hl. induction a as [z|tx n d|m|op x IHx y IHy|x IHx y IHy|x IHx|f x IHx]; cbn [tpa dpa]; intro Hn.
  - reflexivity.
  - reflexivity.
  - rewrite eval_meth, eval_var, Hl. destruct v; try reflexivity. cbn in Hn. destruct Hn.
  - change (eval ev s (CBin op (tpa iv ar x) (tpa iv ar y)))
      with (rbind (eval ev s (tpa iv ar x)) (fun p => rbind (eval ev s (tpa iv ar y)) (fun q => arith op p q))).
    rewrite (IHx (nstuck_bind_l _ _ Hn)).
    destruct (dpa ev v x) as [p|f|k] eqn:Ex; cbn [rbind] in *; [|reflexivity|destruct Hn].
    rewrite (IHy (nstuck_bind_l _ _ Hn)). reflexivity.
  - pose proof (IHx (nstuck_bind_l _ _ Hn)) as Ex.
    destruct (div_needs_cast x y).
    + change (eval ev s (CBin "/" (CCast "double" (tpa iv ar x)) (tpa iv ar y)))
        with (rbind (rbind (eval ev s (tpa iv ar x)) (fun p => ROk (conv "double" p)))
                    (fun p => rbind (eval ev s (tpa iv ar y)) (fun q => arith "/" p q))).
      rewrite Ex. destruct (dpa ev v x) as [p|f|k]; cbn [rbind] in *; [|reflexivity|destruct Hn].
      rewrite (IHy (nstuck_bind_l _ _ Hn)). reflexivity.
    + change (eval ev s (CBin "/" (tpa iv ar x) (tpa iv ar y)))
        with (rbind (eval ev s (tpa iv ar x)) (fun p => rbind (eval ev s (tpa iv ar y)) (fun q => arith "/" p q))).
      rewrite Ex. destruct (dpa ev v x) as [p|f|k]; cbn [rbind] in *; [|reflexivity|destruct Hn].
      rewrite (IHy (nstuck_bind_l _ _ Hn)). reflexivity.
  - change (eval ev s (CUn "-" (tpa iv ar x))) with (rbind (eval ev s (tpa iv ar x)) (fun p => unary "-" p)).
    rewrite (IHx (nstuck_bind_l _ _ Hn)). reflexivity.
  - change (eval ev s (CCall f (CCons (tpa iv ar x) CNil)))
      with (rbind (rbind (eval ev s (tpa iv ar x)) (fun p => rbind (ROk []) (fun vs => ROk (p :: vs)))) (fun vs => ROk (VSym f (map math_arg vs)))).
    rewrite (IHx (nstuck_bind_l _ _ Hn)). destruct (dpa ev v x) as [p|g|k]; reflexivity.
Qed.

(* ---------- names ---------- *)
Definition first_not_underscore (b : string) : bool :=
  match b with String c _ => negb (Ascii.eqb c "_"%char) | EmptyString => false end.
Definition base_ok (b : string) : bool := negb (last_digit b) && first_not_underscore b.

Lemma nm_inj (b1 b2 : string) (i j : nat) :
  last_digit b1 = false -> last_digit b2 = false -> nm b1 i = nm b2 j -> i = j.
Proof. intros H1 H2 H. unfold nm in H. destruct (name_index_split b1 b2 i j H1 H2 H) as [_ E]. exact E. Qed.

Lemma nm_neq (b1 b2 : string) (i j : nat) :
  last_digit b1 = false -> last_digit b2 = false -> i <> j -> String.eqb (nm b1 i) (nm b2 j) = false.
Proof.
  intros H1 H2 Hne. destruct (String.eqb (nm b1 i) (nm b2 j)) eqn:E; [|reflexivity].
  apply String.eqb_eq in E. exfalso. apply Hne. exact (nm_inj b1 b2 i j H1 H2 E).
Qed.

Lemma nm_neq_base (b1 b2 : string) (i j : nat) :
  last_digit b1 = false -> last_digit b2 = false -> b1 <> b2 -> String.eqb (nm b1 i) (nm b2 j) = false.
Proof.
  intros H1 H2 Hne. destruct (String.eqb (nm b1 i) (nm b2 j)) eqn:E; [|reflexivity].
  apply String.eqb_eq in E. exfalso. apply Hne. unfold nm in E. destruct (name_index_split b1 b2 i j H1 H2 E) as [Eb _]. exact Eb.
Qed.

Lemma nm_first (b : string) (i : nat) : first_not_underscore b = true -> first_not_underscore (nm b i) = true.
Proof. destruct b; cbn; [discriminate|auto]. Qed.

(* the value of the (possibly negated) comparison, before it is read as a truth value: dpredv (model) *)
Lemma dpred_dpredv ev v p : dpred ev v p = rbind (dpredv ev v p) truth.
Proof. reflexivity. Qed.

Lemma eval_tpred (ev : event) (s : state) (iv : string) (ar : bool) (t : string) (v : value) (p : pred) :
  lookup iv s = Some (t, v) -> nstuck (dpredv ev v p) -> eval ev s (tpred iv ar p) = dpredv ev v p.
Proof.
  intros Hl Hn. unfold tpred, dpredv in *.
  assert (E : eval ev s (CBin (p_op p) (tpa iv ar (p_l p)) (tpa iv ar (p_r p))) =
              rbind (dpa ev v (p_l p)) (fun x => rbind (dpa ev v (p_r p)) (fun y => arith (p_op p) x y))).
  { change (eval ev s (CBin (p_op p) (tpa iv ar (p_l p)) (tpa iv ar (p_r p))))
      with (rbind (eval ev s (tpa iv ar (p_l p))) (fun x => rbind (eval ev s (tpa iv ar (p_r p))) (fun y => arith (p_op p) x y))).
    rewrite (eval_tpa ev s iv ar t v _ Hl (nstuck_bind_l _ _ Hn)).
    destruct (dpa ev v (p_l p)) as [x|f|k]; cbn [rbind] in *; [|reflexivity|destruct Hn].
    rewrite (eval_tpa ev s iv ar t v _ Hl (nstuck_bind_l _ _ Hn)). reflexivity. }
  destruct (p_neg p).
  - change (eval ev s (CUn "!" (CBin (p_op p) (tpa iv ar (p_l p)) (tpa iv ar (p_r p)))))
      with (rbind (eval ev s (CBin (p_op p) (tpa iv ar (p_l p)) (tpa iv ar (p_r p)))) (fun x => unary "!" x)).
    rewrite E. destruct (dpa ev v (p_l p)) as [x|f|k]; cbn [rbind]; try reflexivity.
    destruct (dpa ev v (p_r p)) as [y|f|k]; cbn [rbind]; try reflexivity;
    destruct (arith (p_op p) x y); reflexivity.
  - rewrite E. destruct (dpa ev v (p_l p)) as [x|f|k]; cbn [rbind]; try reflexivity.
    destruct (dpa ev v (p_r p)) as [y|f|k]; cbn [rbind]; try reflexivity;
    destruct (arith (p_op p) x y); reflexivity.
Qed.

(* ================================================================================================ *)
(* guards, generically: any "flat" statements under any guard                                       *)
(* ================================================================================================ *)
(* flat statements: assignments, push_back, clear, Fill and ifs over declaration-free blocks of flat statements.
   Executing them under one more (empty) innermost frame changes nothing but that frame. *)
Fixpoint flat_stmt (s : stmt) : bool :=
  match s with
  | SSet _ _ _ | SPush _ _ _ | SClear _ | SFill _ => true
  | SIf _ (Blk [] b) None => flat_stmts b
  | _ => false
  end
with flat_stmts (l : stmts) : bool :=
  match l with SNil => true | SCons s r => flat_stmt s && flat_stmts r end.

Definition rmap {A B} (f : A -> B) (r : res A) : res B := rbind r (fun a => ROk (f a)).

Lemma eval_enter_nil (ev : event) (s : state) :
  (forall e, eval ev (enter [] s) e = eval ev s e) /\ (forall l, eval_args ev (enter [] s) l = eval_args ev s l).
Proof.
  apply cexp_mutind; intros; cbn [eval eval_args]; try reflexivity;
    repeat match goal with H : eval ev (enter [] s) _ = _ |- _ => rewrite H; clear H
                      | H : eval_args ev (enter [] s) _ = _ |- _ => rewrite H; clear H end; reflexivity.
Qed.

Lemma assign_enter_nil (x : string) (v : value) (s : state) :
  assign x v (enter [] s) = option_map (enter []) (assign x v s).
Proof.
  unfold assign, enter. cbn [frames members rows frames_set frame_set].
  destruct (frames_set x v (frames s)) as [fs|]; [reflexivity|].
  destruct (frame_set x v (members s)); reflexivity.
Qed.

Lemma flat_enter_nil (brs : list branch) (ev : event) :
  (forall s0 : stmt, flat_stmt s0 = true -> forall st, exec_stmt brs ev s0 (enter [] st) = rmap (enter []) (exec_stmt brs ev s0 st)) /\
  (forall b : block, match b with
                     | Blk [] body => flat_stmts body = true ->
                                      forall st, exec_stmts brs ev body (enter [] st) = rmap (enter []) (exec_stmts brs ev body st)
                     | _ => True
                     end) /\
  (forall l : stmts, flat_stmts l = true -> forall st, exec_stmts brs ev l (enter [] st) = rmap (enter []) (exec_stmts brs ev l st)).
Proof.
  apply sbs_mutind; try (intros; discriminate).
  - (* SSet *) intros x c e _ st. rewrite !exec_set. rewrite (proj1 (eval_enter_nil ev st) e).
    destruct (eval ev st e) as [v|f|k]; cbn [rbind rmap]; try reflexivity.
    rewrite lookup_enter_nil. destruct (lookup x st) as [[t o]|]; [|reflexivity].
    rewrite assign_enter_nil. destruct (assign x _ st); reflexivity.
  - (* SPush *) intros x c e _ st. cbn [exec_stmt]. rewrite (proj1 (eval_enter_nil ev st) e).
    destruct (eval ev st e) as [v|f|k]; cbn [rbind rmap]; try reflexivity.
    rewrite lookup_enter_nil. destruct (lookup x st) as [[t [| | | | |l| | |]]|]; try reflexivity.
    rewrite assign_enter_nil. destruct (assign x _ st); reflexivity.
  - (* SClear *) intros x _ st. cbn [exec_stmt]. rewrite lookup_enter_nil.
    destruct (lookup x st) as [[t [| | | | |l| | |]]|]; try reflexivity.
    rewrite assign_enter_nil. destruct (assign x _ st); reflexivity.
  - (* SFill *) intros l _ st. reflexivity.
  - (* SIf *) intros c b IHb els Hf st. cbn [flat_stmt] in Hf.
    destruct b as [ds body]. destruct ds; [|discriminate]. destruct els; [discriminate|].
    rewrite !exec_if. rewrite (proj1 (eval_enter_nil ev st) c).
    destruct (eval ev st c) as [v|f|k]; cbn [rbind rmap]; try reflexivity.
    destruct (truth v) as [t|f|k]; cbn [rbind]; try reflexivity.
    destruct t; [|reflexivity].
    rewrite !exec_block_eq. cbn [run_decls rbind].
    rewrite (IHb Hf (enter [] st)). rewrite (IHb Hf st).
    destruct (exec_stmts brs ev body st) as [y|f|k]; cbn [rbind rmap]; reflexivity.
  - (* Blk *) intros ds body IH. destruct ds; [|exact I]. exact IH.
  - (* SNil *) intros _ st. reflexivity.
  - (* SCons *) intros s0 IHs r IHr Hf st. cbn [flat_stmts] in Hf. apply andb_prop in Hf as [H1 H2].
    rewrite !exec_stmts_cons. rewrite (IHs H1 st).
    destruct (exec_stmt brs ev s0 st) as [st'|f|k]; cbn [rbind rmap]; try reflexivity.
    apply (IHr H2 st').
Qed.

Lemma flat_block (brs : list branch) (ev : event) (inner : stmts) (st : state) :
  flat_stmts inner = true -> exec_block brs ev (Blk [] inner) [] st = exec_stmts brs ev inner st.
Proof.
  intro Hf. rewrite exec_block_eq. cbn [run_decls rbind].
  rewrite (proj2 (proj2 (flat_enter_nil brs ev)) inner Hf st).
  destruct (exec_stmts brs ev inner st) as [y|f|k]; cbn [rbind rmap]; try reflexivity. rewrite pop_enter. reflexivity.
Qed.

(* ---- and / or guards ---- *)
Lemma conv_bool_truth (w : value) (b : bool) : truth w = ROk b -> conv "bool" w = VBool b.
Proof.
  destruct w; cbn; intro H; try discriminate; inversion H; subst; try reflexivity.
Qed.

Lemma lookup_upd_other (y x : string) (v : value) (st : state) (t : string) (old : value) :
  fget x st = Some (t, old) -> String.eqb y x = false -> lookup y (upd x v st) = lookup y st.
Proof.
  intros H Hne. destruct (assign_upd x v st t old H) as (_ & _ & _ & O & M & _).
  unfold lookup. fold (fget y (upd x v st)). fold (fget y st). rewrite (O y Hne), M. reflexivity.
Qed.

(* res = <pred>; in a state where res is a declared bool *)
Lemma set_bool_pred (brs : list branch) (ev : event) (iv : string) (ar : bool) (t : string) (v : value) (bo : string) (p : pred)
      (s : state) (old : value) :
  lookup iv s = Some (t, v) -> fget bo s = Some ("bool", old) -> nstuck (dpred ev v p) ->
  exec_stmt brs ev (SSet bo None (tpred iv ar p)) s =
  match dpred ev v p with
  | ROk b => ROk (upd bo (VBool b) s)
  | RFault f => RFault f
  | RStuck k => RStuck k
  end.
Proof.
  intros Hl Hb Hn. rewrite exec_set. rewrite dpred_dpredv in *.
  rewrite (eval_tpred ev s iv ar t v p Hl (nstuck_bind_l _ _ Hn)).
  destruct (dpredv ev v p) as [w|f|k]; cbn [rbind] in *; try reflexivity.
  destruct (truth w) as [b|f|k] eqn:Et; cbn [rbind] in *; [| |destruct Hn].
  - destruct (assign_upd bo (conv "bool" w) s _ _ Hb) as (Ha & Hlk & _). rewrite Hlk, Ha.
    rewrite (conv_bool_truth w b Et). reflexivity.
  - destruct w; discriminate.
Qed.

Lemma bo_tail_exec (brs : list branch) (ev : event) (iv : string) (ar : bool) (t : string) (v : value) (bo : string) (is_and : bool)
      (fin : stmts) (s : state) (old : value) (ps : list pred) :
  lookup iv s = Some (t, v) -> String.eqb iv bo = false -> fget bo s = Some ("bool", old) ->
  forall b, nstuck (bo_rest ev v is_and b ps) ->
  exec_stmts brs ev (app_stmts (bo_tail is_and bo (map (fun q => bo_operand bo [] SNil (tpred iv ar q)) ps)) fin) (upd bo (VBool b) s) =
  match bo_rest ev v is_and b ps with
  | ROk b' => exec_stmts brs ev fin (upd bo (VBool b') s)
  | RFault f => RFault f
  | RStuck k => RStuck k
  end.
Proof.
  intros Hl Hne Hb. induction ps as [|q r IH]; intros b Hn; cbn [bo_rest] in *; [reflexivity|].
  destruct (assign_upd bo (VBool b) s _ _ Hb) as (_ & _ & G & _ & _ & _).
  set (s1 := upd bo (VBool b) s) in *.
  assert (Hl1 : lookup iv s1 = Some (t, v)) by (unfold s1; rewrite (lookup_upd_other iv bo _ s _ _ Hb Hne); exact Hl).
  destruct (Bool.eqb b is_and) eqn:Eb.
  - (* the operand runs *)
    apply Bool.eqb_prop in Eb. subst is_and. cbn [map bo_tail app_stmts].
    rewrite exec_stmts_cons.
    assert (Ent : exec_stmt brs ev (SIf (bo_check b bo) (bo_operand bo [] SNil (tpred iv ar q)) None) s1 =
                  exec_block brs ev (bo_operand bo [] SNil (tpred iv ar q)) [] s1).
    { destruct b; [apply (and_enter_one brs ev bo _ s1 "bool")|apply (or_enter_one brs ev bo _ s1 "bool")]; apply lookup_fget; exact G. }
    rewrite Ent. unfold bo_operand. cbn [snoc_stmts app_stmts].
    rewrite (flat_block brs ev (SCons (SSet bo None (tpred iv ar q)) SNil) s1 eq_refl).
    change (SCons (SSet bo None (tpred iv ar q)) SNil) with (one_stmt (SSet bo None (tpred iv ar q))). rewrite exec_one.
    rewrite (set_bool_pred brs ev iv ar t v bo q s1 (VBool b) Hl1 G (nstuck_bind_l _ _ Hn)).
    destruct (dpred ev v q) as [b'|f|k]; cbn [rbind] in *; try reflexivity.
    unfold s1. rewrite (upd_upd bo _ _ s _ _ Hb). apply IH. exact Hn.
  - (* absorbing value reached: none of the remaining operands runs *)
    assert (Eb' : b = negb is_and) by (destruct b, is_and; try discriminate; reflexivity).
    rewrite (bo_tail_skip brs ev is_and bo _ fin s1 "bool"); [reflexivity|].
    apply lookup_fget. rewrite <- Eb'. exact G.
Qed.

(* ---- the state in which the consumer of an element runs, and the loop block ---- *)
Definition dframe (ds : list decl) : frame := map (fun d => (d_name d, (d_type d, default_value (d_type d)))) ds.
Definition init_free (ds : list decl) : Prop := Forall (fun d => d_init d = None) ds.

Lemma run_decls_free (ev : event) (ds : list decl) : init_free ds -> forall (F : frame) (R : list frame) (ms : frame) (rw : list (list value)),
  run_decls ev ds {| frames := F :: R; members := ms; rows := rw |} = ROk {| frames := (F ++ dframe ds) :: R; members := ms; rows := rw |}.
Proof.
  induction 1 as [|d r Hd Hr IH]; intros F R ms rw; cbn [run_decls dframe map].
  - rewrite app_nil_r. reflexivity.
  - rewrite Hd. unfold declare. cbn [frames members rows]. rewrite IH. rewrite <- app_assoc. reflexivity.
Qed.

(* T: the frame of the consumer's own declarations (the conditionals of a body) *)
Definition istate (g : guard) (n : nat) (iv : string) (v : value) (T : frame) (st : state) : state :=
  match g with
  | GNone => enter ((iv, ("auto", v)) :: T) st
  | GOne _ => enter T (enter [(iv, ("auto", v))] st)
  | GBool _ _ _ => enter T (enter [(iv, ("auto", v)); (bo_name n, ("bool", VBool true))] st)
  end.
Definition ipop (g : guard) (s : state) : state := match g with GNone => pop_frame s | _ => pop_frame (pop_frame s) end.

Lemma ipop_istate (g : guard) (n : nat) (iv : string) (v : value) (T : frame) (st : state) : ipop g (istate g n iv v T st) = st.
Proof. destruct g; cbn [ipop istate]; rewrite ?pop_enter; reflexivity. Qed.

Lemma istate_fget_iv (g : guard) (n : nat) (iv : string) (v : value) (T : frame) (st : state) :
  frame_get iv T = None -> fget iv (istate g n iv v T st) = Some ("auto", v).
Proof.
  intro H. unfold fget, istate. destruct g; cbn [enter frames frames_get frame_get]; rewrite ?H, String.eqb_refl; reflexivity.
Qed.
Lemma istate_iv (g : guard) (n : nat) (iv : string) (v : value) (T : frame) (st : state) :
  frame_get iv T = None -> lookup iv (istate g n iv v T st) = Some ("auto", v).
Proof. intro H. apply lookup_fget, istate_fget_iv, H. Qed.
Lemma istate_fget_T (g : guard) (n : nat) (iv : string) (v : value) (T : frame) (st : state) (r : string) (tv : string * value) :
  String.eqb r iv = false -> frame_get r T = Some tv -> fget r (istate g n iv v T st) = Some tv.
Proof.
  intros Hne H. unfold fget, istate. destruct g; cbn [enter frames frames_get frame_get]; rewrite ?Hne, H; reflexivity.
Qed.
Lemma istate_fget_other (g : guard) (n : nat) (iv : string) (v : value) (T : frame) (st : state) (x : string) :
  String.eqb x iv = false -> String.eqb x (bo_name n) = false -> frame_get x T = None ->
  fget x (istate g n iv v T st) = fget x st.
Proof.
  intros H1 H2 H3. unfold fget, istate. destruct g; cbn [enter frames frames_get frame_get]; rewrite ?H1, ?H2, ?H3; reflexivity.
Qed.
Lemma upd_istate_other (g : guard) (n : nat) (iv : string) (v : value) (T : frame) (st : state) (x : string) (a : value) (t : string) (old : value) :
  String.eqb x iv = false -> String.eqb x (bo_name n) = false -> frame_get x T = None -> fget x st = Some (t, old) ->
  upd x a (istate g n iv v T st) = istate g n iv v T (upd x a st).
Proof.
  intros H1 H2 H3 Hg. destruct g; cbn [istate].
  - apply (upd_enter x a _ st t old); [cbn [frame_get]; rewrite H1; exact H3|exact Hg].
  - rewrite (upd_enter x a T _ t old H3); [|rewrite fget_enter; [exact Hg|cbn [frame_get]; rewrite H1; reflexivity]].
    rewrite (upd_enter x a _ st t old); [reflexivity|cbn [frame_get]; rewrite H1; reflexivity|exact Hg].
  - rewrite (upd_enter x a T _ t old H3); [|rewrite fget_enter; [exact Hg|cbn [frame_get]; rewrite H1, H2; reflexivity]].
    rewrite (upd_enter x a _ st t old); [reflexivity|cbn [frame_get]; rewrite H1, H2; reflexivity|exact Hg].
Qed.

(* assignment to a name of T *)
Definition fset (r : string) (x : value) (T : frame) : frame := match frame_set r x T with Some T' => T' | None => T end.
Lemma fset_spec (r : string) (x : value) (T : frame) (t : string) (old : value) :
  frame_get r T = Some (t, old) ->
  frame_set r x T = Some (fset r x T) /\ frame_get r (fset r x T) = Some (t, x) /\
  (forall y, String.eqb y r = false -> frame_get y (fset r x T) = frame_get y T).
Proof.
  intro H. unfold fset. destruct (frame_set_spec r x T t old H) as (T' & Hs & Hg & Ho). rewrite Hs. auto.
Qed.
Lemma fset_none (r : string) (x : value) (T : frame) (y : string) : frame_get y T = None -> frame_get y (fset r x T) = None.
Proof.
  intro H. unfold fset. destruct (frame_get r T) as [[t old]|] eqn:E.
  - destruct (frame_set_spec r x T t old E) as (T' & Hs & Hg & Ho). rewrite Hs.
    destruct (String.eqb y r) eqn:Eq; [apply String.eqb_eq in Eq; subst y; rewrite H in E; discriminate|]. rewrite (Ho y Eq). exact H.
  - rewrite (frame_set_None r x T E). exact H.
Qed.
Lemma upd_istate_T (g : guard) (n : nat) (iv : string) (v : value) (T : frame) (st : state) (r : string) (x : value) (t : string) (old : value) :
  String.eqb r iv = false -> frame_get r T = Some (t, old) ->
  upd r x (istate g n iv v T st) = istate g n iv v (fset r x T) st.
Proof.
  intros Hne H. destruct (fset_spec r x T t old H) as (Hs & _). unfold upd, istate.
  destruct g; cbn [enter frames members rows frames_set frame_set]; rewrite ?Hne, Hs; reflexivity.
Qed.

Lemma loop_block_exec (brs : list branch) (ev : event) (iv : string) (ar : bool) (g : guard) (n : nat) (ds : list decl) (inner : stmts) (v : value) (st : state) :
  init_free ds -> String.eqb iv (bo_name n) = false -> String.eqb (bo_name n) iv = false ->
  nstuck (gpasses ev v g) ->
  exec_block brs ev (loop_block iv ar g n ds inner) [(iv, ("auto", v))] st =
  match gpasses ev v g with
  | ROk true => rbind (exec_stmts brs ev inner (istate g n iv v (dframe ds) st)) (fun s2 => ROk (ipop g s2))
  | ROk false => ROk st
  | RFault f => RFault f
  | RStuck k => RStuck k
  end.
Proof.
  intros Hd Hne1 Hne2 Hn. unfold loop_block. destruct g as [|p|is_and p ps]; cbn [gpasses istate ipop] in *.
  - rewrite exec_block_eq. unfold enter at 1. rewrite (run_decls_free ev ds Hd). cbn [rbind]. reflexivity.
  - rewrite exec_block_eq. cbn [run_decls rbind]. rewrite exec_one, exec_if.
    set (s0 := enter [(iv, ("auto", v))] st).
    assert (Hl : lookup iv s0 = Some ("auto", v)).
    { unfold lookup, s0, enter. cbn [frames frames_get frame_get]. rewrite String.eqb_refl. reflexivity. }
    rewrite dpred_dpredv in *. rewrite (eval_tpred ev s0 iv ar "auto" v p Hl (nstuck_bind_l _ _ Hn)).
    destruct (dpredv ev v p) as [w|f|k]; cbn [rbind] in *; try reflexivity.
    destruct (truth w) as [b|f|k]; cbn [rbind] in *; try reflexivity.
    destruct b.
    + rewrite exec_block_eq. unfold enter at 1. rewrite (run_decls_free ev ds Hd). cbn [rbind app].
      change {| frames := dframe ds :: frames s0; members := members s0; rows := rows s0 |} with (enter (dframe ds) s0).
      destruct (exec_stmts brs ev inner (enter (dframe ds) s0)); reflexivity.
    + cbn [rbind]. unfold s0. rewrite pop_enter. reflexivity.
  - rewrite exec_block_eq. cbn [run_decls bo_decl d_init d_name d_type rbind]. unfold declare, enter at 1. cbn [frames members rows app].
    change (default_value "bool") with VUninit.
    match goal with |- context [exec_stmts _ _ _ ?S] => set (s0 := S) end.
    assert (Hl : lookup iv s0 = Some ("auto", v)).
    { unfold lookup, s0. cbn [frames frames_get frame_get]. rewrite String.eqb_refl. reflexivity. }
    assert (Hb : fget (bo_name n) s0 = Some ("bool", VUninit)).
    { unfold fget, s0. cbn [frames frames_get frame_get]. rewrite Hne2, String.eqb_refl. reflexivity. }
    assert (Eu : forall b, upd (bo_name n) (VBool b) s0 = enter [(iv, ("auto", v)); (bo_name n, ("bool", VBool b))] st).
    { intro b. unfold upd, s0, enter. cbn [frames members rows frames_set frame_set]. rewrite Hne2, String.eqb_refl. reflexivity. }
    unfold bo_lower, bo_first. cbn [snoc_stmts app_stmts]. rewrite exec_stmts_cons.
    rewrite (set_bool_pred brs ev iv ar "auto" v _ p s0 VUninit Hl Hb (nstuck_bind_l _ _ Hn)).
    destruct (dpred ev v p) as [b|f|k]; cbn [rbind] in *; try reflexivity.
    rewrite (bo_tail_exec brs ev iv ar "auto" v _ is_and _ s0 VUninit ps Hl Hne1 Hb b Hn).
    destruct (bo_rest ev v is_and b ps) as [b'|f|k]; try reflexivity.
    rewrite exec_one, exec_if, eval_var. rewrite Eu.
    assert (Hlb : lookup (bo_name n) (enter [(iv, ("auto", v)); (bo_name n, ("bool", VBool b'))] st) = Some ("bool", VBool b')).
    { unfold lookup, enter. cbn [frames frames_get frame_get]. rewrite Hne2, String.eqb_refl. reflexivity. }
    rewrite Hlb. cbn [rbind truth].
    destruct b'.
    + rewrite exec_block_eq. unfold enter at 1. rewrite (run_decls_free ev ds Hd). cbn [rbind app].
      match goal with |- context [exec_stmts brs ev inner ?S] => change S with (enter (dframe ds) (enter [(iv, ("auto", v)); (bo_name n, ("bool", VBool true))] st)) end.
      destruct (exec_stmts brs ev inner _); reflexivity.
    + cbn [rbind]. rewrite pop_enter. reflexivity.
Qed.

(* ---- bodies with conditionals ---- *)
Lemma conv_double_idem (x : value) : conv "double" (conv "double" x) = conv "double" x.
Proof. destruct x; reflexivity. Qed.

Fixpoint tsets (m : nat) (rs : list value) (T : frame) : frame :=
  match rs with [] => T | r :: rest => tsets (S m) rest (fset (if_name m) r T) end.

Lemma if_name_inj (i j : nat) : if_name i = if_name j -> i = j.
Proof. unfold if_name. intro H. apply (nm_inj "if_else_result" "if_else_result" _ _ eq_refl eq_refl) in H. lia. Qed.

Lemma tsets_other (rs : list value) : forall m T y,
  (forall j, String.eqb y (if_name j) = false) -> frame_get y (tsets m rs T) = frame_get y T.
Proof.
  induction rs as [|r rest IH]; intros m T y H; cbn [tsets]; [reflexivity|].
  rewrite IH; [|exact H]. unfold fset. destruct (frame_get (if_name m) T) as [[t old]|] eqn:E.
  - destruct (frame_set_spec (if_name m) r T t old E) as (T' & Hs & _ & Ho). rewrite Hs. apply Ho, H.
  - rewrite (frame_set_None _ r T E). reflexivity.
Qed.
Lemma tsets_before (rs : list value) : forall m T i, i < m -> frame_get (if_name i) (tsets m rs T) = frame_get (if_name i) T.
Proof.
  induction rs as [|r rest IH]; intros m T i Hi; cbn [tsets]; [reflexivity|].
  rewrite IH; [|lia]. unfold fset. destruct (frame_get (if_name m) T) as [[t old]|] eqn:E.
  - destruct (frame_set_spec (if_name m) r T t old E) as (T' & Hs & _ & Ho). rewrite Hs. apply Ho.
    destruct (String.eqb (if_name i) (if_name m)) eqn:Eq; [|reflexivity]. apply String.eqb_eq, if_name_inj in Eq. lia.
  - rewrite (frame_set_None _ r T E). reflexivity.
Qed.
Lemma tsets_get (rs : list value) : forall m T k,
  (forall j, j < List.length rs -> exists old, frame_get (if_name (m + j)) T = Some ("double", old)) ->
  k < List.length rs -> frame_get (if_name (m + k)) (tsets m rs T) = Some ("double", nth k rs VUninit).
Proof.
  induction rs as [|r rest IH]; intros m T k H Hk; cbn [List.length] in *; [lia|]. cbn [tsets].
  destruct (H 0 ltac:(lia)) as (old & H0). rewrite Nat.add_0_r in H0.
  destruct (fset_spec (if_name m) r T "double" old H0) as (_ & Hg & Ho).
  destruct k as [|k]; cbn [nth].
  - rewrite Nat.add_0_r. rewrite tsets_before; [exact Hg|lia].
  - replace (m + S k) with (S m + k) by lia. apply IH; [|lia].
    intros j Hj. destruct (H (S j) ltac:(lia)) as (o & Hjj). exists o. replace (S m + j) with (m + S j) by lia.
    rewrite Ho; [exact Hjj|]. destruct (String.eqb (if_name (m + S j)) (if_name m)) eqn:Eq; [|reflexivity].
    apply String.eqb_eq, if_name_inj in Eq. lia.
Qed.
Lemma tsets_app (l1 l2 : list value) : forall m T, tsets m (l1 ++ l2) T = tsets (m + List.length l1) l2 (tsets m l1 T).
Proof.
  induction l1 as [|r rest IH]; intros m T; cbn [app tsets List.length]; [rewrite Nat.add_0_r; reflexivity|].
  rewrite IH. replace (S m + List.length rest) with (m + S (List.length rest)) by lia. reflexivity.
Qed.
Lemma tsets_keeps (rs : list value) : forall m T y (t : string),
  (exists old, frame_get y T = Some (t, old)) -> exists old, frame_get y (tsets m rs T) = Some (t, old).
Proof.
  induction rs as [|r rest IH]; intros m T y t (old & H); cbn [tsets]; [eauto|].
  apply IH. unfold fset. destruct (frame_get (if_name m) T) as [[t0 o0]|] eqn:E.
  - destruct (frame_set_spec (if_name m) r T t0 o0 E) as (T' & Hs & Hg & Ho). rewrite Hs.
    destruct (String.eqb y (if_name m)) eqn:Eq.
    + apply String.eqb_eq in Eq. subst y. rewrite H in E. inversion E; subst. eauto.
    + rewrite (Ho y Eq). eauto.
  - rewrite (frame_set_None _ r T E). eauto.
Qed.

(* the if/else statements of a body: every conditional's variable receives the taken arm's value *)
Lemma bpre_exec (brs : list branch) (ev : event) (g : guard) (n : nat) (iv : string) (ar : bool) (v : value) (st : state) (e : bexp) :
  (forall j, String.eqb (if_name j) iv = false) ->
  forall m T, frame_get iv T = None ->
  (forall k, k < nifs e -> exists old, frame_get (if_name (m + k)) T = Some ("double", old)) ->
  match dconds ev v e with
  | ROk rs => exec_stmts brs ev (bpre iv ar e m) (istate g n iv v T st) = ROk (istate g n iv v (tsets m rs T) st) /\
              List.length rs = nifs e /\ Forall (fun r => r <> VUninit) rs
  | RFault f => exec_stmts brs ev (bpre iv ar e m) (istate g n iv v T st) = RFault f
  | RStuck _ => True
  end.
Proof.
  intro Hifiv. induction e as [a|c a b|op x IHx y IHy]; intros m T Hiv Hin; cbn [dconds bpre nifs] in *.
  - repeat split; auto.
  - destruct (Hin 0 ltac:(lia)) as (old & Hr). rewrite Nat.add_0_r in Hr.
    set (S0 := istate g n iv v T st).
    assert (Hl : lookup iv S0 = Some ("auto", v)) by (apply istate_iv, Hiv).
    assert (Hfr : fget (if_name m) S0 = Some ("double", old)) by (apply istate_fget_T; [apply Hifiv|exact Hr]).
    unfold dcond. rewrite dpred_dpredv.
    destruct (dpredv ev v c) as [w|f|k] eqn:Ew; cbn [rbind]; [| |exact I].
    + rewrite exec_one, exec_if. rewrite (eval_tpred ev S0 iv ar "auto" v c Hl); [|rewrite Ew; exact I]. rewrite Ew. cbn [rbind].
      destruct (truth w) as [t|f|k]; cbn [rbind]; [|reflexivity|exact I].
      assert (Arm : forall (z : pa),
                match dpa ev v z with
                | ROk x => exec_block brs ev (Blk [] (one_stmt (arm_set (if_name m) iv ar z))) [] S0 = ROk (istate g n iv v (fset (if_name m) (conv "double" x) T) st)
                | RFault f => exec_block brs ev (Blk [] (one_stmt (arm_set (if_name m) iv ar z))) [] S0 = RFault f
                | RStuck _ => True
                end).
      { intro z. destruct (dpa ev v z) as [x|f|k] eqn:Ez; [| |exact I].
        - rewrite (flat_block brs ev (one_stmt (arm_set (if_name m) iv ar z)) S0 eq_refl). rewrite exec_one. unfold arm_set. rewrite exec_set.
          rewrite (eval_tpa ev S0 iv ar "auto" v z Hl); [|rewrite Ez; exact I]. rewrite Ez. cbn [rbind].
          rewrite (lookup_fget _ _ _ Hfr).
          destruct (assign_upd (if_name m) (conv "double" x) S0 _ _ Hfr) as (Ha & _).
          assert (Ec : conv "double" (if String.eqb (pa_type z) "double" then x else conv "double" x) = conv "double" x)
            by (destruct (String.eqb (pa_type z) "double"); [reflexivity|apply conv_double_idem]).
          destruct (String.eqb (pa_type z) "double"); cbn zeta; rewrite ?conv_double_idem, Ha;
            unfold S0; rewrite (upd_istate_T g n iv v T st _ _ _ _ (Hifiv m) Hr); reflexivity.
        - rewrite (flat_block brs ev (one_stmt (arm_set (if_name m) iv ar z)) S0 eq_refl). rewrite exec_one. unfold arm_set. rewrite exec_set.
          rewrite (eval_tpa ev S0 iv ar "auto" v z Hl); [|rewrite Ez; exact I]. rewrite Ez. reflexivity. }
      destruct t.
      * specialize (Arm a). destruct (dpa ev v a) as [x|f|k]; cbn [rbind]; [|exact Arm|exact I].
        destruct (conv "double" x) eqn:Ec; try exact I; cbn [tsets List.length]; (split; [rewrite Arm; reflexivity|split; [reflexivity|constructor; [discriminate|constructor]]]).
      * specialize (Arm b). destruct (dpa ev v b) as [x|f|k]; cbn [rbind]; [|exact Arm|exact I].
        destruct (conv "double" x) eqn:Ec; try exact I; cbn [tsets List.length]; (split; [rewrite Arm; reflexivity|split; [reflexivity|constructor; [discriminate|constructor]]]).
    + rewrite exec_one, exec_if. rewrite (eval_tpred ev S0 iv ar "auto" v c Hl); [|rewrite Ew; exact I]. rewrite Ew. reflexivity.
  - rewrite exec_stmts_app.
    specialize (IHx m T Hiv ltac:(intros k Hk; apply Hin; lia)).
    destruct (dconds ev v x) as [l1|f|k]; cbn [rbind]; [|rewrite IHx; reflexivity|exact I].
    destruct IHx as (E1 & L1 & N1). rewrite E1. cbn [rbind].
    specialize (IHy (m + nifs x) (tsets m l1 T)).
    assert (Hiv1 : frame_get iv (tsets m l1 T) = None).
    { rewrite tsets_other; [exact Hiv|]. intro j. rewrite String.eqb_sym. apply Hifiv. }
    assert (Hin1 : forall k, k < nifs y -> exists old, frame_get (if_name (m + nifs x + k)) (tsets m l1 T) = Some ("double", old)).
    { intros k Hk. apply tsets_keeps. replace (m + nifs x + k) with (m + (nifs x + k)) by lia. apply Hin. lia. }
    specialize (IHy Hiv1 Hin1).
    destruct (dconds ev v y) as [l2|f|k]; cbn [rbind]; [|exact IHy|exact I].
    destruct IHy as (E2 & L2 & N2). split; [|split].
    + rewrite E2. rewrite tsets_app, L1. reflexivity.
    + rewrite app_length. lia.
    + apply Forall_app. split; assumption.
Qed.

Lemma nth_skipn_add {A} (l : list A) (d : A) : forall i k, nth k (skipn i l) d = nth (i + k) l d.
Proof.
  induction l as [|a r IH]; intros i k; destruct i; cbn [skipn nth Nat.add]; try reflexivity.
  - destruct k; reflexivity.
  - apply IH.
Qed.
Lemma nth_firstn_below {A} (l : list A) (d : A) : forall i k, k < i -> nth k (firstn i l) d = nth k l d.
Proof.
  induction l as [|a r IH]; intros i k Hk; destruct i; cbn [firstn nth]; try reflexivity; try lia.
  destruct k; [reflexivity|]. apply IH. lia.
Qed.

(* the expression of a body reads the conditionals' variables *)
Lemma bx_eval (ev : event) (g : guard) (n : nat) (iv : string) (ar : bool) (v : value) (st : state) (e : bexp) :
  (forall j, String.eqb (if_name j) iv = false) ->
  forall m T rs, frame_get iv T = None -> List.length rs = nifs e ->
  (forall k, k < nifs e -> frame_get (if_name (m + k)) T = Some ("double", nth k rs VUninit) /\ nth k rs VUninit <> VUninit) ->
  nstuck (dbx ev v e rs) ->
  eval ev (istate g n iv v T st) (bx iv ar e m) = dbx ev v e rs.
Proof.
  intro Hifiv. induction e as [a|c a b|op x IHx y IHy]; intros m T rs Hiv Hlen Hin Hn; cbn [bx dbx nifs] in *.
  - apply (eval_tpa ev _ iv ar "auto" v a (istate_iv g n iv v T st Hiv) Hn).
  - destruct rs as [|r rest]; [discriminate|]. destruct (Hin 0 ltac:(lia)) as (Hr & Hu). rewrite Nat.add_0_r in Hr. cbn [nth] in *.
    rewrite eval_var. rewrite (lookup_fget _ _ _ (istate_fget_T g n iv v T st _ _ (Hifiv m) Hr)).
    destruct r; try reflexivity. contradiction.
  - change (eval ev (istate g n iv v T st) (CBin op (bx iv ar x m) (bx iv ar y (m + nifs x))))
      with (rbind (eval ev (istate g n iv v T st) (bx iv ar x m)) (fun p => rbind (eval ev (istate g n iv v T st) (bx iv ar y (m + nifs x))) (fun q => arith op p q))).
    rewrite (IHx m T (firstn (nifs x) rs) Hiv).
    + destruct (dbx ev v x (firstn (nifs x) rs)) as [p|f|k]; cbn [rbind] in *; [|reflexivity|destruct Hn].
      rewrite (IHy (m + nifs x) T (skipn (nifs x) rs) Hiv); [reflexivity| | |exact (nstuck_bind_l _ _ Hn)].
      * rewrite skipn_length. lia.
      * intros k Hk. replace (m + nifs x + k) with (m + (nifs x + k)) by lia. rewrite nth_skipn_add. apply Hin. lia.
    + rewrite firstn_length. lia.
    + intros k Hk. rewrite nth_firstn_below; [apply Hin; lia|exact Hk].
    + exact (nstuck_bind_l _ _ Hn).
Qed.

(* ---------- one Count: guards, loop, retrieval ---------- *)
Lemma upd_same (x : string) (v : value) (st : state) (t : string) :
  fget x st = Some (t, v) -> upd x v st = st.
Proof.
  unfold fget, upd. intro H.
  assert (A : frames_set x v (frames st) = Some (frames st)).
  { revert H. induction (frames st) as [|f r IH]; cbn [frames_get frames_set]; intro H; [discriminate|].
    destruct (frame_get x f) as [[t0 o0]|] eqn:E.
    - inversion H; subst.
      assert (B : frame_set x v f = Some f).
      { clear - E. induction f as [|[y [ty u]] q IHf]; cbn [frame_get frame_set] in *; [discriminate|].
        destruct (String.eqb x y) eqn:Exy; [inversion E; subst; reflexivity|]. rewrite (IHf E). reflexivity. }
      rewrite B. reflexivity.
    - rewrite (frame_set_None x v f E). rewrite (IH H). reflexivity. }
  rewrite A. destruct st; reflexivity.
Qed.

(* results of arith are numbers, booleans or symbolic values - never an uninitialised cell *)
Definition arithable (v : value) : Prop := is_sym v = true \/ exists nq, num_of v = Some nq.

Lemma arith_arithable (op : string) (x y v : value) : arith op x y = ROk v -> arithable v.
Proof.
  unfold arith. destruct (is_sym x || is_sym y) eqn:S.
  - intro H. inversion H; subst. left. reflexivity.
  - destruct (num_of x) as [[px|px]|]; destruct (num_of y) as [[qy|qy]|]; try discriminate;
      repeat match goal with
             | |- (if ?c then _ else _) = ROk v -> _ => destruct c
             end; intro H; try discriminate; inversion H; subst; right; cbn; eauto.
Qed.

Lemma conv_arithable (t : string) (v : value) : arithable v -> arithable (conv t v).
Proof.
  intros [S|[nq N]]; unfold conv;
    destruct (String.eqb t "int"); try destruct (String.eqb t "double" || String.eqb t "float"); try destruct (String.eqb t "bool");
    destruct v; try discriminate; try (left; reflexivity); right; cbn; eauto.
Qed.

Lemma arithable_not_uninit (v : value) : arithable v -> v <> VUninit.
Proof. intros [S|[nq N]] E; subst; discriminate. Qed.

Lemma agg_step_ok (ev : event) (ty : string) (g : aggk) (acc v a' : value) :
  agg_step ev ty g acc v = ROk a' -> arithable a'.
Proof.
  unfold agg_step. destruct (match g with ACount => ROk (VInt 1) | AAgg _ _ body => db ev v body end); cbn [rbind]; try discriminate.
  destruct (arith (agg_op g) acc a) eqn:E; cbn [rbind]; try discriminate. intro H. inversion H; subst.
  apply conv_arithable. eapply arith_arithable. exact E.
Qed.

(* acc = acc + E, for any expression E whose value in the state is known *)
Lemma exec_agg_update (brs : list branch) (ev : event) (agg ty op : string) (E : cexp) (R : res value) (s : state) (acc : value) :
  fget agg s = Some (ty, acc) -> acc <> VUninit -> eval ev s E = R ->
  exec_stmt brs ev (agg_update agg op E) s =
  match (rdo x <- R; rdo sm <- arith op acc x; ROk (conv ty sm)) with
  | ROk a' => ROk (upd agg a' s)
  | RFault f => RFault f
  | RStuck k => RStuck k
  end.
Proof.
  intros H Hu He. unfold agg_update. rewrite exec_set.
  change (eval ev s (CBin op (CVar agg) E))
    with (rbind (eval ev s (CVar agg)) (fun x => rbind (eval ev s E) (fun y => arith op x y))).
  rewrite eval_var. rewrite (lookup_fget _ _ _ H).
  assert (Ea : (match acc with VUninit => RStuck (KUninit agg) | _ => ROk acc end) = ROk acc) by (destruct acc; try reflexivity; contradiction).
  rewrite Ea. cbn [rbind]. rewrite He. destruct R as [x|f|k]; cbn [rbind]; try reflexivity.
  destruct (arith op acc x) as [sm|f|k]; cbn [rbind]; try reflexivity.
  destruct (assign_upd agg (conv ty sm) s ty acc H) as (Ha & _). rewrite Ha. reflexivity.
Qed.

(* the declarations of a body's conditionals *)
Lemma frame_get_app (x : string) (f1 f2 : frame) :
  frame_get x (f1 ++ f2) = match frame_get x f1 with Some tv => Some tv | None => frame_get x f2 end.
Proof. induction f1 as [|[y tv] r IH]; cbn [app frame_get]; [reflexivity|]. destruct (String.eqb x y); [reflexivity|exact IH]. Qed.
Lemma dframe_app (d1 d2 : list decl) : dframe (d1 ++ d2) = dframe d1 ++ dframe d2.
Proof. unfold dframe. apply map_app. Qed.
Lemma bdecls_free (e : bexp) : forall m, init_free (bdecls e m).
Proof.
  induction e as [a|c a b|op x IHx y IHy]; intro m; cbn [bdecls]; [constructor|constructor; [reflexivity|constructor]|].
  apply Forall_app. split; [apply IHx|apply IHy].
Qed.
Lemma bdecls_none (e : bexp) : forall m x, (forall k, k < nifs e -> String.eqb x (if_name (m + k)) = false) ->
  frame_get x (dframe (bdecls e m)) = None.
Proof.
  induction e as [a|c a b|op y IHy z IHz]; intros m x H; cbn [bdecls nifs dframe map frame_get d_name] in *; try reflexivity.
  - specialize (H 0 ltac:(lia)). rewrite Nat.add_0_r in H. rewrite H. reflexivity.
  - fold (dframe (bdecls y m ++ bdecls z (m + nifs y))). rewrite dframe_app, frame_get_app.
    rewrite (IHy m x); [|intros k Hk; apply H; lia].
    apply IHz. intros k Hk. replace (m + nifs y + k) with (m + (nifs y + k)) by lia. apply H. lia.
Qed.
Lemma bdecls_get (e : bexp) : forall m k, k < nifs e -> frame_get (if_name (m + k)) (dframe (bdecls e m)) = Some ("double", VUninit).
Proof.
  induction e as [a|c a b|op y IHy z IHz]; intros m k Hk; cbn [bdecls nifs] in *; try lia.
  - assert (k = 0) by lia. subst k. rewrite Nat.add_0_r. cbn [dframe map frame_get d_name d_type]. rewrite String.eqb_refl. reflexivity.
  - rewrite dframe_app, frame_get_app.
    destruct (Nat.lt_ge_cases k (nifs y)) as [Hlt|Hge].
    + rewrite (IHy m k Hlt). reflexivity.
    + rewrite (bdecls_none y m).
      * replace (m + k) with (m + nifs y + (k - nifs y)) by lia. apply IHz. lia.
      * intros j Hj. destruct (String.eqb (if_name (m + k)) (if_name (m + j))) eqn:E; [|reflexivity].
        apply String.eqb_eq, if_name_inj in E. lia.
Qed.
Lemma if_not_name (b : string) (i j : nat) : last_digit b = false -> b <> "if_else_result" -> String.eqb (nm b i) (if_name j) = false.
Proof. intros H1 H2. apply nm_neq_base; [exact H1|reflexivity|exact H2]. Qed.

(* what the consumer of a body's value sees after the conditionals have run *)
Lemma body_ready (brs : list branch) (ev : event) (g : guard) (n : nat) (iv : string) (ar : bool) (v : value) (st : state) (e : bexp) (m : nat) :
  (forall j, String.eqb (if_name j) iv = false) ->
  match dconds ev v e with
  | ROk rs =>
      exists T', exec_stmts brs ev (bpre iv ar e m) (istate g n iv v (dframe (bdecls e m)) st) = ROk (istate g n iv v T' st) /\
                 frame_get iv T' = None /\
                 (forall y, (forall j, String.eqb y (if_name j) = false) -> frame_get y T' = None) /\
                 (nstuck (dbx ev v e rs) -> eval ev (istate g n iv v T' st) (bx iv ar e m) = dbx ev v e rs)
  | RFault f => exec_stmts brs ev (bpre iv ar e m) (istate g n iv v (dframe (bdecls e m)) st) = RFault f
  | RStuck _ => True
  end.
Proof.
  intro Hifiv.
  assert (Hiv0 : frame_get iv (dframe (bdecls e m)) = None).
  { apply bdecls_none. intros k _. rewrite String.eqb_sym. apply Hifiv. }
  pose proof (bpre_exec brs ev g n iv ar v st e Hifiv m (dframe (bdecls e m)) Hiv0) as P.
  assert (Hin0 : forall k, k < nifs e -> exists old, frame_get (if_name (m + k)) (dframe (bdecls e m)) = Some ("double", old)).
  { intros k Hk. eexists. apply bdecls_get, Hk. }
  specialize (P Hin0).
  destruct (dconds ev v e) as [rs|f|k]; [|exact P|exact I].
  destruct P as (E & L & N). exists (tsets m rs (dframe (bdecls e m))). split; [exact E|]. split; [|split].
  - rewrite tsets_other; [exact Hiv0|]. intro j. rewrite String.eqb_sym. apply Hifiv.
  - intros y Hy. rewrite tsets_other; [|exact Hy]. apply bdecls_none. intros k _. apply Hy.
  - intro Hn. apply (bx_eval ev g n iv ar v st e Hifiv m _ rs); try assumption.
    + rewrite tsets_other; [exact Hiv0|]. intro j. rewrite String.eqb_sym. apply Hifiv.
    + intros k Hk. split.
      * apply tsets_get; [|lia]. intros j Hj. apply Hin0. lia.
      * rewrite Forall_forall in N. apply N. apply nth_In. lia.
Qed.

Lemma loop_agg (brs : list branch) (ev : event) (iv : string) (ar : bool) (agg ty : string) (g : aggk) (gd : guard) (n m : nat) (l : list value) :
  forall (st : state) (acc : value),
  fget agg st = Some (ty, acc) -> acc <> VUninit -> String.eqb agg iv = false -> String.eqb agg (bo_name n) = false ->
  (forall j, String.eqb agg (if_name j) = false) -> (forall j, String.eqb (if_name j) iv = false) ->
  String.eqb iv (bo_name n) = false -> String.eqb (bo_name n) iv = false ->
  nstuck (agg_loop ev ty g gd l acc) ->
  for_loop brs ev iv (loop_block iv ar gd n (agg_ds g m) (app_stmts (agg_pre iv ar g m) (one_stmt (agg_update agg (agg_op g) (agg_summand iv ar g m))))) l st =
  match agg_loop ev ty g gd l acc with
  | ROk z => ROk (upd agg z st)
  | RFault f => RFault f
  | RStuck k => RStuck k
  end.
Proof.
  induction l as [|v r IH]; intros st acc Hg Hu Hne Hnb Hnf Hifiv Hib Hbi Hn.
  - cbn [agg_loop]. rewrite for_loop_nil. rewrite (upd_same agg acc st ty Hg). reflexivity.
  - cbn [agg_loop] in *. rewrite for_loop_cons.
    assert (Hfree : init_free (agg_ds g m)) by (destruct g; [constructor|apply bdecls_free]).
    rewrite (loop_block_exec brs ev iv ar gd n _ _ v st Hfree Hib Hbi (nstuck_bind_l _ _ Hn)).
    destruct (gpasses ev v gd) as [b|f|k]; cbn [rbind] in *; [|reflexivity|destruct Hn].
    destruct b; cbn [rbind]; [|apply (IH st acc Hg Hu Hne Hnb Hnf Hifiv Hib Hbi Hn)].
    rewrite exec_stmts_app.
    (* after the conditionals: a state S1 = istate .. T' st in which the summand has its reference value *)
    assert (Step : exists T',
              (match (match g with ACount => ROk [] | AAgg _ _ body => dconds ev v body end) with
               | ROk rs => exec_stmts brs ev (agg_pre iv ar g m) (istate gd n iv v (dframe (agg_ds g m)) st) = ROk (istate gd n iv v T' st) /\
                           frame_get iv T' = None /\ frame_get agg T' = None /\
                           (nstuck (match g with ACount => ROk (VInt 1) | AAgg _ _ body => dbx ev v body rs end) ->
                            eval ev (istate gd n iv v T' st) (agg_summand iv ar g m) = match g with ACount => ROk (VInt 1) | AAgg _ _ body => dbx ev v body rs end)
               | RFault f => exec_stmts brs ev (agg_pre iv ar g m) (istate gd n iv v (dframe (agg_ds g m)) st) = RFault f
               | RStuck _ => True
               end)).
    { destruct g as [|sd aop body]; cbn [agg_pre agg_ds agg_summand].
      - exists []. repeat split; reflexivity.
      - pose proof (body_ready brs ev gd n iv ar v st body m Hifiv) as B.
        destruct (dconds ev v body) as [rs|f|k]; [|exists []; exact B|exists []; exact I].
        destruct B as (T' & E & Hiv' & Hoth & Hev). exists T'. split; [exact E|]. split; [exact Hiv'|]. split; [apply Hoth, Hnf|exact Hev]. }
    destruct Step as (T' & Step).
    unfold agg_step in Hn |- *.
    assert (Edb : (match g with ACount => ROk (VInt 1) | AAgg _ _ body => db ev v body end) =
                  rbind (match g with ACount => ROk [] | AAgg _ _ body => dconds ev v body end)
                        (fun rs => match g with ACount => ROk (VInt 1) | AAgg _ _ body => dbx ev v body rs end))
      by (destruct g; reflexivity).
    rewrite Edb in *.
    destruct (match g with ACount => ROk [] | AAgg _ _ body => dconds ev v body end) as [rs|f|k]; cbn [rbind] in *; [|rewrite Step; reflexivity|destruct Hn].
    destruct Step as (E & Hiv' & Hagg' & Hev). rewrite E. cbn [rbind]. rewrite exec_one.
    set (S1 := istate gd n iv v T' st).
    assert (Hg1 : fget agg S1 = Some (ty, acc)) by (unfold S1; rewrite istate_fget_other; assumption).
    set (R := match g with ACount => ROk (VInt 1) | AAgg _ _ body => dbx ev v body rs end) in *.
    assert (HnR : nstuck R) by (destruct R; [exact I|exact I|destruct Hn]).
    rewrite (exec_agg_update brs ev agg ty (agg_op g) _ R S1 acc Hg1 Hu (Hev HnR)).
    destruct R as [x|f|k]; cbn [rbind] in *; [|reflexivity|destruct Hn].
    destruct (arith (agg_op g) acc x) as [sm|f|k] eqn:Ea; cbn [rbind] in *; [|reflexivity|destruct Hn].
    unfold S1. rewrite (upd_istate_other gd n iv v T' st agg _ ty acc Hne Hnb Hagg' Hg). rewrite ipop_istate.
    destruct (assign_upd agg (conv ty sm) st ty acc Hg) as (_ & _ & Hg2 & _).
    assert (Hu2 : conv ty sm <> VUninit).
    { apply arithable_not_uninit, conv_arithable. eapply arith_arithable. exact Ea. }
    rewrite (IH _ _ Hg2 Hu2 Hne Hnb Hnf Hifiv Hib Hbi Hn).
    destruct (agg_loop ev ty g gd r (conv ty sm)) as [z|f|k]; try reflexivity.
    rewrite (upd_upd agg _ _ st ty acc Hg). reflexivity.
Qed.

(* the two statements of one aggregate, run in a state in which its two variables are declared *)
Lemma count_exec (brs : list branch) (ev : event) (idiom : string) (k : cnt) (n : nat) (st : state) (tcv : string) (v0 : value) :
  fget (cv_name k n) st = Some (tcv, v0) ->
  fget (kagg k n) st = Some (agg_type k, conv (agg_type k) (agg_seed (k_agg k))) ->
  String.eqb (kagg k n) (cv_name k n) = false ->
  String.eqb (kagg k n) (iv_name n) = false -> String.eqb (kagg k n) (bo_name n) = false ->
  match assoc_ss (c_ctype (k_coll k), c_bank (k_coll k)) (ev_colls ev) with
  | None => exec_stmts brs ev (tcount_stmts idiom k n) st = RFault FRetrieve
  | Some (VVec l) =>
      match agg_loop ev (agg_type k) (k_agg k) (k_guard k) l (conv (agg_type k) (agg_seed (k_agg k))) with
      | ROk z => exec_stmts brs ev (tcount_stmts idiom k n) st =
                 ROk (upd (kagg k n) z (upd (cv_name k n) (VVec l) st))
      | RFault f => exec_stmts brs ev (tcount_stmts idiom k n) st = RFault f
      | RStuck _ => True
      end
  | Some VNull => exec_stmts brs ev (tcount_stmts idiom k n) st = RFault FNullDeref
  | Some _ => True
  end.
Proof.
  intros Hcv Hagg Hne1 Hne2 Hne3. unfold tcount_stmts. rewrite exec_stmts_cons.
  cbn [exec_stmt].
  destruct (assoc_ss (c_ctype (k_coll k), c_bank (k_coll k)) (ev_colls ev)) as [c|] eqn:Ea; [|reflexivity].
  destruct (assign_upd (cv_name k n) c st tcv v0 Hcv) as (Has & _ & Hcv1 & Hoth & _).
  rewrite Has. cbn [rbind]. rewrite exec_one. unfold tcount_loop. rewrite exec_for.
  change (eval ev (upd (cv_name k n) c st) (CDeref (CVar (cv_name k n))))
    with (rbind (eval ev (upd (cv_name k n) c st) (CVar (cv_name k n)))
                (fun x => match x with VNull => RFault FNullDeref | _ => ROk x end)).
  rewrite eval_var, (lookup_fget _ _ _ Hcv1).
  assert (Hagg1 : fget (kagg k n) (upd (cv_name k n) c st) = Some (agg_type k, conv (agg_type k) (agg_seed (k_agg k)))).
  { rewrite (Hoth _ Hne1). exact Hagg. }
  assert (Hu : conv (agg_type k) (agg_seed (k_agg k)) <> VUninit).
  { apply arithable_not_uninit, conv_arithable. right. destruct (k_agg k) as [|[z|t nn dd] aop body]; cbn; eauto. }
  assert (Hib : String.eqb (iv_name n) (bo_name n) = false) by (apply nm_neq; [reflexivity|reflexivity|lia]).
  assert (Hbi : String.eqb (bo_name n) (iv_name n) = false) by (apply nm_neq; [reflexivity|reflexivity|lia]).
  assert (Hnf : forall j, String.eqb (kagg k n) (if_name j) = false) by (intro j; apply nm_neq_base; [reflexivity|reflexivity|discriminate]).
  assert (Hifiv : forall j, String.eqb (if_name j) (iv_name n) = false) by (intro j; apply nm_neq_base; [reflexivity|reflexivity|discriminate]).
  destruct c; cbn [rbind]; try exact I; try reflexivity.
  destruct (agg_loop ev (agg_type k) (k_agg k) (k_guard k) l (conv (agg_type k) (agg_seed (k_agg k)))) as [z|f|kk] eqn:Ec; [| |exact I].
  - rewrite (loop_agg brs ev _ _ _ _ _ _ n _ l _ _ Hagg1 Hu Hne2 Hne3 Hnf Hifiv Hib Hbi); rewrite Ec; [reflexivity|exact I].
  - rewrite (loop_agg brs ev _ _ _ _ _ _ n _ l _ _ Hagg1 Hu Hne2 Hne3 Hnf Hifiv Hib Hbi); rewrite Ec; [reflexivity|exact I].
Qed.

(* ---------- the translator, component-wise ---------- *)
Fixpoint size (e : ex) : nat :=
  match e with
  | EInt _ | EDbl _ _ _ => 0 | ECount k => 3 + gsize (k_guard k) + agg_nifs (k_agg k)
  | EBin _ a b | EDiv a b => size a + size b | EIdx _ _ _ => 1 | ENeg a | EFun _ a => size a
  | EBool _ a b => S (size a + size b)
  | EIf c a b => S (size c + size a + size b)
  end.
Definition ebo_name (n : nat) : string := nm "bool_op" n.
Definition eif_name (n : nat) : string := nm "if_else_result" n.
Definition arm_cast (a : ex) : option string := if String.eqb (ex_type a) "double" then None else Some "double".
Definition idx_cv (c : collref) (n : nat) : string := nm (c_base c) n.
Fixpoint tds (e : ex) (n : nat) : list decl :=
  match e with
  | EInt _ => [] | ECount k => tcount_decls k n | EBin _ a b => tds a n ++ tds b (n + size a)
  | EIdx c _ _ => [{| d_type := c_ctype c; d_name := idx_cv c n; d_init := None |}]
  | EDbl _ _ _ => [] | EDiv a b => tds a n ++ tds b (n + size a) | ENeg a | EFun _ a => tds a n
  | EBool _ a _ => bo_decl (ebo_name n) :: tds a (S n)
  | EIf c _ _ => ie_decl (eif_name n) :: tds c (S n)
  end.
Definition idx_exp (c : collref) (i : nat) (m : string) (n : nat) : cexp :=
  CMeth (CMeth (CVar (idx_cv c n)) true "at" (CCons (CInt (Z.of_nat i)) CNil)) (c_arrow c) m CNil.
Fixpoint tc (e : ex) (n : nat) : cexp :=
  match e with
  | EInt z => CInt z | ECount k => CVar (kagg k n)
  | EBin o a b => CBin (op_str o) (tc a n) (tc b (n + size a))
  | EIdx c i m => idx_exp c i m n
  | EDbl t z d => CDbl t z d
  | EDiv a b => CBin "/" (if ex_div_needs_cast a b then CCast "double" (tc a n) else tc a n) (tc b (n + size a))
  | ENeg a => CUn "-" (tc a n)
  | EFun f a => CCall f (CCons (tc a n) CNil)
  | EBool _ _ _ => CVar (ebo_name n)
  | EIf _ _ _ => CVar (eif_name n)
  end.
Fixpoint tss (idiom : string) (e : ex) (n : nat) : stmts :=
  match e with
  | EInt _ => SNil | ECount k => tcount_stmts idiom k n
  | EBin _ a b => app_stmts (tss idiom a n) (tss idiom b (n + size a))
  | EIdx c _ _ => one_stmt (SFetch idiom (idx_cv c n) (c_ctype c) (c_bank c) (fetch_lines idiom (c_ctype c) (c_bank c)))
  | EDbl _ _ _ => SNil | EDiv a b => app_stmts (tss idiom a n) (tss idiom b (n + size a)) | ENeg a | EFun _ a => tss idiom a n
  | EBool is_and a b =>
      bo_lower is_and (ebo_name n) (tss idiom a (S n)) (tc a (S n))
               [bo_operand (ebo_name n) (tds b (S n + size a)) (tss idiom b (S n + size a)) (tc b (S n + size a))]
  | EIf c a b =>
      snoc_stmts (tss idiom c (S n))
        (SIf (tc c (S n))
             (Blk (tds a (S n + size c)) (snoc_stmts (tss idiom a (S n + size c)) (SSet (eif_name n) (arm_cast a) (tc a (S n + size c)))))
             (Some (Blk (tds b (S n + size c + size a))
                        (snoc_stmts (tss idiom b (S n + size c + size a)) (SSet (eif_name n) (arm_cast b) (tc b (S n + size c + size a)))))))
  end.
Lemma te_split (idiom : string) (e : ex) : forall n, te idiom e n = (tds e n, tss idiom e n, tc e n, n + size e).
Proof.
  induction e as [z|k|o a IHa b IHb|c i m|t z0 d0|a IHa b IHb|a IHa|fn a IHa|ia a IHa b IHb|c0 IHc a IHa b IHb]; intro n; cbn [te tds tss tc size].
  - rewrite Nat.add_0_r. reflexivity.
  - replace (n + (3 + gsize (k_guard k) + agg_nifs (k_agg k))) with (S (S (S n)) + gsize (k_guard k) + agg_nifs (k_agg k)) by lia. reflexivity.
  - rewrite IHa, IHb. rewrite Nat.add_assoc. reflexivity.
  - rewrite Nat.add_1_r. reflexivity.
  - rewrite Nat.add_0_r. reflexivity.
  - rewrite IHa, IHb. rewrite Nat.add_assoc. reflexivity.
  - rewrite IHa. reflexivity.
  - rewrite IHa. reflexivity.
  - rewrite IHa, IHb. unfold ebo_name. replace (n + S (size a + size b)) with (S n + size a + size b) by lia. reflexivity.
  - rewrite IHc, IHa, IHb. unfold eif_name, arm_cast.
    replace (n + S (size c0 + size a + size b)) with (S n + size c0 + size a + size b) by lia. reflexivity.
Qed.

Fixpoint vars (e : ex) (n : nat) : list string :=
  match e with
  | EInt _ => [] | ECount k => [cv_name k n; kagg k n]
  | EBin _ a b => vars a n ++ vars b (n + size a)
  | EIdx c _ _ => [idx_cv c n]
  | EDbl _ _ _ => [] | EDiv a b => vars a n ++ vars b (n + size a) | ENeg a | EFun _ a => vars a n
  | EBool _ a b => ebo_name n :: vars a (S n) ++ vars b (S n + size a)    (* incl. the names declared inside the if block *)
  | EIf c a b => eif_name n :: vars c (S n) ++ vars a (S n + size c) ++ vars b (S n + size c + size a)
  end.
(* the names declared in the block the expression is translated into (those of vars without the ones inside if blocks) *)
Fixpoint bvars (e : ex) (n : nat) : list string :=
  match e with
  | EInt _ | EDbl _ _ _ => [] | ECount k => [cv_name k n; kagg k n]
  | EBin _ a b | EDiv a b => bvars a n ++ bvars b (n + size a)
  | EIdx c _ _ => [idx_cv c n]
  | ENeg a | EFun _ a => bvars a n
  | EBool _ a _ => ebo_name n :: bvars a (S n)
  | EIf c _ _ => eif_name n :: bvars c (S n)
  end.
Fixpoint bases_ok (e : ex) : bool :=
  match e with
  | EInt _ => true | ECount k => base_ok (c_base (k_coll k)) | EBin _ a b => bases_ok a && bases_ok b
  | EIdx c _ _ => base_ok (c_base c)
  | EDbl _ _ _ => true | EDiv a b | EBool _ a b => bases_ok a && bases_ok b | ENeg a | EFun _ a => bases_ok a
  | EIf c a b => bases_ok c && bases_ok a && bases_ok b
  end.

Lemma vars_shape (e : ex) : forall n x, bases_ok e = true -> In x (vars e n) ->
  exists b i, x = nm b i /\ last_digit b = false /\ first_not_underscore b = true /\ n <= i < n + size e.
Proof.
  induction e as [z|k|o a IHa b IHb|c i0 m|t z0 d0|a IHa b IHb|a IHa|fn a IHa|ia a IHa b IHb|c0 IHc a IHa b IHb]; intros n x Hb Hin; cbn [vars size bases_ok] in *.
  - destruct Hin.
  - unfold base_ok in Hb. apply andb_prop in Hb as [H1 H2]. apply negb_true_iff in H1.
    destruct Hin as [<-|[<-|[]]].
    + exists (c_base (k_coll k)), n. repeat split; auto; lia.
    + exists "aggResult", (S (S (n + gsize (k_guard k) + agg_nifs (k_agg k)))). repeat split; auto; lia.
  - apply andb_prop in Hb as [Ha Hb']. apply in_app_or in Hin as [Hin|Hin].
    + destruct (IHa n x Ha Hin) as (bb & i & E & L & F & R). exists bb, i. repeat split; auto; lia.
    + destruct (IHb _ x Hb' Hin) as (bb & i & E & L & F & R). exists bb, i. repeat split; auto; lia.
  - unfold base_ok in Hb. apply andb_prop in Hb as [H1 H2]. apply negb_true_iff in H1.
    destruct Hin as [<-|[]]. exists (c_base c), n. repeat split; auto; lia.
  - destruct Hin.
  - apply andb_prop in Hb as [Ha Hb']. apply in_app_or in Hin as [Hin|Hin].
    + destruct (IHa n x Ha Hin) as (bb & i & E & L & F & R). exists bb, i. repeat split; auto; lia.
    + destruct (IHb _ x Hb' Hin) as (bb & i & E & L & F & R). exists bb, i. repeat split; auto; lia.
  - exact (IHa n x Hb Hin).
  - exact (IHa n x Hb Hin).
  - apply andb_prop in Hb as [Ha Hb']. destruct Hin as [<-|Hin].
    + exists "bool_op", n. repeat split; auto; lia.
    + apply in_app_or in Hin as [Hin|Hin].
      * destruct (IHa _ x Ha Hin) as (bb & i & E & L & F & R). exists bb, i. repeat split; auto; lia.
      * destruct (IHb _ x Hb' Hin) as (bb & i & E & L & F & R). exists bb, i. repeat split; auto; lia.
  - apply andb_prop in Hb as [Hb Hb3]. apply andb_prop in Hb as [Hb1 Hb2]. destruct Hin as [<-|Hin].
    + exists "if_else_result", n. repeat split; auto; lia.
    + apply in_app_or in Hin as [Hin|Hin]; [|apply in_app_or in Hin as [Hin|Hin]].
      * destruct (IHc _ x Hb1 Hin) as (bb & i & E & L & F & R). exists bb, i. repeat split; auto; lia.
      * destruct (IHa _ x Hb2 Hin) as (bb & i & E & L & F & R). exists bb, i. repeat split; auto; lia.
      * destruct (IHb _ x Hb3 Hin) as (bb & i & E & L & F & R). exists bb, i. repeat split; auto; lia.
Qed.

Lemma bvars_incl (e : ex) : forall n x, In x (bvars e n) -> In x (vars e n).
Proof.
  induction e as [z|k|o a IHa b IHb|c i0 m|t z0 d0|a IHa b IHb|a IHa|fn a IHa|ia a IHa b IHb|c0 IHc a IHa b IHb]; intros n x H; cbn [vars bvars] in *; auto.
  - apply in_app_or in H as [H|H]; apply in_or_app; [left; apply IHa|right; apply IHb]; exact H.
  - apply in_app_or in H as [H|H]; apply in_or_app; [left; apply IHa|right; apply IHb]; exact H.
  - destruct H as [H|H]; [left; exact H|right; apply in_or_app; left; apply IHa; exact H].
  - destruct H as [H|H]; [left; exact H|right; apply in_or_app; left; apply IHc; exact H].
Qed.

Lemma vars_disjoint (a b : ex) (n : nat) (x : string) :
  bases_ok a = true -> bases_ok b = true -> In x (vars a n) -> In x (vars b (n + size a)) -> False.
Proof.
  intros Ha Hb H1 H2.
  destruct (vars_shape a n x Ha H1) as (b1 & i & E1 & L1 & _ & R1).
  destruct (vars_shape b _ x Hb H2) as (b2 & j & E2 & L2 & _ & R2).
  subst x. apply (nm_inj b1 b2 i j L1 L2) in E2. lia.
Qed.

(* ---------- reference semantics in two phases (dstm, dex: Model/FragTranslate.v) ---------- *)

Lemma arith_total (o : bop) (x y : value) : arithable x -> arithable y -> exists v, arith (op_str o) x y = ROk v /\ arithable v.
Proof.
  intros Hx Hy. unfold arith.
  destruct (is_sym x || is_sym y) eqn:S.
  - eexists. split; [reflexivity|]. left. reflexivity.
  - apply orb_false_iff in S as [Sx Sy].
    destruct Hx as [Hx|[p Hp]]; [congruence|]. destruct Hy as [Hy|[q Hq]]; [congruence|].
    rewrite Hp, Hq.
    destruct p as [px|px], q as [qy|qy]; destruct o; cbn; eexists; split; try reflexivity; right; cbn; eauto.
Qed.

Lemma agg_loop_arithable (ev : event) (ty : string) (g : aggk) (ps : guard) (l : list value) : forall acc z,
  arithable acc -> agg_loop ev ty g ps l acc = ROk z -> arithable z.
Proof.
  induction l as [|v r IH]; intros acc z Ha H; cbn [agg_loop] in H.
  - inversion H; subst. exact Ha.
  - destruct (gpasses ev v ps) as [[|]|f|k]; cbn [rbind] in H; try discriminate.
    + destruct (agg_step ev ty g acc v) as [a'|f|k] eqn:Es; cbn [rbind] in H; try discriminate.
      eapply IH; [|exact H]. eapply agg_step_ok. exact Es.
    + eapply IH; eauto.
Qed.

Lemma dcount_arithable (ev : event) (k : cnt) (z : value) : dcount ev k = ROk z -> arithable z.
Proof.
  unfold dcount. destruct (assoc_ss _ _) as [c|]; try discriminate. destruct c; try discriminate.
  apply agg_loop_arithable. apply conv_arithable. right. destruct (k_agg k) as [|[z0|t nn dd] aop body]; cbn; eauto.
Qed.

(* the first phase succeeds whenever the ordinary evaluation has a value *)
Lemma dstm_of_de (ev : event) (e : ex) : forall v, de ev e = ROk v -> dstm ev e = ROk tt.
Proof.
  induction e as [z|k|o a IHa b IHb|c i m|t z0 d0|a IHa b IHb|a IHa|fn a IHa|ia a IHa b IHb|c0 IHc a IHa b IHb]; intros v H; cbn [de dstm] in *.
  - reflexivity.
  - rewrite H. reflexivity.
  - destruct (de ev a) as [x|f|kk]; cbn [rbind] in H; try discriminate.
    destruct (de ev b) as [y|f|kk]; cbn [rbind] in H; try discriminate.
    rewrite (IHa x eq_refl). cbn [rbind]. exact (IHb y eq_refl).
  - unfold didx in H. destruct (assoc_ss (c_ctype c, c_bank c) (ev_colls ev)) as [w|]; [reflexivity|discriminate].
  - reflexivity.
  - destruct (de ev a) as [x|f|kk]; cbn [rbind] in H; try discriminate.
    destruct (de ev b) as [y|f|kk]; cbn [rbind] in H; try discriminate.
    rewrite (IHa x eq_refl). cbn [rbind]. exact (IHb y eq_refl).
  - destruct (de ev a) as [x|f|kk]; cbn [rbind] in H; try discriminate. exact (IHa x eq_refl).
  - destruct (de ev a) as [x|f|kk]; cbn [rbind] in H; try discriminate. exact (IHa x eq_refl).
  - destruct (de ev a) as [x|f|kk]; cbn [rbind] in H; try discriminate. rewrite (IHa x eq_refl). cbn [rbind].
    destruct (truth (conv "bool" x)) as [t|f|kk]; cbn [rbind] in *; try discriminate.
    destruct (Bool.eqb t ia); [|reflexivity].
    destruct (de ev b) as [y|f|kk]; cbn [rbind] in H; try discriminate. rewrite (IHb y eq_refl). reflexivity.
  - destruct (de ev c0) as [x|f|kk]; cbn [rbind] in H; try discriminate. rewrite (IHc x eq_refl). cbn [rbind].
    destruct (truth x) as [t|f|kk]; cbn [rbind] in *; try discriminate.
    destruct t.
    + destruct (de ev a) as [y|f|kk]; cbn [rbind] in H; try discriminate. rewrite (IHa y eq_refl). reflexivity.
    + destruct (de ev b) as [y|f|kk]; cbn [rbind] in H; try discriminate. rewrite (IHb y eq_refl). reflexivity.
Qed.

(* the two-phase reference and the ordinary evaluation have the same values: they can differ only in WHICH fault an
   undefined expression raises *)
Lemma dex_natural (ev : event) (e : ex) (v : value) : dex ev e = ROk v <-> de ev e = ROk v.
Proof.
  unfold dex. split; intro H.
  - destruct (dstm ev e) as [[]|f|k]; cbn [rbind] in H; [exact H|discriminate|discriminate].
  - rewrite (dstm_of_de ev e v H). exact H.
Qed.

(* ---------- the statements of an expression ---------- *)
Fixpoint declared (e : ex) (n : nat) (st : state) : Prop :=
  match e with
  | EInt _ => True
  | ECount k => (exists t v, fget (cv_name k n) st = Some (t, v)) /\
                fget (kagg k n) st = Some (agg_type k, conv (agg_type k) (agg_seed (k_agg k)))
  | EBin _ a b => declared a n st /\ declared b (n + size a) st
  | EIdx c _ _ => exists t v, fget (idx_cv c n) st = Some (t, v)
  | EDbl _ _ _ => True | EDiv a b => declared a n st /\ declared b (n + size a) st | ENeg a | EFun _ a => declared a n st
  | EBool _ a b => (exists w, fget (ebo_name n) st = Some ("bool", w)) /\ declared a (S n) st /\
                   (forall x, In x (vars b (S n + size a)) -> fget x st = None)   (* the names of the if block are still free *)
  | EIf c a b => (exists w, fget (eif_name n) st = Some ("double", w)) /\ declared c (S n) st /\
                 (forall x, In x (vars a (S n + size c) ++ vars b (S n + size c + size a)) -> fget x st = None)
  end.

Lemma declared_ext (e : ex) : forall n st st',
  (forall x, In x (vars e n) -> fget x st' = fget x st) -> declared e n st -> declared e n st'.
Proof.
  induction e as [z|k|o a IHa b IHb|c i m|t z0 d0|a IHa b IHb|a IHa|fn a IHa|ia a IHa b IHb|c0 IHc a IHa b IHb]; intros n st st' H D; cbn [declared vars] in *.
  - exact I.
  - destruct D as [(t & v & D1) D2]. split.
    + exists t, v. rewrite H; [exact D1|left; reflexivity].
    + rewrite H; [exact D2|right; left; reflexivity].
  - destruct D as [Da Db]. split.
    + eapply IHa; [|exact Da]. intros x Hx. apply H, in_or_app. left; exact Hx.
    + eapply IHb; [|exact Db]. intros x Hx. apply H, in_or_app. right; exact Hx.
  - destruct D as (t & v & D). exists t, v. rewrite H; [exact D|left; reflexivity].
  - exact I.
  - destruct D as [Da Db]. split.
    + eapply IHa; [|exact Da]. intros x Hx. apply H, in_or_app. left; exact Hx.
    + eapply IHb; [|exact Db]. intros x Hx. apply H, in_or_app. right; exact Hx.
  - eapply IHa; eauto.
  - eapply IHa; eauto.
  - destruct D as ((w & Dv) & Da & Df). split; [|split].
    + exists w. rewrite H; [exact Dv|left; reflexivity].
    + eapply IHa; [|exact Da]. intros x Hx. apply H. right. apply in_or_app. left; exact Hx.
    + intros x Hx. rewrite H; [apply Df, Hx|]. right. apply in_or_app. right; exact Hx.
  - destruct D as ((w & Dv) & Dc & Df). split; [|split].
    + exists w. rewrite H; [exact Dv|left; reflexivity].
    + eapply IHc; [|exact Dc]. intros x Hx. apply H. right. apply in_or_app. left; exact Hx.
    + intros x Hx. rewrite H; [apply Df, Hx|]. right. apply in_or_app. right; exact Hx.
Qed.

(* the value expression only reads the accumulators of the expression *)
Definition bound (e : ex) (n : nat) (st : state) : Prop :=
  forall x, In x (bvars e n) -> exists tv, fget x st = Some tv.

Lemma tc_ext (ev : event) (e : ex) : forall n s1 s2,
  bound e n s1 -> (forall x, In x (vars e n) -> fget x s2 = fget x s1) -> eval ev s2 (tc e n) = eval ev s1 (tc e n).
Proof.
  induction e as [z|k|o a IHa b IHb|c i m|t z0 d0|a IHa b IHb|a IHa|fn a IHa|ia a IHa b IHb|c0 IHc a IHa b IHb]; intros n s1 s2 D H; unfold bound in *; cbn [tc vars bvars] in *.
  - reflexivity.
  - destruct (D (kagg k n)) as [tv E1]; [right; left; reflexivity|].
    assert (E2 : fget (kagg k n) s2 = Some tv) by (rewrite H; [exact E1|right; left; reflexivity]).
    rewrite !eval_var, (lookup_fget _ _ _ E1), (lookup_fget _ _ _ E2). reflexivity.
  - change (eval ev s2 (CBin (op_str o) (tc a n) (tc b (n + size a))))
      with (rbind (eval ev s2 (tc a n)) (fun x => rbind (eval ev s2 (tc b (n + size a))) (fun y => arith (op_str o) x y))).
    change (eval ev s1 (CBin (op_str o) (tc a n) (tc b (n + size a))))
      with (rbind (eval ev s1 (tc a n)) (fun x => rbind (eval ev s1 (tc b (n + size a))) (fun y => arith (op_str o) x y))).
    rewrite (IHa n s1 s2), (IHb (n + size a) s1 s2); [reflexivity| | | |];
      try (intros x Hx; apply H, in_or_app; auto); intros x Hx; apply D; apply in_or_app; auto.
  - destruct (D (idx_cv c n)) as [tv E1]; [left; reflexivity|].
    assert (E2 : fget (idx_cv c n) s2 = Some tv) by (rewrite H; [exact E1|left; reflexivity]).
    unfold idx_exp.
    change (eval ev s2 (CMeth (CMeth (CVar (idx_cv c n)) true "at" (CCons (CInt (Z.of_nat i)) CNil)) (c_arrow c) m CNil))
      with (rbind (rbind (eval ev s2 (CVar (idx_cv c n))) (fun x => call_method ev x "at" [VInt (Z.of_nat i)])) (fun y => call_method ev y m [])).
    change (eval ev s1 (CMeth (CMeth (CVar (idx_cv c n)) true "at" (CCons (CInt (Z.of_nat i)) CNil)) (c_arrow c) m CNil))
      with (rbind (rbind (eval ev s1 (CVar (idx_cv c n))) (fun x => call_method ev x "at" [VInt (Z.of_nat i)])) (fun y => call_method ev y m [])).
    rewrite !eval_var, (lookup_fget _ _ _ E1), (lookup_fget _ _ _ E2). reflexivity.
  - reflexivity.
  - assert (Ea : eval ev s2 (tc a n) = eval ev s1 (tc a n)).
    { apply IHa; [intros x Hx; apply D; apply in_or_app; auto|intros x Hx; apply H, in_or_app; auto]. }
    assert (Eb : eval ev s2 (tc b (n + size a)) = eval ev s1 (tc b (n + size a))).
    { apply IHb; [intros x Hx; apply D; apply in_or_app; auto|intros x Hx; apply H, in_or_app; auto]. }
    destruct (ex_div_needs_cast a b); cbn [eval]; rewrite Ea, Eb; reflexivity.
  - cbn [eval]. rewrite (IHa n s1 s2 D H). reflexivity.
  - cbn [eval eval_args]. rewrite (IHa n s1 s2 D H). reflexivity.
  - destruct (D (ebo_name n)) as [tv E1]; [left; reflexivity|].
    assert (E2 : fget (ebo_name n) s2 = Some tv) by (rewrite H; [exact E1|left; reflexivity]).
    rewrite !eval_var, (lookup_fget _ _ _ E1), (lookup_fget _ _ _ E2). reflexivity.
  - destruct (D (eif_name n)) as [tv E1]; [left; reflexivity|].
    assert (E2 : fget (eif_name n) s2 = Some tv) by (rewrite H; [exact E1|left; reflexivity]).
    rewrite !eval_var, (lookup_fget _ _ _ E1), (lookup_fget _ _ _ E2). reflexivity.
Qed.

(* ---------- code inside an if block: frames ---------- *)
Lemma exec_snoc (brs : list branch) (ev : event) (l : stmts) (s : stmt) (st : state) :
  exec_stmts brs ev (snoc_stmts l s) st = rbind (exec_stmts brs ev l st) (fun st' => exec_stmt brs ev s st').
Proof.
  unfold snoc_stmts. rewrite exec_stmts_app. destruct (exec_stmts brs ev l st); cbn [rbind]; try reflexivity.
  apply exec_one.
Qed.

Lemma truth_conv_bool (x : value) (t : bool) : truth (conv "bool" x) = ROk t -> conv "bool" x = VBool t.
Proof. unfold conv. cbn. destruct x; cbn; intro H; inversion H; reflexivity. Qed.

Lemma frame_get_notin (y : string) (f : frame) : ~ In y (fnames f) -> frame_get y f = None.
Proof.
  induction f as [|[z tv] r IH]; cbn [fnames map fst frame_get]; intro H; [reflexivity|].
  destruct (String.eqb y z) eqn:E; [apply String.eqb_eq in E; subst; exfalso; apply H; left; reflexivity|].
  apply IH. intro Hin. apply H. right; exact Hin.
Qed.

Lemma fget_pop (y : string) (s : state) : frame_get y (hd [] (frames s)) = None -> fget y (pop_frame s) = fget y s.
Proof.
  unfold fget, pop_frame. cbn [frames]. destruct (frames s) as [|f r]; cbn [hd tl frames_get]; intro H; [reflexivity|].
  rewrite H. reflexivity.
Qed.

Lemma declare_top (x t : string) (v : value) (st : state) : frames st <> [] ->
  fnames (hd [] (frames (declare x t v st))) = fnames (hd [] (frames st)) ++ [x].
Proof.
  unfold declare. destruct (frames st) as [|f r]; [contradiction|]. intros _. cbn [frames hd]. unfold fnames. rewrite map_app. reflexivity.
Qed.

Lemma run_decls_top (ev : event) (ds : list decl) : forall st st', frames st <> [] -> run_decls ev ds st = ROk st' ->
  fnames (hd [] (frames st')) = fnames (hd [] (frames st)) ++ map d_name ds.
Proof.
  induction ds as [|d r IH]; intros st st' Hne H; cbn [run_decls map] in *.
  - inversion H; subst. rewrite app_nil_r. reflexivity.
  - destruct (d_init d) as [e|].
    + destruct (eval ev st e) as [v|f|k]; cbn [rbind] in H; try discriminate.
      rewrite (IH _ _ (declare_nonempty _ _ _ st) H), (declare_top _ _ _ st Hne), <- app_assoc. reflexivity.
    + rewrite (IH _ _ (declare_nonempty _ _ _ st) H), (declare_top _ _ _ st Hne), <- app_assoc. reflexivity.
Qed.

Lemma tds_names (e : ex) : forall n, map d_name (tds e n) = bvars e n.
Proof.
  induction e as [z|k|o a IHa b IHb|c i m|t z0 d0|a IHa b IHb|a IHa|fn a IHa|ia a IHa b IHb|c0 IHc a IHa b IHb]; intro n; cbn [tds bvars map d_name]; try reflexivity.
  - rewrite map_app, IHa, IHb. reflexivity.
  - rewrite map_app, IHa, IHb. reflexivity.
  - apply IHa.
  - apply IHa.
  - rewrite IHa. reflexivity.
  - rewrite IHc. reflexivity.
Qed.

Lemma shape_top (s1 s2 : state) : shape s1 = shape s2 -> fnames (hd [] (frames s1)) = fnames (hd [] (frames s2)).
Proof. unfold shape. destruct (frames s1), (frames s2); cbn [map hd]; intro H; try discriminate; [reflexivity|injection H as H1 H2; exact H1]. Qed.


(* pa_type is int or double *)
Lemma pa_type_cases (a : pa) : pa_type a = "int" \/ pa_type a = "double".
Proof.
  induction a as [z|tx n d|m|op x IHx y IHy|x IHx y IHy|x IHx|f x IHx]; cbn [pa_type]; auto.
  destruct (String.eqb (pa_type x) "int" && String.eqb (pa_type y) "int"); auto.
Qed.
Lemma btype_cases (e : bexp) : btype e = "int" \/ btype e = "double".
Proof.
  induction e as [a|c a b|op x IHx y IHy]; cbn [btype]; [apply pa_type_cases|auto|].
  destruct (String.eqb (btype x) "int" && String.eqb (btype y) "int"); auto.
Qed.


(* ---------- block entry: the declarations ---------- *)
Lemma run_decls_app (ev : event) (d1 d2 : list decl) (st : state) :
  run_decls ev (d1 ++ d2) st = rbind (run_decls ev d1 st) (fun st1 => run_decls ev d2 st1).
Proof.
  revert st. induction d1 as [|d r IH]; intro st; cbn [app run_decls]; [reflexivity|].
  destruct (d_init d) as [e|].
  - destruct (eval ev st e); cbn [rbind]; [apply IH|reflexivity|reflexivity].
  - apply IH.
Qed.

Lemma frame_get_app_new (x : string) (f : frame) (tv : string * value) :
  frame_get x f = None -> frame_get x (f ++ [(x, tv)]) = Some tv.
Proof.
  induction f as [|[y w] r IH]; cbn [app frame_get]; intro H.
  - rewrite String.eqb_refl. reflexivity.
  - destruct (String.eqb x y); [discriminate|]. apply IH, H.
Qed.
Lemma frame_get_app_other (x y : string) (f : frame) (tv : string * value) :
  String.eqb y x = false -> frame_get y (f ++ [(x, tv)]) = frame_get y f.
Proof.
  intro H. induction f as [|[z w] r IH]; cbn [app frame_get].
  - rewrite H. reflexivity.
  - destruct (String.eqb y z); [reflexivity|exact IH].
Qed.

Lemma declare_spec (x t : string) (v : value) (st : state) :
  fget x st = None ->
  fget x (declare x t v st) = Some (t, v) /\
  (forall y, String.eqb y x = false -> fget y (declare x t v st) = fget y st) /\
  members (declare x t v st) = members st /\ rows (declare x t v st) = rows st.
Proof.
  unfold fget, declare. intro H. destruct (frames st) as [|f r] eqn:E; cbn [frames members rows frames_get].
  - cbn [frame_get]. rewrite String.eqb_refl. repeat split; auto. intros y Hy. rewrite Hy. reflexivity.
  - cbn [frames_get] in H. destruct (frame_get x f) eqn:Ef; [discriminate|].
    rewrite (frame_get_app_new x f (t, v) Ef). repeat split; auto.
    intros y Hy. rewrite (frame_get_app_other x y f (t, v) Hy). reflexivity.
Qed.

Lemma decls_declared (ev : event) (e : ex) : forall (n : nat) (st : state),
  bases_ok e = true ->
  (forall x, In x (vars e n) -> fget x st = None) ->
  exists st', run_decls ev (tds e n) st = ROk st' /\ declared e n st' /\
              members st' = members st /\ rows st' = rows st /\
              (forall y, ~ In y (vars e n) -> fget y st' = fget y st).
Proof.
  induction e as [z|k|o a IHa b IHb|c i m|t z0 d0|a IHa b IHb|a IHa|fn a IHa|ia a IHa b IHb|c0 IHc a IHa b IHb]; intros n st Hb Hf; cbn [tds vars declared bases_ok] in *.
  10: { apply andb_prop in Hb as [Hb Hb3]. apply andb_prop in Hb as [Hb1 Hb2].
       set (v := eif_name n) in *. set (n1 := S n + size c0) in *. set (n2 := n1 + size a) in *.
       assert (Nv : forall (e : ex) (m : nat), bases_ok e = true -> S n <= m -> ~ In v (vars e m)).
       { intros e m He Hm H. destruct (vars_shape e m v He H) as (bb & i & E & L & F & R).
         unfold v, eif_name in E. apply (nm_inj "if_else_result" bb n i eq_refl L) in E. lia. }
       assert (Nne : forall y, y <> v -> String.eqb y v = false).
       { intros y Hy. destruct (String.eqb y v) eqn:E; [apply String.eqb_eq in E; contradiction|reflexivity]. }
       cbn [run_decls ie_decl d_init d_name d_type].
       destruct (declare_spec v "double" (default_value "double") st) as (G0 & O0 & M0 & R0); [apply Hf; left; reflexivity|].
       set (st0 := declare v "double" (default_value "double") st) in *.
       destruct (IHc (S n) st0 Hb1) as (st1 & E1 & D1 & M1 & R1 & U1).
       { intros x Hx. rewrite (O0 x (Nne x (fun E => Nv c0 (S n) Hb1 (le_n _) (eq_ind x (fun z => In z (vars c0 (S n))) Hx v E)))).
         apply Hf. right. apply in_or_app. left; exact Hx. }
       exists st1. split; [exact E1|]. split; [split; [|split]|].
       + exists (default_value "double"). rewrite (U1 v (Nv c0 (S n) Hb1 (le_n _))). exact G0.
       + exact D1.
       + intros x Hx.
         assert (Xc : ~ In x (vars c0 (S n))).
         { intro Hxc. apply in_app_or in Hx as [Hx|Hx].
           - exact (vars_disjoint c0 a (S n) x Hb1 Hb2 Hxc Hx).
           - destruct (vars_shape c0 (S n) x Hb1 Hxc) as (b1 & i & E1' & L1 & _ & R1').
             destruct (vars_shape b n2 x Hb3 Hx) as (b2 & j & E2' & L2 & _ & R2').
             subst x. apply (nm_inj b1 b2 i j L1 L2) in E2'. unfold n2, n1 in R2'. lia. }
         assert (Xv : x <> v).
         { intro E. subst x. apply in_app_or in Hx as [Hx|Hx]; [exact (Nv a n1 Hb2 ltac:(unfold n1; lia) Hx)|exact (Nv b n2 Hb3 ltac:(unfold n2, n1; lia) Hx)]. }
         rewrite (U1 x Xc), (O0 x (Nne x Xv)). apply Hf. right. apply in_or_app. right; exact Hx.
       + split; [congruence|]. split; [congruence|]. intros y Hy.
         assert (Yv : y <> v) by (intro E; apply Hy; left; symmetry; exact E).
         rewrite U1; [apply (O0 y (Nne y Yv))|]. intro H. apply Hy. right. apply in_or_app. left; exact H. }
  9: { apply andb_prop in Hb as [Hba Hbb]. set (v := ebo_name n) in *. set (n1 := S n + size a) in *.
       assert (Nva : ~ In v (vars a (S n))).
       { intro H. destruct (vars_shape a (S n) v Hba H) as (bb & i & E & L & F & R).
         unfold v, ebo_name in E. apply (nm_inj "bool_op" bb n i eq_refl L) in E. lia. }
       assert (Nvb : ~ In v (vars b n1)).
       { intro H. destruct (vars_shape b n1 v Hbb H) as (bb & i & E & L & F & R).
         unfold v, ebo_name in E. apply (nm_inj "bool_op" bb n i eq_refl L) in E. unfold n1 in R. lia. }
       assert (Nne : forall y, y <> v -> String.eqb y v = false).
       { intros y Hy. destruct (String.eqb y v) eqn:E; [apply String.eqb_eq in E; contradiction|reflexivity]. }
       cbn [run_decls bo_decl d_init d_name d_type].
       destruct (declare_spec v "bool" (default_value "bool") st) as (G0 & O0 & M0 & R0); [apply Hf; left; reflexivity|].
       set (st0 := declare v "bool" (default_value "bool") st) in *.
       destruct (IHa (S n) st0 Hba) as (st1 & E1 & D1 & M1 & R1 & U1).
       { intros x Hx. rewrite (O0 x (Nne x (fun E => Nva (eq_ind x (fun z => In z (vars a (S n))) Hx v E)))).
         apply Hf. right. apply in_or_app. left; exact Hx. }
       exists st1. split; [exact E1|]. split; [split; [|split]|].
       + exists (default_value "bool"). rewrite (U1 v Nva). exact G0.
       + exact D1.
       + intros x Hx. rewrite U1; [|intro Hxa; exact (vars_disjoint a b (S n) x Hba Hbb Hxa Hx)].
         rewrite (O0 x (Nne x (fun E => Nvb (eq_ind x (fun z => In z (vars b n1)) Hx v E)))).
         apply Hf. right. apply in_or_app. right; exact Hx.
       + split; [congruence|]. split; [congruence|]. intros y Hy.
         assert (Yv : y <> v) by (intro E; apply Hy; left; symmetry; exact E).
         rewrite U1; [apply (O0 y (Nne y Yv))|]. intro H. apply Hy. right. apply in_or_app. left; exact H. }
  5: { exists st. cbn. repeat split; auto. }
  5: { apply andb_prop in Hb as [Hba Hbb]. rewrite run_decls_app.
       destruct (IHa n st Hba) as (st1 & E1 & D1 & M1 & R1 & U1); [intros x Hx; apply Hf, in_or_app; auto|].
       rewrite E1. cbn [rbind].
       destruct (IHb (n + size a) st1 Hbb) as (st2 & E2 & D2 & M2 & R2 & U2).
       { intros x Hx. rewrite U1; [apply Hf, in_or_app; auto|]. intro Hxa. exact (vars_disjoint a b n x Hba Hbb Hxa Hx). }
       exists st2. split; [exact E2|]. split; [split|].
       + eapply declared_ext; [|exact D1]. intros x Hx. apply U2. intro Hxb. exact (vars_disjoint a b n x Hba Hbb Hx Hxb).
       + exact D2.
       + split; [congruence|]. split; [congruence|]. intros y Hy. rewrite U2, U1; [reflexivity| |]; intro H; apply Hy, in_or_app; auto. }
  5: { exact (IHa n st Hb Hf). }
  5: { exact (IHa n st Hb Hf). }
  4: { cbn [run_decls d_init d_name d_type].
       destruct (declare_spec (idx_cv c n) (c_ctype c) (default_value (c_ctype c)) st) as (G & O & M & R); [apply Hf; left; reflexivity|].
       eexists. split; [reflexivity|]. split; [eauto|]. split; [exact M|]. split; [exact R|].
       intros y Hy. apply O. destruct (String.eqb y (idx_cv c n)) eqn:E; [|reflexivity].
       apply String.eqb_eq in E. exfalso. apply Hy. left; auto. }
  - exists st. cbn. repeat split; auto.
  - unfold base_ok in Hb. apply andb_prop in Hb as [Hl _]. apply negb_true_iff in Hl.
    assert (N1 : String.eqb (kagg k n) (cv_name k n) = false) by (apply nm_neq; [reflexivity|exact Hl|lia]).
    unfold tcount_decls. cbn [run_decls d_init d_name d_type].
    assert (Einit : forall s0, eval ev s0 (agg_init (k_agg k)) = ROk (agg_seed (k_agg k))).
    { intro s0. destruct (k_agg k) as [|[z0|t0 nn dd] aop body]; reflexivity. }
    rewrite Einit. cbn [rbind].
    set (v0 := default_value (c_ctype (k_coll k))).
    destruct (declare_spec (cv_name k n) (c_ctype (k_coll k)) v0 st) as (G1 & O1 & M1 & R1); [apply Hf; left; reflexivity|].
    set (st1 := declare (cv_name k n) (c_ctype (k_coll k)) v0 st) in *.
    assert (F2 : fget (kagg k n) st1 = None) by (rewrite (O1 _ N1); apply Hf; right; left; reflexivity).
    assert (Ei : init_value (agg_type k) (agg_seed (k_agg k)) = conv (agg_type k) (agg_seed (k_agg k))).
    { unfold init_value. destruct (is_vector_type (agg_type k)) eqn:Ev; [|reflexivity].
      exfalso. unfold agg_type, aggk_type in Ev. destruct (k_agg k) as [|sd aop body]; [discriminate|].
      destruct (String.eqb (seed_type sd) "int" && String.eqb (btype body) "int"); discriminate. }
    rewrite Ei.
    destruct (declare_spec (kagg k n) (agg_type k) (conv (agg_type k) (agg_seed (k_agg k))) st1 F2) as (G2 & O2 & M2 & R2).
    eexists. split; [reflexivity|]. split; [split|].
    + exists (c_ctype (k_coll k)), v0.
      assert (N3 : String.eqb (cv_name k n) (kagg k n) = false) by (rewrite String.eqb_sym; exact N1).
      rewrite (O2 _ N3). exact G1.
    + exact G2.
    + split; [congruence|]. split; [congruence|]. intros y Hy.
      assert (Y1 : String.eqb y (kagg k n) = false).
      { destruct (String.eqb y (kagg k n)) eqn:E; [|reflexivity]. apply String.eqb_eq in E. exfalso. apply Hy. right; left; auto. }
      assert (Y2 : String.eqb y (cv_name k n) = false).
      { destruct (String.eqb y (cv_name k n)) eqn:E; [|reflexivity]. apply String.eqb_eq in E. exfalso. apply Hy. left; auto. }
      rewrite (O2 _ Y1), (O1 _ Y2). reflexivity.
  - apply andb_prop in Hb as [Hba Hbb]. rewrite run_decls_app.
    destruct (IHa n st Hba) as (st1 & E1 & D1 & M1 & R1 & U1); [intros x Hx; apply Hf, in_or_app; auto|].
    rewrite E1. cbn [rbind].
    destruct (IHb (n + size a) st1 Hbb) as (st2 & E2 & D2 & M2 & R2 & U2).
    { intros x Hx. rewrite U1; [apply Hf, in_or_app; auto|]. intro Hxa. exact (vars_disjoint a b n x Hba Hbb Hxa Hx). }
    exists st2. split; [exact E2|]. split; [split|].
    + eapply declared_ext; [|exact D1]. intros x Hx. apply U2. intro Hxb. exact (vars_disjoint a b n x Hba Hbb Hx Hxb).
    + exact D2.
    + split; [congruence|]. split; [congruence|]. intros y Hy. rewrite U2, U1; [reflexivity| |]; intro H; apply Hy, in_or_app; auto.
Qed.

(* one arm of a conditional (or the second operand of and / or): its declarations, its code and the assignment of its
   value to a variable of the enclosing block, all inside a block of their own *)
Lemma arm_exec (brs : list branch) (ev : event) (idiom : string) (b : ex) (n1 : nat) (v ty : string) (cast : option string)
      (w : value) (st2 : state) :
  (forall st, declared b n1 st ->
     match dstm ev b with
     | ROk _ => exists st', exec_stmts brs ev (tss idiom b n1) st = ROk st' /\ members st' = members st /\ rows st' = rows st /\
                            (forall y, ~ In y (vars b n1) -> fget y st' = fget y st) /\ bound b n1 st' /\
                            (nstuck (de ev b) -> eval ev st' (tc b n1) = de ev b)
     | RFault f => exec_stmts brs ev (tss idiom b n1) st = RFault f
     | RStuck _ => True
     end) ->
  bases_ok b = true -> ~ In v (vars b n1) -> fget v st2 = Some (ty, w) -> (forall x, In x (vars b n1) -> fget x st2 = None) ->
  let blk := Blk (tds b n1) (snoc_stmts (tss idiom b n1) (SSet v cast (tc b n1))) in
  match dstm ev b with
  | ROk _ =>
      match de ev b with
      | ROk y => exists st6, exec_block brs ev blk [] st2 = ROk st6 /\ members st6 = members st2 /\ rows st6 = rows st2 /\
                             (forall z, ~ In z (vars b n1) -> z <> v -> fget z st6 = fget z st2) /\
                             fget v st6 = Some (ty, conv ty (match cast with Some ct => conv ct y | None => y end))
      | RFault f => exec_block brs ev blk [] st2 = RFault f
      | RStuck _ => True
      end
  | RFault f => exec_block brs ev blk [] st2 = RFault f
  | RStuck _ => True
  end.
Proof.
  intros IHb Hbb Nvb Gv Fresh blk. unfold blk. rewrite exec_block_eq.
  assert (Nne : forall y, y <> v -> String.eqb y v = false).
  { intros y Hy. destruct (String.eqb y v) eqn:E; [apply String.eqb_eq in E; contradiction|reflexivity]. }
  destruct (decls_declared ev b n1 (enter [] st2) Hbb) as (st3 & E3 & D3 & M3 & R3 & U3).
  { intros y Hy. rewrite fget_enter by reflexivity. apply Fresh, Hy. }
  rewrite E3. cbn [rbind]. rewrite exec_snoc.
  specialize (IHb st3 D3).
  destruct (dstm ev b) as [[]|f|kk]; cbn [rbind]; [|rewrite IHb; reflexivity|exact I].
  destruct IHb as (st4 & E4 & M4 & R4 & U4 & B4 & V4). rewrite E4. cbn [rbind]. rewrite exec_set.
  destruct (de ev b) as [y|f|kk] eqn:Edb; cbn [rbind]; [|rewrite (V4 I); reflexivity|exact I].
  rewrite (V4 I). cbn [rbind].
  assert (Dv4 : fget v st4 = Some (ty, w)).
  { rewrite (U4 v Nvb), (U3 v Nvb), fget_enter by reflexivity. exact Gv. }
  set (val := conv ty (match cast with Some ct => conv ct y | None => y end)).
  destruct (assign_upd v val st4 ty w Dv4) as (Ha5 & Hlk5 & G5 & O5 & M5 & R5).
  rewrite Hlk5. cbv zeta. fold val. rewrite Ha5. cbn [rbind].
  set (st5 := upd v val st4) in *.
  assert (Top5 : fnames (hd [] (frames st5)) = bvars b n1).
  { rewrite (shape_top st5 st4 (assign_shape _ _ _ _ Ha5)).
    rewrite (shape_top st4 st3 (proj2 (proj2 (exec_shape brs ev)) _ _ _ E4)).
    rewrite (run_decls_top ev (tds b n1) (enter [] st2) st3 ltac:(discriminate) E3). cbn [enter frames hd fnames map app]. apply tds_names. }
  assert (Pop : forall z, ~ In z (vars b n1) -> fget z (pop_frame st5) = fget z st5).
  { intros z Hz. apply fget_pop, frame_get_notin. rewrite Top5. intro Hb'. apply Hz, bvars_incl, Hb'. }
  exists (pop_frame st5). split; [reflexivity|]. split; [|split; [|split]].
  - cbn [pop_frame members]. rewrite M5, M4, M3. reflexivity.
  - cbn [pop_frame rows]. rewrite R5, R4, R3. reflexivity.
  - intros z Hz Hzv. rewrite (Pop z Hz), (O5 z (Nne z Hzv)), (U4 z Hz), (U3 z Hz), fget_enter by reflexivity. reflexivity.
  - rewrite (Pop v Nvb). exact G5.
Qed.

Lemma te_exec (brs : list branch) (ev : event) (idiom : string) (e : ex) : forall (n : nat) (st : state),
  bases_ok e = true -> declared e n st ->
  match dstm ev e with
  | ROk _ => exists st', exec_stmts brs ev (tss idiom e n) st = ROk st' /\
                         members st' = members st /\ rows st' = rows st /\
                         (forall y, ~ In y (vars e n) -> fget y st' = fget y st) /\
                         bound e n st' /\
                         (nstuck (de ev e) -> eval ev st' (tc e n) = de ev e)
  | RFault f => exec_stmts brs ev (tss idiom e n) st = RFault f
  | RStuck _ => True
  end.
Proof.
  induction e as [z|k|o a IHa b IHb|c i m|t z0 d0|a IHa b IHb|a IHa|fn a IHa|ia a IHa b IHb|c0 IHc a IHa b IHb]; intros n st Hb D; cbn [dstm tss tc vars bvars de declared bases_ok] in *.
  - exists st. repeat split; auto. intros x [].
  - destruct D as [(tcv & v0 & Dcv) Dagg].
    unfold base_ok in Hb. apply andb_prop in Hb as [Hl _]. apply negb_true_iff in Hl.
    assert (N1 : String.eqb (kagg k n) (cv_name k n) = false) by (apply nm_neq; [reflexivity|exact Hl|lia]).
    assert (N2 : String.eqb (kagg k n) (iv_name n) = false) by (apply nm_neq; [reflexivity|reflexivity|lia]).
    assert (N4 : String.eqb (kagg k n) (bo_name n) = false) by (apply nm_neq_base; [reflexivity|reflexivity|discriminate]).
    pose proof (count_exec brs ev idiom k n st tcv v0 Dcv Dagg N1 N2 N4) as C.
    unfold dcount in *.
    destruct (assoc_ss (c_ctype (k_coll k), c_bank (k_coll k)) (ev_colls ev)) as [c|]; cbn [rbind]; [|exact C].
    destruct c; cbn [rbind]; try exact I; try exact C.
    destruct (agg_loop ev (agg_type k) (k_agg k) (k_guard k) l (conv (agg_type k) (agg_seed (k_agg k)))) as [z|f|kk] eqn:El; cbn [rbind]; [|exact C|exact I].
    destruct (assign_upd (cv_name k n) (VVec l) st tcv v0 Dcv) as (_ & _ & G1 & O1 & M1 & R1).
    assert (Dagg1 : fget (kagg k n) (upd (cv_name k n) (VVec l) st) = Some (agg_type k, conv (agg_type k) (agg_seed (k_agg k)))) by (rewrite (O1 _ N1); exact Dagg).
    destruct (assign_upd (kagg k n) z _ (agg_type k) _ Dagg1) as (_ & _ & G2 & O2 & M2 & R2).
    assert (Zu : z <> VUninit).
    { apply arithable_not_uninit. eapply agg_loop_arithable; [|exact El]. apply conv_arithable. right.
      destruct (k_agg k) as [|[z0|t0 nn dd] aop body]; cbn; eauto. }
    eexists. split; [exact C|]. split; [congruence|]. split; [congruence|]. split; [|split].
    + intros y Hy.
      assert (Y1 : String.eqb y (kagg k n) = false).
      { destruct (String.eqb y (kagg k n)) eqn:E; [|reflexivity]. apply String.eqb_eq in E. exfalso. apply Hy. right; left; auto. }
      assert (Y2 : String.eqb y (cv_name k n) = false).
      { destruct (String.eqb y (cv_name k n)) eqn:E; [|reflexivity]. apply String.eqb_eq in E. exfalso. apply Hy. left; auto. }
      rewrite (O2 _ Y1), (O1 _ Y2). reflexivity.
    + intros x [<-|[<-|[]]].
      * assert (N3 : String.eqb (cv_name k n) (kagg k n) = false) by (rewrite String.eqb_sym; exact N1).
        rewrite (O2 _ N3), G1. eauto.
      * rewrite G2. eauto.
    + intros _. rewrite eval_var, (lookup_fget _ _ _ G2). destruct z; try reflexivity. contradiction.
  - apply andb_prop in Hb as [Hba Hbb]. destruct D as [Da Db].
    specialize (IHa n st Hba Da). rewrite exec_stmts_app.
    destruct (dstm ev a) as [[]|f|kk]; cbn [rbind]; [|rewrite IHa; reflexivity|exact I].
    destruct IHa as (st1 & E1 & M1 & R1 & U1 & B1 & V1). rewrite E1. cbn [rbind].
    assert (Db1 : declared b (n + size a) st1).
    { eapply declared_ext; [|exact Db]. intros x Hx. apply U1. intro Hxa. exact (vars_disjoint a b n x Hba Hbb Hxa Hx). }
    specialize (IHb (n + size a) st1 Hbb Db1).
    destruct (dstm ev b) as [[]|f|kk]; [|exact IHb|exact I].
    destruct IHb as (st2 & E2 & M2 & R2 & U2 & B2 & V2).
    exists st2. split; [exact E2|]. split; [congruence|]. split; [congruence|]. split; [|split].
    + intros y Hy. rewrite U2, U1; [reflexivity| |]; intro H; apply Hy, in_or_app; auto.
    + intros x Hx. apply in_app_or in Hx as [Hx|Hx].
      * rewrite U2; [apply B1, Hx|]. intro Hxb. exact (vars_disjoint a b n x Hba Hbb (bvars_incl a n x Hx) Hxb).
      * apply B2, Hx.
    + intro Hn.
      change (eval ev st2 (CBin (op_str o) (tc a n) (tc b (n + size a))))
        with (rbind (eval ev st2 (tc a n)) (fun x => rbind (eval ev st2 (tc b (n + size a))) (fun y => arith (op_str o) x y))).
      rewrite (tc_ext ev a n st1 st2 B1), (V1 (nstuck_bind_l _ _ Hn));
        [|intros x Hx; apply U2; intro Hxb; exact (vars_disjoint a b n x Hba Hbb Hx Hxb)].
      destruct (de ev a) as [x|f|kk]; cbn [rbind] in *; [|reflexivity|destruct Hn].
      rewrite (V2 (nstuck_bind_l _ _ Hn)). reflexivity.
  - destruct D as (t & v0 & Dcv). rewrite exec_one. cbn [exec_stmt].
    destruct (assoc_ss (c_ctype c, c_bank c) (ev_colls ev)) as [w|] eqn:Ea; [|reflexivity].
    destruct (assign_upd (idx_cv c n) w st t v0 Dcv) as (Has & _ & G1 & O1 & M1 & R1).
    rewrite Has. eexists. split; [reflexivity|]. split; [exact M1|]. split; [exact R1|]. split; [|split].
    + intros y Hy. apply O1. destruct (String.eqb y (idx_cv c n)) eqn:E; [|reflexivity].
      apply String.eqb_eq in E. exfalso. apply Hy. left; auto.
    + intros x [<-|[]]. rewrite G1. eauto.
    + intro Hn. unfold idx_exp, didx in *. rewrite Ea in *.
      change (eval ev (upd (idx_cv c n) w st) (CMeth (CMeth (CVar (idx_cv c n)) true "at" (CCons (CInt (Z.of_nat i)) CNil)) (c_arrow c) m CNil))
        with (rbind (rbind (eval ev (upd (idx_cv c n) w st) (CVar (idx_cv c n))) (fun x => call_method ev x "at" [VInt (Z.of_nat i)])) (fun y => call_method ev y m [])).
      rewrite eval_var, (lookup_fget _ _ _ G1).
      destruct w; try (destruct Hn); try reflexivity.
      cbn [rbind call_method]. change (String.eqb "at" "at") with true. cbv iota.
      assert (Z0 : (Z.of_nat i <? 0)%Z = false) by (apply Z.ltb_ge, Nat2Z.is_nonneg). rewrite Z0, Nat2Z.id.
      destruct (nth_error l i) as [y|]; reflexivity.
  - exists st. repeat split; auto. intros x [].
  - apply andb_prop in Hb as [Hba Hbb]. destruct D as [Da Db].
    specialize (IHa n st Hba Da). rewrite exec_stmts_app.
    destruct (dstm ev a) as [[]|f|kk]; cbn [rbind]; [|rewrite IHa; reflexivity|exact I].
    destruct IHa as (st1 & E1 & M1 & R1 & U1 & B1 & V1). rewrite E1. cbn [rbind].
    assert (Db1 : declared b (n + size a) st1).
    { eapply declared_ext; [|exact Db]. intros x Hx. apply U1. intro Hxa. exact (vars_disjoint a b n x Hba Hbb Hxa Hx). }
    specialize (IHb (n + size a) st1 Hbb Db1).
    destruct (dstm ev b) as [[]|f|kk]; [|exact IHb|exact I].
    destruct IHb as (st2 & E2 & M2 & R2 & U2 & B2 & V2).
    exists st2. split; [exact E2|]. split; [congruence|]. split; [congruence|]. split; [|split].
    + intros y Hy. rewrite U2, U1; [reflexivity| |]; intro H; apply Hy, in_or_app; auto.
    + intros x Hx. apply in_app_or in Hx as [Hx|Hx].
      * rewrite U2; [apply B1, Hx|]. intro Hxb. exact (vars_disjoint a b n x Hba Hbb (bvars_incl a n x Hx) Hxb).
      * apply B2, Hx.
    + intro Hn.
      assert (Ea : eval ev st2 (tc a n) = de ev a).
      { rewrite (tc_ext ev a n st1 st2 B1); [apply V1, (nstuck_bind_l _ _ Hn)|].
        intros x Hx. apply U2. intro Hxb. exact (vars_disjoint a b n x Hba Hbb Hx Hxb). }
      destruct (de ev a) as [x|f|kk] eqn:Eda; cbn [rbind] in Hn.
      * assert (Eb : eval ev st2 (tc b (n + size a)) = de ev b) by (apply V2, (nstuck_bind_l _ _ Hn)).
        destruct (ex_div_needs_cast a b); cbn [eval]; rewrite Ea, Eb; reflexivity.
      * destruct (ex_div_needs_cast a b); cbn [eval]; rewrite Ea; reflexivity.
      * destruct Hn.
  - specialize (IHa n st Hb D). destruct (dstm ev a) as [[]|f|kk]; [|exact IHa|exact I].
    destruct IHa as (st1 & E1 & M1 & R1 & U1 & B1 & V1).
    exists st1. split; [exact E1|]. split; [exact M1|]. split; [exact R1|]. split; [exact U1|]. split; [exact B1|].
    intro Hn. cbn [eval]. rewrite (V1 (nstuck_bind_l _ _ Hn)). reflexivity.
  - specialize (IHa n st Hb D). destruct (dstm ev a) as [[]|f|kk]; [|exact IHa|exact I].
    destruct IHa as (st1 & E1 & M1 & R1 & U1 & B1 & V1).
    exists st1. split; [exact E1|]. split; [exact M1|]. split; [exact R1|]. split; [exact U1|]. split; [exact B1|].
    intro Hn. cbn [eval eval_args]. rewrite (V1 (nstuck_bind_l _ _ Hn)). destruct (de ev a); reflexivity.
  - (* EBool: the first operand in the current block, the second inside `if (v)` / `if (!v)` *)
    apply andb_prop in Hb as [Hba Hbb]. destruct D as ((w & Dv) & Da & Df).
    set (v := ebo_name n) in *. set (n1 := S n + size a) in *.
    assert (Nva : ~ In v (vars a (S n))).
    { intro H. destruct (vars_shape a (S n) v Hba H) as (bb & i & E & L & F & R).
      unfold v, ebo_name in E. apply (nm_inj "bool_op" bb n i eq_refl L) in E. lia. }
    assert (Nvb : ~ In v (vars b n1)).
    { intro H. destruct (vars_shape b n1 v Hbb H) as (bb & i & E & L & F & R).
      unfold v, ebo_name in E. apply (nm_inj "bool_op" bb n i eq_refl L) in E. unfold n1 in R. lia. }
    assert (Nne : forall y, y <> v -> String.eqb y v = false).
    { intros y Hy. destruct (String.eqb y v) eqn:E; [apply String.eqb_eq in E; contradiction|reflexivity]. }
    unfold bo_lower, bo_first. cbn [bo_tail].
    change (SCons (SIf (bo_check ia v) (bo_operand v (tds b n1) (tss idiom b n1) (tc b n1)) None) SNil)
      with (one_stmt (SIf (bo_check ia v) (bo_operand v (tds b n1) (tss idiom b n1) (tc b n1)) None)).
    rewrite exec_stmts_app, exec_snoc.
    specialize (IHa (S n) st Hba Da).
    destruct (dstm ev a) as [[]|f|kk]; cbn [rbind]; [|rewrite IHa; reflexivity|exact I].
    destruct IHa as (st1 & E1 & M1 & R1 & U1 & B1 & V1). rewrite E1. cbn [rbind]. rewrite exec_set.
    destruct (de ev a) as [x|f|kk] eqn:Eda; cbn [rbind]; [|rewrite (V1 I); reflexivity|exact I].
    rewrite (V1 I). cbn [rbind].
    assert (Dv1 : fget v st1 = Some ("bool", w)) by (rewrite (U1 v Nva); exact Dv).
    destruct (assign_upd v (conv "bool" x) st1 "bool" w Dv1) as (Ha & Hlk & G2 & O2 & M2 & R2).
    rewrite Hlk. cbv zeta. rewrite Ha. cbn [rbind].
    set (st2 := upd v (conv "bool" x) st1) in *.
    rewrite exec_one, exec_if.
    destruct (truth (conv "bool" x)) as [t|f|kk] eqn:Et; cbn [rbind]; [|destruct (conv "bool" x); discriminate|exact I].
    pose proof (truth_conv_bool x t Et) as Ec.
    assert (G2' : fget v st2 = Some ("bool", VBool t)) by (rewrite G2, Ec; reflexivity).
    assert (Eg : rbind (eval ev st2 (bo_check ia v)) truth = ROk (Bool.eqb t ia)).
    { destruct ia; [rewrite (guard_and_value ev v st2 "bool" t (lookup_fget _ _ _ G2'))|rewrite (guard_or_value ev v st2 "bool" t (lookup_fget _ _ _ G2'))];
        destruct t; reflexivity. }
    destruct (eval ev st2 (bo_check ia v)) as [gv|f|kk]; cbn [rbind] in Eg |- *; try discriminate.
    rewrite Eg. cbn [rbind].
    destruct (Bool.eqb t ia) eqn:Eti.
    + (* the second operand is evaluated, inside its own block *)
      unfold bo_operand. rewrite exec_block_eq.
      destruct (decls_declared ev b n1 (enter [] st2) Hbb) as (st3 & E3 & D3 & M3 & R3 & U3).
      { intros y Hy. rewrite fget_enter by reflexivity. rewrite (O2 y (Nne y (fun E => Nvb (eq_ind y (fun z => In z (vars b n1)) Hy v E)))).
        rewrite U1; [apply Df, Hy|]. intro Hya. exact (vars_disjoint a b (S n) y Hba Hbb Hya Hy). }
      rewrite E3. cbn [rbind]. rewrite exec_snoc.
      specialize (IHb n1 st3 Hbb D3).
      destruct (dstm ev b) as [[]|f|kk]; cbn [rbind]; [|rewrite IHb; reflexivity|exact I].
      destruct IHb as (st4 & E4 & M4 & R4 & U4 & B4 & V4). rewrite E4. cbn [rbind]. rewrite exec_set.
      destruct (de ev b) as [y|f|kk] eqn:Edb; cbn [rbind]; [|rewrite (V4 I); reflexivity|exact I].
      rewrite (V4 I). cbn [rbind].
      assert (Dv4 : fget v st4 = Some ("bool", VBool t)).
      { rewrite (U4 v Nvb), (U3 v Nvb), fget_enter by reflexivity. exact G2'. }
      destruct (assign_upd v (conv "bool" y) st4 "bool" (VBool t) Dv4) as (Ha5 & Hlk5 & G5 & O5 & M5 & R5).
      rewrite Hlk5. cbv zeta. rewrite Ha5. cbn [rbind].
      set (st5 := upd v (conv "bool" y) st4) in *.
      (* the frame the block opened holds exactly the second operand's block-level names, and it is popped *)
      assert (Top5 : fnames (hd [] (frames st5)) = bvars b n1).
      { rewrite (shape_top st5 st4 (assign_shape _ _ _ _ Ha5)).
        rewrite (shape_top st4 st3 (proj2 (proj2 (exec_shape brs ev)) _ _ _ E4)).
        rewrite (run_decls_top ev (tds b n1) (enter [] st2) st3 ltac:(discriminate) E3). cbn [enter frames hd fnames map app]. apply tds_names. }
      assert (Pop : forall z, ~ In z (vars b n1) -> fget z (pop_frame st5) = fget z st5).
      { intros z Hz. apply fget_pop, frame_get_notin. rewrite Top5. intro Hb'. apply Hz, bvars_incl, Hb'. }
      assert (Back : forall z, ~ In z (vars b n1) -> z <> v -> fget z (pop_frame st5) = fget z st1).
      { intros z Hz Hzv. rewrite (Pop z Hz). rewrite (O5 z (Nne z Hzv)), (U4 z Hz), (U3 z Hz), fget_enter by reflexivity.
        apply (O2 z (Nne z Hzv)). }
      exists (pop_frame st5). split; [reflexivity|]. split; [|split; [|split; [|split]]].
      * cbn [pop_frame members]. rewrite M5, M4, M3. cbn [enter members]. rewrite M2. exact M1.
      * cbn [pop_frame rows]. rewrite R5, R4, R3. cbn [enter rows]. rewrite R2. exact R1.
      * intros z Hz.
        assert (Zv : z <> v) by (intro E; apply Hz; left; symmetry; exact E).
        assert (Za : ~ In z (vars a (S n))) by (intro H; apply Hz; right; apply in_or_app; left; exact H).
        assert (Zb : ~ In z (vars b n1)) by (intro H; apply Hz; right; apply in_or_app; right; exact H).
        rewrite (Back z Zb Zv). apply (U1 z Za).
      * intros z [E|Hz].
        -- rewrite <- E. fold v. rewrite (Pop v Nvb). rewrite G5. eauto.
        -- pose proof (bvars_incl a (S n) z Hz) as Hza.
           assert (Zb : ~ In z (vars b n1)) by (intro H; exact (vars_disjoint a b (S n) z Hba Hbb Hza H)).
           assert (Zv : z <> v) by (intro E; subst z; exact (Nva Hza)).
           rewrite (Back z Zb Zv). apply B1, Hz.
      * intro Hn. rewrite eval_var. rewrite (lookup_fget _ _ _ (eq_trans (Pop v Nvb) G5)).
        unfold rdv in *. destruct (conv "bool" y); try reflexivity. destruct Hn.
    + (* the first operand decides: the second one's code is not run *)
      exists st2. split; [reflexivity|]. split; [rewrite M2; exact M1|]. split; [rewrite R2; exact R1|]. split; [|split].
      * intros z Hz.
        assert (Zv : z <> v) by (intro E; apply Hz; left; symmetry; exact E).
        assert (Za : ~ In z (vars a (S n))) by (intro H; apply Hz; right; apply in_or_app; left; exact H).
        rewrite (O2 z (Nne z Zv)). apply (U1 z Za).
      * intros z [E|Hz]; [rewrite <- E; fold v; rewrite G2'; eauto|].
        pose proof (bvars_incl a (S n) z Hz) as Hza.
        assert (Zv : z <> v) by (intro E; subst z; exact (Nva Hza)).
        rewrite (O2 z (Nne z Zv)). apply B1, Hz.
      * intros _. rewrite eval_var, (lookup_fget _ _ _ G2'), Ec. reflexivity.
  - (* EIf: the test in the current block, each arm inside its own branch *)
    apply andb_prop in Hb as [Hb Hb3]. apply andb_prop in Hb as [Hb1 Hb2]. destruct D as ((w & Dv) & Dc & Df).
    set (v := eif_name n) in *. set (n1 := S n + size c0) in *. set (n2 := n1 + size a) in *.
    assert (Nv : forall (e : ex) (m : nat), bases_ok e = true -> S n <= m -> ~ In v (vars e m)).
    { intros e m He Hm H. destruct (vars_shape e m v He H) as (bb & i & E & L & F & R).
      unfold v, eif_name in E. apply (nm_inj "if_else_result" bb n i eq_refl L) in E. lia. }
    assert (Ncb : forall x, In x (vars c0 (S n)) -> In x (vars b n2) -> False).
    { intros x Hxc Hxb. destruct (vars_shape c0 (S n) x Hb1 Hxc) as (b1 & i & E1' & L1 & _ & R1').
      destruct (vars_shape b n2 x Hb3 Hxb) as (b2 & j & E2' & L2 & _ & R2').
      subst x. apply (nm_inj b1 b2 i j L1 L2) in E2'. unfold n2, n1 in R2'. lia. }
    assert (Nab : forall x, In x (vars a n1) -> In x (vars b n2) -> False) by (intros x; apply (vars_disjoint a b n1 x Hb2 Hb3)).
    assert (Nca : forall x, In x (vars c0 (S n)) -> In x (vars a n1) -> False) by (intros x; apply (vars_disjoint c0 a (S n) x Hb1 Hb2)).
    rewrite exec_snoc.
    specialize (IHc (S n) st Hb1 Dc).
    destruct (dstm ev c0) as [[]|f|kk]; cbn [rbind]; [|rewrite IHc; reflexivity|exact I].
    destruct IHc as (st1 & E1 & M1 & R1 & U1 & B1 & V1). rewrite E1. cbn [rbind]. rewrite exec_if.
    destruct (de ev c0) as [x|f|kk] eqn:Edc; cbn [rbind]; [|rewrite (V1 I); reflexivity|exact I].
    rewrite (V1 I). cbn [rbind].
    assert (Dv1 : fget v st1 = Some ("double", w)) by (rewrite (U1 v (Nv c0 (S n) Hb1 (le_n _))); exact Dv).
    destruct (truth x) as [t|f|kk]; cbn [rbind]; [|reflexivity|exact I].
    destruct t.
    + assert (Fresh : forall z, In z (vars a n1) -> fget z st1 = None).
      { intros z Hz. rewrite (U1 z (fun H => Nca z H Hz)). apply Df, in_or_app. left; exact Hz. }
      pose proof (arm_exec brs ev idiom a n1 v "double" (arm_cast a) w st1 (fun s0 D0 => IHa n1 s0 Hb2 D0) Hb2
                           (Nv a n1 Hb2 ltac:(unfold n1; lia)) Dv1 Fresh) as A. cbv zeta in A.
      destruct (dstm ev a) as [[]|f|kk]; cbn [rbind]; [|exact A|exact I].
      destruct (de ev a) as [y|f|kk] eqn:Eda; cbn [rbind]; [|exact A|exact I].
      destruct A as (st6 & E6 & M6 & R6 & O6 & G6).
      exists st6. split; [exact E6|]. split; [congruence|]. split; [congruence|]. split; [|split].
      * intros z Hz.
        assert (Zv : z <> v) by (intro E; apply Hz; left; symmetry; exact E).
        assert (Zc : ~ In z (vars c0 (S n))) by (intro H; apply Hz; right; apply in_or_app; left; exact H).
        assert (Za : ~ In z (vars a n1)) by (intro H; apply Hz; right; apply in_or_app; right; apply in_or_app; left; exact H).
        rewrite (O6 z Za Zv). apply (U1 z Zc).
      * intros z [E|Hz]; [rewrite <- E; fold v; rewrite G6; eauto|].
        pose proof (bvars_incl c0 (S n) z Hz) as Hzc.
        rewrite (O6 z (fun H => Nca z Hzc H) (fun E => Nv c0 (S n) Hb1 (le_n _) (eq_ind z (fun u => In u (vars c0 (S n))) Hzc v E))).
        apply B1, Hz.
      * intro Hn. rewrite eval_var, (lookup_fget _ _ _ G6). unfold arm_cast.
        destruct (String.eqb (ex_type a) "double"); rewrite ?conv_double_idem; unfold rdv in *;
          destruct (conv "double" y); try reflexivity; destruct Hn.
    + assert (Fresh : forall z, In z (vars b n2) -> fget z st1 = None).
      { intros z Hz. rewrite (U1 z (fun H => Ncb z H Hz)). apply Df, in_or_app. right; exact Hz. }
      pose proof (arm_exec brs ev idiom b n2 v "double" (arm_cast b) w st1 (fun s0 D0 => IHb n2 s0 Hb3 D0) Hb3
                           (Nv b n2 Hb3 ltac:(unfold n2, n1; lia)) Dv1 Fresh) as A. cbv zeta in A.
      destruct (dstm ev b) as [[]|f|kk]; cbn [rbind]; [|exact A|exact I].
      destruct (de ev b) as [y|f|kk] eqn:Edb; cbn [rbind]; [|exact A|exact I].
      destruct A as (st6 & E6 & M6 & R6 & O6 & G6).
      exists st6. split; [exact E6|]. split; [congruence|]. split; [congruence|]. split; [|split].
      * intros z Hz.
        assert (Zv : z <> v) by (intro E; apply Hz; left; symmetry; exact E).
        assert (Zc : ~ In z (vars c0 (S n))) by (intro H; apply Hz; right; apply in_or_app; left; exact H).
        assert (Zb : ~ In z (vars b n2)) by (intro H; apply Hz; right; apply in_or_app; right; apply in_or_app; right; exact H).
        rewrite (O6 z Zb Zv). apply (U1 z Zc).
      * intros z [E|Hz]; [rewrite <- E; fold v; rewrite G6; eauto|].
        pose proof (bvars_incl c0 (S n) z Hz) as Hzc.
        rewrite (O6 z (fun H => Ncb z Hzc H) (fun E => Nv c0 (S n) Hb1 (le_n _) (eq_ind z (fun u => In u (vars c0 (S n))) Hzc v E))).
        apply B1, Hz.
      * intro Hn. rewrite eval_var, (lookup_fget _ _ _ G6). unfold arm_cast.
        destruct (String.eqb (ex_type b) "double"); rewrite ?conv_double_idem; unfold rdv in *;
          destruct (conv "double" y); try reflexivity; destruct Hn.
Qed.

(* ---------- the whole program ---------- *)
Lemma frames_set_None (x : string) (v : value) (fs : list frame) : frames_get x fs = None -> frames_set x v fs = None.
Proof.
  induction fs as [|f r IH]; cbn [frames_get frames_set]; intro H; [reflexivity|].
  destruct (frame_get x f) eqn:E; [discriminate|]. rewrite (frame_set_None x v f E), (IH H). reflexivity.
Qed.

Lemma col_not_var (e : ex) (n m : nat) : bases_ok e = true -> ~ In (col_name m) (vars e n).
Proof.
  intros Hb Hin. destruct (vars_shape e n _ Hb Hin) as (b & i & E & _ & F & _).
  pose proof (nm_first b i F) as H. rewrite <- E in H. discriminate H.
Qed.

Theorem frag_correct (bk : backend) (e : ex) (n0 : nat) (ev : event) (ms : frame) (old : value) :
  bases_ok e = true ->
  frame_get (col_name (n0 + size e)) ms = Some (ex_type e, old) ->
  match dex ev e with
  | ROk v => exists ms', run_event (prog bk e n0) ms ev = ROk ([[conv (ex_type e) v]], ms') /\
                         frame_get (col_name (n0 + size e)) ms' = Some (ex_type e, conv (ex_type e) v)
  | RFault f => run_event (prog bk e n0) ms ev = RFault f
  | RStuck _ => True
  end.
Proof.
  intros Hb Hcol. unfold dex.
  unfold prog. rewrite te_split. unfold run_event. cbn [p_body p_branches].
  set (col := col_name (n0 + size e)) in *.
  set (brs := [{| br_name := "col1"; br_var := col |}]).
  rewrite exec_block_eq.
  set (st0 := enter [] {| frames := []; members := ms; rows := [] |}).
  destruct (decls_declared ev e n0 st0 Hb) as (st1 & E1 & D1 & M1 & R1 & U1); [intros x _; reflexivity|].
  rewrite E1. cbn [rbind]. rewrite exec_stmts_app.
  pose proof (te_exec brs ev (b_idiom bk) e n0 st1 Hb D1) as T.
  destruct (dstm ev e) as [[]|f|k]; cbn [rbind]; [|rewrite T; reflexivity|exact I].
  destruct T as (st2 & E2 & M2 & R2 & U2 & B2 & V2).
  rewrite E2. cbn [rbind]. rewrite exec_stmts_cons, exec_set.
  destruct (de ev e) as [v|f|k] eqn:Ed; [|rewrite (V2 I); reflexivity|exact I].
  - rewrite (V2 I). cbn [rbind].
    assert (Fc : fget col st2 = None).
    { rewrite U2, U1; [reflexivity| |]; apply col_not_var, Hb. }
    assert (Lc : lookup col st2 = Some (ex_type e, old)).
    { unfold lookup. unfold fget in Fc. rewrite Fc, M2, M1. exact Hcol. }
    rewrite Lc.
    destruct (frame_set_spec col (conv (ex_type e) v) ms (ex_type e) old Hcol) as (ms' & Hs' & Hg' & _).
    assert (As : assign col (conv (ex_type e) v) st2 = Some {| frames := frames st2; members := ms'; rows := rows st2 |}).
    { unfold assign. unfold fget in Fc. rewrite (frames_set_None _ _ _ Fc), M2, M1. cbn [members st0 enter]. rewrite Hs'. reflexivity. }
    rewrite As. cbn [rbind]. rewrite exec_one. cbn [exec_stmt rbind pop_frame frames members rows fill_row map br_var].
    exists ms'. split; [|exact Hg']. rewrite R2, R1. unfold fill_row, brs. cbn [map br_var members rows st0 enter app].
    rewrite Hg'. reflexivity.
Qed.

(* when every predicate evaluation succeeds, the streaming Count is the length of the filtered list *)
Lemma count_is_filter_length (ev : event) (ps : guard) (f : value -> bool) (l : list value) : forall a,
  passes_total ev ps l f ->
  agg_loop ev "int" ACount ps l (VInt a) = ROk (VInt (a + Z.of_nat (List.length (filter f l))))%Z.
Proof.
  induction l as [|v r IH]; intros a H; cbn [agg_loop filter List.length].
  - do 2 f_equal. lia.
  - rewrite (H v (or_introl eq_refl)). cbn [rbind].
    assert (Hr : passes_total ev ps r f) by (intros w Hw; apply H; right; exact Hw).
    destruct (f v); cbn [List.length].
    + change (agg_step ev "int" ACount (VInt a) v) with (ROk (VInt (a + 1))). cbn [rbind].
      rewrite (IH _ Hr). do 2 f_equal. lia.
    + rewrite (IH _ Hr). reflexivity.
Qed.

(* ================================================================================================ *)
(* rows: several columns, vector columns                                                            *)
(* ================================================================================================ *)
Definition mget (x : string) (st : state) : option (string * value) := frame_get x (members st).
Definition updm (x : string) (v : value) (st : state) : state :=
  match frame_set x v (members st) with
  | Some m => {| frames := frames st; members := m; rows := rows st |}
  | None => st
  end.

Lemma assign_updm (x : string) (v : value) (st : state) (t : string) (old : value) :
  fget x st = None -> mget x st = Some (t, old) ->
  assign x v st = Some (updm x v st) /\ lookup x st = Some (t, old) /\
  mget x (updm x v st) = Some (t, v) /\
  (forall y, String.eqb y x = false -> mget y (updm x v st) = mget y st) /\
  frames (updm x v st) = frames st /\ rows (updm x v st) = rows st.
Proof.
  unfold fget, mget, assign, updm, lookup. intros Hf Hm.
  rewrite (frames_set_None x v _ Hf), Hf.
  destruct (frame_set_spec x v (members st) t old Hm) as (m' & Hs & Hg & Ho). rewrite Hs. cbn.
  repeat split; auto.
Qed.

Lemma fget_updm (y x : string) (v : value) (st : state) : fget y (updm x v st) = fget y st.
Proof. unfold fget, updm. destruct (frame_set x v (members st)); reflexivity. Qed.
Lemma mget_upd (y x : string) (v : value) (st : state) : mget y (upd x v st) = mget y st.
Proof. unfold mget, upd. destruct (frames_set x v (frames st)); reflexivity. Qed.
Lemma mget_enter (y : string) (pre : frame) (st : state) : mget y (enter pre st) = mget y st.
Proof. reflexivity. Qed.
Lemma updm_enter (x : string) (v : value) (pre : frame) (st : state) : updm x v (enter pre st) = enter pre (updm x v st).
Proof. unfold updm, enter. cbn [members]. destruct (frame_set x v (members st)); reflexivity. Qed.

Lemma frame_set_twice (x : string) (v w : value) (f f1 : frame) :
  frame_set x v f = Some f1 -> frame_set x w f1 = frame_set x w f.
Proof.
  revert f1. induction f as [|[y [ty u]] q IH]; cbn [frame_set]; intros f1 E; [discriminate|].
  destruct (String.eqb x y) eqn:Exy.
  - inversion E; subst. cbn [frame_set]. rewrite Exy. reflexivity.
  - destruct (frame_set x v q) as [q1|] eqn:Eq; [|discriminate]. inversion E; subst. cbn [frame_set]. rewrite Exy.
    rewrite (IH q1 eq_refl). reflexivity.
Qed.

Lemma updm_updm (x : string) (v w : value) (st : state) (t : string) (old : value) :
  mget x st = Some (t, old) -> updm x w (updm x v st) = updm x w st.
Proof.
  unfold mget, updm. intro H.
  destruct (frame_set_spec x v (members st) t old H) as (m1 & Hs1 & _). rewrite Hs1. cbn [members frames rows].
  rewrite (frame_set_twice x v w _ _ Hs1).
  destruct (frame_set_spec x w (members st) t old H) as (m2 & Hs2 & _). rewrite Hs2. reflexivity.
Qed.

Lemma updm_same (x : string) (v : value) (st : state) (t : string) : mget x st = Some (t, v) -> updm x v st = st.
Proof.
  unfold mget, updm. intro H.
  assert (B : frame_set x v (members st) = Some (members st)).
  { revert H. induction (members st) as [|[y [ty u]] q IHf]; cbn [frame_get frame_set]; intro H; [discriminate|].
    destruct (String.eqb x y) eqn:Exy; [inversion H; subst; reflexivity|]. rewrite (IHf H). reflexivity. }
  rewrite B. destruct st; reflexivity.
Qed.

Lemma vec_elem_type (a : bexp) : vector_elem_type (vec_type (btype a)) = btype a.
Proof. destruct (btype_cases a) as [E|E]; rewrite E; reflexivity. Qed.
Lemma vec_is_vector (a : bexp) : is_vector_type (vec_type (btype a)) = true.
Proof. destruct (btype_cases a) as [E|E]; rewrite E; reflexivity. Qed.

(* ---------- one vector column ---------- *)
Lemma updm_istate (g : guard) (n : nat) (iv : string) (v : value) (T : frame) (st : state) (x : string) (a : value) :
  updm x a (istate g n iv v T st) = istate g n iv v T (updm x a st).
Proof. destruct g; cbn [istate]; rewrite ?updm_enter; reflexivity. Qed.
Lemma mget_istate (g : guard) (n : nat) (iv : string) (v : value) (T : frame) (st : state) (x : string) :
  mget x (istate g n iv v T st) = mget x st.
Proof. destruct g; reflexivity. Qed.

(* mem.push_back(E), for any expression E whose value in the state is known *)
Lemma exec_push (brs : list branch) (ev : event) (mem ty : string) (E : cexp) (R : res value) (s : state) (acc : list value) :
  fget mem s = None -> mget mem s = Some (vec_type ty, VVec acc) -> vector_elem_type (vec_type ty) = ty -> eval ev s E = R ->
  exec_stmt brs ev (SPush mem None E) s =
  match R with
  | ROk x => ROk (updm mem (VVec (acc ++ [conv ty x])) s)
  | RFault f => RFault f
  | RStuck k => RStuck k
  end.
Proof.
  intros Hf Hm Hty He. cbn [exec_stmt]. rewrite He.
  destruct R as [x|f|k]; cbn [rbind]; try reflexivity.
  destruct (assign_updm mem (VVec (acc ++ [conv ty x])) s _ _ Hf Hm) as (Ha & Hlk & _).
  rewrite Hlk. rewrite Hty. rewrite Ha. reflexivity.
Qed.

Lemma loop_push (brs : list branch) (ev : event) (iv : string) (ar : bool) (mem : string) (body : bexp) (ps : guard) (n m : nat) (l : list value) :
  forall (st : state) (acc : list value),
  fget mem st = None -> String.eqb mem iv = false -> String.eqb mem (bo_name n) = false ->
  (forall j, String.eqb mem (if_name j) = false) -> (forall j, String.eqb (if_name j) iv = false) ->
  String.eqb iv (bo_name n) = false -> String.eqb (bo_name n) iv = false ->
  mget mem st = Some (vec_type (btype body), VVec acc) ->
  nstuck (vec_loop ev (btype body) body ps l acc) ->
  for_loop brs ev iv (loop_block iv ar ps n (bdecls body m) (app_stmts (bpre iv ar body m) (one_stmt (SPush mem None (bx iv ar body m))))) l st =
  match vec_loop ev (btype body) body ps l acc with
  | ROk vs => ROk (updm mem (VVec vs) st)
  | RFault f => RFault f
  | RStuck k => RStuck k
  end.
Proof.
  induction l as [|v r IH]; intros st acc Hf Hne Hnb Hnf Hifiv Hib Hbi Hm Hn.
  - cbn [vec_loop]. rewrite for_loop_nil. rewrite (updm_same mem _ st _ Hm). reflexivity.
  - cbn [vec_loop] in *. rewrite for_loop_cons.
    rewrite (loop_block_exec brs ev iv ar ps n _ _ v st (bdecls_free body m) Hib Hbi (nstuck_bind_l _ _ Hn)).
    destruct (gpasses ev v ps) as [b|f|k]; cbn [rbind] in *; [|reflexivity|destruct Hn].
    destruct b; cbn [rbind]; [|apply (IH st acc Hf Hne Hnb Hnf Hifiv Hib Hbi Hm Hn)].
    rewrite exec_stmts_app.
    pose proof (body_ready brs ev ps n iv ar v st body m Hifiv) as B.
    unfold db in Hn |- *.
    destruct (dconds ev v body) as [rs|f|k]; cbn [rbind] in *; [|rewrite B; reflexivity|destruct Hn].
    destruct B as (T' & E & Hiv' & Hoth & Hev). rewrite E. cbn [rbind]. rewrite exec_one.
    set (S1 := istate ps n iv v T' st).
    assert (Hf1 : fget mem S1 = None) by (unfold S1; rewrite istate_fget_other; [exact Hf|exact Hne|exact Hnb|apply Hoth, Hnf]).
    assert (Hm1 : mget mem S1 = Some (vec_type (btype body), VVec acc)) by (unfold S1; rewrite mget_istate; exact Hm).
    assert (HnR : nstuck (dbx ev v body rs)) by (destruct (dbx ev v body rs); [exact I|exact I|destruct Hn]).
    rewrite (exec_push brs ev mem (btype body) _ (dbx ev v body rs) S1 acc Hf1 Hm1 (vec_elem_type body) (Hev HnR)).
    destruct (dbx ev v body rs) as [x|f|k] eqn:Ex; cbn [rbind] in *; [|reflexivity|destruct Hn].
    unfold S1. rewrite updm_istate, ipop_istate.
    destruct (assign_updm mem (VVec (acc ++ [conv (btype body) x])) st _ _ Hf Hm) as (_ & _ & Hm2 & _).
    rewrite (IH _ _ (eq_trans (fget_updm _ _ _ _) Hf) Hne Hnb Hnf Hifiv Hib Hbi Hm2 Hn).
    destruct (vec_loop ev (btype body) body ps r (acc ++ [conv (btype body) x])) as [vs|f|k]; try reflexivity.
    rewrite (updm_updm mem _ _ st _ _ Hm). reflexivity.
Qed.

(* ---------- a 2-D column: one vector per passing element of an outer collection ---------- *)
Lemma vec_elem_type2 (a : bexp) : vector_elem_type (vec_type (vec_type (btype a))) = vec_type (btype a).
Proof. destruct (btype_cases a) as [E|E]; rewrite E; reflexivity. Qed.
Lemma conv_vec_id (a : bexp) (vs : list value) : conv (vec_type (btype a)) (VVec vs) = VVec vs.
Proof. destruct (btype_cases a) as [E|E]; rewrite E; reflexivity. Qed.
Lemma default_vec (a : bexp) : default_value (vec_type (btype a)) = VVec [].
Proof. unfold default_value. rewrite vec_is_vector. reflexivity. Qed.

(* nt.push_back(E) for a vector declared in the frames *)
Lemma exec_push_frame (brs : list branch) (ev : event) (nt ty : string) (E : cexp) (R : res value) (s : state) (acc : list value) :
  fget nt s = Some (vec_type ty, VVec acc) -> vector_elem_type (vec_type ty) = ty -> eval ev s E = R ->
  exec_stmt brs ev (SPush nt None E) s =
  match R with
  | ROk x => ROk (upd nt (VVec (acc ++ [conv ty x])) s)
  | RFault f => RFault f
  | RStuck k => RStuck k
  end.
Proof.
  intros Hg Hty He. cbn [exec_stmt]. rewrite He.
  destruct R as [x|f|k]; cbn [rbind]; try reflexivity.
  destruct (assign_upd nt (VVec (acc ++ [conv ty x])) s _ _ Hg) as (Ha & Hlk & _).
  rewrite Hlk. rewrite Hty. rewrite Ha. reflexivity.
Qed.

Lemma loop_push_frame (brs : list branch) (ev : event) (iv : string) (ar : bool) (nt : string) (body : bexp) (ps : guard) (n m : nat) (l : list value) :
  forall (st : state) (acc : list value),
  fget nt st = Some (vec_type (btype body), VVec acc) -> String.eqb nt iv = false -> String.eqb nt (bo_name n) = false ->
  (forall j, String.eqb nt (if_name j) = false) -> (forall j, String.eqb (if_name j) iv = false) ->
  String.eqb iv (bo_name n) = false -> String.eqb (bo_name n) iv = false ->
  nstuck (vec_loop ev (btype body) body ps l acc) ->
  for_loop brs ev iv (loop_block iv ar ps n (bdecls body m) (app_stmts (bpre iv ar body m) (one_stmt (SPush nt None (bx iv ar body m))))) l st =
  match vec_loop ev (btype body) body ps l acc with
  | ROk vs => ROk (upd nt (VVec vs) st)
  | RFault f => RFault f
  | RStuck k => RStuck k
  end.
Proof.
  induction l as [|v r IH]; intros st acc Hg Hne Hnb Hnf Hifiv Hib Hbi Hn.
  - cbn [vec_loop]. rewrite for_loop_nil. rewrite (upd_same nt _ st _ Hg). reflexivity.
  - cbn [vec_loop] in *. rewrite for_loop_cons.
    rewrite (loop_block_exec brs ev iv ar ps n _ _ v st (bdecls_free body m) Hib Hbi (nstuck_bind_l _ _ Hn)).
    destruct (gpasses ev v ps) as [b|f|k]; cbn [rbind] in *; [|reflexivity|destruct Hn].
    destruct b; cbn [rbind]; [|apply (IH st acc Hg Hne Hnb Hnf Hifiv Hib Hbi Hn)].
    rewrite exec_stmts_app.
    pose proof (body_ready brs ev ps n iv ar v st body m Hifiv) as B.
    unfold db in Hn |- *.
    destruct (dconds ev v body) as [rs|f|k]; cbn [rbind] in *; [|rewrite B; reflexivity|destruct Hn].
    destruct B as (T' & E & Hiv' & Hoth & Hev). rewrite E. cbn [rbind]. rewrite exec_one.
    set (S1 := istate ps n iv v T' st).
    assert (Hg1 : fget nt S1 = Some (vec_type (btype body), VVec acc)) by (unfold S1; rewrite istate_fget_other; [exact Hg|exact Hne|exact Hnb|apply Hoth, Hnf]).
    assert (HnR : nstuck (dbx ev v body rs)) by (destruct (dbx ev v body rs); [exact I|exact I|destruct Hn]).
    rewrite (exec_push_frame brs ev nt (btype body) _ (dbx ev v body rs) S1 acc Hg1 (vec_elem_type body) (Hev HnR)).
    destruct (dbx ev v body rs) as [x|f|k] eqn:Ex; cbn [rbind] in *; [|reflexivity|destruct Hn].
    unfold S1. rewrite (upd_istate_other ps n iv v T' st nt _ _ _ Hne Hnb (Hoth nt Hnf) Hg). rewrite ipop_istate.
    destruct (assign_upd nt (VVec (acc ++ [conv (btype body) x])) st _ _ Hg) as (_ & _ & Hg2 & _).
    rewrite (IH _ _ Hg2 Hne Hnb Hnf Hifiv Hib Hbi Hn).
    destruct (vec_loop ev (btype body) body ps r (acc ++ [conv (btype body) x])) as [vs|f|k]; try reflexivity.
    rewrite (upd_upd nt _ _ st _ _ Hg). reflexivity.
Qed.

Lemma tvec2_decls_free (c2 : collref) (body : bexp) (nt : string) (m : nat) : init_free (tvec2_decls c2 body nt m).
Proof. repeat constructor. Qed.

(* the outer loop of a 2-D column *)
Lemma loop_vec2 (brs : list branch) (ev : event) (idiom : string) (ar1 : bool) (g1 : guard) (c2 : collref) (g2 : guard) (body : bexp)
      (mem nt : string) (n : nat) (l : list value) :
  forall (st : state) (acc : list value),
  fget mem st = None -> mget mem st = Some (vec_type (vec_type (btype body)), VVec acc) ->
  String.eqb mem (iv_name n) = false -> String.eqb mem (bo_name n) = false ->
  String.eqb mem (vcv_name c2 (c2_at n g1)) = false -> String.eqb mem nt = false ->
  String.eqb nt (vcv_name c2 (c2_at n g1)) = false ->
  String.eqb nt (iv_name n) = false -> String.eqb (vcv_name c2 (c2_at n g1)) (iv_name n) = false ->
  String.eqb nt (iv_name (c2_at n g1)) = false -> String.eqb nt (bo_name (c2_at n g1)) = false ->
  (forall j, String.eqb nt (if_name j) = false) ->
  nstuck (vec2_loop ev g1 c2 g2 body l acc) ->
  for_loop brs ev (iv_name n) (loop_block (iv_name n) ar1 g1 n (tvec2_decls c2 body nt (c2_at n g1))
                                          (tvec2_inner idiom c2 g2 body mem nt (c2_at n g1))) l st =
  match vec2_loop ev g1 c2 g2 body l acc with
  | ROk vs => ROk (updm mem (VVec vs) st)
  | RFault f => RFault f
  | RStuck k => RStuck k
  end.
Proof.
  set (m := c2_at n g1). set (c2v := vcv_name c2 m). set (ty := btype body).
  assert (Hib : String.eqb (iv_name n) (bo_name n) = false) by (apply nm_neq; [reflexivity|reflexivity|lia]).
  assert (Hbi : String.eqb (bo_name n) (iv_name n) = false) by (apply nm_neq; [reflexivity|reflexivity|lia]).
  assert (Hib2 : String.eqb (iv_name m) (bo_name m) = false) by (apply nm_neq; [reflexivity|reflexivity|lia]).
  assert (Hbi2 : String.eqb (bo_name m) (iv_name m) = false) by (apply nm_neq; [reflexivity|reflexivity|lia]).
  assert (Hifiv2 : forall j, String.eqb (if_name j) (iv_name m) = false) by (intro j; apply nm_neq_base; [reflexivity|reflexivity|discriminate]).
  induction l as [|v r IH]; intros st acc Hf Hm Hmiv Hmbo Hmc Hmnt Hntc Hntiv Hciv Hntiv2 Hntbo2 Hntif Hn.
  - cbn [vec2_loop]. rewrite for_loop_nil. rewrite (updm_same mem _ st _ Hm). reflexivity.
  - cbn [vec2_loop] in *. rewrite for_loop_cons.
    rewrite (loop_block_exec brs ev (iv_name n) ar1 g1 n _ _ v st (tvec2_decls_free c2 body nt m) Hib Hbi (nstuck_bind_l _ _ Hn)).
    destruct (gpasses ev v g1) as [b|f|k]; cbn [rbind] in *; [|reflexivity|destruct Hn].
    destruct b; cbn [rbind]; [|apply (IH st acc Hf Hm Hmiv Hmbo Hmc Hmnt Hntc Hntiv Hciv Hntiv2 Hntbo2 Hntif Hn)].
    (* the block of the outer element: the second collection and the local vector are declared in its frame *)
    set (T0 := dframe (tvec2_decls c2 body nt m)).
    assert (Hcn : String.eqb c2v nt = false) by (rewrite String.eqb_sym; exact Hntc).
    assert (T0c : frame_get c2v T0 = Some (c_ctype c2, default_value (c_ctype c2))).
    { unfold T0, tvec2_decls, dframe. cbn [map d_name d_type frame_get]. fold c2v. rewrite String.eqb_refl. reflexivity. }
    assert (T0n : frame_get nt T0 = Some (vec_type ty, VVec [])).
    { unfold T0, tvec2_decls, dframe. cbn [map d_name d_type frame_get]. fold c2v. rewrite Hntc, String.eqb_refl.
      unfold ty. rewrite default_vec. reflexivity. }
    assert (T0m : frame_get mem T0 = None).
    { unfold T0, tvec2_decls, dframe. cbn [map d_name d_type frame_get]. fold c2v. fold m in Hmc. fold c2v in Hmc. rewrite Hmc, Hmnt. reflexivity. }
    unfold tvec2_inner. rewrite exec_stmts_cons. cbn [exec_stmt].
    unfold dvec_of in Hn |- *.
    destruct (assoc_ss (c_ctype c2, c_bank c2) (ev_colls ev)) as [cval|]; [|reflexivity].
    set (S0 := istate g1 n (iv_name n) v T0 st).
    assert (Hc0 : fget c2v S0 = Some (c_ctype c2, default_value (c_ctype c2))) by (apply istate_fget_T; [exact Hciv|exact T0c]).
    destruct (assign_upd c2v cval S0 _ _ Hc0) as (Has & _ & _).
    fold c2v. rewrite Has. cbn [rbind].
    unfold S0. rewrite (upd_istate_T g1 n (iv_name n) v T0 st c2v cval _ _ Hciv T0c).
    destruct (fset_spec c2v cval T0 _ _ T0c) as (_ & T1c & T1o).
    set (T1 := fset c2v cval T0) in *.
    set (S1 := istate g1 n (iv_name n) v T1 st).
    assert (Hc1 : fget c2v S1 = Some (c_ctype c2, cval)) by (apply istate_fget_T; [exact Hciv|exact T1c]).
    assert (Hn1 : fget nt S1 = Some (vec_type ty, VVec [])) by (apply istate_fget_T; [exact Hntiv|rewrite (T1o nt Hntc); exact T0n]).
    rewrite exec_stmts_cons. unfold tvec_loop. rewrite exec_for.
    change (eval ev S1 (CDeref (CVar (vcv_name c2 m))))
      with (rbind (eval ev S1 (CVar c2v)) (fun x => match x with VNull => RFault FNullDeref | _ => ROk x end)).
    rewrite eval_var, (lookup_fget _ _ _ Hc1).
    destruct cval as [z0|q0|b0|o0| |l2|s0|f0 a0| ]; cbn [rbind] in *; try (destruct Hn; fail); try reflexivity.
    fold ty in Hn |- *.
    assert (Hn2 : nstuck (vec_loop ev ty body g2 l2 [])) by (apply (nstuck_bind_l _ _ (nstuck_bind_l _ _ Hn))).
    rewrite (loop_push_frame brs ev (iv_name m) (c_arrow c2) nt body g2 m (m + gsize g2) l2 S1 [] Hn1 Hntiv2 Hntbo2 Hntif Hifiv2 Hib2 Hbi2 Hn2).
    fold ty.
    destruct (vec_loop ev ty body g2 l2 []) as [vs|f|k]; cbn [rbind] in *; [|reflexivity|destruct Hn].
    unfold S1. rewrite (upd_istate_T g1 n (iv_name n) v T1 st nt (VVec vs) _ _ Hntiv (eq_trans (T1o nt Hntc) T0n)).
    destruct (fset_spec nt (VVec vs) T1 _ _ (eq_trans (T1o nt Hntc) T0n)) as (_ & T2n & T2o).
    set (T2 := fset nt (VVec vs) T1) in *.
    set (S2 := istate g1 n (iv_name n) v T2 st).
    rewrite exec_one.
    assert (Hf2 : fget mem S2 = None).
    { unfold S2. rewrite istate_fget_other; [exact Hf|exact Hmiv|exact Hmbo|]. unfold T2, T1. apply fset_none, fset_none. exact T0m. }
    assert (Hm2 : mget mem S2 = Some (vec_type (vec_type ty), VVec acc)) by (unfold S2; rewrite mget_istate; exact Hm).
    assert (He2 : eval ev S2 (CVar nt) = ROk (VVec vs)).
    { rewrite eval_var. rewrite (lookup_fget nt S2 (vec_type ty, VVec vs)); [reflexivity|]. apply istate_fget_T; [exact Hntiv|exact T2n]. }
    rewrite (exec_push brs ev mem (vec_type ty) (CVar nt) (ROk (VVec vs)) S2 acc Hf2 Hm2 (vec_elem_type2 body) He2).
    cbn [rbind]. unfold ty. rewrite conv_vec_id. fold ty.
    unfold c2v. fold (tvec_loop c2 g2 body nt m). fold (tvec2_inner idiom c2 g2 body mem nt m).
    unfold S2. rewrite updm_istate, ipop_istate.
    destruct (assign_updm mem (VVec (acc ++ [VVec vs])) st _ _ Hf Hm) as (_ & _ & Hm3 & _).
    rewrite (IH _ _ (eq_trans (fget_updm _ _ _ _) Hf) Hm3 Hmiv Hmbo Hmc Hmnt Hntc Hntiv Hciv Hntiv2 Hntbo2 Hntif Hn).
    destruct (vec2_loop ev g1 c2 g2 body r (acc ++ [VVec vs])) as [ws|f|k]; try reflexivity.
    rewrite (updm_updm mem _ _ st _ _ Hm). reflexivity.
Qed.

(* the outer loop of a flattened column: the inner loop pushes onto the column itself *)
Lemma loop_flat (brs : list branch) (ev : event) (idiom : string) (ar1 : bool) (g1 : guard) (c2 : collref) (g2 : guard) (body : bexp)
      (mem : string) (n : nat) (l : list value) :
  forall (st : state) (acc : list value),
  fget mem st = None -> mget mem st = Some (vec_type (btype body), VVec acc) ->
  String.eqb mem (iv_name n) = false -> String.eqb mem (bo_name n) = false ->
  String.eqb mem (vcv_name c2 (c2_at n g1)) = false ->
  String.eqb (vcv_name c2 (c2_at n g1)) (iv_name n) = false ->
  String.eqb mem (iv_name (c2_at n g1)) = false -> String.eqb mem (bo_name (c2_at n g1)) = false ->
  (forall j, String.eqb mem (if_name j) = false) ->
  nstuck (flat_loop ev g1 c2 g2 body l acc) ->
  for_loop brs ev (iv_name n) (loop_block (iv_name n) ar1 g1 n [{| d_type := c_ctype c2; d_name := vcv_name c2 (c2_at n g1); d_init := None |}]
                                          (tflat_inner idiom c2 g2 body mem (c2_at n g1))) l st =
  match flat_loop ev g1 c2 g2 body l acc with
  | ROk vs => ROk (updm mem (VVec vs) st)
  | RFault f => RFault f
  | RStuck k => RStuck k
  end.
Proof.
  set (m := c2_at n g1). set (c2v := vcv_name c2 m). set (ty := btype body).
  assert (Hib : String.eqb (iv_name n) (bo_name n) = false) by (apply nm_neq; [reflexivity|reflexivity|lia]).
  assert (Hbi : String.eqb (bo_name n) (iv_name n) = false) by (apply nm_neq; [reflexivity|reflexivity|lia]).
  assert (Hib2 : String.eqb (iv_name m) (bo_name m) = false) by (apply nm_neq; [reflexivity|reflexivity|lia]).
  assert (Hbi2 : String.eqb (bo_name m) (iv_name m) = false) by (apply nm_neq; [reflexivity|reflexivity|lia]).
  assert (Hifiv2 : forall j, String.eqb (if_name j) (iv_name m) = false) by (intro j; apply nm_neq_base; [reflexivity|reflexivity|discriminate]).
  assert (Hfree : init_free [{| d_type := c_ctype c2; d_name := c2v; d_init := None |}]) by (repeat constructor).
  induction l as [|v r IH]; intros st acc Hf Hm Hmiv Hmbo Hmc Hciv Hmiv2 Hmbo2 Hmif Hn.
  - cbn [flat_loop]. rewrite for_loop_nil. rewrite (updm_same mem _ st _ Hm). reflexivity.
  - cbn [flat_loop] in *. rewrite for_loop_cons.
    rewrite (loop_block_exec brs ev (iv_name n) ar1 g1 n _ _ v st Hfree Hib Hbi (nstuck_bind_l _ _ Hn)).
    destruct (gpasses ev v g1) as [b|f|k]; cbn [rbind] in *; [|reflexivity|destruct Hn].
    destruct b; cbn [rbind]; [|apply (IH st acc Hf Hm Hmiv Hmbo Hmc Hciv Hmiv2 Hmbo2 Hmif Hn)].
    set (T0 := dframe [{| d_type := c_ctype c2; d_name := c2v; d_init := None |}]).
    assert (T0c : frame_get c2v T0 = Some (c_ctype c2, default_value (c_ctype c2))).
    { unfold T0, dframe. cbn [map d_name d_type frame_get]. rewrite String.eqb_refl. reflexivity. }
    assert (T0m : frame_get mem T0 = None).
    { unfold T0, dframe. cbn [map d_name d_type frame_get]. fold m in Hmc. fold c2v in Hmc. rewrite Hmc. reflexivity. }
    unfold tflat_inner. rewrite exec_stmts_cons. cbn [exec_stmt].
    destruct (assoc_ss (c_ctype c2, c_bank c2) (ev_colls ev)) as [cval|]; [|reflexivity].
    set (S0 := istate g1 n (iv_name n) v T0 st).
    assert (Hc0 : fget c2v S0 = Some (c_ctype c2, default_value (c_ctype c2))) by (apply istate_fget_T; [exact Hciv|exact T0c]).
    destruct (assign_upd c2v cval S0 _ _ Hc0) as (Has & _ & _).
    fold c2v. rewrite Has. cbn [rbind].
    unfold S0. rewrite (upd_istate_T g1 n (iv_name n) v T0 st c2v cval _ _ Hciv T0c).
    destruct (fset_spec c2v cval T0 _ _ T0c) as (_ & T1c & T1o).
    set (T1 := fset c2v cval T0) in *.
    set (S1 := istate g1 n (iv_name n) v T1 st).
    assert (Hc1 : fget c2v S1 = Some (c_ctype c2, cval)) by (apply istate_fget_T; [exact Hciv|exact T1c]).
    rewrite exec_one. unfold tvec_loop. rewrite exec_for.
    change (eval ev S1 (CDeref (CVar (vcv_name c2 m))))
      with (rbind (eval ev S1 (CVar c2v)) (fun x => match x with VNull => RFault FNullDeref | _ => ROk x end)).
    rewrite eval_var, (lookup_fget _ _ _ Hc1).
    destruct cval as [z0|q0|b0|o0| |l2|s0|f0 a0| ]; cbn [rbind] in *; try (destruct Hn; fail); try reflexivity.
    fold ty in Hn |- *.
    assert (Hf1 : fget mem S1 = None).
    { unfold S1. rewrite istate_fget_other; [exact Hf|exact Hmiv|exact Hmbo|]. unfold T1. apply fset_none. exact T0m. }
    assert (Hm1 : mget mem S1 = Some (vec_type ty, VVec acc)) by (unfold S1; rewrite mget_istate; exact Hm).
    assert (Hn2 : nstuck (vec_loop ev ty body g2 l2 acc)) by (apply (nstuck_bind_l _ _ Hn)).
    rewrite (loop_push brs ev (iv_name m) (c_arrow c2) mem body g2 m (m + gsize g2) l2 S1 acc Hf1 Hmiv2 Hmbo2 Hmif Hifiv2 Hib2 Hbi2 Hm1 Hn2).
    fold ty.
    destruct (vec_loop ev ty body g2 l2 acc) as [vs|f|k]; cbn [rbind] in *; [|reflexivity|destruct Hn].
    unfold S1. rewrite updm_istate, ipop_istate.
    destruct (assign_updm mem (VVec vs) st _ _ Hf Hm) as (_ & _ & Hm3 & _).
    unfold c2v. fold (tvec_loop c2 g2 body mem m). fold (tflat_inner idiom c2 g2 body mem m). fold c2v.
    rewrite (IH _ _ (eq_trans (fget_updm _ _ _ _) Hf) Hm3 Hmiv Hmbo Hmc Hciv Hmiv2 Hmbo2 Hmif Hn).
    destruct (flat_loop ev g1 c2 g2 body r vs) as [ws|f|k]; try reflexivity.
    rewrite (updm_updm mem _ _ st _ _ Hm). reflexivity.
Qed.

(* ---------- one First column ---------- *)
(* the state after the loop: untouched unless the capture ran in it *)
Definition first_state (isf mem : string) (found o : option value) (st : state) : state :=
  match found, o with
  | None, Some x => updm mem x (upd isf (VBool false) st)
  | _, _ => st
  end.


Lemma exec_capture (brs : list branch) (ev : event) (iv : string) (ar : bool) (isf mem t : string) (body : pa)
      (s : state) (armed : bool) (old v : value) :
  fget isf s = Some ("bool", VBool armed) -> fget mem s = None -> mget mem s = Some (pa_type body, old) ->
  lookup iv s = Some (t, v) -> String.eqb iv isf = false ->
  (armed = true -> nstuck (dpa ev v body)) ->
  exec_stmt brs ev (fi_capture isf [] (one_stmt (SSet mem None (tpa iv ar body)))) s =
  if armed then match dpa ev v body with
                | ROk x => ROk (updm mem (conv (pa_type body) x) (upd isf (VBool false) s))
                | RFault f => RFault f
                | RStuck k => RStuck k
                end
  else ROk s.
Proof.
  intros Hf Hm Hmg Hl Hne Hn. unfold fi_capture. rewrite exec_if, eval_var, (lookup_fget _ _ _ Hf). cbn [rbind truth].
  destruct armed; [|reflexivity]. specialize (Hn eq_refl).
  rewrite exec_block_eq. cbn [run_decls rbind]. rewrite exec_stmts_cons, exec_set. cbn [eval rbind].
  assert (Hf' : fget isf (enter [] s) = Some ("bool", VBool true)) by (rewrite fget_enter; [exact Hf|reflexivity]).
  destruct (assign_upd isf (VBool false) (enter [] s) _ _ Hf') as (Ha & Hlk & _ & _ & _ & _).
  rewrite Hlk. change (conv "bool" (VBool false)) with (VBool false). rewrite Ha. cbn [rbind].
  rewrite (upd_enter isf (VBool false) [] s "bool" (VBool true) eq_refl Hf).
  set (s1 := upd isf (VBool false) s).
  rewrite exec_one, exec_set.
  assert (Hl1 : lookup iv (enter [] s1) = Some (t, v)).
  { unfold lookup. cbn [frames enter frames_get frame_get members]. fold (fget iv s1).
    change (match fget iv s1 with Some tv => Some tv | None => frame_get iv (members s1) end) with (lookup iv s1).
    unfold s1. rewrite (lookup_upd_other iv isf (VBool false) s "bool" (VBool true) Hf Hne). exact Hl. }
  rewrite (eval_tpa ev (enter [] s1) iv ar t v body Hl1 Hn).
  destruct (dpa ev v body) as [x|f|k]; cbn [rbind]; try reflexivity.
  assert (Hm1 : fget mem (enter [] s1) = None).
  { rewrite fget_enter; [|reflexivity]. unfold s1.
    destruct (assign_upd isf (VBool false) s _ _ Hf) as (_ & _ & G & O & _ & _).
    destruct (String.eqb mem isf) eqn:E; [apply String.eqb_eq in E; subst mem; rewrite Hm in Hf; discriminate|].
    rewrite (O mem E). exact Hm. }
  assert (Hmg1 : mget mem (enter [] s1) = Some (pa_type body, old)).
  { rewrite mget_enter. unfold s1. rewrite mget_upd. exact Hmg. }
  destruct (assign_updm mem (conv (pa_type body) x) (enter [] s1) _ _ Hm1 Hmg1) as (Ha2 & Hlk2 & _).
  rewrite Hlk2, Ha2. cbn [rbind]. rewrite updm_enter, pop_enter. reflexivity.
Qed.

Lemma first_loop_some (ev : event) (ty : string) (body : pa) (ps : guard) (l : list value) : forall (x : value) (o : option value),
  first_loop ev ty body ps l (Some x) = ROk o -> o = Some x.
Proof.
  induction l as [|v r IH]; intros x o H; cbn [first_loop] in H; [inversion H; reflexivity|].
  destruct (gpasses ev v ps) as [[|]|f|k]; cbn [rbind] in H; try discriminate; eapply IH; exact H.
Qed.

Lemma loop_first (brs : list branch) (ev : event) (iv : string) (ar : bool) (isf mem : string) (body : pa) (ps : guard) (n : nat) (l : list value) :
  forall (st : state) (found : option value) (old : value),
  String.eqb iv isf = false -> String.eqb isf iv = false -> String.eqb mem iv = false ->
  String.eqb isf (bo_name n) = false -> String.eqb mem (bo_name n) = false ->
  String.eqb iv (bo_name n) = false -> String.eqb (bo_name n) iv = false ->
  fget isf st = Some ("bool", VBool (match found with None => true | Some _ => false end)) ->
  fget mem st = None -> mget mem st = Some (pa_type body, match found with Some x => x | None => old end) ->
  nstuck (first_loop ev (pa_type body) body ps l found) ->
  for_loop brs ev iv (loop_block iv ar ps n [] (one_stmt (fi_capture isf [] (one_stmt (SSet mem None (tpa iv ar body)))))) l st =
  match first_loop ev (pa_type body) body ps l found with
  | ROk o => ROk (first_state isf mem found o st)
  | RFault f => RFault f
  | RStuck k => RStuck k
  end.
Proof.
  induction l as [|v r IH]; intros st found old Hne1 Hne2 Hne3 Hfb Hmb Hib Hbi Hf Hm Hmg Hn.
  - cbn [first_loop]. rewrite for_loop_nil. unfold first_state. destruct found; reflexivity.
  - cbn [first_loop] in *. rewrite for_loop_cons.
    rewrite (loop_block_exec brs ev iv ar ps n [] _ v st (Forall_nil _) Hib Hbi (nstuck_bind_l _ _ Hn)).
    destruct (gpasses ev v ps) as [b|f|k]; cbn [rbind] in *; [|reflexivity|destruct Hn].
    destruct b; cbn [rbind]; [|apply (IH st found old Hne1 Hne2 Hne3 Hfb Hmb Hib Hbi Hf Hm Hmg Hn)].
    change (dframe []) with (@nil binding).
    set (s0 := istate ps n iv v [] st).
    assert (Hf0 : fget isf s0 = Some ("bool", VBool (match found with None => true | Some _ => false end))).
    { unfold s0. rewrite istate_fget_other; [exact Hf|exact Hne2|exact Hfb|reflexivity]. }
    assert (Hm0 : fget mem s0 = None).
    { unfold s0. rewrite istate_fget_other; [exact Hm|exact Hne3|exact Hmb|reflexivity]. }
    assert (Hmg0 : mget mem s0 = Some (pa_type body, match found with Some x => x | None => old end)) by (unfold s0; rewrite mget_istate; exact Hmg).
    rewrite exec_one.
    rewrite (exec_capture brs ev iv ar isf mem "auto" body s0 _ _ v Hf0 Hm0 Hmg0 (istate_iv ps n iv v [] st eq_refl) Hne1).
    2:{ intro Ea. destruct found; [discriminate|]. exact (nstuck_bind_l _ _ Hn). }
    destruct found as [x0|].
    + cbn [rbind]. unfold s0. rewrite ipop_istate. apply (IH st (Some x0) old Hne1 Hne2 Hne3 Hfb Hmb Hib Hbi Hf Hm Hmg Hn).
    + destruct (dpa ev v body) as [x|f|k] eqn:Ex; cbn [rbind] in *; [|reflexivity|destruct Hn].
      unfold s0. rewrite (upd_istate_other ps n iv v [] st isf _ "bool" (VBool true) Hne2 Hfb eq_refl Hf).
      rewrite updm_istate, ipop_istate.
      set (x' := conv (pa_type body) x) in *.
      destruct (assign_upd isf (VBool false) st _ _ Hf) as (_ & _ & G1 & O1 & _ & _).
      assert (Hme : String.eqb mem isf = false).
      { destruct (String.eqb mem isf) eqn:E; [|reflexivity]. apply String.eqb_eq in E. subst mem. rewrite Hm in Hf. discriminate. }
      assert (Hm1 : fget mem (upd isf (VBool false) st) = None) by (rewrite (O1 mem Hme); exact Hm).
      assert (Hmg1 : mget mem (upd isf (VBool false) st) = Some (pa_type body, old)) by (rewrite mget_upd; exact Hmg).
      destruct (assign_updm mem x' (upd isf (VBool false) st) _ _ Hm1 Hmg1) as (_ & _ & G2 & _ & _ & _).
      set (st1 := updm mem x' (upd isf (VBool false) st)) in *.
      assert (Hf1 : fget isf st1 = Some ("bool", VBool false)) by (unfold st1; rewrite fget_updm; exact G1).
      assert (Hm2 : fget mem st1 = None) by (unfold st1; rewrite fget_updm; exact Hm1).
      rewrite (IH st1 (Some x') old Hne1 Hne2 Hne3 Hfb Hmb Hib Hbi Hf1 Hm2 G2 Hn).
      destruct (first_loop ev (pa_type body) body ps r (Some x')) as [o|f|k] eqn:Er; try reflexivity.
      rewrite (first_loop_some ev _ body ps r x' o Er). reflexivity.
Qed.

(* ---------- First over a body with conditionals ---------- *)
(* body_ready with the frame of the conditionals named once for every enclosing state *)
Lemma body_ready_T (brs : list branch) (ev : event) (g : guard) (n : nat) (iv : string) (ar : bool) (v : value) (e : bexp) (m : nat) :
  (forall j, String.eqb (if_name j) iv = false) ->
  match dconds ev v e with
  | ROk rs =>
      exists T', (forall st, exec_stmts brs ev (bpre iv ar e m) (istate g n iv v (dframe (bdecls e m)) st) = ROk (istate g n iv v T' st)) /\
                 frame_get iv T' = None /\
                 (forall y, (forall j, String.eqb y (if_name j) = false) -> frame_get y T' = None) /\
                 (forall st, nstuck (dbx ev v e rs) -> eval ev (istate g n iv v T' st) (bx iv ar e m) = dbx ev v e rs)
  | RFault f => forall st, exec_stmts brs ev (bpre iv ar e m) (istate g n iv v (dframe (bdecls e m)) st) = RFault f
  | RStuck _ => True
  end.
Proof.
  intro Hifiv.
  assert (Hiv0 : frame_get iv (dframe (bdecls e m)) = None).
  { apply bdecls_none. intros k _. rewrite String.eqb_sym. apply Hifiv. }
  assert (Hin0 : forall k, k < nifs e -> exists old, frame_get (if_name (m + k)) (dframe (bdecls e m)) = Some ("double", old)).
  { intros k Hk. eexists. apply bdecls_get, Hk. }
  assert (P : forall st, match dconds ev v e with
              | ROk rs => exec_stmts brs ev (bpre iv ar e m) (istate g n iv v (dframe (bdecls e m)) st) = ROk (istate g n iv v (tsets m rs (dframe (bdecls e m))) st) /\
                          List.length rs = nifs e /\ Forall (fun r => r <> VUninit) rs
              | RFault f => exec_stmts brs ev (bpre iv ar e m) (istate g n iv v (dframe (bdecls e m)) st) = RFault f
              | RStuck _ => True end).
  { intro st. exact (bpre_exec brs ev g n iv ar v st e Hifiv m (dframe (bdecls e m)) Hiv0 Hin0). }
  destruct (dconds ev v e) as [rs|f|k]; [|exact P|exact I].
  exists (tsets m rs (dframe (bdecls e m))).
  assert (L : List.length rs = nifs e) by (destruct (P (enter [] {| frames := []; members := []; rows := [] |})) as (_ & L & _); exact L).
  assert (N : Forall (fun r => r <> VUninit) rs) by (destruct (P (enter [] {| frames := []; members := []; rows := [] |})) as (_ & _ & N); exact N).
  split; [intro st; exact (proj1 (P st))|]. split; [|split].
  - rewrite tsets_other; [exact Hiv0|]. intro j. rewrite String.eqb_sym. apply Hifiv.
  - intros y Hy. rewrite tsets_other; [|exact Hy]. apply bdecls_none. intros k _. apply Hy.
  - intros st Hn. apply (bx_eval ev g n iv ar v st e Hifiv m _ rs); try assumption.
    + rewrite tsets_other; [exact Hiv0|]. intro j. rewrite String.eqb_sym. apply Hifiv.
    + intros k Hk. split.
      * apply tsets_get; [|lia]. intros j Hj. apply Hin0. lia.
      * rewrite Forall_forall in N. apply N. apply nth_In. lia.
Qed.

(* the capture of a body whose conditionals have been evaluated into the frame T *)
Lemma exec_capture_b (brs : list branch) (ev : event) (g : guard) (n : nat) (iv : string) (ar : bool) (isf mem : string) (body : bexp) (m : nat)
      (v : value) (T : frame) (st : state) (armed : bool) (old : value) (R : res value) :
  fget isf st = Some ("bool", VBool armed) -> fget mem st = None -> mget mem st = Some (btype body, old) ->
  String.eqb isf iv = false -> String.eqb isf (bo_name n) = false -> frame_get isf T = None ->
  String.eqb mem iv = false -> String.eqb mem (bo_name n) = false -> frame_get mem T = None -> String.eqb mem isf = false ->
  (armed = true -> forall st2, eval ev (istate g n iv v T st2) (bx iv ar body m) = R) ->
  exec_stmt brs ev (fi_capture isf [] (one_stmt (SSet mem None (bx iv ar body m)))) (istate g n iv v T st) =
  if armed then match R with
                | ROk x => ROk (istate g n iv v T (updm mem (conv (btype body) x) (upd isf (VBool false) st)))
                | RFault f => RFault f
                | RStuck k => RStuck k
                end
  else ROk (istate g n iv v T st).
Proof.
  intros Hf Hm Hmg Hfi Hfb HfT Hmi Hmb HmT Hmf He.
  set (S := istate g n iv v T st).
  assert (HfS : fget isf S = Some ("bool", VBool armed)) by (unfold S; rewrite istate_fget_other; assumption).
  unfold fi_capture. rewrite exec_if, eval_var, (lookup_fget _ _ _ HfS). cbn [rbind truth].
  destruct armed; [|reflexivity]. specialize (He eq_refl).
  rewrite exec_block_eq. cbn [run_decls rbind]. rewrite exec_stmts_cons, exec_set. cbn [eval rbind].
  assert (Hf' : fget isf (enter [] S) = Some ("bool", VBool true)) by (rewrite fget_enter; [exact HfS|reflexivity]).
  destruct (assign_upd isf (VBool false) (enter [] S) _ _ Hf') as (Ha & Hlk & _ & _ & _ & _).
  rewrite Hlk. change (conv "bool" (VBool false)) with (VBool false). rewrite Ha. cbn [rbind].
  rewrite (upd_enter isf (VBool false) [] S "bool" (VBool true) eq_refl HfS).
  unfold S. rewrite (upd_istate_other g n iv v T st isf (VBool false) "bool" (VBool true) Hfi Hfb HfT Hf).
  set (st1 := upd isf (VBool false) st).
  rewrite exec_one, exec_set.
  rewrite (proj1 (eval_enter_nil ev (istate g n iv v T st1))). rewrite (He st1).
  destruct R as [x|f|k]; cbn [rbind]; try reflexivity.
  destruct (assign_upd isf (VBool false) st _ _ Hf) as (_ & _ & G & O & _ & _).
  assert (Hm1 : fget mem st1 = None) by (unfold st1; rewrite (O mem Hmf); exact Hm).
  assert (Hmg1 : mget mem st1 = Some (btype body, old)) by (unfold st1; rewrite mget_upd; exact Hmg).
  set (S1 := istate g n iv v T st1).
  assert (HmS : fget mem (enter [] S1) = None).
  { rewrite fget_enter; [|reflexivity]. unfold S1. rewrite istate_fget_other; assumption. }
  assert (HgS : mget mem (enter [] S1) = Some (btype body, old)) by (rewrite mget_enter; unfold S1; rewrite mget_istate; exact Hmg1).
  destruct (assign_updm mem (conv (btype body) x) (enter [] S1) _ _ HmS HgS) as (Ha2 & Hlk2 & _).
  rewrite Hlk2, Ha2. cbn [rbind]. rewrite updm_enter, pop_enter. unfold S1. rewrite updm_istate. reflexivity.
Qed.

Lemma firstb_loop_some (ev : event) (ty : string) (body : bexp) (ps : guard) (l : list value) : forall (x : value) (o : option value),
  firstb_loop ev ty body ps l (Some x) = ROk o -> o = Some x.
Proof.
  induction l as [|v r IH]; intros x o H; cbn [firstb_loop] in H; [inversion H; reflexivity|].
  destruct (gpasses ev v ps) as [[|]|f|k]; cbn [rbind] in H; try discriminate; [|eapply IH; exact H].
  destruct (dconds ev v body) as [rs|f|k]; cbn [rbind] in H; try discriminate. eapply IH; exact H.
Qed.

Lemma loop_first_b (brs : list branch) (ev : event) (iv : string) (ar : bool) (isf mem : string) (body : bexp) (ps : guard) (n m : nat) (l : list value) :
  forall (st : state) (found : option value) (old : value),
  String.eqb isf iv = false -> String.eqb mem iv = false -> String.eqb mem isf = false ->
  String.eqb isf (bo_name n) = false -> String.eqb mem (bo_name n) = false ->
  String.eqb iv (bo_name n) = false -> String.eqb (bo_name n) iv = false ->
  (forall j, String.eqb isf (if_name j) = false) -> (forall j, String.eqb mem (if_name j) = false) -> (forall j, String.eqb (if_name j) iv = false) ->
  fget isf st = Some ("bool", VBool (match found with None => true | Some _ => false end)) ->
  fget mem st = None -> mget mem st = Some (btype body, match found with Some x => x | None => old end) ->
  nstuck (firstb_loop ev (btype body) body ps l found) ->
  for_loop brs ev iv (loop_block iv ar ps n (bdecls body m)
                        (app_stmts (bpre iv ar body m) (one_stmt (fi_capture isf [] (one_stmt (SSet mem None (bx iv ar body m))))))) l st =
  match firstb_loop ev (btype body) body ps l found with
  | ROk o => ROk (first_state isf mem found o st)
  | RFault f => RFault f
  | RStuck k => RStuck k
  end.
Proof.
  induction l as [|v r IH]; intros st found old Hfi Hmi Hmf Hfb Hmb Hib Hbi Hfif Hmif Hifiv Hf Hm Hmg Hn.
  - cbn [firstb_loop]. rewrite for_loop_nil. unfold first_state. destruct found; reflexivity.
  - cbn [firstb_loop] in *. rewrite for_loop_cons.
    rewrite (loop_block_exec brs ev iv ar ps n _ _ v st (bdecls_free body m) Hib Hbi (nstuck_bind_l _ _ Hn)).
    destruct (gpasses ev v ps) as [b|f|k]; cbn [rbind] in *; [|reflexivity|destruct Hn].
    destruct b; cbn [rbind]; [|apply (IH st found old Hfi Hmi Hmf Hfb Hmb Hib Hbi Hfif Hmif Hifiv Hf Hm Hmg Hn)].
    rewrite exec_stmts_app.
    pose proof (body_ready_T brs ev ps n iv ar v body m Hifiv) as B.
    destruct (dconds ev v body) as [rs|f|k]; cbn [rbind] in *; [|rewrite B; reflexivity|destruct Hn].
    destruct B as (T' & E & Hiv' & Hoth & Hev). rewrite E. cbn [rbind]. rewrite exec_one.
    assert (HnR : found = None -> nstuck (dbx ev v body rs)).
    { intro Ef. subst found. destruct (dbx ev v body rs); [exact I|exact I|destruct Hn]. }
    rewrite (exec_capture_b brs ev ps n iv ar isf mem body m v T' st _ _ (dbx ev v body rs) Hf Hm Hmg Hfi Hfb (Hoth isf Hfif) Hmi Hmb (Hoth mem Hmif) Hmf).
    2:{ intros Ea st2. apply Hev. apply HnR. destruct found; [discriminate|reflexivity]. }
    destruct found as [x0|].
    + cbn [rbind]. rewrite ipop_istate. apply (IH st (Some x0) old Hfi Hmi Hmf Hfb Hmb Hib Hbi Hfif Hmif Hifiv Hf Hm Hmg Hn).
    + destruct (dbx ev v body rs) as [x|f|k] eqn:Ex; cbn [rbind] in *; [|reflexivity|destruct Hn].
      rewrite ipop_istate.
      set (x' := conv (btype body) x) in *.
      destruct (assign_upd isf (VBool false) st _ _ Hf) as (_ & _ & G1 & O1 & _ & _).
      assert (Hm1 : fget mem (upd isf (VBool false) st) = None) by (rewrite (O1 mem Hmf); exact Hm).
      assert (Hmg1 : mget mem (upd isf (VBool false) st) = Some (btype body, old)) by (rewrite mget_upd; exact Hmg).
      destruct (assign_updm mem x' (upd isf (VBool false) st) _ _ Hm1 Hmg1) as (_ & _ & G2 & _ & _ & _).
      set (st1 := updm mem x' (upd isf (VBool false) st)) in *.
      assert (Hf1 : fget isf st1 = Some ("bool", VBool false)) by (unfold st1; rewrite fget_updm; exact G1).
      assert (Hm2 : fget mem st1 = None) by (unfold st1; rewrite fget_updm; exact Hm1).
      rewrite (IH st1 (Some x') old Hfi Hmi Hmf Hfb Hmb Hib Hbi Hfif Hmif Hifiv Hf1 Hm2 G2 Hn).
      destruct (firstb_loop ev (btype body) body ps r (Some x')) as [o|f|k] eqn:Er; try reflexivity.
      rewrite (firstb_loop_some ev _ body ps r x' o Er). reflexivity.
Qed.

(* First is the LINQ one: with total predicates, the value is the body on the first element of the filtered
   collection, and the query is undefined exactly when the filtered collection is empty *)
Lemma first_loop_found_total (ev : event) (ty : string) (body : pa) (ps : guard) (f : value -> bool) (l : list value) (x : value) :
  passes_total ev ps l f -> first_loop ev ty body ps l (Some x) = ROk (Some x).
Proof.
  induction l as [|v r IH]; intro H; cbn [first_loop]; [reflexivity|].
  rewrite (H v (or_introl eq_refl)). cbn [rbind].
  assert (Hr : passes_total ev ps r f) by (intros w Hw; apply H; right; exact Hw).
  destruct (f v); apply (IH Hr).
Qed.
Lemma first_is_hd_filter (ev : event) (ty : string) (body : pa) (ps : guard) (f : value -> bool) (g : value -> value) (l : list value) :
  passes_total ev ps l f -> (forall v, In v l -> f v = true -> dpa ev v body = ROk (g v)) ->
  first_loop ev ty body ps l None = ROk (option_map (fun v => conv ty (g v)) (hd_error (filter f l))).
Proof.
  induction l as [|v r IH]; intros H Hg; cbn [first_loop filter]; [reflexivity|].
  rewrite (H v (or_introl eq_refl)). cbn [rbind].
  assert (Hr : passes_total ev ps r f) by (intros w Hw; apply H; right; exact Hw).
  destruct (f v) eqn:Ef.
  - rewrite (Hg v (or_introl eq_refl) Ef). cbn [rbind hd_error option_map]. apply (first_loop_found_total ev ty body ps f r _ Hr).
  - apply IH; [exact Hr|]. intros w Hw. apply Hg. right; exact Hw.
Qed.


Lemma first_col_linq (ev : event) (cr : collref) (ps : guard) (body : pa) (line : string) (f : value -> bool) (g : value -> value) (l : list value) :
  assoc_ss (c_ctype cr, c_bank cr) (ev_colls ev) = Some (VVec l) ->
  passes_total ev ps l f -> (forall v, In v l -> f v = true -> dpa ev v body = ROk (g v)) ->
  dcol ev (ColFirst cr ps body line) =
  match filter f l with [] => RFault FThrow | v :: _ => ROk (conv (pa_type body) (g v)) end.
Proof.
  intros Ha Hp Hg. cbn [dcol]. rewrite Ha. rewrite (first_is_hd_filter ev _ body ps f g l Hp Hg).
  destruct (filter f l); reflexivity.
Qed.

(* ---------- columns and rows, component-wise ---------- *)
Lemma ex_size_size (e : ex) : ex_size e = size e.
Proof. induction e; cbn; auto. Qed.

Definition vec_stmts (idiom : string) (cr : collref) (ps : guard) (body : bexp) (mem : string) (n : nat) : stmts :=
  SCons (SFetch idiom (vcv_name cr n) (c_ctype cr) (c_bank cr) (fetch_lines idiom (c_ctype cr) (c_bank cr)))
        (one_stmt (tvec_loop cr ps body mem n)).
Definition first_stmts (idiom : string) (cr : collref) (ps : guard) (body : pa) (line mem : string) (n : nat) : stmts :=
  SCons (SFetch idiom (vcv_name cr n) (c_ctype cr) (c_bank cr) (fetch_lines idiom (c_ctype cr) (c_bank cr)))
        (SCons (tfirst_loop cr ps body mem n) (one_stmt (fi_throw (isf_name (n + gsize ps)) line))).
Definition cds (c : column) (n : nat) : list decl :=
  match c with
  | ColScalar e => tds e n
  | ColVec cr _ _ => [{| d_type := c_ctype cr; d_name := vcv_name cr n; d_init := None |}]
  | ColFirst cr g _ _ => [{| d_type := c_ctype cr; d_name := vcv_name cr n; d_init := None |}; fi_decl (isf_name (n + gsize g))]
  | ColVec2 c1 _ _ _ _ | ColFlat c1 _ _ _ _ => [{| d_type := c_ctype c1; d_name := vcv_name c1 n; d_init := None |}]
  | ColFirstB cr g body _ => [{| d_type := c_ctype cr; d_name := vcv_name cr n; d_init := None |}; fi_decl (isf_name (isfb_at n g body))]
  end.
Definition firstb_stmts (idiom : string) (cr : collref) (ps : guard) (body : bexp) (line mem : string) (n : nat) : stmts :=
  SCons (SFetch idiom (vcv_name cr n) (c_ctype cr) (c_bank cr) (fetch_lines idiom (c_ctype cr) (c_bank cr)))
        (SCons (tfirstb_loop cr ps body mem n) (one_stmt (fi_throw (isf_name (isfb_at n ps body)) line))).
Definition cflat_stmts (idiom : string) (c1 : collref) (g1 : guard) (c2 : collref) (g2 : guard) (body : bexp) (mem : string) (n : nat) : stmts :=
  SCons (SFetch idiom (vcv_name c1 n) (c_ctype c1) (c_bank c1) (fetch_lines idiom (c_ctype c1) (c_bank c1)))
        (one_stmt (tflat_loop idiom c1 g1 c2 g2 body mem n)).
Definition vec2_stmts (idiom : string) (c1 : collref) (g1 : guard) (c2 : collref) (g2 : guard) (body : bexp) (mem nt : string) (n : nat) : stmts :=
  SCons (SFetch idiom (vcv_name c1 n) (c_ctype c1) (c_bank c1) (fetch_lines idiom (c_ctype c1) (c_bank c1)))
        (one_stmt (tvec2_loop idiom c1 g1 c2 g2 body mem nt n)).
Definition css (idiom : string) (c : column) (mem : string) (ntk n : nat) : stmts :=
  match c with
  | ColScalar e => tss idiom e n
  | ColVec cr ps body => vec_stmts idiom cr ps body mem n
  | ColFirst cr ps body line => first_stmts idiom cr ps body line mem n
  | ColVec2 c1 g1 c2 g2 body => vec2_stmts idiom c1 g1 c2 g2 body mem (nt_name ntk) n
  | ColFlat c1 g1 c2 g2 body => cflat_stmts idiom c1 g1 c2 g2 body mem n
  | ColFirstB cr ps body line => firstb_stmts idiom cr ps body line mem n
  end.
Lemma tcol_split (idiom : string) (c : column) (mem : string) (ntk n : nat) :
  tcol idiom c mem ntk n = (cds c n, css idiom c mem ntk n, n + col_size c).
Proof.
  destruct c as [e|cr ps body|cr ps body line|c1 g1 c2 g2 body|c1 g1 c2 g2 body|cr ps body line]; cbn [tcol cds css col_size]; [| | |reflexivity|reflexivity|reflexivity].
  - rewrite (te_split idiom e n). rewrite (ex_size_size e). reflexivity.
  - unfold vec_stmts. replace (n + (2 + gsize ps + nifs body)) with (S (S n) + gsize ps + nifs body) by lia. reflexivity.
  - unfold first_stmts. replace (n + (3 + gsize ps)) with (S (S (S n)) + gsize ps) by lia. reflexivity.
Qed.
Fixpoint rds (r : row) (n : nat) : list decl :=
  match r with [] => [] | (_, c) :: t => cds c n ++ rds t (n + col_size c) end.
Fixpoint rss (idiom : string) (r : row) (nf k ntk n : nat) : stmts :=
  match r with
  | [] => SNil
  | (name, c) :: t => app_stmts (css idiom c (mem_name name (nf + k)) ntk n) (rss idiom t nf (S k) (col_nts c + ntk) (n + col_size c))
  end.
Lemma trow_split (idiom : string) (r : row) : forall nf k ntk n, trow idiom r nf k ntk n = (rds r n, rss idiom r nf k ntk n).
Proof.
  induction r as [|[name c] t IH]; intros nf k ntk n; cbn [trow rds rss]; [reflexivity|].
  rewrite tcol_split, IH. reflexivity.
Qed.
Fixpoint rsets (r : row) (nf k n : nat) : stmts :=
  match r with
  | [] => SNil
  | (name, c) :: t =>
      match c with
      | ColScalar e => SCons (SSet (mem_name name (nf + k)) None (tc e n)) (rsets t nf (S k) (n + col_size c))
      | ColVec _ _ _ | ColFirst _ _ _ _ | ColVec2 _ _ _ _ _ | ColFlat _ _ _ _ _ | ColFirstB _ _ _ _ => rsets t nf (S k) (n + col_size c)
      end
  end.
Lemma trow_sets_split (idiom : string) (r : row) : forall nf k n, trow_sets idiom r nf k n = rsets r nf k n.
Proof.
  induction r as [|[name c] t IH]; intros nf k n; cbn [trow_sets rsets]; [reflexivity|].
  destruct c as [e|cr ps body|cr ps body line|c1 g1 c2 g2 body|c1 g1 c2 g2 body|cr ps body line]; cbn [col_size].
  - rewrite (te_split idiom e n), IH. rewrite (ex_size_size e). reflexivity.
  - replace (n + (2 + gsize ps + nifs body)) with (S (S n) + gsize ps + nifs body) by lia. apply IH.
  - replace (n + (3 + gsize ps)) with (S (S (S n)) + gsize ps) by lia. apply IH.
  - apply IH.
  - apply IH.
  - apply IH.
Qed.

Definition cvars (c : column) (n : nat) : list string :=
  match c with
  | ColScalar e => vars e n | ColVec cr _ _ => [vcv_name cr n] | ColFirst cr g _ _ => [vcv_name cr n; isf_name (n + gsize g)]
  | ColVec2 c1 _ _ _ _ | ColFlat c1 _ _ _ _ => [vcv_name c1 n]    (* the names of the outer loop's block live and die inside it *)
  | ColFirstB cr g body _ => [vcv_name cr n; isf_name (isfb_at n g body)]
  end.
Fixpoint rvars (r : row) (n : nat) : list string :=
  match r with [] => [] | (_, c) :: t => cvars c n ++ rvars t (n + col_size c) end.
Fixpoint rmems (r : row) (nf k : nat) : list string :=
  match r with [] => [] | (name, _) :: t => mem_name name (nf + k) :: rmems t nf (S k) end.
Definition col_bases_ok (c : column) : bool :=
  match c with
  | ColScalar e => bases_ok e | ColVec cr _ _ | ColFirst cr _ _ _ => base_ok (c_base cr)
  | ColVec2 c1 _ c2 _ _ | ColFlat c1 _ c2 _ _ => base_ok (c_base c1) && base_ok (c_base c2)
  | ColFirstB cr _ _ _ => base_ok (c_base cr)
  end.
Fixpoint row_bases_ok (r : row) : bool :=
  match r with [] => true | (_, c) :: t => col_bases_ok c && row_bases_ok t end.

Lemma cvars_shape (c : column) (n : nat) (x : string) : col_bases_ok c = true -> In x (cvars c n) ->
  exists b i, x = nm b i /\ last_digit b = false /\ first_not_underscore b = true /\ n <= i < n + col_size c.
Proof.
  destruct c as [e|cr ps body|cr ps body line|c1 g1 c2 g2 body|c1 g1 c2 g2 body|cr ps body line]; cbn [col_bases_ok cvars col_size]; intros Hb Hin.
  - rewrite ex_size_size. apply vars_shape; assumption.
  - destruct Hin as [<-|[]]. unfold base_ok in Hb. apply andb_prop in Hb as [H1 H2]. apply negb_true_iff in H1.
    exists (c_base cr), n. repeat split; auto; lia.
  - unfold base_ok in Hb. apply andb_prop in Hb as [H1 H2]. apply negb_true_iff in H1.
    destruct Hin as [<-|[<-|[]]].
    + exists (c_base cr), n. repeat split; auto; lia.
    + exists "is_first", (S (S (n + gsize ps))). repeat split; auto; lia.
  - apply andb_prop in Hb as [Hb _]. destruct Hin as [<-|[]]. unfold base_ok in Hb. apply andb_prop in Hb as [H1 H2]. apply negb_true_iff in H1.
    exists (c_base c1), n. repeat split; auto; lia.
  - apply andb_prop in Hb as [Hb _]. destruct Hin as [<-|[]]. unfold base_ok in Hb. apply andb_prop in Hb as [H1 H2]. apply negb_true_iff in H1.
    exists (c_base c1), n. repeat split; auto; lia.
  - unfold base_ok in Hb. apply andb_prop in Hb as [H1 H2]. apply negb_true_iff in H1.
    destruct Hin as [<-|[<-|[]]].
    + exists (c_base cr), n. repeat split; auto; lia.
    + exists "is_first", (S (S (isfb_at n ps body))). unfold isfb_at. repeat split; auto; lia.
Qed.
Lemma rvars_shape (r : row) : forall n x, row_bases_ok r = true -> In x (rvars r n) ->
  exists b i, x = nm b i /\ last_digit b = false /\ first_not_underscore b = true /\ n <= i < n + row_size r.
Proof.
  induction r as [|[name c] t IH]; intros n x Hb Hin; cbn [rvars row_size row_bases_ok] in *; [destruct Hin|].
  apply andb_prop in Hb as [Hc Ht]. apply in_app_or in Hin as [Hin|Hin].
  - destruct (cvars_shape c n x Hc Hin) as (b & i & E & L & F & R). exists b, i. repeat split; auto; lia.
  - destruct (IH _ x Ht Hin) as (b & i & E & L & F & R). exists b, i. repeat split; auto; lia.
Qed.
Lemma cvars_rvars_disjoint (c : column) (t : row) (n : nat) (x : string) :
  col_bases_ok c = true -> row_bases_ok t = true -> In x (cvars c n) -> In x (rvars t (n + col_size c)) -> False.
Proof.
  intros Hc Ht H1 H2.
  destruct (cvars_shape c n x Hc H1) as (b1 & i & E1 & L1 & _ & R1).
  destruct (rvars_shape t _ x Ht H2) as (b2 & j & E2 & L2 & _ & R2).
  subst x. apply (nm_inj b1 b2 i j L1 L2) in E2. lia.
Qed.

(* member names start with an underscore, generated local names do not *)
Lemma mem_not_shape (name : string) (idx : nat) (b : string) (i : nat) :
  first_not_underscore b = true -> mem_name name idx <> nm b i.
Proof.
  intros F E. pose proof (nm_first b i F) as H. rewrite <- E in H. discriminate H.
Qed.
Lemma mem_neq_iv (name : string) (idx n : nat) : String.eqb (mem_name name idx) (iv_name n) = false.
Proof.
  destruct (String.eqb (mem_name name idx) (iv_name n)) eqn:E; [|reflexivity]. apply String.eqb_eq in E.
  exfalso. exact (mem_not_shape name idx "i_obj" (S n) eq_refl E).
Qed.
Lemma mem_not_rvar (r : row) (n : nat) (name : string) (idx : nat) : row_bases_ok r = true -> ~ In (mem_name name idx) (rvars r n).
Proof.
  intros Hb Hin. destruct (rvars_shape r n _ Hb Hin) as (b & i & E & _ & F & _). exact (mem_not_shape name idx b i F E).
Qed.
Lemma mem_not_cvar (c : column) (n : nat) (name : string) (idx : nat) : col_bases_ok c = true -> ~ In (mem_name name idx) (cvars c n).
Proof.
  intros Hb Hin. destruct (cvars_shape c n _ Hb Hin) as (b & i & E & _ & F & _). exact (mem_not_shape name idx b i F E).
Qed.

Definition col_declared (c : column) (n : nat) (st : state) : Prop :=
  match c with
  | ColScalar e => declared e n st
  | ColVec cr _ _ => exists t v, fget (vcv_name cr n) st = Some (t, v)
  | ColFirst cr g _ _ => (exists t v, fget (vcv_name cr n) st = Some (t, v)) /\ fget (isf_name (n + gsize g)) st = Some ("bool", VBool true)
  | ColVec2 c1 _ _ _ _ | ColFlat c1 _ _ _ _ => exists t v, fget (vcv_name c1 n) st = Some (t, v)
  | ColFirstB cr g body _ => (exists t v, fget (vcv_name cr n) st = Some (t, v)) /\ fget (isf_name (isfb_at n g body)) st = Some ("bool", VBool true)
  end.
Fixpoint row_declared (r : row) (n : nat) (st : state) : Prop :=
  match r with [] => True | (_, c) :: t => col_declared c n st /\ row_declared t (n + col_size c) st end.

Lemma col_declared_ext (c : column) (n : nat) (st st' : state) :
  (forall x, In x (cvars c n) -> fget x st' = fget x st) -> col_declared c n st -> col_declared c n st'.
Proof.
  destruct c as [e|cr ps body|cr ps body line|c1 g1 c2 g2 body|c1 g1 c2 g2 body|cr ps body line]; cbn [col_declared cvars]; intros H D.
  - eapply declared_ext; eauto.
  - destruct D as (t & v & D). exists t, v. rewrite H; [exact D|left; reflexivity].
  - destruct D as [(t & v & D) Df]. split; [exists t, v; rewrite H; [exact D|left; reflexivity]|].
    rewrite H; [exact Df|right; left; reflexivity].
  - destruct D as (t & v & D). exists t, v. rewrite H; [exact D|left; reflexivity].
  - destruct D as (t & v & D). exists t, v. rewrite H; [exact D|left; reflexivity].
  - destruct D as [(t & v & D) Df]. split; [exists t, v; rewrite H; [exact D|left; reflexivity]|].
    rewrite H; [exact Df|right; left; reflexivity].
Qed.
Lemma row_declared_ext (r : row) : forall n st st',
  (forall x, In x (rvars r n) -> fget x st' = fget x st) -> row_declared r n st -> row_declared r n st'.
Proof.
  induction r as [|[name c] t IH]; intros n st st' H D; cbn [row_declared rvars] in *; [exact I|].
  destruct D as [Dc Dt]. split.
  - eapply col_declared_ext; [|exact Dc]. intros x Hx. apply H, in_or_app. left; exact Hx.
  - eapply IH; [|exact Dt]. intros x Hx. apply H, in_or_app. right; exact Hx.
Qed.

(* what is known about a column once its code has run *)
(* p: what the first phase leaves for the second (the finished value of a vector / First column; nothing for a scalar
   column, whose value expression is still to be evaluated) *)
Definition col_done (ev : event) (c : column) (mem : string) (n : nat) (st : state) (p : option value) : Prop :=
  match c with
  | ColScalar e => bound e n st /\ (nstuck (de ev e) -> eval ev st (tc e n) = de ev e) /\
                   (exists old, mget mem st = Some (ex_type e, old))
  | ColVec cr ps body => exists v, p = Some v /\ (exists l, v = VVec l) /\ mget mem st = Some (col_type c, v)
  | ColFirst cr ps body _ => exists v, p = Some v /\ mget mem st = Some (col_type c, v)
  | ColVec2 _ _ _ _ _ | ColFlat _ _ _ _ _ => exists v, p = Some v /\ (exists l, v = VVec l) /\ mget mem st = Some (col_type c, v)
  | ColFirstB _ _ _ _ => exists v, p = Some v /\ mget mem st = Some (col_type c, v)
  end.
Lemma col_done_ext (ev : event) (c : column) (mem : string) (n : nat) (st st' : state) (p : option value) :
  (forall x, In x (cvars c n) -> fget x st' = fget x st) -> mget mem st' = mget mem st ->
  col_done ev c mem n st p -> col_done ev c mem n st' p.
Proof.
  destruct c as [e|cr ps body|cr ps body line|c1 g1 c2 g2 body|c1 g1 c2 g2 body|cr ps body line]; cbn [col_done cvars]; intros Hf Hm D.
  - destruct D as (B & E & (old & M)). split; [|split].
    + intros x Hx. rewrite (Hf x (bvars_incl e n x Hx)). apply B, Hx.
    + intro Hn. rewrite (tc_ext ev e n st st' B Hf). exact (E Hn).
    + exists old. rewrite Hm. exact M.
  - destruct D as (v & Ep & Sh & D). exists v. split; [exact Ep|]. split; [exact Sh|]. rewrite Hm. exact D.
  - destruct D as (v & Ep & D). exists v. split; [exact Ep|]. rewrite Hm. exact D.
  - destruct D as (v & Ep & Sh & D). exists v. split; [exact Ep|]. split; [exact Sh|]. rewrite Hm. exact D.
  - destruct D as (v & Ep & Sh & D). exists v. split; [exact Ep|]. split; [exact Sh|]. rewrite Hm. exact D.
  - destruct D as (v & Ep & D). exists v. split; [exact Ep|]. rewrite Hm. exact D.
Qed.

Lemma mem_neq_iv_gen (mem : string) (k : nat) : (forall b i, first_not_underscore b = true -> mem <> nm b i) -> String.eqb mem (iv_name k) = false.
Proof.
  intro Hshape. destruct (String.eqb mem (iv_name k)) eqn:E; [|reflexivity]. apply String.eqb_eq in E. exfalso. exact (Hshape "i_obj" (S k) eq_refl E).
Qed.
(* one column's code *)
Lemma col_exec (brs : list branch) (ev : event) (idiom : string) (c : column) (mem : string) (ntk n : nat) (st : state) :
  n + col_size c <= ntk ->
  col_bases_ok c = true -> col_declared c n st -> fget mem st = None ->
  (forall b i, first_not_underscore b = true -> mem <> nm b i) ->
  String.eqb mem (iv_name n) = false ->
  (exists old, mget mem st = Some (col_type c, old) /\ match c with ColVec _ _ _ | ColVec2 _ _ _ _ _ | ColFlat _ _ _ _ _ => old = VVec [] | _ => True end) ->
  match dcol1 ev c with
  | ROk p => exists st', exec_stmts brs ev (css idiom c mem ntk n) st = ROk st' /\ rows st' = rows st /\
                         (forall y, ~ In y (cvars c n) -> fget y st' = fget y st) /\
                         (forall m, String.eqb m mem = false -> mget m st' = mget m st) /\
                         col_done ev c mem n st' p
  | RFault f => exec_stmts brs ev (css idiom c mem ntk n) st = RFault f
  | RStuck _ => True
  end.
Proof.
  intros Hntk Hb D Hf Hshape Hiv (old & Hm & Hold).
  assert (Hmb : String.eqb mem (bo_name n) = false).
  { destruct (String.eqb mem (bo_name n)) eqn:E; [|reflexivity]. apply String.eqb_eq in E. exfalso. exact (Hshape "bool_op" (S (S n)) eq_refl E). }
  assert (Hib : String.eqb (iv_name n) (bo_name n) = false) by (apply nm_neq; [reflexivity|reflexivity|lia]).
  assert (Hbi : String.eqb (bo_name n) (iv_name n) = false) by (apply nm_neq; [reflexivity|reflexivity|lia]).
  assert (Hmf : forall j, String.eqb mem (if_name j) = false).
  { intro j. destruct (String.eqb mem (if_name j)) eqn:E; [|reflexivity]. apply String.eqb_eq in E. exfalso. exact (Hshape "if_else_result" (S (S j)) eq_refl E). }
  assert (Hifiv : forall j, String.eqb (if_name j) (iv_name n) = false) by (intro j; apply nm_neq_base; [reflexivity|reflexivity|discriminate]).
  destruct c as [e|cr ps body|cr ps body line|c1 g1 c2 g2 body|c1 g1 c2 g2 body|cr ps body line]; cbn [dcol1 dcol css col_bases_ok col_declared cvars col_done col_type] in *.
  - pose proof (te_exec brs ev idiom e n st Hb D) as T.
    destruct (dstm ev e) as [[]|f|k]; cbn [rbind]; [|exact T|exact I].
    destruct T as (st' & E & M & R & U & B & V).
    exists st'. split; [exact E|]. split; [exact R|]. split; [exact U|]. split.
    + intros m _. unfold mget. rewrite M. reflexivity.
    + split; [exact B|]. split; [exact V|]. exists old. unfold mget in *. rewrite M. exact Hm.
  - destruct D as (tcv & v0 & Dcv). unfold vec_stmts. rewrite exec_stmts_cons. cbn [exec_stmt].
    destruct (assoc_ss (c_ctype cr, c_bank cr) (ev_colls ev)) as [cval|]; [|reflexivity].
    destruct (assign_upd (vcv_name cr n) cval st tcv v0 Dcv) as (Has & _ & Hcv1 & Hoth & Mem1 & R1).
    rewrite Has. cbn [rbind]. rewrite exec_one. unfold tvec_loop. rewrite exec_for.
    change (eval ev (upd (vcv_name cr n) cval st) (CDeref (CVar (vcv_name cr n))))
      with (rbind (eval ev (upd (vcv_name cr n) cval st) (CVar (vcv_name cr n)))
                  (fun x => match x with VNull => RFault FNullDeref | _ => ROk x end)).
    rewrite eval_var, (lookup_fget _ _ _ Hcv1).
    set (st1 := upd (vcv_name cr n) cval st) in *.
    assert (Hf1 : fget mem st1 = None).
    { unfold base_ok in Hb. apply andb_prop in Hb as [_ F].
      rewrite Hoth; [exact Hf|]. destruct (String.eqb mem (vcv_name cr n)) eqn:E; [|reflexivity].
      apply String.eqb_eq in E. exfalso. exact (Hshape _ _ F E). }
    assert (Hm1 : mget mem st1 = Some (vec_type (btype body), VVec [])).
    { unfold st1. rewrite mget_upd. subst old. exact Hm. }
    destruct cval; cbn [rbind]; try exact I; try reflexivity.
    destruct (vec_loop ev (btype body) body ps l []) as [vs|f|k] eqn:Ev; cbn [rbind]; [| |exact I].
    + rewrite (loop_push brs ev _ _ mem body ps n _ l st1 [] Hf1 Hiv Hmb Hmf Hifiv Hib Hbi Hm1); rewrite Ev; [|exact I].
      destruct (assign_updm mem (VVec vs) st1 _ _ Hf1 Hm1) as (_ & _ & G & O & Fr & Rw).
      eexists. split; [reflexivity|]. split; [congruence|]. split; [|split].
      * intros y Hy. rewrite fget_updm. apply Hoth. destruct (String.eqb y (vcv_name cr n)) eqn:E; [|reflexivity].
        apply String.eqb_eq in E. exfalso. apply Hy. left; auto.
      * intros m Hmne. rewrite (O m Hmne). apply mget_upd.
      * exists (VVec vs). split; [reflexivity|]. split; [eexists; reflexivity|exact G].
    + rewrite (loop_push brs ev _ _ mem body ps n _ l st1 [] Hf1 Hiv Hmb Hmf Hifiv Hib Hbi Hm1); rewrite Ev; [reflexivity|exact I].
  - destruct D as [(tcv & v0 & Dcv) Disf]. unfold first_stmts. rewrite exec_stmts_cons. cbn [exec_stmt].
    destruct (assoc_ss (c_ctype cr, c_bank cr) (ev_colls ev)) as [cval|]; [|reflexivity].
    destruct (assign_upd (vcv_name cr n) cval st tcv v0 Dcv) as (Has & _ & Hcv1 & Hoth & Mem1 & R1).
    rewrite Has. cbn [rbind]. rewrite exec_stmts_cons. unfold tfirst_loop, tfirst_capture. rewrite exec_for.
    change (eval ev (upd (vcv_name cr n) cval st) (CDeref (CVar (vcv_name cr n))))
      with (rbind (eval ev (upd (vcv_name cr n) cval st) (CVar (vcv_name cr n)))
                  (fun x => match x with VNull => RFault FNullDeref | _ => ROk x end)).
    rewrite eval_var, (lookup_fget _ _ _ Hcv1).
    set (st1 := upd (vcv_name cr n) cval st) in *.
    unfold base_ok in Hb. apply andb_prop in Hb as [Hl F]. apply negb_true_iff in Hl.
    assert (Ne1 : String.eqb (isf_name (n + gsize ps)) (vcv_name cr n) = false) by (apply nm_neq; [reflexivity|exact Hl|lia]).
    assert (Ne2 : String.eqb (isf_name (n + gsize ps)) (iv_name n) = false) by (apply nm_neq; [reflexivity|reflexivity|lia]).
    assert (Ne3 : String.eqb (iv_name n) (isf_name (n + gsize ps)) = false) by (apply nm_neq; [reflexivity|reflexivity|lia]).
    assert (Hisf1 : fget (isf_name (n + gsize ps)) st1 = Some ("bool", VBool true)) by (rewrite (Hoth _ Ne1); exact Disf).
    assert (Hf1 : fget mem st1 = None).
    { rewrite Hoth; [exact Hf|]. destruct (String.eqb mem (vcv_name cr n)) eqn:E; [|reflexivity].
      apply String.eqb_eq in E. exfalso. exact (Hshape _ _ F E). }
    assert (Hm1 : mget mem st1 = Some (pa_type body, old)) by (unfold st1; rewrite mget_upd; exact Hm).
    destruct cval; cbn [rbind]; try exact I; try reflexivity.
    assert (Nfb : String.eqb (isf_name (n + gsize ps)) (bo_name n) = false) by (apply nm_neq_base; [reflexivity|reflexivity|discriminate]).
    pose proof (loop_first brs ev (iv_name n) (c_arrow cr) (isf_name (n + gsize ps)) mem body ps n l st1 None old Ne3 Ne2 Hiv Nfb Hmb Hib Hbi Hisf1 Hf1 Hm1) as L.
    destruct (first_loop ev (pa_type body) body ps l None) as [o|f|k] eqn:Ef; cbn [rbind]; [| |exact I].
    + rewrite (L I). cbn [rbind]. rewrite exec_one. unfold first_state.
      destruct o as [x|].
      * destruct (assign_upd (isf_name (n + gsize ps)) (VBool false) st1 _ _ Hisf1) as (_ & _ & G1 & O1 & M1 & Rw1).
        assert (Hme : String.eqb mem (isf_name (n + gsize ps)) = false).
        { destruct (String.eqb mem (isf_name (n + gsize ps))) eqn:E; [|reflexivity]. apply String.eqb_eq in E. exfalso.
          exact (Hshape "is_first" (S (S (n + gsize ps))) eq_refl E). }
        assert (Hf2 : fget mem (upd (isf_name (n + gsize ps)) (VBool false) st1) = None) by (rewrite (O1 mem Hme); exact Hf1).
        assert (Hm2 : mget mem (upd (isf_name (n + gsize ps)) (VBool false) st1) = Some (pa_type body, old)) by (rewrite mget_upd; exact Hm1).
        destruct (assign_updm mem x (upd (isf_name (n + gsize ps)) (VBool false) st1) _ _ Hf2 Hm2) as (_ & _ & G2 & O2 & Fr2 & Rw2).
        set (st2 := updm mem x (upd (isf_name (n + gsize ps)) (VBool false) st1)) in *.
        assert (Hl2 : lookup (isf_name (n + gsize ps)) st2 = Some ("bool", VBool false)).
        { apply lookup_fget. unfold st2. rewrite fget_updm. exact G1. }
        rewrite (throw_if_done brs ev (isf_name (n + gsize ps)) line st2 "bool" Hl2).
        eexists. split; [reflexivity|]. split; [rewrite Rw2, Rw1; exact R1|]. split; [|split].
        -- intros y Hy. unfold st2. rewrite fget_updm.
           assert (Y1 : String.eqb y (isf_name (n + gsize ps)) = false).
           { destruct (String.eqb y (isf_name (n + gsize ps))) eqn:E; [|reflexivity]. apply String.eqb_eq in E. exfalso. apply Hy. right; left; auto. }
           assert (Y2 : String.eqb y (vcv_name cr n) = false).
           { destruct (String.eqb y (vcv_name cr n)) eqn:E; [|reflexivity]. apply String.eqb_eq in E. exfalso. apply Hy. left; auto. }
           rewrite (O1 y Y1). apply (Hoth y Y2).
        -- intros m Hmne. rewrite (O2 m Hmne). rewrite mget_upd. apply mget_upd.
        -- exists x. split; [reflexivity|exact G2].
      * rewrite (throw_if_armed brs ev (isf_name (n + gsize ps)) line st1 "bool" (lookup_fget _ _ _ Hisf1)). reflexivity.
    + rewrite (L I). reflexivity.
  - destruct D as (tcv & v0 & Dcv). unfold vec2_stmts. rewrite exec_stmts_cons. cbn [exec_stmt].
    destruct (assoc_ss (c_ctype c1, c_bank c1) (ev_colls ev)) as [cval|]; [|reflexivity].
    destruct (assign_upd (vcv_name c1 n) cval st tcv v0 Dcv) as (Has & _ & Hcv1 & Hoth & Mem1 & R1).
    rewrite Has. cbn [rbind]. rewrite exec_one. unfold tvec2_loop. rewrite exec_for.
    change (eval ev (upd (vcv_name c1 n) cval st) (CDeref (CVar (vcv_name c1 n))))
      with (rbind (eval ev (upd (vcv_name c1 n) cval st) (CVar (vcv_name c1 n)))
                  (fun x => match x with VNull => RFault FNullDeref | _ => ROk x end)).
    rewrite eval_var, (lookup_fget _ _ _ Hcv1).
    set (st1 := upd (vcv_name c1 n) cval st) in *.
    apply andb_prop in Hb as [Hb1 Hb2].
    unfold base_ok in Hb1, Hb2. apply andb_prop in Hb1 as [L1 F1]. apply andb_prop in Hb2 as [L2 F2].
    apply negb_true_iff in L1. apply negb_true_iff in L2.
    assert (Hf1 : fget mem st1 = None).
    { rewrite Hoth; [exact Hf|]. destruct (String.eqb mem (vcv_name c1 n)) eqn:E; [|reflexivity].
      apply String.eqb_eq in E. exfalso. exact (Hshape _ _ F1 E). }
    assert (Hm1 : mget mem st1 = Some (vec_type (vec_type (btype body)), VVec [])).
    { unfold st1. rewrite mget_upd. subst old. exact Hm. }
    assert (Hmc : String.eqb mem (vcv_name c2 (c2_at n g1)) = false).
    { destruct (String.eqb mem (vcv_name c2 (c2_at n g1))) eqn:E; [|reflexivity]. apply String.eqb_eq in E. exfalso. exact (Hshape _ _ F2 E). }
    assert (Hmnt : String.eqb mem (nt_name ntk) = false).
    { destruct (String.eqb mem (nt_name ntk)) eqn:E; [|reflexivity]. apply String.eqb_eq in E. exfalso. exact (Hshape "ntuple" ntk eq_refl E). }
    cbn [col_size] in Hntk. unfold c2_at in *.
    assert (Hntc : String.eqb (nt_name ntk) (vcv_name c2 (S (S n) + gsize g1)) = false) by (apply nm_neq; [reflexivity|exact L2|lia]).
    assert (Hntiv : String.eqb (nt_name ntk) (iv_name n) = false) by (apply nm_neq_base; [reflexivity|reflexivity|discriminate]).
    assert (Hciv : String.eqb (vcv_name c2 (S (S n) + gsize g1)) (iv_name n) = false) by (apply nm_neq; [exact L2|reflexivity|lia]).
    assert (Hntiv2 : String.eqb (nt_name ntk) (iv_name (S (S n) + gsize g1)) = false) by (apply nm_neq_base; [reflexivity|reflexivity|discriminate]).
    assert (Hntbo2 : String.eqb (nt_name ntk) (bo_name (S (S n) + gsize g1)) = false) by (apply nm_neq_base; [reflexivity|reflexivity|discriminate]).
    assert (Hntif : forall j, String.eqb (nt_name ntk) (if_name j) = false) by (intro j; apply nm_neq_base; [reflexivity|reflexivity|discriminate]).
    destruct cval; cbn [rbind]; try exact I; try reflexivity.
    pose proof (loop_vec2 brs ev idiom (c_arrow c1) g1 c2 g2 body mem (nt_name ntk) n l st1 [] Hf1 Hm1 Hiv Hmb Hmc Hmnt Hntc Hntiv Hciv Hntiv2 Hntbo2 Hntif) as LV.
    unfold c2_at in LV.
    destruct (vec2_loop ev g1 c2 g2 body l []) as [vs|f|k] eqn:Ev; cbn [rbind]; [| |exact I].
    + rewrite (LV I).
      destruct (assign_updm mem (VVec vs) st1 _ _ Hf1 Hm1) as (_ & _ & G & O & Fr & Rw).
      eexists. split; [reflexivity|]. split; [congruence|]. split; [|split].
      * intros y Hy. rewrite fget_updm. apply Hoth. destruct (String.eqb y (vcv_name c1 n)) eqn:E; [|reflexivity].
        apply String.eqb_eq in E. exfalso. apply Hy. left; auto.
      * intros m Hmne. rewrite (O m Hmne). apply mget_upd.
      * exists (VVec vs). split; [reflexivity|]. split; [eexists; reflexivity|exact G].
    + rewrite (LV I). reflexivity.
  - destruct D as (tcv & v0 & Dcv). unfold cflat_stmts. rewrite exec_stmts_cons. cbn [exec_stmt].
    destruct (assoc_ss (c_ctype c1, c_bank c1) (ev_colls ev)) as [cval|]; [|reflexivity].
    destruct (assign_upd (vcv_name c1 n) cval st tcv v0 Dcv) as (Has & _ & Hcv1 & Hoth & Mem1 & R1).
    rewrite Has. cbn [rbind]. rewrite exec_one. unfold tflat_loop. rewrite exec_for.
    change (eval ev (upd (vcv_name c1 n) cval st) (CDeref (CVar (vcv_name c1 n))))
      with (rbind (eval ev (upd (vcv_name c1 n) cval st) (CVar (vcv_name c1 n)))
                  (fun x => match x with VNull => RFault FNullDeref | _ => ROk x end)).
    rewrite eval_var, (lookup_fget _ _ _ Hcv1).
    set (st1 := upd (vcv_name c1 n) cval st) in *.
    apply andb_prop in Hb as [Hb1 Hb2].
    unfold base_ok in Hb1, Hb2. apply andb_prop in Hb1 as [L1 F1]. apply andb_prop in Hb2 as [L2 F2].
    apply negb_true_iff in L1. apply negb_true_iff in L2.
    assert (Hf1 : fget mem st1 = None).
    { rewrite Hoth; [exact Hf|]. destruct (String.eqb mem (vcv_name c1 n)) eqn:E; [|reflexivity].
      apply String.eqb_eq in E. exfalso. exact (Hshape _ _ F1 E). }
    assert (Hm1 : mget mem st1 = Some (vec_type (btype body), VVec [])).
    { unfold st1. rewrite mget_upd. subst old. exact Hm. }
    assert (Hmc : String.eqb mem (vcv_name c2 (c2_at n g1)) = false).
    { destruct (String.eqb mem (vcv_name c2 (c2_at n g1))) eqn:E; [|reflexivity]. apply String.eqb_eq in E. exfalso. exact (Hshape _ _ F2 E). }
    assert (Hmiv2 : String.eqb mem (iv_name (c2_at n g1)) = false) by apply mem_neq_iv_gen, Hshape.
    assert (Hmbo2 : String.eqb mem (bo_name (c2_at n g1)) = false).
    { destruct (String.eqb mem (bo_name (c2_at n g1))) eqn:E; [|reflexivity]. apply String.eqb_eq in E. exfalso. exact (Hshape "bool_op" _ eq_refl E). }
    unfold c2_at in *.
    assert (Hciv : String.eqb (vcv_name c2 (S (S n) + gsize g1)) (iv_name n) = false) by (apply nm_neq; [exact L2|reflexivity|lia]).
    destruct cval; cbn [rbind]; try exact I; try reflexivity.
    pose proof (loop_flat brs ev idiom (c_arrow c1) g1 c2 g2 body mem n l st1 [] Hf1 Hm1 Hiv Hmb Hmc Hciv Hmiv2 Hmbo2 Hmf) as LV.
    unfold c2_at in LV.
    destruct (flat_loop ev g1 c2 g2 body l []) as [vs|f|k] eqn:Ev; cbn [rbind]; [| |exact I].
    + rewrite (LV I).
      destruct (assign_updm mem (VVec vs) st1 _ _ Hf1 Hm1) as (_ & _ & G & O & Fr & Rw).
      eexists. split; [reflexivity|]. split; [congruence|]. split; [|split].
      * intros y Hy. rewrite fget_updm. apply Hoth. destruct (String.eqb y (vcv_name c1 n)) eqn:E; [|reflexivity].
        apply String.eqb_eq in E. exfalso. apply Hy. left; auto.
      * intros m Hmne. rewrite (O m Hmne). apply mget_upd.
      * exists (VVec vs). split; [reflexivity|]. split; [eexists; reflexivity|exact G].
    + rewrite (LV I). reflexivity.
  - destruct D as [(tcv & v0 & Dcv) Disf]. unfold firstb_stmts. rewrite exec_stmts_cons. cbn [exec_stmt].
    destruct (assoc_ss (c_ctype cr, c_bank cr) (ev_colls ev)) as [cval|]; [|reflexivity].
    destruct (assign_upd (vcv_name cr n) cval st tcv v0 Dcv) as (Has & _ & Hcv1 & Hoth & Mem1 & R1).
    rewrite Has. cbn [rbind]. rewrite exec_stmts_cons. unfold tfirstb_loop. rewrite exec_for.
    change (eval ev (upd (vcv_name cr n) cval st) (CDeref (CVar (vcv_name cr n))))
      with (rbind (eval ev (upd (vcv_name cr n) cval st) (CVar (vcv_name cr n)))
                  (fun x => match x with VNull => RFault FNullDeref | _ => ROk x end)).
    rewrite eval_var, (lookup_fget _ _ _ Hcv1).
    set (st1 := upd (vcv_name cr n) cval st) in *.
    set (isf := isf_name (isfb_at n ps body)) in *.
    unfold base_ok in Hb. apply andb_prop in Hb as [Hl F]. apply negb_true_iff in Hl.
    assert (Ne1 : String.eqb isf (vcv_name cr n) = false) by (apply nm_neq; [reflexivity|exact Hl|unfold isfb_at; lia]).
    assert (Ne2 : String.eqb isf (iv_name n) = false) by (apply nm_neq_base; [reflexivity|reflexivity|discriminate]).
    assert (Hisf1 : fget isf st1 = Some ("bool", VBool true)) by (rewrite (Hoth _ Ne1); exact Disf).
    assert (Hf1 : fget mem st1 = None).
    { rewrite Hoth; [exact Hf|]. destruct (String.eqb mem (vcv_name cr n)) eqn:E; [|reflexivity].
      apply String.eqb_eq in E. exfalso. exact (Hshape _ _ F E). }
    assert (Hm1 : mget mem st1 = Some (btype body, old)) by (unfold st1; rewrite mget_upd; exact Hm).
    assert (Hme : String.eqb mem isf = false).
    { destruct (String.eqb mem isf) eqn:E; [|reflexivity]. apply String.eqb_eq in E. exfalso.
      exact (Hshape "is_first" (S (S (isfb_at n ps body))) eq_refl E). }
    assert (Nfb : String.eqb isf (bo_name n) = false) by (apply nm_neq_base; [reflexivity|reflexivity|discriminate]).
    assert (Nfif : forall j, String.eqb isf (if_name j) = false) by (intro j; apply nm_neq_base; [reflexivity|reflexivity|discriminate]).
    destruct cval; cbn [rbind]; try exact I; try reflexivity.
    pose proof (loop_first_b brs ev (iv_name n) (c_arrow cr) isf mem body ps n (n + gsize ps) l st1 None old Ne2 Hiv Hme Nfb Hmb Hib Hbi Nfif Hmf Hifiv Hisf1 Hf1 Hm1) as L.
    destruct (firstb_loop ev (btype body) body ps l None) as [o|f|k] eqn:Ef; cbn [rbind]; [| |exact I].
    + rewrite (L I). cbn [rbind]. rewrite exec_one. unfold first_state.
      destruct o as [x|].
      * destruct (assign_upd isf (VBool false) st1 _ _ Hisf1) as (_ & _ & G1 & O1 & M1 & Rw1).
        assert (Hf2 : fget mem (upd isf (VBool false) st1) = None) by (rewrite (O1 mem Hme); exact Hf1).
        assert (Hm2 : mget mem (upd isf (VBool false) st1) = Some (btype body, old)) by (rewrite mget_upd; exact Hm1).
        destruct (assign_updm mem x (upd isf (VBool false) st1) _ _ Hf2 Hm2) as (_ & _ & G2 & O2 & Fr2 & Rw2).
        set (st2 := updm mem x (upd isf (VBool false) st1)) in *.
        assert (Hl2 : lookup isf st2 = Some ("bool", VBool false)).
        { apply lookup_fget. unfold st2. rewrite fget_updm. exact G1. }
        rewrite (throw_if_done brs ev isf line st2 "bool" Hl2).
        eexists. split; [reflexivity|]. split; [rewrite Rw2, Rw1; exact R1|]. split; [|split].
        -- intros y Hy. unfold st2. rewrite fget_updm.
           assert (Y1 : String.eqb y isf = false).
           { destruct (String.eqb y isf) eqn:E; [|reflexivity]. apply String.eqb_eq in E. exfalso. apply Hy. right; left; auto. }
           assert (Y2 : String.eqb y (vcv_name cr n) = false).
           { destruct (String.eqb y (vcv_name cr n)) eqn:E; [|reflexivity]. apply String.eqb_eq in E. exfalso. apply Hy. left; auto. }
           rewrite (O1 y Y1). apply (Hoth y Y2).
        -- intros m Hmne. rewrite (O2 m Hmne). rewrite mget_upd. apply mget_upd.
        -- exists x. split; [reflexivity|exact G2].
      * rewrite (throw_if_armed brs ev isf line st1 "bool" (lookup_fget _ _ _ Hisf1)). reflexivity.
    + rewrite (L I). reflexivity.
Qed.

(* ---------- all columns ---------- *)
Fixpoint row_done (ev : event) (r : row) (nf k n : nat) (st : state) (vs : list (option value)) : Prop :=
  match r, vs with
  | [], [] => True
  | (name, c) :: t, v :: vs' => col_done ev c (mem_name name (nf + k)) n st v /\ row_done ev t nf (S k) (n + col_size c) st vs'
  | _, _ => False
  end.
Lemma row_done_ext (ev : event) (r : row) : forall nf k n st st' vs,
  (forall x, In x (rvars r n) -> fget x st' = fget x st) -> (forall m, In m (rmems r nf k) -> mget m st' = mget m st) ->
  row_done ev r nf k n st vs -> row_done ev r nf k n st' vs.
Proof.
  induction r as [|[name c] t IH]; intros nf k n st st' vs Hf Hm D; destruct vs as [|v vs']; cbn [row_done rvars rmems] in *; try exact D.
  destruct D as [Dc Dt]. split.
  - eapply col_done_ext; [| |exact Dc]; [intros x Hx; apply Hf, in_or_app; left; exact Hx|apply Hm; left; reflexivity].
  - eapply IH; [| |exact Dt]; [intros x Hx; apply Hf, in_or_app; right; exact Hx|intros m Hx; apply Hm; right; exact Hx].
Qed.

Fixpoint mems_init (r : row) (nf k : nat) (st : state) : Prop :=
  match r with
  | [] => True
  | (name, c) :: t =>
      (exists old, mget (mem_name name (nf + k)) st = Some (col_type c, old) /\
                   match c with ColVec _ _ _ | ColVec2 _ _ _ _ _ | ColFlat _ _ _ _ _ => old = VVec [] | _ => True end) /\ mems_init t nf (S k) st
  end.
Lemma mems_init_ext (r : row) : forall nf k st st',
  (forall m, In m (rmems r nf k) -> mget m st' = mget m st) -> mems_init r nf k st -> mems_init r nf k st'.
Proof.
  induction r as [|[name c] t IH]; intros nf k st st' H D; cbn [mems_init rmems] in *; [exact I|].
  destruct D as [(old & M & O) Dt]. split.
  - exists old. rewrite H; [split; assumption|left; reflexivity].
  - eapply IH; [|exact Dt]. intros m Hm. apply H. right; exact Hm.
Qed.

Lemma mem_name_shape (name : string) (idx : nat) : forall b i, first_not_underscore b = true -> mem_name name idx <> nm b i.
Proof. intros b i F. apply mem_not_shape, F. Qed.

Lemma row_exec (brs : list branch) (ev : event) (idiom : string) (r : row) : forall (nf k ntk n : nat) (st : state),
  n + row_size r <= ntk ->
  row_bases_ok r = true -> row_declared r n st -> mems_init r nf k st ->
  (forall m, In m (rmems r nf k) -> fget m st = None) -> NoDup (rmems r nf k) ->
  match drow1 ev r with
  | ROk vs => exists st', exec_stmts brs ev (rss idiom r nf k ntk n) st = ROk st' /\ rows st' = rows st /\
                          (forall y, ~ In y (rvars r n) -> fget y st' = fget y st) /\
                          (forall m, ~ In m (rmems r nf k) -> mget m st' = mget m st) /\
                          row_done ev r nf k n st' vs
  | RFault f => exec_stmts brs ev (rss idiom r nf k ntk n) st = RFault f
  | RStuck _ => True
  end.
Proof.
  induction r as [|[name c] t IH]; intros nf k ntk n st Hntk Hb D Mi Sep Nd; cbn [drow1 rss row_bases_ok row_declared mems_init rmems rvars row_size] in *.
  - exists st. repeat split; auto.
  - apply andb_prop in Hb as [Hc Ht]. destruct D as [Dc Dt]. destruct Mi as [Mc Mt].
    set (mem := mem_name name (nf + k)) in *.
    inversion Nd as [|? ? Nin Nd']; subst.
    assert (Hntk1 : n + col_size c <= ntk) by lia.
    pose proof (col_exec brs ev idiom c mem ntk n st Hntk1 Hc Dc (Sep mem (or_introl eq_refl)) (mem_name_shape name (nf + k)) (mem_neq_iv name (nf + k) n) Mc) as C.
    rewrite exec_stmts_app.
    destruct (dcol1 ev c) as [v|f|kk]; cbn [rbind]; [|rewrite C; reflexivity|exact I].
    destruct C as (st1 & E1 & R1 & U1 & Mo1 & Dn1). rewrite E1. cbn [rbind].
    assert (Dt1 : row_declared t (n + col_size c) st1).
    { eapply row_declared_ext; [|exact Dt]. intros x Hx. apply U1. intro Hxc. exact (cvars_rvars_disjoint c t n x Hc Ht Hxc Hx). }
    assert (Mem_ne : forall m, In m (rmems t nf (S k)) -> String.eqb m mem = false).
    { intros m Hm. destruct (String.eqb m mem) eqn:E; [|reflexivity]. apply String.eqb_eq in E. subst m. contradiction. }
    assert (Mt1 : mems_init t nf (S k) st1).
    { eapply mems_init_ext; [|exact Mt]. intros m Hm. apply Mo1, Mem_ne, Hm. }
    assert (Sep1 : forall m, In m (rmems t nf (S k)) -> fget m st1 = None).
    { intros m Hm. rewrite U1; [apply Sep; right; exact Hm|].
      clear - Hm Hc. revert Hm. generalize (S k). induction t as [|[nm' c'] t' IHt]; intros k' Hm; cbn [rmems] in Hm; [destruct Hm|].
      destruct Hm as [<-|Hm]; [apply mem_not_cvar, Hc|exact (IHt _ Hm)]. }
    assert (Hntk2 : n + col_size c + row_size t <= col_nts c + ntk) by lia.
    specialize (IH nf (S k) (col_nts c + ntk) (n + col_size c) st1 Hntk2 Ht Dt1 Mt1 Sep1 Nd').
    destruct (drow1 ev t) as [vs|f|kk]; cbn [rbind]; [|exact IH|exact I].
    destruct IH as (st2 & E2 & R2 & U2 & Mo2 & Dn2).
    exists st2. split; [exact E2|]. split; [congruence|]. split; [|split; [|split]].
    + intros y Hy. rewrite U2, U1; [reflexivity| |]; intro H; apply Hy, in_or_app; auto.
    + intros m Hm. rewrite Mo2; [apply Mo1|]; [|intro H; apply Hm; right; exact H].
      destruct (String.eqb m mem) eqn:E; [|reflexivity]. apply String.eqb_eq in E. exfalso. apply Hm. left; auto.
    + eapply col_done_ext; [| |exact Dn1].
      * intros x Hx. apply U2. intro Hxt. exact (cvars_rvars_disjoint c t n x Hc Ht Hx Hxt).
      * apply Mo2. exact Nin.
    + exact Dn2.
Qed.

(* ---------- storing the scalar columns, Fill, clearing the vector columns ---------- *)
Fixpoint row_filled (r : row) (nf k : nat) (st : state) (vs : list value) : Prop :=
  match r, vs with
  | [], [] => True
  | (name, c) :: t, v :: vs' =>
      mget (mem_name name (nf + k)) st = Some (col_type c, v) /\
      match c with ColVec _ _ _ | ColVec2 _ _ _ _ _ | ColFlat _ _ _ _ _ => exists l, v = VVec l | _ => True end /\ row_filled t nf (S k) st vs'
  | _, _ => False
  end.
Lemma row_filled_ext (r : row) : forall nf k st st' vs,
  (forall m, In m (rmems r nf k) -> mget m st' = mget m st) -> row_filled r nf k st vs -> row_filled r nf k st' vs.
Proof.
  induction r as [|[name c] t IH]; intros nf k st st' vs H D; destruct vs as [|v vs']; cbn [row_filled rmems] in *; try exact D.
  destruct D as (M & Sh & Dt). split; [rewrite H; [exact M|left; reflexivity]|]. split; [exact Sh|].
  eapply IH; [|exact Dt]. intros m Hm. apply H. right; exact Hm.
Qed.

Lemma mem_in_neq (t : row) (nf k : nat) (mem : string) : ~ In mem (rmems t nf k) ->
  forall m, In m (rmems t nf k) -> String.eqb m mem = false.
Proof.
  intros Nin m Hm. destruct (String.eqb m mem) eqn:E; [|reflexivity]. apply String.eqb_eq in E. subst m. contradiction.
Qed.

Lemma sets_exec (brs : list branch) (ev : event) (r : row) : forall (nf k n : nat) (st : state) (ps : list (option value)),
  row_done ev r nf k n st ps -> (forall m, In m (rmems r nf k) -> fget m st = None) -> NoDup (rmems r nf k) ->
  match drow2 ev r ps with
  | ROk vs => exists st', exec_stmts brs ev (rsets r nf k n) st = ROk st' /\ frames st' = frames st /\ rows st' = rows st /\
                          (forall m, ~ In m (rmems r nf k) -> mget m st' = mget m st) /\ row_filled r nf k st' vs
  | RFault f => exec_stmts brs ev (rsets r nf k n) st = RFault f
  | RStuck _ => True
  end.
Proof.
  induction r as [|[name c] t IH]; intros nf k n st ps D Sep Nd; destruct ps as [|p ps']; cbn [row_done rsets rmems row_filled drow2] in *; try destruct D.
  - exists st. repeat split; auto.
  - set (mem := mem_name name (nf + k)) in *. inversion Nd as [|? ? Nin Nd']; subst.
    rename H into Dc. rename H0 into Dt.
    destruct c as [e|cr gd body|cr gd body line|c1 g1 c2 g2 body|c1 g1 c2 g2 body|cr gd body line]; cbn [col_done col_size dcol2] in *.
    + destruct Dc as (B & E & (old & M)).
      rewrite exec_stmts_cons, exec_set.
      destruct (de ev e) as [v0|f|kk] eqn:Ed; cbn [rbind]; [|rewrite (E I); reflexivity|exact I].
      rewrite (E I). cbn [rbind].
      destruct (assign_updm mem (conv (ex_type e) v0) st _ _ (Sep mem (or_introl eq_refl)) M) as (Ha & Hlk & G & O & Fr & Rw).
      rewrite Hlk, Ha. cbn [rbind].
      set (st1 := updm mem (conv (ex_type e) v0) st) in *.
      assert (Dt1 : row_done ev t nf (S k) (n + ex_size e) st1 ps').
      { eapply row_done_ext; [| |exact Dt]; [intros x _; apply fget_updm|intros m Hm; apply O, (mem_in_neq t nf (S k) mem Nin m Hm)]. }
      specialize (IH nf (S k) (n + ex_size e) st1 ps' Dt1).
      assert (Sep1 : forall m, In m (rmems t nf (S k)) -> fget m st1 = None).
      { intros m Hm. unfold st1. rewrite fget_updm. apply Sep. right; exact Hm. }
      specialize (IH Sep1 Nd').
      destruct (drow2 ev t ps') as [vs'|f|kk]; cbn [rbind]; [|exact IH|exact I].
      destruct IH as (st2 & E2 & F2 & R2 & Mo2 & Fi2).
      exists st2. split; [exact E2|]. split; [congruence|]. split; [congruence|]. split; [|split; [|split]].
      * intros m Hm. rewrite Mo2; [apply O|]; [|intro H; apply Hm; right; exact H].
        destruct (String.eqb m mem) eqn:Em; [|reflexivity]. apply String.eqb_eq in Em. exfalso. apply Hm. left; auto.
      * rewrite (Mo2 mem Nin). exact G.
      * exact I.
      * exact Fi2.
    + destruct Dc as (v & Ep & Sh & M). subst p. cbn [rbind].
      specialize (IH nf (S k) (n + (2 + gsize gd + nifs body)) st ps' Dt).
      assert (Sep1 : forall m, In m (rmems t nf (S k)) -> fget m st = None) by (intros m Hm; apply Sep; right; exact Hm).
      specialize (IH Sep1 Nd').
      destruct (drow2 ev t ps') as [vs'|f|kk]; cbn [rbind]; [|exact IH|exact I].
      destruct IH as (st2 & E2 & F2 & R2 & Mo2 & Fi2).
      exists st2. split; [exact E2|]. split; [exact F2|]. split; [exact R2|]. split; [|split; [|split]].
      * intros m Hm. apply Mo2. intro H. apply Hm. right; exact H.
      * rewrite (Mo2 mem Nin). exact M.
      * exact Sh.
      * exact Fi2.
    + destruct Dc as (v & Ep & M). subst p. cbn [rbind].
      specialize (IH nf (S k) (n + (3 + gsize gd)) st ps' Dt).
      assert (Sep1 : forall m, In m (rmems t nf (S k)) -> fget m st = None) by (intros m Hm; apply Sep; right; exact Hm).
      specialize (IH Sep1 Nd').
      destruct (drow2 ev t ps') as [vs'|f|kk]; cbn [rbind]; [|exact IH|exact I].
      destruct IH as (st2 & E2 & F2 & R2 & Mo2 & Fi2).
      exists st2. split; [exact E2|]. split; [exact F2|]. split; [exact R2|]. split; [|split; [|split]].
      * intros m Hm. apply Mo2. intro H. apply Hm. right; exact H.
      * rewrite (Mo2 mem Nin). exact M.
      * exact I.
      * exact Fi2.
    + destruct Dc as (v & Ep & Sh & M). subst p. cbn [rbind].
      specialize (IH nf (S k) (n + (4 + gsize g1 + gsize g2 + nifs body)) st ps' Dt).
      assert (Sep1 : forall m, In m (rmems t nf (S k)) -> fget m st = None) by (intros m Hm; apply Sep; right; exact Hm).
      specialize (IH Sep1 Nd').
      destruct (drow2 ev t ps') as [vs'|f|kk]; cbn [rbind]; [|exact IH|exact I].
      destruct IH as (st2 & E2 & F2 & R2 & Mo2 & Fi2).
      exists st2. split; [exact E2|]. split; [exact F2|]. split; [exact R2|]. split; [|split; [|split]].
      * intros m Hm. apply Mo2. intro H. apply Hm. right; exact H.
      * rewrite (Mo2 mem Nin). exact M.
      * exact Sh.
      * exact Fi2.
    + destruct Dc as (v & Ep & Sh & M). subst p. cbn [rbind].
      specialize (IH nf (S k) (n + (4 + gsize g1 + gsize g2 + nifs body)) st ps' Dt).
      assert (Sep1 : forall m, In m (rmems t nf (S k)) -> fget m st = None) by (intros m Hm; apply Sep; right; exact Hm).
      specialize (IH Sep1 Nd').
      destruct (drow2 ev t ps') as [vs'|f|kk]; cbn [rbind]; [|exact IH|exact I].
      destruct IH as (st2 & E2 & F2 & R2 & Mo2 & Fi2).
      exists st2. split; [exact E2|]. split; [exact F2|]. split; [exact R2|]. split; [|split; [|split]].
      * intros m Hm. apply Mo2. intro H. apply Hm. right; exact H.
      * rewrite (Mo2 mem Nin). exact M.
      * exact Sh.
      * exact Fi2.
    + destruct Dc as (v & Ep & M). subst p. cbn [rbind].
      specialize (IH nf (S k) (n + (3 + gsize gd + nifs body)) st ps' Dt).
      assert (Sep1 : forall m, In m (rmems t nf (S k)) -> fget m st = None) by (intros m Hm; apply Sep; right; exact Hm).
      specialize (IH Sep1 Nd').
      destruct (drow2 ev t ps') as [vs'|f|kk]; cbn [rbind]; [|exact IH|exact I].
      destruct IH as (st2 & E2 & F2 & R2 & Mo2 & Fi2).
      exists st2. split; [exact E2|]. split; [exact F2|]. split; [exact R2|]. split; [|split; [|split]].
      * intros m Hm. apply Mo2. intro H. apply Hm. right; exact H.
      * rewrite (Mo2 mem Nin). exact M.
      * exact I.
      * exact Fi2.
Qed.

Definition mk_branch (m : (string * column) * member) : branch := {| br_name := fst (fst m); br_var := m_name (snd m) |}.
Lemma fill_row_filled (r : row) : forall nf k st vs,
  row_filled r nf k st vs -> fill_row (map mk_branch (combine r (row_members r nf k))) st = vs.
Proof.
  induction r as [|[name c] t IH]; intros nf k st vs D; destruct vs as [|v vs']; cbn [row_filled row_members combine map fill_row] in *; try destruct D; [reflexivity|].
  destruct H0 as [_ Dt]. unfold mget in H. cbn [mk_branch br_var snd m_name]. rewrite H. f_equal. apply (IH nf (S k) st vs' Dt).
Qed.

Fixpoint members_after (r : row) (nf k : nat) (st : state) (vs : list value) : Prop :=
  match r, vs with
  | [], [] => True
  | (name, c) :: t, v :: vs' =>
      mget (mem_name name (nf + k)) st = Some (col_type c, match c with ColVec _ _ _ | ColVec2 _ _ _ _ _ | ColFlat _ _ _ _ _ => VVec [] | _ => v end) /\
      members_after t nf (S k) st vs'
  | _, _ => False
  end.
Lemma members_after_ext (r : row) : forall nf k st st' vs,
  (forall m, In m (rmems r nf k) -> mget m st' = mget m st) -> members_after r nf k st vs -> members_after r nf k st' vs.
Proof.
  induction r as [|[name c] t IH]; intros nf k st st' vs H D; destruct vs as [|v vs']; cbn [members_after rmems] in *; try exact D.
  destruct D as (M & Dt). split; [rewrite H; [exact M|left; reflexivity]|].
  eapply IH; [|exact Dt]. intros m Hm. apply H. right; exact Hm.
Qed.

Lemma clears_exec (brs : list branch) (ev : event) (r : row) : forall (nf k : nat) (st : state) (vs : list value),
  row_filled r nf k st vs -> (forall m, In m (rmems r nf k) -> fget m st = None) -> NoDup (rmems r nf k) ->
  exists st', exec_stmts brs ev (trow_clears r nf k) st = ROk st' /\ frames st' = frames st /\ rows st' = rows st /\
              (forall m, ~ In m (rmems r nf k) -> mget m st' = mget m st) /\ members_after r nf k st' vs.
Proof.
  induction r as [|[name c] t IH]; intros nf k st vs D Sep Nd; destruct vs as [|v vs']; cbn [row_filled trow_clears rmems members_after] in *; try destruct D.
  - exists st. repeat split; auto.
  - set (mem := mem_name name (nf + k)) in *. inversion Nd as [|? ? Nin Nd']; subst.
    destruct H0 as [Sh Dt]. rename H into M.
    destruct c as [e|cr ps body|cr ps body line|c1 g1 c2 g2 body|c1 g1 c2 g2 body|cr ps body line].
    + destruct (IH nf (S k) st vs' Dt) as (st2 & E2 & F2 & R2 & Mo2 & A2); [intros m Hm; apply Sep; right; exact Hm|exact Nd'|].
      exists st2. split; [exact E2|]. split; [exact F2|]. split; [exact R2|]. split; [|split].
      * intros m Hm. apply Mo2. intro H. apply Hm. right; exact H.
      * rewrite (Mo2 mem Nin). exact M.
      * exact A2.
    + destruct Sh as [l Sh]. subst v.
      destruct (assign_updm mem (VVec []) st _ _ (Sep mem (or_introl eq_refl)) M) as (Ha & Hlk & G & O & Fr & Rw).
      rewrite exec_stmts_cons. cbn [exec_stmt]. rewrite Hlk, Ha. cbn [rbind].
      set (st1 := updm mem (VVec []) st) in *.
      destruct (IH nf (S k) st1 vs') as (st2 & E2 & F2 & R2 & Mo2 & A2).
      { eapply row_filled_ext; [|exact Dt]. intros m Hm. apply O, (mem_in_neq t nf (S k) mem Nin m Hm). }
      { intros m Hm. unfold st1. rewrite fget_updm. apply Sep. right; exact Hm. }
      { exact Nd'. }
      exists st2. split; [exact E2|]. split; [congruence|]. split; [congruence|]. split; [|split].
      * intros m Hm. rewrite Mo2; [apply O|]; [|intro H; apply Hm; right; exact H].
        destruct (String.eqb m mem) eqn:Em; [|reflexivity]. apply String.eqb_eq in Em. exfalso. apply Hm. left; auto.
      * rewrite (Mo2 mem Nin). exact G.
      * exact A2.
    + destruct (IH nf (S k) st vs' Dt) as (st2 & E2 & F2 & R2 & Mo2 & A2); [intros m Hm; apply Sep; right; exact Hm|exact Nd'|].
      exists st2. split; [exact E2|]. split; [exact F2|]. split; [exact R2|]. split; [|split].
      * intros m Hm. apply Mo2. intro H. apply Hm. right; exact H.
      * rewrite (Mo2 mem Nin). exact M.
      * exact A2.
    + destruct Sh as [l Sh]. subst v.
      destruct (assign_updm mem (VVec []) st _ _ (Sep mem (or_introl eq_refl)) M) as (Ha & Hlk & G & O & Fr & Rw).
      rewrite exec_stmts_cons. cbn [exec_stmt]. rewrite Hlk, Ha. cbn [rbind].
      set (st1 := updm mem (VVec []) st) in *.
      destruct (IH nf (S k) st1 vs') as (st2 & E2 & F2 & R2 & Mo2 & A2).
      { eapply row_filled_ext; [|exact Dt]. intros m Hm. apply O, (mem_in_neq t nf (S k) mem Nin m Hm). }
      { intros m Hm. unfold st1. rewrite fget_updm. apply Sep. right; exact Hm. }
      { exact Nd'. }
      exists st2. split; [exact E2|]. split; [congruence|]. split; [congruence|]. split; [|split].
      * intros m Hm. rewrite Mo2; [apply O|]; [|intro H; apply Hm; right; exact H].
        destruct (String.eqb m mem) eqn:Em; [|reflexivity]. apply String.eqb_eq in Em. exfalso. apply Hm. left; auto.
      * rewrite (Mo2 mem Nin). exact G.
      * exact A2.
    + destruct Sh as [l Sh]. subst v.
      destruct (assign_updm mem (VVec []) st _ _ (Sep mem (or_introl eq_refl)) M) as (Ha & Hlk & G & O & Fr & Rw).
      rewrite exec_stmts_cons. cbn [exec_stmt]. rewrite Hlk, Ha. cbn [rbind].
      set (st1 := updm mem (VVec []) st) in *.
      destruct (IH nf (S k) st1 vs') as (st2 & E2 & F2 & R2 & Mo2 & A2).
      { eapply row_filled_ext; [|exact Dt]. intros m Hm. apply O, (mem_in_neq t nf (S k) mem Nin m Hm). }
      { intros m Hm. unfold st1. rewrite fget_updm. apply Sep. right; exact Hm. }
      { exact Nd'. }
      exists st2. split; [exact E2|]. split; [congruence|]. split; [congruence|]. split; [|split].
      * intros m Hm. rewrite Mo2; [apply O|]; [|intro H; apply Hm; right; exact H].
        destruct (String.eqb m mem) eqn:Em; [|reflexivity]. apply String.eqb_eq in Em. exfalso. apply Hm. left; auto.
      * rewrite (Mo2 mem Nin). exact G.
      * exact A2.
    + destruct (IH nf (S k) st vs' Dt) as (st2 & E2 & F2 & R2 & Mo2 & A2); [intros m Hm; apply Sep; right; exact Hm|exact Nd'|].
      exists st2. split; [exact E2|]. split; [exact F2|]. split; [exact R2|]. split; [|split].
      * intros m Hm. apply Mo2. intro H. apply Hm. right; exact H.
      * rewrite (Mo2 mem Nin). exact M.
      * exact A2.
Qed.

(* ---------- declarations of a row; the whole program ---------- *)
Lemma row_decls (ev : event) (r : row) : forall (n : nat) (st : state),
  row_bases_ok r = true ->
  (forall x, In x (rvars r n) -> fget x st = None) ->
  exists st', run_decls ev (rds r n) st = ROk st' /\ row_declared r n st' /\
              members st' = members st /\ rows st' = rows st /\
              (forall y, ~ In y (rvars r n) -> fget y st' = fget y st).
Proof.
  induction r as [|[name c] t IH]; intros n st Hb Hf; cbn [rds rvars row_declared row_bases_ok] in *.
  - exists st. cbn. repeat split; auto.
  - apply andb_prop in Hb as [Hc Ht]. rewrite run_decls_app.
    assert (C : exists st1, run_decls ev (cds c n) st = ROk st1 /\ col_declared c n st1 /\ members st1 = members st /\
                            rows st1 = rows st /\ (forall y, ~ In y (cvars c n) -> fget y st1 = fget y st)).
    { destruct c as [e|cr ps body|cr ps body line|cr g1 c2 g2 body|cr g1 c2 g2 body|cr ps body line]; cbn [cds col_declared cvars col_bases_ok] in *.
      5: { cbn [run_decls d_init d_name d_type].
        destruct (declare_spec (vcv_name cr n) (c_ctype cr) (default_value (c_ctype cr)) st) as (G & O & M & R).
        { apply Hf. left; reflexivity. }
        eexists. split; [reflexivity|]. split; [eauto|]. split; [exact M|]. split; [exact R|].
        intros y Hy. apply O. destruct (String.eqb y (vcv_name cr n)) eqn:E; [|reflexivity].
        apply String.eqb_eq in E. exfalso. apply Hy. left; auto. }
      4: { cbn [run_decls d_init d_name d_type].
        destruct (declare_spec (vcv_name cr n) (c_ctype cr) (default_value (c_ctype cr)) st) as (G & O & M & R).
        { apply Hf. left; reflexivity. }
        eexists. split; [reflexivity|]. split; [eauto|]. split; [exact M|]. split; [exact R|].
        intros y Hy. apply O. destruct (String.eqb y (vcv_name cr n)) eqn:E; [|reflexivity].
        apply String.eqb_eq in E. exfalso. apply Hy. left; auto. }
      - apply decls_declared; [exact Hc|]. intros x Hx. apply Hf, in_or_app. left; exact Hx.
      - cbn [run_decls d_init d_name d_type].
        destruct (declare_spec (vcv_name cr n) (c_ctype cr) (default_value (c_ctype cr)) st) as (G & O & M & R).
        { apply Hf. left; reflexivity. }
        eexists. split; [reflexivity|]. split; [eauto|]. split; [exact M|]. split; [exact R|].
        intros y Hy. apply O. destruct (String.eqb y (vcv_name cr n)) eqn:E; [|reflexivity].
        apply String.eqb_eq in E. exfalso. apply Hy. left; auto.
      - cbn [run_decls d_init d_name d_type fi_decl eval rbind].
        unfold base_ok in Hc. apply andb_prop in Hc as [Hl _]. apply negb_true_iff in Hl.
        assert (N1 : String.eqb (isf_name (n + gsize ps)) (vcv_name cr n) = false) by (apply nm_neq; [reflexivity|exact Hl|lia]).
        destruct (declare_spec (vcv_name cr n) (c_ctype cr) (default_value (c_ctype cr)) st) as (G & O & M & R).
        { apply Hf. left; reflexivity. }
        set (st1 := declare (vcv_name cr n) (c_ctype cr) (default_value (c_ctype cr)) st) in *.
        assert (F2 : fget (isf_name (n + gsize ps)) st1 = None) by (rewrite (O _ N1); apply Hf; right; left; reflexivity).
        change (init_value "bool" (VBool true)) with (VBool true).
        destruct (declare_spec (isf_name (n + gsize ps)) "bool" (VBool true) st1 F2) as (G2 & O2 & M2 & R2).
        eexists. split; [reflexivity|]. split; [split|].
        + eexists _, _. rewrite O2; [exact G|]. rewrite String.eqb_sym. exact N1.
        + exact G2.
        + split; [congruence|]. split; [congruence|]. intros y Hy.
          assert (Y1 : String.eqb y (isf_name (n + gsize ps)) = false).
          { destruct (String.eqb y (isf_name (n + gsize ps))) eqn:E; [|reflexivity]. apply String.eqb_eq in E. exfalso. apply Hy. right; left; auto. }
          assert (Y2 : String.eqb y (vcv_name cr n) = false).
          { destruct (String.eqb y (vcv_name cr n)) eqn:E; [|reflexivity]. apply String.eqb_eq in E. exfalso. apply Hy. left; auto. }
          rewrite (O2 _ Y1), (O _ Y2). reflexivity.
      - cbn [run_decls d_init d_name d_type fi_decl eval rbind].
        unfold base_ok in Hc. apply andb_prop in Hc as [Hl _]. apply negb_true_iff in Hl.
        set (isf := isf_name (isfb_at n ps body)) in *.
        assert (N1 : String.eqb isf (vcv_name cr n) = false) by (apply nm_neq; [reflexivity|exact Hl|unfold isfb_at; lia]).
        destruct (declare_spec (vcv_name cr n) (c_ctype cr) (default_value (c_ctype cr)) st) as (G & O & M & R).
        { apply Hf. left; reflexivity. }
        set (st1 := declare (vcv_name cr n) (c_ctype cr) (default_value (c_ctype cr)) st) in *.
        assert (F2 : fget isf st1 = None) by (rewrite (O _ N1); apply Hf; right; left; reflexivity).
        change (init_value "bool" (VBool true)) with (VBool true).
        destruct (declare_spec isf "bool" (VBool true) st1 F2) as (G2 & O2 & M2 & R2).
        eexists. split; [reflexivity|]. split; [split|].
        + eexists _, _. rewrite O2; [exact G|]. rewrite String.eqb_sym. exact N1.
        + exact G2.
        + split; [congruence|]. split; [congruence|]. intros y Hy.
          assert (Y1 : String.eqb y isf = false).
          { destruct (String.eqb y isf) eqn:E; [|reflexivity]. apply String.eqb_eq in E. exfalso. apply Hy. right; left; auto. }
          assert (Y2 : String.eqb y (vcv_name cr n) = false).
          { destruct (String.eqb y (vcv_name cr n)) eqn:E; [|reflexivity]. apply String.eqb_eq in E. exfalso. apply Hy. left; auto. }
          rewrite (O2 _ Y1), (O _ Y2). reflexivity. }
    destruct C as (st1 & E1 & D1 & M1 & R1 & U1). rewrite E1. cbn [rbind].
    destruct (IH (n + col_size c) st1 Ht) as (st2 & E2 & D2 & M2 & R2 & U2).
    { intros x Hx. rewrite U1; [apply Hf, in_or_app; auto|]. intro Hxc. exact (cvars_rvars_disjoint c t n x Hc Ht Hxc Hx). }
    exists st2. split; [exact E2|]. split; [split|].
    + eapply col_declared_ext; [|exact D1]. intros x Hx. apply U2. intro Hxt. exact (cvars_rvars_disjoint c t n x Hc Ht Hx Hxt).
    + exact D2.
    + split; [congruence|]. split; [congruence|]. intros y Hy. rewrite U2, U1; [reflexivity| |]; intro H; apply Hy, in_or_app; auto.
Qed.

(* the member state the analysis object must be in when the event starts: every column member is declared with
   the column's type, vector members are empty (that they are empty again afterwards is part of the conclusion) *)
Fixpoint members_init (r : row) (nf k : nat) (ms : frame) : Prop :=
  match r with
  | [] => True
  | (name, c) :: t =>
      (exists old, frame_get (mem_name name (nf + k)) ms = Some (col_type c, old) /\
                   match c with ColVec _ _ _ | ColVec2 _ _ _ _ _ | ColFlat _ _ _ _ _ => old = VVec [] | _ => True end) /\ members_init t nf (S k) ms
  end.
Fixpoint members_final (r : row) (nf k : nat) (ms : frame) (vs : list value) : Prop :=
  match r, vs with
  | [], [] => True
  | (name, c) :: t, v :: vs' =>
      frame_get (mem_name name (nf + k)) ms = Some (col_type c, match c with ColVec _ _ _ | ColVec2 _ _ _ _ _ | ColFlat _ _ _ _ _ => VVec [] | _ => v end) /\
      members_final t nf (S k) ms vs'
  | _, _ => False
  end.

Lemma rmems_shape (r : row) : forall nf k m, In m (rmems r nf k) -> exists name idx, m = mem_name name idx.
Proof.
  induction r as [|[name c] t IH]; intros nf k m Hm; cbn [rmems] in Hm; [destruct Hm|].
  destruct Hm as [<-|Hm]; [eauto|exact (IH _ _ _ Hm)].
Qed.
Lemma mems_init_of (r : row) : forall nf k ms st, members st = ms -> members_init r nf k ms -> mems_init r nf k st.
Proof.
  induction r as [|[name c] t IH]; intros nf k ms st E D; cbn [members_init mems_init] in *; [exact I|].
  destruct D as [(old & M & O) Dt]. split; [exists old; unfold mget; rewrite E; split; assumption|]. eapply IH; eauto.
Qed.
Lemma members_after_final (r : row) : forall nf k st vs, members_after r nf k st vs -> members_final r nf k (members st) vs.
Proof.
  induction r as [|[name c] t IH]; intros nf k st vs D; destruct vs as [|v vs']; cbn [members_after members_final] in *; try exact D.
  destruct D as [M Dt]. split; [exact M|]. apply IH, Dt.
Qed.

Theorem frag_row_correct (bk : backend) (r : row) (n0 : nat) (ev : event) (ms : frame) :
  let nf := n0 + row_size r in
  row_bases_ok r = true -> NoDup (rmems r nf 0) -> members_init r nf 0 ms ->
  match drow ev r with
  | ROk vs => exists ms', run_event (prog_row bk r n0) ms ev = ROk ([vs], ms') /\ members_final r nf 0 ms' vs
  | RFault f => run_event (prog_row bk r n0) ms ev = RFault f
  | RStuck _ => True
  end.
Proof.
  intros nf Hb Nd Mi. unfold prog_row. fold nf. rewrite trow_split, trow_sets_split.
  unfold run_event. cbn [p_body p_branches].
  change (map (fun m : string * column * member => {| br_name := fst (fst m); br_var := m_name (snd m) |}) (combine r (row_members r nf 0)))
    with (map mk_branch (combine r (row_members r nf 0))).
  set (brs := map mk_branch (combine r (row_members r nf 0))).
  rewrite exec_block_eq.
  set (st0 := enter [] {| frames := []; members := ms; rows := [] |}).
  destruct (row_decls ev r n0 st0 Hb) as (st1 & E1 & D1 & M1 & R1 & U1); [intros x _; reflexivity|].
  rewrite E1. cbn [rbind]. rewrite exec_stmts_app.
  assert (NotVar : forall m, In m (rmems r nf 0) -> ~ In m (rvars r n0)).
  { intros m Hm. destruct (rmems_shape r nf 0 m Hm) as (name & idx & ->). apply mem_not_rvar, Hb. }
  assert (Sep1 : forall m, In m (rmems r nf 0) -> fget m st1 = None).
  { intros m Hm. rewrite (U1 m (NotVar m Hm)). reflexivity. }
  assert (Mi1 : mems_init r nf 0 st1) by (eapply mems_init_of; [exact M1|exact Mi]).
  assert (Hntk : n0 + row_size r <= nt_first nf r) by (unfold nt_first, nf; lia).
  pose proof (row_exec brs ev (b_idiom bk) r nf 0 (nt_first nf r) n0 st1 Hntk Hb D1 Mi1 Sep1 Nd) as RE.
  unfold drow.
  destruct (drow1 ev r) as [ps|f|k]; cbn [rbind]; [| rewrite RE; reflexivity | exact I].
  destruct RE as (st2 & E2 & R2 & U2 & Mo2 & Dn2). rewrite E2. cbn [rbind]. rewrite exec_stmts_app.
  assert (Sep2 : forall m, In m (rmems r nf 0) -> fget m st2 = None).
  { intros m Hm. rewrite (U2 m (NotVar m Hm)). apply Sep1, Hm. }
  pose proof (sets_exec brs ev r nf 0 n0 st2 ps Dn2 Sep2 Nd) as SE.
  destruct (drow2 ev r ps) as [vs|f|k]; [| rewrite SE; reflexivity | exact I].
  destruct SE as (st3 & E3 & F3 & R3 & Mo3 & Fi3).
  rewrite E3. cbn [rbind]. rewrite exec_stmts_cons. cbn [exec_stmt rbind].
  replace (fill_row brs st3) with vs by (symmetry; apply (fill_row_filled r nf 0 st3 vs Fi3)).
  set (st4 := {| frames := frames st3; members := members st3; rows := rows st3 ++ [vs] |}).
  assert (Fi4 : row_filled r nf 0 st4 vs) by (eapply row_filled_ext; [|exact Fi3]; intros; reflexivity).
  assert (Sep4 : forall m, In m (rmems r nf 0) -> fget m st4 = None).
  { intros m Hm. unfold fget, st4. cbn [frames]. rewrite F3. apply Sep2, Hm. }
  destruct (clears_exec brs ev r nf 0 st4 vs Fi4 Sep4 Nd) as (st5 & E5 & F5 & R5 & Mo5 & A5).
  rewrite E5. cbn [rbind pop_frame rows members].
  exists (members st5). split.
  - rewrite R5. unfold st4. cbn [rows]. rewrite R3, R2, R1. reflexivity.
  - apply members_after_final, A5.
Qed.

(* C04 for the fragment: a First column makes the job throw exactly when no element passes the filters, and
   otherwise the row holds the body's value on the first passing element - never a default or a stale value *)
Theorem frag_first_faults_iff_empty (bk : backend) (name : string) (cr : collref) (ps : guard) (body : pa) (line : string)
        (n0 : nat) (ev : event) (ms : frame) (f : value -> bool) (g : value -> value) (l : list value) :
  let r := [(name, ColFirst cr ps body line)] in
  base_ok (c_base cr) = true -> members_init r (n0 + row_size r) 0 ms ->
  assoc_ss (c_ctype cr, c_bank cr) (ev_colls ev) = Some (VVec l) ->
  passes_total ev ps l f -> (forall v, In v l -> f v = true -> dpa ev v body = ROk (g v)) ->
  match filter f l with
  | [] => run_event (prog_row bk r n0) ms ev = RFault FThrow
  | v :: _ => exists ms', run_event (prog_row bk r n0) ms ev = ROk ([[conv (pa_type body) (g v)]], ms')
  end.
Proof.
  intros r Hb Mi Ha Hp Hg.
  assert (Hrb : row_bases_ok r = true) by (cbn; rewrite Hb; reflexivity).
  assert (Nd : NoDup (rmems r (n0 + row_size r) 0)) by (cbn; constructor; [intros []|constructor]).
  pose proof (frag_row_correct bk r n0 ev ms Hrb Nd Mi) as C. cbn zeta in C.
  assert (Ed : drow ev r = match filter f l with [] => RFault FThrow | v :: _ => ROk [conv (pa_type body) (g v)] end).
  { unfold r, drow. cbn [drow1 drow2 dcol1 dcol2]. rewrite (first_col_linq ev cr ps body line f g l Ha Hp Hg). destruct (filter f l); reflexivity. }
  rewrite Ed in C. destruct (filter f l) as [|v t]; [exact C|].
  destruct C as (ms' & E & _). exists ms'. exact E.
Qed.

(* C04 for the fragment: a column e.Coll(bank)[i].m() makes the job fail with std::out_of_range exactly when the
   collection has no element number i; otherwise the row holds m() of that element *)
Theorem frag_index_faults_iff_short (bk : backend) (name : string) (cr : collref) (i : nat) (m : string)
        (n0 : nat) (ev : event) (ms : frame) (l : list value) :
  let r := [(name, ColScalar (EIdx cr i m))] in
  base_ok (c_base cr) = true -> members_init r (n0 + row_size r) 0 ms ->
  assoc_ss (c_ctype cr, c_bank cr) (ev_colls ev) = Some (VVec l) ->
  match nth_error l i with
  | None => run_event (prog_row bk r n0) ms ev = RFault FOutOfRange
  | Some v => forall x, call_method ev v m [] = ROk x ->
              exists ms', run_event (prog_row bk r n0) ms ev = ROk ([[conv "double" x]], ms')
  end.
Proof.
  intros r Hb Mi Ha.
  assert (Hrb : row_bases_ok r = true) by (cbn; rewrite Hb; reflexivity).
  assert (Nd : NoDup (rmems r (n0 + row_size r) 0)) by (cbn; constructor; [intros []|constructor]).
  pose proof (frag_row_correct bk r n0 ev ms Hrb Nd Mi) as C. cbn zeta in C.
  assert (Ed : drow ev r = match nth_error l i with
                           | None => RFault FOutOfRange
                           | Some v => rdo x <- call_method ev v m []; ROk [conv "double" x]
                           end).
  { unfold r, drow. cbn [drow1 drow2 dcol1 dcol2 dstm de ex_type]. unfold didx. rewrite Ha. cbn [rbind].
    destruct (nth_error l i) as [v|]; [|reflexivity]. destruct (call_method ev v m []); reflexivity. }
  rewrite Ed in C. destruct (nth_error l i) as [v|]; [|exact C].
  intros x Hx. rewrite Hx in C. cbn [rbind] in C. destruct C as (ms' & E & _). exists ms'. exact E.
Qed.

(* and / or at event level are as lazy as the query: when the first operand decides, the second one - its retrievals, its
   loops, its bounds-checked at() - is not evaluated, whatever it would do *)
Lemma ebool_lazy (ev : event) (is_and : bool) (a b : ex) (x : value) (t : bool) :
  de ev a = ROk x -> truth (conv "bool" x) = ROk t -> Bool.eqb t is_and = false ->
  dex ev (EBool is_and a b) = ROk (VBool t).
Proof.
  intros Ha Ht Hd. unfold dex. cbn [dstm de]. rewrite (dstm_of_de ev a x Ha), Ha. cbn [rbind]. rewrite Ht. cbn [rbind].
  rewrite Hd. cbn [rbind]. rewrite (truth_conv_bool x t Ht). reflexivity.
Qed.
(* and when it does not decide, the value is the second operand's *)
Lemma ebool_second (ev : event) (is_and : bool) (a b : ex) (x y : value) (t u : bool) :
  de ev a = ROk x -> truth (conv "bool" x) = ROk t -> Bool.eqb t is_and = true ->
  de ev b = ROk y -> truth (conv "bool" y) = ROk u ->
  dex ev (EBool is_and a b) = ROk (VBool u).
Proof.
  intros Ha Ht Hd Hb Hu. unfold dex. cbn [dstm de]. rewrite (dstm_of_de ev a x Ha), Ha. cbn [rbind]. rewrite Ht. cbn [rbind].
  rewrite Hd, (dstm_of_de ev b y Hb), Hb. cbn [rbind]. rewrite (truth_conv_bool y u Hu). reflexivity.
Qed.

(* a conditional at event level evaluates the taken arm only - the other arm's retrievals, loops and at() are not run,
   whatever they would do *)
Lemma eif_lazy (ev : event) (c a b : ex) (x y : value) (t : bool) :
  de ev c = ROk x -> truth x = ROk t -> de ev (if t then a else b) = ROk y ->
  dex ev (EIf c a b) = rdv (conv "double" y).
Proof.
  intros Hc Ht Hy. unfold dex. cbn [dstm de]. rewrite (dstm_of_de ev c x Hc), Hc. cbn [rbind]. rewrite Ht. cbn [rbind].
  destruct t; rewrite (dstm_of_de ev _ y Hy), Hy; reflexivity.
Qed.

(* the two-phase row and the ordinary column-after-column evaluation give the same rows: they can differ only in WHICH
   fault an undefined row raises *)
Lemma dcol12_natural (ev : event) (c : column) (v : value) :
  (exists p, dcol1 ev c = ROk p /\ dcol2 ev c p = ROk v) <-> dcol ev c = ROk v.
Proof.
  destruct c as [e|cr ps body|cr ps body line|c1 g1 c2 g2 body|c1 g1 c2 g2 body|cr ps body line]; cbn [dcol1 dcol2 dcol].
  6: { set (R := match assoc_ss (c_ctype cr, c_bank cr) (ev_colls ev) with
              | Some (VVec l) => rdo o <- firstb_loop ev (btype body) body ps l None; match o with Some x => ROk x | None => RFault FThrow end
              | Some VNull => RFault FNullDeref | Some _ => RStuck (KType "the bank does not hold a collection") | None => RFault FRetrieve end).
    split.
    + intros (p & H1 & H2). destruct R as [x|f|k]; cbn [rbind] in H1; try discriminate. inversion H1; subst. cbn in H2. exact H2.
    + intro H. rewrite H. exists (Some v). split; reflexivity. }
  5: { set (R := match assoc_ss (c_ctype c1, c_bank c1) (ev_colls ev) with
              | Some (VVec l) => rdo vs <- flat_loop ev g1 c2 g2 body l []; ROk (VVec vs)
              | Some VNull => RFault FNullDeref | Some _ => RStuck (KType "the bank does not hold a collection") | None => RFault FRetrieve end).
    split.
    + intros (p & H1 & H2). destruct R as [x|f|k]; cbn [rbind] in H1; try discriminate. inversion H1; subst. cbn in H2. exact H2.
    + intro H. rewrite H. exists (Some v). split; reflexivity. }
  4: { set (R := match assoc_ss (c_ctype c1, c_bank c1) (ev_colls ev) with
              | Some (VVec l) => rdo vs <- vec2_loop ev g1 c2 g2 body l []; ROk (VVec vs)
              | Some VNull => RFault FNullDeref | Some _ => RStuck (KType "the bank does not hold a collection") | None => RFault FRetrieve end).
    split.
    + intros (p & H1 & H2). destruct R as [x|f|k]; cbn [rbind] in H1; try discriminate. inversion H1; subst. cbn in H2. exact H2.
    + intro H. rewrite H. exists (Some v). split; reflexivity. }
  - split.
    + intros (p & H1 & H2). exact H2.
    + intro H. exists None. split; [|exact H].
      destruct (de ev e) as [x|f|k] eqn:Ed; cbn [rbind] in H; try discriminate.
      rewrite (dstm_of_de ev e x Ed). reflexivity.
  - set (R := match assoc_ss (c_ctype cr, c_bank cr) (ev_colls ev) with
              | Some (VVec l) => rdo vs <- vec_loop ev (btype body) body ps l []; ROk (VVec vs)
              | Some VNull => RFault FNullDeref | Some _ => RStuck (KType "the bank does not hold a collection") | None => RFault FRetrieve end).
    split.
    + intros (p & H1 & H2). destruct R as [x|f|k]; cbn [rbind] in H1; try discriminate. inversion H1; subst. cbn in H2. exact H2.
    + intro H. rewrite H. exists (Some v). split; reflexivity.
  - set (R := match assoc_ss (c_ctype cr, c_bank cr) (ev_colls ev) with
              | Some (VVec l) => rdo o <- first_loop ev (pa_type body) body ps l None; match o with Some x => ROk x | None => RFault FThrow end
              | Some VNull => RFault FNullDeref | Some _ => RStuck (KType "the bank does not hold a collection") | None => RFault FRetrieve end).
    split.
    + intros (p & H1 & H2). destruct R as [x|f|k]; cbn [rbind] in H1; try discriminate. inversion H1; subst. cbn in H2. exact H2.
    + intro H. rewrite H. exists (Some v). split; reflexivity.
Qed.

Lemma drow_natural (ev : event) (r : row) : forall vs, drow ev r = ROk vs <-> dnatrow ev r = ROk vs.
Proof.
  unfold drow. induction r as [|[name c] t IH]; intro vs; cbn [drow1 drow2 dnatrow].
  - reflexivity.
  - split.
    + intro H. destruct (dcol1 ev c) as [p|f|k] eqn:E1; cbn [rbind] in H; try discriminate.
      destruct (drow1 ev t) as [ps|f|k] eqn:Et; cbn [rbind] in H; try discriminate. cbn [drow2] in H.
      destruct (dcol2 ev c p) as [v|f|k] eqn:E2; cbn [rbind] in H; try discriminate.
      destruct (drow2 ev t ps) as [vs'|f|k] eqn:Et2; cbn [rbind] in H; try discriminate.
      inversion H; subst.
      rewrite (proj1 (dcol12_natural ev c v) (ex_intro _ p (conj E1 E2))). cbn [rbind].
      rewrite (proj1 (IH vs') Et2). reflexivity.
    + intro H. destruct (dcol ev c) as [v|f|k] eqn:Ec; cbn [rbind] in H; try discriminate.
      destruct (dnatrow ev t) as [vs'|f|k] eqn:Et; cbn [rbind] in H; try discriminate. inversion H; subst.
      destruct (proj2 (dcol12_natural ev c v) Ec) as (p & E1 & E2). rewrite E1. cbn [rbind].
      pose proof (proj2 (IH vs') eq_refl) as Ht.
      destruct (drow1 ev t) as [ps|f|k]; cbn [rbind] in Ht; try discriminate. cbn [rbind drow2]. rewrite E2. cbn [rbind]. rewrite Ht. reflexivity.
Qed.

(* and / or are as lazy as the query: once the result is known the remaining operands are not evaluated - whatever
   they would do (fault, be undefined) - and with total operands the guard is Python's all / any *)
Lemma and_guard_lazy (ev : event) (v : value) (p : pred) (ps : list pred) :
  dpred ev v p = ROk false -> gpasses ev v (GBool true p ps) = ROk false.
Proof. intro H. cbn [gpasses]. rewrite H. cbn [rbind]. destruct ps; reflexivity. Qed.
Lemma or_guard_lazy (ev : event) (v : value) (p : pred) (ps : list pred) :
  dpred ev v p = ROk true -> gpasses ev v (GBool false p ps) = ROk true.
Proof. intro H. cbn [gpasses]. rewrite H. cbn [rbind]. destruct ps; reflexivity. Qed.

Lemma bo_rest_total (ev : event) (v : value) (is_and : bool) (f : pred -> bool) (ps : list pred) : forall b,
  (forall p, In p ps -> dpred ev v p = ROk (f p)) ->
  bo_rest ev v is_and b ps = ROk (if is_and then b && forallb f ps else b || existsb f ps).
Proof.
  induction ps as [|q r IH]; intros b H; cbn [bo_rest forallb existsb].
  - destruct is_and, b; reflexivity.
  - destruct (Bool.eqb b is_and) eqn:E.
    + rewrite (H q (or_introl eq_refl)). cbn [rbind]. rewrite IH; [|intros p Hp; apply H; right; exact Hp].
      apply Bool.eqb_prop in E. subst is_and. destruct b; reflexivity.
    + destruct is_and, b; try discriminate; reflexivity.
Qed.
Lemma bool_guard_total (ev : event) (v : value) (is_and : bool) (f : pred -> bool) (p : pred) (ps : list pred) :
  (forall q, In q (p :: ps) -> dpred ev v q = ROk (f q)) ->
  gpasses ev v (GBool is_and p ps) = ROk (if is_and then forallb f (p :: ps) else existsb f (p :: ps)).
Proof.
  intro H. cbn [gpasses]. rewrite (H p (or_introl eq_refl)). cbn [rbind].
  rewrite (bo_rest_total ev v is_and f ps); [|intros q Hq; apply H; right; exact Hq]. reflexivity.
Qed.

(* ---------- bodies with conditionals: the two-phase reference is the ordinary evaluation ---------- *)
Lemma dconds_length (ev : event) (v : value) (e : bexp) : forall rs, dconds ev v e = ROk rs -> List.length rs = nifs e.
Proof.
  induction e as [a|c a b|op x IHx y IHy]; intros rs H; cbn [dconds nifs] in *.
  - inversion H. reflexivity.
  - destruct (dcond ev v c a b); cbn [rbind] in H; try discriminate. inversion H. reflexivity.
  - destruct (dconds ev v x) as [l1|f|k]; cbn [rbind] in H; try discriminate.
    destruct (dconds ev v y) as [l2|f|k]; cbn [rbind] in H; try discriminate.
    inversion H. rewrite app_length, (IHx l1 eq_refl), (IHy l2 eq_refl). reflexivity.
Qed.
Lemma dbx_dnat (ev : event) (v : value) (e : bexp) : forall rs, dconds ev v e = ROk rs -> dbx ev v e rs = dnat ev v e.
Proof.
  induction e as [a|c a b|op x IHx y IHy]; intros rs H; cbn [dconds dbx dnat] in *.
  - reflexivity.
  - destruct (dcond ev v c a b) as [r|f|k]; cbn [rbind] in H; try discriminate. inversion H. reflexivity.
  - destruct (dconds ev v x) as [l1|f|k] eqn:E1; cbn [rbind] in H; try discriminate.
    destruct (dconds ev v y) as [l2|f|k] eqn:E2; cbn [rbind] in H; try discriminate.
    inversion H; subst rs. rewrite <- (dconds_length ev v x l1 E1).
    rewrite firstn_app, Nat.sub_diag, firstn_all, skipn_app, Nat.sub_diag, skipn_all. cbn [firstn skipn]. rewrite !app_nil_r. cbn [app].
    rewrite (IHx l1 eq_refl), (IHy l2 eq_refl). reflexivity.
Qed.
Lemma dnat_conds (ev : event) (v : value) (e : bexp) : forall x, dnat ev v e = ROk x -> exists rs, dconds ev v e = ROk rs.
Proof.
  induction e as [a|c a b|op y IHy z IHz]; intros x H; cbn [dconds dnat] in *.
  - eauto.
  - rewrite H. cbn [rbind]. eauto.
  - destruct (dnat ev v y) as [p|f|k]; cbn [rbind] in H; try discriminate.
    destruct (dnat ev v z) as [q|f|k]; cbn [rbind] in H; try discriminate.
    destruct (IHy p eq_refl) as (l1 & E1). destruct (IHz q eq_refl) as (l2 & E2). rewrite E1, E2. cbn [rbind]. eauto.
Qed.
(* a body has a value under the two-phase reference iff it has that value under the ordinary recursive evaluation
   (they can differ only in WHICH fault an undefined body raises) *)
Theorem db_is_natural (ev : event) (v : value) (e : bexp) (x : value) : db ev v e = ROk x <-> dnat ev v e = ROk x.
Proof.
  unfold db. split; intro H.
  - destruct (dconds ev v e) as [rs|f|k] eqn:E; cbn [rbind] in H; try discriminate. rewrite <- (dbx_dnat ev v e rs E). exact H.
  - destruct (dnat_conds ev v e x H) as (rs & E). rewrite E. cbn [rbind]. rewrite (dbx_dnat ev v e rs E). exact H.
Qed.
(* a conditional evaluates only the arm its test selects *)
Lemma cond_lazy (ev : event) (v : value) (c : pred) (a b : pa) (t : bool) :
  dpred ev v c = ROk t -> dnat ev v (BIf c a b) = rbind (if t then dpa ev v a else dpa ev v b) (fun x => match conv "double" x with VUninit => RStuck (KUninit "conditional") | y => ROk y end).
Proof. intro H. cbn [dnat]. unfold dcond. rewrite H. reflexivity. Qed.

(* ---------- a 2-D column is the nested LINQ expression ---------- *)
Lemma vec_loop_linq (ev : event) (ty : string) (body : bexp) (ps : guard) (f : value -> bool) (g : value -> value) (l : list value) : forall acc,
  passes_total ev ps l f -> (forall v, In v l -> f v = true -> db ev v body = ROk (g v)) ->
  vec_loop ev ty body ps l acc = ROk (acc ++ map (fun v => conv ty (g v)) (filter f l)).
Proof.
  induction l as [|v r IH]; intros acc Hp Hb; cbn [vec_loop filter map].
  - rewrite app_nil_r. reflexivity.
  - assert (Hr : passes_total ev ps r f) by (intros w Hw; apply Hp; right; exact Hw).
    rewrite (Hp v (or_introl eq_refl)). cbn [rbind].
    destruct (f v) eqn:Ef.
    + rewrite (Hb v (or_introl eq_refl) Ef). cbn [rbind map].
      rewrite (IH _ Hr (fun w Hw => Hb w (or_intror Hw))). rewrite <- app_assoc. reflexivity.
    + apply (IH _ Hr (fun w Hw => Hb w (or_intror Hw))).
Qed.
Lemma vec2_loop_linq (ev : event) (g1 : guard) (c2 : collref) (g2 : guard) (body : bexp) (f1 : value -> bool) (x : value) (l : list value) : forall acc,
  passes_total ev g1 l f1 -> dvec_of ev c2 g2 body = ROk x ->
  vec2_loop ev g1 c2 g2 body l acc = ROk (acc ++ map (fun _ => x) (filter f1 l)).
Proof.
  induction l as [|v r IH]; intros acc Hp Hx; cbn [vec2_loop filter map].
  - rewrite app_nil_r. reflexivity.
  - assert (Hr : passes_total ev g1 r f1) by (intros w Hw; apply Hp; right; exact Hw).
    rewrite (Hp v (or_introl eq_refl)). cbn [rbind].
    destruct (f1 v) eqn:Ef.
    + rewrite Hx. cbn [rbind map]. rewrite (IH _ Hr Hx). rewrite <- app_assoc. reflexivity.
    + apply (IH _ Hr Hx).
Qed.
(* e.C1(b1).Where(f1).Select(lambda o: e.C2(b2).Where(f2).Select(lambda x: g x)) =
   [ [ g x | x <- l2, f2 x ] | o <- l1, f1 o ]  when both banks hold collections and the predicates / the body are defined *)
Theorem vec2_col_linq (ev : event) (c1 : collref) (g1 : guard) (c2 : collref) (g2 : guard) (body : bexp)
        (f1 f2 : value -> bool) (g : value -> value) (l1 l2 : list value) :
  assoc_ss (c_ctype c1, c_bank c1) (ev_colls ev) = Some (VVec l1) ->
  assoc_ss (c_ctype c2, c_bank c2) (ev_colls ev) = Some (VVec l2) ->
  passes_total ev g1 l1 f1 -> passes_total ev g2 l2 f2 ->
  (forall v, In v l2 -> f2 v = true -> db ev v body = ROk (g v)) ->
  dcol ev (ColVec2 c1 g1 c2 g2 body) =
  ROk (VVec (map (fun _ => VVec (map (fun v => conv (btype body) (g v)) (filter f2 l2))) (filter f1 l1))).
Proof.
  intros H1 H2 P1 P2 Hb. cbn [dcol]. rewrite H1.
  assert (Hx : dvec_of ev c2 g2 body = ROk (VVec (map (fun v => conv (btype body) (g v)) (filter f2 l2)))).
  { unfold dvec_of. rewrite H2. rewrite (vec_loop_linq ev (btype body) body g2 f2 g l2 [] P2 Hb). reflexivity. }
  rewrite (vec2_loop_linq ev g1 c2 g2 body f1 _ l1 [] P1 Hx). reflexivity.
Qed.
(* the second bank is looked at only when an element of the first passes: an event whose first collection is empty (or all
   filtered out) has the empty column even if the second bank is missing *)
Theorem vec2_col_lazy_inner (ev : event) (c1 : collref) (g1 : guard) (c2 : collref) (g2 : guard) (body : bexp) (l1 : list value) :
  assoc_ss (c_ctype c1, c_bank c1) (ev_colls ev) = Some (VVec l1) ->
  passes_total ev g1 l1 (fun _ => false) ->
  dcol ev (ColVec2 c1 g1 c2 g2 body) = ROk (VVec []).
Proof.
  intros H1 P1. cbn [dcol]. rewrite H1.
  assert (E : forall l acc, passes_total ev g1 l (fun _ => false) -> vec2_loop ev g1 c2 g2 body l acc = ROk acc).
  { induction l as [|v r IH]; intros acc Hp; cbn [vec2_loop]; [reflexivity|].
    rewrite (Hp v (or_introl eq_refl)). cbn [rbind]. apply IH. intros w Hw. apply Hp. right; exact Hw. }
  rewrite (E l1 [] P1). reflexivity.
Qed.

(* ---------- a flattened column is SelectMany ---------- *)
Lemma flat_loop_linq (ev : event) (g1 : guard) (c2 : collref) (g2 : guard) (body : bexp) (f1 f2 : value -> bool) (g : value -> value)
      (l2 : list value) (l : list value) : forall acc,
  assoc_ss (c_ctype c2, c_bank c2) (ev_colls ev) = Some (VVec l2) ->
  passes_total ev g1 l f1 -> passes_total ev g2 l2 f2 ->
  (forall v, In v l2 -> f2 v = true -> db ev v body = ROk (g v)) ->
  flat_loop ev g1 c2 g2 body l acc =
  ROk (acc ++ flat_map (fun _ => map (fun v => conv (btype body) (g v)) (filter f2 l2)) (filter f1 l)).
Proof.
  intros acc H2 P1 P2 Hb. revert acc P1.
  induction l as [|v r IH]; intros acc P1; cbn [flat_loop filter flat_map].
  - rewrite app_nil_r. reflexivity.
  - assert (Hr : passes_total ev g1 r f1) by (intros w Hw; apply P1; right; exact Hw).
    rewrite (P1 v (or_introl eq_refl)). cbn [rbind].
    destruct (f1 v) eqn:Ef.
    + rewrite H2. rewrite (vec_loop_linq ev (btype body) body g2 f2 g l2 acc P2 Hb). cbn [rbind flat_map].
      rewrite (IH _ Hr). rewrite <- app_assoc. reflexivity.
    + apply (IH _ Hr).
Qed.
(* e.C1(b1).Where(f1).SelectMany(lambda o: e.C2(b2).Where(f2)).Select(lambda x: g x) = [ g x | o <- l1, f1 o, x <- l2, f2 x ] *)
Theorem flat_col_linq (ev : event) (c1 : collref) (g1 : guard) (c2 : collref) (g2 : guard) (body : bexp)
        (f1 f2 : value -> bool) (g : value -> value) (l1 l2 : list value) :
  assoc_ss (c_ctype c1, c_bank c1) (ev_colls ev) = Some (VVec l1) ->
  assoc_ss (c_ctype c2, c_bank c2) (ev_colls ev) = Some (VVec l2) ->
  passes_total ev g1 l1 f1 -> passes_total ev g2 l2 f2 ->
  (forall v, In v l2 -> f2 v = true -> db ev v body = ROk (g v)) ->
  dcol ev (ColFlat c1 g1 c2 g2 body) =
  ROk (VVec (flat_map (fun _ => map (fun v => conv (btype body) (g v)) (filter f2 l2)) (filter f1 l1))).
Proof.
  intros H1 H2 P1 P2 Hb. cbn [dcol]. rewrite H1.
  rewrite (flat_loop_linq ev g1 c2 g2 body f1 f2 g l2 l1 [] H2 P1 P2 Hb). reflexivity.
Qed.

(* ---------- First over a body with conditionals is the LINQ First ---------- *)
Lemma firstb_loop_found_total (ev : event) (ty : string) (body : bexp) (ps : guard) (f : value -> bool) (g : value -> value) (l : list value) (x : value) :
  passes_total ev ps l f -> (forall v, In v l -> f v = true -> db ev v body = ROk (g v)) ->
  firstb_loop ev ty body ps l (Some x) = ROk (Some x).
Proof.
  induction l as [|v r IH]; intros Hp Hb; cbn [firstb_loop]; [reflexivity|].
  assert (Hr : passes_total ev ps r f) by (intros w Hw; apply Hp; right; exact Hw).
  rewrite (Hp v (or_introl eq_refl)). cbn [rbind].
  destruct (f v) eqn:Ef; [|apply IH; [exact Hr|intros w Hw; apply Hb; right; exact Hw]].
  pose proof (Hb v (or_introl eq_refl) Ef) as Hv. unfold db in Hv.
  destruct (dconds ev v body) as [rs|ff|k]; cbn [rbind] in *; try discriminate.
  apply IH; [exact Hr|intros w Hw; apply Hb; right; exact Hw].
Qed.
Lemma firstb_loop_linq (ev : event) (ty : string) (body : bexp) (ps : guard) (f : value -> bool) (g : value -> value) (l : list value) :
  passes_total ev ps l f -> (forall v, In v l -> f v = true -> db ev v body = ROk (g v)) ->
  firstb_loop ev ty body ps l None = ROk (match filter f l with [] => None | v :: _ => Some (conv ty (g v)) end).
Proof.
  induction l as [|v r IH]; intros Hp Hb; cbn [firstb_loop filter]; [reflexivity|].
  assert (Hr : passes_total ev ps r f) by (intros w Hw; apply Hp; right; exact Hw).
  assert (Hbr : forall w, In w r -> f w = true -> db ev w body = ROk (g w)) by (intros w Hw; apply Hb; right; exact Hw).
  rewrite (Hp v (or_introl eq_refl)). cbn [rbind].
  destruct (f v) eqn:Ef.
  - pose proof (Hb v (or_introl eq_refl) Ef) as Hv. unfold db in Hv.
    destruct (dconds ev v body) as [rs|ff|k]; cbn [rbind] in *; try discriminate.
    rewrite Hv. cbn [rbind]. apply (firstb_loop_found_total ev ty body ps f g r _ Hr Hbr).
  - apply IH; assumption.
Qed.
Theorem firstb_col_linq (ev : event) (cr : collref) (ps : guard) (body : bexp) (line : string) (f : value -> bool) (g : value -> value) (l : list value) :
  assoc_ss (c_ctype cr, c_bank cr) (ev_colls ev) = Some (VVec l) ->
  passes_total ev ps l f -> (forall v, In v l -> f v = true -> db ev v body = ROk (g v)) ->
  dcol ev (ColFirstB cr ps body line) =
  match filter f l with [] => RFault FThrow | v :: _ => ROk (conv (btype body) (g v)) end.
Proof.
  intros Ha Hp Hb. cbn [dcol]. rewrite Ha. rewrite (firstb_loop_linq ev (btype body) body ps f g l Hp Hb). cbn [rbind].
  destruct (filter f l); reflexivity.
Qed.

(* the emitted job of a First column with conditionals throws exactly when nothing passes the filters *)
Theorem frag_firstb_faults_iff_empty (bk : backend) (name : string) (cr : collref) (ps : guard) (body : bexp) (line : string)
        (n0 : nat) (ev : event) (ms : frame) (f : value -> bool) (g : value -> value) (l : list value) :
  let r := [(name, ColFirstB cr ps body line)] in
  base_ok (c_base cr) = true -> members_init r (n0 + row_size r) 0 ms ->
  assoc_ss (c_ctype cr, c_bank cr) (ev_colls ev) = Some (VVec l) ->
  passes_total ev ps l f -> (forall v, In v l -> f v = true -> db ev v body = ROk (g v)) ->
  match filter f l with
  | [] => run_event (prog_row bk r n0) ms ev = RFault FThrow
  | v :: _ => exists ms', run_event (prog_row bk r n0) ms ev = ROk ([[conv (btype body) (g v)]], ms')
  end.
Proof.
  intros r Hb Mi Ha Hp Hg.
  assert (Hrb : row_bases_ok r = true) by (cbn; rewrite Hb; reflexivity).
  assert (Nd : NoDup (rmems r (n0 + row_size r) 0)) by (cbn; constructor; [intros []|constructor]).
  pose proof (frag_row_correct bk r n0 ev ms Hrb Nd Mi) as C. cbn zeta in C.
  assert (Ed : drow ev r = match filter f l with [] => RFault FThrow | v :: _ => ROk [conv (btype body) (g v)] end).
  { unfold r, drow. cbn [drow1 drow2 dcol1 dcol2]. rewrite (firstb_col_linq ev cr ps body line f g l Ha Hp Hg). destruct (filter f l); reflexivity. }
  rewrite Ed in C. destruct (filter f l) as [|v t]; [exact C|].
  destruct C as (ms' & E & _). exists ms'. exact E.
Qed.

(* ---------- a LINQ law between the two nested column kinds: SelectMany = concatenation of the 2-D column ---------- *)
Lemma vec_loop_acc (ev : event) (ty : string) (body : bexp) (ps : guard) (l : list value) : forall acc,
  vec_loop ev ty body ps l acc = rdo vs <- vec_loop ev ty body ps l []; ROk (acc ++ vs).
Proof.
  induction l as [|v r IH]; intro acc; cbn [vec_loop].
  - cbn [rbind]. rewrite app_nil_r. reflexivity.
  - destruct (gpasses ev v ps) as [b|f|k]; cbn [rbind]; try reflexivity.
    destruct b; [|apply IH].
    destruct (db ev v body) as [x|f|k]; cbn [rbind]; try reflexivity.
    rewrite (IH (acc ++ [conv ty x])), (IH ([] ++ [conv ty x])).
    destruct (vec_loop ev ty body ps r []) as [vs|f|k]; cbn [rbind]; try reflexivity.
    rewrite <- app_assoc. reflexivity.
Qed.
Definition unvec (v : value) : list value := match v with VVec l => l | _ => [] end.
Lemma flat_is_concat_of_vec2 (ev : event) (g1 : guard) (c2 : collref) (g2 : guard) (body : bexp) (l : list value) : forall acc2 acc vs,
  vec2_loop ev g1 c2 g2 body l acc2 = ROk vs ->
  flat_loop ev g1 c2 g2 body l acc = ROk (acc ++ List.concat (map unvec (skipn (List.length acc2) vs))).
Proof.
  induction l as [|v r IH]; intros acc2 acc vs H; cbn [vec2_loop flat_loop] in *.
  - inversion H; subst. rewrite skipn_all. cbn [map List.concat]. rewrite app_nil_r. reflexivity.
  - destruct (gpasses ev v g1) as [b|f|k]; cbn [rbind] in *; try discriminate.
    destruct b; [|apply (IH acc2 acc vs H)].
    unfold dvec_of in H.
    destruct (assoc_ss (c_ctype c2, c_bank c2) (ev_colls ev)) as [cv|]; cbn [rbind] in H; try discriminate.
    destruct cv as [z0|q0|b0|o0| |l2|s0|f0 a0| ]; cbn [rbind] in H; try discriminate.
    destruct (vec_loop ev (btype body) body g2 l2 []) as [ws|f|k] eqn:Ew; cbn [rbind] in H; try discriminate.
    rewrite (vec_loop_acc ev (btype body) body g2 l2 acc), Ew. cbn [rbind].
    rewrite (IH (acc2 ++ [VVec ws]) (acc ++ ws) vs H).
    (* vs = acc2 ++ VVec ws :: rest: skipping |acc2| leaves VVec ws :: what skipping |acc2|+1 leaves *)
    assert (Hpre : exists rest, vs = (acc2 ++ [VVec ws]) ++ rest).
    { clear - H. revert H. generalize (acc2 ++ [VVec ws]). induction r as [|w r' IHr]; intros a H; cbn [vec2_loop] in H.
      - inversion H; subst. exists []. rewrite app_nil_r. reflexivity.
      - destruct (gpasses ev w g1) as [b|f|k]; cbn [rbind] in H; try discriminate.
        destruct b; [|apply (IHr a H)].
        destruct (dvec_of ev c2 g2 body) as [x|f|k]; cbn [rbind] in H; try discriminate.
        destruct (IHr _ H) as (rest & ->). exists (x :: rest). rewrite <- app_assoc. reflexivity. }
    destruct Hpre as (rest & ->).
    rewrite (skipn_app (List.length (acc2 ++ [VVec ws])) (acc2 ++ [VVec ws]) rest), skipn_all, Nat.sub_diag. cbn [app skipn].
    rewrite <- (app_assoc acc2 [VVec ws] rest).
    rewrite (skipn_app (List.length acc2) acc2 ([VVec ws] ++ rest)), skipn_all, Nat.sub_diag.
    cbn [app skipn map List.concat unvec]. rewrite <- app_assoc. reflexivity.
Qed.
(* whenever the 2-D column has a value, the flattened column (same collections, same filters, same body) is its concatenation *)
Theorem flat_col_is_concat_of_vec2_col (ev : event) (c1 : collref) (g1 : guard) (c2 : collref) (g2 : guard) (body : bexp) (vs : list value) :
  dcol ev (ColVec2 c1 g1 c2 g2 body) = ROk (VVec vs) ->
  dcol ev (ColFlat c1 g1 c2 g2 body) = ROk (VVec (List.concat (map unvec vs))).
Proof.
  cbn [dcol]. destruct (assoc_ss (c_ctype c1, c_bank c1) (ev_colls ev)) as [cv|]; try discriminate.
  destruct cv as [z0|q0|b0|o0| |l|s0|f0 a0| ]; try discriminate.
  destruct (vec2_loop ev g1 c2 g2 body l []) as [ws|f|k] eqn:E; cbn [rbind]; try discriminate.
  intro H. inversion H; subst. rewrite (flat_is_concat_of_vec2 ev g1 c2 g2 body l [] [] vs E). reflexivity.
Qed.
