(* Proofs about Model/ScriptBlocks.v : full functional correctness of generate_script_block. *)
From FV Require Import Base.Prelude Model.ScriptBlocks.

(* ---------- specification vocabulary (refers to the input block list only) ---------- *)
Definition names (bs : list jblock) : list string := map jb_name bs.
Definition depends (bs : list jblock) (a b : string) : Prop :=
  exists blk, In blk bs /\ jb_name blk = a /\ In b (jb_deps blk).
Definition conflicting (bs : list jblock) : Prop :=
  exists b1 b2, In b1 bs /\ In b2 bs /\ jb_name b1 = jb_name b2 /\ jb_script b1 <> jb_script b2.
Definition missing_dep (bs : list jblock) : Prop :=
  exists a b, depends bs a b /\ ~ In b (names bs).
Fixpoint script_of (bs : list jblock) (n : string) : list string :=
  match bs with
  | [] => []
  | b :: r => if String.eqb n (jb_name b) then jb_script b else script_of r n
  end.
Definition before (order : list string) (b a : string) : Prop :=
  exists l1 l2 l3, order = l1 ++ b :: l2 ++ a :: l3.
Definition topo (bs : list jblock) (order : list string) : Prop :=
  NoDup order /\ (forall n, In n order <-> In n (names bs)) /\
  (forall a b, depends bs a b -> before order b a).
Definition cyclic (bs : list jblock) : Prop := ~ exists order, topo bs order.

(* ---------- small facts ---------- *)
Lemma list_str_eqb_eq a b : list_str_eqb a b = true <-> a = b.
Proof.
  revert b; induction a as [|x a IH]; intros [|y b]; cbn; try (split; congruence).
  rewrite andb_true_iff, String.eqb_eq, IH. split; [intros [-> ->]; auto | intro H; inversion H; auto].
Qed.

Lemma mem_str_In x l : mem_str x l = true <-> In x l.
Proof.
  induction l as [|y l IH]; cbn; [split; [discriminate|tauto]|].
  destruct (String.eqb_spec x y) as [->|Hn]; [tauto|]. rewrite IH. split; [auto|intros [H|H]; congruence].
Qed.

Lemma tget_None n t : tget n t = None <-> ~ In n (map fst t).
Proof.
  induction t as [|[k v] t IH]; cbn; [tauto|].
  destruct (String.eqb_spec n k) as [->|Hn]; [split; [discriminate|tauto]|].
  rewrite IH. split; [intros H [E|E]; congruence|tauto].
Qed.

Lemma tget_Some_In n t v : tget n t = Some v -> In (n, v) t.
Proof.
  induction t as [|[k w] t IH]; cbn; [discriminate|].
  destruct (String.eqb_spec n k) as [->|Hn]; [intros [= ->]; auto|auto].
Qed.

Lemma tget_Some_key n t v : tget n t = Some v -> In n (map fst t).
Proof. intro H. apply tget_Some_In in H. apply (in_map fst) in H. exact H. Qed.

Lemma In_tget n v t : NoDup (map fst t) -> In (n, v) t -> tget n t = Some v.
Proof.
  induction t as [|[k w] t IH]; cbn; [tauto|]. intros Hnd [E|Hin].
  - inversion E; subst. now rewrite String.eqb_refl.
  - inversion Hnd as [|? ? Hk Hnd']; subst.
    destruct (String.eqb_spec n k) as [->|Hn]; [|auto].
    exfalso; apply Hk. apply (in_map fst) in Hin. exact Hin.
Qed.

Lemma key_tget n t : In n (map fst t) -> exists v, tget n t = Some v.
Proof.
  intro H. destruct (tget n t) eqn:E; [eauto|]. apply tget_None in E. tauto.
Qed.

Lemma tget_app_new n t k v :
  tget n (t ++ [(k, v)]) =
  match tget n t with Some x => Some x | None => if String.eqb n k then Some v else None end.
Proof.
  induction t as [|[k' w] t IH]; cbn; [reflexivity|].
  destruct (String.eqb n k'); [reflexivity|exact IH].
Qed.

Lemma keys_textend n ds t : map fst (textend n ds t) = map fst t.
Proof.
  induction t as [|[k [s d]] t IH]; cbn; [reflexivity|].
  destruct (String.eqb n k); cbn; [reflexivity|now rewrite IH].
Qed.

Lemma tget_textend m n ds t :
  tget m (textend n ds t) =
  if String.eqb n m then option_map (fun sd : list string * list string => (fst sd, snd sd ++ ds)) (tget m t)
  else tget m t.
Proof.
  induction t as [|[k [s d]] t IH]; cbn; [now destruct (String.eqb n m)|].
  destruct (String.eqb_spec n k) as [->|Hnk]; cbn.
  - destruct (String.eqb_spec m k) as [->|Hmk].
    + now rewrite String.eqb_refl.
    + destruct (String.eqb_spec k m) as [->|]; [congruence|reflexivity].
  - destruct (String.eqb_spec m k) as [->|Hmk].
    + destruct (String.eqb_spec n k) as [->|]; [congruence|reflexivity].
    + exact IH.
Qed.

Lemma script_of_app pre b n :
  script_of (pre ++ [b]) n =
  if mem_str n (names pre) then script_of pre n
  else if String.eqb n (jb_name b) then jb_script b else [].
Proof.
  induction pre as [|c pre IH]; cbn; [reflexivity|].
  destruct (String.eqb n (jb_name c)); [reflexivity|exact IH].
Qed.

Lemma script_of_notin pre n : ~ In n (names pre) -> script_of pre n = [].
Proof.
  induction pre as [|c pre IH]; cbn; [reflexivity|]. intro H.
  destruct (String.eqb_spec n (jb_name c)) as [->|Hn]; [tauto|]. apply IH. tauto.
Qed.

Lemma depends_app pre b n d :
  depends (pre ++ [b]) n d <-> depends pre n d \/ (n = jb_name b /\ In d (jb_deps b)).
Proof.
  unfold depends. split.
  - intros (blk & Hin & Hn & Hd). apply in_app_or in Hin. destruct Hin as [Hin|[<-|[]]].
    + left; eauto.
    + right; auto.
  - intros [(blk & Hin & Hn & Hd)|[-> Hd]].
    + exists blk. split; [apply in_or_app; auto|auto].
    + exists b. split; [apply in_or_app; cbn; auto|auto].
Qed.

Lemma NoDup_snoc {A} (l : list A) x : NoDup l -> ~ In x l -> NoDup (l ++ [x]).
Proof.
  induction l as [|y l IH]; cbn; intros Hnd Hx.
  - constructor; [cbn; tauto|constructor].
  - inversion Hnd; subst. constructor.
    + rewrite in_app_iff. cbn. intuition congruence.
    + apply IH; [assumption|tauto].
Qed.

Lemma forallb_false_ex {A} (f : A -> bool) l : forallb f l = false -> exists x, In x l /\ f x = false.
Proof.
  induction l as [|x l IH]; cbn; [discriminate|]. destruct (f x) eqn:E; cbn.
  - intro H. destruct (IH H) as (y & Hy & Hf). eauto.
  - eauto.
Qed.

(* ---------- phase 1 ---------- *)
Record T (pre : list jblock) (t : table) : Prop := {
  T_nodup : NoDup (map fst t);
  T_keys : forall n, In n (map fst t) <-> In n (names pre);
  T_entry : forall n s ds, tget n t = Some (s, ds) ->
            s = script_of pre n /\ (forall d, In d ds <-> depends pre n d);
  T_same : forall b, In b pre -> jb_script b = script_of pre (jb_name b)
}.

Lemma T_nil : T [] [].
Proof.
  split; cbn; try tauto; try discriminate. constructor.
Qed.

Lemma conflicting_mono pre rest : conflicting pre -> conflicting (pre ++ rest).
Proof.
  intros (b1 & b2 & H1 & H2 & H). exists b1, b2. split; [apply in_or_app; auto|].
  split; [apply in_or_app; auto|exact H].
Qed.

Lemma step1_ok pre t b t' : T pre t -> step1 t b = OK t' -> T (pre ++ [b]) t'.
Proof.
  intros HT. unfold step1. destruct (tget (jb_name b) t) as [[s0 d0]|] eqn:Eg.
  - destruct (list_str_eqb (jb_script b) s0) eqn:Es; [|discriminate]. intros [= <-].
    apply list_str_eqb_eq in Es.
    pose proof (tget_Some_key _ _ _ Eg) as Hk. apply (T_keys _ _ HT) in Hk.
    destruct (T_entry _ _ HT _ _ _ Eg) as [Hs0 Hd0].
    split.
    + rewrite keys_textend. apply (T_nodup _ _ HT).
    + intro n. rewrite keys_textend, (T_keys _ _ HT). unfold names. rewrite map_app, in_app_iff. cbn.
      split; [auto|]. intros [H|[<-|[]]]; auto.
    + intros n s ds. rewrite tget_textend.
      destruct (String.eqb_spec (jb_name b) n) as [<-|Hn].
      * rewrite Eg. cbn. intros [= <- <-]. rewrite script_of_app.
        apply mem_str_In in Hk. rewrite Hk. split; [exact Hs0|].
        intro d. rewrite in_app_iff, depends_app, Hd0. tauto.
      * intro Hg. destruct (T_entry _ _ HT _ _ _ Hg) as [Hs Hd].
        pose proof (tget_Some_key _ _ _ Hg) as Hk'. apply (T_keys _ _ HT) in Hk'.
        rewrite script_of_app. apply mem_str_In in Hk'. rewrite Hk'. split; [exact Hs|].
        intro d. rewrite depends_app, Hd. split; [auto|]. intros [H|[E _]]; [auto|congruence].
    + intros c Hc. apply in_app_or in Hc. rewrite script_of_app. destruct Hc as [Hc|[<-|[]]].
      * assert (Hm : mem_str (jb_name c) (names pre) = true)
          by (apply mem_str_In; unfold names; apply in_map; exact Hc).
        rewrite Hm. apply (T_same _ _ HT _ Hc).
      * apply mem_str_In in Hk. rewrite Hk. congruence.
  - intros [= <-]. apply tget_None in Eg.
    assert (Hnk : ~ In (jb_name b) (names pre)) by (rewrite <- (T_keys _ _ HT); exact Eg).
    assert (Hm : mem_str (jb_name b) (names pre) = false).
    { destruct (mem_str (jb_name b) (names pre)) eqn:E; [apply mem_str_In in E; tauto|reflexivity]. }
    split.
    + rewrite map_app. cbn. apply NoDup_snoc; [apply (T_nodup _ _ HT)|exact Eg].
    + intro n. rewrite map_app, in_app_iff, (T_keys _ _ HT). unfold names. rewrite map_app, in_app_iff.
      cbn. tauto.
    + intros n s ds. rewrite tget_app_new. destruct (tget n t) as [[s1 d1]|] eqn:Eg'.
      * intros [= <- <-]. destruct (T_entry _ _ HT _ _ _ Eg') as [Hs Hd].
        pose proof (tget_Some_key _ _ _ Eg') as Hk'. apply (T_keys _ _ HT) in Hk'.
        rewrite script_of_app. pose proof Hk' as Hk''. apply mem_str_In in Hk'. rewrite Hk'.
        split; [exact Hs|]. intro d. rewrite depends_app, Hd. split; [auto|].
        intros [H|[E _]]; [auto|]. subst n. tauto.
      * destruct (String.eqb_spec n (jb_name b)) as [->|Hn]; [|discriminate]. intros [= <- <-].
        rewrite script_of_app, Hm, String.eqb_refl. split; [reflexivity|].
        intro d. rewrite depends_app. split; [auto|]. intros [(blk & Hin & Hn' & _)|[_ H]]; [|exact H].
        exfalso; apply Hnk. rewrite <- Hn'. unfold names. apply in_map. exact Hin.
    + intros c Hc. apply in_app_or in Hc. rewrite script_of_app. destruct Hc as [Hc|[<-|[]]].
      * assert (Hm' : mem_str (jb_name c) (names pre) = true)
          by (apply mem_str_In; unfold names; apply in_map; exact Hc).
        rewrite Hm'. apply (T_same _ _ HT _ Hc).
      * now rewrite Hm, String.eqb_refl.
Qed.

Lemma step1_err pre t b e : T pre t -> step1 t b = Error e -> e = ErrValue /\ conflicting (pre ++ [b]).
Proof.
  intros HT. unfold step1. destruct (tget (jb_name b) t) as [[s0 d0]|] eqn:Eg; [|discriminate].
  destruct (list_str_eqb (jb_script b) s0) eqn:Es; [discriminate|]. intros [= <-]. split; [reflexivity|].
  destruct (T_entry _ _ HT _ _ _ Eg) as [Hs0 _].
  pose proof (tget_Some_key _ _ _ Eg) as Hk. apply (T_keys _ _ HT) in Hk.
  unfold names in Hk. apply in_map_iff in Hk. destruct Hk as (c & Hcn & Hc).
  (* the first block of that name carries script s0 *)
  assert (Hfirst : exists c0, In c0 pre /\ jb_name c0 = jb_name b /\ jb_script c0 = s0).
  { subst s0. clear - Hc Hcn. induction pre as [|x pre IH]; [destruct Hc|]. cbn.
    destruct (String.eqb_spec (jb_name b) (jb_name x)) as [E|Hn].
    - exists x. cbn. auto.
    - destruct Hc as [->|Hc]; [congruence|]. destruct (IH Hc) as (c0 & H1 & H2 & H3).
      exists c0. cbn. auto. }
  destruct Hfirst as (c0 & Hc0 & Hn0 & Hs).
  exists b, c0. split; [apply in_or_app; cbn; auto|]. split; [apply in_or_app; auto|].
  split; [congruence|]. intro E. rewrite <- Hs, <- E in Es.
  assert (list_str_eqb (jb_script b) (jb_script b) = true) by (apply list_str_eqb_eq; reflexivity).
  congruence.
Qed.

Lemma phase1_ok rest : forall pre t t', T pre t -> phase1 rest t = OK t' -> T (pre ++ rest) t'.
Proof.
  induction rest as [|b rest IH]; cbn; intros pre t t' HT.
  - intros [= <-]. now rewrite app_nil_r.
  - destruct (step1 t b) as [t1|e] eqn:E1; [|discriminate]. intro H.
    replace (pre ++ b :: rest) with ((pre ++ [b]) ++ rest) by (rewrite <- app_assoc; reflexivity).
    eapply IH; [eapply step1_ok; eauto|exact H].
Qed.

Lemma phase1_err rest : forall pre t e, T pre t -> phase1 rest t = Error e ->
  e = ErrValue /\ conflicting (pre ++ rest).
Proof.
  induction rest as [|b rest IH]; cbn; intros pre t e HT; [discriminate|].
  replace (pre ++ b :: rest) with ((pre ++ [b]) ++ rest) by (rewrite <- app_assoc; reflexivity).
  destruct (step1 t b) as [t1|e1] eqn:E1.
  - intro H. eapply IH; [eapply step1_ok; eauto|exact H].
  - intros [= <-]. destruct (step1_err _ _ _ _ HT E1) as [-> Hc]. split; [reflexivity|].
    now apply conflicting_mono.
Qed.

Lemma T_not_conflicting bs t : T bs t -> ~ conflicting bs.
Proof.
  intros HT (b1 & b2 & H1 & H2 & Hn & Hs). apply Hs.
  rewrite (T_same _ _ HT _ H1), (T_same _ _ HT _ H2). now rewrite Hn.
Qed.

(* ---------- phase 2 ---------- *)
Lemma deps_present_true bs t : T bs t -> deps_present t = true -> ~ missing_dep bs.
Proof.
  intros HT Hp (a & b & Hd & Hnb). unfold deps_present in Hp. rewrite forallb_forall in Hp.
  assert (Ha : In a (names bs)).
  { destruct Hd as (blk & Hin & <- & _). unfold names. now apply in_map. }
  apply (T_keys _ _ HT) in Ha. destruct (key_tget _ _ Ha) as [[s ds] Hg].
  specialize (Hp _ (tget_Some_In _ _ _ Hg)). cbn in Hp. rewrite forallb_forall in Hp.
  destruct (T_entry _ _ HT _ _ _ Hg) as [_ Hds]. apply Hds in Hd. specialize (Hp _ Hd).
  unfold has_key in Hp. destruct (tget b t) eqn:Eb; [|discriminate].
  apply tget_Some_key in Eb. apply (T_keys _ _ HT) in Eb. tauto.
Qed.

Lemma deps_present_false bs t : T bs t -> deps_present t = false -> missing_dep bs.
Proof.
  intros HT Hp. unfold deps_present in Hp.
  apply forallb_false_ex in Hp. destruct Hp as ([n [s ds]] & Hin & Hf). cbn in Hf.
  apply forallb_false_ex in Hf. destruct Hf as (d & Hd & Hk).
  apply (In_tget _ _ _ (T_nodup _ _ HT)) in Hin.
  destruct (T_entry _ _ HT _ _ _ Hin) as [_ Hds]. exists n, d. split; [now apply Hds|].
  rewrite <- (T_keys _ _ HT). unfold has_key in Hk. destruct (tget d t) eqn:E; [discriminate|].
  now apply tget_None.
Qed.

(* ---------- phase 3 ---------- *)
Definition script_t (t : table) (n : string) : list string :=
  match tget n t with Some (s, _) => s | None => [] end.
Definition deps_t (t : table) (n : string) : list string :=
  match tget n t with Some (_, ds) => ds | None => [] end.

(* emission orders in which every block comes after all of its dependencies *)
Inductive Ordered (t : table) : list string -> Prop :=
| Ord_nil : Ordered t []
| Ord_snoc seen n : Ordered t seen -> (forall d, In d (deps_t t n) -> In d seen) -> Ordered t (seen ++ [n]).

Record L (t : table) (seen out : list string) : Prop := {
  L_nodup : NoDup seen;
  L_incl : incl seen (map fst t);
  L_out : out = flat_map (script_t t) seen;
  L_ord : Ordered t seen
}.

Lemma L_nil t : L t [] [].
Proof. split; cbn; [constructor|intros x []|reflexivity|constructor]. Qed.

Lemma L_snoc t seen out n s ds :
  L t seen out -> tget n t = Some (s, ds) -> ~ In n seen -> (forall d, In d ds -> In d seen) ->
  L t (seen ++ [n]) (out ++ s).
Proof.
  intros HL Hg Hn Hd. split.
  - apply NoDup_snoc; [apply (L_nodup _ _ _ HL)|exact Hn].
  - intros x Hx. apply in_app_or in Hx. destruct Hx as [Hx|[<-|[]]].
    + now apply (L_incl _ _ _ HL).
    + eapply tget_Some_key; eauto.
  - rewrite flat_map_app. cbn. unfold script_t at 2. rewrite Hg, app_nil_r.
    now rewrite <- (L_out _ _ _ HL).
  - constructor; [apply (L_ord _ _ _ HL)|]. unfold deps_t. now rewrite Hg.
Qed.

Lemma Ordered_before t seen : Ordered t seen ->
  forall n d, In n seen -> In d (deps_t t n) -> before seen d n.
Proof.
  induction 1 as [|seen m Hord IH Hm]; [intros n d []|].
  intros n d Hn Hd. apply in_app_or in Hn. destruct Hn as [Hn|[<-|[]]].
  - destruct (IH _ _ Hn Hd) as (l1 & l2 & l3 & ->). exists l1, l2, (l3 ++ [m]).
    now rewrite <- !app_assoc, <- !app_comm_cons, <- app_assoc.
  - apply Hm in Hd. apply in_split in Hd. destruct Hd as (l1 & l2 & ->).
    exists l1, l2, []. now rewrite <- app_assoc.
Qed.

Definition stuck (t : table) (seen : list string) : Prop :=
  forall n s ds, In (n, (s, ds)) t -> In n seen \/ exists d, In d ds /\ ~ In d seen.

Lemma one_pass_spec (t : table) : NoDup (map fst t) -> forall rest seen out em seen' out' em',
  incl rest t -> L t seen out -> one_pass rest seen out em = (seen', out', em') ->
  L t seen' out' /\ List.length seen <= List.length seen' /\
  (em' = true -> em = true \/ List.length seen < List.length seen') /\
  (em' = false -> em = false /\ seen' = seen /\
     forall n s ds, In (n, (s, ds)) rest -> In n seen \/ exists d, In d ds /\ ~ In d seen).
Proof.
  intros Hnd. induction rest as [|[n [scr ds]] rest IH]; cbn; intros seen out em seen' out' em' Hincl HL.
  - intros [= <- <- <-]. split; [exact HL|]. split; [lia|]. split; [auto|].
    intro E. split; [exact E|]. split; [reflexivity|]. intros ? ? ? [].
  - assert (Hincl' : incl rest t) by (intros x Hx; apply Hincl; now right).
    assert (Hg : tget n t = Some (scr, ds)) by (apply In_tget; [exact Hnd|apply Hincl; now left]).
    destruct (negb (mem_str n seen) && forallb (fun d => mem_str d seen) ds) eqn:Ec.
    + apply andb_true_iff in Ec. destruct Ec as [Ec1 Ec2]. apply negb_true_iff in Ec1.
      assert (Hn : ~ In n seen) by (rewrite <- mem_str_In; congruence).
      assert (Hd : forall d, In d ds -> In d seen).
      { rewrite forallb_forall in Ec2. intros d Hd. apply mem_str_In. auto. }
      intro Hp. pose proof (L_snoc _ _ _ _ _ _ HL Hg Hn Hd) as HL'.
      destruct (IH _ _ _ _ _ _ Hincl' HL' Hp) as (H1 & H2 & H3 & H4).
      rewrite app_length in H2. cbn in H2. split; [exact H1|]. split; [lia|]. split.
      * intros _. right. lia.
      * intro E. destruct (H4 E) as [Hf _]. discriminate.
    + intro Hp. destruct (IH _ _ _ _ _ _ Hincl' HL Hp) as (H1 & H2 & H3 & H4).
      split; [exact H1|]. split; [exact H2|]. split; [exact H3|].
      intro E. destruct (H4 E) as (E1 & E2 & E3). split; [exact E1|]. split; [exact E2|].
      intros m s' ds' [Hm|Hm]; [|eauto]. inversion Hm; subst m s' ds'.
      apply andb_false_iff in Ec. destruct Ec as [Ec|Ec].
      * left. apply negb_false_iff in Ec. now apply mem_str_In.
      * right. apply forallb_false_ex in Ec. destruct Ec as (d & Hd & Hm').
        exists d. split; [exact Hd|]. rewrite <- mem_str_In. congruence.
Qed.

Lemma emit_loop_eq fuel t seen out :
  emit_loop fuel t seen out =
  if Nat.ltb (List.length seen) (List.length t) then
    match fuel with
    | O => Error ErrOutOfFuel
    | S f => match one_pass t seen out false with
             | (seen', out', true) => emit_loop f t seen' out'
             | (_, _, false) => Error ErrValue
             end
    end
  else OK out.
Proof. destruct fuel; reflexivity. Qed.

Lemma emit_loop_spec (t : table) : NoDup (map fst t) -> forall fuel seen out,
  L t seen out -> List.length t < fuel + List.length seen ->
  match emit_loop fuel t seen out with
  | OK o => exists seen', L t seen' o /\ List.length t <= List.length seen'
  | Error e => e = ErrValue /\ exists seen' out', L t seen' out' /\ List.length seen' < List.length t /\ stuck t seen'
  end.
Proof.
  intros Hnd. induction fuel as [|fuel IH]; intros seen out HL Hf.
  - rewrite emit_loop_eq. match goal with |- context [Nat.ltb ?a ?b] => destruct (Nat.ltb_spec a b) end; [lia|]. cbv iota. exists seen. split; [exact HL|lia].
  - rewrite emit_loop_eq. match goal with |- context [Nat.ltb ?a ?b] => destruct (Nat.ltb_spec a b) as [Hlt|Hge] end.
    + destruct (one_pass t seen out false) as [[seen' out'] em'] eqn:Ep.
      destruct (one_pass_spec t Hnd _ _ _ _ _ _ _ (incl_refl t) HL Ep) as (H1 & H2 & H3 & H4).
      destruct em'.
      * destruct (H3 eq_refl) as [?|Hl]; [discriminate|]. apply IH; [exact H1|lia].
      * destruct (H4 eq_refl) as (_ & -> & Hs). split; [reflexivity|]. exists seen, out.
        split; [exact HL|]. split; [exact Hlt|]. exact Hs.
    + cbv iota. exists seen. split; [exact HL|lia].
Qed.

(* ---------- assembling the specification ---------- *)
Lemma L_full_topo bs t seen out :
  T bs t -> L t seen out -> List.length t <= List.length seen ->
  topo bs seen /\ out = flat_map (script_of bs) seen.
Proof.
  intros HT HL Hlen.
  assert (Hincl : incl (map fst t) seen).
  { apply NoDup_length_incl; [apply (L_nodup _ _ _ HL)|now rewrite map_length|apply (L_incl _ _ _ HL)]. }
  split; [split; [apply (L_nodup _ _ _ HL)|split]|].
  - intro n. rewrite <- (T_keys _ _ HT). split; [apply (L_incl _ _ _ HL)|apply Hincl].
  - intros a b Hd.
    assert (Ha : In a (names bs)).
    { destruct Hd as (blk & Hin & <- & _). unfold names. now apply in_map. }
    apply (T_keys _ _ HT) in Ha. destruct (key_tget _ _ Ha) as [[s ds] Hg].
    apply (Ordered_before t seen (L_ord _ _ _ HL)); [now apply Hincl|].
    unfold deps_t. rewrite Hg. now apply (T_entry _ _ HT _ _ _ Hg).
  - rewrite (L_out _ _ _ HL). apply flat_map_ext_in || idtac.
    assert (Hext : forall l, incl l seen -> flat_map (script_t t) l = flat_map (script_of bs) l).
    { induction l as [|x l IHl]; cbn; [reflexivity|]. intro Hl.
      rewrite IHl by (intros y Hy; apply Hl; now right). f_equal.
      assert (Hx : In x (map fst t)) by (apply (L_incl _ _ _ HL), Hl; now left).
      destruct (key_tget _ _ Hx) as [[s ds] Hg]. unfold script_t. rewrite Hg.
      now apply (T_entry _ _ HT _ _ _ Hg). }
    apply Hext, incl_refl.
Qed.

Lemma first_not_in (seen order : list string) :
  (exists n, In n order /\ ~ In n seen) ->
  exists l1 x l2, order = l1 ++ x :: l2 /\ ~ In x seen /\ forall y, In y l1 -> In y seen.
Proof.
  induction order as [|a order IH]; [intros (n & [] & _)|].
  intros (n & Hn & Hns). destruct (in_dec string_dec a seen) as [Ha|Ha].
  - destruct Hn as [->|Hn]; [tauto|]. destruct IH as (l1 & x & l2 & -> & Hx & Hl1); [eauto|].
    exists (a :: l1), x, l2. split; [reflexivity|]. split; [exact Hx|].
    intros y [<-|Hy]; auto.
  - exists [], a, order. split; [reflexivity|]. split; [exact Ha|]. intros y [].
Qed.

Lemma NoDup_split_unique {A} (l1 l2 m1 m2 : list A) x :
  NoDup (l1 ++ x :: l2) -> l1 ++ x :: l2 = m1 ++ x :: m2 -> l1 = m1.
Proof.
  revert m1. induction l1 as [|a l1 IH]; intros [|b m1]; cbn; intros Hnd E.
  - reflexivity.
  - injection E as E1 E2. subst b. inversion Hnd as [|? ? Hx _]; subst. exfalso; apply Hx.
    apply in_or_app; cbn; auto.
  - injection E as E1 E2. subst a. inversion Hnd as [|? ? Hx _]; subst. exfalso; apply Hx.
    apply in_or_app; cbn; auto.
  - injection E as E1 E2. subst b. inversion Hnd as [|? ? _ Hnd']; subst. f_equal. eapply IH; eauto.
Qed.

Lemma exists_not_seen (keys seen : list string) :
  NoDup keys -> List.length seen < List.length keys -> exists n, In n keys /\ ~ In n seen.
Proof.
  intros Hnd Hlen. destruct (forallb (fun k => mem_str k seen) keys) eqn:E.
  - rewrite forallb_forall in E. assert (Hincl : incl keys seen).
    { intros k Hk. apply mem_str_In. auto. }
    pose proof (NoDup_incl_length Hnd Hincl). lia.
  - apply forallb_false_ex in E. destruct E as (k & Hk & Hm). exists k. split; [exact Hk|].
    rewrite <- mem_str_In. congruence.
Qed.

Lemma stuck_cyclic bs t seen out :
  T bs t -> L t seen out -> List.length seen < List.length t -> stuck t seen -> cyclic bs.
Proof.
  intros HT HL Hlen Hst (order & Hnd & Hmem & Hdep).
  destruct (exists_not_seen (map fst t) seen (T_nodup _ _ HT)) as (n & Hn & Hns);
    [now rewrite map_length|].
  destruct (first_not_in seen order) as (l1 & x & l2 & -> & Hx & Hl1).
  { exists n. split; [|exact Hns]. apply Hmem. now apply (T_keys _ _ HT). }
  assert (Hxk : In x (map fst t)).
  { apply (T_keys _ _ HT), Hmem. apply in_or_app; cbn; auto. }
  destruct (key_tget _ _ Hxk) as [[s ds] Hg].
  destruct (Hst _ _ _ (tget_Some_In _ _ _ Hg)) as [?|(d & Hd & Hds)]; [tauto|].
  apply (T_entry _ _ HT _ _ _ Hg) in Hd. destruct (Hdep _ _ Hd) as (a1 & a2 & a3 & E).
  replace (a1 ++ d :: a2 ++ x :: a3) with ((a1 ++ d :: a2) ++ x :: a3) in E
    by (rewrite <- app_assoc; reflexivity).
  apply NoDup_split_unique in E; [|exact Hnd]. apply Hds, Hl1. rewrite E.
  apply in_or_app; cbn; auto.
Qed.

Theorem gen_ok bs out :
  gen bs = OK out -> exists order, topo bs order /\ out = flat_map (script_of bs) order.
Proof.
  unfold gen. destruct (phase1 bs []) as [t|e] eqn:E1; [|discriminate].
  pose proof (phase1_ok bs [] [] t T_nil E1) as HT. cbn in HT.
  destruct (deps_present t) eqn:E2; [|discriminate].
  pose proof (emit_loop_spec t (T_nodup _ _ HT) (S (List.length t)) [] [] (L_nil t)) as Hs.
  intro E3. rewrite E3 in Hs. destruct Hs as (seen & HL & Hlen); [cbn; lia|].
  exists seen. eapply L_full_topo; eauto.
Qed.

Theorem gen_err bs e :
  gen bs = Error e -> e = ErrValue /\ (conflicting bs \/ missing_dep bs \/ cyclic bs).
Proof.
  unfold gen. destruct (phase1 bs []) as [t|e1] eqn:E1.
  - pose proof (phase1_ok bs [] [] t T_nil E1) as HT. cbn in HT.
    destruct (deps_present t) eqn:E2.
    + pose proof (emit_loop_spec t (T_nodup _ _ HT) (S (List.length t)) [] [] (L_nil t)) as Hs.
      intro E3. rewrite E3 in Hs. destruct Hs as (-> & seen & out & HL & Hlen & Hst); [cbn; lia|].
      split; [reflexivity|]. right; right. eapply stuck_cyclic; eauto.
    + intros [= <-]. split; [reflexivity|]. right; left. eapply deps_present_false; eauto.
  - intros [= <-]. destruct (phase1_err bs [] [] e1 T_nil E1) as [-> Hc]. cbn in Hc. auto.
Qed.

Theorem gen_ok_clean bs out :
  gen bs = OK out -> ~ conflicting bs /\ ~ missing_dep bs /\ ~ cyclic bs.
Proof.
  intro H. pose proof (gen_ok _ _ H) as (order & Ht & _). revert H. unfold gen.
  destruct (phase1 bs []) as [t|e] eqn:E1; [|discriminate].
  pose proof (phase1_ok bs [] [] t T_nil E1) as HT. cbn in HT.
  destruct (deps_present t) eqn:E2; [|discriminate]. intros _.
  split; [eapply T_not_conflicting; eauto|]. split; [eapply deps_present_true; eauto|].
  intro Hc. apply Hc. eauto.
Qed.

Theorem gen_err_complete bs :
  conflicting bs \/ missing_dep bs \/ cyclic bs -> gen bs = Error ErrValue.
Proof.
  intro H. destruct (gen bs) as [out|e] eqn:E.
  - destruct (gen_ok_clean _ _ E) as (H1 & H2 & H3). tauto.
  - destruct (gen_err _ _ E) as [-> _]. reflexivity.
Qed.

(* duplicates with equal scripts behave as one block carrying the union of the dependency lists *)
Definition blocks_of (t : table) : list jblock :=
  map (fun e : entry => {| jb_name := fst e; jb_script := fst (snd e); jb_deps := snd (snd e) |}) t.

Lemma phase1_blocks_of (t : table) : forall t0 : table, NoDup (map fst (t0 ++ t)) -> phase1 (blocks_of t) t0 = OK (t0 ++ t).
Proof.
  induction t as [|[n [s ds]] t IH]; cbn; intros t0 Hnd; [now rewrite app_nil_r|].
  unfold step1. cbn.
  assert (Hn : tget n t0 = None).
  { apply tget_None. intro Hin. rewrite map_app in Hnd. cbn in Hnd.
    apply NoDup_remove_2 in Hnd. apply Hnd. apply in_or_app. auto. }
  rewrite Hn. change (map _ t) with (blocks_of t). rewrite (IH (t0 ++ [(n, (s, ds))])).
  - rewrite <- app_assoc. reflexivity.
  - rewrite <- app_assoc. exact Hnd.
Qed.

Theorem gen_merged bs : gen (merged bs) = gen bs.
Proof.
  unfold merged. destruct (phase1 bs []) as [t|e] eqn:E1; [|reflexivity].
  pose proof (phase1_ok bs [] [] t T_nil E1) as HT. cbn in HT.
  change (gen (blocks_of t) = gen bs). unfold gen. rewrite E1.
  rewrite (phase1_blocks_of t []); [reflexivity|apply (T_nodup _ _ HT)].
Qed.

(* the merged list has one block per distinct name, carrying every dependency of that name *)
Theorem merged_shape bs t :
  phase1 bs [] = OK t ->
  NoDup (names (merged bs)) /\
  (forall n, In n (names (merged bs)) <-> In n (names bs)) /\
  (forall b, In b (merged bs) -> jb_script b = script_of bs (jb_name b) /\
                                 forall d, In d (jb_deps b) <-> depends bs (jb_name b) d).
Proof.
  intro E1. pose proof (phase1_ok bs [] [] t T_nil E1) as HT. cbn in HT.
  unfold merged. rewrite E1. change (map _ t) with (blocks_of t).
  assert (Hn : names (blocks_of t) = map fst t).
  { unfold names, blocks_of. rewrite map_map. reflexivity. }
  rewrite Hn. split; [apply (T_nodup _ _ HT)|]. split; [apply (T_keys _ _ HT)|].
  intros b Hb. unfold blocks_of in Hb. apply in_map_iff in Hb. destruct Hb as ([n [s ds]] & <- & Hin).
  cbn. apply (T_entry _ _ HT). apply In_tget; [apply (T_nodup _ _ HT)|exact Hin].
Qed.
