(* Proofs about Model/Collections.v (C06). *)
From FV Require Import Base.Prelude Model.Collections.
From Coq Require Import Lia.

(* ------------------------------------------------------------------------------------------ *)
(* strings                                                                                      *)
(* ------------------------------------------------------------------------------------------ *)
Lemma app_nil_r_s : forall s : string, s +++ "" = s.
Proof. induction s; simpl; congruence. Qed.
Lemma app_assoc_s : forall a b c : string, (a +++ b) +++ c = a +++ (b +++ c).
Proof. induction a; simpl; intros; congruence. Qed.
Lemma snoc_app : forall (cur : string) (c : ascii) (s : string), snoc cur c +++ s = cur +++ String c s.
Proof. intros. unfold snoc. rewrite app_assoc_s. reflexivity. Qed.

(* ------------------------------------------------------------------------------------------ *)
(* whole-word substitution                                                                      *)
(* ------------------------------------------------------------------------------------------ *)
Section Subst.
Variable w : string.
Variable repl : string.
Hypothesis w_nonempty : String.eqb "" w = false.

Lemma flush_empty : flush w repl "" = "".
Proof. unfold flush. rewrite w_nonempty. reflexivity. Qed.

(* a non-word character ends the current run: the scan of a concatenation splits there *)
Lemma sub_run_split : forall (s1 : string) (cur : string) (c : ascii) (s2 : string),
  is_word c = false ->
  sub_run w repl cur (s1 +++ String c s2) = sub_run w repl cur s1 +++ String c (sub_run w repl "" s2).
Proof.
  induction s1 as [|d s1 IH]; intros cur c s2 Hc; simpl.
  - rewrite Hc. reflexivity.
  - destruct (is_word d) eqn:Hd.
    + apply IH. exact Hc.
    + rewrite (IH "" c s2 Hc). rewrite app_assoc_s. reflexivity.
Qed.

(* text without the word is left alone *)
Lemma sub_run_free : forall (s cur : string),
  has_word w cur s = false -> sub_run w repl cur s = cur +++ s.
Proof.
  induction s as [|d s IH]; intros cur H; simpl in *.
  - unfold flush. rewrite H. rewrite app_nil_r_s. reflexivity.
  - destruct (is_word d) eqn:Hd.
    + rewrite (IH _ H). apply snoc_app.
    + apply orb_false_iff in H. destruct H as [H1 H2].
      unfold flush. rewrite H1. rewrite (IH "" H2). reflexivity.
Qed.

Lemma subst_free : forall s, word_free w s = true -> subst_word w repl s = s.
Proof.
  intros s H. unfold subst_word, word_free in *. apply negb_true_iff in H.
  rewrite (sub_run_free s "" H). reflexivity.
Qed.

Lemma sub_run_nonword_head : forall (c : ascii) (s : string),
  is_word c = false -> sub_run w repl "" (String c s) = String c (sub_run w repl "" s).
Proof. intros c s Hc. simpl. rewrite Hc. rewrite flush_empty. reflexivity. Qed.

(* substitution = split the text at the word, then fill the gaps *)
Lemma flush_p_inst : forall (e : henv) (cur : string) (rest : pattern),
  inst e repl (flush_p w cur ++ rest) = flush w repl cur +++ inst e repl rest.
Proof.
  intros. unfold flush_p, flush. destruct (String.eqb cur w); reflexivity.
Qed.

Lemma split_run_inst : forall (e : henv) (s cur : string) (rest : pattern),
  inst e repl (split_run w cur s ++ rest) = sub_run w repl cur s +++ inst e repl rest.
Proof.
  induction s as [|d s IH]; intros cur rest; simpl.
  - apply flush_p_inst.
  - destruct (is_word d).
    + apply IH.
    + rewrite <- app_assoc. rewrite flush_p_inst. simpl. rewrite IH.
      rewrite app_assoc_s. reflexivity.
Qed.

Lemma merge_lits_inst : forall (e : henv) (p : pattern), inst e repl (merge_lits p) = inst e repl p.
Proof.
  induction p as [|x p IH]; simpl; [reflexivity|].
  destruct x as [a|h|]; simpl; try (rewrite IH; reflexivity).
  destruct (merge_lits p) as [|y r] eqn:Hm.
  - destruct (String.eqb a "") eqn:Ha.
    + apply String.eqb_eq in Ha. subst a. simpl. exact IH.
    + simpl. simpl in IH. rewrite <- IH. reflexivity.
  - destruct y as [b|h|]; simpl in *.
    + rewrite <- IH. rewrite app_assoc_s. reflexivity.
    + destruct (String.eqb a "") eqn:Ha.
      * apply String.eqb_eq in Ha. subst a. simpl. exact IH.
      * simpl. rewrite <- IH. reflexivity.
    + destruct (String.eqb a "") eqn:Ha.
      * apply String.eqb_eq in Ha. subst a. simpl. exact IH.
      * simpl. rewrite <- IH. reflexivity.
Qed.

(* last_nonword l: l = l' ++ [c] with c not a word character *)
Lemma last_nonword_split : forall l, last_nonword l = true ->
  exists l' c, l = l' +++ String c "" /\ is_word c = false.
Proof.
  induction l as [|d l IH]; simpl; intro H; [discriminate|].
  destruct l as [|d2 l2].
  - exists "", d. split; [reflexivity|]. apply negb_true_iff. exact H.
  - destruct (IH H) as (l' & c & Heq & Hc). exists (String d l'), c. split; [|exact Hc].
    simpl. rewrite <- Heq. reflexivity.
Qed.

Lemma first_nonword_split : forall l, first_nonword l = true ->
  exists c l', l = String c l' /\ is_word c = false.
Proof.
  destruct l as [|c l]; simpl; intro H; [discriminate|].
  exists c, l. split; [reflexivity|]. apply negb_true_iff. exact H.
Qed.

Definition holes_free (e : henv) (p : pattern) : Prop :=
  forall h, In (PHole h) p -> has_word w "" (hole_val e h) = false.

Lemma holes_free_tail : forall e x p, holes_free e (x :: p) -> holes_free e p.
Proof. intros e x p H h Hin. apply H. right. exact Hin. Qed.

(* Substituting in an instantiated f-string = instantiating the pattern whose literals have been
   split at the word, provided the holes are fenced by non-word characters and their values do not
   contain the word. *)
Lemma subst_inst : forall (e : henv) (p : pattern),
  sep_ok p = true -> holes_free e p ->
  sub_run w repl "" (inst e "" p) = inst e repl (expand w p).
Proof.
  intros e p.
  assert (Hgen : forall n p, (List.length p <= n)%nat -> sep_ok p = true -> holes_free e p ->
                 sub_run w repl "" (inst e "" p) = inst e repl (expand w p)).
  { induction n as [|n IHn]; intros q Hlen Hs Hf.
    - destruct q; [simpl; apply flush_empty|simpl in Hlen; lia].
    - destruct q as [|x q]; [simpl; apply flush_empty|].
      destruct x as [l|h|]; [| |simpl in Hs; discriminate].
      + (* literal *)
        destruct q as [|y q'].
        * change (inst e "" [PLit l]) with (l +++ "").
          change (expand w [PLit l]) with (split_run w "" l ++ []).
          rewrite split_run_inst. change (inst e repl []) with "".
          rewrite !app_nil_r_s. reflexivity.
        * destruct y as [l2|h2|]; [simpl in Hs; discriminate| |simpl in Hs; discriminate].
          simpl in Hs. apply andb_true_iff in Hs. destruct Hs as [Hl Hs'].
          destruct (last_nonword_split l Hl) as (l' & c & Heq & Hc).
          assert (IH := IHn (PHole h2 :: q') ltac:(simpl in *; lia) Hs' (holes_free_tail _ _ _ Hf)).
          change (inst e "" (PLit l :: PHole h2 :: q')) with (l +++ inst e "" (PHole h2 :: q')).
          change (expand w (PLit l :: PHole h2 :: q')) with (split_run w "" l ++ expand w (PHole h2 :: q')).
          rewrite split_run_inst. rewrite <- IH.
          rewrite Heq. rewrite app_assoc_s. simpl.
          rewrite (sub_run_split l' "" c _ Hc).
          rewrite (sub_run_split l' "" c "" Hc). simpl. rewrite flush_empty.
          rewrite app_assoc_s. reflexivity.
      + (* hole *)
        assert (Hv : has_word w "" (hole_val e h) = false) by (apply Hf; left; reflexivity).
        destruct q as [|y q'].
        * simpl. rewrite app_nil_r_s. rewrite (sub_run_free _ "" Hv). reflexivity.
        * destruct y as [l2|h2|]; [|simpl in Hs; discriminate|simpl in Hs; discriminate].
          simpl in Hs. apply andb_true_iff in Hs. destruct Hs as [Hl Hs'].
          destruct (first_nonword_split l2 Hl) as (c & l2' & Heq & Hc).
          assert (IH := IHn (PLit l2 :: q') ltac:(simpl in *; lia) Hs' (holes_free_tail _ _ _ Hf)).
          change (inst e "" (PHole h :: PLit l2 :: q')) with (hole_val e h +++ inst e "" (PLit l2 :: q')).
          change (expand w (PHole h :: PLit l2 :: q')) with (PHole h :: expand w (PLit l2 :: q')).
          change (inst e repl (PHole h :: expand w (PLit l2 :: q'))) with (hole_val e h +++ inst e repl (expand w (PLit l2 :: q'))).
          rewrite <- IH.
          change (inst e "" (PLit l2 :: q')) with (l2 +++ inst e "" q').
          rewrite Heq. simpl.
          rewrite (sub_run_split (hole_val e h) "" c _ Hc).
          rewrite (sub_run_free _ "" Hv). simpl. rewrite Hc. rewrite flush_empty. reflexivity. }
  intros Hs Hf. apply (Hgen (List.length p) p (le_n _) Hs Hf).
Qed.

Theorem subst_fstring : forall (e : henv) (p : pattern),
  sep_ok p = true -> holes_free e p ->
  subst_word w repl (fstring e p) = inst e repl (hole_form w p).
Proof.
  intros e p Hs Hf. unfold subst_word, fstring, hole_form.
  rewrite merge_lits_inst. apply subst_inst; assumption.
Qed.
End Subst.

(* ------------------------------------------------------------------------------------------ *)
(* the retrieval block                                                                          *)
(* ------------------------------------------------------------------------------------------ *)
Lemma param_nonempty : String.eqb "" param_name = false.
Proof. reflexivity. Qed.

Lemma line_env_free : forall (s : cspec) (tok : string) (p : pattern),
  word_free param_name (cs_type s) = true -> word_free param_name tok = true ->
  holes_free param_name (line_env s tok) p.
Proof.
  intros s tok p Ht Hk h _. unfold word_free in *. apply negb_true_iff in Ht. apply negb_true_iff in Hk.
  destruct h; simpl; [reflexivity|exact Ht|exact Hk].
Qed.

(* what the substituted running code is, for every coder, spec, token name and replacement text *)
Theorem fetch_lines_form : forall (cd : coder) (s : cspec) (tok lit : string),
  forallb (fun p => sep_ok (compose (cs_str s) p)) (cd_lines cd) = true ->
  word_free param_name (cs_type s) = true -> word_free param_name tok = true ->
  map (subst_word param_name lit) (running_code cd s tok)
  = map (fun p => inst (line_env s tok) lit (hole_form param_name (compose (cs_str s) p))) (cd_lines cd).
Proof.
  intros cd s tok lit Hs Ht Hk. unfold running_code. rewrite map_map.
  apply map_ext_in. intros p Hin.
  rewrite forallb_forall in Hs. specialize (Hs p Hin).
  apply (subst_fstring param_name lit param_nonempty); [exact Hs|apply line_env_free; assumption].
Qed.

Theorem token_init_form : forall (cd : coder) (s : cspec) (tok : uname) (lit : string) (p : pattern) (tty : string),
  cd_init cd = Some p -> token_type s = Some tty ->
  sep_ok (compose (cs_str s) p) = true ->
  word_free param_name (cs_type s) = true -> word_free param_name (render_name tok) = true ->
  map (fun f => (fst f, subst_word param_name lit (snd f))) (token_fields cd s tok)
  = [ (mk_vdecl tty tok, inst (line_env s (render_name tok)) lit (hole_form param_name (compose (cs_str s) p))) ].
Proof.
  intros cd s tok lit p tty Hi Ht Hs Hty Hk. unfold token_fields. rewrite Hi, Ht. simpl.
  rewrite (subst_fstring param_name lit param_nonempty); [reflexivity|exact Hs|apply line_env_free; assumption].
Qed.

(* process_ast_node: where things go *)
Definition use_var (v : cpv) (g : gstate) : uname := mk_uname (lower (cs_name (v_spec v))) (g_ctr g).
Definition sub_arg (bank : string) (l : string) : string := subst_word param_name (cpp_string_literal bank) l.

Theorem process_ast_node_shape : forall (v : cpv) (bank : string) (g : gstate),
  v_args v = [param_name] ->
  let '(g', r) := process_ast_node v bank g in
  let var := use_var v g in
  g_vars g' = g_vars g ++ [mk_vdecl (cont_str (v_spec v)) var]
  /\ g_stmts g' = g_stmts g ++ [SBlk [] (map (fun l => SArb (sub_arg bank l)) (v_code v) ++ [SSet var (v_result v)])]
  /\ g_class g' = g_class g ++ map fst (v_fields v)
  /\ g_book g' = g_book g ++ map (fun f => SSet (vd_name (fst f)) (sub_arg bank (snd f))) (v_fields v)
  /\ g_inc g' = add_all (v_includes v) (g_inc g)
  /\ g_libs g' = add_all (v_libs v) (g_libs g)
  /\ g_ctr g' = S (g_ctr g)
  /\ r_name r = var /\ r_kind r = v_rep v.
Proof.
  intros v bank g Ha. unfold process_ast_node. rewrite Ha. simpl.
  repeat split; reflexivity.
Qed.

(* number of assignments to a variable in a statement *)
Fixpoint count_set (u : uname) (s : stmt) : nat :=
  match s with
  | SArb _ => 0
  | SSet t _ => if uname_eqb t u then 1 else 0
  | SBlk _ body => (fix go (l : list stmt) : nat := match l with [] => 0 | x :: r => count_set u x + go r end) body
  end.
Definition count_set_list (u : uname) (l : list stmt) : nat := fold_right (fun x n => count_set u x + n) 0%nat l.

Lemma count_set_blk : forall u vars body, count_set u (SBlk vars body) = count_set_list u body.
Proof. intros u vars body. simpl. induction body as [|x r IH]; simpl; [reflexivity|rewrite IH; reflexivity]. Qed.
Lemma count_set_list_app : forall u a b, count_set_list u (a ++ b) = (count_set_list u a + count_set_list u b)%nat.
Proof. intros u a b. induction a as [|x a IH]; simpl; [reflexivity|rewrite IH; lia]. Qed.
Lemma count_set_arb : forall u (ls : list string), count_set_list u (map SArb ls) = 0%nat.
Proof. intros u ls. induction ls as [|x r IH]; simpl; [reflexivity|exact IH]. Qed.
Lemma uname_eqb_refl : forall u, uname_eqb u u = true.
Proof. intros [b i]. unfold uname_eqb. simpl. rewrite String.eqb_refl, Nat.eqb_refl. reflexivity. Qed.

(* the retrieval block assigns the result variable exactly once *)
Theorem fetch_block_assigns_once : forall (u : uname) (lines : list string) (res : string),
  count_set u (SBlk [] (map SArb lines ++ [SSet u res])) = 1%nat.
Proof.
  intros u lines res. rewrite count_set_blk, count_set_list_app, count_set_arb. simpl.
  rewrite uname_eqb_refl. reflexivity.
Qed.

(* ------------------------------------------------------------------------------------------ *)
(* includes and libraries                                                                       *)
(* ------------------------------------------------------------------------------------------ *)
Lemma mem_str_In : forall x l, mem_str x l = true <-> In x l.
Proof.
  intros x l. induction l as [|y r IH]; simpl; [split; [discriminate|tauto]|].
  destruct (String.eqb x y) eqn:E.
  - apply String.eqb_eq in E. subst. split; auto.
  - apply String.eqb_neq in E. rewrite IH. split; [auto|intros [H|H]; [congruence|exact H]].
Qed.

Lemma add_unique_spec : forall x l, exists t, add_unique x l = l ++ t /\ In x (add_unique x l) /\ (NoDup l -> NoDup (add_unique x l)).
Proof.
  intros x l. unfold add_unique. destruct (mem_str x l) eqn:E.
  - exists []. rewrite app_nil_r. apply mem_str_In in E. auto.
  - exists [x]. split; [reflexivity|]. split; [apply in_or_app; right; left; reflexivity|].
    intro Hn. assert (~ In x l) by (intro Hi; apply mem_str_In in Hi; congruence).
    clear E. induction l as [|y r IH]; simpl.
    + constructor; [tauto|constructor].
    + inversion Hn; subst. constructor.
      * intro Hi. apply in_app_or in Hi. destruct Hi as [Hi|[Hi|[]]]; [tauto|subst; apply H; left; reflexivity].
      * apply IH; [assumption|intro Hi; apply H; right; exact Hi].
Qed.

Theorem add_all_spec : forall xs l,
  (exists t, add_all xs l = l ++ t) /\ (forall x, In x xs -> In x (add_all xs l)) /\ (NoDup l -> NoDup (add_all xs l)).
Proof.
  induction xs as [|x xs IH]; intro l; simpl.
  - split; [exists []; rewrite app_nil_r; reflexivity|]. split; [tauto|auto].
  - destruct (add_unique_spec x l) as (t & Ht & Hin & Hnd).
    destruct (IH (add_unique x l)) as ((t2 & Ht2) & Hall & Hnd2).
    split; [exists (t ++ t2); unfold add_all in *; simpl; rewrite Ht2, Ht, app_assoc; reflexivity|].
    split.
    + intros y [Hy|Hy]; [subst y|exact (Hall y Hy)].
      unfold add_all in *. simpl. rewrite Ht2. apply in_or_app. left. exact Hin.
    + intro Hn. exact (Hnd2 (Hnd Hn)).
Qed.

(* over a whole sequence of uses: earlier requests stay (order kept), every use's headers and
   libraries are present, nothing is requested twice *)
Definition well_formed_cpvs (vs : list (cpv * string)) : Prop := forall v b, In (v, b) vs -> v_args v = [param_name].

Lemma translate_uses_cons : forall v b vs g,
  translate_uses ((v, b) :: vs) g
  = let '(g1, rp) := process_ast_node v b g in let '(g2, rps) := translate_uses vs g1 in (g2, rp :: rps).
Proof. reflexivity. Qed.

Theorem translate_uses_requests : forall (vs : list (cpv * string)) (g g' : gstate) (reps : list rep),
  translate_uses vs g = (g', reps) ->
  (exists t, g_inc g' = g_inc g ++ t) /\ (exists t, g_libs g' = g_libs g ++ t)
  /\ (forall v b x, In (v, b) vs -> In x (v_includes v) -> In x (g_inc g'))
  /\ (forall v b x, In (v, b) vs -> In x (v_libs v) -> In x (g_libs g'))
  /\ (NoDup (g_inc g) -> NoDup (g_inc g')) /\ (NoDup (g_libs g) -> NoDup (g_libs g')).
Proof.
  induction vs as [|[v b] vs IH]; intros g g' reps H; [simpl in H|rewrite translate_uses_cons in H].
  - inversion H; subst. repeat split; try (exists []; rewrite app_nil_r; reflexivity); try tauto; intros ? ? ? [].
  - destruct (process_ast_node v b g) as [g1 rp] eqn:E1.
    destruct (translate_uses vs g1) as [g2 rps] eqn:E2. injection H as <- <-.
    destruct (IH g1 g2 rps E2) as ((t1 & Hi) & (t2 & Hl) & Hinc & Hlib & Hn1 & Hn2).
    assert (Hg1i : g_inc g1 = add_all (v_includes v) (g_inc g)) by (unfold process_ast_node in E1; inversion E1; reflexivity).
    assert (Hg1l : g_libs g1 = add_all (v_libs v) (g_libs g)) by (unfold process_ast_node in E1; inversion E1; reflexivity).
    destruct (add_all_spec (v_includes v) (g_inc g)) as ((ta & Hta) & Hia & Hna).
    destruct (add_all_spec (v_libs v) (g_libs g)) as ((tb & Htb) & Hib & Hnb).
    split; [exists (ta ++ t1); rewrite Hi, Hg1i, Hta, app_assoc; reflexivity|].
    split; [exists (tb ++ t2); rewrite Hl, Hg1l, Htb, app_assoc; reflexivity|].
    split; [|split; [|split]].
    + intros v0 b0 x [Hv|Hv] Hx.
      * inversion Hv; subst v0 b0. rewrite Hi. apply in_or_app. left. rewrite Hg1i. apply Hia. exact Hx.
      * exact (Hinc v0 b0 x Hv Hx).
    + intros v0 b0 x [Hv|Hv] Hx.
      * inversion Hv; subst v0 b0. rewrite Hl. apply in_or_app. left. rewrite Hg1l. apply Hib. exact Hx.
      * exact (Hlib v0 b0 x Hv Hx).
    + intro Hn. apply Hn1. rewrite Hg1i. apply Hna. exact Hn.
    + intro Hn. apply Hn2. rewrite Hg1l. apply Hnb. exact Hn.
Qed.

(* ------------------------------------------------------------------------------------------ *)
(* result variables and tokens over a sequence of uses                                          *)
(* ------------------------------------------------------------------------------------------ *)
Lemma translate_uses_state : forall (vs : list (cpv * string)) (g g' : gstate) (reps : list rep),
  translate_uses vs g = (g', reps) ->
  g_ctr g' = (g_ctr g + List.length vs)%nat
  /\ map r_name reps = map (fun iv => mk_uname (lower (cs_name (v_spec (fst (snd iv))))) (fst iv))
                           (combine (seq (g_ctr g) (List.length vs)) vs)
  /\ g_class g' = g_class g ++ flat_map (fun vb => map fst (v_fields (fst vb))) vs
  /\ g_book g' = g_book g ++ flat_map (fun vb => map (fun f => SSet (vd_name (fst f))
                       (fold_left (fun acc a => subst_word a (cpp_string_literal (snd vb)) acc) (v_args (fst vb)) (snd f)))
                       (v_fields (fst vb))) vs
  /\ map r_kind reps = map (fun vb => v_rep (fst vb)) vs.
Proof.
  induction vs as [|[v b] vs IH]; intros g g' reps H; [simpl in H|rewrite translate_uses_cons in H].
  - inversion H; subst. simpl. rewrite !app_nil_r. repeat split; lia.
  - destruct (process_ast_node v b g) as [g1 rp] eqn:E1.
    destruct (translate_uses vs g1) as [g2 rps] eqn:E2. injection H as <- <-.
    destruct (IH g1 g2 rps E2) as (Hc & Hn & Hcl & Hb & Hk).
    unfold process_ast_node in E1. inversion E1; subst g1 rp; clear E1. simpl in *.
    rewrite Hc, Hn, Hcl, Hb, Hk. rewrite <- !app_assoc.
    repeat split; try reflexivity; lia.
Qed.

Lemma seq_names_nodup : forall (f : nat -> string) (a n : nat) (l : list (cpv * string)),
  NoDup (map (fun iv : nat * (cpv * string) => mk_uname (lower (cs_name (v_spec (fst (snd iv))))) (fst iv)) (combine (seq a n) l)).
Proof.
  intros f a n l. revert a l. induction n as [|n IH]; intros a l; simpl; [constructor|].
  destruct l as [|x l]; simpl; [constructor|].
  constructor; [|apply IH].
  intro Hin. apply in_map_iff in Hin. destruct Hin as ((i, y) & Heq & Hin).
  inversion Heq as [[Hb Hi]]. simpl in *. apply in_combine_l in Hin. apply in_seq in Hin. lia.
Qed.

(* the result variables of different uses are pairwise distinct *)
Theorem result_vars_distinct : forall (vs : list (cpv * string)) (g g' : gstate) (reps : list rep),
  translate_uses vs g = (g', reps) -> NoDup (map r_name reps).
Proof.
  intros vs g g' reps H. destruct (translate_uses_state vs g g' reps H) as (_ & Hn & _).
  rewrite Hn. apply (seq_names_nodup (fun _ => "")).
Qed.

(* find_uses with a per-call token: use number k (from 0) gets the token named by counter ctr+k *)
Definition has_token (cd : coder) (s : cspec) : Prop := exists p tty, cd_init cd = Some p /\ token_type s = Some tty.

Theorem find_uses_tokens : forall (B : backend) (declared : list cspec) (us : list use) (ctr : nat)
                                  (vs : list (cpv * string)) (ctr' : nat),
  cd_alloc (b_coder B) = TokPerCall ->
  (forall n s, lookup_collection B declared n = Some s -> has_token (b_coder B) s) ->
  find_uses B declared us ctr = OK (vs, ctr') ->
  ctr' = (ctr + List.length us)%nat
  /\ flat_map (fun vb => map (fun f => vd_name (fst f)) (v_fields (fst vb))) vs = map (mk_uname "token") (seq ctr (List.length us))
  /\ map snd vs = map bank_of us
  /\ List.length vs = List.length us.
Proof.
  intros B declared us. induction us as [|u us IH]; intros ctr vs ctr' Ha Htok H; simpl in H.
  - inversion H; subst. simpl. repeat split; lia.
  - destruct (lookup_collection B declared (u_name u)) as [s|] eqn:El; [|discriminate].
    unfold get_collection in H. rewrite Ha in H.
    destruct (u_args u) as [|[b|] [|a2 rest]] eqn:Ea; simpl in H; try discriminate.
    destruct (find_uses B declared us (S ctr)) as [[rest' c2]|e] eqn:Er; simpl in H; [|discriminate].
    inversion H; subst vs ctr'. clear H.
    destruct (IH (S ctr) rest' c2 Ha Htok Er) as (Hc & Hf & Hb & Hl).
    destruct (Htok _ _ El) as (p & tty & Hp & Ht).
    simpl. unfold token_fields. rewrite Hp, Ht. simpl. rewrite Hf, Hb, Hl.
    repeat split; try reflexivity; lia.
Qed.

Lemma token_names_nodup : forall a n, NoDup (map (mk_uname "token") (seq a n)).
Proof.
  intros a n. revert a. induction n as [|n IH]; intro a; simpl; [constructor|].
  constructor; [|apply IH].
  intro Hin. apply in_map_iff in Hin. destruct Hin as (i & Heq & Hin).
  inversion Heq. apply in_seq in Hin. lia.
Qed.

(* ------------------------------------------------------------------------------------------ *)
(* singletons and collections                                                                   *)
(* ------------------------------------------------------------------------------------------ *)
Theorem get_collection_rep : forall cd s args ctr v ctr',
  get_collection cd s args ctr = OK (v, ctr') ->
  v_args v = [param_name] /\ v_spec v = s /\ v_includes v = cs_includes s /\ v_libs v = cs_libs s
  /\ v_result v = "result"
  /\ v_rep v = match cs_kind s with KColl => RColl | KSingle => RVar end
  /\ exists b, args = [AStr b].
Proof.
  intros cd s args ctr v ctr' H. unfold get_collection in H.
  destruct args as [|[b|] [|a2 rest]]; try discriminate.
  destruct (cd_alloc cd); inversion H; subst; simpl; repeat split; eauto.
Qed.

Theorem get_collection_malformed : forall cd s args ctr,
  (forall b, args <> [AStr b]) -> get_collection cd s args ctr = Error ErrValue.
Proof.
  intros cd s args ctr H. unfold get_collection.
  destruct args as [|[b|] [|a2 rest]]; try reflexivity. exfalso. apply (H b). reflexivity.
Qed.

Theorem singleton_never_iterated : forall r iter, r_kind r = RVar -> as_sequence r iter = Error ErrValue.
Proof. intros r iter H. unfold as_sequence. rewrite H. reflexivity. Qed.

Theorem collection_iterated : forall r iter, r_kind r = RColl ->
  as_sequence r iter = OK ("for (auto &&" +++ iter +++ " : " +++ (if (0 <? r_pd r)%nat then "*" +++ render_name (r_name r) else render_name (r_name r)) +++ ")",
                           (r_elem r, r_pd_elem r)).
Proof. intros r iter H. unfold as_sequence, deref_expr. rewrite H. reflexivity. Qed.

Theorem member_access_kind : forall e pd, member_access e pd 0 = if (0 <? pd)%nat then wrap_deref (pd - 1) e +++ "->" else e +++ ".".
Proof. intros e pd. unfold member_access. destruct pd; simpl; [reflexivity|]. rewrite Nat.sub_0_r. reflexivity. Qed.

(* ------------------------------------------------------------------------------------------ *)
(* metadata declarations                                                                        *)
(* ------------------------------------------------------------------------------------------ *)
Theorem override_last_wins : forall (B : backend) (pre post : list cspec) (s : cspec),
  (forall s', In s' post -> cs_name s' <> cs_name s) ->
  lookup_collection B (pre ++ s :: post) (cs_name s) = Some s.
Proof.
  intros B pre post s Hpost. unfold lookup_collection.
  assert (Hp : find_last (cs_name s) post = None).
  { induction post as [|y r IH]; simpl; [reflexivity|].
    rewrite IH; [|intros s' Hs'; apply Hpost; right; exact Hs'].
    destruct (String.eqb (cs_name s) (cs_name y)) eqn:E; [|reflexivity].
    apply String.eqb_eq in E. exfalso. apply (Hpost y); [left; reflexivity|congruence]. }
  assert (Hs : find_last (cs_name s) (s :: post) = Some s) by (simpl; rewrite Hp, String.eqb_refl; reflexivity).
  assert (Hall : find_last (cs_name s) (pre ++ s :: post) = Some s).
  { induction pre as [|y r IH]; simpl; [simpl in Hs; exact Hs|]. rewrite IH. reflexivity. }
  rewrite Hall. reflexivity.
Qed.

Theorem builtin_when_not_declared : forall (B : backend) (declared : list cspec) (n : string),
  (forall s', In s' declared -> cs_name s' <> n) ->
  lookup_collection B declared n = find_last n (b_table B).
Proof.
  intros B declared n H. unfold lookup_collection.
  assert (Hp : find_last n declared = None).
  { induction declared as [|y r IH]; simpl; [reflexivity|].
    rewrite IH; [|intros s' Hs'; apply H; right; exact Hs'].
    destruct (String.eqb n (cs_name y)) eqn:E; [|reflexivity].
    apply String.eqb_eq in E. exfalso. apply (H y); [left; reflexivity|congruence]. }
  rewrite Hp. reflexivity.
Qed.

Theorem foreign_backend_refused : forall B s, cs_backend s <> b_accepts B -> build_collection_callback B s = Error ErrValue.
Proof.
  intros B s H. unfold build_collection_callback.
  destruct (String.eqb (cs_backend s) (b_accepts B)) eqn:E; [apply String.eqb_eq in E; contradiction|reflexivity].
Qed.

Theorem check_backends_ok : forall B l, check_backends B l = OK tt -> forall s, In s l -> cs_backend s = b_accepts B.
Proof.
  intros B l. induction l as [|x r IH]; intros H s Hin; [destruct Hin|].
  simpl in H. unfold build_collection_callback in H.
  destruct (String.eqb (cs_backend x) (b_accepts B)) eqn:E; simpl in H; [|discriminate].
  destruct Hin as [Hx|Hx]; [subst; apply String.eqb_eq; exact E|exact (IH H s Hx)].
Qed.

Theorem check_backends_refuses : forall B l s, In s l -> cs_backend s <> b_accepts B -> check_backends B l = Error ErrValue.
Proof.
  intros B l. induction l as [|x r IH]; intros s Hin Hne; [destruct Hin|].
  simpl. unfold build_collection_callback.
  destruct (String.eqb (cs_backend x) (b_accepts B)) eqn:E; simpl.
  - destruct Hin as [Hx|Hx]; [subst; apply String.eqb_eq in E; contradiction|exact (IH s Hx Hne)].
  - reflexivity.
Qed.

Definition is_error {A} (r : result A) : Prop := match r with Error _ => True | OK _ => False end.
Definition rejected {A} (r : result A) : Prop := r = Error ErrValue \/ r = Error ErrKey.

Section Decl.
Variable ks : list mdkind.
Variable d : mdict.
Variable t : string.
Variable k : mdkind.
Hypothesis Ht : md_get "metadata_type" d = Some (MStr t).
Hypothesis Hk : find_kind t ks = Some k.

Theorem decl_unexpected_key : unexpected_key k d = true -> process_decl ks d = Error ErrValue.
Proof. intro H. unfold process_decl. rewrite Ht, Hk, H. reflexivity. Qed.

Theorem decl_mismatch : forall cc,
  md_get "contains_collection" d = Some (MBool cc) -> md_has "element_type" d = negb cc ->
  process_decl ks d = Error ErrValue.
Proof.
  intros cc Hc He. unfold process_decl. rewrite Ht, Hk.
  destruct (unexpected_key k d); [reflexivity|].
  unfold req_bool. rewrite Hc. simpl. rewrite He. destruct cc; reflexivity.
Qed.

Theorem decl_missing_key : forall key,
  In key ["contains_collection"; "container_type"; "name"; "include_files"] ->
  md_get key d = None -> is_error (process_decl ks d).
Proof.
  intros key Hin Hnone. unfold process_decl. rewrite Ht, Hk.
  destruct (unexpected_key k d); [exact I|].
  unfold req_bool, req_str, req_list, md_has, unmodelled.
  simpl in Hin.
  destruct (md_get "contains_collection" d) as [[?|cc|?]|] eqn:Ecc; simpl; try exact I.
  destruct (md_get "element_type" d) as [[et|?|?]|] eqn:Eet; destruct cc; simpl; try exact I;
  destruct (md_get "container_type" d) as [[ty|?|?]|] eqn:Ety; simpl; try exact I;
  try (destruct (mk_single k); simpl; try exact I);
  destruct (mk_libs k); simpl;
  try (destruct (md_get "link_libraries" d) as [[?|?|?]|]; simpl; try exact I);
  destruct (mk_elem_ptr k); simpl;
  try (destruct (md_get "element_pointer" d) as [[?|?|?]|]; simpl; try exact I);
  destruct (md_get "name" d) as [[nm|?|?]|] eqn:Enm; simpl; try exact I;
  destruct (md_get "include_files" d) as [[?|?|inc]|] eqn:Einc; simpl; try exact I;
  (destruct Hin as [Hin|[Hin|[Hin|[Hin|[]]]]]; subst key; congruence).
Qed.

(* what a successfully processed declaration is *)
Theorem decl_ok_shape : forall s, process_decl ks d = OK s ->
  unexpected_key k d = false
  /\ cs_backend s = mk_bname k
  /\ md_get "name" d = Some (MStr (cs_name s))
  /\ md_get "container_type" d = Some (MStr (cs_type s))
  /\ md_get "include_files" d = Some (MList (cs_includes s))
  /\ ((md_get "contains_collection" d = Some (MBool true) /\ cs_kind s = cc_kind (mk_coll k) /\ cs_str s = cc_str (mk_coll k) /\ cs_token s = cc_token (mk_coll k)
       /\ md_get "element_type" d = Some (MStr (cs_elem s)))
      \/ (md_get "contains_collection" d = Some (MBool false) /\ exists c, mk_single k = Some c /\ cs_kind s = cc_kind c /\ cs_str s = cc_str c /\ cs_token s = cc_token c))
  /\ (mk_libs k = false -> cs_libs s = [])
  /\ (mk_libs k = true -> md_get "link_libraries" d = None /\ cs_libs s = [] \/ md_get "link_libraries" d = Some (MList (cs_libs s))).
Proof.
  intros s H. unfold process_decl in H. rewrite Ht, Hk in H.
  destruct (unexpected_key k d); [discriminate|].
  unfold req_bool, req_str, req_list, md_has, unmodelled in H.
  destruct (md_get "contains_collection" d) as [[?|cc|?]|] eqn:Ecc; simpl in H; try discriminate.
  destruct (md_get "element_type" d) as [[et|?|?]|] eqn:Eet; destruct cc; simpl in H; try discriminate;
  destruct (md_get "container_type" d) as [[ty|?|?]|] eqn:Ety; simpl in H; try discriminate;
  try (destruct (mk_single k) as [c|] eqn:Esg; simpl in H; try discriminate);
  destruct (mk_libs k) eqn:Elb; simpl in H;
  try (destruct (md_get "link_libraries" d) as [[?|?|?]|] eqn:Ell; simpl in H; try discriminate);
  destruct (mk_elem_ptr k); simpl in H;
  try (destruct (md_get "element_pointer" d) as [[?|?|?]|]; simpl in H; try discriminate);
  destruct (md_get "name" d) as [[nm|?|?]|] eqn:Enm; simpl in H; try discriminate;
  destruct (md_get "include_files" d) as [[?|?|inc]|] eqn:Einc; simpl in H; try discriminate;
  inversion H; subst s; simpl;
  (split; [reflexivity|]); (split; [reflexivity|]); (split; [reflexivity|]); (split; [reflexivity|]); (split; [reflexivity|]);
  (split; [first [left; repeat split; reflexivity | right; split; [reflexivity|]; eexists; repeat split; reflexivity]|]);
  (split; [intro; first [reflexivity|discriminate]|intro; first [discriminate | left; split; reflexivity | right; reflexivity]]).
Qed.
End Decl.

Theorem process_metadata_all : forall ks ds specs, process_metadata ks ds = OK specs ->
  Forall2 (fun d s => process_decl ks d = OK s) ds specs.
Proof.
  intros ks ds. induction ds as [|d r IH]; intros specs H; simpl in H.
  - inversion H. constructor.
  - destruct (process_decl ks d) as [s|e] eqn:E; simpl in H; [|discriminate].
    destruct (process_metadata ks r) as [rest|e] eqn:Er; simpl in H; [|discriminate].
    inversion H; subst. constructor; [exact E|apply IH; reflexivity].
Qed.

Theorem process_metadata_refuses : forall ks ds d e, In d ds -> process_decl ks d = Error e ->
  is_error (process_metadata ks ds).
Proof.
  intros ks ds. induction ds as [|x r IH]; intros d e Hin He; [destruct Hin|].
  simpl. destruct Hin as [Hx|Hx].
  - subst x. rewrite He. exact I.
  - destruct (process_decl ks x); simpl; [|exact I].
    specialize (IH d e Hx He). destruct (process_metadata ks r); simpl; [destruct IH|exact I].
Qed.

(* ------------------------------------------------------------------------------------------ *)
(* idioms: a coder's templates against an expected form, decided by computation                 *)
(* ------------------------------------------------------------------------------------------ *)
Lemma pattern_eqb_eq : forall a b, pattern_eqb a b = true -> a = b.
Proof.
  induction a as [|x a IH]; destruct b as [|y b]; simpl; intro H; try discriminate; [reflexivity|].
  apply andb_true_iff in H. destruct H as [H1 H2]. rewrite (IH b H2). f_equal.
  destruct x as [s1|[]|]; destruct y as [s2|[]|]; simpl in H1; try discriminate; try reflexivity.
  apply String.eqb_eq in H1. congruence.
Qed.
Lemma patterns_eqb_eq : forall a b, patterns_eqb a b = true -> a = b.
Proof.
  induction a as [|x a IH]; destruct b as [|y b]; simpl; intro H; try discriminate; [reflexivity|].
  apply andb_true_iff in H. destruct H as [H1 H2]. rewrite (IH b H2), (pattern_eqb_eq _ _ H1). reflexivity.
Qed.

Lemma inst_app : forall e arg p q, inst e arg (p ++ q) = inst e arg p +++ inst e arg q.
Proof.
  intros e arg p q. induction p as [|x p IH]; simpl; [reflexivity|].
  destruct x; rewrite IH, app_assoc_s; reflexivity.
Qed.

(* formatting str(container) into a line = giving the {container_type} hole the formatted class *)
Lemma compose_inst : forall e arg cls p,
  inst e arg (compose cls p)
  = inst {| e_cont := inst e arg cls; e_type := e_type e; e_tok := e_tok e |} arg p.
Proof.
  intros e arg cls p. unfold compose. rewrite (merge_lits_inst arg).
  induction p as [|x p IH]; simpl; [reflexivity|].
  destruct x as [l|h|]; simpl; try (rewrite IH; reflexivity).
  destruct h; simpl; try (rewrite IH; reflexivity).
  rewrite inst_app, IH. reflexivity.
Qed.

Lemma inst_type_only : forall e arg cls,
  only_holes is_HType cls = true -> no_arg cls = true ->
  inst e arg cls = fstring (type_env (e_type e)) cls.
Proof.
  intros e arg cls. unfold fstring. induction cls as [|x p IH]; simpl; intros H1 H2; [reflexivity|].
  apply andb_true_iff in H1. apply andb_true_iff in H2. destruct H1 as [H1 H1']. destruct H2 as [H2 H2'].
  destruct x as [l|h|]; simpl in *; try discriminate; rewrite (IH H1' H2'); [reflexivity|].
  destruct h; try discriminate. reflexivity.
Qed.

Definition full_env (s : cspec) (tok : string) : henv :=
  {| e_cont := cont_str s; e_type := cs_type s; e_tok := tok |}.

Definition class_ok (cls : pattern) : bool := only_holes is_HType cls && no_arg cls.
(* the coder's lines, for each container class of the backend, substitute to `expected` *)
Definition idiom_check (lines : list pattern) (classes : list pattern) (expected : list pattern) : bool :=
  forallb (fun cls => class_ok cls
                      && forallb (fun p => sep_ok (compose cls p)) lines
                      && patterns_eqb (map (fun p => hole_form param_name (compose cls p)) lines)
                                      (map (compose cls) expected)) classes.

Lemma expected_inst : forall (s : cspec) (tok lit : string) (q : pattern),
  class_ok (cs_str s) = true ->
  inst (line_env s tok) lit (compose (cs_str s) q) = inst (full_env s tok) lit q.
Proof.
  intros s tok lit q Hc. rewrite compose_inst. unfold class_ok in Hc. apply andb_true_iff in Hc.
  destruct Hc as [H1 H2]. rewrite (inst_type_only _ _ _ H1 H2). reflexivity.
Qed.

Theorem idiom_lines : forall (cd : coder) (classes expected : list pattern) (s : cspec) (tok bank : string),
  idiom_check (cd_lines cd) classes expected = true ->
  In (cs_str s) classes ->
  word_free param_name (cs_type s) = true -> word_free param_name tok = true ->
  map (sub_arg bank) (running_code cd s tok) = map (inst (full_env s tok) (cpp_string_literal bank)) expected.
Proof.
  intros cd classes expected s tok bank Hchk Hin Hty Htok.
  unfold idiom_check in Hchk. rewrite forallb_forall in Hchk. specialize (Hchk _ Hin).
  apply andb_true_iff in Hchk. destruct Hchk as [Hchk Heq]. apply andb_true_iff in Hchk. destruct Hchk as [Hc Hsep].
  unfold sub_arg. rewrite (fetch_lines_form cd s tok _ Hsep Hty Htok).
  apply patterns_eqb_eq in Heq.
  rewrite <- (map_map (fun p => hole_form param_name (compose (cs_str s) p)) (inst (line_env s tok) (cpp_string_literal bank))).
  rewrite Heq. rewrite map_map. apply map_ext. intro q. apply expected_inst. exact Hc.
Qed.

Theorem idiom_token_init : forall (cd : coder) (classes : list pattern) (p q : pattern) (s : cspec) (tok : uname) (bank tty : string),
  cd_init cd = Some p -> token_type s = Some tty ->
  idiom_check [p] classes [q] = true ->
  In (cs_str s) classes ->
  word_free param_name (cs_type s) = true -> word_free param_name (render_name tok) = true ->
  map (fun f => (fst f, sub_arg bank (snd f))) (token_fields cd s tok)
  = [ (mk_vdecl tty tok, inst (full_env s (render_name tok)) (cpp_string_literal bank) q) ].
Proof.
  intros cd classes p q s tok bank tty Hi Ht Hchk Hin Hty Htok.
  unfold idiom_check in Hchk. rewrite forallb_forall in Hchk. specialize (Hchk _ Hin).
  apply andb_true_iff in Hchk. destruct Hchk as [Hchk Heq]. apply andb_true_iff in Hchk. destruct Hchk as [Hc Hsep].
  simpl in Hsep. rewrite andb_true_r in Hsep. simpl in Heq. rewrite andb_true_r in Heq.
  apply pattern_eqb_eq in Heq.
  unfold sub_arg. rewrite (token_init_form cd s tok _ p tty Hi Ht Hsep Hty Htok).
  rewrite Heq. rewrite (expected_inst s _ _ q Hc). reflexivity.
Qed.

(* the container type string of a spec whose class has only the type-name hole *)
Lemma cont_str_form : forall (s : cspec) (cls : pattern), cs_str s = cls -> cont_str s = fstring (type_env (cs_type s)) cls.
Proof. intros s cls H. unfold cont_str. rewrite H. reflexivity. Qed.

(* ------------------------------------------------------------------------------------------ *)
(* generated names never contain the parameter word                                             *)
(* ------------------------------------------------------------------------------------------ *)
Fixpoint all_word (s : string) : bool :=
  match s with EmptyString => true | String c r => is_word c && all_word r end.

Lemma digit_is_word : forall d, (d < 10)%nat -> is_word (digit_char d) = true.
Proof. intros d H. do 10 (destruct d as [|d]; [reflexivity|]). lia. Qed.

Lemma all_word_app : forall a b, all_word (a +++ b) = all_word a && all_word b.
Proof. induction a as [|c a IH]; intro b; [reflexivity|]. cbn [append all_word]. rewrite IH, andb_assoc. reflexivity. Qed.

Lemma dec_N_fuel_word : forall f n acc, all_word acc = true -> all_word (dec_N_fuel f n acc) = true.
Proof.
  induction f as [|f IH]; intros n acc H; [exact H|].
  change (dec_N_fuel (S f) n acc) with
    (if N.eqb (N.div n 10) 0 then String (digit_char (N.to_nat (N.modulo n 10))) acc
     else dec_N_fuel f (N.div n 10) (String (digit_char (N.to_nat (N.modulo n 10))) acc)).
  assert (Hd : all_word (String (digit_char (N.to_nat (N.modulo n 10))) acc) = true).
  { change (is_word (digit_char (N.to_nat (N.modulo n 10))) && all_word acc = true).
    rewrite H, andb_true_r. apply digit_is_word.
    assert (N.modulo n 10 < 10)%N by (apply N.mod_lt; discriminate). lia. }
  destruct (N.eqb (N.div n 10) 0); [exact Hd|apply IH; exact Hd].
Qed.

Lemma dec_nat_word : forall n, all_word (dec_nat n) = true.
Proof. intro n. unfold dec_nat, dec_N. apply dec_N_fuel_word. reflexivity. Qed.

Lemma has_word_all_word : forall w s cur, all_word s = true -> has_word w cur s = String.eqb (cur +++ s) w.
Proof.
  intros w s. induction s as [|c s IH]; intros cur H.
  - cbn [has_word]. rewrite app_nil_r_s. reflexivity.
  - cbn [all_word] in H. apply andb_true_iff in H. destruct H as [Hc Hs].
    cbn [has_word]. rewrite Hc. rewrite (IH _ Hs). rewrite snoc_app. reflexivity.
Qed.

Lemma token_eqb_false : forall d, String.eqb ("" +++ ("token" +++ d)) param_name = false.
Proof. intro d. reflexivity. Qed.

Theorem token_name_free : forall n, word_free param_name (render_name (mk_uname "token" n)) = true.
Proof.
  intro n. unfold word_free, render_name. cbn [un_base un_idx].
  rewrite has_word_all_word.
  - rewrite token_eqb_false. reflexivity.
  - rewrite all_word_app. rewrite dec_nat_word. reflexivity.
Qed.

(* ------------------------------------------------------------------------------------------ *)
(* tokens: one member per use, pairwise distinct, each initialised once                         *)
(* ------------------------------------------------------------------------------------------ *)
Definition set_target (s : stmt) : option uname := match s with SSet t _ => Some t | _ => None end.

Lemma map_flat_map : forall {A B C} (f : B -> C) (g : A -> list B) (l : list A),
  map f (flat_map g l) = flat_map (fun x => map f (g x)) l.
Proof. intros A B C f g l. induction l as [|x l IH]; simpl; [reflexivity|]. rewrite map_app, IH. reflexivity. Qed.

Theorem tokens_per_use : forall (B : backend) (declared : list cspec) (us : list use) (ctr : nat)
                                (vs : list (cpv * string)) (ctr' : nat) (g g' : gstate) (reps : list rep),
  cd_alloc (b_coder B) = TokPerCall ->
  (forall n s, lookup_collection B declared n = Some s -> has_token (b_coder B) s) ->
  find_uses B declared us ctr = OK (vs, ctr') ->
  translate_uses vs g = (g', reps) ->
  let toks := map (mk_uname "token") (seq ctr (List.length us)) in
  NoDup toks
  /\ map vd_name (g_class g') = map vd_name (g_class g) ++ toks
  /\ map set_target (g_book g') = map set_target (g_book g) ++ map Some toks
  /\ List.length reps = List.length us.
Proof.
  intros B declared us ctr vs ctr' g g' reps Ha Htok Hf Ht toks.
  destruct (find_uses_tokens B declared us ctr vs ctr' Ha Htok Hf) as (_ & Hnames & _ & Hlen).
  destruct (translate_uses_state vs g g' reps Ht) as (_ & _ & Hcl & Hb & Hk).
  split; [apply token_names_nodup|].
  split; [rewrite Hcl, map_app; f_equal; rewrite map_flat_map; unfold toks; rewrite <- Hnames;
          apply flat_map_ext; intro a; rewrite map_map; reflexivity|].
  split.
  - rewrite Hb, map_app. f_equal. rewrite map_flat_map. unfold toks. rewrite <- Hnames.
    rewrite map_flat_map. apply flat_map_ext. intro a. rewrite !map_map. reflexivity.
  - rewrite <- Hlen. rewrite <- (map_length r_kind), Hk, map_length. reflexivity.
Qed.

(* ------------------------------------------------------------------------------------------ *)
(* the container classes a backend's specifications can have                                    *)
(* ------------------------------------------------------------------------------------------ *)
Definition kind_classes (k : mdkind) : list pattern :=
  cc_str (mk_coll k) :: match mk_single k with Some c => [cc_str c] | None => [] end.
Definition class_strs (ks : list mdkind) (B : backend) : list pattern :=
  map cs_str (b_table B)
  ++ flat_map (fun k => if String.eqb (mk_bname k) (b_accepts B) then kind_classes k else []) ks.

Lemma find_kind_in : forall t ks k, find_kind t ks = Some k -> In k ks.
Proof.
  intros t ks k. induction ks as [|x r IH]; simpl; intro H; [discriminate|].
  destruct (String.eqb t (mk_type x)); [inversion H; left; reflexivity|right; exact (IH H)].
Qed.

(* a successfully processed declaration comes from one of the kinds *)
Lemma process_decl_kind : forall ks d s, process_decl ks d = OK s ->
  exists t k, md_get "metadata_type" d = Some (MStr t) /\ find_kind t ks = Some k.
Proof.
  intros ks d s H. unfold process_decl in H.
  destruct (md_get "metadata_type" d) as [[t| |]|] eqn:Et; try discriminate.
  destruct (find_kind t ks) as [k|] eqn:Ek; [|discriminate]. exists t, k. split; [reflexivity|exact Ek].
Qed.

Theorem table_classes : forall ks (B : backend) (s : cspec), In s (b_table B) -> In (cs_str s) (class_strs ks B).
Proof. intros ks B s H. unfold class_strs. apply in_or_app. left. apply in_map. exact H. Qed.

Theorem declared_classes : forall ks (B : backend) (d : mdict) (s : cspec),
  process_decl ks d = OK s -> cs_backend s = b_accepts B -> In (cs_str s) (class_strs ks B).
Proof.
  intros ks B d s H Hb. unfold class_strs. apply in_or_app. right.
  destruct (process_decl_kind ks d s H) as (t & k & Et & Ek).
  destruct (decl_ok_shape ks d t k Et Ek s H) as (_ & Hbk & _ & _ & _ & Hcls & _).
  apply in_flat_map. exists k. split; [exact (find_kind_in _ _ _ Ek)|].
  rewrite <- Hbk, Hb, String.eqb_refl. unfold kind_classes.
  destruct Hcls as [(_ & _ & Hs & _)|(_ & c & Hc & _ & Hs & _)].
  - left. symmetry. exact Hs.
  - rewrite Hc. right. left. symmetry. exact Hs.
Qed.

Definition is_some {A} (o : option A) : bool := match o with Some _ => true | None => false end.
Definition kind_tokens_ok (k : mdkind) : bool :=
  is_some (cc_token (mk_coll k)) && match mk_single k with Some c => is_some (cc_token c) | None => true end.
Definition has_token_check (B : backend) (ks : list mdkind) : bool :=
  is_some (cd_init (b_coder B)) && forallb (fun s => is_some (cs_token s)) (b_table B)
  && forallb (fun k => implb (String.eqb (mk_bname k) (b_accepts B)) (kind_tokens_ok k)) ks.

Lemma find_last_in : forall n l x, find_last n l = Some x -> In x l.
Proof.
  intros n l. induction l as [|y r IH]; simpl; intros x Hx; [discriminate|].
  destruct (find_last n r) as [z|] eqn:Ez; [inversion Hx; subst; right; apply IH; reflexivity|].
  destruct (String.eqb n (cs_name y)); [inversion Hx; left; reflexivity|discriminate].
Qed.

Lemma lookup_has_token : forall (B : backend) (ks : list mdkind) (declared : list cspec) (n : string) (s : cspec),
  has_token_check B ks = true ->
  check_backends B declared = OK tt ->
  Forall (fun s => exists d, process_decl ks d = OK s) declared ->
  lookup_collection B declared n = Some s -> has_token (b_coder B) s.
Proof.
  intros B ks declared n s Hchk Hb Hd Hl.
  unfold has_token_check in Hchk. apply andb_true_iff in Hchk. destruct Hchk as [Hchk Hks].
  apply andb_true_iff in Hchk. destruct Hchk as [Hinit Htab].
  assert (Htok : is_some (cs_token s) = true).
  { unfold lookup_collection in Hl.
    destruct (find_last n declared) as [x|] eqn:E1.
    - inversion Hl; subst x. pose proof (find_last_in _ _ _ E1) as Hin.
      rewrite Forall_forall in Hd. destruct (Hd s Hin) as (d & Hp).
      pose proof (check_backends_ok _ _ Hb s Hin) as Hbk.
      destruct (process_decl_kind ks d s Hp) as (t & k & Et & Ek).
      destruct (decl_ok_shape ks d t k Et Ek s Hp) as (_ & Hbn & _ & _ & _ & Hc & _).
      rewrite forallb_forall in Hks. specialize (Hks k (find_kind_in _ _ _ Ek)).
      rewrite <- Hbn, Hbk, String.eqb_refl in Hks. simpl in Hks. unfold kind_tokens_ok in Hks.
      apply andb_true_iff in Hks. destruct Hks as [Hk1 Hk2].
      destruct Hc as [(_ & _ & _ & Ht & _)|(_ & c & Hc & _ & _ & Ht)].
      + rewrite Ht. exact Hk1.
      + rewrite Ht. rewrite Hc in Hk2. exact Hk2.
    - rewrite forallb_forall in Htab. apply Htab. exact (find_last_in _ _ _ Hl). }
  unfold has_token, token_type.
  destruct (cd_init (b_coder B)) as [p|]; [|discriminate].
  destruct (cs_token s) as [q|]; [|discriminate].
  eexists. eexists. split; reflexivity.
Qed.

Theorem tokens_per_use_checked : forall (B : backend) (ks : list mdkind) (declared : list cspec) (us : list use) (ctr : nat)
                                (vs : list (cpv * string)) (ctr' : nat) (g g' : gstate) (reps : list rep),
  cd_alloc (b_coder B) = TokPerCall -> has_token_check B ks = true ->
  check_backends B declared = OK tt ->
  Forall (fun s => exists d, process_decl ks d = OK s) declared ->
  find_uses B declared us ctr = OK (vs, ctr') ->
  translate_uses vs g = (g', reps) ->
  let toks := map (mk_uname "token") (seq ctr (List.length us)) in
  NoDup toks
  /\ map vd_name (g_class g') = map vd_name (g_class g) ++ toks
  /\ map set_target (g_book g') = map set_target (g_book g) ++ map Some toks
  /\ List.length reps = List.length us.
Proof.
  intros B ks declared us ctr vs ctr' g g' reps Ha Hchk Hb Hd.
  apply (tokens_per_use B declared us ctr vs ctr' g g' reps Ha).
  intros n s. apply (lookup_has_token B ks); assumption.
Qed.

(* container type strings for a finite list of class formats: decided per class *)
Definition cont_forms_check (classes : list pattern) (forms : list pattern) : bool :=
  forallb (fun cls => class_ok cls && existsb (pattern_eqb (merge_lits cls)) forms) classes.
Theorem cont_str_forms : forall (classes forms : list pattern) (s : cspec),
  cont_forms_check classes forms = true -> In (cs_str s) classes ->
  exists f, In f forms /\ cont_str s = fstring (type_env (cs_type s)) f.
Proof.
  intros classes forms s Hc Hin. unfold cont_forms_check in Hc. rewrite forallb_forall in Hc.
  specialize (Hc _ Hin). apply andb_true_iff in Hc. destruct Hc as [_ He].
  apply existsb_exists in He. destruct He as (f & Hf & Heq). apply pattern_eqb_eq in Heq.
  exists f. split; [exact Hf|]. unfold cont_str, fstring. rewrite <- Heq.
  rewrite (merge_lits_inst ""). reflexivity.
Qed.
