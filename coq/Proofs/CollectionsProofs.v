(* Proofs about Model/Collections.v (C06). *)
From FV Require Import Base.Prelude Model.Collections.
From Coq Require Import Lia.

(* ------------------------------------------------------------------------------------------ *)
(* strings                                                                                      *)
(* ------------------------------------------------------------------------------------------ *)
Lemma app_nil_r_s : forall s : string, s +++ "" = s.
Proof. induction s; simpl; congruence. Qed.
Lemma app_assoc_s : forall a b c : string, (a +++ b) +++ c = a +++ (b +++ c).
Proof. induction a; simpl; intros; congruence. Qed.
Lemma snoc_app : forall (cur : string) (c : ascii) (s : string), snoc cur c +++ s = cur +++ String c s.
Proof. intros. unfold snoc. rewrite app_assoc_s. reflexivity. Qed.

(* ------------------------------------------------------------------------------------------ *)
(* whole-word substitution                                                                      *)
(* ------------------------------------------------------------------------------------------ *)
Section Subst.
Variable w : string.
Variable repl : string.
Hypothesis w_nonempty : String.eqb "" w = false.

Lemma flush_empty : flush w repl "" = "".
Proof. unfold flush. rewrite w_nonempty. reflexivity. Qed.

(* a non-word character ends the current run: the scan of a concatenation splits there *)
Lemma sub_run_split : forall (s1 : string) (cur : string) (c : ascii) (s2 : string),
  is_word c = false ->
  sub_run w repl cur (s1 +++ String c s2) = sub_run w repl cur s1 +++ String c (sub_run w repl "" s2).
Proof.
  induction s1 as [|d s1 IH]; intros cur c s2 Hc; simpl.
  - rewrite Hc. reflexivity.
  - destruct (is_word d) eqn:Hd.
    + apply IH. exact Hc.
    + rewrite (IH "" c s2 Hc). rewrite app_assoc_s. reflexivity.
Qed.

(* text without the word is left alone *)
Lemma sub_run_free : forall (s cur : string),
  has_word w cur s = false -> sub_run w repl cur s = cur +++ s.
Proof.
  induction s as [|d s IH]; intros cur H; simpl in *.
  - unfold flush. rewrite H. rewrite app_nil_r_s. reflexivity.
  - destruct (is_word d) eqn:Hd.
    + rewrite (IH _ H). apply snoc_app.
    + apply orb_false_iff in H. destruct H as [H1 H2].
      unfold flush. rewrite H1. rewrite (IH "" H2). reflexivity.
Qed.

Lemma subst_free : forall s, word_free w s = true -> subst_word w repl s = s.
Proof.
  intros s H. unfold subst_word, word_free in *. apply negb_true_iff in H.
  rewrite (sub_run_free s "" H). reflexivity.
Qed.

Lemma sub_run_nonword_head : forall (c : ascii) (s : string),
  is_word c = false -> sub_run w repl "" (String c s) = String c (sub_run w repl "" s).
Proof. intros c s Hc. simpl. rewrite Hc. rewrite flush_empty. reflexivity. Qed.

(* substitution = split the text at the word, then fill the gaps *)
Lemma flush_p_inst : forall (e : henv) (cur : string) (rest : pattern),
  inst e repl (flush_p w cur ++ rest) = flush w repl cur +++ inst e repl rest.
Proof.
  intros. unfold flush_p, flush. destruct (String.eqb cur w); reflexivity.
Qed.

Lemma split_run_inst : forall (e : henv) (s cur : string) (rest : pattern),
  inst e repl (split_run w cur s ++ rest) = sub_run w repl cur s +++ inst e repl rest.
Proof.
  induction s as [|d s IH]; intros cur rest; simpl.
  - apply flush_p_inst.
  - destruct (is_word d).
    + apply IH.
    + rewrite <- app_assoc. rewrite flush_p_inst. simpl. rewrite IH.
      rewrite app_assoc_s. reflexivity.
Qed.

Lemma merge_lits_inst : forall (e : henv) (p : pattern), inst e repl (merge_lits p) = inst e repl p.
Proof.
  induction p as [|x p IH]; simpl; [reflexivity|].
  destruct x as [a|h|]; simpl; try (rewrite IH; reflexivity).
  destruct (merge_lits p) as [|y r] eqn:Hm.
  - destruct (String.eqb a "") eqn:Ha.
    + apply String.eqb_eq in Ha. subst a. simpl. exact IH.
    + simpl. simpl in IH. rewrite <- IH. reflexivity.
  - destruct y as [b|h|]; simpl in *.
    + rewrite <- IH. rewrite app_assoc_s. reflexivity.
    + destruct (String.eqb a "") eqn:Ha.
      * apply String.eqb_eq in Ha. subst a. simpl. exact IH.
      * simpl. rewrite <- IH. reflexivity.
    + destruct (String.eqb a "") eqn:Ha.
      * apply String.eqb_eq in Ha. subst a. simpl. exact IH.
      * simpl. rewrite <- IH. reflexivity.
Qed.

(* last_nonword l: l = l' ++ [c] with c not a word character *)
Lemma last_nonword_split : forall l, last_nonword l = true ->
  exists l' c, l = l' +++ String c "" /\ is_word c = false.
Proof.
  induction l as [|d l IH]; simpl; intro H; [discriminate|].
  destruct l as [|d2 l2].
  - exists "", d. split; [reflexivity|]. apply negb_true_iff. exact H.
  - destruct (IH H) as (l' & c & Heq & Hc). exists (String d l'), c. split; [|exact Hc].
    simpl. rewrite <- Heq. reflexivity.
Qed.

Lemma first_nonword_split : forall l, first_nonword l = true ->
  exists c l', l = String c l' /\ is_word c = false.
Proof.
  destruct l as [|c l]; simpl; intro H; [discriminate|].
  exists c, l. split; [reflexivity|]. apply negb_true_iff. exact H.
Qed.

Definition holes_free (e : henv) (p : pattern) : Prop :=
  forall h, In (PHole h) p -> has_word w "" (hole_val e h) = false.

Lemma holes_free_tail : forall e x p, holes_free e (x :: p) -> holes_free e p.
Proof. intros e x p H h Hin. apply H. right. exact Hin. Qed.

(* Substituting in an instantiated f-string = instantiating the pattern whose literals have been
   split at the word, provided the holes are fenced by non-word characters and their values do not
   contain the word. *)
Lemma subst_inst : forall (e : henv) (p : pattern),
  sep_ok p = true -> holes_free e p ->
  sub_run w repl "" (inst e "" p) = inst e repl (expand w p).
Proof.
  intros e p.
  assert (Hgen : forall n p, (List.length p <= n)%nat -> sep_ok p = true -> holes_free e p ->
                 sub_run w repl "" (inst e "" p) = inst e repl (expand w p)).
  { induction n as [|n IHn]; intros q Hlen Hs Hf.
    - destruct q; [simpl; apply flush_empty|simpl in Hlen; lia].
    - destruct q as [|x q]; [simpl; apply flush_empty|].
      destruct x as [l|h|]; [| |simpl in Hs; discriminate].
      + (* literal *)
        destruct q as [|y q'].
        * change (inst e "" [PLit l]) with (l +++ "").
          change (expand w [PLit l]) with (split_run w "" l ++ []).
          rewrite split_run_inst. change (inst e repl []) with "".
          rewrite !app_nil_r_s. reflexivity.
        * destruct y as [l2|h2|]; [simpl in Hs; discriminate| |simpl in Hs; discriminate].
          simpl in Hs. apply andb_true_iff in Hs. destruct Hs as [Hl Hs'].
          destruct (last_nonword_split l Hl) as (l' & c & Heq & Hc).
          assert (IH := IHn (PHole h2 :: q') ltac:(simpl in *; lia) Hs' (holes_free_tail _ _ _ Hf)).
          change (inst e "" (PLit l :: PHole h2 :: q')) with (l +++ inst e "" (PHole h2 :: q')).
          change (expand w (PLit l :: PHole h2 :: q')) with (split_run w "" l ++ expand w (PHole h2 :: q')).
          rewrite split_run_inst. rewrite <- IH.
          rewrite Heq. rewrite app_assoc_s. simpl.
          rewrite (sub_run_split l' "" c _ Hc).
          rewrite (sub_run_split l' "" c "" Hc). simpl. rewrite flush_empty.
          rewrite app_assoc_s. reflexivity.
      + (* hole *)
        assert (Hv : has_word w "" (hole_val e h) = false) by (apply Hf; left; reflexivity).
        destruct q as [|y q'].
        * simpl. rewrite app_nil_r_s. rewrite (sub_run_free _ "" Hv). reflexivity.
        * destruct y as [l2|h2|]; [|simpl in Hs; discriminate|simpl in Hs; discriminate].
          simpl in Hs. apply andb_true_iff in Hs. destruct Hs as [Hl Hs'].
          destruct (first_nonword_split l2 Hl) as (c & l2' & Heq & Hc).
          assert (IH := IHn (PLit l2 :: q') ltac:(simpl in *; lia) Hs' (holes_free_tail _ _ _ Hf)).
          change (inst e "" (PHole h :: PLit l2 :: q')) with (hole_val e h +++ inst e "" (PLit l2 :: q')).
          change (expand w (PHole h :: PLit l2 :: q')) with (PHole h :: expand w (PLit l2 :: q')).
          change (inst e repl (PHole h :: expand w (PLit l2 :: q'))) with (hole_val e h +++ inst e repl (expand w (PLit l2 :: q'))).
          rewrite <- IH.
          change (inst e "" (PLit l2 :: q')) with (l2 +++ inst e "" q').
          rewrite Heq. simpl.
          rewrite (sub_run_split (hole_val e h) "" c _ Hc).
          rewrite (sub_run_free _ "" Hv). simpl. rewrite Hc. rewrite flush_empty. reflexivity. }
  intros Hs Hf. apply (Hgen (List.length p) p (le_n _) Hs Hf).
Qed.

Theorem subst_fstring : forall (e : henv) (p : pattern),
  sep_ok p = true -> holes_free e p ->
  subst_word w repl (fstring e p) = inst e repl (hole_form w p).
Proof.
  intros e p Hs Hf. unfold subst_word, fstring, hole_form.
  rewrite merge_lits_inst. apply subst_inst; assumption.
Qed.
End Subst.
