(* Soundness of Cpp/FillConsistent.v over the semantics of Cpp/Exec.v:
   for every program the checker accepts, every event, every incoming member state that respects the declared
   member types and every sequence of events, the per-event code keeps the invariant
     - no block-local name shadows a column variable (so what Fill reads is what the C++ scoping rules read),
     - every column member holds a value of the shape of its declared type,
     - every row written so far has one entry per branch, each of the shape of the branch's member,
   and right after each Fill every vector column is empty before any other statement runs. *)
From FV Require Import Base.Prelude Cpp.IR Cpp.Exec Cpp.FillConsistent.
From Coq Require Import Lia.

(* ------------------------------------------------------------------------------------------ *)
(* frames                                                                                       *)
(* ------------------------------------------------------------------------------------------ *)
Lemma frame_set_same : forall (x : string) (v : value) (f f' : frame),
  frame_set x v f = Some f' ->
  exists t w, frame_get x f = Some (t, w) /\ frame_get x f' = Some (t, v).
Proof.
  induction f as [|[y [t w]] r IH]; intros f' H; simpl in H; [discriminate|].
  simpl. destruct (String.eqb x y) eqn:E.
  - inversion H; subst. simpl. rewrite E. eauto.
  - destruct (frame_set x v r) as [r'|] eqn:Er; [|discriminate]. inversion H; subst.
    simpl. rewrite E. eapply IH. reflexivity.
Qed.

Lemma frame_set_other : forall (x y : string) (v : value) (f f' : frame),
  frame_set x v f = Some f' -> String.eqb y x = false -> frame_get y f' = frame_get y f.
Proof.
  induction f as [|[z [t w]] r IH]; intros f' H Hne; simpl in H; [discriminate|].
  destruct (String.eqb x z) eqn:E.
  - inversion H; subst. simpl. apply String.eqb_eq in E. subst z. rewrite Hne. reflexivity.
  - destruct (frame_set x v r) as [r'|] eqn:Er; [|discriminate]. inversion H; subst.
    simpl. destruct (String.eqb y z); [reflexivity|]. apply IH; auto.
Qed.

Lemma frame_set_none : forall (x : string) (v : value) (f : frame),
  frame_get x f = None -> frame_set x v f = None.
Proof.
  induction f as [|[y [t w]] r IH]; intros H; simpl in *; [reflexivity|].
  destruct (String.eqb x y); [discriminate|]. rewrite IH; auto.
Qed.

Lemma frame_get_app_none : forall (x : string) (f g : frame),
  frame_get x f = None -> frame_get x g = None -> frame_get x (f ++ g) = None.
Proof.
  induction f as [|[y tv] r IH]; intros g Hf Hg; simpl in *; [exact Hg|].
  destruct (String.eqb x y); [discriminate|]. apply IH; auto.
Qed.

(* ------------------------------------------------------------------------------------------ *)
(* columns                                                                                      *)
(* ------------------------------------------------------------------------------------------ *)
Lemma is_col_true : forall cols x, is_col cols x = true <-> exists t, col_type x cols = Some t.
Proof.
  intros cols x. unfold is_col. destruct (col_type x cols) as [t|]; split; intros H; eauto; try discriminate.
  destruct H as (t & H). discriminate.
Qed.

Lemma is_col_false : forall cols x, is_col cols x = false <-> col_type x cols = None.
Proof.
  intros cols x. unfold is_col. destruct (col_type x cols); split; intros H; auto; discriminate.
Qed.

Lemma column_types_member : forall ms brs cols,
  column_types ms brs = Some cols ->
  forall x t, col_type x cols = Some t -> member_type x ms = Some t.
Proof.
  induction brs as [|b r IH]; intros cols H x t Hc; simpl in H.
  - inversion H; subst. discriminate.
  - destruct (member_type (br_var b) ms) as [tb|] eqn:Eb; [|discriminate].
    destruct (column_types ms r) as [r'|] eqn:Er; [|discriminate].
    inversion H; subst. simpl in Hc. destruct (String.eqb x (br_var b)) eqn:E.
    + apply String.eqb_eq in E. subst. inversion Hc; subst. exact Eb.
    + eapply IH; eauto.
Qed.

Lemma column_types_branch : forall ms brs cols,
  column_types ms brs = Some cols ->
  forall b, In b brs -> exists t, col_type (br_var b) cols = Some t.
Proof.
  induction brs as [|b0 r IH]; intros cols H b Hin; simpl in *; [contradiction|].
  destruct (member_type (br_var b0) ms) as [tb|] eqn:Eb; [|discriminate].
  destruct (column_types ms r) as [r'|] eqn:Er; [|discriminate].
  inversion H; subst. simpl. destruct (String.eqb (br_var b) (br_var b0)) eqn:E; [eauto|].
  destruct Hin as [Hin|Hin]; [subst; rewrite String.eqb_refl in E; discriminate|].
  eapply IH; eauto.
Qed.

(* ------------------------------------------------------------------------------------------ *)
(* shapes                                                                                       *)
(* ------------------------------------------------------------------------------------------ *)
Lemma conv_shape : forall t v, scalar_shape t (conv t v) = true.
Proof.
  intros t v. unfold scalar_shape, conv.
  destruct (String.eqb t "int"); [destruct v; reflexivity|].
  destruct (String.eqb t "double" || String.eqb t "float"); [destruct v; reflexivity|].
  destruct (String.eqb t "bool"); [destruct v; reflexivity|]. reflexivity.
Qed.

Lemma scalar_shape_uninit : forall t, scalar_shape t VUninit = true.
Proof.
  intros t. unfold scalar_shape.
  destruct (String.eqb t "int"); [reflexivity|].
  destruct (String.eqb t "double" || String.eqb t "float"); [reflexivity|].
  destruct (String.eqb t "bool"); reflexivity.
Qed.

Lemma shape_default : forall t, shape t (default_value t) = true.
Proof.
  intros t. unfold shape, default_value. destruct (is_vector_type t); [reflexivity|apply scalar_shape_uninit].
Qed.

(* ------------------------------------------------------------------------------------------ *)
(* the invariant                                                                                *)
(* ------------------------------------------------------------------------------------------ *)
Section Sound.
Variable cols : list (string * string).
Variable brs : list branch.
Hypothesis brs_cols : forall b, In b brs -> exists t, col_type (br_var b) cols = Some t.

Definition frame_free (f : frame) : Prop := forall x, is_col cols x = true -> frame_get x f = None.
Definition col_ok (m : frame) : Prop :=
  forall x t, col_type x cols = Some t -> exists v, frame_get x m = Some (t, v) /\ shape t v = true.
Definition entry_ok (b : branch) (v : value) : Prop :=
  exists t, col_type (br_var b) cols = Some t /\ shape t v = true.
Definition row_ok (r : list value) : Prop := Forall2 entry_ok brs r.

Record Inv (st : state) : Prop := {
  inv_frames : Forall frame_free (frames st);
  inv_cols : col_ok (members st);
  inv_rows : Forall row_ok (rows st)
}.

Lemma frames_get_free : forall x fs, Forall frame_free fs -> is_col cols x = true -> frames_get x fs = None.
Proof.
  intros x fs H Hx. induction H as [|f r Hf Hr IH]; simpl; [reflexivity|]. rewrite (Hf x Hx). exact IH.
Qed.

Lemma frames_set_free : forall x v fs, Forall frame_free fs -> is_col cols x = true -> frames_set x v fs = None.
Proof.
  intros x v fs H Hx. induction H as [|f r Hf Hr IH]; simpl; [reflexivity|].
  rewrite (frame_set_none x v f (Hf x Hx)). rewrite IH. reflexivity.
Qed.

Lemma frame_set_keeps_free : forall x v f f', frame_set x v f = Some f' -> frame_free f -> frame_free f'.
Proof.
  intros x v f f' H Hf y Hy. destruct (String.eqb y x) eqn:E.
  - apply String.eqb_eq in E. subst y. rewrite (frame_set_none x v f (Hf x Hy)) in H. discriminate.
  - rewrite (frame_set_other x y v f f' H E). apply Hf; auto.
Qed.

Lemma frames_set_keeps_free : forall x v fs fs',
  frames_set x v fs = Some fs' -> Forall frame_free fs -> Forall frame_free fs'.
Proof.
  induction fs as [|f r IH]; intros fs' H Hfs; simpl in H; [discriminate|].
  inversion Hfs as [|? ? Hf Hr]; subst.
  destruct (frame_set x v f) as [f'|] eqn:Ef.
  - inversion H; subst. constructor; auto. eapply frame_set_keeps_free; eauto.
  - destruct (frames_set x v r) as [r'|] eqn:Er; [|discriminate]. inversion H; subst.
    constructor; auto.
Qed.

(* what Fill reads (the member) is what the C++ scoping rules resolve the column variable to *)
Lemma lookup_col : forall st x t, Inv st -> col_type x cols = Some t ->
  exists v, lookup x st = Some (t, v) /\ frame_get x (members st) = Some (t, v) /\ shape t v = true.
Proof.
  intros st x t HI Hc. destruct (inv_cols st HI x t Hc) as (v & Hg & Hs).
  exists v. unfold lookup. rewrite (frames_get_free x (frames st) (inv_frames st HI)).
  - rewrite Hg. auto.
  - apply is_col_true. eauto.
Qed.

Lemma assign_col : forall st st' x t v, Inv st -> col_type x cols = Some t -> shape t v = true ->
  assign x v st = Some st' -> Inv st'.
Proof.
  intros st st' x t v HI Hc Hs Ha. unfold assign in Ha.
  rewrite (frames_set_free x v (frames st) (inv_frames st HI)) in Ha by (apply is_col_true; eauto).
  destruct (frame_set x v (members st)) as [m|] eqn:Em; [|discriminate]. inversion Ha; subst. clear Ha.
  constructor; simpl; [apply (inv_frames st HI)| |apply (inv_rows st HI)].
  intros y ty Hy. destruct (String.eqb y x) eqn:E.
  - apply String.eqb_eq in E. subst y. rewrite Hc in Hy. inversion Hy; subst ty.
    destruct (frame_set_same x v _ _ Em) as (t0 & w & Hg & Hg').
    destruct (inv_cols st HI x t Hc) as (v0 & Hg0 & _). rewrite Hg in Hg0. inversion Hg0; subst.
    exists v. auto.
  - rewrite (frame_set_other x y v _ _ Em E). apply (inv_cols st HI); auto.
Qed.

Lemma assign_noncol : forall st st' x v, Inv st -> is_col cols x = false -> assign x v st = Some st' -> Inv st'.
Proof.
  intros st st' x v HI Hx Ha. unfold assign in Ha.
  destruct (frames_set x v (frames st)) as [fs|] eqn:Ef.
  - inversion Ha; subst. constructor; simpl; [|apply (inv_cols st HI)|apply (inv_rows st HI)].
    eapply frames_set_keeps_free; eauto. apply (inv_frames st HI).
  - destruct (frame_set x v (members st)) as [m|] eqn:Em; [|discriminate]. inversion Ha; subst.
    constructor; simpl; [apply (inv_frames st HI)| |apply (inv_rows st HI)].
    intros y ty Hy. assert (E : String.eqb y x = false).
    { destruct (String.eqb y x) eqn:E; [|reflexivity]. apply String.eqb_eq in E. subst y.
      apply is_col_false in Hx. rewrite Hx in Hy. discriminate. }
    rewrite (frame_set_other x y v _ _ Em E). apply (inv_cols st HI); auto.
Qed.

Lemma fill_row_ok : forall st, Inv st -> row_ok (fill_row brs st).
Proof.
  intros st HI. unfold row_ok, fill_row.
  assert (H : forall l, (forall b, In b l -> In b brs) ->
            Forall2 entry_ok l (map (fun b => match frame_get (br_var b) (members st) with
                                              | Some (_, v) => v | None => VUninit end) l)).
  { induction l as [|b r IH]; intros Hl; simpl; constructor.
    - destruct (brs_cols b (Hl b (or_introl eq_refl))) as (t & Ht).
      destruct (inv_cols st HI _ _ Ht) as (v & Hg & Hs). rewrite Hg. exists t. auto.
    - apply IH. intros b' Hb'. apply Hl. right. exact Hb'. }
  apply H. auto.
Qed.

(* the row a Fill appends is the list of the column variables' current values as `lookup` resolves them *)
Lemma fill_row_scoped : forall st, Inv st ->
  fill_row brs st = map (fun b => match lookup (br_var b) st with Some (_, v) => v | None => VUninit end) brs.
Proof.
  intros st HI. unfold fill_row. apply map_ext_in. intros b Hb.
  destruct (brs_cols b Hb) as (t & Ht). destruct (lookup_col st _ _ HI Ht) as (v & Hl & Hg & _).
  rewrite Hl, Hg. reflexivity.
Qed.

Lemma Inv_push : forall st pre, Inv st -> frame_free pre ->
  Inv {| frames := pre :: frames st; members := members st; rows := rows st |}.
Proof.
  intros st pre HI Hp. constructor; simpl; [constructor; [exact Hp|apply (inv_frames st HI)]
                                           |apply (inv_cols st HI)|apply (inv_rows st HI)].
Qed.

Lemma Inv_pop : forall st, Inv st -> Inv (pop_frame st).
Proof.
  intros st HI. constructor; simpl; [|apply (inv_cols st HI)|apply (inv_rows st HI)].
  pose proof (inv_frames st HI) as H. destruct (frames st); simpl; [constructor|]. inversion H; auto.
Qed.

Lemma frame_free_nil : frame_free [].
Proof. intros x _. reflexivity. Qed.

Lemma frame_free_single : forall x tv, is_col cols x = false -> frame_free [(x, tv)].
Proof.
  intros x tv Hx y Hy. simpl. destruct (String.eqb y x) eqn:E; [|reflexivity].
  apply String.eqb_eq in E. subst. rewrite Hx in Hy. discriminate.
Qed.

Lemma Inv_declare : forall st x t v, Inv st -> is_col cols x = false -> Inv (declare x t v st).
Proof.
  intros st x t v HI Hx. unfold declare. pose proof (inv_frames st HI) as Hf.
  destruct (frames st) as [|f r] eqn:E; constructor; simpl;
    try apply (inv_cols st HI); try apply (inv_rows st HI).
  - constructor; [|constructor]. apply frame_free_single; auto.
  - inversion Hf as [|? ? Hf1 Hr]; subst. constructor; auto.
    intros y Hy. apply frame_get_app_none; [apply Hf1; auto|]. apply (frame_free_single x (t, v) Hx y Hy).
Qed.

Lemma run_decls_Inv : forall ev ds st st',
  forallb (fun d => negb (is_col cols (d_name d))) ds = true ->
  Inv st -> run_decls ev ds st = ROk st' -> Inv st'.
Proof.
  induction ds as [|d r IH]; intros st st' Hok HI H; simpl in *.
  - inversion H; subst; auto.
  - apply andb_true_iff in Hok. destruct Hok as [Hd Hr]. apply negb_true_iff in Hd.
    destruct (d_init d) as [e|].
    + destruct (eval ev st e) as [v| |]; simpl in H; try discriminate.
      eapply IH; [exact Hr| |exact H]. apply Inv_declare; auto.
    + eapply IH; [exact Hr| |exact H]. apply Inv_declare; auto.
Qed.

(* ------------------------------------------------------------------------------------------ *)
(* preservation by every accepted statement / block / statement list                           *)
(* ------------------------------------------------------------------------------------------ *)
Variable atlas : bool.
Variable tree : string.
Variable ev : event.

Lemma scalar_col_type : forall x, is_scalar_col cols x = true ->
  exists t, col_type x cols = Some t /\ is_vector_type t = false.
Proof.
  intros x H. unfold is_scalar_col in H. destruct (col_type x cols) as [t|]; [|discriminate].
  exists t. split; auto. now apply negb_true_iff in H.
Qed.
Lemma vec_col_type : forall x, is_vec_col cols x = true ->
  exists t, col_type x cols = Some t /\ is_vector_type t = true.
Proof.
  intros x H. unfold is_vec_col in H. destruct (col_type x cols) as [t|]; [|discriminate]. eauto.
Qed.

Lemma exec_set_Inv : forall x c e st st',
  (negb (is_col cols x) || is_scalar_col cols x) = true ->
  Inv st -> exec_stmt brs ev (SSet x c e) st = ROk st' -> Inv st'.
Proof.
  intros x c e st st' Hok HI H. cbn [exec_stmt exec_block exec_stmts rbind] in H.
  destruct (eval ev st e) as [v| |]; cbn [rbind] in H; try discriminate.
  destruct (lookup x st) as [[t w]|] eqn:El; [|discriminate].
  destruct (assign x _ st) as [st1|] eqn:Ea; [|discriminate]. inversion H; subst st1. clear H.
  apply orb_true_iff in Hok. destruct Hok as [Hn|Hs].
  - apply negb_true_iff in Hn. eapply assign_noncol; eauto.
  - destruct (scalar_col_type x Hs) as (tc & Hc & Hv).
    destruct (lookup_col st x tc HI Hc) as (v0 & Hl & _). rewrite El in Hl.
    assert (Et : t = tc) by congruence. subst t.
    refine (assign_col st st' x tc _ HI Hc _ Ea). unfold shape. rewrite Hv. apply conv_shape.
Qed.

Lemma exec_push_Inv : forall x c e st st',
  (negb (is_col cols x) || is_vec_col cols x) = true ->
  Inv st -> exec_stmt brs ev (SPush x c e) st = ROk st' -> Inv st'.
Proof.
  intros x c e st st' Hok HI H. cbn [exec_stmt exec_block exec_stmts rbind] in H.
  destruct (eval ev st e) as [v| |]; cbn [rbind] in H; try discriminate.
  destruct (lookup x st) as [[t w]|] eqn:El; [|discriminate].
  destruct w; try discriminate.
  destruct (assign x _ st) as [st1|] eqn:Ea; [|discriminate]. inversion H; subst st1. clear H.
  apply orb_true_iff in Hok. destruct Hok as [Hn|Hs].
  - apply negb_true_iff in Hn. eapply assign_noncol; eauto.
  - destruct (vec_col_type x Hs) as (tc & Hc & Hv).
    destruct (lookup_col st x tc HI Hc) as (v0 & Hl & _ & Hsh). rewrite El in Hl.
    assert (Et : t = tc) by congruence. subst t. assert (Ev : v0 = VVec l) by congruence. subst v0.
    refine (assign_col st st' x tc _ HI Hc _ Ea). unfold shape in *. rewrite Hv in *.
    rewrite forallb_app, Hsh. simpl. rewrite conv_shape. reflexivity.
Qed.

Lemma exec_clear_Inv : forall x st st',
  (negb (is_col cols x) || is_vec_col cols x) = true ->
  Inv st -> exec_stmt brs ev (SClear x) st = ROk st' -> Inv st'.
Proof.
  intros x st st' Hok HI H. cbn [exec_stmt exec_block exec_stmts rbind] in H.
  destruct (lookup x st) as [[t w]|] eqn:El; [|discriminate].
  destruct w; try discriminate.
  destruct (assign x _ st) as [st1|] eqn:Ea; [|discriminate]. inversion H; subst st1. clear H.
  apply orb_true_iff in Hok. destruct Hok as [Hn|Hs].
  - apply negb_true_iff in Hn. eapply assign_noncol; eauto.
  - destruct (vec_col_type x Hs) as (tc & Hc & Hv).
    refine (assign_col st st' x tc _ HI Hc _ Ea). unfold shape. rewrite Hv. reflexivity.
Qed.

(* unfolding equations (all by conversion) *)
Definition for_loop (x : string) (b : block) : list value -> state -> res state :=
  fix loop (l : list value) (st : state) {struct l} : res state :=
    match l with
    | [] => ROk st
    | v :: r => rdo st' <- exec_block brs ev b [(x, ("auto", v))] st; loop r st'
    end.
Lemma exec_for_eq : forall x e b st,
  exec_stmt brs ev (SFor x e b) st =
  rdo c <- eval ev st e;
  match c with VVec l => for_loop x b l st | _ => RStuck (KType "range of a for loop is not a vector") end.
Proof. reflexivity. Qed.
Lemma exec_if_eq : forall c b els st,
  exec_stmt brs ev (SIf c b els) st =
  rdo v <- eval ev st c; rdo t <- truth v;
  if t then exec_block brs ev b [] st
  else match els with Some b2 => exec_block brs ev b2 [] st | None => ROk st end.
Proof. reflexivity. Qed.
Lemma exec_blk_eq : forall b st, exec_stmt brs ev (SBlk b) st = exec_block brs ev b [] st.
Proof. reflexivity. Qed.
Lemma exec_block_eq : forall ds body pre st,
  exec_block brs ev (Blk ds body) pre st =
  rdo st1 <- run_decls ev ds {| frames := pre :: frames st; members := members st; rows := rows st |};
  rdo st2 <- exec_stmts brs ev body st1; ROk (pop_frame st2).
Proof. reflexivity. Qed.
Lemma exec_cons_eq : forall s r st,
  exec_stmts brs ev (SCons s r) st = rdo st' <- exec_stmt brs ev s st; exec_stmts brs ev r st'.
Proof. reflexivity. Qed.
Lemma ok_for_eq : forall x e b,
  ok_stmt atlas tree cols (SFor x e b) = negb (is_col cols x) && ok_block atlas tree cols b.
Proof. reflexivity. Qed.
Lemma ok_if_eq : forall c b els,
  ok_stmt atlas tree cols (SIf c b els) =
  ok_block atlas tree cols b && match els with Some b2 => ok_block atlas tree cols b2 | None => true end.
Proof. reflexivity. Qed.
Lemma ok_blk_eq : forall b, ok_stmt atlas tree cols (SBlk b) = ok_block atlas tree cols b.
Proof. reflexivity. Qed.
Lemma ok_block_eq : forall ds body,
  ok_block atlas tree cols (Blk ds body) =
  forallb (fun d => negb (is_col cols (d_name d))) ds && ok_stmts atlas tree cols body.
Proof. reflexivity. Qed.
Lemma ok_cons_eq : forall s r,
  ok_stmts atlas tree cols (SCons s r) =
  ok_stmt atlas tree cols s
  && match s with
     | SFill _ => match strip_clears (vec_cols cols) r with Some _ => true | None => false end
     | _ => true
     end
  && ok_stmts atlas tree cols r.
Proof. reflexivity. Qed.

Definition P_stmt (s : stmt) : Prop :=
  forall st st', ok_stmt atlas tree cols s = true -> Inv st -> exec_stmt brs ev s st = ROk st' -> Inv st'.
Definition P_block (b : block) : Prop :=
  forall pre st st', ok_block atlas tree cols b = true -> frame_free pre -> Inv st ->
    exec_block brs ev b pre st = ROk st' -> Inv st'.
Definition P_stmts (l : stmts) : Prop :=
  forall st st', ok_stmts atlas tree cols l = true -> Inv st -> exec_stmts brs ev l st = ROk st' -> Inv st'.

Lemma case_fill : forall line, P_stmt (SFill line).
Proof.
  intros line st st' _ HI H. cbn [exec_stmt] in H. inversion H; subst. clear H.
  constructor; simpl; [apply (inv_frames st HI)|apply (inv_cols st HI)|].
  apply Forall_app. split; [apply (inv_rows st HI)|]. constructor; [|constructor]. apply fill_row_ok; auto.
Qed.

Lemma case_fetch : forall idiom target ct bank lines, P_stmt (SFetch idiom target ct bank lines).
Proof.
  intros idiom target ct bank lines st st' Hok HI H. cbn [exec_stmt ok_stmt] in *.
  destruct (assoc_ss (ct, bank) (ev_colls ev)) as [v|]; [|discriminate].
  destruct (assign target v st) as [st1|] eqn:Ea; [|discriminate].
  assert (st1 = st') by congruence. subst st1.
  apply negb_true_iff in Hok. eapply assign_noncol; eauto.
Qed.

Lemma case_iota : forall v b, P_stmt (SIota v b).
Proof.
  intros v b st st' Hok HI H. cbn [exec_stmt ok_stmt] in *. apply negb_true_iff in Hok.
  destruct (lookup v st) as [[t w]|]; [|discriminate].
  destruct (lookup b st) as [[t2 w2]|]; [|destruct w; discriminate].
  destruct w; try (destruct w2; discriminate).
  destruct w2; try discriminate.
  destruct (assign v _ st) as [st1|] eqn:Ea; [|discriminate].
  assert (st1 = st') by congruence. subst st1.
  eapply assign_noncol; eauto.
Qed.

Lemma case_for : forall x e b, P_block b -> P_stmt (SFor x e b).
Proof.
  intros x e b IHb st st' Hok HI H. rewrite ok_for_eq in Hok. rewrite exec_for_eq in H.
  apply andb_true_iff in Hok. destruct Hok as [Hx Hb]. apply negb_true_iff in Hx.
  destruct (eval ev st e) as [c| |]; cbn [rbind] in H; try discriminate.
  destruct c; try discriminate.
  revert st HI H. induction l as [|v r IHl]; intros st HI H; cbn [for_loop] in H.
  - assert (st = st') by congruence. subst; auto.
  - destruct (exec_block brs ev b [(x, ("auto", v))] st) as [st1| |] eqn:Eb; cbn [rbind] in H; try discriminate.
    apply (IHl st1); [|exact H]. eapply IHb; [exact Hb| |exact HI|exact Eb]. apply frame_free_single; auto.
Qed.

Definition P_opt (o : option block) : Prop := match o with Some b2 => P_block b2 | None => True end.
Lemma case_if : forall c b els, P_block b -> P_opt els -> P_stmt (SIf c b els).
Proof.
  intros c b els IHb IHe st st' Hok HI H. unfold P_opt in IHe. rewrite ok_if_eq in Hok. rewrite exec_if_eq in H.
  apply andb_true_iff in Hok. destruct Hok as [Hb He].
  destruct (eval ev st c) as [v| |]; cbn [rbind] in H; try discriminate.
  destruct (truth v) as [t| |]; cbn [rbind] in H; try discriminate.
  destruct t.
  - eapply IHb; [exact Hb|apply frame_free_nil|exact HI|exact H].
  - destruct els as [b2|].
    + eapply IHe; [exact He|apply frame_free_nil|exact HI|exact H].
    + assert (st = st') by congruence. subst; auto.
Qed.

Lemma case_blk : forall b, P_block b -> P_stmt (SBlk b).
Proof.
  intros b IHb st st' Hok HI H. rewrite ok_blk_eq in Hok. rewrite exec_blk_eq in H.
  eapply IHb; [exact Hok|apply frame_free_nil|exact HI|exact H].
Qed.

Lemma case_block : forall ds body, P_stmts body -> P_block (Blk ds body).
Proof.
  intros ds body IHbody pre st st' Hok Hpre HI H. rewrite ok_block_eq in Hok. rewrite exec_block_eq in H.
  apply andb_true_iff in Hok. destruct Hok as [Hds Hbody].
  destruct (run_decls ev ds _) as [st1| |] eqn:Ed; cbn [rbind] in H; try discriminate.
  destruct (exec_stmts brs ev body st1) as [st2| |] eqn:Es; cbn [rbind] in H; try discriminate.
  assert (pop_frame st2 = st') by congruence. subst st'. apply Inv_pop.
  eapply IHbody; [exact Hbody| |exact Es].
  eapply run_decls_Inv; [exact Hds| |exact Ed]. apply Inv_push; auto.
Qed.

Lemma case_cons : forall s r, P_stmt s -> P_stmts r -> P_stmts (SCons s r).
Proof.
  intros s r IHs IHr st st' Hok HI H. rewrite ok_cons_eq in Hok. rewrite exec_cons_eq in H.
  apply andb_true_iff in Hok. destruct Hok as [Hok Hr]. apply andb_true_iff in Hok. destruct Hok as [Hs _].
  destruct (exec_stmt brs ev s st) as [st1| |] eqn:E1; cbn [rbind] in H; try discriminate.
  eapply IHr; [exact Hr| |exact H]. eapply IHs; [exact Hs|exact HI|exact E1].
Qed.

Lemma case_stuck : forall s, (forall st, exec_stmt brs ev s st <> ROk st -> True) ->
  (forall st st', exec_stmt brs ev s st = ROk st' -> False) -> P_stmt s.
Proof. intros s _ Hno st st' _ _ H. exfalso. eapply Hno; eauto. Qed.

Fixpoint pres_stmt (s : stmt) : P_stmt s :=
  match s as s0 return P_stmt s0 with
  | SSet x c e => fun st st' Hok HI H => exec_set_Inv x c e st st' Hok HI H
  | SPush x c e => fun st st' Hok HI H => exec_push_Inv x c e st st' Hok HI H
  | SClear x => fun st st' Hok HI H => exec_clear_Inv x st st' Hok HI H
  | SFill line => case_fill line
  | SThrow line => fun st st' _ _ H => match (eq_ind (RFault FThrow) (fun r => match r with RFault _ => True | _ => False end) I _ H) with end
  | SFetch idiom target ct bank lines => case_fetch idiom target ct bank lines
  | SIota v b => case_iota v b
  | SUser lines ids target => fun st st' _ _ H => match (eq_ind (RStuck (KOpaque "user C++ block")) (fun r => match r with RStuck _ => True | _ => False end) I _ H) with end
  | SLine l ids => fun st st' _ _ H => match (eq_ind (RStuck (KOpaque l)) (fun r => match r with RStuck _ => True | _ => False end) I _ H) with end
  | SFor x e b => case_for x e b (pres_block b)
  | SIf c b els =>
      case_if c b els (pres_block b)
        (match els as o return P_opt o with
         | Some b2 => pres_block b2
         | None => I
         end)
  | SBlk b => case_blk b (pres_block b)
  end
with pres_block (b : block) : P_block b :=
  match b as b0 return P_block b0 with
  | Blk ds body => case_block ds body (pres_stmts body)
  end
with pres_stmts (l : stmts) : P_stmts l :=
  match l as l0 return P_stmts l0 with
  | SNil => fun st st' _ HI H => eq_ind st (fun s => Inv s) HI st' (f_equal (fun r => match r with ROk a => a | _ => st end) H)
  | SCons s r => case_cons s r (pres_stmt s) (pres_stmts r)
  end.

Lemma preservation : (forall s, P_stmt s) /\ (forall b, P_block b) /\ (forall l, P_stmts l).
Proof. split; [exact pres_stmt|split; [exact pres_block|exact pres_stmts]]. Qed.

(* ------------------------------------------------------------------------------------------ *)
(* right after a Fill every vector column is empty                                              *)
(* ------------------------------------------------------------------------------------------ *)
Definition cleared (x : string) (st : state) : Prop :=
  exists t, frame_get x (members st) = Some (t, VVec []).

Lemma strip_clears_exec : forall xs l l' st st2 done,
  strip_clears xs l = Some l' ->
  (forall x, In x xs -> is_vec_col cols x = true) ->
  Inv st -> (forall x, In x done -> cleared x st) ->
  exec_stmts brs ev l st = ROk st2 ->
  exists st1, exec_stmts brs ev l' st1 = ROk st2 /\ Inv st1 /\ rows st1 = rows st
              /\ (forall x, In x (done ++ xs) -> cleared x st1).
Proof.
  induction xs as [|x r IH]; intros l l' st st2 done Hs Hv HI Hd H; simpl in Hs.
  - inversion Hs; subst. exists st. rewrite app_nil_r. auto.
  - destruct l as [|s l0]; [discriminate|]. destruct s; try discriminate.
    destruct (String.eqb x x0) eqn:E; [|discriminate]. apply String.eqb_eq in E. subst x0.
    cbn [exec_stmt exec_block exec_stmts rbind] in H. destruct (vec_col_type x (Hv x (or_introl eq_refl))) as (tc & Hc & Hvt).
    destruct (lookup_col st x tc HI Hc) as (v0 & Hl & _ & _). rewrite Hl in H.
    destruct v0; try discriminate.
    destruct (assign x (VVec []) st) as [st1|] eqn:Ea; [|discriminate]. cbn [exec_stmt exec_block exec_stmts rbind] in H.
    assert (HI1 : Inv st1).
    { refine (assign_col st st1 x tc _ HI Hc _ Ea). unfold shape. rewrite Hvt. reflexivity. }
    assert (Hrows : rows st1 = rows st /\ (forall y, cleared y st -> cleared y st1) /\ cleared x st1).
    { unfold assign in Ea.
      rewrite (frames_set_free x (VVec []) (frames st) (inv_frames st HI)) in Ea by (apply is_col_true; eauto).
      destruct (frame_set x (VVec []) (members st)) as [m|] eqn:Em; [|discriminate]. inversion Ea; subst. simpl.
      split; [reflexivity|]. unfold cleared; simpl.
      destruct (frame_set_same x (VVec []) _ _ Em) as (t0 & w & Hg & Hg'). split; [|eauto].
      intros y (ty & Hy). destruct (String.eqb y x) eqn:Eyx.
      - apply String.eqb_eq in Eyx. subst y. eauto.
      - rewrite (frame_set_other x y _ _ _ Em Eyx). eauto. }
    destruct Hrows as (Hr1 & Hkeep & Hx).
    destruct (IH l0 l' st1 st2 (done ++ [x]) Hs) as (st3 & He & HI3 & Hr3 & Hc3); auto.
    + intros y Hy. apply Hv. right. exact Hy.
    + intros y Hy. apply in_app_or in Hy. destruct Hy as [Hy|[Hy|[]]]; [apply Hkeep; auto|subst; auto].
    + exists st3. split; [exact He|]. split; [exact HI3|]. split; [congruence|].
      intros y Hy. apply Hc3. rewrite <- app_assoc. exact Hy.
Qed.

Lemma vec_cols_are_vec : forall x, NoDup (map fst cols) -> In x (vec_cols cols) -> is_vec_col cols x = true.
Proof.
  intros x Hnd Hin. unfold vec_cols in Hin. apply in_map_iff in Hin. destruct Hin as ([y t] & Hy & Hf).
  simpl in Hy. subst y. apply filter_In in Hf. destruct Hf as (Hin & Hv). simpl in Hv.
  unfold is_vec_col. clear brs_cols.
  induction cols as [|[z tz] r IH]; [contradiction|]. simpl in *.
  inversion Hnd as [|? ? Hnz Hnr]; subst.
  destruct Hin as [Heq|Hin].
  - inversion Heq; subst. rewrite String.eqb_refl. exact Hv.
  - destruct (String.eqb x z) eqn:E.
    + apply String.eqb_eq in E. subst z. exfalso. apply Hnz. apply in_map_iff. exists (x, t). auto.
    + apply IH; auto.
Qed.

Lemma fill_then_cleared : forall line r st st2,
  NoDup (map fst cols) ->
  ok_stmts atlas tree cols (SCons (SFill line) r) = true -> Inv st ->
  exec_stmts brs ev (SCons (SFill line) r) st = ROk st2 ->
  exists r' st1,
    strip_clears (vec_cols cols) r = Some r'
    /\ rows st1 = rows st ++ [fill_row brs st]
    /\ (forall x, In x (vec_cols cols) -> cleared x st1)
    /\ Inv st1
    /\ exec_stmts brs ev r' st1 = ROk st2.
Proof.
  intros line r st st2 Hnd Hok HI H. simpl in Hok.
  apply andb_true_iff in Hok. destruct Hok as [Hok Hr]. apply andb_true_iff in Hok. destruct Hok as [Hf Hs].
  destruct (strip_clears (vec_cols cols) r) as [r'|] eqn:Es; [|discriminate].
  simpl in H.
  set (st0 := {| frames := frames st; members := members st; rows := rows st ++ [fill_row brs st] |}) in *.
  assert (HI0 : Inv st0).
  { constructor; simpl; [apply (inv_frames st HI)|apply (inv_cols st HI)|].
    apply Forall_app. split; [apply (inv_rows st HI)|]. constructor; [|constructor]. apply fill_row_ok; auto. }
  destruct (strip_clears_exec (vec_cols cols) r r' st0 st2 [] Es) as (st1 & He & HI1 & Hr1 & Hc1); auto.
  - intros x Hx. apply vec_cols_are_vec; auto.
  - intros x [].
  - exists r', st1. simpl in Hc1. auto.
Qed.

End Sound.

(* ------------------------------------------------------------------------------------------ *)
(* whole programs, events, jobs                                                                 *)
(* ------------------------------------------------------------------------------------------ *)
(* an entry of a row has the shape of the declared type of its branch's member *)
Definition entry_shaped (p : program) (b : branch) (v : value) : Prop :=
  exists t, member_type (br_var b) (p_members p) = Some t /\ shape t v = true.
Definition row_shaped (p : program) (r : list value) : Prop := Forall2 (entry_shaped p) (p_branches p) r.
(* the member state respects the declared types of the column members *)
Definition members_shaped (p : program) (ms : frame) : Prop :=
  forall b, In b (p_branches p) ->
    exists t v, member_type (br_var b) (p_members p) = Some t /\ frame_get (br_var b) ms = Some (t, v) /\ shape t v = true.

Lemma nodup_str_NoDup : forall l, nodup_str l = true -> NoDup l.
Proof.
  induction l as [|x r IH]; intros H; simpl in H; constructor.
  - apply andb_true_iff in H. destruct H as [H _]. apply negb_true_iff in H.
    intros Hin. clear IH. induction r as [|y r IHr]; [contradiction|]. simpl in H.
    destruct (String.eqb x y) eqn:E; [discriminate|]. destruct Hin as [Hy|Hin]; [subst; rewrite String.eqb_refl in E; discriminate|auto].
  - apply IH. apply andb_true_iff in H. tauto.
Qed.

Lemma column_types_fst : forall ms brs cols, column_types ms brs = Some cols -> map fst cols = map br_var brs.
Proof.
  induction brs as [|b r IH]; intros cols H; simpl in H.
  - inversion H; reflexivity.
  - destruct (member_type (br_var b) ms); [|discriminate]. destruct (column_types ms r) eqn:E; [|discriminate].
    inversion H; subst. simpl. f_equal. apply IH. reflexivity.
Qed.

Lemma col_type_in_branch : forall ms brs cols x t,
  column_types ms brs = Some cols -> col_type x cols = Some t -> exists b, In b brs /\ br_var b = x.
Proof.
  induction brs as [|b r IH]; intros cols x t H Hc; simpl in H.
  - inversion H; subst. discriminate.
  - destruct (member_type (br_var b) ms); [|discriminate]. destruct (column_types ms r) eqn:E; [|discriminate].
    inversion H; subst. simpl in Hc. destruct (String.eqb x (br_var b)) eqn:Ex.
    + apply String.eqb_eq in Ex. exists b. split; [left; reflexivity|auto].
    + destruct (IH l x t eq_refl Hc) as (b' & Hb' & Hv). exists b'. split; [right; auto|auto].
Qed.

Section Program.
Variable atlas : bool.
Variable p : program.
Hypothesis accepted : fill_consistent_for atlas p = true.

Lemma accepted_cols : exists cols,
  column_types (p_members p) (p_branches p) = Some cols
  /\ NoDup (map br_var (p_branches p))
  /\ ok_block atlas (p_tree p) cols (p_body p) = true.
Proof.
  unfold fill_consistent_for in accepted.
  destruct (column_types (p_members p) (p_branches p)) as [cols|]; [|discriminate].
  apply andb_true_iff in accepted. destruct accepted as [Hb Ho]. unfold branches_ok in Hb.
  apply andb_true_iff in Hb. destruct Hb as [Hn _]. exists cols. split; [reflexivity|]. split; [|exact Ho].
  apply nodup_str_NoDup; auto.
Qed.

Lemma members_shaped_col_ok : forall cols ms,
  column_types (p_members p) (p_branches p) = Some cols -> members_shaped p ms -> col_ok cols ms.
Proof.
  intros cols ms Hc Hm x t Hx.
  destruct (col_type_in_branch _ _ _ _ _ Hc Hx) as (b & Hb & Hv). subst x.
  destruct (Hm b Hb) as (t' & v & Hmt & Hg & Hs).
  rewrite (column_types_member _ _ _ Hc _ _ Hx) in Hmt. inversion Hmt; subst. eauto.
Qed.

Lemma col_ok_members_shaped : forall cols ms,
  column_types (p_members p) (p_branches p) = Some cols -> col_ok cols ms -> members_shaped p ms.
Proof.
  intros cols ms Hc Hm b Hb. destruct (column_types_branch _ _ _ Hc b Hb) as (t & Ht).
  destruct (Hm _ _ Ht) as (v & Hg & Hs). exists t, v. split; [|auto].
  eapply column_types_member; eauto.
Qed.

Lemma row_ok_shaped : forall cols r,
  column_types (p_members p) (p_branches p) = Some cols -> row_ok cols (p_branches p) r -> row_shaped p r.
Proof.
  intros cols r Hc H. unfold row_ok, row_shaped in *.
  assert (G : forall l r0, Forall2 (entry_ok cols) l r0 -> Forall2 (entry_shaped p) l r0).
  { intros l r0 H0. induction H0 as [|b v l l' Hbv Hl IH]; constructor; [|exact IH].
    destruct Hbv as (t & Ht & Hs). exists t. split; [|exact Hs]. eapply column_types_member; eauto. }
  apply G. exact H.
Qed.

(* one event *)
Lemma run_event_sound : forall ms ev rws ms',
  members_shaped p ms -> run_event p ms ev = ROk (rws, ms') ->
  Forall (row_shaped p) rws /\ members_shaped p ms'.
Proof.
  intros ms ev rws ms' Hm H. destruct accepted_cols as (cols & Hc & Hnd & Hok).
  unfold run_event in H.
  destruct (exec_block (p_branches p) ev (p_body p) [] _) as [st| |] eqn:E; try discriminate.
  inversion H; subst. clear H.
  pose proof (preservation cols (p_branches p) (column_types_branch _ _ _ Hc) atlas (p_tree p) ev) as (_ & Pb & _).
  assert (HI : Inv cols (p_branches p) st).
  { eapply Pb; [exact Hok|apply frame_free_nil| |exact E].
    constructor; simpl; [constructor|eapply members_shaped_col_ok; eauto|constructor]. }
  split.
  - eapply Forall_impl; [|apply (inv_rows _ _ _ HI)]. intros r Hr. eapply row_ok_shaped; eauto.
  - eapply col_ok_members_shaped; eauto. apply (inv_cols _ _ _ HI).
Qed.

Lemma frame_get_initial : forall x ms t, member_type x ms = Some t ->
  frame_get x (initial_members ms) = Some (t, default_value t).
Proof.
  induction ms as [|m r IH]; intros t H; simpl in *; [discriminate|].
  destruct (String.eqb x (m_name m)); [inversion H; reflexivity|auto].
Qed.

Lemma initial_members_shaped : members_shaped p (initial_members (p_members p)).
Proof.
  destruct accepted_cols as (cols & Hc & _ & _). intros b Hb.
  destruct (column_types_branch _ _ _ Hc b Hb) as (t & Ht).
  pose proof (column_types_member _ _ _ Hc _ _ Ht) as Hm.
  exists t, (default_value t). split; [exact Hm|]. split; [apply frame_get_initial; auto|apply shape_default].
Qed.

(* a whole job: any number of events through one analysis object *)
Definition job_rows (j : job_result) : list (list (list value)) :=
  match j with JDone rs => rs | JAbort rs _ _ => rs | JStuck _ _ => [] end.

Lemma run_job_from_sound : forall evs ms n acc,
  members_shaped p ms -> Forall (Forall (row_shaped p)) acc ->
  Forall (Forall (row_shaped p)) (job_rows (run_job_from p ms evs n acc)).
Proof.
  induction evs as [|ev r IH]; intros ms n acc Hm Ha; simpl; [exact Ha|].
  destruct (run_event p ms ev) as [[rs ms']| |] eqn:E; simpl; [|exact Ha|constructor].
  destruct (run_event_sound _ _ _ _ Hm E) as (Hr & Hm'). apply IH; auto.
  apply Forall_app. split; [exact Ha|constructor; [exact Hr|constructor]].
Qed.

Lemma run_job_sound : forall evs, Forall (Forall (row_shaped p)) (job_rows (run_job p evs)).
Proof.
  intros evs. unfold run_job. apply run_job_from_sound; [apply initial_members_shaped|constructor].
Qed.

Lemma row_shaped_length : forall r, row_shaped p r -> List.length r = List.length (p_branches p).
Proof.
  intros r H. unfold row_shaped in H.
  assert (G : forall (l : list branch) (r0 : list value), Forall2 (entry_shaped p) l r0 -> List.length r0 = List.length l).
  { intros l r0 H0. induction H0; simpl; auto. }
  apply G. exact H.
Qed.

End Program.

(* shape, spelled out for the types the translator emits *)
Lemma shape_int : forall v, shape "int" v = true -> forall q b, v <> VDbl q /\ v <> VBool b.
Proof. intros v H q b. split; intros E; subst; discriminate. Qed.
Lemma shape_double : forall v, shape "double" v = true -> forall z b, v <> VInt z /\ v <> VBool b.
Proof. intros v H z b. split; intros E; subst; discriminate. Qed.
Lemma shape_bool : forall v, shape "bool" v = true -> forall z q, v <> VInt z /\ v <> VDbl q.
Proof. intros v H z q. split; intros E; subst; discriminate. Qed.
Lemma shape_vector : forall t v, is_vector_type t = true -> shape t v = true ->
  exists l, v = VVec l /\ forallb (scalar_shape (vector_elem_type t)) l = true.
Proof.
  intros t v Ht H. unfold shape in H. rewrite Ht in H. destruct v; try discriminate. eauto.
Qed.
