(* C16 - the five statements of the property, for any backend whose script satisfies `spec` in every
   world of a family (the per-backend master lemmas of Runner_*_Proofs.v / Runner_*_Built.v). *)
From FV Require Import Base.Prelude Model.Shell Proofs.ShellProofs.
From Coq Require Import Lia.

Section Statements.
Variables (B : backend) (S : cmds) (world : config -> fs -> Prop).

(* a command line the theorems speak about: its -d word is non-empty, its -o word is one of dest_words *)
Definition words_ok (args : list string) : Prop :=
  match classify args with Flags _ _ d o' => plain_d d /\ known_o o' | _ => True end.
Definition master : Prop := forall cfg W args o n, world cfg W -> words_ok args ->
  spec B (classify args) W o n (invoke S cfg W args o n).

(* unknown flag (or missing option argument): exit 10, no tool run, nothing touched; stray argument: exit 1 *)
Definition flags_stmt : Prop := forall cfg W args o n, world cfg W ->
  let r := invoke S cfg W args o n in
  (classify args = Unknown -> r.(r_exit) = 10 /\ r.(r_st).(tlog) = [] /\ r.(r_st).(fsys) = W) /\
  (classify args = Stray -> r.(r_exit) = 1 /\ r.(r_st).(tlog) = [] /\ r.(r_st).(fsys) = W).

(* build tools run iff not -r, the job runs iff not -c, -d f makes f the job's sole input, -o p delivers to p *)
Definition phases_stmt : Prop := forall cfg W args o n c rr d o', world cfg W -> words_ok args ->
  classify args = Flags c rr d o' ->
  let r := invoke S cfg W args o n in
  (rr = true -> log_has_any B.(b_build) r.(r_st).(tlog) = false) /\
  (c = true -> log_has B.(b_job) r.(r_st).(tlog) = false) /\
  (r.(r_exit) = 0 -> rr = false -> log_has_all B.(b_build) r.(r_st).(tlog) = true) /\
  (r.(r_exit) = 0 -> c = false -> log_has B.(b_job) r.(r_st).(tlog) = true) /\
  (r.(r_exit) = 0 -> c = false ->
     exists q, delivery W B.(b_rundir) (dest_word o') = Some q /\
               fs_get r.(r_st).(fsys) q = Some (File (B.(b_out) (job_output n (input_of d))))).

(* some invoked step fails: exit status non-zero and no destination changed *)
Definition fail_stmt : Prop := forall cfg W args o n c rr d o', world cfg W -> words_ok args ->
  classify args = Flags c rr d o' ->
  let r := invoke S cfg W args o n in
  (exists k, k < r.(r_st).(steps) /\ o k = true) ->
  r.(r_exit) <> 0 /\ unchanged (dest_locs B) W r.(r_st).(fsys).

(* exit 0 without -c: no step failed and the destination holds the output of this invocation's job *)
Definition ok_stmt : Prop := forall cfg W args o n c rr d o', world cfg W -> words_ok args ->
  classify args = Flags c rr d o' ->
  let r := invoke S cfg W args o n in
  r.(r_exit) = 0 ->
  (forall k, k < r.(r_st).(steps) -> o k = false) /\
  (c = false -> exists q, delivery W B.(b_rundir) (dest_word o') = Some q /\
                          fs_get r.(r_st).(fsys) q = Some (File (B.(b_out) (job_output n (input_of d))))) /\
  r.(r_st).(unmodelled) = false.

(* any non-zero exit leaves every destination as it was *)
Definition nonzero_stmt : Prop := forall cfg W args o n c rr d o', world cfg W -> words_ok args ->
  classify args = Flags c rr d o' ->
  let r := invoke S cfg W args o n in
  r.(r_exit) <> 0 -> unchanged (dest_locs B) W r.(r_st).(fsys).

Hypothesis M : master.

Lemma flags_of_master : flags_stmt.
Proof.
  intros cfg W args o n Hw. cbv zeta. pose proof (M cfg W args o n Hw) as H. unfold words_ok in H.
  split; intros Hc; rewrite Hc in H; exact (H I).
Qed.
Lemma phases_of_master : phases_stmt.
Proof.
  intros cfg W args o n c rr d o' Hw Hok Hc. cbv zeta. pose proof (M cfg W args o n Hw Hok) as H. rewrite Hc in H.
  destruct H as [_ [H2 [H3 [H4 [H5 _]]]]].
  split; [exact H2|]. split; [exact H3|].
  split; [intros E R; exact (proj1 (H4 E) R)|]. split; [intros E C; exact (proj1 (proj2 (H4 E)) C)|exact H5].
Qed.
Lemma fail_of_master : fail_stmt.
Proof.
  intros cfg W args o n c rr d o' Hw Hok Hc. cbv zeta. pose proof (M cfg W args o n Hw Hok) as H. rewrite Hc in H.
  destruct H as [_ [_ [_ [H4 [_ H6]]]]]. intros [k [Hk Hf]].
  assert (Hne : r_exit (invoke S cfg W args o n) <> 0).
  { intros E. destruct (H4 E) as [_ [_ Hall]]. rewrite (Hall k Hk) in Hf. discriminate Hf. }
  split; [exact Hne|exact (H6 Hne)].
Qed.
Lemma ok_of_master : ok_stmt.
Proof.
  intros cfg W args o n c rr d o' Hw Hok Hc. cbv zeta. pose proof (M cfg W args o n Hw Hok) as H. rewrite Hc in H.
  destruct H as [H1 [_ [_ [H4 [H5 _]]]]]. intros E.
  split; [exact (proj2 (proj2 (H4 E)))|]. split; [exact (H5 E)|exact H1].
Qed.
Lemma nonzero_of_master : nonzero_stmt.
Proof.
  intros cfg W args o n c rr d o' Hw Hok Hc. cbv zeta. pose proof (M cfg W args o n Hw Hok) as H. rewrite Hc in H.
  destruct H as [_ [_ [_ [_ [_ H6]]]]]. exact H6.
Qed.
End Statements.

Lemma histories_of_master : forall B S (fresh built : config -> fs -> Prop),
  master B S (fun cfg W => fresh cfg W \/ built cfg W) ->
  forall cfg W (i : invocation), built cfg W -> words_ok i.(i_args) ->
  spec B (classify i.(i_args)) W i.(i_oracle) i.(i_nonce) (invoke S cfg W i.(i_args) i.(i_oracle) i.(i_nonce)).
Proof. intros B S fresh built M cfg W i Hb Hok. apply M; [right; exact Hb|exact Hok]. Qed.

