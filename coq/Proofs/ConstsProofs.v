(* Proofs for C18: the text visit_Constant emits lexes, as C++, to the constant it came from. *)
From Coq Require Import ZArith List Bool Lia ZifyBool.
From FV Require Import Base.Prelude Model.CppLex Model.Consts.
Set Default Timeout 20.

(* ---------- strings ---------- *)
Lemma app_assoc_s : forall a b c : string, (a +++ b) +++ c = a +++ (b +++ c).
Proof. induction a as [|x a IH]; intros b c; simpl; [reflexivity | now rewrite IH]. Qed.

Lemma app_nil_r_s : forall a : string, a +++ "" = a.
Proof. induction a as [|x a IH]; simpl; [reflexivity | now rewrite IH]. Qed.

(* one escaped character is read back as that character (all 256 bytes, by computation) *)
Lemma lex_escape_char : forall (c : ascii) (tail : string),
  lex_sbody SNorm (escape_char c +++ tail) = cons_res (Some c) (lex_sbody SNorm tail).
Proof.
  intros c tail.
  destruct c as [b0 b1 b2 b3 b4 b5 b6 b7].
  destruct b0, b1, b2, b3, b4, b5, b6, b7; cbn; reflexivity.
Qed.

Lemma lex_escape : forall (s rest : string),
  lex_sbody SNorm (escape s +++ String """"%char rest) = Some (s, rest).
Proof.
  induction s as [|c s IH]; intros rest.
  - reflexivity.
  - simpl escape. rewrite app_assoc_s, lex_escape_char, IH. reflexivity.
Qed.

Lemma lex_prefix_string_literal : forall (s rest : string),
  lex_prefix (cpp_string_literal s +++ rest) = Some (LStr s, rest).
Proof.
  intros s rest. unfold cpp_string_literal.
  change (String """"%char (escape s +++ """") +++ rest) with (String """"%char ((escape s +++ """") +++ rest)).
  rewrite app_assoc_s.
  unfold lex_prefix.
  change (code """"%char =? 34)%nat with true. cbv iota.
  change ("""" +++ rest) with (String """"%char rest).
  rewrite lex_escape. reflexivity.
Qed.

Lemma lex_string_literal : forall s : string, lex (cpp_string_literal s) = Some (LStr s).
Proof.
  intros s. unfold lex.
  rewrite <- (app_nil_r_s (cpp_string_literal s)), lex_prefix_string_literal. reflexivity.
Qed.

Lemma render_str : forall s : string, render (CStr s) = OK (cpp_string_literal s, TString).
Proof. reflexivity. Qed.

(* the unfixed rendering: a quote, a backslash or a new-line in the string breaks the literal or changes it *)
Lemma render_v0_str_refuted :
  exists s t, render_v0 (CStr s) = OK (t, TString) /\ lex t <> Some (LStr s).
Proof. exists "a""b", """a""b""". split; [reflexivity | vm_compute; discriminate]. Qed.

Lemma render_v0_str_changes_value :
  exists s t s', render_v0 (CStr s) = OK (t, TString) /\ lex t = Some (LStr s') /\ s' <> s.
Proof.
  exists "a\tb", """a\tb""", (String "a" (String (ascii_of_nat 9) "b")).
  split; [reflexivity | split; [vm_compute; reflexivity | discriminate]].
Qed.

(* ---------- decimal printing (Prelude.dec_N) read back ---------- *)
Lemma digit_char_spec : forall d : nat, (d < 10)%nat ->
  is_digit (digit_char d) = true /\ nat_of_ascii (digit_char d) = (48 + d)%nat.
Proof.
  intros d Hd.
  do 10 (destruct d as [|d]; [split; reflexivity|]). lia.
Qed.

Local Opaque digit_char.

Lemma all_digits_app : forall a b : string, all_digits (a +++ b) = all_digits a && all_digits b.
Proof. induction a as [|c a IH]; intros b; simpl; [reflexivity | rewrite IH; now rewrite andb_assoc]. Qed.

Lemma parse_N_acc_app : forall (a b : string) (x : N),
  all_digits a = true ->
  parse_N_acc (a +++ b) x = match parse_N_acc a x with Some y => parse_N_acc b y | None => None end.
Proof.
  induction a as [|c a IH]; intros b x Ha; simpl in *.
  - reflexivity.
  - apply andb_true_iff in Ha. destruct Ha as [Hc Ha]. rewrite Hc. now apply IH.
Qed.

(* the characterisation of one run of dec_N_fuel *)
Definition dec_spec (n : N) (ds : string) : Prop :=
  all_digits ds = true /\ nonempty ds = true /\
  (forall x : N, parse_N_acc ds x = Some (x * 10 ^ N.of_nat (String.length ds) + n)%N) /\
  (n = 0%N -> ds = "0") /\
  (n <> 0%N -> leading_zero ds = false /\ match ds with String c _ => nat_of_ascii c <> 48%nat | EmptyString => False end).

Lemma length_app_s : forall a b : string, String.length (a +++ b) = (String.length a + String.length b)%nat.
Proof. induction a as [|c a IH]; intros b; simpl; [reflexivity | now rewrite IH]. Qed.

Lemma dec_N_fuel_spec : forall (f : nat) (n : N) (acc : string),
  (n < 2 ^ N.of_nat f)%N ->
  exists ds, dec_N_fuel (S f) n acc = ds +++ acc /\ dec_spec n ds.
Proof.
  induction f as [|f IH]; intros n acc Hn.
  - assert (n = 0%N) by (change (2 ^ N.of_nat 0)%N with 1%N in Hn; lia). subst n.
    exists "0". split; [reflexivity|].
    unfold dec_spec. split; [reflexivity|]. split; [reflexivity|]. split.
    { intros x. reflexivity. }
    split; [reflexivity | congruence].
  - remember (S f) as f1. cbn [dec_N_fuel].
    assert (Hd : (N.to_nat (n mod 10) < 10)%nat).
    { pose proof (N.mod_upper_bound n 10). lia. }
    destruct (digit_char_spec _ Hd) as [Hdig Hcode].
    set (dch := digit_char (N.to_nat (n mod 10))) in *.
    destruct (N.eqb (n / 10) 0) eqn:Hq.
    + apply N.eqb_eq in Hq.
      exists (String dch "").
      split; [reflexivity|].
      assert (Hn10 : (n = n mod 10)%N).
      { pose proof (N.div_mod n 10). lia. }
      unfold dec_spec. split; [|split; [|split; [|split]]].
      * cbn [all_digits]. now rewrite Hdig.
      * reflexivity.
      * intros x. cbn [parse_N_acc String.length]. rewrite Hdig, Hcode. f_equal.
        replace (48 + N.to_nat (n mod 10) - 48)%nat with (N.to_nat (n mod 10)) by lia.
        rewrite Nnat.N2Nat.id. change (10 ^ N.of_nat 1)%N with 10%N. lia.
      * intros H0. subst n. subst dch. reflexivity.
      * intros H0. split; [reflexivity|]. rewrite Hcode. lia.
    + apply N.eqb_neq in Hq. subst f1.
      assert (Hlt : (n / 10 < 2 ^ N.of_nat f)%N).
      { rewrite Nnat.Nat2N.inj_succ, N.pow_succ_r' in Hn.
        apply N.div_lt_upper_bound; lia. }
      destruct (IH (n / 10)%N (String dch acc) Hlt) as [ds [Heq [Hall [Hne [Hparse [Hz Hnz]]]]]].
      exists (ds +++ String dch "").
      split.
      { rewrite Heq, app_assoc_s. reflexivity. }
      destruct (Hnz Hq) as [Hlz Hfirst].
      unfold dec_spec. split; [|split; [|split; [|split]]].
      * rewrite all_digits_app, Hall. cbn [all_digits]. now rewrite Hdig.
      * destruct ds; [discriminate | reflexivity].
      * intros x. rewrite parse_N_acc_app by exact Hall. rewrite Hparse. cbn [parse_N_acc].
        rewrite Hdig, Hcode, length_app_s. cbn [String.length].
        assert (E1 : N.of_nat (48 + N.to_nat (n mod 10) - 48) = (n mod 10)%N) by (generalize (n mod 10)%N; intros q; lia).
        assert (E2 : N.of_nat (String.length ds + 1) = N.succ (N.of_nat (String.length ds))) by lia.
        rewrite E1, E2, N.pow_succ_r'. f_equal.
        pose proof (N.div_mod n 10).
        generalize dependent (10 ^ N.of_nat (String.length ds))%N. intros P. lia.
      * intros H0. subst n. exfalso. apply Hq. reflexivity.
      * intros _. split.
        -- destruct ds as [|c ds]; [discriminate|]. cbn [String.append].
           destruct (ds +++ String dch "") eqn:E; [destruct ds; discriminate|].
           cbn [leading_zero]. unfold code. apply Nat.eqb_neq. exact Hfirst.
        -- destruct ds as [|c ds]; [contradiction | exact Hfirst].
Qed.

Lemma dec_N_spec : forall n : N, dec_spec n (dec_N n).
Proof.
  intros n. unfold dec_N.
  destruct (dec_N_fuel_spec (N.to_nat (N.size n)) n "") as [ds [Heq Hs]].
  - rewrite Nnat.N2Nat.id. apply N.size_gt.
  - rewrite Heq, app_nil_r_s. exact Hs.
Qed.

Lemma parse_N_dec_N : forall n : N, parse_N (dec_N n) = Some n.
Proof.
  intros n. destruct (dec_N_spec n) as [_ [Hne [Hp _]]].
  unfold parse_N. destruct (dec_N n) eqn:E; [discriminate|].
  rewrite Hp. f_equal.
Qed.

Lemma ppnum_digits : forall (s : string) (b : bool), all_digits s = true -> ppnum b s = (s, "").
Proof.
  induction s as [|c s IH]; intros b H; simpl in *.
  - reflexivity.
  - apply andb_true_iff in H. destruct H as [Hc Hs].
    unfold is_idchar. rewrite Hc, orb_true_r. simpl. now rewrite IH.
Qed.

Lemma int_value_dec_N : forall n : N, (n <= max_int64)%N -> int_value (dec_N n) = Some n.
Proof.
  intros n Hn. destruct (dec_N_spec n) as [Hall [Hne [_ [Hz Hnz]]]].
  unfold int_value, digits1. rewrite Hall, Hne, parse_N_dec_N. simpl.
  assert (Hlz : leading_zero (dec_N n) = false).
  { destruct (N.eq_dec n 0) as [E|E]; [rewrite (Hz E); reflexivity | apply Hnz; exact E]. }
  rewrite Hlz. destruct (n <=? max_int64)%N eqn:E; [reflexivity | lia].
Qed.

Lemma starts_number_dec_N : forall n : N, starts_number (dec_N n) = true.
Proof.
  intros n. destruct (dec_N_spec n) as [Hall [Hne _]].
  destruct (dec_N n) as [|c r]; [discriminate|]. simpl in *.
  apply andb_true_iff in Hall. destruct Hall as [Hc _]. now rewrite Hc.
Qed.

Lemma first_digit_tests : forall (c : ascii) (r : string), is_digit c = true ->
  (code c =? 34)%nat = false /\ is_minus c = false.
Proof.
  intros c r H. unfold is_digit in H. unfold is_minus, code.
  destruct (nat_of_ascii c =? 34)%nat eqn:E1; destruct (nat_of_ascii c =? 45)%nat eqn:E2; split; try reflexivity; lia.
Qed.

Lemma lex_prefix_dec_N : forall n : N, (n <= max_int64)%N ->
  lex_prefix (dec_N n) = Some (LInt (Z.of_N n), "").
Proof.
  intros n Hn. pose proof (starts_number_dec_N n) as Hs.
  destruct (dec_N_spec n) as [Hall [Hne _]].
  unfold lex_prefix. destruct (dec_N n) as [|c r] eqn:E; [discriminate|].
  assert (Hc : is_digit c = true) by (simpl in Hall; apply andb_true_iff in Hall; tauto).
  destruct (first_digit_tests c r Hc) as [H1 H2]. rewrite H1, H2, Hs.
  rewrite (ppnum_digits _ false Hall). simpl fst. simpl snd.
  unfold number_value. rewrite <- E, (int_value_dec_N n Hn). reflexivity.
Qed.

Lemma lex_dec_Z : forall z : Z, (Z.abs z <= 9223372036854775807)%Z -> lex (dec_Z z) = Some (LInt z).
Proof.
  intros z Hz. unfold lex. destruct z as [|p|p].
  - reflexivity.
  - simpl dec_Z. rewrite lex_prefix_dec_N; [reflexivity | unfold max_int64; lia].
  - simpl dec_Z.
    change ("-" +++ dec_N (N.pos p)) with (String "-"%char (dec_N (N.pos p))).
    unfold lex_prefix.
    change (code "-"%char =? 34)%nat with false. change (is_minus "-"%char) with true. cbv iota.
    rewrite starts_number_dec_N.
    destruct (dec_N_spec (N.pos p)) as [Hall _].
    rewrite (ppnum_digits _ false Hall). simpl fst. simpl snd.
    unfold number_value. rewrite int_value_dec_N by (unfold max_int64; lia). reflexivity.
Qed.

(* visit_Constant on an int *)
Lemma render_int_ok : forall z : Z, (Z.abs z <= 9223372036854775807)%Z ->
  render (CInt z) = OK (dec_Z z, TInt) /\ lex (dec_Z z) = Some (LInt z).
Proof.
  intros z Hz. split; [|now apply lex_dec_Z].
  unfold render. destruct (9223372036854775808 <=? Z.abs z)%Z eqn:E; [lia | reflexivity].
Qed.

Lemma render_int_huge : forall z : Z, (Z.abs z > 9223372036854775807)%Z -> render (CInt z) = Error ErrValue.
Proof.
  intros z Hz. unfold render. destruct (9223372036854775808 <=? Z.abs z)%Z eqn:E; [reflexivity | lia].
Qed.

(* what remains wrong: an integer that fits 64 but not 32 bits keeps the declared type int *)
Lemma render_int_wide_refuted :
  exists z : Z, ~ int32_range z /\ render (CInt z) = OK (dec_Z z, TInt).
Proof. exists 3000000000%Z. split; [unfold int32_range; lia | reflexivity]. Qed.

(* before the fix an integer with no C++ type at all was emitted *)
Lemma render_v0_int_huge_refuted :
  exists (z : Z) (t : string), render_v0 (CInt z) = OK (t, TInt) /\ lex t = None.
Proof. exists 9223372036854775808%Z, "9223372036854775808". split; [reflexivity | vm_compute; reflexivity]. Qed.

(* ---------- booleans ---------- *)
Lemma render_bool : forall b : bool,
  exists t, render (CBool b) = OK (t, TBool) /\ lex t = Some (LBool b).
Proof. intros [|]; eexists; split; reflexivity. Qed.

Lemma render_other : render COther = Error ErrValue.
Proof. reflexivity. Qed.
