(* Proofs for C18: the text visit_Constant emits lexes, as C++, to the constant it came from. *)
From Coq Require Import ZArith List Bool Lia ZifyBool.
From FV Require Import Base.Prelude Model.CppLex Model.Consts.

(* ---------- strings ---------- *)
Lemma app_assoc_s : forall a b c : string, (a +++ b) +++ c = a +++ (b +++ c).
Proof. induction a as [|x a IH]; intros b c; simpl; [reflexivity | now rewrite IH]. Qed.

Lemma app_nil_r_s : forall a : string, a +++ "" = a.
Proof. induction a as [|x a IH]; simpl; [reflexivity | now rewrite IH]. Qed.

(* one escaped character is read back as that character (all 256 bytes, by computation) *)
Lemma lex_escape_char : forall (c : ascii) (tail : string),
  lex_sbody SNorm (escape_char c +++ tail) = cons_res (Some c) (lex_sbody SNorm tail).
Proof.
  intros c tail.
  destruct c as [b0 b1 b2 b3 b4 b5 b6 b7].
  destruct b0, b1, b2, b3, b4, b5, b6, b7; cbn; reflexivity.
Qed.

Lemma lex_escape : forall (s rest : string),
  lex_sbody SNorm (escape s +++ String """"%char rest) = Some (s, rest).
Proof.
  induction s as [|c s IH]; intros rest.
  - reflexivity.
  - simpl escape. rewrite app_assoc_s, lex_escape_char, IH. reflexivity.
Qed.

Lemma lex_prefix_string_literal : forall (s rest : string),
  lex_prefix (cpp_string_literal s +++ rest) = Some (LStr s, rest).
Proof.
  intros s rest. unfold cpp_string_literal.
  change (String """"%char (escape s +++ """") +++ rest) with (String """"%char ((escape s +++ """") +++ rest)).
  rewrite app_assoc_s.
  unfold lex_prefix.
  change (code """"%char =? 34)%nat with true. cbv iota.
  change ("""" +++ rest) with (String """"%char rest).
  rewrite lex_escape. reflexivity.
Qed.

Lemma lex_string_literal : forall s : string, lex (cpp_string_literal s) = Some (LStr s).
Proof.
  intros s. unfold lex.
  rewrite <- (app_nil_r_s (cpp_string_literal s)), lex_prefix_string_literal. reflexivity.
Qed.

Lemma render_str : forall s : string, render (CStr s) = OK (cpp_string_literal s, TString).
Proof. reflexivity. Qed.

Lemma render_str_ok : forall s : string,
  render (CStr s) = OK (cpp_string_literal s, TString) /\ lex (cpp_string_literal s) = Some (LStr s).
Proof. intros s. split; [exact (render_str s) | exact (lex_string_literal s)]. Qed.

(* the unfixed rendering: a quote, a backslash or a new-line in the string breaks the literal or changes it *)
Lemma render_v0_str_refuted :
  exists s t, render_v0 (CStr s) = OK (t, TString) /\ lex t <> Some (LStr s).
Proof. exists "a""b", """a""b""". split; [reflexivity | vm_compute; discriminate]. Qed.

Lemma render_v0_str_changes_value :
  exists s t s', render_v0 (CStr s) = OK (t, TString) /\ lex t = Some (LStr s') /\ s' <> s.
Proof.
  exists "a\tb", """a\tb""", (String "a" (String (ascii_of_nat 9) "b")).
  split; [reflexivity | split; [vm_compute; reflexivity | discriminate]].
Qed.

(* ---------- decimal printing (Prelude.dec_N) read back ---------- *)
Lemma digit_char_spec : forall d : nat, (d < 10)%nat ->
  is_digit (digit_char d) = true /\ nat_of_ascii (digit_char d) = (48 + d)%nat.
Proof.
  intros d Hd.
  do 10 (destruct d as [|d]; [split; reflexivity|]). lia.
Qed.

Local Opaque digit_char.

Lemma all_digits_app : forall a b : string, all_digits (a +++ b) = all_digits a && all_digits b.
Proof. induction a as [|c a IH]; intros b; simpl; [reflexivity | rewrite IH; now rewrite andb_assoc]. Qed.

Lemma parse_N_acc_app : forall (a b : string) (x : N),
  all_digits a = true ->
  parse_N_acc (a +++ b) x = match parse_N_acc a x with Some y => parse_N_acc b y | None => None end.
Proof.
  induction a as [|c a IH]; intros b x Ha; simpl in *.
  - reflexivity.
  - apply andb_true_iff in Ha. destruct Ha as [Hc Ha]. rewrite Hc. now apply IH.
Qed.

(* the characterisation of one run of dec_N_fuel *)
Definition dec_spec (n : N) (ds : string) : Prop :=
  all_digits ds = true /\ nonempty ds = true /\
  (forall x : N, parse_N_acc ds x = Some (x * 10 ^ N.of_nat (String.length ds) + n)%N) /\
  (n = 0%N -> ds = "0") /\
  (n <> 0%N -> leading_zero ds = false /\ match ds with String c _ => nat_of_ascii c <> 48%nat | EmptyString => False end).

Lemma length_app_s : forall a b : string, String.length (a +++ b) = (String.length a + String.length b)%nat.
Proof. induction a as [|c a IH]; intros b; simpl; [reflexivity | now rewrite IH]. Qed.

Lemma dec_N_fuel_spec : forall (f : nat) (n : N) (acc : string),
  (n < 2 ^ N.of_nat f)%N ->
  exists ds, dec_N_fuel (S f) n acc = ds +++ acc /\ dec_spec n ds.
Proof.
  induction f as [|f IH]; intros n acc Hn.
  - assert (n = 0%N) by (change (2 ^ N.of_nat 0)%N with 1%N in Hn; lia). subst n.
    exists "0". split; [reflexivity|].
    unfold dec_spec. split; [reflexivity|]. split; [reflexivity|]. split.
    { intros x. reflexivity. }
    split; [reflexivity | congruence].
  - remember (S f) as f1. cbn [dec_N_fuel].
    assert (Hd : (N.to_nat (n mod 10) < 10)%nat).
    { pose proof (N.mod_upper_bound n 10). lia. }
    destruct (digit_char_spec _ Hd) as [Hdig Hcode].
    set (dch := digit_char (N.to_nat (n mod 10))) in *.
    destruct (N.eqb (n / 10) 0) eqn:Hq.
    + apply N.eqb_eq in Hq.
      exists (String dch "").
      split; [reflexivity|].
      assert (Hn10 : (n = n mod 10)%N).
      { pose proof (N.div_mod n 10). lia. }
      unfold dec_spec. split; [|split; [|split; [|split]]].
      * cbn [all_digits]. now rewrite Hdig.
      * reflexivity.
      * intros x. cbn [parse_N_acc String.length]. rewrite Hdig, Hcode. f_equal.
        replace (48 + N.to_nat (n mod 10) - 48)%nat with (N.to_nat (n mod 10)) by lia.
        rewrite Nnat.N2Nat.id. change (10 ^ N.of_nat 1)%N with 10%N. lia.
      * intros H0. subst n. subst dch. reflexivity.
      * intros H0. split; [reflexivity|]. rewrite Hcode. lia.
    + apply N.eqb_neq in Hq. subst f1.
      assert (Hlt : (n / 10 < 2 ^ N.of_nat f)%N).
      { rewrite Nnat.Nat2N.inj_succ, N.pow_succ_r' in Hn.
        apply N.div_lt_upper_bound; lia. }
      destruct (IH (n / 10)%N (String dch acc) Hlt) as [ds [Heq [Hall [Hne [Hparse [Hz Hnz]]]]]].
      exists (ds +++ String dch "").
      split.
      { rewrite Heq, app_assoc_s. reflexivity. }
      destruct (Hnz Hq) as [Hlz Hfirst].
      unfold dec_spec. split; [|split; [|split; [|split]]].
      * rewrite all_digits_app, Hall. cbn [all_digits]. now rewrite Hdig.
      * destruct ds; [discriminate | reflexivity].
      * intros x. rewrite parse_N_acc_app by exact Hall. rewrite Hparse. cbn [parse_N_acc].
        rewrite Hdig, Hcode, length_app_s. cbn [String.length].
        assert (E1 : N.of_nat (48 + N.to_nat (n mod 10) - 48) = (n mod 10)%N) by (generalize (n mod 10)%N; intros q; lia).
        assert (E2 : N.of_nat (String.length ds + 1) = N.succ (N.of_nat (String.length ds))) by lia.
        rewrite E1, E2, N.pow_succ_r'. f_equal.
        pose proof (N.div_mod n 10).
        generalize dependent (10 ^ N.of_nat (String.length ds))%N. intros P. lia.
      * intros H0. subst n. exfalso. apply Hq. reflexivity.
      * intros _. split.
        -- destruct ds as [|c ds]; [discriminate|]. cbn [String.append].
           destruct (ds +++ String dch "") eqn:E; [destruct ds; discriminate|].
           cbn [leading_zero]. unfold code. apply Nat.eqb_neq. exact Hfirst.
        -- destruct ds as [|c ds]; [contradiction | exact Hfirst].
Qed.

Lemma dec_N_spec : forall n : N, dec_spec n (dec_N n).
Proof.
  intros n. unfold dec_N.
  destruct (dec_N_fuel_spec (N.to_nat (N.size n)) n "") as [ds [Heq Hs]].
  - rewrite Nnat.N2Nat.id. apply N.size_gt.
  - rewrite Heq, app_nil_r_s. exact Hs.
Qed.

Lemma parse_N_dec_N : forall n : N, parse_N (dec_N n) = Some n.
Proof.
  intros n. destruct (dec_N_spec n) as [_ [Hne [Hp _]]].
  unfold parse_N. destruct (dec_N n) eqn:E; [discriminate|].
  rewrite Hp. f_equal.
Qed.

Lemma ppnum_digits : forall (s : string) (b : bool), all_digits s = true -> ppnum b s = (s, "").
Proof.
  induction s as [|c s IH]; intros b H; simpl in *.
  - reflexivity.
  - apply andb_true_iff in H. destruct H as [Hc Hs].
    unfold is_idchar. rewrite Hc, orb_true_r. simpl. now rewrite IH.
Qed.

Lemma int_value_dec_N : forall n : N, (n <= max_int64)%N -> int_value (dec_N n) = Some n.
Proof.
  intros n Hn. destruct (dec_N_spec n) as [Hall [Hne [_ [Hz Hnz]]]].
  unfold int_value, digits1. rewrite Hall, Hne, parse_N_dec_N. simpl.
  assert (Hlz : leading_zero (dec_N n) = false).
  { destruct (N.eq_dec n 0) as [E|E]; [rewrite (Hz E); reflexivity | apply Hnz; exact E]. }
  rewrite Hlz. destruct (n <=? max_int64)%N eqn:E; [reflexivity | lia].
Qed.

Lemma starts_number_dec_N : forall n : N, starts_number (dec_N n) = true.
Proof.
  intros n. destruct (dec_N_spec n) as [Hall [Hne _]].
  destruct (dec_N n) as [|c r]; [discriminate|]. simpl in *.
  apply andb_true_iff in Hall. destruct Hall as [Hc _]. now rewrite Hc.
Qed.

Lemma first_digit_tests : forall (c : ascii) (r : string), is_digit c = true ->
  (code c =? 34)%nat = false /\ is_minus c = false.
Proof.
  intros c r H. unfold is_digit in H. unfold is_minus, code.
  destruct (nat_of_ascii c =? 34)%nat eqn:E1; destruct (nat_of_ascii c =? 45)%nat eqn:E2; split; try reflexivity; lia.
Qed.

Lemma lex_prefix_dec_N : forall n : N, (n <= max_int64)%N ->
  lex_prefix (dec_N n) = Some (LInt (Z.of_N n), "").
Proof.
  intros n Hn. pose proof (starts_number_dec_N n) as Hs.
  destruct (dec_N_spec n) as [Hall [Hne _]].
  unfold lex_prefix. destruct (dec_N n) as [|c r] eqn:E; [discriminate|].
  assert (Hc : is_digit c = true) by (simpl in Hall; apply andb_true_iff in Hall; tauto).
  destruct (first_digit_tests c r Hc) as [H1 H2]. rewrite H1, H2, Hs.
  rewrite (ppnum_digits _ false Hall). simpl fst. simpl snd.
  unfold number_value. rewrite <- E, (int_value_dec_N n Hn). reflexivity.
Qed.

Lemma lex_dec_Z : forall z : Z, (Z.abs z <= 9223372036854775807)%Z -> lex (dec_Z z) = Some (LInt z).
Proof.
  intros z Hz. unfold lex. destruct z as [|p|p].
  - reflexivity.
  - simpl dec_Z. rewrite lex_prefix_dec_N; [reflexivity | unfold max_int64; lia].
  - simpl dec_Z.
    change ("-" +++ dec_N (N.pos p)) with (String "-"%char (dec_N (N.pos p))).
    unfold lex_prefix.
    change (code "-"%char =? 34)%nat with false. change (is_minus "-"%char) with true. cbv iota.
    rewrite starts_number_dec_N.
    destruct (dec_N_spec (N.pos p)) as [Hall _].
    rewrite (ppnum_digits _ false Hall). simpl fst. simpl snd.
    unfold number_value. rewrite int_value_dec_N by (unfold max_int64; lia). reflexivity.
Qed.

(* visit_Constant on an int *)
Lemma render_int_ok : forall z : Z, (Z.abs z <= 9223372036854775807)%Z ->
  render (CInt z) = OK (dec_Z z, TInt) /\ lex (dec_Z z) = Some (LInt z).
Proof.
  intros z Hz. split; [|now apply lex_dec_Z].
  unfold render. destruct (9223372036854775808 <=? Z.abs z)%Z eqn:E; [lia | reflexivity].
Qed.

Lemma render_int32_ok : forall z : Z, int32_range z ->
  render (CInt z) = OK (dec_Z z, TInt) /\ lex (dec_Z z) = Some (LInt z).
Proof. intros z H. apply render_int_ok. unfold int32_range in H. lia. Qed.

Lemma render_int_huge : forall z : Z, (Z.abs z > 9223372036854775807)%Z -> render (CInt z) = Error ErrValue.
Proof.
  intros z Hz. unfold render. destruct (9223372036854775808 <=? Z.abs z)%Z eqn:E; [reflexivity | lia].
Qed.

(* what remains wrong: an integer that fits 64 but not 32 bits keeps the declared type int *)
Lemma render_int_wide_refuted :
  exists z : Z, ~ int32_range z /\ render (CInt z) = OK (dec_Z z, TInt).
Proof. exists 3000000000%Z. split; [unfold int32_range; lia | reflexivity]. Qed.

(* before the fix an integer with no C++ type at all was emitted *)
Lemma render_v0_int_huge_refuted :
  exists (z : Z) (t : string), render_v0 (CInt z) = OK (t, TInt) /\ lex t = None.
Proof. exists 9223372036854775808%Z, "9223372036854775808". split; [reflexivity | vm_compute; reflexivity]. Qed.

(* ---------- booleans ---------- *)
Lemma render_bool : forall b : bool,
  exists t, render (CBool b) = OK (t, TBool) /\ lex t = Some (LBool b).
Proof. intros [|]; eexists; split; reflexivity. Qed.

Lemma render_other : render COther = Error ErrValue.
Proof. reflexivity. Qed.

(* ---------- floats: Python's repr grammar is inside the C++ floating-literal grammar ---------- *)
Fixpoint all_s (p : ascii -> bool) (s : string) : bool :=
  match s with EmptyString => true | String c r => p c && all_s p r end.

Lemma all_s_app : forall p (a b : string), all_s p (a +++ b) = all_s p a && all_s p b.
Proof. induction a as [|c a IH]; intros b; simpl; [reflexivity | rewrite IH; now rewrite andb_assoc]. Qed.

Lemma all_s_impl : forall (p q : ascii -> bool) (s : string),
  (forall c, p c = true -> q c = true) -> all_s p s = true -> all_s q s = true.
Proof.
  intros p q s Hpq. induction s as [|c s IH]; simpl; [reflexivity|].
  intros H. apply andb_true_iff in H. destruct H as [H1 H2]. rewrite (Hpq c H1), (IH H2). reflexivity.
Qed.

Lemma all_digits_all_s : forall s : string, all_digits s = all_s is_digit s.
Proof. induction s as [|c s IH]; simpl; [reflexivity | now rewrite IH]. Qed.

Lemma break_at_some : forall p (s a r : string) (c : ascii),
  break_at p s = (a, Some (c, r)) ->
  s = a +++ String c r /\ p c = true /\ all_s (fun x => negb (p x)) a = true.
Proof.
  intros p. induction s as [|x s IH]; intros a r c H; simpl in H.
  - discriminate.
  - destruct (p x) eqn:Hx.
    + inversion H; subst. repeat split; assumption.
    + destruct (break_at p s) as [a' o] eqn:E. inversion H; subst.
      destruct (IH a' r c eq_refl) as [H1 [H2 H3]]. subst s.
      repeat split; [assumption|]. simpl. now rewrite Hx, H3.
Qed.

Lemma break_at_none : forall p (s a : string),
  break_at p s = (a, None) -> s = a /\ all_s (fun x => negb (p x)) a = true.
Proof.
  intros p. induction s as [|x s IH]; intros a H; simpl in H.
  - inversion H; subst. split; reflexivity.
  - destruct (p x) eqn:Hx; [discriminate|].
    destruct (break_at p s) as [a' o] eqn:E. inversion H; subst.
    destruct (IH a' eq_refl) as [H1 H2]. subst s. split; [reflexivity|]. simpl. now rewrite Hx, H2.
Qed.

Lemma break_at_app : forall p (a r : string) (c : ascii),
  all_s (fun x => negb (p x)) a = true -> p c = true ->
  break_at p (a +++ String c r) = (a, Some (c, r)).
Proof.
  intros p. induction a as [|x a IH]; intros r c Ha Hc; simpl in *.
  - now rewrite Hc.
  - apply andb_true_iff in Ha. destruct Ha as [Hx Ha].
    apply negb_true_iff in Hx. rewrite Hx, (IH r c Ha Hc). reflexivity.
Qed.

Lemma break_at_all : forall p (a : string),
  all_s (fun x => negb (p x)) a = true -> break_at p a = (a, None).
Proof.
  intros p. induction a as [|x a IH]; intros Ha; simpl in *.
  - reflexivity.
  - apply andb_true_iff in Ha. destruct Ha as [Hx Ha].
    apply negb_true_iff in Hx. rewrite Hx, (IH Ha). reflexivity.
Qed.

(* character facts, by enumeration of the 256 bytes *)
Ltac by_bytes c := destruct c as [[] [] [] [] [] [] [] []]; try discriminate; try reflexivity.

Lemma digit_not_special : forall c : ascii, is_digit c = true ->
  is_e c = false /\ is_dot c = false /\ is_e_lower c = false /\ is_idchar c = true /\ is_expch c = false.
Proof. intros c; by_bytes c; intros _; repeat split. Qed.
Lemma dot_facts : forall c : ascii, is_dot c = true ->
  is_e c = false /\ is_digit c = false /\ is_e_lower c = false /\ is_expch c = false.
Proof. intros c; by_bytes c; intros _; repeat split. Qed.
Lemma e_lower_facts : forall c : ascii, is_e_lower c = true ->
  is_e c = true /\ is_digit c = false /\ is_idchar c = true /\ is_expch c = true /\ is_dot c = false.
Proof. intros c; by_bytes c; intros _; repeat split. Qed.
Lemma sign_facts : forall c : ascii, is_plus c || is_minus c = true ->
  is_digit c = false /\ (is_plus c = true \/ (is_plus c = false /\ is_minus c = true)).
Proof. intros c; by_bytes c; intros _; split; auto. Qed.

Definition plain (c : ascii) : bool := is_digit c || is_dot c.

Lemma plain_no_e : forall s : string, all_s plain s = true ->
  all_s (fun x => negb (is_e x)) s = true /\ all_s (fun x => negb (is_e_lower x)) s = true.
Proof.
  intros s H. split; (eapply all_s_impl; [|exact H]); intros c Hc; unfold plain in Hc;
  apply orb_true_iff in Hc; destruct Hc as [Hc|Hc].
  - now destruct (digit_not_special c Hc) as [-> _].
  - now destruct (dot_facts c Hc) as [-> _].
  - now destruct (digit_not_special c Hc) as [_ [_ [-> _]]].
  - now destruct (dot_facts c Hc) as [_ [_ [-> _]]].
Qed.

Lemma digits_plain : forall s : string, all_digits s = true -> all_s plain s = true.
Proof.
  intros s H. rewrite all_digits_all_s in H. eapply all_s_impl; [|exact H].
  intros c Hc. unfold plain. now rewrite Hc.
Qed.

Lemma digits_no_dot : forall s : string, all_digits s = true -> all_s (fun x => negb (is_dot x)) s = true.
Proof.
  intros s H. rewrite all_digits_all_s in H. eapply all_s_impl; [|exact H].
  intros c Hc. now destruct (digit_not_special c Hc) as [_ [-> _]].
Qed.

Lemma ppnum_plain : forall (s : string) (b : bool), all_s plain s = true -> ppnum b s = (s, "").
Proof.
  induction s as [|c s IH]; intros b H; simpl in *.
  - reflexivity.
  - apply andb_true_iff in H. destruct H as [Hc Hs].
    assert (E : is_idchar c || is_dot c = true).
    { unfold plain in Hc. apply orb_true_iff in Hc. destruct Hc as [Hc|Hc].
      - now destruct (digit_not_special c Hc) as [_ [_ [_ [-> _]]]].
      - rewrite Hc. apply orb_true_r. }
    rewrite E. simpl. now rewrite IH.
Qed.

Lemma ppnum_exp : forall (a ds : string) (c sg : ascii) (b : bool),
  all_s plain a = true -> is_e_lower c = true -> is_plus sg || is_minus sg = true -> all_digits ds = true ->
  ppnum b (a +++ String c (String sg ds)) = (a +++ String c (String sg ds), "").
Proof.
  induction a as [|x a IH]; intros ds c sg b Ha Hc Hsg Hds.
  - cbn [String.append ppnum].
    destruct (e_lower_facts c Hc) as [_ [_ [Hid [Hex _]]]].
    rewrite Hid, Hex, Hsg. simpl. rewrite (ppnum_digits ds _ Hds), orb_true_r. reflexivity.
  - cbn [String.append ppnum]. simpl in Ha. apply andb_true_iff in Ha. destruct Ha as [Hx Ha].
    assert (E : is_idchar x || is_dot x = true).
    { unfold plain in Hx. apply orb_true_iff in Hx. destruct Hx as [Hx|Hx].
      - now destruct (digit_not_special x Hx) as [_ [_ [_ [-> _]]]].
      - rewrite Hx. apply orb_true_r. }
    rewrite E. simpl. rewrite (IH ds c sg _ Ha Hc Hsg Hds). reflexivity.
Qed.

Lemma parse_digits_some : forall (s : string) (x : N), all_digits s = true -> exists y, parse_N_acc s x = Some y.
Proof.
  induction s as [|c s IH]; intros x H; simpl in *.
  - eexists; reflexivity.
  - apply andb_true_iff in H. destruct H as [Hc Hs]. rewrite Hc. apply IH. exact Hs.
Qed.

Lemma parse_N_digits1 : forall s : string, digits1 s = true -> exists y, parse_N s = Some y.
Proof.
  intros s H. unfold digits1 in H. apply andb_true_iff in H. destruct H as [Hn Hd].
  destruct s; [discriminate|]. unfold parse_N. apply parse_digits_some. exact Hd.
Qed.

Lemma not_digits_app : forall (a r : string) (c : ascii), is_digit c = false -> all_digits (a +++ String c r) = false.
Proof. intros a r c Hc. rewrite all_digits_app. simpl. rewrite Hc. apply andb_false_r. Qed.

Lemma int_value_not_digits : forall s : string, all_digits s = false -> int_value s = None.
Proof.
  intros s H. unfold int_value, digits1. rewrite H, andb_false_r. now destruct (leading_zero s).
Qed.

(* the mantissa part:  digits [. digits] *)
Definition py_mant (m : string) : Prop :=
  (exists ip c fp, m = ip +++ String c fp /\ is_dot c = true /\ digits1 ip = true /\ digits1 fp = true)
  \/ digits1 m = true.

Lemma signif_of_py_mant : forall m : string, py_mant m -> exists v, signif_value m true = Some v.
Proof.
  intros m [[ip [c [fp [-> [Hc [Hip Hfp]]]]]] | Hm]; unfold signif_value.
  - unfold digits1 in *. apply andb_true_iff in Hip, Hfp. destruct Hip as [Hn1 Hd1]. destruct Hfp as [Hn2 Hd2].
    rewrite (break_at_app is_dot ip fp c (digits_no_dot ip Hd1) Hc), Hd1, Hd2, Hn1. simpl.
    destruct (parse_digits_some (ip +++ fp) 0%N) as [y Hy]; [now rewrite all_digits_app, Hd1, Hd2|].
    rewrite Hy. eexists; reflexivity.
  - pose proof Hm as Hm'. unfold digits1 in Hm. apply andb_true_iff in Hm. destruct Hm as [Hn Hd].
    rewrite (break_at_all is_dot m (digits_no_dot m Hd)), Hn, Hd. simpl.
    destruct (parse_N_digits1 m Hm') as [y ->]. eexists; reflexivity.
Qed.

Lemma py_mant_plain : forall m : string, py_mant m -> all_s plain m = true /\ starts_number m = true.
Proof.
  intros m [[ip [c [fp [-> [Hc [Hip Hfp]]]]]] | Hm]; unfold digits1 in *.
  - apply andb_true_iff in Hip, Hfp. destruct Hip as [Hn1 Hd1]. destruct Hfp as [Hn2 Hd2]. split.
    + rewrite all_s_app. simpl. rewrite (digits_plain ip Hd1), (digits_plain fp Hd2). unfold plain. rewrite Hc, orb_true_r. reflexivity.
    + destruct ip as [|d ip]; [discriminate|]. simpl in *. apply andb_true_iff in Hd1. destruct Hd1 as [-> _]. reflexivity.
  - apply andb_true_iff in Hm. destruct Hm as [Hn Hd]. split; [now apply digits_plain|].
    destruct m as [|d m]; [discriminate|]. simpl in *. apply andb_true_iff in Hd. destruct Hd as [-> _]. reflexivity.
Qed.

Lemma starts_number_app : forall a b : string, starts_number a = true -> all_s plain a = true -> starts_number (a +++ b) = true.
Proof.
  intros a b H Hp. destruct a as [|c a]; [discriminate|]. simpl in *.
  destruct (is_digit c) eqn:Hd; [reflexivity|]. simpl in *.
  destruct (is_dot c); [|discriminate]. simpl in *.
  destruct a as [|d a]; [discriminate|]. simpl. exact H.
Qed.

(* every finite repr body is one C++ floating literal token, not an integer literal *)
Lemma py_body_is_cpp_float : forall s : string, py_finite_body s = true ->
  (exists v, float_value s = Some v) /\ int_value s = None /\ ppnum false s = (s, "") /\ starts_number s = true.
Proof.
  intros s H. unfold py_finite_body in H.
  destruct (break_at is_e_lower s) as [m [[c ex]|]] eqn:Eb.
  - (* exponent form *)
    apply andb_true_iff in H. destruct H as [Hex Hm].
    destruct (break_at_some _ _ _ _ _ Eb) as [-> [Hc _]].
    assert (Hpm : py_mant m).
    { destruct (break_at is_dot m) as [ip [[d fp]|]] eqn:Ed.
      - left. destruct (break_at_some _ _ _ _ _ Ed) as [-> [Hd _]].
        apply andb_true_iff in Hm. destruct Hm. exists ip, d, fp. repeat split; assumption.
      - right. destruct (break_at_none _ _ _ Ed) as [<- _]. exact Hm. }
    destruct (py_mant_plain m Hpm) as [Hplain Hstart].
    destruct (plain_no_e m Hplain) as [Hne _].
    destruct (e_lower_facts c Hc) as [Hce [Hcd _]].
    unfold py_exp in Hex. destruct ex as [|sg ds]; [discriminate|].
    apply andb_true_iff in Hex. destruct Hex as [Hex Hlen]. apply andb_true_iff in Hex. destruct Hex as [Hsg Hds].
    assert (Hds1 : digits1 ds = true).
    { unfold digits1. rewrite Hds, andb_true_r. destruct ds; [discriminate | reflexivity]. }
    repeat split.
    + unfold float_value. rewrite (break_at_app is_e m (String sg ds) c Hne Hce).
      destruct (signif_of_py_mant m Hpm) as [[mv e1] ->].
      destruct (parse_N_digits1 ds Hds1) as [y Hy].
      unfold exp_value. destruct (sign_facts sg Hsg) as [_ [Hp | [Hp Hmi]]].
      * rewrite Hp, Hds1, Hy. eexists; reflexivity.
      * rewrite Hp, Hmi, Hds1, Hy. eexists; reflexivity.
    + apply int_value_not_digits. apply not_digits_app. exact Hcd.
    + apply ppnum_exp; assumption.
    + apply starts_number_app; assumption.
  - (* plain form: digits . digits *)
    destruct (break_at_none _ _ _ Eb) as [<- _].
    destruct (break_at is_dot s) as [ip [[d fp]|]] eqn:Ed; [|discriminate].
    apply andb_true_iff in H. destruct H as [Hip Hfp].
    destruct (break_at_some _ _ _ _ _ Ed) as [Hs [Hd _]].
    assert (Hpm : py_mant s) by (left; exists ip, d, fp; repeat split; assumption).
    destruct (py_mant_plain s Hpm) as [Hplain Hstart].
    destruct (plain_no_e s Hplain) as [Hne _].
    repeat split.
    + unfold float_value. rewrite (break_at_all is_e s Hne).
      unfold signif_value. rewrite Ed.
      unfold digits1 in Hip, Hfp. apply andb_true_iff in Hip, Hfp. destruct Hip as [Hn1 Hd1]. destruct Hfp as [Hn2 Hd2].
      rewrite Hd1, Hd2, Hn1. simpl.
      destruct (parse_digits_some (ip +++ fp) 0%N) as [y Hy]; [now rewrite all_digits_app, Hd1, Hd2|].
      rewrite Hy. eexists; reflexivity.
    + apply int_value_not_digits. rewrite Hs. apply not_digits_app. now destruct (dot_facts d Hd) as [_ [-> _]].
    + apply ppnum_plain. exact Hplain.
    + exact Hstart.
Qed.

Lemma starts_number_first : forall s : string, starts_number s = true ->
  exists c r, s = String c r /\ (code c =? 34)%nat = false /\ is_minus c = false.
Proof.
  intros s H. destruct s as [|c r]; [discriminate|]. exists c, r. split; [reflexivity|].
  simpl in H. revert H. by_bytes c; intros _; split; reflexivity.
Qed.

Lemma lex_py_body : forall (s : string) (neg : bool), py_finite_body s = true ->
  exists m e, float_value s = Some (m, e) /\
    lex_prefix (if neg then String "-"%char s else s) = Some (LFloat neg m e, "").
Proof.
  intros s neg H. destruct (py_body_is_cpp_float s H) as [[[m e] Hv] [Hi [Hpp Hst]]].
  exists m, e. split; [exact Hv|].
  destruct neg.
  - unfold lex_prefix. change (code "-"%char =? 34)%nat with false. change (is_minus "-"%char) with true. cbv iota.
    rewrite Hst, Hpp. simpl fst. simpl snd. unfold number_value. rewrite Hi, Hv. reflexivity.
  - destruct (starts_number_first s Hst) as [c [r [E [H1 H2]]]].
    unfold lex_prefix. rewrite E at 1. rewrite H1, H2, Hst, Hpp. simpl fst. simpl snd.
    unfold number_value. rewrite Hi, Hv. reflexivity.
Qed.

Lemma strip_minus_spec : forall t : string,
  t = (if fst (strip_minus t) then String "-"%char (snd (strip_minus t)) else snd (strip_minus t)).
Proof.
  intros t. destruct t as [|c r]; [reflexivity|]. unfold strip_minus.
  destruct (is_minus c) eqn:E; [|reflexivity]. simpl. f_equal.
  revert E. by_bytes c.
Qed.

Lemma finite_not_nonfinite : forall t : string, py_float_finite t = true -> nonfinite_repr t = false.
Proof.
  intros t H. unfold nonfinite_repr.
  destruct (String.eqb t "inf") eqn:E1; [apply String.eqb_eq in E1; subst; discriminate|].
  destruct (String.eqb t "-inf") eqn:E2; [apply String.eqb_eq in E2; subst; discriminate|].
  destruct (String.eqb t "nan") eqn:E3; [apply String.eqb_eq in E3; subst; discriminate|].
  reflexivity.
Qed.

(* visit_Constant on a finite float: the repr text goes out unchanged, it is one C++ floating literal,
   the sign is the sign of the repr *)
Lemma render_float_ok : forall t : string, py_float_finite t = true ->
  render (CFloat t) = OK (t, TDouble) /\
  cpp_float_lit (snd (strip_minus t)) = true /\
  exists m e, float_value (snd (strip_minus t)) = Some (m, e) /\ lex t = Some (LFloat (fst (strip_minus t)) m e).
Proof.
  intros t H. split; [|split].
  - unfold render. now rewrite (finite_not_nonfinite t H).
  - unfold py_float_finite in H. destruct (py_body_is_cpp_float _ H) as [[v Hv] _].
    unfold cpp_float_lit. now rewrite Hv.
  - unfold py_float_finite in H.
    destruct (lex_py_body _ (fst (strip_minus t)) H) as [m [e [Hv Hl]]].
    exists m, e. split; [exact Hv|]. unfold lex. rewrite (strip_minus_spec t) at 1. rewrite Hl. reflexivity.
Qed.

Lemma render_float_nonfinite : forall t : string, nonfinite_repr t = true -> render (CFloat t) = Error ErrValue.
Proof. intros t H. unfold render. now rewrite H. Qed.

Lemma py_float_repr_cases : forall t : string, py_float_repr t = true ->
  (py_float_finite t = true /\ nonfinite_repr t = false) \/ nonfinite_repr t = true.
Proof.
  intros t H. unfold py_float_repr in H. apply orb_true_iff in H. destruct H as [H|H].
  - left. split; [exact H | now apply finite_not_nonfinite].
  - now right.
Qed.

(* before the fix inf / nan went out as identifiers *)
Lemma render_v0_float_refuted :
  exists t : string, py_float_repr t = true /\ render_v0 (CFloat t) = OK (t, TDouble) /\ lex t = None.
Proof. exists "inf". repeat split. Qed.

(* ---------- names: each name sits in one string literal, at a fixed place, with its own value ---------- *)
Lemma literal_at_string : forall (pre s rest : string),
  starts_with pre (pre +++ cpp_string_literal s +++ rest) = Some (cpp_string_literal s +++ rest) ->
  literal_at pre (pre +++ cpp_string_literal s +++ rest) = Some (LStr s, rest).
Proof. intros pre s rest H. unfold literal_at. rewrite H. apply lex_prefix_string_literal. Qed.

Lemma starts_with_app : forall pre r : string, starts_with pre (pre +++ r) = Some r.
Proof.
  induction pre as [|c pre IH]; intros r; simpl; [reflexivity|].
  rewrite Ascii.eqb_refl. apply IH.
Qed.

Lemma literal_at_app : forall (pre s rest : string),
  literal_at pre (pre +++ cpp_string_literal s +++ rest) = Some (LStr s, rest).
Proof. intros. apply literal_at_string. apply starts_with_app. Qed.

Lemma branch_line_literal : forall col var : string,
  literal_at "myTree->Branch(" (branch_line (col, var)) = Some (LStr col, ", &" +++ var +++ ");").
Proof. intros. unfold branch_line. cbn [fst snd]. apply literal_at_app. Qed.

Lemma book_tree_atlas : forall (tree : string) (leaves : list (string * string)),
  exists l1 l2, book_lines Atlas tree leaves = l1 :: l2 :: map branch_line leaves /\
    literal_at "ANA_CHECK (book (TTree (" l1 = Some (LStr tree, ", ""My analysis ntuple"")));") /\
    literal_at "auto myTree = tree (" l2 = Some (LStr tree, ");").
Proof.
  intros. eexists; eexists. split; [reflexivity|]. split; apply literal_at_app.
Qed.

Lemma book_tree_cms : forall (b : backend) (tree : string) (leaves : list (string * string)),
  b <> Atlas ->
  exists l2, book_lines b tree leaves = "edm::Service<TFileService> fs;" :: l2 :: map branch_line leaves /\
    literal_at "myTree = fs->make<TTree>(" l2 = Some (LStr tree, ", ""My analysis ntuple"");").
Proof.
  intros b tree leaves Hb. destruct b; [congruence| |]; (eexists; split; [reflexivity|]; apply literal_at_app).
Qed.

Lemma fill_line_atlas : forall tree : string,
  literal_at "tree(" (fill_line Atlas tree) = Some (LStr tree, ")->Fill();").
Proof. intros. apply literal_at_app. Qed.

(* substitution of the rendered bank name into the retrieval line *)
Lemma bank_subst_atlas : forall d : string,
  subst_line [("collection_name", d)] (bank_template Atlas "") =
  "ANA_CHECK (evtStore()->retrieve(result, " +++ d +++ "));".
Proof. intros d. vm_compute. reflexivity. Qed.

Lemma bank_subst_aod : forall d : string,
  subst_line [("collection_name", d)] (bank_template CmsAod "") = "iEvent.getByLabel(" +++ d +++ ", result);".
Proof. intros d. vm_compute. reflexivity. Qed.

Lemma bank_subst_miniaod : forall ty d : string, In ty miniaod_types ->
  subst_line [("collection_name", d)] (bank_template CmsMiniaod ty) =
  ("consumes<" +++ ty +++ ">(edm::InputTag(") +++ d +++ "))".
Proof.
  intros ty d H. unfold miniaod_types in H.
  repeat (destruct H as [<- | H]; [vm_compute; reflexivity|]). destruct H.
Qed.

Definition bank_prefix (b : backend) (ty : string) : string :=
  match b with
  | Atlas => "ANA_CHECK (evtStore()->retrieve(result, "
  | CmsAod => "iEvent.getByLabel("
  | CmsMiniaod => "consumes<" +++ ty +++ ">(edm::InputTag("
  end.
Definition bank_suffix (b : backend) : string :=
  match b with Atlas => "));" | CmsAod => ", result);" | CmsMiniaod => "))" end.

Lemma bank_line_literal : forall (b : backend) (ty name : string),
  (b = CmsMiniaod -> In ty miniaod_types) ->
  exists line, bank_line b ty name = OK line /\
    literal_at (bank_prefix b ty) line = Some (LStr name, bank_suffix b).
Proof.
  intros b ty name Hty. unfold bank_line. rewrite render_str.
  eexists. split; [reflexivity|].
  destruct b.
  - change (bank_template Atlas ty) with (bank_template Atlas ""). rewrite bank_subst_atlas. apply literal_at_app.
  - change (bank_template CmsAod ty) with (bank_template CmsAod ""). rewrite bank_subst_aod. apply literal_at_app.
  - rewrite (bank_subst_miniaod ty _ (Hty eq_refl)). apply literal_at_app.
Qed.

(* one pass over the getAttribute line: object name and attribute literal are both inserted unchanged *)
Lemma attr_subst : forall obj d : string,
  subst_line [("obj_j", obj); ("moment_name", d)] "auto result = obj_j->getAttribute<float>(moment_name);" =
  "auto result = " +++ obj +++ "->getAttribute<float>(" +++ d +++ ");".
Proof. intros obj d. vm_compute. reflexivity. Qed.

Lemma attribute_line_literal : forall (obj attr : string),
  exists line, attribute_line obj attr = OK line /\
    literal_at ("auto result = " +++ obj +++ "->getAttribute<float>(") line = Some (LStr attr, ");").
Proof.
  intros obj attr. unfold attribute_line. rewrite render_str.
  eexists. split; [reflexivity|].
  rewrite attr_subst.
  replace ("auto result = " +++ obj +++ "->getAttribute<float>(" +++ cpp_string_literal attr +++ ");")
    with (("auto result = " +++ obj +++ "->getAttribute<float>(") +++ cpp_string_literal attr +++ ");")
    by (now rewrite !app_assoc_s).
  apply literal_at_app.
Qed.

(* a string constant passed for an earlier parameter of a three-parameter user function: the object text,
   the literal and the later argument are all inserted unchanged -- in particular the literal is not searched
   for the later parameter names *)
Lemma user_subst : forall (ps : string * (string * string)) (obj d later : string), In ps user_params ->
  subst_line [(fst ps, obj); (fst (snd ps), d); (snd (snd ps), later)] (user_template (fst ps) (fst (snd ps)) (snd (snd ps))) =
  "double result = g_labelled_value(*" +++ obj +++ ", " +++ d +++ ", " +++ later +++ ");".
Proof.
  intros ps obj d later H. unfold user_params in H.
  repeat (destruct H as [<- | H]; [vm_compute; reflexivity|]). destruct H.
Qed.

Lemma user_call_literal : forall (ps : string * (string * string)) (obj s later : string), In ps user_params ->
  exists line, user_call_line (fst ps) (fst (snd ps)) (snd (snd ps)) obj (CStr s) later = OK line /\
    literal_at ("double result = g_labelled_value(*" +++ obj +++ ", ") line = Some (LStr s, ", " +++ later +++ ");").
Proof.
  intros ps obj s later H. unfold user_call_line. rewrite render_str.
  eexists. split; [reflexivity|].
  rewrite (user_subst ps obj _ later H).
  replace ("double result = g_labelled_value(*" +++ obj +++ ", " +++ cpp_string_literal s +++ ", " +++ later +++ ");")
    with (("double result = g_labelled_value(*" +++ obj +++ ", ") +++ cpp_string_literal s +++ ", " +++ later +++ ");")
    by (now rewrite !app_assoc_s).
  apply literal_at_app.
Qed.

(* the one-parameter-at-a-time substitution (what replace_whole_words must not be): the literal is searched again *)
Definition subst_sequential (repl : list (string * string)) (line : string) : string :=
  fold_left (fun l sd => subst_line [sd] l) repl line.
Lemma sequential_subst_refuted :
  exists line, subst_sequential [("jet", "i_obj1"); ("label", cpp_string_literal "pt bin"); ("bin", "3")] (user_template "jet" "label" "bin") = line /\
    literal_at "double result = g_labelled_value(*i_obj1, " line = Some (LStr "pt 3", ", 3);").
Proof. eexists. split; [reflexivity | vm_compute; reflexivity]. Qed.
