(* Executing statements never changes WHICH names are declared in which frame: declarations are added only to the
   frame a block opens for itself (and that frame is popped when the block ends); assignments replace values in
   place.  Hence after any statement, block or statement list that terminates normally the stack of frames has the
   names it had before - for every program of the IR, every event and every state.
   Used by the fragment proofs for code inside if-blocks, and it is the reason why "a name declared in a block is
   visible in that block only" (C02) is a property of the semantics itself. *)
From FV Require Import Base.Prelude Cpp.IR Cpp.Exec Proofs.StaticProofs Proofs.LoweringProofs.

Definition fnames (f : frame) : list string := map fst f.
Definition shape (st : state) : list (list string) := map fnames (frames st).

Lemma frame_set_names (x : string) (v : value) (f f' : frame) : frame_set x v f = Some f' -> fnames f' = fnames f.
Proof.
  revert f'. induction f as [|[y [t w]] r IH]; intros f' H; cbn [frame_set] in H; [discriminate|].
  destruct (String.eqb x y).
  - inversion H; subst. reflexivity.
  - destruct (frame_set x v r) as [r'|] eqn:E; [|discriminate]. inversion H; subst.
    cbn [fnames map fst]. f_equal. apply IH. reflexivity.
Qed.

Lemma frames_set_names (x : string) (v : value) (fs fs' : list frame) :
  frames_set x v fs = Some fs' -> map fnames fs' = map fnames fs.
Proof.
  revert fs'. induction fs as [|f r IH]; intros fs' H; cbn [frames_set] in H; [discriminate|].
  destruct (frame_set x v f) as [f'|] eqn:E.
  - inversion H; subst. cbn [map]. rewrite (frame_set_names x v f f' E). reflexivity.
  - destruct (frames_set x v r) as [r'|] eqn:Er; [|discriminate]. inversion H; subst.
    cbn [map]. rewrite (IH r' eq_refl). reflexivity.
Qed.

Lemma assign_shape (x : string) (v : value) (st st' : state) : assign x v st = Some st' -> shape st' = shape st.
Proof.
  unfold assign, shape. destruct (frames_set x v (frames st)) as [fs|] eqn:E.
  - intro H. inversion H; subst. cbn [frames]. apply (frames_set_names x v _ _ E).
  - destruct (frame_set x v (members st)); intro H; inversion H; subst. reflexivity.
Qed.

Lemma declare_tl (x t : string) (v : value) (st : state) : frames st <> [] -> tl (shape (declare x t v st)) = tl (shape st).
Proof. unfold declare, shape. destruct (frames st) as [|f r]; [contradiction|reflexivity]. Qed.
Lemma declare_nonempty (x t : string) (v : value) (st : state) : frames (declare x t v st) <> [].
Proof. unfold declare. destruct (frames st); discriminate. Qed.

Lemma run_decls_tl (ev : event) (ds : list decl) : forall st st',
  frames st <> [] -> run_decls ev ds st = ROk st' -> tl (shape st') = tl (shape st) /\ frames st' <> [].
Proof.
  induction ds as [|d r IH]; intros st st' Hne H; cbn [run_decls] in H.
  - inversion H; subst. split; [reflexivity|exact Hne].
  - destruct (d_init d) as [e|].
    + destruct (eval ev st e) as [v|f|k]; cbn [rbind] in H; try discriminate.
      destruct (IH _ _ (declare_nonempty _ _ _ st) H) as [E N]. split; [|exact N].
      rewrite E. apply declare_tl, Hne.
    + destruct (IH _ _ (declare_nonempty _ _ _ st) H) as [E N]. split; [|exact N].
      rewrite E. apply declare_tl, Hne.
Qed.

Lemma pop_shape (st : state) : shape (pop_frame st) = tl (shape st).
Proof. unfold shape, pop_frame. cbn [frames]. destruct (frames st); reflexivity. Qed.

Section Shape.
Variable brs : list branch.
Variable ev : event.

Definition Ps (s : stmt) : Prop := forall st st', exec_stmt brs ev s st = ROk st' -> shape st' = shape st.
Definition Pb (b : block) : Prop := forall pre st st', exec_block brs ev b pre st = ROk st' -> shape st' = shape st.
Definition Pl (l : stmts) : Prop := forall st st', exec_stmts brs ev l st = ROk st' -> shape st' = shape st.

Lemma for_loop_shape (x : string) (b : block) : Pb b -> forall (l : list value) (st st' : state),
  (fix loop (l : list value) (st : state) {struct l} : res state :=
     match l with
     | [] => ROk st
     | v :: r => rdo st1 <- exec_block brs ev b [(x, ("auto", v))] st; loop r st1
     end) l st = ROk st' -> shape st' = shape st.
Proof.
  intros Hb. induction l as [|v r IH]; intros st st' H.
  - inversion H; subst. reflexivity.
  - destruct (exec_block brs ev b [(x, ("auto", v))] st) as [st1|f|k] eqn:E; cbn [rbind] in H; try discriminate.
    rewrite (IH _ _ H). apply (Hb _ _ _ E).
Qed.

Theorem exec_shape : (forall s, Ps s) /\ (forall b, Pb b) /\ (forall l, Pl l).
Proof.
  apply sbs_mutind2; unfold Ps, Pb, Pl.
  - (* SSet *) intros x c e st st' H. cbn [exec_stmt] in H.
    destruct (eval ev st e) as [v|f|k]; cbn [rbind] in H; try discriminate.
    destruct (lookup x st) as [[t w]|]; try discriminate.
    destruct (assign x _ st) as [s1|] eqn:A; inversion H; subst. apply (assign_shape _ _ _ _ A).
  - (* SPush *) intros x c e st st' H. cbn [exec_stmt] in H.
    destruct (eval ev st e) as [v|f|k]; cbn [rbind] in H; try discriminate.
    destruct (lookup x st) as [[t w]|]; try discriminate. destruct w; try discriminate.
    destruct (assign x _ st) as [s1|] eqn:A; inversion H; subst. apply (assign_shape _ _ _ _ A).
  - (* SClear *) intros x st st' H. cbn [exec_stmt] in H.
    destruct (lookup x st) as [[t w]|]; try discriminate. destruct w; try discriminate.
    destruct (assign x _ st) as [s1|] eqn:A; inversion H; subst. apply (assign_shape _ _ _ _ A).
  - (* SFill *) intros line st st' H. cbn [exec_stmt] in H. inversion H; subst. reflexivity.
  - (* SThrow *) intros line st st' H. discriminate H.
  - (* SFetch *) intros idiom target ct bank lines st st' H. cbn [exec_stmt] in H.
    destruct (assoc_ss (ct, bank) (ev_colls ev)) as [v|]; try discriminate.
    destruct (assign target v st) as [s1|] eqn:A; inversion H; subst. apply (assign_shape _ _ _ _ A).
  - (* SIota *) intros v b st st' H. cbn [exec_stmt] in H.
    destruct (lookup v st) as [[t w]|]; try discriminate.
    destruct (lookup b st) as [[t2 w2]|]; destruct w; try discriminate; destruct w2; try discriminate.
    destruct (assign v _ st) as [s1|] eqn:A; inversion H; subst. apply (assign_shape _ _ _ _ A).
  - (* SUser *) intros; discriminate.
  - (* SLine *) intros; discriminate.
  - (* SFor *) intros x e b IHb st st' H. cbn [exec_stmt] in H.
    destruct (eval ev st e) as [c|f|k]; cbn [rbind] in H; try discriminate.
    destruct c; try discriminate. apply (for_loop_shape x b IHb l st st' H).
  - (* SIf *) intros c b IHb els IHels st st' H. cbn [exec_stmt] in H.
    destruct (eval ev st c) as [v|f|k]; cbn [rbind] in H; try discriminate.
    destruct (truth v) as [t|f|k]; cbn [rbind] in H; try discriminate.
    destruct t; [apply (IHb _ _ _ H)|].
    destruct els as [b2|]; [apply (IHels _ _ _ H)|inversion H; reflexivity].
  - (* SBlk *) intros b IHb st st' H. cbn [exec_stmt] in H. apply (IHb _ _ _ H).
  - (* Blk *) intros ds body IHbody pre st st' H. rewrite exec_block_eq in H.
    destruct (run_decls ev ds (enter pre st)) as [st1|f|k] eqn:Ed; cbn [rbind] in H; try discriminate.
    destruct (exec_stmts brs ev body st1) as [st2|f|k] eqn:Eb; cbn [rbind] in H; try discriminate.
    injection H as <-. rewrite pop_shape, (IHbody _ _ Eb).
    destruct (run_decls_tl ev ds (enter pre st) st1) as [E _]; [discriminate|exact Ed|]. rewrite E. reflexivity.
  - (* SNil *) intros st st' H. inversion H; reflexivity.
  - (* SCons *) intros s IHs r IHr st st' H. rewrite exec_stmts_cons in H.
    destruct (exec_stmt brs ev s st) as [s1|f|k] eqn:E; cbn [rbind] in H; try discriminate.
    rewrite (IHr _ _ H). apply (IHs _ _ E).
Qed.
End Shape.
