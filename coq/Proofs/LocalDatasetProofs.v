(* Proofs about the model of local docker execution (Model/LocalDataset.v). *)
From FV Require Import Base.Prelude Model.LocalDataset.

(* ---------- vocabulary of the statements ---------- *)
Definition all_exist (fs : list file) : Prop := forall f, In f fs -> f_exists f = true.
Definition one_dir (d : string) (fs : list file) : Prop := forall f, In f fs -> f_parent f = d.
Definition bytes_only (cs : list chunk) : Prop := forall c, In c cs -> c <> ChOther.
Definition outdir_of (a : dataset_args) (e : env) : string :=
  match a_outdir a with Some d => d | None => e_tmpdir e end.
Definition default_image (a : dataset_args) : string := a_image a +++ ":" +++ a_tag a.

(* the inputs on which the property demands a container run: at least one file, all exist, all in
   directory d, the translator produced a package *)
Definition valid (a : dataset_args) (q : query) (d : string) : Prop :=
  a_files a <> [] /\ all_exist (a_files a) /\ one_dir d (a_files a) /\ q_translate q = None.

(* the image the property text names: the last docker metadata entry decides, an entry without an
   "image" key and the absence of any entry both mean the dataset's image:tag *)
Inductive chosen_image (dflt : string) : list md -> string -> Prop :=
| chosen_none : forall mds, (forall m, In m mds -> m = MdOther) -> chosen_image dflt mds dflt
| chosen_last : forall pre i post, (forall m, In m post -> m = MdOther) ->
    chosen_image dflt (pre ++ MdDocker (Some i) :: post) i
| chosen_last_noimage : forall pre post, (forall m, In m post -> m = MdOther) ->
    chosen_image dflt (pre ++ MdDocker None :: post) dflt.

Definition cache_volume (v : string * string) : volume :=
  {| v_src := SrcName ("func_adl_" +++ fst v); v_dst := snd v; v_mode := None |}.

Definition expected_call (a : dataset_args) (e : env) (q : query) (d : string) : call :=
  {| c_image := pick_image (default_image a) (q_mds q);
     c_command := ["/scripts/" +++ runner_name (a_backend a)];
     c_volumes := [ {| v_src := SrcPkg; v_dst := "/scripts"; v_mode := Some "ro" |};
                    {| v_src := SrcPkg; v_dst := "/results"; v_mode := Some "rw" |};
                    {| v_src := SrcDir (absolute (e_cwd e) d); v_dst := "/data/"; v_mode := Some "ro" |} ]
                  ++ map cache_volume (cache_volumes (a_backend a));
     c_remove := true; c_stream := true |}.

Definition container_fails (k : container) : Prop := k_at_call k = true \/ k_fail_after k <> None.

(* ---------- strings ---------- *)
Lemma append_assoc : forall a b c : string, (a +++ b) +++ c = a +++ (b +++ c).
Proof. induction a as [|ch a IH]; intros b c; simpl; [reflexivity | now rewrite IH]. Qed.

Lemma append_nil_r : forall a : string, a +++ "" = a.
Proof. induction a as [|ch a IH]; simpl; [reflexivity | now rewrite IH]. Qed.

(* ---------- constructor ---------- *)
Lemma find_missing_none : forall fs : list file,
  all_exist fs -> find (fun f => negb (f_exists f)) fs = None.
Proof.
  induction fs as [|f r IH]; intros Hall; simpl; [reflexivity|].
  rewrite (Hall f (or_introl eq_refl)). simpl. apply IH. intros g Hg. apply Hall. now right.
Qed.

Lemma find_missing_some : forall (fs : list file) f,
  In f fs -> f_exists f = false -> exists g, find (fun f => negb (f_exists f)) fs = Some g.
Proof.
  induction fs as [|h r IH]; intros f Hin Hex; [contradiction|].
  simpl. destruct (f_exists h) eqn:Hh; simpl.
  - destruct Hin as [Heq|Hin]; [subst h; congruence|]. eapply IH; eauto.
  - now exists h.
Qed.

Lemma construct_ok : forall (a : dataset_args) (e : env),
  a_files a <> [] -> all_exist (a_files a) ->
  construct a e = OK {| d_files := a_files a; d_docker_image := default_image a;
                        d_output_directory := outdir_of a e; d_backend := a_backend a |}.
Proof.
  intros a e Hne Hall. unfold construct.
  destruct (a_files a) as [|f r] eqn:Hf; [congruence|].
  rewrite (find_missing_none _ Hall). reflexivity.
Qed.

Lemma construct_empty : forall (a : dataset_args) (e : env),
  a_files a = [] -> construct a e = Error ErrRuntime.
Proof. intros a e H. unfold construct. now rewrite H. Qed.

Lemma construct_missing : forall (a : dataset_args) (e : env) f,
  In f (a_files a) -> f_exists f = false -> construct a e = Error ErrFileNotFound.
Proof.
  intros a e f Hin Hex. unfold construct.
  destruct (find_missing_some _ _ Hin Hex) as [g Hg].
  destruct (a_files a) as [|h r] eqn:Hf; [contradiction|]. now rewrite Hg.
Qed.

(* ---------- file list ---------- *)
Lemma filelist_loop_same : forall (fs : list file) d w,
  one_dir d fs ->
  filelist_loop fs (Some d) w = (w +++ concat_str (map filelist_line fs), OK (Some d)).
Proof.
  induction fs as [|u r IH]; intros d w Hd; simpl.
  - now rewrite append_nil_r.
  - rewrite (Hd u (or_introl eq_refl)), String.eqb_refl.
    rewrite IH by (intros g Hg; apply Hd; now right).
    now rewrite append_assoc.
Qed.

Lemma filelist_loop_diff : forall (fs : list file) d w f,
  In f fs -> f_parent f <> d ->
  exists w', filelist_loop fs (Some d) w = (w', Error ErrRuntime).
Proof.
  induction fs as [|u r IH]; intros d w f Hin Hne; [contradiction|].
  simpl. destruct (String.eqb (f_parent u) d) eqn:Hu.
  - apply String.eqb_eq in Hu. destruct Hin as [Heq|Hin]; [subst u; contradiction|].
    eapply IH; eauto.
  - eauto.
Qed.

Lemma filelist_valid : forall (fs : list file) d,
  fs <> [] -> one_dir d fs ->
  filelist_loop fs None "" = (concat_str (map filelist_line fs), OK (Some d)).
Proof.
  intros [|u r] d Hne Hd; [congruence|]. simpl.
  assert (Hu : f_parent u = d) by (apply Hd; now left).
  rewrite Hu. rewrite filelist_loop_same by (intros g Hg; apply Hd; now right).
  reflexivity.
Qed.

Lemma filelist_two_dirs : forall (fs : list file) f g,
  In f fs -> In g fs -> f_parent f <> f_parent g ->
  exists w', filelist_loop fs None "" = (w', Error ErrRuntime).
Proof.
  intros [|u r] f g Hf Hg Hne; [contradiction|]. simpl.
  destruct (string_dec (f_parent f) (f_parent u)) as [Efu|Nfu].
  - (* g differs from the first directory *)
    assert (Hgu : f_parent g <> f_parent u) by congruence.
    destruct Hg as [Heq|Hg]; [subst g; congruence|].
    eapply filelist_loop_diff; eauto.
  - destruct Hf as [Heq|Hf]; [subst f; congruence|].
    eapply filelist_loop_diff; eauto.
Qed.

(* ---------- image ---------- *)
Lemma found_docker_app : forall dflt (l1 l2 : list md),
  found_docker dflt (l1 ++ l2) = found_docker dflt l1 ++ found_docker dflt l2.
Proof.
  induction l1 as [|m r IH]; intros l2; simpl; [reflexivity|].
  destruct m as [[i|]|]; simpl; now rewrite IH.
Qed.

Lemma found_docker_other : forall dflt (l : list md),
  (forall m, In m l -> m = MdOther) -> found_docker dflt l = [].
Proof.
  induction l as [|m r IH]; intros H; simpl; [reflexivity|].
  rewrite (H m (or_introl eq_refl)). apply IH. intros x Hx. apply H. now right.
Qed.

Lemma last_snoc : forall (A : Type) (l : list A) (x d : A), List.last (l ++ [x]) d = x.
Proof.
  induction l as [|y r IH]; intros x d; simpl; [reflexivity|].
  destruct (r ++ [x]) eqn:Hr; [destruct r; discriminate|]. rewrite <- Hr. apply IH.
Qed.

Lemma pick_image_spec : forall dflt (mds : list md) i,
  chosen_image dflt mds i -> pick_image dflt mds = i.
Proof.
  intros dflt mds i H. unfold pick_image. destruct H as [mds H | pre i post H | pre post H].
  - now rewrite found_docker_other.
  - rewrite found_docker_app. simpl. rewrite (found_docker_other _ _ H). apply last_snoc.
  - rewrite found_docker_app. simpl. rewrite (found_docker_other _ _ H). apply last_snoc.
Qed.

(* the relation is total: some image is always chosen, so pick_image_spec says everything *)
Lemma chosen_image_total : forall dflt (mds : list md), exists i, chosen_image dflt mds i.
Proof.
  intros dflt mds. induction mds as [|m r IH] using rev_ind.
  - exists dflt. apply chosen_none. intros m [].
  - destruct m as [[i|]|].
    + exists i. apply (chosen_last dflt r i []). intros m [].
    + exists dflt. apply (chosen_last_noimage dflt r []). intros m [].
    + destruct IH as [i Hi]. exists i. destruct Hi as [mds H | pre i post H | pre post H].
      * apply chosen_none. intros m Hm. apply in_app_or in Hm. destruct Hm as [Hm|[Hm|[]]]; auto.
      * rewrite <- app_assoc. simpl. apply chosen_last.
        intros m Hm. apply in_app_or in Hm. destruct Hm as [Hm|[Hm|[]]]; auto.
      * rewrite <- app_assoc. simpl. apply chosen_last_noimage.
        intros m Hm. apply in_app_or in Hm. destruct Hm as [Hm|[Hm|[]]]; auto.
Qed.

Lemma image_spec : forall dflt (mds : list md),
  (forall i, chosen_image dflt mds i -> pick_image dflt mds = i) /\ exists i, chosen_image dflt mds i.
Proof.
  intros dflt mds. split; [intros i; exact (pick_image_spec dflt mds i) | exact (chosen_image_total dflt mds)].
Qed.

(* ---------- streaming loop ---------- *)
Lemma stream_ok_no_fail : forall (cs : list chunk) fail,
  stream_loop cs fail = OK tt -> fail = None /\ bytes_only cs.
Proof.
  induction cs as [|c r IH]; intros fail H.
  - destruct fail as [[|n]|]; simpl in H; try discriminate. split; [reflexivity | intros c []].
  - destruct fail as [[|n]|]; simpl in H; try discriminate.
    + destruct c; [|discriminate]. apply IH in H. destruct H as [H _]. discriminate.
    + destruct c; [|discriminate]. apply IH in H. destruct H as [_ H]. split; [reflexivity|].
      intros c [Hc|Hc]; [subst c; discriminate | now apply H].
Qed.

Lemma stream_bytes_ok : forall cs : list chunk, bytes_only cs -> stream_loop cs None = OK tt.
Proof.
  induction cs as [|c r IH]; intros H; simpl; [reflexivity|].
  destruct c; [|exfalso; now apply (H ChOther (or_introl eq_refl))].
  apply IH. intros c Hc. apply H. now right.
Qed.

Lemma stream_bytes_fail : forall (cs : list chunk) n,
  bytes_only cs -> stream_loop cs (Some n) = Error ErrDocker.
Proof.
  induction cs as [|c r IH]; intros n H; destruct n as [|n]; simpl; try reflexivity.
  destruct c; [|exfalso; now apply (H ChOther (or_introl eq_refl))].
  apply IH. intros c Hc. apply H. now right.
Qed.

Lemma run_container_ok : forall k : container,
  run_container k = OK tt <-> (k_at_call k = false /\ k_fail_after k = None /\ bytes_only (k_chunks k)).
Proof.
  intros k. unfold run_container. split.
  - destruct (k_at_call k); [discriminate|]. intros H. apply stream_ok_no_fail in H. tauto.
  - intros (Ha & Hf & Hb). rewrite Ha, Hf. now apply stream_bytes_ok.
Qed.

Lemma run_container_fails : forall k : container,
  bytes_only (k_chunks k) -> container_fails k -> run_container k = Error ErrDocker.
Proof.
  intros k Hb Hf. unfold run_container. destruct (k_at_call k) eqn:Ha; [reflexivity|].
  destruct Hf as [Hf|Hf]; [congruence|].
  destruct (k_fail_after k) as [n|]; [|congruence]. now apply stream_bytes_fail.
Qed.

(* ---------- the whole run on valid inputs ---------- *)
Lemma run_valid : forall (a : dataset_args) (e : env) (q : query) (k : container) d,
  valid a q d ->
  run a e q k =
    let c := expected_call a e q d in
    let fl := concat_str (map filelist_line (a_files a)) in
    match run_container k with
    | Error er => {| x_calls := [c]; x_filelist := fl; x_outcome := Error er |}
    | OK _ =>
        match extract_result k e (outdir_of a e) with
        | Error er => {| x_calls := [c]; x_filelist := fl; x_outcome := Error er |}
        | OK p => {| x_calls := [c]; x_filelist := fl; x_outcome := OK [p] |}
        end
    end.
Proof.
  intros a e q k d (Hne & Hall & Hd & Htr). unfold run.
  rewrite (construct_ok a e Hne Hall). unfold execute. simpl.
  rewrite Htr, (filelist_valid _ d Hne Hd). reflexivity.
Qed.

(* ---------- C17_precheck ---------- *)
Lemma precheck : forall (a : dataset_args) (e : env) (q : query) (k : container),
  (a_files a = [] -> x_outcome (run a e q k) = Error ErrRuntime) /\
  ((exists f, In f (a_files a) /\ f_exists f = false) ->
     x_outcome (run a e q k) = Error ErrFileNotFound) /\
  (all_exist (a_files a) -> q_translate q = None ->
   (exists f g, In f (a_files a) /\ In g (a_files a) /\ f_parent f <> f_parent g) ->
     x_outcome (run a e q k) = Error ErrRuntime) /\
  (a_files a = [] \/ (exists f, In f (a_files a) /\ f_exists f = false) \/
   (exists f g, In f (a_files a) /\ In g (a_files a) /\ f_parent f <> f_parent g) ->
     x_calls (run a e q k) = [] /\ exists er, x_outcome (run a e q k) = Error er).
Proof.
  intros a e q k.
  assert (Hempty : a_files a = [] -> run a e q k = {| x_calls := []; x_filelist := ""; x_outcome := Error ErrRuntime |}).
  { intros H. unfold run. now rewrite (construct_empty a e H). }
  assert (Hmiss : (exists f, In f (a_files a) /\ f_exists f = false) ->
                  run a e q k = {| x_calls := []; x_filelist := ""; x_outcome := Error ErrFileNotFound |}).
  { intros (f & Hin & Hex). unfold run. now rewrite (construct_missing a e f Hin Hex). }
  assert (Htwo : all_exist (a_files a) ->
                 (exists f g, In f (a_files a) /\ In g (a_files a) /\ f_parent f <> f_parent g) ->
                 x_calls (run a e q k) = [] /\
                 exists er, x_outcome (run a e q k) = Error er /\ (q_translate q = None -> er = ErrRuntime)).
  { intros Hall (f & g & Hf & Hg & Hne). unfold run.
    rewrite (construct_ok a e) by (try assumption; intros H; rewrite H in Hf; contradiction).
    unfold execute. simpl. destruct (q_translate q) as [er|]; simpl.
    - split; [reflexivity|]. exists er. split; [reflexivity | discriminate].
    - destruct (filelist_two_dirs _ f g Hf Hg Hne) as [w' Hw]. rewrite Hw. simpl.
      split; [reflexivity|]. exists ErrRuntime. split; reflexivity. }
  split; [|split; [|split]].
  - intros H. now rewrite (Hempty H).
  - intros H. now rewrite (Hmiss H).
  - intros Hall Htr H. destruct (Htwo Hall H) as (_ & er & Her & Hcls). rewrite Her, (Hcls Htr). reflexivity.
  - intros [H|[H|H]].
    + rewrite (Hempty H). simpl. eauto.
    + rewrite (Hmiss H). simpl. eauto.
    + (* files in two directories: either one of them is missing (constructor) or the loop raises *)
      destruct (forallb f_exists (a_files a)) eqn:Hfa.
      * assert (Hall : all_exist (a_files a)) by (intros f Hf; eapply forallb_forall in Hfa; eauto).
        destruct (Htwo Hall H) as (Hc & er & Her & _). eauto.
      * assert (Hm : exists f, In f (a_files a) /\ f_exists f = false).
        { clear -Hfa. induction (a_files a) as [|h r IH]; simpl in Hfa; [discriminate|].
          destruct (f_exists h) eqn:Hh; simpl in Hfa.
          - destruct (IH Hfa) as (f & Hf & Hx). exists f. split; [now right | assumption].
          - exists h. split; [now left | assumption]. }
        rewrite (Hmiss Hm). simpl. eauto.
Qed.

(* a translation error also prevents any container from starting *)
Lemma translate_error_no_call : forall (a : dataset_args) (e : env) (q : query) (k : container) er,
  q_translate q = Some er ->
  x_calls (run a e q k) = [] /\ exists er', x_outcome (run a e q k) = Error er'.
Proof.
  intros a e q k er Htr. unfold run. destruct (construct a e) as [ds|er0]; simpl; [|eauto].
  unfold execute. rewrite Htr. simpl. eauto.
Qed.

(* ---------- C17_call ---------- *)
Lemma call_shape : forall (a : dataset_args) (e : env) (q : query) (k : container) d,
  valid a q d ->
  x_calls (run a e q k) = [expected_call a e q d] /\
  x_filelist (run a e q k) = concat_str (map (fun f => "/data/" +++ f_name f +++ nl) (a_files a)).
Proof.
  intros a e q k d Hv. rewrite (run_valid a e q k d Hv). cbv zeta.
  destruct (run_container k) as [u|er]; [destruct (extract_result k e (outdir_of a e))|]; simpl; auto.
Qed.

Lemma call_image : forall (a : dataset_args) (e : env) (q : query) d i,
  chosen_image (default_image a) (q_mds q) i -> c_image (expected_call a e q d) = i.
Proof. intros a e q d i H. simpl. now apply pick_image_spec. Qed.

(* ---------- C17_outcome ---------- *)
Lemma outcome : forall (a : dataset_args) (e : env) (q : query) (k : container) d,
  valid a q d ->
  let r := x_outcome (run a e q k) in
  (bytes_only (k_chunks k) -> container_fails k -> r = Error ErrDocker) /\
  (bytes_only (k_chunks k) -> ~ container_fails k -> k_result k = false -> r = Error ErrFileNotFound) /\
  (bytes_only (k_chunks k) -> ~ container_fails k -> k_result k = true -> e_outdir_exists e = false ->
     r = Error ErrFileNotFound) /\
  (bytes_only (k_chunks k) -> ~ container_fails k -> k_result k = true -> e_outdir_exists e = true ->
     r = OK [path_join (outdir_of a e) "ANALYSIS.root"]).
Proof.
  intros a e q k d Hv. rewrite (run_valid a e q k d Hv). cbv zeta.
  assert (Hok : bytes_only (k_chunks k) -> ~ container_fails k -> run_container k = OK tt).
  { intros Hb Hnf. apply run_container_ok. unfold container_fails in Hnf.
    destruct (k_at_call k); [exfalso; apply Hnf; now left|].
    destruct (k_fail_after k); [exfalso; apply Hnf; right; discriminate|]. auto. }
  split; [|split; [|split]].
  - intros Hb Hf. now rewrite (run_container_fails k Hb Hf).
  - intros Hb Hnf Hr. rewrite (Hok Hb Hnf). unfold extract_result. now rewrite Hr.
  - intros Hb Hnf Hr Ho. rewrite (Hok Hb Hnf). unfold extract_result. now rewrite Hr, Ho.
  - intros Hb Hnf Hr Ho. rewrite (Hok Hb Hnf). unfold extract_result. now rewrite Hr, Ho.
Qed.

(* converse, with no assumption at all on the inputs: a path is returned only when every check
   passed, exactly one container ran to completion without error and left the result file *)
Lemma returned_only_on_success : forall (a : dataset_args) (e : env) (q : query) (k : container) ps,
  x_outcome (run a e q k) = OK ps ->
  ps = [path_join (outdir_of a e) "ANALYSIS.root"] /\
  (exists d, valid a q d /\ x_calls (run a e q k) = [expected_call a e q d]) /\
  k_at_call k = false /\ k_fail_after k = None /\ k_result k = true /\ e_outdir_exists e = true.
Proof.
  intros a e q k ps H.
  (* the inputs are valid, otherwise an error *)
  destruct (a_files a) as [|f0 r] eqn:Hfs.
  { unfold run in H. rewrite (construct_empty a e Hfs) in H. discriminate. }
  destruct (forallb f_exists (a_files a)) eqn:Hfa.
  2:{ assert (Hm : exists f, In f (a_files a) /\ f_exists f = false).
      { clear -Hfa. induction (a_files a) as [|h t IH]; simpl in Hfa; [discriminate|].
        destruct (f_exists h) eqn:Hh; simpl in Hfa.
        - destruct (IH Hfa) as (f & Hf & Hx). exists f. split; [now right | assumption].
        - exists h. split; [now left | assumption]. }
      destruct Hm as (f & Hin & Hex). unfold run in H. rewrite (construct_missing a e f Hin Hex) in H. discriminate. }
  assert (Hall : all_exist (a_files a)) by (intros f Hf; eapply forallb_forall in Hfa; eauto).
  assert (Hne : a_files a <> []) by (rewrite Hfs; discriminate).
  destruct (q_translate q) as [er|] eqn:Htr.
  { destruct (translate_error_no_call a e q k er Htr) as (_ & er' & Her). congruence. }
  destruct (forallb (fun f => String.eqb (f_parent f) (f_parent f0)) (a_files a)) eqn:Hsame.
  2:{ assert (Hd : exists g, In g (a_files a) /\ f_parent g <> f_parent f0).
      { clear -Hsame. induction (a_files a) as [|h t IH]; simpl in Hsame; [discriminate|].
        destruct (String.eqb (f_parent h) (f_parent f0)) eqn:Hh; simpl in Hsame.
        - destruct (IH Hsame) as (g & Hg & Hx). exists g. split; [now right | assumption].
        - exists h. split; [now left | now apply String.eqb_neq]. }
      destruct Hd as (g & Hg & Hx).
      destruct (precheck a e q k) as (_ & _ & H3 & _).
      rewrite H3 in H; try assumption; [discriminate|].
      exists g, f0. repeat split; try assumption. rewrite Hfs. now left. }
  assert (Hd : one_dir (f_parent f0) (a_files a)).
  { intros f Hf. eapply forallb_forall in Hsame; eauto. now apply String.eqb_eq. }
  assert (Hv : valid a q (f_parent f0)) by (repeat split; assumption).
  pose proof (call_shape a e q k _ Hv) as [Hc _].
  rewrite (run_valid a e q k _ Hv) in H. cbv zeta in H.
  destruct (run_container k) as [[]|er] eqn:Hrun; [|discriminate].
  apply run_container_ok in Hrun. destruct Hrun as (Ha & Hf & _).
  unfold extract_result in H.
  destruct (k_result k) eqn:Hr; [|discriminate].
  destruct (e_outdir_exists e) eqn:Ho; [|discriminate].
  simpl in H. inversion H. repeat split; try reflexivity; try assumption.
  exists (f_parent f0). split; assumption.
Qed.
