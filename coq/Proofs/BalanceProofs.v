(* The stack check of Model/Balance.v accepts exactly the words of the bracket grammar D ::= empty | open_k D close_k D:
   for every list of brackets (hence for the brackets of every text). *)
From FV Require Import Base.Prelude Model.Balance.

(* what a stack of pending closers demands of the rest of the word *)
Fixpoint DS (stk : list nat) (l : list br) : Prop :=
  match stk with
  | [] => D l
  | k :: stk' => exists a b, l = a ++ BClose k :: b /\ D a /\ DS stk' b
  end.

Lemma DS_wrap (stk : list nat) (k : nat) (a b : list br) : D a -> DS stk b -> DS stk (BOpen k :: a ++ BClose k :: b).
Proof.
  destruct stk as [|k' stk']; cbn [DS]; intros Ha Hb.
  - apply D1; assumption.
  - destruct Hb as (a' & b' & -> & Ha' & Hb').
    exists (BOpen k :: a ++ BClose k :: a'), b'. split; [|split; [apply D1; assumption|exact Hb']].
    cbn [app]. f_equal. rewrite <- app_assoc. reflexivity.
Qed.

Lemma bal_sound (l : list br) : forall stk, bal stk l = true -> DS stk l.
Proof.
  induction l as [|x r IH]; intros stk H; cbn [bal] in H.
  - destruct stk; [apply D0|discriminate].
  - destruct x as [k|k].
    + specialize (IH (k :: stk) H). cbn [DS] in IH. destruct IH as (a & b & -> & Ha & Hb). apply DS_wrap; assumption.
    + destruct stk as [|k' stk']; [discriminate|]. apply andb_prop in H as [Hk Hr]. apply Nat.eqb_eq in Hk. subst k'.
      cbn [DS]. exists [], r. split; [reflexivity|]. split; [apply D0|apply IH, Hr].
Qed.

Lemma bal_skip (l : list br) : D l -> forall stk r, bal stk (l ++ r) = bal stk r.
Proof.
  induction 1 as [|k a b Ha IHa Hb IHb]; intros stk r; [reflexivity|].
  cbn [app bal]. rewrite <- app_assoc. rewrite IHa. cbn [app bal]. rewrite Nat.eqb_refl. cbn [andb]. apply IHb.
Qed.

Theorem balanced_iff_D (l : list br) : balanced l = true <-> D l.
Proof.
  unfold balanced. split.
  - intro H. exact (bal_sound l [] H).
  - intro H. rewrite <- (app_nil_r l). rewrite (bal_skip l H [] []). reflexivity.
Qed.

(* a text is accepted only if its brackets (outside comments and literals) form a word of the grammar *)
Theorem text_balanced_sound (s : string) : text_balanced s = Some true -> exists l, scan (Code false) s = Some l /\ D l.
Proof.
  unfold text_balanced. destruct (scan (Code false) s) as [l|]; cbn [option_map]; [|discriminate].
  intro H. inversion H as [Hb]. exists l. split; [reflexivity|]. apply balanced_iff_D, Hb.
Qed.

Example balance_examples :
  text_balanced "f(a[1]) { if (x) { g(""}""); } /* ) */ } // (" = Some true /\
  text_balanced "f(a) { if (x) { }" = Some false /\
  text_balanced "f(a]) " = Some false /\
  text_balanced "char c = '{'; int n = 1'000; }" = Some false /\
  text_balanced "s = ""abc" = None.
Proof. vm_compute. repeat split; reflexivity. Qed.
